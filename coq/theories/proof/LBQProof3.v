(* Proofs about LBQModel (C07, C09), part 3: no wake-up is lost.
   A call fetches the signal channel UNDER THE LOCK (cond.signalCh reads c.signal before it
   unlocks), so the channel it is going to wait on is the cond's current one; whoever makes the
   waiting condition false afterwards needs the lock, swaps the channel in the same critical
   section and closes exactly the swapped-out one after unlocking.  Hence for every call between
   its fetch and its wake-up: the channel it holds is still current (and then it is right to
   wait), or already closed, or some broadcaster is about to close it. *)
From Ekit Require Import Common Conc LBQModel LBQProof LBQProof2.
From Coq Require Import ZifyBool Arith PeanoNat.

Record invG (c : lbq_cfg) : Prop := {
  g_le : forall t l, lookup t (q_thr c) = Some l -> fetched (l_pc l) = true ->
         (l_sig l <= cur c (wcond (l_op l)))%nat;
  g_live : forall t l, lookup t (q_thr c) = Some l -> fetched (l_pc l) = true -> sig_live c l;
  (* parked = inside the select with neither case ready *)
  g_parked : forall t l, lookup t (q_thr c) = Some l -> l_pc l = PParked ->
             l_cancel l = false /\ mem (l_sig l) (closed c (wcond (l_op l))) = false;
  (* waiting on the CURRENT channel is justified *)
  g_just : forall t l, lookup t (q_thr c) = Some l -> fetched (l_pc l) = true ->
           l_sig l = cur c (wcond (l_op l)) ->
           must_wait c (l_op l) = true \/ swapping c (wcond (l_op l))
}.

Lemma invG_init m : invG (lbq_init m).
Proof. constructor; cbn; discriminate. Qed.

(* ---------- transport of witnesses through a change of the thread table ---------- *)
Definition preserved (f : lbq_pc -> bool) (thr thr' : list (tid * lbq_loc)) : Prop :=
  forall b lb, lookup b thr = Some lb -> f (l_pc lb) = true ->
  exists lb', lookup b thr' = Some lb' /\ f (l_pc lb') = true /\ l_op lb' = l_op lb /\
              (pending (l_pc lb) = true -> pending (l_pc lb') = true /\ l_old lb' = l_old lb).

Lemma pres_update f thr t l l' :
  lookup t thr = Some l ->
  (f (l_pc l) = true -> f (l_pc l') = true /\ l_op l' = l_op l /\
                        (pending (l_pc l) = true -> pending (l_pc l') = true /\ l_old l' = l_old l)) ->
  preserved f thr (update t l' thr).
Proof.
  intros Hl Hf b lb Hb Fb. destruct (Nat.eq_dec b t) as [->|Hne].
  - rewrite Hl in Hb. injection Hb as <-. exists l'.
    rewrite (lookup_update_same _ _ _ _ _ Hl). split; [reflexivity|auto].
  - exists lb. rewrite (lookup_update_other _ _ _ _ _ Hne). auto.
Qed.

Lemma pres_remove f thr t l :
  lookup t thr = Some l -> f (l_pc l) = false -> preserved f thr (remove t thr).
Proof.
  intros Hl Hf b lb Hb Fb. destruct (Nat.eq_dec b t) as [->|Hne].
  - rewrite Hl in Hb. injection Hb as <-. congruence.
  - exists lb. rewrite (lookup_remove_other _ _ _ Hne). auto.
Qed.

Lemma pres_spawn f thr t p : preserved f thr (spawn t p thr).
Proof. intros b lb Hb Fb. exists lb. rewrite lookup_spawn, Hb. auto. Qed.

Lemma pres_wake f k g thr :
  f PParked = false -> preserved f thr (wake_all k g thr).
Proof.
  intros Hf b lb Hb Fb. exists lb. rewrite lookup_wake_all, Hb, wake1_not_parked; [auto|].
  intros E. rewrite E in Fb. congruence.
Qed.

Lemma pres_trans f a b c : preserved f a b -> preserved f b c -> preserved f a c.
Proof.
  intros H1 H2 x lx Hx Fx. destruct (H1 _ _ Hx Fx) as [l1 [A1 [A2 [A3 A4]]]].
  destruct (H2 _ _ A1 A2) as [l2 [B1 [B2 [B3 B4]]]]. exists l2.
  split; [exact B1|]. split; [exact B2|]. split; [congruence|].
  intros Pp. destruct (A4 Pp) as [Q1 Q2]. destruct (B4 Q1) as [Q3 Q4]. split; congruence.
Qed.

Lemma closing_frame c c' k g :
  preserved pending (q_thr c) (q_thr c') -> closing c k g -> closing c' k g.
Proof.
  intros P [b [lb [Hb [Pb [Kb Gb]]]]]. destruct (P _ _ Hb Pb) as [lb' [A1 [A2 [A3 A4]]]].
  destruct (A4 Pb) as [_ A5]. exists b, lb'. repeat split; congruence.
Qed.

Lemma swapping_frame c c' k :
  preserved post_act (q_thr c) (q_thr c') -> swapping c k -> swapping c' k.
Proof.
  intros P [b [lb [Hb [Pb Kb]]]]. destruct (P _ _ Hb Pb) as [lb' [A1 [A2 [A3 A4]]]].
  exists b, lb'. repeat split; congruence.
Qed.

(* the frame rule for sig_live: nothing relevant to l changed *)
Lemma sig_live_frame c c' l l' :
  l_sig l' = l_sig l -> l_op l' = l_op l ->
  (forall k, cur c' k = cur c k) -> (forall k g, mem g (closed c k) = true -> mem g (closed c' k) = true) ->
  preserved pending (q_thr c) (q_thr c') ->
  sig_live c l -> sig_live c' l'.
Proof.
  intros Es Eo Hc Hcl P [H|[H|H]]; unfold sig_live; rewrite Es, Eo.
  - left. rewrite Hc. exact H.
  - right; left. apply Hcl. exact H.
  - right; right. eapply closing_frame; eassumption.
Qed.

Lemma just_frame c c' o :
  must_wait c' o = must_wait c o -> preserved post_act (q_thr c) (q_thr c') ->
  must_wait c o = true \/ swapping c (wcond o) -> must_wait c' o = true \/ swapping c' (wcond o).
Proof.
  intros Em P [H|H]; [left; congruence|right; eapply swapping_frame; eassumption].
Qed.

(* ---------- preservation, by kind of transition ---------- *)

(* thread t moves from l to l'; channels, closed sets and the list are unchanged *)
Lemma invG_update c c' t l l' :
  invG c -> lookup t (q_thr c) = Some l ->
  (forall k, cur c' k = cur c k) -> (forall k, closed c' k = closed c k) ->
  (forall o, must_wait c' o = must_wait c o) -> q_thr c' = update t l' (q_thr c) ->
  l_op l' = l_op l ->
  (pending (l_pc l) = true -> pending (l_pc l') = true /\ l_old l' = l_old l) ->
  (post_act (l_pc l) = true -> post_act (l_pc l') = true) ->
  (fetched (l_pc l') = true ->
   (l_sig l' <= cur c (wcond (l_op l)))%nat /\ sig_live c l' /\
   (l_sig l' = cur c (wcond (l_op l)) -> must_wait c (l_op l) = true \/ swapping c (wcond (l_op l)))) ->
  (l_pc l' = PParked -> l_cancel l' = false /\ mem (l_sig l') (closed c (wcond (l_op l))) = false) ->
  invG c'.
Proof.
  intros [G1 G2 G3 G4] Hl Hcur Hcl Hmw Hthr Eo Hpend Hpost Hown Hpark.
  assert (P1 : preserved pending (q_thr c) (q_thr c')).
  { rewrite Hthr. apply (pres_update _ _ _ l); [exact Hl|]. intros H.
    destruct (Hpend H) as [Q1 Q2]. auto. }
  assert (P2 : preserved post_act (q_thr c) (q_thr c')).
  { rewrite Hthr. apply (pres_update _ _ _ l); [exact Hl|]. intros H. auto. }
  assert (Hclm : forall k g, mem g (closed c k) = true -> mem g (closed c' k) = true)
    by (intros k g; rewrite Hcl; auto).
  constructor; intros t2 l2 H2; rewrite Hthr in H2; inv_lookup H2.
  - intros F. rewrite Hcur, Eo. apply Hown, F.
  - rewrite Hcur. eauto.
  - intros F. destruct (Hown F) as [_ [Hs _]].
    eapply (sig_live_frame c c' l' l'); eauto.
  - intros F. eapply (sig_live_frame c c' l2 l2); eauto.
  - intros F. rewrite Hcl, Eo. apply Hpark, F.
  - rewrite Hcl. eauto.
  - intros F. rewrite Hcur, Eo. intros Es. destruct (Hown F) as [_ [_ Hj]].
    apply (just_frame c c'); [apply Hmw|exact P2|]. apply Hj, Es.
  - intros F. rewrite Hcur. intros Es. apply (just_frame c c'); [apply Hmw|exact P2|]. eauto.
Qed.

(* a call outside the swap/close windows returns *)
Lemma invG_remove c c' t l :
  invG c -> NoDup (tids (q_thr c)) -> lookup t (q_thr c) = Some l ->
  (forall k, cur c' k = cur c k) -> (forall k, closed c' k = closed c k) ->
  (forall o, must_wait c' o = must_wait c o) -> q_thr c' = remove t (q_thr c) ->
  pending (l_pc l) = false -> post_act (l_pc l) = false ->
  invG c'.
Proof.
  intros [G1 G2 G3 G4] Hnd Hl Hcur Hcl Hmw Hthr Hpend Hpost.
  assert (P1 : preserved pending (q_thr c) (q_thr c')).
  { rewrite Hthr. apply (pres_remove _ _ _ l); assumption. }
  assert (P2 : preserved post_act (q_thr c) (q_thr c')).
  { rewrite Hthr. apply (pres_remove _ _ _ l); assumption. }
  assert (Hclm : forall k g, mem g (closed c k) = true -> mem g (closed c' k) = true)
    by (intros k g; rewrite Hcl; auto).
  constructor; intros t2 l2 H2; rewrite Hthr in H2; inv_lookup H2.
  - rewrite Hcur. eauto.
  - intros F. eapply (sig_live_frame c c' l2 l2); eauto.
  - rewrite Hcl. eauto.
  - intros F. rewrite Hcur. intros Es. apply (just_frame c c'); [apply Hmw|exact P2|]. eauto.
Qed.

Lemma invG_spawn c c' t o :
  invG c -> lookup t (q_thr c) = None ->
  (forall k, cur c' k = cur c k) -> (forall k, closed c' k = closed c k) ->
  (forall o, must_wait c' o = must_wait c o) -> q_thr c' = spawn t (new_loc o) (q_thr c) ->
  invG c'.
Proof.
  intros [G1 G2 G3 G4] Hl Hcur Hcl Hmw Hthr.
  assert (P1 : preserved pending (q_thr c) (q_thr c')) by (rewrite Hthr; apply pres_spawn).
  assert (P2 : preserved post_act (q_thr c) (q_thr c')) by (rewrite Hthr; apply pres_spawn).
  assert (Hclm : forall k g, mem g (closed c k) = true -> mem g (closed c' k) = true)
    by (intros k g; rewrite Hcl; auto).
  constructor; intros t2 l2 H2; rewrite Hthr in H2; inv_lookup H2;
    try (destruct o; cbn; discriminate).
  - rewrite Hcur. eauto.
  - intros F. eapply (sig_live_frame c c' l2 l2); eauto.
  - rewrite Hcl. eauto.
  - intros F. rewrite Hcur. intros Es. apply (just_frame c c'); [apply Hmw|exact P2|]. eauto.
Qed.

Lemma fetched_in_q c t l : inv1 c -> lookup t (q_thr c) = Some l -> fetched (l_pc l) = true -> is_qop (l_op l) = true.
Proof.
  intros I Hl F. pose proof (i_pcok c I _ _ Hl) as Hok.
  destruct (l_pc l); cbn in F; try discriminate; exact Hok.
Qed.

Lemma post_act_in_cs p : post_act p = true -> in_cs p = true.
Proof. destruct p; cbn; congruence. Qed.

(* two queue operations: either the one waits on the cond the other broadcasts, or they are of
   the same kind and wait under the same condition *)
Lemma wcond_bcond_cases c o1 o2 :
  is_qop o1 = true -> is_qop o2 = true ->
  wcond o2 = bcond o1 \/ (wcond o2 <> bcond o1 /\ must_wait c o2 = must_wait c o1).
Proof. destruct o1, o2; cbn; intros; try discriminate; auto; right; split; congruence. Qed.

(* the linearisation step: Append / Delete(0) *)
Lemma invG_act c c' t l l' :
  inv1 c -> invD c -> invG c -> lookup t (q_thr c) = Some l -> l_pc l = PAct -> is_qop (l_op l) = true ->
  (forall k, cur c' k = cur c k) -> (forall k, closed c' k = closed c k) ->
  q_thr c' = update t l' (q_thr c) -> l_op l' = l_op l -> l_pc l' = PBcast ->
  invG c'.
Proof.
  intros I D [G1 G2 G3 G4] Hl Hpc Hq Hcur Hcl Hthr Eo Epc.
  assert (P1 : preserved pending (q_thr c) (q_thr c')).
  { rewrite Hthr. apply (pres_update _ _ _ l); [exact Hl|]. rewrite Hpc. discriminate. }
  assert (Hclm : forall k g, mem g (closed c k) = true -> mem g (closed c' k) = true)
    by (intros k g; rewrite Hcl; auto).
  constructor; intros t2 l2 H2; rewrite Hthr in H2; inv_lookup H2;
    try (rewrite Epc; discriminate).
  - rewrite Hcur. eauto.
  - intros F. eapply (sig_live_frame c c' l2 l2); eauto.
  - rewrite Hcl. eauto.
  - intros F. rewrite Hcur. intros Es.
    pose proof (fetched_in_q c _ _ I H F) as Hq2.
    destruct (wcond_bcond_cases c (l_op l) (l_op l2) Hq Hq2) as [Ew|[Ew Em]].
    + right. exists t, l'. rewrite Hthr, (lookup_update_same _ _ _ _ _ Hl), Epc, Eo. auto.
    + exfalso. destruct (G4 _ _ H F Es) as [Hm|[b [lb [Hb [Pb Kb]]]]].
      * rewrite Em, (d_act c D _ _ Hl Hpc) in Hm. discriminate.
      * assert (b = t).
        { apply (cs_unique c b lb t l I Hb Hl); [apply post_act_in_cs, Pb|rewrite Hpc; reflexivity]. }
        subst b. rewrite Hl in Hb. injection Hb as <-. rewrite Hpc in Pb. discriminate.
Qed.

(* c.signal = signal *)
Lemma invG_bset c c' t l l' k :
  inv1 c -> invD c -> invG c -> lookup t (q_thr c) = Some l -> l_pc l = BSet -> bcond (l_op l) = k ->
  cur c' k = S (cur c k) -> (forall k2, k2 <> k -> cur c' k2 = cur c k2) ->
  (forall k, closed c' k = closed c k) -> (forall o, must_wait c' o = must_wait c o) ->
  q_thr c' = update t l' (q_thr c) -> l_op l' = l_op l -> l_old l' = l_old l -> l_pc l' = BUnlock ->
  invG c'.
Proof.
  intros I D [G1 G2 G3 G4] Hl Hpc Ek Hcur Hcur2 Hcl Hmw Hthr Eo Eold Epc.
  pose proof (d_old c D _ _ Hl Hpc) as Hold. rewrite Ek in Hold.
  assert (P1 : preserved pending (q_thr c) (q_thr c')).
  { rewrite Hthr. apply (pres_update _ _ _ l); [exact Hl|]. rewrite Hpc. discriminate. }
  assert (Hle : forall k2, (cur c k2 <= cur c' k2)%nat).
  { intros k2. destruct (cond_eqb k2 k) eqn:E.
    - apply cond_eqb_eq in E. subst k2. lia.
    - rewrite Hcur2; [lia|]. intros ->. destruct k; discriminate. }
  constructor; intros t2 l2 H2; rewrite Hthr in H2; inv_lookup H2;
    try (rewrite Epc; discriminate).
  - intros F. specialize (G1 _ _ H F). specialize (Hle (wcond (l_op l2))). lia.
  - intros F. destruct (G2 _ _ H F) as [Hs|[Hs|Hs]].
    + destruct (cond_eqb (wcond (l_op l2)) k) eqn:E.
      * apply cond_eqb_eq in E. right; right. exists t, l'.
        rewrite Hthr, (lookup_update_same _ _ _ _ _ Hl), Epc, Eo, Eold. repeat split; congruence.
      * left. rewrite Hcur2; [exact Hs|]. intros E2. rewrite E2 in E. destruct k; discriminate.
    + right; left. rewrite Hcl. exact Hs.
    + right; right. eapply closing_frame; eassumption.
  - rewrite Hcl. eauto.
  - intros F Es. rewrite Hmw.
    destruct (cond_eqb (wcond (l_op l2)) k) eqn:E.
    + apply cond_eqb_eq in E. exfalso. specialize (G1 _ _ H F). rewrite E in *. lia.
    + assert (Ene : wcond (l_op l2) <> k) by (intros E2; rewrite E2 in E; destruct k; discriminate).
      rewrite (Hcur2 _ Ene) in Es. destruct (G4 _ _ H F Es) as [Hm|[b [lb [Hb [Pb Kb]]]]]; [auto|].
      right. assert (b <> t) by (intros ->; rewrite Hl in Hb; injection Hb as <-; congruence).
      exists b, lb. rewrite Hthr, (lookup_update_other _ _ _ _ _ H0). auto.
Qed.

(* close(old) *)
Lemma invG_bclose c c' t l k :
  inv1 c -> invG c -> lookup t (q_thr c) = Some l -> l_pc l = BClose -> bcond (l_op l) = k ->
  (forall k, cur c' k = cur c k) ->
  (forall g, mem g (closed c' k) = Nat.eqb g (l_old l) || mem g (closed c k)) ->
  (forall k2, k2 <> k -> closed c' k2 = closed c k2) ->
  (forall o, must_wait c' o = must_wait c o) ->
  q_thr c' = wake_all k (l_old l) (update t (set_pc l PRet) (q_thr c)) ->
  invG c'.
Proof.
  intros I [G1 G2 G3 G4] Hl Hpc Ek Hcur Hclk Hcl2 Hmw Hthr.
  assert (P2 : preserved post_act (q_thr c) (q_thr c')).
  { rewrite Hthr. eapply pres_trans; [|apply pres_wake; reflexivity].
    apply (pres_update _ _ _ l); [exact Hl|]. rewrite Hpc. discriminate. }
  assert (Hclm : forall k2 g, mem g (closed c k2) = true -> mem g (closed c' k2) = true).
  { intros k2 g Hm. destruct (cond_eqb k2 k) eqn:E.
    - apply cond_eqb_eq in E. subst k2. rewrite Hclk, Hm. apply orb_true_r.
    - rewrite Hcl2; [exact Hm|]. intros ->. destruct k; discriminate. }
  constructor; intros t2 l2 H2; rewrite Hthr in H2; inv_lookup H2; subst l2.
  - rewrite wake1_not_parked by discriminate. discriminate.
  - rewrite wake1_sig, wake1_op, Hcur.
    destruct (wake1_pc k (l_old l) l1) as [[_ [_ ->]]|[_ ->]]; [discriminate|eauto].
  - rewrite wake1_not_parked by discriminate. discriminate.
  - destruct (wake1_pc k (l_old l) l1) as [[_ [_ Ep]]|[_ ->]]; [rewrite Ep; discriminate|].
    intros F. destruct (G2 _ _ H F) as [Hs|[Hs|[b [lb [Hb [Pb [Kb Gb]]]]]]].
    + left. rewrite Hcur. exact Hs.
    + right; left. auto.
    + destruct (Nat.eq_dec b t) as [->|Hbt].
      * rewrite Hl in Hb. injection Hb as <-. right; left.
        rewrite <- Kb, Ek, Hclk, <- Gb, Nat.eqb_refl. reflexivity.
      * right; right. exists b, lb.
        rewrite Hthr, lookup_wake_all, (lookup_update_other _ _ _ _ _ Hbt), Hb, wake1_not_parked;
          [auto|]. intros E. rewrite E in Pb. discriminate.
  - rewrite wake1_not_parked by discriminate. discriminate.
  - destruct (wake1_pc k (l_old l) l1) as [[_ [_ Ep]]|[Hw ->]]; [rewrite Ep; discriminate|].
    intros Ep. destruct (G3 _ _ H Ep) as [Hc Hm]. split; [exact Hc|].
    destruct (cond_eqb (wcond (l_op l1)) k) eqn:E.
    + apply cond_eqb_eq in E. rewrite E, Hclk. rewrite E in Hm. rewrite Hm, orb_false_r.
      apply Nat.eqb_neq. intros Es.
      assert (woken k (l_old l) l1 = true) by (apply woken_spec; auto). congruence.
    + rewrite Hcl2; [exact Hm|]. intros E2. rewrite E2 in E. destruct k; discriminate.
  - rewrite wake1_not_parked by discriminate. discriminate.
  - destruct (wake1_pc k (l_old l) l1) as [[_ [_ Ep]]|[_ ->]]; [rewrite Ep; discriminate|].
    intros F. rewrite Hcur. intros Es. apply (just_frame c c'); [apply Hmw|exact P2|]. eauto.
Qed.

Lemma sig_live_same c l l' :
  l_sig l' = l_sig l -> l_op l' = l_op l -> sig_live c l -> sig_live c l'.
Proof. unfold sig_live. intros -> ->. auto. Qed.

(* what the invariant says about the stepping thread's old locals *)
Lemma invG_own c t l l' :
  invG c -> lookup t (q_thr c) = Some l -> fetched (l_pc l) = true ->
  l_sig l' = l_sig l -> l_op l' = l_op l ->
  (l_sig l' <= cur c (wcond (l_op l)))%nat /\ sig_live c l' /\
  (l_sig l' = cur c (wcond (l_op l)) -> must_wait c (l_op l) = true \/ swapping c (wcond (l_op l))).
Proof.
  intros [G1 G2 G3 G4] Hl F Es Eo. rewrite Es. split; [eauto|]. split.
  - apply (sig_live_same c l l'); eauto.
  - eauto.
Qed.

Lemma invG_step c e c' obs :
  inv1 c -> invD c -> invF c -> invG c -> lbq_exec1 c e = Some (c', obs) -> invG c'.
Proof.
  intros I D F G H. pose proof (i_nodup c I) as Hnd.
  step_cases H.
  all: try rewrite (unlock_owned c t) by (eapply (i_cs c I); [exact Hl | rewrite Hpc; reflexivity]).
  all: try match goal with |- context [runlock] =>
         unfold runlock; destruct (q_readers c) eqn:Er end.
  all: try match goal with |- context [set_cur _ (bcond ?o)] => destruct (bcond o) eqn:Ek end.
  all: try match goal with |- context [add_closed _ (bcond ?o)] => destruct (bcond o) eqn:Ek end.
  all: try solve [match goal with Hn : lookup ?t _ = None |- invG (add_hist (set_thr _ (spawn _ (new_loc ?o) _)) _) =>
                    eapply (invG_spawn c _ t o G Hn); reflexivity end].
  all: try solve [match goal with Hs : lookup ?t _ = Some ?l, Hp : l_pc ?l = _ |- _ =>
                    eapply (invG_remove c _ t l G Hnd Hs); try reflexivity; rewrite Hp; reflexivity end].
  all: try solve [match goal with Hs : lookup ?t _ = Some ?l, Hp : l_pc ?l = PAct |- _ =>
                    eapply (invG_act c _ t l _ I D G Hs Hp); try reflexivity; try assumption;
                    match goal with E : l_op l = _ |- _ => rewrite E; reflexivity end end].
  (* c.signal = signal *)
  all: try solve [match goal with Hs : lookup ?t _ = Some ?l, Hp : l_pc ?l = BSet, Hk : bcond _ = ?k |- _ =>
         eapply (invG_bset c _ t l _ k I D G Hs Hp Hk); try reflexivity;
         intros k2 Hk2; destruct k2; try congruence; reflexivity end].
  (* close(old) *)
  all: try solve [match goal with Hs : lookup ?t _ = Some ?l, Hp : l_pc ?l = BClose, Hk : bcond _ = ?k
                                  |- context [wake_all] =>
         eapply (invG_bclose c _ t l k I G Hs Hp Hk); try reflexivity;
         intros k2 Hk2; destruct k2; try congruence; reflexivity end].
  (* close of a closed channel: excluded *)
  all: try solve [match goal with Hs : lookup ?t _ = Some ?l, Hp : l_pc ?l = BClose,
                                  Hm : mem _ _ = true |- _ =>
         exfalso; destruct (f_pend c F _ _ Hs) as [_ Hm']; [rewrite Hp; reflexivity|congruence] end].
  all: try solve [match goal with Hs : lookup ?t _ = Some ?l |- invG (set_thr _ (update _ ?l' _)) =>
         eapply (invG_update c _ t l l' G Hs); try reflexivity;
         cbn [l_pc l_op l_old l_res l_sig l_cancel set_pc set_sig set_old set_res set_cancel];
         rewrite ?Hpc; cbn [pending post_act fetched]; try (intros; discriminate); try (intros; assumption);
         try (intros; split; [assumption|reflexivity]);
         try (intros _; apply (invG_own c t l l' G Hs); [rewrite Hpc; reflexivity|reflexivity|reflexivity])
       end].
  - (* res := c.signal, read under the lock: the current channel, and waiting is justified *)
    eapply (invG_update c _ t l _ G Hl); try reflexivity; cbn; rewrite ?Hpc; cbn; try discriminate.
    intros _. split; [lia|]. split; [left; reflexivity|].
    intros _. left. apply (d_wait c D _ _ Hl). rewrite Hpc. reflexivity.
  - (* the select parks: neither case is ready *)
    eapply (invG_update c _ t l _ G Hl); try reflexivity; cbn; rewrite ?Hpc; cbn; try discriminate.
    + intros _. apply (invG_own c t l (set_pc l PParked) G Hl); [rewrite Hpc; reflexivity|reflexivity|reflexivity].
    + intros _. auto.
  - (* the select takes the ready ctx.Done() case *)
    apply andb_true_iff in E. destruct E as [E Ec]. apply andb_true_iff in E. destruct E as [Eq Ep].
    apply pc_eqb_eq in Ep.
    eapply (invG_update c _ t l _ G Hl); try reflexivity; cbn; rewrite ?Ep; cbn; discriminate.
  - (* CANCEL wakes a parked call *)
    apply pc_eqb_eq in E0.
    eapply (invG_update c _ t l _ G Hl); try reflexivity; cbn; rewrite ?E0; cbn; discriminate.
  - (* CANCEL of a call that is not parked *)
    assert (Hnp : l_pc l <> PParked) by (intros Hx; apply pc_eqb_eq in Hx; congruence).
    eapply (invG_update c _ t l _ G Hl); try reflexivity; cbn; try tauto.
    intros Hf. apply (invG_own c t l (set_cancel l) G Hl); [exact Hf|reflexivity|reflexivity].
Qed.
