(* ABQProof (part 3): the statements of C07 for ConcurrentArrayBlockingQueue derived from the
   invariant: bounds, ring consistency, the permit ledger, linearisation-point form of
   linearizability, FIFO / exactly-once, context errors have no effect, no run-time panic. *)
From Ekit Require Import Common Conc ABQModel ABQProof ABQProof2.
From Coq Require Import ZifyBool Arith PeanoNat.

Section Reachable.
  Variable cap : Z.
  Hypothesis Hcap : 1 <= cap.

  Definition reachable (c : abq_cfg) : Prop := exists evs, exec abq_next (abq_init cap) evs = Some c.

  Lemma reachable_inv c : reachable c -> abq_inv cap c.
  Proof. intros [evs H]. exact (abq_inv_reachable_lemma cap Hcap evs c H). Qed.

  (* ---------- 1. bounds ---------- *)
  Lemma abq_count_bounds_inv c : abq_inv cap c ->
    0 <= q_count c <= cap /\ 0 <= abs_len c <= cap /\ Z.of_nat (length (abq_abs c)) = abs_len c.
  Proof.
    intros I. inv_facts I c.
    pose proof (count_sub adj_e owes_d (q_thr c)) as S1.
    pose proof (count_sub adj_d owes_e (q_thr c)) as S2.
    assert (count adj_e (q_thr c) <= count owes_d (q_thr c)).
    { apply S1. intros x. unfold adj_e, owes_d. destruct (t_pc x); congruence. }
    assert (count adj_d (q_thr c) <= count owes_e (q_thr c)).
    { apply S2. intros x. unfold adj_d, owes_e. destruct (t_pc x); congruence. }
    pose proof (count_nonneg _ adj_e (q_thr c)). pose proof (count_nonneg _ adj_d (q_thr c)).
    unfold abq_abs. rewrite ring_length. unfold abs_len, s_free in *. lia.
  Qed.

  (* ---------- 2. ring cursors, outside the writer's critical section ---------- *)
  Lemma abq_ring_consistent_inv c : abq_inv cap c -> q_w c = false ->
    0 <= q_head c < cap /\ 0 <= q_tail c < cap /\ 0 <= q_count c <= cap /\
    q_tail c = (q_head c + q_count c) mod cap /\
    abq_abs c = ring (q_data c) (q_head c) (q_count c).
  Proof.
    intros I W. inv_facts I c. no_writer c.
    unfold abq_abs, abs_len, abs_head in *. rewrite Cae, Cad, Cah, Cti in *.
    repeat split; try lia.
    - symmetry. apply mod_of_divide; [lia| |lia].
      replace (q_tail c - (q_head c + q_count c)) with (q_tail c + 0 - (q_head c + 0) - (q_count c + 0 - 0)) by lia.
      exact Igeo.
    - f_equal; lia.
  Qed.

  (* ---------- 3. the permit ledger ---------- *)
  Lemma abq_ledger_inv c : abq_inv cap c ->
    s_free (q_enq c) + count held_e (q_thr c) + abs_len c + count owes_e (q_thr c) = cap /\
    s_free (q_deq c) + count held_d (q_thr c) + count owes_d (q_thr c) = abs_len c /\
    0 <= s_free (q_enq c) <= cap /\ 0 <= s_free (q_deq c) <= cap.
  Proof. intros I. inv_facts I c. unfold s_free in *. repeat split; lia. Qed.

  Lemma abq_ledger_unlocked_inv c : abq_inv cap c -> q_w c = false ->
    s_free (q_enq c) + count held_e (q_thr c) + q_count c = cap /\
    s_free (q_deq c) + count held_d (q_thr c) = q_count c.
  Proof.
    intros I W. inv_facts I c. no_writer c. unfold abs_len, s_free in *. split; lia.
  Qed.

  Lemma abq_quiescent_inv c : abq_inv cap c -> q_thr c = [] ->
    s_free (q_enq c) = cap - q_count c /\ s_free (q_deq c) = q_count c /\
    s_wait (q_enq c) = [] /\ s_wait (q_deq c) = [] /\ q_w c = false /\ q_r c = 0 /\
    abq_abs c = ring (q_data c) (q_head c) (q_count c) /\ 0 <= q_count c <= cap.
  Proof.
    intros I Hq. inv_facts I c. unfold abq_abs, abs_len, abs_head, s_free in *. rewrite Hq in *. cbn in *.
    assert (W : q_w c = false) by (destruct (q_w c); [lia|reflexivity]).
    repeat split; try lia; try exact W; try (f_equal; lia).
    - apply (waiters_ok_nil EPark). exact Iew.
    - apply (waiters_ok_nil DPark). exact Idw.
  Qed.

  (* ---------- 4. return values ---------- *)
  Lemma not_ret_obs_at (t : tid) r p wk : ~ In (t, ORet r) (obs_at p wk).
  Proof. unfold obs_at. rewrite in_map_iff. intros [x [E _]]. discriminate. Qed.
  Lemma not_panic_obs_at (t : tid) p wk : ~ In (t, OPanic) (obs_at p wk).
  Proof. unfold obs_at. rewrite in_map_iff. intros [x [E _]]. discriminate. Qed.

  Definition ret_ok (c : abq_cfg) (th : abq_thr) (r : abq_ret) : Prop :=
    match r with
    | RNil => t_lin th = [t_val th]
    | RCtx => t_lin th = []
    | RVal x => t_lin th = [x]
    | RLen n => t_lin th = [] /\ n = Z.of_nat (length (abq_abs c))
    | RSlice l => t_lin th = [] /\ l = abq_abs c
    end.

  Ltac obs_in Hin :=
    repeat first
      [ rewrite in_app_iff in Hin
      | match type of Hin with _ \/ _ => destruct Hin as [Hin|Hin] end
      | match type of Hin with In _ (obs_at _ _) => exfalso; revert Hin; first [apply not_ret_obs_at|apply not_panic_obs_at] end
      | match type of Hin with In _ (_ :: _) => destruct Hin as [Hin|Hin] end
      | match type of Hin with In _ [] => contradiction end
      | match type of Hin with (_, _) = (_, _) => injection Hin; clear Hin; intros end ];
    try discriminate.

  Lemma abq_return_inv c t th c' o r :
    abq_inv cap c -> lookup t (q_thr c) = Some th -> abq_step c t th = Some (c', o) ->
    In (t, ORet r) o -> ret_ok c th r.
  Proof.
    intros I Hl Hs Hin. inv_facts I c.
    pose proof (Ithr t th Hl) as Hth.
    destruct th as [pc v err can res cnt capv idx lin].
    unfold abq_step, ret_ok in *; cbn [t_pc t_val t_err t_can t_lin t_res t_cnt t_capv t_idx] in *;
      unfold thr_ok in Hth; cbn [t_pc t_val t_err t_can t_lin t_res t_cnt t_capv t_idx] in Hth.
    destruct pc;
      repeat match type of Hs with
             | context [sem_acquire ?a ?b ?d] => destruct (sem_acquire a b d) as [[s' r0] wk]; destruct r0
             | context [sem_release ?a] => destruct (sem_release a) as [[s' wk]|]
             | context [if ?b then _ else _] => destruct b eqn:?
             end;
      unfold goto, finish, panic_w, panic_r, add_obs in Hs; try discriminate;
      injection Hs as <- <-; obs_in Hin; subst; try tauto; try (destruct Hth; congruence).
    - (* LRet *) reader Hl c. unfold abq_abs. rewrite ring_length. unfold abs_len in *. split; [tauto|lia].
    - (* SRet *) reader Hl c. destruct Hth as [H1 H2]. split; [exact H1|]. rewrite H2. unfold abq_abs, abs_head, abs_len. f_equal; lia.
  Qed.

  (* ---------- 5. no run-time panic ---------- *)
  Lemma abq_no_panic_step c t th c' o x :
    abq_inv cap c -> lookup t (q_thr c) = Some th -> abq_step c t th = Some (c', o) -> ~ In (x, OPanic) o.
  Proof.
    intros I Hl Hs Hin. inv_facts I c.
    pose proof (Ithr t th Hl) as Hth.
    destruct th as [pc v err can res cnt capv idx lin].
    unfold abq_step in *; cbn [t_pc t_val t_err t_can t_lin t_res t_cnt t_capv t_idx] in *;
      unfold thr_ok in Hth; cbn [t_pc t_val t_err t_can t_lin t_res t_cnt t_capv t_idx] in Hth.
    destruct pc;
      repeat match type of Hs with
             | context [sem_acquire ?a ?b ?d] => destruct (sem_acquire a b d) as [[s' r0] wk]; destruct r0
             | context [sem_release ?a] => destruct (sem_release a) as [[s' wk]|] eqn:Rel
             | context [if ?b then _ else _] => destruct b eqn:?
             end;
      unfold goto, finish, panic_w, panic_r, add_obs in Hs; try discriminate;
      injection Hs as <- <-; obs_in Hin; subst.
    - (* ERelE *) writer Hl c. apply sem_release_none in Rel.
      pose proof (count_pos_lookup held_e _ _ _ Hl eq_refl). unfold abs_len, s_free in *. lia.
    - (* EWrite *) writer Hl c.
      match goal with H : idx_ok _ _ = false |- _ => assert (idx_ok (q_data c) (q_tail c) = true) by (apply idx_ok_iff; lia); congruence end.
    - (* ERelD *) writer Hl c. apply sem_release_none in Rel.
      pose proof (count_pos_lookup owes_d _ _ _ Hl eq_refl). unfold abs_len, s_free in *. lia.
    - (* DRelD *) writer Hl c. apply sem_release_none in Rel.
      pose proof (count_pos_lookup held_d _ _ _ Hl eq_refl). unfold abs_len, s_free in *. lia.
    - (* DRead *) writer Hl c.
      match goal with H : idx_ok _ _ = false |- _ => assert (idx_ok (q_data c) (q_head c) = true) by (apply idx_ok_iff; lia); congruence end.
    - (* DZero *) writer Hl c.
      match goal with H : idx_ok _ _ = false |- _ => assert (idx_ok (q_data c) (q_head c) = true) by (apply idx_ok_iff; lia); congruence end.
    - (* DRelE *) writer Hl c. apply sem_release_none in Rel.
      pose proof (count_pos_lookup owes_e _ _ _ Hl eq_refl). unfold abs_len, s_free in *. lia.
    - (* SMake *) reader Hl c. unfold abs_len in *. lia.
    - (* SIndex *) reader Hl c. lia.
    - (* SAppend *) reader Hl c. destruct Hth as [H1 [H2 [H3 [H4 H5]]]].
      match goal with H : idx_ok _ _ = false |- _ =>
        assert (idx_ok (q_data c) idx = true) by (apply idx_ok_iff; rewrite H5; apply Z.mod_pos_bound; lia); congruence end.
  Qed.

  Lemma abq_no_panic_inv c e c' o x :
    abq_inv cap c -> abq_exec1 c e = Some (c', o) -> ~ In (x, OPanic) o.
  Proof.
    intros I Hs. destruct e as [t op|t|t]; cbn [abq_exec1] in Hs.
    - destruct (lookup t (q_thr c)); [discriminate|]. injection Hs as <- <-. cbn. intros [H|[]]. discriminate.
    - destruct (lookup t (q_thr c)) as [th|] eqn:Hl; [|discriminate]. eapply abq_no_panic_step; eassumption.
    - destruct (lookup t (q_thr c)) as [th|] eqn:Hl; [|discriminate].
      destruct (t_can th); [discriminate|].
      destruct (t_pc th); unfold cancel_parked in Hs;
        repeat match type of Hs with context [sem_cancel ?a ?b] => destruct (sem_cancel a b) as [s' wk] end;
        injection Hs as <- <-; intros Hin; obs_in Hin.
  Qed.

  (* ---------- 6. a call that returns the context's error has had no effect ---------- *)
  Lemma abq_ctx_error_inv c t th c' o :
    abq_inv cap c -> lookup t (q_thr c) = Some th -> abq_step c t th = Some (c', o) ->
    In (t, ORet RCtx) o ->
    t_lin th = [] /\ abq_abs c' = abq_abs c /\ q_enq c' = q_enq c /\ q_deq c' = q_deq c /\
    g_in c' = g_in c /\ g_out c' = g_out c /\ lookup t (q_thr c') = None /\ abq_inv cap c'.
  Proof.
    intros I Hl Hs Hin.
    pose proof (abq_return_inv c t th c' o RCtx I Hl Hs Hin) as Hr. cbn in Hr.
    assert (E : abq_exec1 c (AStep t) = Some (c', o)) by (cbn; rewrite Hl; exact Hs).
    destruct (abq_inv_exec1 cap c (AStep t) c' o Hcap I E) as [I' A]. cbn in A. rewrite Hl in A.
    pose proof (i_nodup _ _ I) as Ind.
    destruct th as [pc v err can res cnt capv idx lin].
    unfold abq_step, step_abs in *; cbn [t_pc t_val t_err t_can t_lin] in *.
    destruct pc;
      repeat match type of Hs with
             | context [sem_acquire ?a ?b ?d] => destruct (sem_acquire a b d) as [[s' r0] wk]; destruct r0
             | context [sem_release ?a] => destruct (sem_release a) as [[s' wk]|]
             | context [if ?b then _ else _] => destruct b eqn:?
             end;
      unfold goto, finish, panic_w, panic_r, add_obs in Hs; try discriminate;
      injection Hs as <- <-; obs_in Hin; subst;
      destruct A as [A1 [A2 A3]];
      (split; [auto|]; split; [exact A1|]; split; [reflexivity|]; split; [reflexivity|];
       split; [exact A2|]; split; [exact A3|]; split; [apply abq_lookup_remove_same; assumption|exact I']).
  Qed.

  (* ---------- 7. C09: stuck configurations ---------- *)
  Lemma abq_step_none c t th :
    abq_step c t th = None ->
    t_pc th = EPark \/ t_pc th = DPark \/
    ((t_pc th = ELock \/ t_pc th = DLock) /\ (q_w c = true \/ q_r c <> 0)) \/
    ((t_pc th = LRLock \/ t_pc th = SRLock) /\ q_w c = true).
  Proof.
    destruct th as [pc v err can res cnt capv idx lin]. unfold abq_step; cbn [t_pc t_val t_err t_can t_lin t_res t_cnt t_capv t_idx].
    intros Hs.
    destruct pc;
      repeat match type of Hs with
             | context [sem_acquire ?a ?b ?d] => destruct (sem_acquire a b d) as [[s' r0] wk]; destruct r0
             | context [sem_release ?a] => destruct (sem_release a) as [[s' wk]|]
             | context [if ?b then _ else _] => destruct b eqn:?
             end;
      unfold goto, finish, panic_w, panic_r, add_obs in Hs; try discriminate; auto.
    - right; right; left. split; [left; reflexivity|]. destruct (q_w c); [left; reflexivity|right]. cbn in *. lia.
    - right; right; left. split; [right; reflexivity|]. destruct (q_w c); [left; reflexivity|right]. cbn in *. lia.
    - right; right; right. split; [left; reflexivity|reflexivity].
    - right; right; right. split; [right; reflexivity|reflexivity].
  Qed.

  Lemma count_pos_exists (f : abq_thr -> bool) (l : list (tid * abq_thr)) :
    NoDup (tids l) -> 1 <= count f l -> exists t th, lookup t l = Some th /\ f th = true.
  Proof.
    induction l as [|[t p] r IH]; cbn; [lia|].
    intros Hnd H. inversion Hnd as [|x xs Hx Hr]; subst.
    destruct (f p) eqn:F.
    - exists t, p. rewrite Nat.eqb_refl. auto.
    - destruct (IH Hr ltac:(lia)) as [t2 [th2 [L2 F2]]]. exists t2, th2. split; [|exact F2].
      destruct (Nat.eqb t2 t) eqn:E; [|exact L2].
      apply Nat.eqb_eq in E. subst. exfalso. apply Hx. eapply abq_lookup_in_tids. exact L2.
  Qed.

  Lemma count_zero_all (f : abq_thr -> bool) (l : list (tid * abq_thr)) :
    NoDup (tids l) -> (forall t th, lookup t l = Some th -> f th = false) -> count f l = 0.
  Proof.
    intros Hnd H. pose proof (count_nonneg _ f l).
    destruct (Z.eq_dec (count f l) 0) as [E|E]; [exact E|].
    destruct (count_pos_exists f l Hnd ltac:(lia)) as [t [th [L F]]]. rewrite (H t th L) in F. discriminate.
  Qed.

  Definition stuck (c : abq_cfg) : Prop := forall t, abq_exec1 c (AStep t) = None.

  Lemma stuck_all_parked c :
    abq_inv cap c -> stuck c ->
    forall t th, lookup t (q_thr c) = Some th -> t_pc th = EPark \/ t_pc th = DPark.
  Proof.
    intros I Hst t th Hl. inv_facts I c.
    assert (Hnone : forall t2 th2, lookup t2 (q_thr c) = Some th2 -> abq_step c t2 th2 = None).
    { intros t2 th2 L2. specialize (Hst t2). cbn in Hst. rewrite L2 in Hst. exact Hst. }
    assert (Hfree : q_w c = false /\ q_r c = 0).
    { split.
      - destruct (q_w c) eqn:W; [|reflexivity]. exfalso.
        destruct (count_pos_exists in_wcs (q_thr c) Ind ltac:(lia)) as [t2 [th2 [L2 F2]]].
        pose proof (abq_step_none c t2 th2 (Hnone t2 th2 L2)) as N.
        unfold in_wcs in F2. destruct N as [N|[N|[[[N|N] _]|[[N|N] _]]]]; rewrite N in F2; discriminate.
      - destruct (Z.eq_dec (q_r c) 0) as [E|E]; [exact E|]. exfalso.
        destruct (count_pos_exists in_rcs (q_thr c) Ind ltac:(lia)) as [t2 [th2 [L2 F2]]].
        pose proof (abq_step_none c t2 th2 (Hnone t2 th2 L2)) as N.
        unfold in_rcs in F2. destruct N as [N|[N|[[[N|N] _]|[[N|N] _]]]]; rewrite N in F2; discriminate. }
    destruct Hfree as [W R].
    destruct (abq_step_none c t th (Hnone t th Hl)) as [N|[N|[[_ [N|N]]|[_ N]]]]; auto; congruence.
  Qed.

  (* a parked waiter sees no free permit, in every reachable configuration *)
  Lemma parked_sees_no_permit c t th :
    abq_inv cap c -> lookup t (q_thr c) = Some th ->
    (t_pc th = EPark -> s_free (q_enq c) = 0 /\ In t (s_wait (q_enq c))) /\
    (t_pc th = DPark -> s_free (q_deq c) = 0 /\ In t (s_wait (q_deq c))).
  Proof.
    intros I Hl. inv_facts I c. unfold s_free. split; intros P.
    - pose proof (waiters_ok_in _ _ _ _ _ Hl P Iew) as Hin. split; [|exact Hin].
      rewrite Efull; [lia|]. intros E. rewrite E in Hin. contradiction.
    - pose proof (waiters_ok_in _ _ _ _ _ Hl P Idw) as Hin. split; [|exact Hin].
      rewrite Dfull; [lia|]. intros E. rewrite E in Hin. contradiction.
  Qed.

  Lemma stuck_implies_cannot_proceed_inv c :
    abq_inv cap c -> stuck c ->
    forall t th, lookup t (q_thr c) = Some th ->
      (t_pc th = EPark \/ t_pc th = DPark) /\
      (t_pc th = DPark -> s_free (q_deq c) = 0 /\ q_count c = 0 /\ abq_abs c = []) /\
      (t_pc th = EPark -> s_free (q_enq c) = 0 /\ q_count c = cap /\ Z.of_nat (length (abq_abs c)) = cap).
  Proof.
    intros I Hst t th Hl. pose proof (stuck_all_parked c I Hst) as Hall.
    split; [exact (Hall t th Hl)|].
    inv_facts I c.
    assert (Z0 : forall f, (forall x, (t_pc x = EPark \/ t_pc x = DPark) -> f x = false) -> count f (q_thr c) = 0).
    { intros f Hf. apply count_zero_all; [exact Ind|]. intros t2 th2 L2. apply Hf. exact (Hall t2 th2 L2). }
    assert (C1 : count held_e (q_thr c) = 0) by (apply Z0; intros x [P|P]; unfold held_e; rewrite P; reflexivity).
    assert (C2 : count held_d (q_thr c) = 0) by (apply Z0; intros x [P|P]; unfold held_d; rewrite P; reflexivity).
    assert (C3 : count in_wcs (q_thr c) = 0) by (apply Z0; intros x [P|P]; unfold in_wcs; rewrite P; reflexivity).
    destruct (no_writer_view _ C3) as [Cae [Cad [Cah [Coe [Cod _]]]]].
    destruct (parked_sees_no_permit c t th I Hl) as [PE PD].
    pose proof (abq_count_bounds_inv c I) as [_ [_ Hlen]].
    unfold abs_len, s_free in *. split; intros P.
    - destruct (PD P) as [F _]. assert (q_count c = 0) by lia. repeat split; try lia.
      unfold abq_abs. apply ring_nonpos. unfold abs_len. lia.
    - destruct (PE P) as [F _]. repeat split; lia.
  Qed.

  (* ---------- 8. C09: cancellation of a parked call ---------- *)
  Lemma cancel_enables_inv c t th :
    abq_inv cap c -> lookup t (q_thr c) = Some th -> t_pc th = EPark \/ t_pc th = DPark ->
    exists c1 c2 c3 o1 p1 p2,
      abq_exec1 c (ACancel t) = Some (c1, o1) /\ In (t, OAt p1) o1 /\
      abq_exec1 c1 (AStep t) = Some (c2, [(t, OAt p2)]) /\
      abq_exec1 c2 (AStep t) = Some (c3, [(t, ORet RCtx)]) /\
      abq_abs c3 = abq_abs c /\ s_free (q_enq c3) = s_free (q_enq c) /\ s_free (q_deq c3) = s_free (q_deq c) /\
      g_in c3 = g_in c /\ g_out c3 = g_out c /\
      lookup t (q_thr c3) = None /\ abq_inv cap c3.
  Proof.
    intros I Hl P. inv_facts I c.
    pose proof (Ithr t th Hl) as Hth.
    destruct th as [pc v err can res cnt capv idx lin]. cbn [t_pc] in P.
    destruct P as [-> | ->]; unfold thr_ok in Hth; cbn in Hth; destruct Hth as [Hlin Hcan]; subst can lin.
    - destruct (abq_exec1 c (ACancel t)) as [[c1 o1]|] eqn:E1.
      2: { cbn in E1. rewrite Hl in E1. cbn in E1. unfold cancel_parked in E1.
           destruct (sem_cancel t (q_enq c)). discriminate. }
      pose proof (abq_inv_exec1 cap c _ c1 o1 Hcap I E1) as [I1 [A1 [A1i A1o]]].
      assert (S1 : q_enq c1 = {| s_size := cap; s_cur := s_cur (q_enq c); s_wait := remove_tid t (s_wait (q_enq c)) |}
                   /\ q_deq c1 = q_deq c /\ In (t, OAt EIfErr) o1 /\
                   lookup t (q_thr c1) = Some {| t_pc := EIfErr; t_val := v; t_err := true; t_can := true; t_res := res;
                                                 t_cnt := cnt; t_capv := capv; t_idx := idx; t_lin := [] |}).
      { cbn in E1. rewrite Hl in E1. cbn in E1. unfold cancel_parked in E1.
        rewrite (sem_cancel_ok _ _ t Ienq) in E1. rewrite wake_nil in E1. injection E1 as <- <-.
        proj_simpl. repeat split; auto; [left; reflexivity|].
        rewrite (lookup_update_same _ _ _ _ _ Hl). reflexivity. }
      destruct S1 as [Se [Sd [So L1]]].
      destruct (abq_exec1 c1 (AStep t)) as [[c2 o2]|] eqn:E2; [|cbn in E2; rewrite L1 in E2; discriminate].
      pose proof (abq_inv_exec1 cap c1 _ c2 o2 Hcap I1 E2) as [I2 A2]. cbn in A2. rewrite L1 in A2. cbn in A2.
      destruct A2 as [A2 [A2i A2o]].
      assert (S2 : o2 = [(t, OAt ERetErr)] /\ q_enq c2 = q_enq c1 /\ q_deq c2 = q_deq c1 /\
                   lookup t (q_thr c2) = Some {| t_pc := ERetErr; t_val := v; t_err := true; t_can := true; t_res := res;
                                                 t_cnt := cnt; t_capv := capv; t_idx := idx; t_lin := [] |}).
      { cbn in E2. rewrite L1 in E2. cbn in E2. unfold goto in E2. injection E2 as <- <-. proj_simpl.
        repeat split; auto. rewrite (lookup_update_same _ _ _ _ _ L1). reflexivity. }
      destruct S2 as [-> [Se2 [Sd2 L2]]].
      destruct (abq_exec1 c2 (AStep t)) as [[c3 o3]|] eqn:E3; [|cbn in E3; rewrite L2 in E3; discriminate].
      pose proof (abq_inv_exec1 cap c2 _ c3 o3 Hcap I2 E3) as [I3 A3]. cbn in A3. rewrite L2 in A3. cbn in A3.
      destruct A3 as [A3 [A3i A3o]].
      assert (S3 : o3 = [(t, ORet RCtx)] /\ q_enq c3 = q_enq c2 /\ q_deq c3 = q_deq c2 /\ lookup t (q_thr c3) = None).
      { cbn in E3. rewrite L2 in E3. cbn in E3. unfold finish in E3. injection E3 as <- <-. proj_simpl.
        repeat split; auto. apply abq_lookup_remove_same. exact (i_nodup _ _ I2). }
      destruct S3 as [-> [Se3 [Sd3 L3]]].
      exists c1, c2, c3, o1, EIfErr, ERetErr.
      split; [reflexivity|]. split; [exact So|]. split; [exact E2|]. split; [exact E3|].
      split; [congruence|]. split; [rewrite Se3, Se2, Se; unfold s_free; cbn; lia|].
      split; [congruence|]. split; [congruence|]. split; [congruence|]. split; [exact L3|exact I3].
    - destruct (abq_exec1 c (ACancel t)) as [[c1 o1]|] eqn:E1.
      2: { cbn in E1. rewrite Hl in E1. cbn in E1. unfold cancel_parked in E1.
           destruct (sem_cancel t (q_deq c)). discriminate. }
      pose proof (abq_inv_exec1 cap c _ c1 o1 Hcap I E1) as [I1 [A1 [A1i A1o]]].
      assert (S1 : q_deq c1 = {| s_size := cap; s_cur := s_cur (q_deq c); s_wait := remove_tid t (s_wait (q_deq c)) |}
                   /\ q_enq c1 = q_enq c /\ In (t, OAt DIfErr) o1 /\
                   lookup t (q_thr c1) = Some {| t_pc := DIfErr; t_val := v; t_err := true; t_can := true; t_res := res;
                                                 t_cnt := cnt; t_capv := capv; t_idx := idx; t_lin := [] |}).
      { cbn in E1. rewrite Hl in E1. cbn in E1. unfold cancel_parked in E1.
        rewrite (sem_cancel_ok _ _ t Ideq) in E1. rewrite wake_nil in E1. injection E1 as <- <-.
        proj_simpl. repeat split; auto; [left; reflexivity|].
        rewrite (lookup_update_same _ _ _ _ _ Hl). reflexivity. }
      destruct S1 as [Sd [Se [So L1]]].
      destruct (abq_exec1 c1 (AStep t)) as [[c2 o2]|] eqn:E2; [|cbn in E2; rewrite L1 in E2; discriminate].
      pose proof (abq_inv_exec1 cap c1 _ c2 o2 Hcap I1 E2) as [I2 A2]. cbn in A2. rewrite L1 in A2. cbn in A2.
      destruct A2 as [A2 [A2i A2o]].
      assert (S2 : o2 = [(t, OAt DRetErr)] /\ q_enq c2 = q_enq c1 /\ q_deq c2 = q_deq c1 /\
                   lookup t (q_thr c2) = Some {| t_pc := DRetErr; t_val := v; t_err := true; t_can := true; t_res := res;
                                                 t_cnt := cnt; t_capv := capv; t_idx := idx; t_lin := [] |}).
      { cbn in E2. rewrite L1 in E2. cbn in E2. unfold goto in E2. injection E2 as <- <-. proj_simpl.
        repeat split; auto. rewrite (lookup_update_same _ _ _ _ _ L1). reflexivity. }
      destruct S2 as [-> [Se2 [Sd2 L2]]].
      destruct (abq_exec1 c2 (AStep t)) as [[c3 o3]|] eqn:E3; [|cbn in E3; rewrite L2 in E3; discriminate].
      pose proof (abq_inv_exec1 cap c2 _ c3 o3 Hcap I2 E3) as [I3 A3]. cbn in A3. rewrite L2 in A3. cbn in A3.
      destruct A3 as [A3 [A3i A3o]].
      assert (S3 : o3 = [(t, ORet RCtx)] /\ q_enq c3 = q_enq c2 /\ q_deq c3 = q_deq c2 /\ lookup t (q_thr c3) = None).
      { cbn in E3. rewrite L2 in E3. cbn in E3. unfold finish in E3. injection E3 as <- <-. proj_simpl.
        repeat split; auto. apply abq_lookup_remove_same. exact (i_nodup _ _ I2). }
      destruct S3 as [-> [Se3 [Sd3 L3]]].
      exists c1, c2, c3, o1, DIfErr, DRetErr.
      split; [reflexivity|]. split; [exact So|]. split; [exact E2|]. split; [exact E3|].
      split; [congruence|]. split; [congruence|]. split; [rewrite Sd3, Sd2, Sd; unfold s_free; cbn; lia|].
      split; [congruence|]. split; [congruence|]. split; [exact L3|exact I3].
  Qed.
End Reachable.
