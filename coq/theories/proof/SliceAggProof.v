(* Proofs about SliceAggModel (C16). *)
From Ekit Require Import Common SliceModel SliceAggModel.
From Coq Require Import ZifyBool.

Lemma pair_split_new_lemma k v : pair_split (new_pair k v) = (k, v).
Proof. reflexivity. Qed.

Lemma fold_max_key_spec (t : list (Z * Z)) : forall x,
  let m := fold_left (fun res v => if fst v >? fst res then v else res) t x in
  In m (x :: t) /\ forall y, In y (x :: t) -> fst y <= fst m.
Proof.
  induction t as [|a t' IH]; intros x; cbn [fold_left].
  - split; [left; reflexivity|]. intros y [Hy|[]]. subst y. lia.
  - destruct (IH (if fst a >? fst x then a else x)) as [Hin Hub]. cbn zeta. split.
    + destruct Hin as [He|Hin]; [|right; right; exact Hin].
      rewrite <- He. destruct (fst a >? fst x); [right; left; reflexivity|left; reflexivity].
    + intros y Hy.
      assert (Hstep : fst x <= fst (if fst a >? fst x then a else x) /\ fst a <= fst (if fst a >? fst x then a else x)).
      { destruct (fst a >? fst x) eqn:Hc; lia. }
      destruct Hy as [Hy|[Hy|Hy]].
      * subst y. etransitivity; [exact (proj1 Hstep)|]. apply Hub. left. reflexivity.
      * subst y. etransitivity; [exact (proj2 Hstep)|]. apply Hub. left. reflexivity.
      * apply Hub. right. exact Hy.
Qed.

Lemma max_key_lemma ts :
  match max_key ts with
  | Ok m => In m ts /\ forall y, In y ts -> fst y <= fst m
  | Err _ => False
  | Panic => ts = []
  end.
Proof. destruct ts as [|x t]; cbn [max_key]; [reflexivity|]. apply fold_max_key_spec. Qed.

Lemma fold_min_key_spec (t : list (Z * Z)) : forall x,
  let m := fold_left (fun res v => if fst v <? fst res then v else res) t x in
  In m (x :: t) /\ forall y, In y (x :: t) -> fst m <= fst y.
Proof.
  induction t as [|a t' IH]; intros x; cbn [fold_left].
  - split; [left; reflexivity|]. intros y [Hy|[]]. subst y. lia.
  - destruct (IH (if fst a <? fst x then a else x)) as [Hin Hlb]. cbn zeta. split.
    + destruct Hin as [He|Hin]; [|right; right; exact Hin].
      rewrite <- He. destruct (fst a <? fst x); [right; left; reflexivity|left; reflexivity].
    + intros y Hy.
      assert (Hstep : fst (if fst a <? fst x then a else x) <= fst x /\ fst (if fst a <? fst x then a else x) <= fst a).
      { destruct (fst a <? fst x) eqn:Hc; lia. }
      destruct Hy as [Hy|[Hy|Hy]].
      * subst y. etransitivity; [|exact (proj1 Hstep)]. apply Hlb. left. reflexivity.
      * subst y. etransitivity; [|exact (proj2 Hstep)]. apply Hlb. left. reflexivity.
      * apply Hlb. right. exact Hy.
Qed.

Lemma min_key_lemma ts :
  match min_key ts with
  | Ok m => In m ts /\ forall y, In y ts -> fst m <= fst y
  | Err _ => False
  | Panic => ts = []
  end.
Proof. destruct ts as [|x t]; cbn [min_key]; [reflexivity|]. apply fold_min_key_spec. Qed.
