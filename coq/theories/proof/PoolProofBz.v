(* PoolModel (pool.OnDemandBlockTaskPool), proofs for C12 / liveness side of C10 - Bz: the layers proved so far
   hold in every reachable configuration (for EVERY parameter record: no validity hypothesis, all pinned /
   repaired variants), and their consequences in readable form.
   These are steps towards done_not_early / shutdown_completes (props/C12_pool.v), not those theorems. *)
From Ekit Require Import Common Conc PoolModel PoolProof PoolProof2 PoolProof4 PoolProof5 PoolProof6 PoolProof7 PoolProofB
  PoolProofB0 PoolProofBA PoolProofB1 PoolProofB2d PoolProofB2s PoolProofB2bd PoolProofB2bs
  PoolProofB3d PoolProofB3s PoolProofB4d PoolProofB4s PoolProofBR PoolProofB5d PoolProofB6 PoolProofB7.
From Coq Require Import ZifyBool Arith PeanoNat.

Definition inv1 (c : pcfg) : Prop := invA c /\ invB c /\ invP c /\ invQ c.

Lemma inv1_init P : inv1 (pinit P).
Proof. split; [apply invA_init|]. split; [apply invB_init|]. split; [apply invP_init|apply invQ_init]. Qed.

Lemma inv1_step c e c' : inv1 c -> pstep_cfg c e = Some c' -> inv1 c'.
Proof.
  intros (HA & HB & HP & HQ) Hs.
  split; [eapply invA_step; eauto|]. split; [eapply invB_step; eauto|].
  split; [eapply invP_step; eauto|eapply invQ_step; eauto].
Qed.

Theorem inv1_reach P evs c : exec pstep_cfg (pinit P) evs = Some c -> inv1 c.
Proof.
  intros H. eapply (invariant_reachable _ _ pstep_cfg inv1 inv1_step evs (pinit P) c); [apply inv1_init|exact H].
Qed.

(* ---------- a sum that is at most 1 singles out one thread ---------- *)
Lemma lookup_in t x (l : list (tid * thr)) : lookup t l = Some x -> In t (tids l).
Proof.
  induction l as [|[t' y] r IH]; cbn; [discriminate|]. destruct (Nat.eqb t t') eqn:E.
  - apply Nat.eqb_eq in E. auto.
  - intros H. right. exact (IH H).
Qed.

Lemma tsum_le1_unique f l t1 t2 x1 x2 :
  (forall y, 0 <= f y) -> tsum f l <= 1 ->
  lookup t1 l = Some x1 -> lookup t2 l = Some x2 -> 1 <= f x1 -> 1 <= f x2 -> t1 = t2.
Proof.
  intros Hn Hs H1 H2 F1 F2. destruct (Nat.eq_dec t1 t2) as [E|E]; [exact E|exfalso].
  rewrite (tsum_remove f t1 x1 l H1) in Hs.
  assert (H2' : lookup t2 (remove t1 l) = Some x2).
  { clear -H2 E. induction l as [|[t' y] r IH]; cbn in *; [discriminate|].
    destruct (Nat.eqb t1 t') eqn:E1.
    - apply Nat.eqb_eq in E1. subst t'. destruct (Nat.eqb t2 t1) eqn:E2; [apply Nat.eqb_eq in E2; congruence|exact H2].
    - cbn. destruct (Nat.eqb t2 t'); [exact H2|apply IH, H2]. }
  pose proof (tsum_ge_lookup f _ _ _ Hn H2'). lia.
Qed.

Lemma pstate_eqb_true a b : pstate_eqb a b = true -> a = b.
Proof. destruct a, b; cbn; intros H; try discriminate H; reflexivity. Qed.
Lemma bz_le_true a b : bz a <= bz b -> a = true -> b = true.
Proof. destruct a, b; cbn; intros H E; try reflexivity; try discriminate E; lia. Qed.

(* ---------- 1. lock discipline ---------- *)
(* the three lock words say exactly how many threads are inside the corresponding critical sections ... *)
Lemma lock_discipline_lemma P evs c : exec pstep_cfg (pinit P) evs = Some c ->
  Z.b2z (s_bw (c_sh c)) = tsum (pcf g_hbw) (c_thr c) /\
  s_br (c_sh c) = tsum (pcf g_hbr) (c_thr c) /\
  Z.b2z (s_gw (c_sh c)) = tsum (pcf g_hgw) (c_thr c) /\
  s_gr (c_sh c) = tsum (pcf g_hgr) (c_thr c) /\
  Z.b2z (pstate_eqb (s_state (c_sh c)) SLocked) = tsum (pcf g_hsl) (c_thr c).
Proof.
  intros H. destruct (inv1_reach P evs c H) as (_ & [B1 B2 B3 B4 B5] & _). auto.
Qed.

(* ... hence: never two goroutines inside b.mutex's write section, and never two holders of the state word *)
Lemma mutual_exclusion_lemma P evs c t1 t2 x1 x2 : exec pstep_cfg (pinit P) evs = Some c ->
  lookup t1 (c_thr c) = Some x1 -> lookup t2 (c_thr c) = Some x2 ->
  (g_hbw (pc x1) = 1 -> g_hbw (pc x2) = 1 -> t1 = t2) /\
  (g_hgw (pc x1) = 1 -> g_hgw (pc x2) = 1 -> t1 = t2) /\
  (g_hsl (pc x1) = 1 -> g_hsl (pc x2) = 1 -> t1 = t2).
Proof.
  intros H L1 L2. destruct (inv1_reach P evs c H) as (_ & [B1 B2 B3 B4 B5] & _).
  split; [|split]; intros E1 E2.
  - apply (tsum_le1_unique (pcf g_hbw) (c_thr c) t1 t2 x1 x2 (pcf_nonneg _ g_hbw_nn)); cbn [pcf]; try assumption; try lia.
  - apply (tsum_le1_unique (pcf g_hgw) (c_thr c) t1 t2 x1 x2 (pcf_nonneg _ g_hgw_nn)); cbn [pcf]; try assumption; try lia.
  - apply (tsum_le1_unique (pcf g_hsl) (c_thr c) t1 t2 x1 x2 (pcf_nonneg _ g_hsl_nn)); cbn [pcf]; try assumption; try lia.
Qed.

(* ---------- 2. the graceful cancel ---------- *)
(* g_grace is set by exactly the two statements `b.interruptCtxCancel()` that follow a successful
   CAS closing -> stopped in a worker.  Whenever it is set: the pool is stopped, the context is cancelled,
   a Shutdown call had succeeded before, and no ShutdownNow ever succeeded. *)
Lemma graceful_cancel_only_after_shutdown_lemma P evs c : exec pstep_cfg (pinit P) evs = Some c ->
  g_grace (c_gh c) = true ->
  s_state (c_sh c) = SStopped /\ s_ictx (c_sh c) = true /\ g_shut (c_gh c) = true /\ g_now (c_gh c) = false.
Proof.
  intros H Hg. destruct (inv1_reach P evs c H) as (_ & _ & HP & _).
  pose proof (p_grace1 c HP) as G1. pose proof (p_grace2 c HP) as G2. pose proof (p_grace3 c HP) as G3.
  pose proof (p_excl c HP) as Ex. unfold eqst in G1.
  split; [apply pstate_eqb_true, (bz_le_true _ _ G1 Hg)|].
  split; [exact (bz_le_true _ _ G2 Hg)|].
  pose proof (bz_le_true _ _ G3 Hg) as Hs. split; [exact Hs|].
  rewrite Hs in Ex. destruct (g_now (c_gh c)); cbn in Ex; [lia|reflexivity].
Qed.

(* ---------- 3. the closed flag ---------- *)
Lemma closed_flag_accounting_lemma P evs c : exec pstep_cfg (pinit P) evs = Some c ->
  bz (s_closed (c_sh c)) + tsum (pcf g_shclose) (c_thr c) + tsum (pcf g_snclose) (c_thr c) =
    bz (g_shut (c_gh c)) + bz (g_now (c_gh c)) /\
  (g_shut (c_gh c) = true -> g_now (c_gh c) = true -> False) /\
  (s_closed (c_sh c) = true -> s_state (c_sh c) = SClosing \/ s_state (c_sh c) = SStopped) /\
  (s_ictx (c_sh c) = true -> s_state (c_sh c) = SStopped).
Proof.
  intros H. destruct (inv1_reach P evs c H) as (_ & _ & HP & _).
  split; [exact (p_closed_eq c HP)|]. split; [|split].
  - intros E1 E2. pose proof (p_excl c HP) as Ex. rewrite E1, E2 in Ex. cbn in Ex. lia.
  - intros E. pose proof (bz_le_true _ _ (p_closed c HP) E) as D. destruct (s_state (c_sh c)); cbn in D; try discriminate D; auto.
  - intros E. pose proof (p_ictx c HP) as D. unfold eqst in D. apply pstate_eqb_true, (bz_le_true _ _ D E).
Qed.

(* ---------- 4. interrupt branch, parked workers ---------- *)
Lemma interrupt_branch_after_cancel_lemma P evs c t x : exec pstep_cfg (pinit P) evs = Some c ->
  lookup t (c_thr c) = Some x -> g_int (pc x) = 1 -> s_ictx (c_sh c) = true.
Proof.
  intros H L E. destruct (inv1_reach P evs c H) as (_ & _ & _ & HQ).
  pose proof (tsum_zero_lookup _ _ _ _ (int_bad_nn (s_ictx (c_sh c))) (q_int c HQ) L) as Z.
  cbn [int_bad] in Z. rewrite E in Z. destruct (s_ictx (c_sh c)); [reflexivity|discriminate Z].
Qed.

Lemma parked_worker_idle_lemma P evs c t x : exec pstep_cfg (pinit P) evs = Some c ->
  lookup t (c_thr c) = Some x -> pc x = WParked ->
  s_closed (c_sh c) = false /\ s_ictx (c_sh c) = false /\ s_q (c_sh c) = [].
Proof.
  intros H L E. destruct (inv1_reach P evs c H) as (_ & _ & _ & HQ).
  pose proof (tsum_zero_lookup _ _ _ _ (parked_bad_nn (pflag (c_sh c))) (q_parked c HQ) L) as Z.
  cbn [parked_bad] in Z. rewrite E in Z. cbn [g_parked] in Z. unfold pflag in Z.
  destruct (s_q (c_sh c)) as [|k r]; cbn [qempty negb orb] in Z; [|discriminate Z].
  destruct (s_closed (c_sh c)); cbn [orb] in Z; [discriminate Z|].
  destruct (s_ictx (c_sh c)); [discriminate Z|]. auto.
Qed.

(* ================= the further layers: goroutine ids, totalGo / timeout-group accounting, returned list ================= *)
(* these need a valid parameter record (1 <= initGo <= maxGo) *)
Definition inv2 (P : params) (c : pcfg) : Prop :=
  c_par c = P /\ inv1 c /\ invW c /\ invG c /\ invR c.

Lemma inv2_init P : inv2 P (pinit P).
Proof.
  split; [reflexivity|]. split; [apply inv1_init|]. split; [apply invW_init|]. split; [apply invG_init|apply invR_init].
Qed.

Lemma inv2_step P c e c' : pvalid P -> inv2 P c -> pstep_cfg c e = Some c' -> inv2 P c'.
Proof.
  intros (V1 & V2 & V3 & _) (Hp & H1 & HW & HG & HR) Hs.
  pose proof H1 as (HA & HB & HP & HQ).
  split; [rewrite (par_const _ _ _ Hs); exact Hp|].
  split; [eapply inv1_step; eauto|].
  split; [eapply invW_step; eauto|].
  split; [|eapply invR_step; eauto].
  eapply invG_step; eauto; rewrite Hp; lia.
Qed.

Theorem inv2_reach P evs c : pvalid P -> exec pstep_cfg (pinit P) evs = Some c -> inv2 P c.
Proof.
  intros V H. eapply (invariant_reachable _ _ pstep_cfg (inv2 P) (fun c0 e c1 => inv2_step P c0 e c1 V) evs (pinit P) c);
    [apply inv2_init|exact H].
Qed.

Lemma inv4_of_exec P evs c : i_fixc P = true -> exec pstep_cfg (pinit P) evs = Some c -> Inv4 c.
Proof. intros Hf H. apply (inv4_reach P c Hf). exists evs. exact H. Qed.

(* ---------- 5. the only way to be stuck: all goroutines are workers parked in their select ---------- *)
Lemma stuck_threads_are_parked_lemma P evs c :
  pvalid P -> i_fixc P = true -> exec pstep_cfg (pinit P) evs = Some c -> stuck c ->
  (forall t x, lookup t (c_thr c) = Some x -> pc x = WParked /\ l_tm x <> TmArmed) /\
  (s_closed (c_sh c) = true \/ s_ictx (c_sh c) = true \/ s_q (c_sh c) <> [] -> c_thr c = []).
Proof.
  intros V Hf H Hst. destruct (inv2_reach P evs c V H) as (_ & (HA & HB & HP & HQ) & _ & HG & _).
  pose proof (inv4_of_exec P evs c Hf H) as H4.
  split; [intros t x; apply (stuck_all_parked c HA HB HP HG H4 Hst)|apply (stuck_no_threads_if c HA HB HP HQ HG H4 Hst)].
Qed.

(* ---------- 6. goroutine ids and the two counters ---------- *)
Lemma counters_lemma P evs c : pvalid P -> exec pstep_cfg (pinit P) evs = Some c ->
  s_total (c_sh c) = tsum (pcf g_cnt) (c_thr c) + tsum pend (c_thr c) /\
  (s_ictx (c_sh c) = true \/ s_gn (c_sh c) = tsum (ing (s_mp (c_sh c))) (c_thr c)) /\
  (forall X, tsum (own_is X) (c_thr c) <= 1) /\
  (forall a, In a (s_mp (c_sh c)) -> 1 <= a <= s_idc (c_sh c)).
Proof.
  intros V H. destruct (inv2_reach P evs c V H) as (_ & _ & HW & HG & _).
  split; [exact (d_total c HG)|]. split; [exact (g_gn c HG)|]. split; [exact (w_uniq c HW)|exact (w_mp c HW)].
Qed.

(* ---------- 7. the target statements, given the Layer-5 record at the configuration ---------- *)
(* [invK c] (proof/PoolProofB5d.v) is the conjunction of K, J, Q and the cancel bridge; every other
   invariant used is discharged here by reachability.  What is missing for the full theorems is exactly:
   invK is preserved by every step (and holds initially, which is immediate). *)
Lemma done_not_early_partial_lemma P evs c :
  pvalid P -> exec pstep_cfg (pinit P) evs = Some c -> invK c -> g_grace (c_gh c) = true ->
  s_q (c_sh c) = [] /\
  (forall t x, lookup t (c_thr c) = Some x -> g_cnt (pc x) = 0) /\
  (forall i, PoolProof.tsum (held i) (c_thr c) = 0) /\
  (forall i, In i (g_acc (c_gh c)) -> In i (g_done (c_gh c))).
Proof.
  intros V H HK Hg. destruct (inv2_reach P evs c V H) as (_ & (HA & HB & HP & HQ) & _ & HG & HR).
  exact (done_not_early_at P evs c H HA HP HK HR Hg).
Qed.

Lemma shutdown_completes_partial_lemma P evs c :
  pvalid P -> i_fixc P = true -> exec pstep_cfg (pinit P) evs = Some c -> invK c ->
  g_shut (c_gh c) = true -> stuck c ->
  s_state (c_sh c) = SStopped /\ s_ictx (c_sh c) = true /\
  (forall i, In i (g_acc (c_gh c)) -> In i (g_done (c_gh c))).
Proof.
  intros V Hf H HK Hs Hst. destruct (inv2_reach P evs c V H) as (_ & (HA & HB & HP & HQ) & _ & HG & HR).
  exact (shutdown_completes_at P evs c H HA HB HP HQ HG HK HR (inv4_of_exec P evs c Hf H) Hst Hs).
Qed.

Lemma stuck_running_implies_queue_empty_partial_lemma P evs c :
  pvalid P -> i_fixc P = true -> exec pstep_cfg (pinit P) evs = Some c -> invK c ->
  stuck c -> s_state (c_sh c) = SRunning -> s_q (c_sh c) = [].
Proof.
  intros V Hf H HK Hst Hr. destruct (inv2_reach P evs c V H) as (Hp & (HA & HB & HP & HQ) & _ & HG & HR).
  destruct V as (V1 & _).
  exact (stuck_running_queue_empty_at P c Hp V1 HA HB HP HQ HG HK (inv4_of_exec P evs c Hf H) Hst Hr).
Qed.

Lemma at_quiescence_none_lost_partial_lemma P evs c :
  pvalid P -> i_fixc P = true -> exec pstep_cfg (pinit P) evs = Some c -> invK c ->
  g_shut (c_gh c) = true \/ g_now (c_gh c) = true -> stuck c ->
  forall i, In i (g_acc (c_gh c)) -> In i (g_done (c_gh c)) \/ In i (g_returned (c_gh c)).
Proof.
  intros V Hf H HK Hsn Hst. destruct (inv2_reach P evs c V H) as (_ & (HA & HB & HP & HQ) & _ & HG & HR).
  exact (at_quiescence_none_lost_at P evs c H HA HB HP HQ HG HK HR (inv4_of_exec P evs c Hf H) Hst Hsn).
Qed.
