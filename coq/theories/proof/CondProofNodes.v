(* Abstract bookkeeping of wait-nodes for CondModel (C13): the life cycle of a node
   (pool -> owned/unlinked -> linked -> notified|self-unlinked -> quiet -> pool), tokens in channels,
   and tokens in flight, over two abstract tables X (thread -> its node and phase) and
   Y (thread -> node it has unlinked and not yet sent to).  Each lemma is one kind of transition. *)
From Ekit Require Import Common Conc CondModel CondProof.
From Coq Require Import Arith PeanoNat.

Definition xtab := list (tid * option (node * phase)).
Definition ytab := list (tid * option node).
Definition own (X : xtab) (t : tid) (n : node) (ph : phase) : Prop := lookup t X = Some (Some (n, ph)).
Definition infl (Y : ytab) (t : tid) (f : node) : Prop := lookup t Y = Some (Some f).

Definition link_ok (lst tok ntf : list node) (n : node) (ph : phase) : Prop :=
  match ph with
  | PhPre => ~ In n lst /\ ~ In n ntf /\ ~ In n tok
  | PhLinkMu | PhSelf => In n lst
  | PhAwait => In n lst \/ In n ntf
  | PhQuiet => ~ In n lst /\ ~ In n tok
  end.

(* ---- the ownership structure alone ---- *)
Record OwnS (X : xtab) (pool : list node) (nxt : nat) : Prop := {
  o_pool_nd : NoDup pool;
  o_pool_own : forall n t ph, In n pool -> own X t n ph -> False;
  o_uniq : forall t1 t2 n ph1 ph2, own X t1 n ph1 -> own X t2 n ph2 -> t1 = t2;
  o_pool_lt : forall n, In n pool -> (n < nxt)%nat;
  o_own_lt : forall t n ph, own X t n ph -> (n < nxt)%nat
}.

Record NI (X : xtab) (Y : ytab) (lst tok ntf pool : list node) (nxt : nat) : Prop := {
  n_owns : OwnS X pool nxt;
  n_lst_nd : NoDup lst;
  n_lst_ntf : forall n, In n lst -> ~ In n ntf;
  n_lst_own : forall n, In n lst -> exists t ph, own X t n ph /\ inlist_ph ph = true;
  n_link : forall t n ph, own X t n ph -> link_ok lst tok ntf n ph;
  n_tok_nd : NoDup tok;
  n_tok : forall n, In n tok -> In n ntf /\ exists t, own X t n PhAwait;
  n_ntf_nd : NoDup ntf;
  n_ntf_own : forall n, In n ntf -> exists t ph, own X t n ph /\ (ph = PhAwait \/ ph = PhQuiet);
  n_ntf_await : forall t n, own X t n PhAwait -> In n ntf -> In n tok \/ exists t2, infl Y t2 n;
  n_infl : forall t2 f, infl Y t2 f -> ~ In f tok /\ In f ntf /\ exists t, own X t f PhAwait
}.

(* t holds l.mu: nobody else is in a phase, or has a node in flight, that needs the mutex *)
Definition excl (X : xtab) (Y : ytab) (t : tid) : Prop :=
  (forall t0 f, t0 <> t -> infl Y t0 f -> False) /\
  (forall t0 n ph, t0 <> t -> own X t0 n ph -> ph = PhAwait \/ ph = PhQuiet).

(* ---- lookups in updated tables ---- *)
Lemma lookup_update_cases {A} (l : list (tid * A)) t x x0 t0 y :
  lookup t l = Some x0 -> lookup t0 (update t x l) = Some y ->
  (t0 = t /\ y = x) \/ (t0 <> t /\ lookup t0 l = Some y).
Proof.
  intros Hl H. destruct (Nat.eq_dec t0 t) as [->|Hne].
  - rewrite (lookup_update_same _ _ _ _ _ Hl) in H. injection H as <-. left; split; reflexivity.
  - rewrite lookup_update_other in H by exact Hne. right; split; assumption.
Qed.

Lemma lookup_remove_cases {A} (l : list (tid * A)) t t0 y :
  NoDup (tids l) -> lookup t0 (remove t l) = Some y -> t0 <> t /\ lookup t0 l = Some y.
Proof.
  intros Hnd H. destruct (Nat.eq_dec t0 t) as [->|Hne].
  - rewrite lookup_remove_same in H by exact Hnd. discriminate.
  - rewrite lookup_remove_other in H by exact Hne. split; assumption.
Qed.

Lemma own_keep X t x t0 n ph : t0 <> t -> own X t0 n ph -> own (update t x X) t0 n ph.
Proof. intros Hne H. unfold own. rewrite lookup_update_other by exact Hne. exact H. Qed.

Lemma own_new X t x0 n ph : lookup t X = Some x0 -> own (update t (Some (n, ph)) X) t n ph.
Proof. intros Hl. unfold own. apply (lookup_update_same _ _ _ _ _ Hl). Qed.

Lemma infl_keep Y t y t0 f : t0 <> t -> infl Y t0 f -> infl (update t y Y) t0 f.
Proof. intros Hne H. unfold infl. rewrite lookup_update_other by exact Hne. exact H. Qed.

Lemma own_upd_inv X t x0 x' t0 m ph :
  lookup t X = Some x0 -> own (update t x' X) t0 m ph ->
  (t0 = t /\ x' = Some (m, ph)) \/ (t0 <> t /\ own X t0 m ph).
Proof.
  intros Hl H. destruct (lookup_update_cases _ _ _ _ _ _ Hl H) as [[-> E]|[Hne E]].
  - left. split; [reflexivity|]. congruence.
  - right. split; assumption.
Qed.

Lemma infl_upd_inv Y t y0 y' t0 f :
  lookup t Y = Some y0 -> infl (update t y' Y) t0 f ->
  (t0 = t /\ y' = Some f) \/ (t0 <> t /\ infl Y t0 f).
Proof.
  intros Hl H. destruct (lookup_update_cases _ _ _ _ _ _ Hl H) as [[-> E]|[Hne E]].
  - left. split; [reflexivity|]. congruence.
  - right. split; assumption.
Qed.

(* the owner keeps its node and changes phase *)
Lemma owns_rephase X pool nxt t n ph0 ph' :
  own X t n ph0 -> OwnS X pool nxt -> OwnS (update t (Some (n, ph')) X) pool nxt.
Proof.
  intros Ho [A B C D E]. constructor; [exact A| | |exact D|].
  - intros m t0 ph Hi H. destruct (own_upd_inv _ _ _ _ _ _ _ Ho H) as [[-> X1]|[Hne X1]].
    + injection X1 as <- <-. eapply B; eassumption.
    + eapply B; eassumption.
  - intros t1 t2 m ph1 ph2 H1 H2.
    destruct (own_upd_inv _ _ _ _ _ _ _ Ho H1) as [[-> X1]|[Hne1 X1]];
      destruct (own_upd_inv _ _ _ _ _ _ _ Ho H2) as [[-> X2]|[Hne2 X2]]; try reflexivity.
    + injection X1 as <- <-. symmetry. eapply C; eassumption.
    + injection X2 as <- <-. eapply C; eassumption.
    + eapply C; eassumption.
  - intros t0 m ph H. destruct (own_upd_inv _ _ _ _ _ _ _ Ho H) as [[-> X1]|[Hne X1]].
    + injection X1 as <- <-. eapply E; eassumption.
    + eapply E; eassumption.
Qed.

(* a thread without a node gets one that nobody owns *)
Lemma owns_acquire X pool pool' nxt nxt' t n :
  lookup t X = Some None ->
  NoDup pool' -> (forall m, In m pool' -> In m pool) -> ~ In n pool' ->
  (forall t0 ph, own X t0 n ph -> False) -> (n < nxt')%nat -> (nxt <= nxt')%nat ->
  OwnS X pool nxt -> OwnS (update t (Some (n, PhPre)) X) pool' nxt'.
Proof.
  intros Hl Hnd Hsub Hn Hfree Hlt Hle [A B C D E]. constructor; [exact Hnd| | | |].
  - intros m t0 ph Hi H. destruct (own_upd_inv _ _ _ _ _ _ _ Hl H) as [[-> X1]|[Hne X1]].
    + injection X1 as <- <-. exact (Hn Hi).
    + eapply B; [apply Hsub, Hi|exact X1].
  - intros t1 t2 m ph1 ph2 H1 H2.
    destruct (own_upd_inv _ _ _ _ _ _ _ Hl H1) as [[-> X1]|[Hne1 X1]];
      destruct (own_upd_inv _ _ _ _ _ _ _ Hl H2) as [[-> X2]|[Hne2 X2]]; try reflexivity.
    + injection X1 as <- <-. exfalso. eapply Hfree, X2.
    + injection X2 as <- <-. exfalso. eapply Hfree, X1.
    + eapply C; eassumption.
  - intros m Hi. specialize (D m (Hsub m Hi)). lia.
  - intros t0 m ph H. destruct (own_upd_inv _ _ _ _ _ _ _ Hl H) as [[-> X1]|[Hne X1]].
    + injection X1 as <- <-. exact Hlt.
    + specialize (E _ _ _ X1). lia.
Qed.

(* a thread without a node moves / leaves / arrives *)
Lemma owns_nodeless_update X pool nxt t :
  lookup t X = Some None -> OwnS X pool nxt -> OwnS (update t None X) pool nxt.
Proof. intros Hl H. rewrite (update_id _ _ _ Hl). exact H. Qed.

Lemma own_remove_inv X t t0 m ph :
  NoDup (tids X) -> own (remove t X) t0 m ph -> t0 <> t /\ own X t0 m ph.
Proof. intros Hnd H. apply (lookup_remove_cases _ _ _ _ Hnd H). Qed.

Lemma own_remove_keep X t t0 m ph : t0 <> t -> own X t0 m ph -> own (remove t X) t0 m ph.
Proof. intros Hne H. unfold own. rewrite lookup_remove_other by exact Hne. exact H. Qed.

Lemma owns_remove_any X pool nxt t :
  NoDup (tids X) -> OwnS X pool nxt -> OwnS (remove t X) pool nxt.
Proof.
  intros Hnd [A B C D E]. constructor; [exact A| | |exact D|].
  - intros m t0 ph Hi H. destruct (own_remove_inv _ _ _ _ _ Hnd H) as [_ X1]. eapply B; eassumption.
  - intros t1 t2 m ph1 ph2 H1 H2. destruct (own_remove_inv _ _ _ _ _ Hnd H1) as [_ X1].
    destruct (own_remove_inv _ _ _ _ _ Hnd H2) as [_ X2]. eapply C; eassumption.
  - intros t0 m ph H. destruct (own_remove_inv _ _ _ _ _ Hnd H) as [_ X1]. eapply E; eassumption.
Qed.

(* the owner returns and its node goes back to the pool *)
Lemma owns_free X pool nxt t n ph :
  NoDup (tids X) -> own X t n ph -> OwnS X pool nxt -> OwnS (remove t X) (n :: pool) nxt.
Proof.
  intros Hnd Ho [A B C D E]. constructor.
  - constructor; [|exact A]. intros Hi. eapply B; eassumption.
  - intros m t0 ph0 Hi H. destruct (own_remove_inv _ _ _ _ _ Hnd H) as [Hne X1]. destruct Hi as [<-|Hi].
    + apply Hne. eapply C; eassumption.
    + eapply B; eassumption.
  - intros t1 t2 m ph1 ph2 H1 H2. destruct (own_remove_inv _ _ _ _ _ Hnd H1) as [_ X1].
    destruct (own_remove_inv _ _ _ _ _ Hnd H2) as [_ X2]. eapply C; eassumption.
  - intros m [<-|Hi]; [eapply E; eassumption|apply D, Hi].
  - intros t0 m ph0 H. destruct (own_remove_inv _ _ _ _ _ Hnd H) as [_ X1]. eapply E; eassumption.
Qed.

Lemma own_spawn_inv (X : xtab) t x t0 m ph :
  lookup t X = None -> own (spawn t x X) t0 m ph -> (t0 = t /\ x = Some (m, ph)) \/ (t0 <> t /\ own X t0 m ph).
Proof.
  intros Hl H. unfold own in H. rewrite lookup_spawn in H.
  destruct (lookup t0 X) eqn:E.
  - right. split; [intros ->; congruence|]. unfold own. congruence.
  - destruct (Nat.eqb t0 t) eqn:E2; [|discriminate]. apply Nat.eqb_eq in E2. subst. left. split; [reflexivity|congruence].
Qed.

Lemma own_spawn_keep (X : xtab) t x t0 m ph : own X t0 m ph -> own (spawn t x X) t0 m ph.
Proof. intros H. unfold own in *. rewrite lookup_spawn, H. reflexivity. Qed.

Lemma owns_spawn X pool nxt t : lookup t X = None -> OwnS X pool nxt -> OwnS (spawn t None X) pool nxt.
Proof.
  intros Hl [A B C D E]. constructor; [exact A| | |exact D|].
  - intros m t0 ph Hi H. destruct (own_spawn_inv _ _ _ _ _ _ Hl H) as [[_ X1]|[_ X1]]; [discriminate|]. eapply B; eassumption.
  - intros t1 t2 m ph1 ph2 H1 H2.
    destruct (own_spawn_inv _ _ _ _ _ _ Hl H1) as [[_ X1]|[_ X1]]; [discriminate|].
    destruct (own_spawn_inv _ _ _ _ _ _ Hl H2) as [[_ X2]|[_ X2]]; [discriminate|]. eapply C; eassumption.
  - intros t0 m ph H. destruct (own_spawn_inv _ _ _ _ _ _ Hl H) as [[_ X1]|[_ X1]]; [discriminate|]. eapply E; eassumption.
Qed.

Lemma own_functional X t n ph m ph2 : own X t n ph -> own X t m ph2 -> m = n /\ ph2 = ph.
Proof. unfold own. intros A B. rewrite A in B. injection B as <- <-. split; reflexivity. Qed.

Ltac oinv H Ho :=
  let Hne := fresh "Hne" in let E := fresh "E" in
  destruct (own_upd_inv _ _ _ _ _ _ _ Ho H) as [[-> E]|[Hne E]];
  [ injection E as <- <- | ].

(* ---- T: the owner changes phase, no set changes ---- *)
Lemma ni_rephase X Y lst tok ntf pool nxt t n ph0 ph' :
  own X t n ph0 ->
  link_ok lst tok ntf n ph' ->
  (In n lst -> inlist_ph ph' = true) ->
  (In n tok -> ph' = PhAwait) ->
  (In n ntf -> ph' = PhAwait \/ ph' = PhQuiet) ->
  (ph' = PhAwait -> In n ntf -> In n tok \/ exists t2, infl Y t2 n) ->
  ((exists t2, infl Y t2 n) -> ph' = PhAwait) ->
  NI X Y lst tok ntf pool nxt -> NI (update t (Some (n, ph')) X) Y lst tok ntf pool nxt.
Proof.
  intros Ho Hlk Hlst Htok Hntf Haw Hinf H. destruct H as [OW A B C D E F G Hn Ha Hi].
  constructor; try assumption.
  - eapply owns_rephase; eassumption.
  - intros m Hm. destruct (C m Hm) as (t0 & ph & Hown & Hin).
    destruct (Nat.eq_dec t0 t) as [->|Hne].
    + destruct (own_functional _ _ _ _ _ _ Ho Hown) as [-> ->]. exists t, ph'. split; [eapply own_new, Ho|apply Hlst, Hm].
    + exists t0, ph. split; [apply own_keep; assumption|exact Hin].
  - intros t0 m ph H. destruct (own_upd_inv _ _ _ _ _ _ _ Ho H) as [[-> EE]|[Hne EE]]; [injection EE as <- <-; exact Hlk|exact (D _ _ _ EE)].
  - intros m Hm. destruct (F m Hm) as [Hq (t0 & Hown)]. split; [exact Hq|].
    destruct (Nat.eq_dec t0 t) as [->|Hne].
    + destruct (own_functional _ _ _ _ _ _ Ho Hown) as [-> _]. exists t. rewrite <- (Htok Hm). eapply own_new, Ho.
    + exists t0. apply own_keep; assumption.
  - intros m Hm. destruct (Hn m Hm) as (t0 & ph & Hown & Hph).
    destruct (Nat.eq_dec t0 t) as [->|Hne].
    + destruct (own_functional _ _ _ _ _ _ Ho Hown) as [-> _]. exists t, ph'. split; [eapply own_new, Ho|apply Hntf, Hm].
    + exists t0, ph. split; [apply own_keep; assumption|exact Hph].
  - intros t0 m H Hm. destruct (own_upd_inv _ _ _ _ _ _ _ Ho H) as [[-> E1]|[Hne E1]].
    + injection E1 as <- E2. apply Haw; [exact E2|exact Hm].
    + eapply Ha; eassumption.
  - intros t2 f H. destruct (Hi t2 f H) as (P1 & P2 & (t0 & Hown)). split; [exact P1|]. split; [exact P2|].
    destruct (Nat.eq_dec t0 t) as [->|Hne].
    + destruct (own_functional _ _ _ _ _ _ Ho Hown) as [-> _]. exists t.
      rewrite <- (Hinf (ex_intro _ t2 H)). eapply own_new, Ho.
    + exists t0. apply own_keep; assumption.
Qed.

(* ---- T: the owner takes the token out of its channel ---- *)
Lemma ni_consume X Y lst tok ntf pool nxt t n :
  own X t n PhAwait -> In n tok ->
  NI X Y lst tok ntf pool nxt -> NI (update t (Some (n, PhQuiet)) X) Y lst (remove_node n tok) ntf pool nxt.
Proof.
  intros Ho Hin H. destruct H as [OW A B C D E F G Hn Ha Hi].
  destruct (F n Hin) as [Hnn _].
  assert (Hnl : ~ In n lst) by (intros X1; exact (B n X1 Hnn)).
  constructor; try assumption.
  - eapply owns_rephase; eassumption.
  - intros m Hm. destruct (C m Hm) as (t0 & ph & Hown & Hinl).
    destruct (Nat.eq_dec t0 t) as [->|Hne].
    + destruct (own_functional _ _ _ _ _ _ Ho Hown) as [-> _]. contradiction.
    + exists t0, ph. split; [apply own_keep; assumption|exact Hinl].
  - intros t0 m ph H. destruct (own_upd_inv _ _ _ _ _ _ _ Ho H) as [[-> EE]|[Hne EE]]; [injection EE as <- <-|].
    + split; [exact Hnl|apply notin_remove_node, E].
    + specialize (D _ _ _ EE). destruct ph; cbn in *; try exact D.
      * destruct D as (P1 & P2 & P3). repeat split; try assumption. intros X1. apply P3. eapply in_remove_node, X1.
      * destruct D as (P1 & P2). split; [exact P1|]. intros X1. apply P2. eapply in_remove_node, X1.
  - apply nodup_remove_node, E.
  - intros m Hm. pose proof (in_remove_node _ _ _ Hm) as Hm'. destruct (F m Hm') as [Hq (t0 & Hown)]. split; [exact Hq|].
    destruct (Nat.eq_dec t0 t) as [->|Hne].
    + destruct (own_functional _ _ _ _ _ _ Ho Hown) as [-> _]. exfalso. exact (notin_remove_node _ _ E Hm).
    + exists t0. apply own_keep; assumption.
  - intros m Hm. destruct (Hn m Hm) as (t0 & ph & Hown & Hph).
    destruct (Nat.eq_dec t0 t) as [->|Hne].
    + destruct (own_functional _ _ _ _ _ _ Ho Hown) as [-> _]. exists t, PhQuiet. split; [eapply own_new, Ho|right; reflexivity].
    + exists t0, ph. split; [apply own_keep; assumption|exact Hph].
  - intros t0 m H Hm. destruct (own_upd_inv _ _ _ _ _ _ _ Ho H) as [[-> E1]|[Hne E1]]; [discriminate|].
    destruct (Ha _ _ E1 Hm) as [X1|X1]; [|right; exact X1]. left.
    apply in_remove_node_other; [|exact X1]. intros ->.
    apply Hne. eapply (o_uniq _ _ _ OW); eassumption.
  - intros t2 f H. destruct (Hi t2 f H) as (P1 & P2 & (t0 & Hown)).
    split; [intros X1; apply P1; eapply in_remove_node, X1|]. split; [exact P2|].
    destruct (Nat.eq_dec t0 t) as [->|Hne].
    + destruct (own_functional _ _ _ _ _ _ Ho Hown) as [-> _]. contradiction.
    + exists t0. apply own_keep; assumption.
Qed.

Lemma NoDup_app_intro_one (l : list node) n : NoDup l -> ~ In n l -> NoDup (l ++ [n]).
Proof.
  induction l as [|x r IH]; cbn; intros Hnd Hn; [constructor; [tauto|constructor]|].
  inversion Hnd as [|y ys Hy Hys]; subst. constructor.
  - rewrite in_app_iff. cbn. intros [X1|[X1|[]]]; [exact (Hy X1)|apply Hn; left; symmetry; exact X1].
  - apply IH; [exact Hys|]. intros X1. apply Hn. right; exact X1.
Qed.

(* ---- T: pushBack links the node ---- *)
Lemma ni_link X Y lst tok ntf pool nxt t n :
  own X t n PhPre ->
  NI X Y lst tok ntf pool nxt -> NI (update t (Some (n, PhLinkMu)) X) Y (lst ++ [n]) tok ntf pool nxt.
Proof.
  intros Ho H. destruct H as [OW A B C D E F G Hn Ha Hi].
  destruct (D _ _ _ Ho) as (Q1 & Q2 & Q3).
  assert (Hother : forall t0 m ph, t0 <> t -> own X t0 m ph -> m <> n).
  { intros t0 m ph Hne Hown ->. apply Hne. eapply (o_uniq _ _ _ OW); eassumption. }
  constructor; try assumption.
  - eapply owns_rephase; eassumption.
  - apply NoDup_app_intro_one; assumption.
  - intros m Hm. apply in_app_or in Hm. destruct Hm as [Hm|[<-|[]]]; [apply B, Hm|exact Q2].
  - intros m Hm. apply in_app_or in Hm. destruct Hm as [Hm|[<-|[]]].
    + destruct (C m Hm) as (t0 & ph & Hown & Hinl). destruct (Nat.eq_dec t0 t) as [->|Hne].
      * destruct (own_functional _ _ _ _ _ _ Ho Hown) as [-> _]. contradiction.
      * exists t0, ph. split; [apply own_keep; assumption|exact Hinl].
    + exists t, PhLinkMu. split; [eapply own_new, Ho|reflexivity].
  - intros t0 m ph H. destruct (own_upd_inv _ _ _ _ _ _ _ Ho H) as [[-> EE]|[Hne EE]]; [injection EE as <- <-|].
    + cbn. apply in_or_app. right; left; reflexivity.
    + specialize (D _ _ _ EE). pose proof (Hother _ _ _ Hne EE) as Hmn.
      destruct ph; cbn in *.
      * destruct D as (P1 & P2 & P3). repeat split; try assumption.
        intros X1. apply in_app_or in X1. destruct X1 as [X1|[X1|[]]]; [exact (P1 X1)|congruence].
      * apply in_or_app; left; exact D.
      * destruct D as [D|D]; [left; apply in_or_app; left; exact D|right; exact D].
      * apply in_or_app; left; exact D.
      * destruct D as (P1 & P2). split; [|exact P2].
        intros X1. apply in_app_or in X1. destruct X1 as [X1|[X1|[]]]; [exact (P1 X1)|congruence].
  - intros m Hm. destruct (F m Hm) as [Hq (t0 & Hown)]. split; [exact Hq|].
    destruct (Nat.eq_dec t0 t) as [->|Hne].
    + destruct (own_functional _ _ _ _ _ _ Ho Hown) as [_ X1]. discriminate.
    + exists t0. apply own_keep; assumption.
  - intros m Hm. destruct (Hn m Hm) as (t0 & ph & Hown & Hph).
    destruct (Nat.eq_dec t0 t) as [->|Hne].
    + destruct (own_functional _ _ _ _ _ _ Ho Hown) as [_ ->]. destruct Hph; discriminate.
    + exists t0, ph. split; [apply own_keep; assumption|exact Hph].
  - intros t0 m H Hm. destruct (own_upd_inv _ _ _ _ _ _ _ Ho H) as [[-> E1]|[Hne E1]]; [discriminate|].
    eapply Ha; eassumption.
  - intros t2 f H. destruct (Hi t2 f H) as (P1 & P2 & (t0 & Hown)). split; [exact P1|]. split; [exact P2|].
    destruct (Nat.eq_dec t0 t) as [->|Hne].
    + destruct (own_functional _ _ _ _ _ _ Ho Hown) as [_ X1]. discriminate.
    + exists t0. apply own_keep; assumption.
Qed.

(* ---- T: a notifier unlinks the front node m (under l.mu) ---- *)
Lemma ni_unlink_notify X Y lst tok ntf pool nxt t m :
  lookup t Y = Some None -> In m lst -> excl X Y t ->
  (forall n ph, own X t n ph -> ph = PhQuiet) ->
  NI X Y lst tok ntf pool nxt -> NI X (update t (Some m) Y) (remove_node m lst) tok (m :: ntf) pool nxt.
Proof.
  intros Hy Hm [Ex1 Ex2] Hq H. destruct H as [OW A B C D E F G Hn Ha Hi].
  assert (Hmn : ~ In m ntf) by (apply B, Hm).
  assert (Hmt : ~ In m tok) by (intros X1; destruct (F m X1) as [X2 _]; exact (Hmn X2)).
  assert (Hown_m : exists u, own X u m PhAwait).
  { destruct (C m Hm) as (t0 & ph & Hown & Hinl). exists t0.
    destruct (Nat.eq_dec t0 t) as [->|Hne].
    - rewrite (Hq _ _ Hown) in Hinl. discriminate.
    - destruct (Ex2 _ _ _ Hne Hown) as [->| ->]; [exact Hown|discriminate]. }
  constructor; try assumption.
  - apply nodup_remove_node, A.
  - intros x Hx [<-|X1]; [exact (notin_remove_node _ _ A Hx)|]. exact (B x (in_remove_node _ _ _ Hx) X1).
  - intros x Hx. apply C. eapply in_remove_node, Hx.
  - intros t0 n ph Hown. specialize (D _ _ _ Hown). destruct ph; cbn in *.
    + destruct D as (P1 & P2 & P3). split; [intros X1; apply P1; eapply in_remove_node, X1|]. split; [|exact P3].
      intros [<-|X1]; [exact (P1 Hm)|exact (P2 X1)].
    + exfalso. destruct (Nat.eq_dec t0 t) as [->|Hne]; [pose proof (Hq _ _ Hown); discriminate|].
      destruct (Ex2 _ _ _ Hne Hown); discriminate.
    + destruct (Nat.eq_dec n m) as [->|Hnm]; [right; left; reflexivity|].
      destruct D as [D|D]; [left; apply in_remove_node_other; assumption|right; right; exact D].
    + exfalso. destruct (Nat.eq_dec t0 t) as [->|Hne]; [pose proof (Hq _ _ Hown); discriminate|].
      destruct (Ex2 _ _ _ Hne Hown); discriminate.
    + destruct D as (P1 & P2). split; [intros X1; apply P1; eapply in_remove_node, X1|exact P2].
  - intros x Hx. destruct (F x Hx) as [P1 P2]. split; [right; exact P1|exact P2].
  - constructor; assumption.
  - intros x [<-|Hx].
    + destruct Hown_m as (u & Hu). exists u, PhAwait. split; [exact Hu|left; reflexivity].
    + apply Hn, Hx.
  - intros t0 n Hown [<-|Hx].
    + right. exists t. unfold infl. apply (lookup_update_same _ _ _ _ _ Hy).
    + destruct (Ha _ _ Hown Hx) as [X1|(t2 & X1)]; [left; exact X1|]. right. exists t2.
      apply infl_keep; [|exact X1]. intros ->. unfold infl in X1. congruence.
  - intros t2 f H. destruct (infl_upd_inv _ _ _ _ _ _ Hy H) as [[-> E1]|[Hne E1]].
    + injection E1 as <-. split; [exact Hmt|]. split; [left; reflexivity|exact Hown_m].
    + exfalso. eapply Ex1; eassumption.
Qed.

(* ---- T: a timed-out waiter unlinks its own node (under l.mu) ---- *)
Lemma ni_unlink_self X Y lst tok ntf pool nxt t n :
  own X t n PhSelf ->
  NI X Y lst tok ntf pool nxt -> NI (update t (Some (n, PhQuiet)) X) Y (remove_node n lst) tok ntf pool nxt.
Proof.
  intros Ho H. destruct H as [OW A B C D E F G Hn Ha Hi].
  pose proof (D _ _ _ Ho) as Hnl. cbn in Hnl.
  assert (Hnn : ~ In n ntf) by (apply B, Hnl).
  assert (Hnt : ~ In n tok) by (intros X1; destruct (F n X1) as [X2 _]; exact (Hnn X2)).
  assert (Hother : forall t0 m ph, t0 <> t -> own X t0 m ph -> m <> n).
  { intros t0 m ph Hne Hown ->. apply Hne. eapply (o_uniq _ _ _ OW); eassumption. }
  constructor; try assumption.
  - eapply owns_rephase; eassumption.
  - apply nodup_remove_node, A.
  - intros x Hx. apply B. eapply in_remove_node, Hx.
  - intros x Hx. destruct (C x (in_remove_node _ _ _ Hx)) as (t0 & ph & Hown & Hinl).
    destruct (Nat.eq_dec t0 t) as [->|Hne].
    + destruct (own_functional _ _ _ _ _ _ Ho Hown) as [-> _]. exfalso. exact (notin_remove_node _ _ A Hx).
    + exists t0, ph. split; [apply own_keep; assumption|exact Hinl].
  - intros t0 m ph H. destruct (own_upd_inv _ _ _ _ _ _ _ Ho H) as [[-> EE]|[Hne EE]]; [injection EE as <- <-|].
    + split; [apply notin_remove_node, A|exact Hnt].
    + specialize (D _ _ _ EE). pose proof (Hother _ _ _ Hne EE) as Hmn. destruct ph; cbn in *.
      * destruct D as (P1 & P2 & P3). repeat split; try assumption. intros X1; apply P1; eapply in_remove_node, X1.
      * apply in_remove_node_other; assumption.
      * destruct D as [D|D]; [left; apply in_remove_node_other; assumption|right; exact D].
      * apply in_remove_node_other; assumption.
      * destruct D as (P1 & P2). split; [intros X1; apply P1; eapply in_remove_node, X1|exact P2].
  - intros m Hm. destruct (F m Hm) as [Hq (t0 & Hown)]. split; [exact Hq|].
    destruct (Nat.eq_dec t0 t) as [->|Hne].
    + destruct (own_functional _ _ _ _ _ _ Ho Hown) as [_ X1]. discriminate.
    + exists t0. apply own_keep; assumption.
  - intros m Hm. destruct (Hn m Hm) as (t0 & ph & Hown & Hph).
    destruct (Nat.eq_dec t0 t) as [->|Hne].
    + destruct (own_functional _ _ _ _ _ _ Ho Hown) as [_ ->]. destruct Hph; discriminate.
    + exists t0, ph. split; [apply own_keep; assumption|exact Hph].
  - intros t0 m H Hm. destruct (own_upd_inv _ _ _ _ _ _ _ Ho H) as [[-> E1]|[Hne E1]]; [discriminate|].
    eapply Ha; eassumption.
  - intros t2 f H. destruct (Hi t2 f H) as (P1 & P2 & (t0 & Hown)). split; [exact P1|]. split; [exact P2|].
    destruct (Nat.eq_dec t0 t) as [->|Hne].
    + destruct (own_functional _ _ _ _ _ _ Ho Hown) as [_ X1]. discriminate.
    + exists t0. apply own_keep; assumption.
Qed.

(* ---- T: the notifier's send puts the token into the buffer of f's channel (under l.mu) ---- *)
Lemma ni_send_buffer X Y lst tok ntf pool nxt t f :
  infl Y t f -> excl X Y t ->
  NI X Y lst tok ntf pool nxt -> NI X (update t None Y) lst (f :: tok) ntf pool nxt.
Proof.
  intros Hf [Ex1 Ex2] H. destruct H as [OW A B C D E F G Hn Ha Hi].
  destruct (Hi _ _ Hf) as (Hft & Hfn & (u & Hu)).
  constructor; try assumption.
  - intros t0 n ph Hown. specialize (D _ _ _ Hown).
    assert (Hne : ph <> PhAwait -> n <> f).
    { intros Hp ->. pose proof (o_uniq _ _ _ OW _ _ _ _ _ Hown Hu) as ->.
      destruct (own_functional _ _ _ _ _ _ Hu Hown) as [_ ->]. congruence. }
    destruct ph; cbn in *; try exact D.
    + destruct D as (P1 & P2 & P3). repeat split; try assumption. intros [X1|X1]; [|exact (P3 X1)].
      symmetry in X1. revert X1. apply Hne. discriminate.
    + destruct D as (P1 & P2). split; [exact P1|]. intros [X1|X1]; [|exact (P2 X1)].
      symmetry in X1. revert X1. apply Hne. discriminate.
  - constructor; assumption.
  - intros x [<-|Hx]; [split; [exact Hfn|exists u; exact Hu]|apply F, Hx].
  - intros t0 n Hown Hx. destruct (Ha _ _ Hown Hx) as [X1|(t2 & X1)]; [left; right; exact X1|].
    destruct (Nat.eq_dec t2 t) as [->|Hne].
    + unfold infl in *. rewrite Hf in X1. injection X1 as <-. left; left; reflexivity.
    + exfalso. eapply Ex1; eassumption.
  - intros t2 g H. destruct (infl_upd_inv _ _ _ _ _ _ Hf H) as [[-> E1]|[Hne E1]]; [discriminate|].
    exfalso. eapply Ex1; eassumption.
Qed.

(* ---- T: the notifier's send hands the token to the parked owner u directly (under l.mu) ---- *)
Lemma ni_send_wake X Y lst tok ntf pool nxt t f u :
  infl Y t f -> own X u f PhAwait -> excl X Y t ->
  NI X Y lst tok ntf pool nxt ->
  NI (update u (Some (f, PhQuiet)) X) (update t None Y) lst tok ntf pool nxt.
Proof.
  intros Hf Hu [Ex1 Ex2] H. destruct H as [OW A B C D E F G Hn Ha Hi].
  destruct (Hi _ _ Hf) as (Hft & Hfn & _).
  assert (Hfl : ~ In f lst) by (intros X1; exact (B f X1 Hfn)).
  constructor; try assumption.
  - eapply owns_rephase; eassumption.
  - intros m Hm. destruct (C m Hm) as (t0 & ph & Hown & Hinl).
    destruct (Nat.eq_dec t0 u) as [->|Hne].
    + destruct (own_functional _ _ _ _ _ _ Hu Hown) as [-> _]. contradiction.
    + exists t0, ph. split; [apply own_keep; assumption|exact Hinl].
  - intros t0 m ph H. destruct (own_upd_inv _ _ _ _ _ _ _ Hu H) as [[-> EE]|[Hne EE]]; [injection EE as <- <-|].
    + split; assumption.
    + exact (D _ _ _ EE).
  - intros m Hm. destruct (F m Hm) as [Hq (t0 & Hown)]. split; [exact Hq|].
    destruct (Nat.eq_dec t0 u) as [->|Hne].
    + destruct (own_functional _ _ _ _ _ _ Hu Hown) as [-> _]. contradiction.
    + exists t0. apply own_keep; assumption.
  - intros m Hm. destruct (Hn m Hm) as (t0 & ph & Hown & Hph).
    destruct (Nat.eq_dec t0 u) as [->|Hne].
    + destruct (own_functional _ _ _ _ _ _ Hu Hown) as [-> _]. exists u, PhQuiet. split; [eapply own_new, Hu|right; reflexivity].
    + exists t0, ph. split; [apply own_keep; assumption|exact Hph].
  - intros t0 m H Hm. destruct (own_upd_inv _ _ _ _ _ _ _ Hu H) as [[-> E1]|[Hne E1]]; [discriminate|].
    destruct (Ha _ _ E1 Hm) as [X1|(t2 & X1)]; [left; exact X1|].
    destruct (Nat.eq_dec t2 t) as [->|Hne2].
    + unfold infl in *. rewrite Hf in X1. injection X1 as <-. exfalso. apply Hne.
      eapply (o_uniq _ _ _ OW); eassumption.
    + exfalso. eapply Ex1; eassumption.
  - intros t2 g H. destruct (infl_upd_inv _ _ _ _ _ _ Hf H) as [[-> E1]|[Hne E1]]; [discriminate|].
    exfalso. eapply Ex1; eassumption.
Qed.

Lemma infl_remove_inv (Y : ytab) t t0 f : NoDup (tids Y) -> infl (remove t Y) t0 f -> t0 <> t /\ infl Y t0 f.
Proof. intros Hnd H. apply (lookup_remove_cases _ _ _ _ Hnd H). Qed.

Lemma infl_remove_keep (Y : ytab) t t0 f : t0 <> t -> infl Y t0 f -> infl (remove t Y) t0 f.
Proof. intros Hne H. unfold infl. rewrite lookup_remove_other by exact Hne. exact H. Qed.

(* ---- T: Wait returns: the node goes back to the pool ---- *)
Lemma ni_free X Y lst tok ntf pool nxt t n :
  NoDup (tids X) -> NoDup (tids Y) ->
  own X t n PhQuiet -> lookup t Y = Some None ->
  NI X Y lst tok ntf pool nxt ->
  NI (remove t X) (remove t Y) lst tok (remove_node n ntf) (n :: pool) nxt.
Proof.
  intros HndX HndY Ho Hy H. destruct H as [OW A B C D E F G Hn Ha Hi].
  destruct (D _ _ _ Ho) as [Hnl Hnt].
  assert (Hother : forall t0 m ph, t0 <> t -> own X t0 m ph -> m <> n).
  { intros t0 m ph Hne Hown ->. apply Hne. eapply (o_uniq _ _ _ OW); eassumption. }
  constructor; try assumption.
  - eapply owns_free; eassumption.
  - intros x Hx X1. exact (B x Hx (in_remove_node _ _ _ X1)).
  - intros x Hx. destruct (C x Hx) as (t0 & ph & Hown & Hinl). exists t0, ph. split; [|exact Hinl].
    apply own_remove_keep; [|exact Hown]. intros ->.
    destruct (own_functional _ _ _ _ _ _ Ho Hown) as [_ ->]. discriminate.
  - intros t0 m ph H. destruct (own_remove_inv _ _ _ _ _ HndX H) as [Hne Hown].
    specialize (D _ _ _ Hown). pose proof (Hother _ _ _ Hne Hown) as Hmn. destruct ph; cbn in *; try exact D.
    + destruct D as (P1 & P2 & P3). repeat split; try assumption. intros X1; apply P2; eapply in_remove_node, X1.
    + destruct D as [D|D]; [left; exact D|right; apply in_remove_node_other; assumption].
  - intros x Hx. destruct (F x Hx) as [P1 (t0 & Hown)].
    assert (Hxn : x <> n) by (intros ->; exact (Hnt Hx)).
    split; [apply in_remove_node_other; assumption|]. exists t0.
    apply own_remove_keep; [|exact Hown]. intros ->.
    destruct (own_functional _ _ _ _ _ _ Ho Hown) as [_ X1]. discriminate.
  - apply nodup_remove_node, G.
  - intros x Hx. pose proof (in_remove_node _ _ _ Hx) as Hx'. destruct (Hn x Hx') as (t0 & ph & Hown & Hph).
    exists t0, ph. split; [|exact Hph]. apply own_remove_keep; [|exact Hown]. intros ->.
    destruct (own_functional _ _ _ _ _ _ Ho Hown) as [-> _]. exact (notin_remove_node _ _ G Hx).
  - intros t0 m H Hm. destruct (own_remove_inv _ _ _ _ _ HndX H) as [Hne Hown].
    destruct (Ha _ _ Hown (in_remove_node _ _ _ Hm)) as [X1|(t2 & X1)]; [left; exact X1|]. right. exists t2.
    apply infl_remove_keep; [|exact X1]. intros ->. unfold infl in X1. congruence.
  - intros t2 f H. destruct (infl_remove_inv _ _ _ _ HndY H) as [Hne Hf].
    destruct (Hi _ _ Hf) as (P1 & P2 & (t0 & Hown)). split; [exact P1|].
    assert (Ht0 : t0 <> t) by (intros ->; destruct (own_functional _ _ _ _ _ _ Ho Hown) as [_ X1]; discriminate).
    split; [apply in_remove_node_other; [eapply Hother; eassumption|exact P2]|].
    exists t0. apply own_remove_keep; assumption.
Qed.

(* ---- T: alloc: a thread without a node gets one that nobody owns (recycled or fresh) ---- *)
Lemma ni_acquire X Y lst tok ntf pool pool' nxt nxt' t n :
  lookup t X = Some None ->
  NoDup pool' -> (forall m, In m pool' -> In m pool) -> ~ In n pool' ->
  (forall t0 ph, own X t0 n ph -> False) -> (n < nxt')%nat -> (nxt <= nxt')%nat ->
  NI X Y lst tok ntf pool nxt -> NI (update t (Some (n, PhPre)) X) Y lst tok ntf pool' nxt'.
Proof.
  intros Hl Hnd Hsub Hnp Hfree Hlt Hle H. destruct H as [OW A B C D E F G Hn Ha Hi].
  assert (Hkeep : forall t0 m ph, own X t0 m ph -> own (update t (Some (n, PhPre)) X) t0 m ph).
  { intros t0 m ph Hown. apply own_keep; [|exact Hown]. intros ->. unfold own in Hown. congruence. }
  constructor; try assumption.
  - eapply owns_acquire; eassumption.
  - intros m Hm. destruct (C m Hm) as (t0 & ph & Hown & Hinl). exists t0, ph. split; [apply Hkeep, Hown|exact Hinl].
  - intros t0 m ph H. destruct (own_upd_inv _ _ _ _ _ _ _ Hl H) as [[-> EE]|[Hne EE]]; [injection EE as <- <-|].
    + cbn. split; [|split].
      * intros X1. destruct (C _ X1) as (t0 & ph & Hown & _). eapply Hfree, Hown.
      * intros X1. destruct (Hn _ X1) as (t0 & ph & Hown & _). eapply Hfree, Hown.
      * intros X1. destruct (F _ X1) as [_ (t0 & Hown)]. eapply Hfree, Hown.
    + exact (D _ _ _ EE).
  - intros m Hm. destruct (F m Hm) as [Hq (t0 & Hown)]. split; [exact Hq|]. exists t0. apply Hkeep, Hown.
  - intros m Hm. destruct (Hn m Hm) as (t0 & ph & Hown & Hph). exists t0, ph. split; [apply Hkeep, Hown|exact Hph].
  - intros t0 m H Hm. destruct (own_upd_inv _ _ _ _ _ _ _ Hl H) as [[-> E1]|[Hne E1]]; [discriminate|].
    eapply Ha; eassumption.
  - intros t2 f H. destruct (Hi t2 f H) as (P1 & P2 & (t0 & Hown)). split; [exact P1|]. split; [exact P2|].
    exists t0. apply Hkeep, Hown.
Qed.

(* ---- T: a thread that owns nothing and has nothing in flight leaves ---- *)
Lemma ni_nodeless_remove X Y lst tok ntf pool nxt t :
  NoDup (tids X) -> NoDup (tids Y) ->
  lookup t X = Some None -> lookup t Y = Some None ->
  NI X Y lst tok ntf pool nxt -> NI (remove t X) (remove t Y) lst tok ntf pool nxt.
Proof.
  intros HndX HndY Hx Hy H. destruct H as [OW A B C D E F G Hn Ha Hi].
  assert (Hkeep : forall t0 m ph, own X t0 m ph -> own (remove t X) t0 m ph).
  { intros t0 m ph Hown. apply own_remove_keep; [|exact Hown]. intros ->. unfold own in Hown. congruence. }
  constructor; try assumption.
  - apply owns_remove_any; assumption.
  - intros m Hm. destruct (C m Hm) as (t0 & ph & Hown & Hinl). exists t0, ph. split; [apply Hkeep, Hown|exact Hinl].
  - intros t0 m ph H. destruct (own_remove_inv _ _ _ _ _ HndX H) as [_ Hown]. exact (D _ _ _ Hown).
  - intros m Hm. destruct (F m Hm) as [Hq (t0 & Hown)]. split; [exact Hq|]. exists t0. apply Hkeep, Hown.
  - intros m Hm. destruct (Hn m Hm) as (t0 & ph & Hown & Hph). exists t0, ph. split; [apply Hkeep, Hown|exact Hph].
  - intros t0 m H Hm. destruct (own_remove_inv _ _ _ _ _ HndX H) as [_ Hown].
    destruct (Ha _ _ Hown Hm) as [X1|(t2 & X1)]; [left; exact X1|]. right. exists t2.
    apply infl_remove_keep; [|exact X1]. intros ->. unfold infl in X1. congruence.
  - intros t2 f H. destruct (infl_remove_inv _ _ _ _ HndY H) as [_ Hf].
    destruct (Hi _ _ Hf) as (P1 & P2 & (t0 & Hown)). split; [exact P1|]. split; [exact P2|].
    exists t0. apply Hkeep, Hown.
Qed.

(* ---- T: a new call starts ---- *)
Lemma ni_spawn X Y lst tok ntf pool nxt t :
  lookup t X = None -> lookup t Y = None ->
  NI X Y lst tok ntf pool nxt -> NI (spawn t None X) (spawn t None Y) lst tok ntf pool nxt.
Proof.
  intros Hx Hy H. destruct H as [OW A B C D E F G Hn Ha Hi].
  constructor; try assumption.
  - apply owns_spawn; assumption.
  - intros m Hm. destruct (C m Hm) as (t0 & ph & Hown & Hinl). exists t0, ph. split; [apply own_spawn_keep, Hown|exact Hinl].
  - intros t0 m ph H. destruct (own_spawn_inv _ _ _ _ _ _ Hx H) as [[_ X1]|[_ X1]]; [discriminate|]. exact (D _ _ _ X1).
  - intros m Hm. destruct (F m Hm) as [Hq (t0 & Hown)]. split; [exact Hq|]. exists t0. apply own_spawn_keep, Hown.
  - intros m Hm. destruct (Hn m Hm) as (t0 & ph & Hown & Hph). exists t0, ph. split; [apply own_spawn_keep, Hown|exact Hph].
  - intros t0 m H Hm. destruct (own_spawn_inv _ _ _ _ _ _ Hx H) as [[_ X1]|[_ X1]]; [discriminate|].
    destruct (Ha _ _ X1 Hm) as [X2|(t2 & X2)]; [left; exact X2|]. right. exists t2.
    unfold infl in *. rewrite lookup_spawn, X2. reflexivity.
  - intros t2 f H. unfold infl in H. rewrite lookup_spawn in H.
    destruct (lookup t2 Y) eqn:E1.
    + destruct (Hi t2 f) as (P1 & P2 & (t0 & Hown)); [unfold infl; congruence|].
      split; [exact P1|]. split; [exact P2|]. exists t0. apply own_spawn_keep, Hown.
    + destruct (Nat.eqb t2 t); discriminate.
Qed.

(* the initial configuration *)
Lemma ni_init : NI [] [] [] [] [] [] O.
Proof.
  constructor; try (constructor; fail); try (intros; cbn in *; tauto); try (intros; discriminate).
  constructor; try (constructor; fail); try (intros; cbn in *; tauto); intros; discriminate.
Qed.
