(* Proofs about PoolModel, part 2: the counting invariants behind C11
   (totalGo <= maxGo, numGoRunningTasks <= totalGo, the state word as a lock, one-way lifecycle). *)
From Ekit Require Import Common Conc PoolModel PoolProof.
From Coq Require Import ZifyBool Arith PeanoNat.

(* ---------------------------------------------------------------- classification of program counters *)
(* the caller holds the state word at `locked` (Submit: between the CAS and the deferred CAS back) *)
Definition shold_pc (p : ppc) : bool :=
  match p with
  | TsDefer | TsSelect | TsCaseCtx | TsRetCtx | TsCaseSend | TsIfCreate | AlRLock | AlDefer | AlRate | AlRet
  | TsInc | SiLock | SiAdd | SiUnlock | TsId | TsGo | TsRetT | TsCaseDefault | TsRetF0 => true
  | _ => false
  end.
(* Start: between its CAS created->locked and its CAS locked->running *)
Definition thold_pc (p : ppc) : bool :=
  match p with
  | StN | NcN | NcAllow | NcNeed | NcIf1 | NcIf2 | NcAddNeed | NcAddAllow | NcRet | StInc
  | TiLock | TiAdd | TiUnlock | StLoop | StGo | StCasRun => true
  | _ => false
  end.
Definition hold_pc (p : ppc) : bool := shold_pc p || thold_pc p.

(* Start before `b.totalGo += n` *)
Definition pre_pc (p : ppc) : bool :=
  match p with
  | StN | NcN | NcAllow | NcNeed | NcIf1 | NcIf2 | NcAddNeed | NcAddAllow | NcRet | StInc | TiLock | TiAdd => true
  | _ => false
  end.

(* a worker that is counted in totalGo (has not executed its decrement yet) *)
Definition wcount_pc (p : ppc) : bool :=
  match p with
  | WNewTimer | WStop0 | WDrain0 | WFor | WSelect | WParked
  | WCaseInt | WIntDec | WIdLock | WIdSub
  | WCaseTimer | WTmLock | WTmDecr
  | WCaseQueue | WIfIsIn | IiRLock | IiDefer | IiLookup | IiRet
  | WRcDel | RdLock | RdDefer | RdIf | RdDec | RdDelete | WStop1 | WDrain1 | WIfNotOk
  | WClDec | CdLock | CdSub
  | WRunInc | WRun | RwDefer | RwRet | TfRet | WUser | RwRecIf | RwBuf | RwStack | RwErr | WRunDec
  | WBkLock | WBkNoTasks | WBkIf1 | Z1RLock | Z1Defer | Z1Ret | WBkDecr
  | WBkIf2 | Z2RLock | Z2Defer | Z2Ret | WBkNewTimer | WBkAdd | GaLock | GaDefer | GaIf | GaSet | GaInc
  | WBkUnlock2 => true
  | _ => false
  end.
(* a worker goroutine at all (counted or on its way out) *)
Definition worker_pc (p : ppc) : bool :=
  wcount_pc p ||
  match p with
  | WIdUnlock | WIntRet
  | WTmLeft | WTmDel | TdLock | TdDefer | TdIf | TdDec | TdDelete | WTmUnlock | WTmIfLeft | WTmCas | WTmCancel | WTmRet
  | CdUnlock | WClIfNum | NgRLock | NgRead | NgRUnlock | NgRet | WClCas | WClCancel | WClRet
  | WBkUnlock1 | WBkRet => true
  | _ => false
  end.
(* between numGoRunningTasks+1 and numGoRunningTasks-1 *)
Definition wrun_pc (p : ppc) : bool :=
  match p with
  | WRun | RwDefer | RwRet | TfRet | WUser | RwRecIf | RwBuf | RwStack | RwErr | WRunDec => true
  | _ => false
  end.
(* creation allowed (totalGo < maxGo was read), totalGo not yet incremented *)
Definition res_pc (p : ppc) : bool :=
  match p with TsInc | SiLock | SiAdd => true | _ => false end.

Definition b2z (b : bool) : Z := if b then 1 else 0.
Definition hold (th : thr) : Z := b2z (hold_pc (pc th)).
Definition thold (th : thr) : Z := b2z (thold_pc (pc th)).
Definition pre (th : thr) : Z := b2z (pre_pc (pc th)).
Definition wcount (th : thr) : Z := b2z (wcount_pc (pc th)).
Definition wany (th : thr) : Z := b2z (worker_pc (pc th)).
Definition wrun (th : thr) : Z := b2z (wrun_pc (pc th)).
Definition res (th : thr) : Z := b2z (res_pc (pc th)).
(* workers counted in totalGo before their `go` statement *)
Definition pending (th : thr) : Z :=
  match pc th with
  | TiUnlock | StLoop => l_n th
  | StGo => l_n th - l_a th
  | SiUnlock | TsId | TsGo => 1
  | _ => 0
  end.

(* facts about the locals of one thread *)
Definition Lloc (P : params) (th : thr) : Prop :=
  match pc th with
  | NcAllow => l_n th = i_init P
  | NcNeed | NcIf1 | NcAddAllow => l_n th = i_init P /\ l_a th = i_max P - i_init P
  | NcIf2 => l_n th = i_init P /\ l_a th = i_max P - i_init P /\ 0 < l_b th
  | NcAddNeed => l_n th = i_init P /\ l_a th = i_max P - i_init P /\ 0 < l_b th <= l_a th
  | NcRet | StInc | TiLock | TiAdd | TiUnlock | StLoop => i_init P <= l_n th <= i_max P
  | StGo => i_init P <= l_n th <= i_max P /\ 0 <= l_a th < l_n th
  | AlRLock | AlDefer | AlRate | AlRet | TsInc | SiLock | SiAdd | SiUnlock | TsId | TsGo => l_second th = true
  | _ => True
  end.

Definition pvalid (P : params) : Prop :=
  1 <= i_init P /\ i_init P <= i_core P /\ i_core P <= i_max P /\ 0 <= i_cap P /\ 0 < i_rd P.

(* the state the `locked` excursion of this holder returns to *)
Definition want' (th : thr) : pstate := if thold_pc (pc th) then SCreated else want th.
(* the state word as a number (the values of task_pool.go), so that lia can reason about it *)
Definition sz (x : pstate) : Z :=
  match x with SCreated => 1 | SRunning => 2 | SClosing => 3 | SStopped => 4 | SLocked => 5 end.
Lemma sz_inj a b : sz a = sz b -> a = b.
Proof. destruct a, b; cbn; intros; try reflexivity; lia. Qed.
Lemma sz_range a : 1 <= sz a <= 5. Proof. destruct a; cbn; lia. Qed.
Definition Lprev (s : shared) (th : thr) : Prop :=
  hold_pc (pc th) = true -> sz (s_prev s) = sz (want' th).

(* ---------------------------------------------------------------- wake-invariance of the sums *)
Lemma is_parked_pc th : is_parked th = true -> pc th = WParked.
Proof. unfold is_parked. destruct (pc th); try discriminate; reflexivity. Qed.

Ltac wake_tac :=
  let th := fresh "th" in let Hp := fresh "Hp" in
  intros th Hp; apply is_parked_pc in Hp;
  unfold recv_ok, recv_closed, recv_int; cbn; rewrite ?Hp; cbn; repeat split; try reflexivity.

Lemma wi_hold : wake_inv hold. Proof. unfold hold; wake_tac. Qed.
Lemma wi_thold : wake_inv thold. Proof. unfold thold; wake_tac. Qed.
Lemma wi_pre : wake_inv pre. Proof. unfold pre; wake_tac. Qed.
Lemma wi_wcount : wake_inv wcount. Proof. unfold wcount; wake_tac. Qed.
Lemma wi_wany : wake_inv wany. Proof. unfold wany; wake_tac. Qed.
Lemma wi_wrun : wake_inv wrun. Proof. unfold wrun; wake_tac. Qed.
Lemma wi_res : wake_inv res. Proof. unfold res; wake_tac. Qed.
Lemma wi_pending : wake_inv pending. Proof. unfold pending; wake_tac. Qed.

Lemma b2z_nonneg b : 0 <= b2z b. Proof. destruct b; cbn; lia. Qed.
Lemma b2z_le1 b : b2z b <= 1. Proof. destruct b; cbn; lia. Qed.

(* ---------------------------------------------------------------- the invariant *)
Record Inv (P : params) (c : pcfg) : Prop := {
  v_par : c_par c = P;
  v_hold : tsum hold (c_thr c) <= 1;
  v_lock : sz (s_state (c_sh c)) = 5 <-> tsum hold (c_thr c) = 1;
  v_prev : tall (Lprev (c_sh c)) (c_thr c);
  v_loc : tall (Lloc P) (c_thr c);
  v_total : s_total (c_sh c) = tsum wcount (c_thr c) + tsum pending (c_thr c);
  v_run : s_running (c_sh c) = tsum wrun (c_thr c);
  v_res : s_total (c_sh c) + tsum res (c_thr c) <= i_max P;
  v_pre : 1 <= tsum pre (c_thr c) -> tsum wany (c_thr c) = 0;
  v_cr : sz (s_state (c_sh c)) = 1 -> tsum wany (c_thr c) = 0;
  v_lcr : sz (s_state (c_sh c)) = 5 -> sz (s_prev (c_sh c)) = 1 ->
          tsum thold (c_thr c) = 0 -> tsum wany (c_thr c) = 0
}.

(* splits `pstep ... = Some o` into the statement cases and makes o explicit *)
Ltac inv_some H :=
  repeat match type of H with
  | (if ?b then _ else _) = Some _ => let E := fresh "Ec" in destruct b eqn:E
  | match ?x with _ => _ end = Some _ => let E := fresh "Em" in destruct x eqn:E
  end; try discriminate H.

Ltac pstep_split Hp Epc :=
  unfold pstep in Hp;
  match type of Hp with
  | context [pc ?th] =>
    destruct (pc th) eqn:Epc;
    try (unfold ts_select, send_ready in Hp);
    try (unfold w_select in Hp);
    try (match type of Hp with match ?ch with C0 => _ | _ => _ end = _ => destruct ch; try discriminate Hp end;
         unfold pstep0 in Hp; rewrite Epc in Hp; cbv iota beta in Hp);
    unfold stay, stayg, fin, quit in Hp;
    inv_some Hp;
    injection Hp as <-
  end.


Lemma pstate_eqb_sz a b : pstate_eqb a b = true -> sz a = sz b.
Proof. destruct a, b; cbn; intros H; try discriminate; reflexivity. Qed.
Lemma pstate_neqb_sz a b : pstate_eqb a b = false -> sz a <> sz b.
Proof. destruct a, b; cbn; intros H; try discriminate; lia. Qed.
Lemma pstate_eqb_eq a b : pstate_eqb a b = true <-> a = b.
Proof. destruct a, b; cbn; split; intros H; try discriminate; reflexivity. Qed.
Lemma pstate_eqb_neq a b : pstate_eqb a b = false <-> a <> b.
Proof. destruct a, b; cbn; split; intros H; try discriminate; try congruence; exfalso; apply H; reflexivity. Qed.

Lemma hold_nonneg th : 0 <= hold th. Proof. apply b2z_nonneg. Qed.
Lemma thold_nonneg th : 0 <= thold th. Proof. apply b2z_nonneg. Qed.
Lemma pre_nonneg th : 0 <= pre th. Proof. apply b2z_nonneg. Qed.
Lemma wany_nonneg th : 0 <= wany th. Proof. apply b2z_nonneg. Qed.
Lemma res_nonneg th : 0 <= res th. Proof. apply b2z_nonneg. Qed.
Lemma wcount_nonneg th : 0 <= wcount th. Proof. apply b2z_nonneg. Qed.
Lemma wrun_nonneg th : 0 <= wrun th. Proof. apply b2z_nonneg. Qed.

Lemma tsum_zero_tall g l :
  (forall th, 0 <= g th) -> tsum g l = 0 -> tall (fun th => g th = 0) l.
Proof.
  intros Hg. unfold tall. induction l as [|[t2 p2] r IH]; cbn; [constructor|].
  intros H. pose proof (tsum_nonneg g r Hg). pose proof (Hg p2).
  constructor; [cbn; lia|apply IH; lia].
Qed.

Lemma Lprev_transfer s s' l :
  (s_prev s' = s_prev s \/ tsum hold l = 0) -> tall (Lprev s) l -> tall (Lprev s') l.
Proof.
  intros [E|E] H.
  - eapply tall_impl; [|exact H]. intros th Hth Hh. rewrite E. apply Hth, Hh.
  - pose proof (tsum_zero_tall hold l hold_nonneg E) as Hz.
    eapply tall_impl; [|exact Hz]. cbn. intros th Hth Hh. unfold hold in Hth. rewrite Hh in Hth. discriminate.
Qed.

Lemma wo_Lprev s : wake_ok (Lprev s).
Proof.
  intros th Hp _. apply is_parked_pc in Hp. unfold Lprev, recv_ok, recv_closed, recv_int. cbn.
  repeat split; intros; discriminate.
Qed.
Lemma wo_Lloc P : wake_ok (Lloc P).
Proof.
  intros th Hp _. apply is_parked_pc in Hp. unfold Lloc, recv_ok, recv_closed, recv_int. cbn.
  repeat split; exact I.
Qed.

Lemma Lloc_pending_nonneg P l : tall (Lloc P) l -> pvalid P -> 0 <= tsum pending l.
Proof.
  intros H [V1 _]. unfold tall in H. induction l as [|[t2 p2] r IH]; cbn; [lia|].
  inversion H as [|x xs Hx Hxs]; subst. cbn in Hx. specialize (IH Hxs).
  assert (0 <= pending p2); [|lia].
  unfold pending, Lloc in *. destruct (pc p2); lia.
Qed.
