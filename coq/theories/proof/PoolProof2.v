(* Proofs about PoolModel, part 2: the counting invariants behind C11
   (totalGo <= maxGo, numGoRunningTasks <= totalGo, the state word as a lock, one-way lifecycle). *)
From Ekit Require Import Common Conc PoolModel PoolProof.
From Coq Require Import ZifyBool Arith PeanoNat.

(* ---------------------------------------------------------------- classification of program counters *)
(* the caller holds the state word at `locked` (Submit: between the CAS and the deferred CAS back) *)
Definition shold_pc (p : ppc) : bool :=
  match p with
  | TsDefer | TsSelect | TsCaseCtx | TsRetCtx | TsCaseSend | TsIfCreate | AlRLock | AlDefer | AlRate | AlRet
  | TsInc | SiLock | SiAdd | SiUnlock | TsId | TsGo | TsRetT | TsCaseDefault | TsRetF0 => true
  | _ => false
  end.
(* Start: between its CAS created->locked and its CAS locked->running *)
Definition thold_pc (p : ppc) : bool :=
  match p with
  | StN | NcN | NcAllow | NcNeed | NcIf1 | NcIf2 | NcAddNeed | NcAddAllow | NcRet | StInc
  | TiLock | TiAdd | TiUnlock | StLoop | StGo | StCasRun => true
  | _ => false
  end.
Definition hold_pc (p : ppc) : bool := shold_pc p || thold_pc p.

(* Start before `b.totalGo += n` *)
Definition pre_pc (p : ppc) : bool :=
  match p with
  | StN | NcN | NcAllow | NcNeed | NcIf1 | NcIf2 | NcAddNeed | NcAddAllow | NcRet | StInc | TiLock | TiAdd => true
  | _ => false
  end.

(* a worker that is counted in totalGo (has not executed its decrement yet) *)
Definition wcount_pc (p : ppc) : bool :=
  match p with
  | WNewTimer | WStop0 | WDrain0 | WFor | WSelect | WParked
  | WCaseInt | WIntDec | WIdLock | WIdSub
  | WCaseTimer | WTmLock | WTmDecr
  | WCaseQueue | WIfIsIn | IiRLock | IiDefer | IiLookup | IiRet
  | WRcDel | RdLock | RdDefer | RdIf | RdDec | RdDelete | WStop1 | WDrain1 | WIfNotOk
  | WClDec | CdLock | CdSub
  | WRunInc | WRun | RwDefer | RwRet | TfRet | WUser | RwRecIf | RwBuf | RwStack | RwErr | WRunDec
  | WBkLock | WBkNoTasks | WBkIf1 | Z1RLock | Z1Defer | Z1Ret | WBkDecr
  | WBkIf2 | Z2RLock | Z2Defer | Z2Ret | WBkNewTimer | WBkAdd | GaLock | GaDefer | GaIf | GaSet | GaInc
  | WBkUnlock2 => true
  | _ => false
  end.
(* a worker goroutine at all (counted or on its way out) *)
Definition worker_pc (p : ppc) : bool :=
  wcount_pc p ||
  match p with
  | WIdUnlock | WIntRet
  | WTmLeft | WTmDel | TdLock | TdDefer | TdIf | TdDec | TdDelete | WTmUnlock | WTmIfLeft | WTmCas | WTmCancel | WTmRet
  | CdUnlock | WClIfNum | NgRLock | NgRead | NgRUnlock | NgRet | WClCas | WClCancel | WClRet
  | WBkUnlock1 | WBkRet => true
  | _ => false
  end.
(* between numGoRunningTasks+1 and numGoRunningTasks-1 *)
Definition wrun_pc (p : ppc) : bool :=
  match p with
  | WRun | RwDefer | RwRet | TfRet | WUser | RwRecIf | RwBuf | RwStack | RwErr | WRunDec => true
  | _ => false
  end.
(* creation allowed (totalGo < maxGo was read), totalGo not yet incremented *)
Definition res_pc (p : ppc) : bool :=
  match p with TsInc | SiLock | SiAdd => true | _ => false end.

Definition b2z (b : bool) : Z := if b then 1 else 0.
Definition hold (th : thr) : Z := b2z (hold_pc (pc th)).
Definition thold (th : thr) : Z := b2z (thold_pc (pc th)).
Definition pre (th : thr) : Z := b2z (pre_pc (pc th)).
Definition wcount (th : thr) : Z := b2z (wcount_pc (pc th)).
Definition wany (th : thr) : Z := b2z (worker_pc (pc th)).
Definition wrun (th : thr) : Z := b2z (wrun_pc (pc th)).
Definition res (th : thr) : Z := b2z (res_pc (pc th)).
(* workers counted in totalGo before their `go` statement *)
Definition pending (th : thr) : Z :=
  match pc th with
  | TiUnlock | StLoop => l_n th
  | StGo => l_n th - l_a th
  | SiUnlock | TsId | TsGo => 1
  | _ => 0
  end.

(* facts about the locals of one thread *)
Definition Lloc (P : params) (th : thr) : Prop :=
  match pc th with
  | NcAllow => l_n th = i_init P
  | NcNeed | NcIf1 | NcAddAllow => l_n th = i_init P /\ l_a th = i_max P - i_init P
  | NcIf2 => l_n th = i_init P /\ l_a th = i_max P - i_init P /\ 0 < l_b th
  | NcAddNeed => l_n th = i_init P /\ l_a th = i_max P - i_init P /\ 0 < l_b th <= l_a th
  | NcRet | StInc | TiLock | TiAdd | TiUnlock | StLoop => i_init P <= l_n th <= i_max P
  | StGo => i_init P <= l_n th <= i_max P /\ 0 <= l_a th < l_n th
  | AlRLock | AlDefer | AlRate | AlRet | TsInc | SiLock | SiAdd | SiUnlock | TsId | TsGo => l_second th = true
  | _ => True
  end.

Definition pvalid (P : params) : Prop :=
  1 <= i_init P /\ i_init P <= i_core P /\ i_core P <= i_max P /\ 0 <= i_cap P /\ 0 < i_rd P.

(* the state the `locked` excursion of this holder returns to *)
Definition want' (th : thr) : pstate := if thold_pc (pc th) then SCreated else want th.
(* the state word as a number (the values of task_pool.go), so that lia can reason about it *)
Definition sz (x : pstate) : Z :=
  match x with SCreated => 1 | SRunning => 2 | SClosing => 3 | SStopped => 4 | SLocked => 5 end.
Lemma sz_inj a b : sz a = sz b -> a = b.
Proof. destruct a, b; cbn; intros; try reflexivity; lia. Qed.
Lemma sz_range a : 1 <= sz a <= 5. Proof. destruct a; cbn; lia. Qed.
Definition Lprev (s : shared) (th : thr) : Prop :=
  hold_pc (pc th) = true -> sz (s_prev s) = sz (want' th).

(* ---------------------------------------------------------------- wake-invariance of the sums *)
Lemma is_parked_pc th : is_parked th = true -> pc th = WParked.
Proof. unfold is_parked. destruct (pc th); try discriminate; reflexivity. Qed.

Ltac wake_tac :=
  let th := fresh "th" in let Hp := fresh "Hp" in
  intros th Hp; apply is_parked_pc in Hp;
  unfold recv_ok, recv_closed, recv_int; cbn; rewrite ?Hp; cbn; repeat split; try reflexivity.

Lemma wi_hold : wake_inv hold. Proof. unfold hold; wake_tac. Qed.
Lemma wi_thold : wake_inv thold. Proof. unfold thold; wake_tac. Qed.
Lemma wi_pre : wake_inv pre. Proof. unfold pre; wake_tac. Qed.
Lemma wi_wcount : wake_inv wcount. Proof. unfold wcount; wake_tac. Qed.
Lemma wi_wany : wake_inv wany. Proof. unfold wany; wake_tac. Qed.
Lemma wi_wrun : wake_inv wrun. Proof. unfold wrun; wake_tac. Qed.
Lemma wi_res : wake_inv res. Proof. unfold res; wake_tac. Qed.
Lemma wi_pending : wake_inv pending. Proof. unfold pending; wake_tac. Qed.

Lemma b2z_nonneg b : 0 <= b2z b. Proof. destruct b; cbn; lia. Qed.
Lemma b2z_le1 b : b2z b <= 1. Proof. destruct b; cbn; lia. Qed.

(* ---------------------------------------------------------------- the invariant *)
Record Inv (P : params) (c : pcfg) : Prop := {
  v_par : c_par c = P;
  v_hold : tsum hold (c_thr c) <= 1;
  v_lock : sz (s_state (c_sh c)) = 5 <-> tsum hold (c_thr c) = 1;
  v_prev : tall (Lprev (c_sh c)) (c_thr c);
  v_loc : tall (Lloc P) (c_thr c);
  v_total : s_total (c_sh c) = tsum wcount (c_thr c) + tsum pending (c_thr c);
  v_run : s_running (c_sh c) = tsum wrun (c_thr c);
  v_res : s_total (c_sh c) + tsum res (c_thr c) <= i_max P;
  v_pre : 1 <= tsum pre (c_thr c) -> tsum wany (c_thr c) = 0;
  v_cr : sz (s_state (c_sh c)) = 1 -> tsum wany (c_thr c) = 0;
  v_lcr : sz (s_state (c_sh c)) = 5 -> sz (s_prev (c_sh c)) = 1 ->
          tsum thold (c_thr c) = 0 -> tsum wany (c_thr c) = 0
}.

(* splits `pstep ... = Some o` into the statement cases and makes o explicit *)
Ltac inv_some H :=
  repeat match type of H with
  | (if ?b then _ else _) = Some _ => let E := fresh "Ec" in destruct b eqn:E
  | match ?x with _ => _ end = Some _ => let E := fresh "Em" in destruct x eqn:E
  end; try discriminate H.

Ltac pstep_split Hp Epc :=
  unfold pstep in Hp;
  match type of Hp with
  | context [pc ?th] =>
    destruct (pc th) eqn:Epc;
    try (unfold ts_select, send_ready in Hp);
    try (unfold w_select in Hp);
    try (match type of Hp with match ?ch with C0 => _ | _ => _ end = _ => destruct ch; try discriminate Hp end;
         unfold pstep0 in Hp; rewrite Epc in Hp; cbv iota beta in Hp);
    unfold stay, stayg, fin, quit in Hp;
    inv_some Hp;
    injection Hp as <-
  end.


Lemma pstate_eqb_sz a b : pstate_eqb a b = true -> sz a = sz b.
Proof. destruct a, b; cbn; intros H; try discriminate; reflexivity. Qed.
Lemma pstate_neqb_sz a b : pstate_eqb a b = false -> sz a <> sz b.
Proof. destruct a, b; cbn; intros H; try discriminate; lia. Qed.
Lemma pstate_eqb_eq a b : pstate_eqb a b = true <-> a = b.
Proof. destruct a, b; cbn; split; intros H; try discriminate; reflexivity. Qed.
Lemma pstate_eqb_neq a b : pstate_eqb a b = false <-> a <> b.
Proof. destruct a, b; cbn; split; intros H; try discriminate; try congruence; exfalso; apply H; reflexivity. Qed.

Lemma hold_nonneg th : 0 <= hold th. Proof. apply b2z_nonneg. Qed.
Lemma thold_nonneg th : 0 <= thold th. Proof. apply b2z_nonneg. Qed.
Lemma pre_nonneg th : 0 <= pre th. Proof. apply b2z_nonneg. Qed.
Lemma wany_nonneg th : 0 <= wany th. Proof. apply b2z_nonneg. Qed.
Lemma res_nonneg th : 0 <= res th. Proof. apply b2z_nonneg. Qed.
Lemma wcount_nonneg th : 0 <= wcount th. Proof. apply b2z_nonneg. Qed.
Lemma wrun_nonneg th : 0 <= wrun th. Proof. apply b2z_nonneg. Qed.

Lemma tsum_zero_tall g l :
  (forall th, 0 <= g th) -> tsum g l = 0 -> tall (fun th => g th = 0) l.
Proof.
  intros Hg. unfold tall. induction l as [|[t2 p2] r IH]; cbn; [constructor|].
  intros H. pose proof (tsum_nonneg g r Hg). pose proof (Hg p2).
  constructor; [cbn; lia|apply IH; lia].
Qed.

Lemma Lprev_transfer s s' l :
  (s_prev s' = s_prev s \/ tsum hold l = 0) -> tall (Lprev s) l -> tall (Lprev s') l.
Proof.
  intros [E|E] H.
  - eapply tall_impl; [|exact H]. intros th Hth Hh. rewrite E. apply Hth, Hh.
  - pose proof (tsum_zero_tall hold l hold_nonneg E) as Hz.
    eapply tall_impl; [|exact Hz]. cbn. intros th Hth Hh. unfold hold in Hth. rewrite Hh in Hth. discriminate.
Qed.

Lemma wo_Lprev s : wake_ok (Lprev s).
Proof.
  intros th Hp _. apply is_parked_pc in Hp. unfold Lprev, recv_ok, recv_closed, recv_int. cbn.
  repeat split; intros; discriminate.
Qed.
Lemma wo_Lloc P : wake_ok (Lloc P).
Proof.
  intros th Hp _. apply is_parked_pc in Hp. unfold Lloc, recv_ok, recv_closed, recv_int. cbn.
  repeat split; exact I.
Qed.

Lemma Lloc_pending_nonneg P l : tall (Lloc P) l -> pvalid P -> 0 <= tsum pending l.
Proof.
  intros H [V1 _]. unfold tall in H. induction l as [|[t2 p2] r IH]; cbn; [lia|].
  inversion H as [|x xs Hx Hxs]; subst. cbn in Hx. specialize (IH Hxs).
  assert (0 <= pending p2); [|lia].
  unfold pending, Lloc in *. destruct (pc p2); lia.
Qed.

Lemma tsum_minus g h l : tsum (fun th => g th - h th) l = tsum g l - tsum h l.
Proof. induction l as [|[t2 p2] r IH]; cbn; [reflexivity|rewrite IH; lia]. Qed.

Lemma tsum_others_le g h t l th :
  (forall x, g x <= h x) -> lookup t l = Some th -> tsum g l - g th <= tsum h l - h th.
Proof.
  intros H Hl. rewrite <- (tsum_remove g t l th Hl), <- (tsum_remove h t l th Hl). apply tsum_le, H.
Qed.

Lemma tsum_zero_of g h l :
  (forall th, 0 <= h th) -> (forall th, h th = 0 -> g th = 0) -> tsum h l = 0 -> tsum g l = 0.
Proof.
  intros Hh Hg. induction l as [|[t2 p2] r IH]; cbn; [reflexivity|].
  intros H. pose proof (tsum_nonneg h r Hh). pose proof (Hh p2).
  rewrite (Hg p2), IH; lia.
Qed.

(* program counters at which `pending` may be non-zero *)
Definition pend_pc (p : ppc) : bool :=
  match p with TiUnlock | StLoop | StGo | SiUnlock | TsId | TsGo => true | _ => false end.
Definition pend (th : thr) : Z := b2z (pend_pc (pc th)).

Lemma le_pre_hold x : pre x <= hold x.
Proof. unfold pre, hold, hold_pc. destruct (pc x); cbn; lia. Qed.
Lemma le_thold_hold x : thold x <= hold x.
Proof. unfold thold, hold, hold_pc. destruct (pc x); cbn; lia. Qed.
Lemma le_res_hold x : res x <= hold x.
Proof. unfold res, hold, hold_pc. destruct (pc x); cbn; lia. Qed.
Lemma le_pend_hold x : pend x <= hold x.
Proof. unfold pend, hold, hold_pc. destruct (pc x); cbn; lia. Qed.
Lemma le_wcount_wany x : wcount x <= wany x.
Proof. unfold wcount, wany, worker_pc. destruct (wcount_pc (pc x)); cbn; [lia|apply b2z_nonneg]. Qed.
Lemma pend_nonneg x : 0 <= pend x. Proof. apply b2z_nonneg. Qed.
Lemma pend_zero x : pend x = 0 -> pending x = 0.
Proof. unfold pend, pending. destruct (pc x); cbn; intros; try reflexivity; discriminate. Qed.

Lemma hold_eq th : hold th = b2z (hold_pc (pc th)). Proof. reflexivity. Qed.
Lemma thold_eq th : thold th = b2z (thold_pc (pc th)). Proof. reflexivity. Qed.
Lemma pre_eq th : pre th = b2z (pre_pc (pc th)). Proof. reflexivity. Qed.
Lemma wcount_eq th : wcount th = b2z (wcount_pc (pc th)). Proof. reflexivity. Qed.
Lemma wany_eq th : wany th = b2z (worker_pc (pc th)). Proof. reflexivity. Qed.
Lemma wrun_eq th : wrun th = b2z (wrun_pc (pc th)). Proof. reflexivity. Qed.
Lemma res_eq th : res th = b2z (res_pc (pc th)). Proof. reflexivity. Qed.
Lemma pend_eq th : pend th = b2z (pend_pc (pc th)). Proof. reflexivity. Qed.
Lemma pending_eq th : pending th =
  match pc th with
  | TiUnlock | StLoop => l_n th
  | StGo => l_n th - l_a th
  | SiUnlock | TsId | TsGo => 1
  | _ => 0
  end. Proof. reflexivity. Qed.

Ltac split_ifs :=
  repeat match goal with
  | H : context [if ?b then _ else _] |- _ =>
    match b with
    | context [tsum] => fail 1
    | _ => let E := fresh "Ei" in destruct b eqn:E
    end
  end.

Lemma sz_want th : sz (want th) = if l_second th then 2 else 1.
Proof. unfold want. destruct (l_second th); reflexivity. Qed.

(* everything the invariant looks at in a program counter *)
Definition cls (p : ppc) :=
  (hold_pc p, thold_pc p, pre_pc p, wcount_pc p, worker_pc p, wrun_pc p, res_pc p).

(* frame lemma: a statement that keeps the classification of the stepping goroutine, spawns nothing and
   leaves state word, totalGo and numGoRunningTasks alone preserves the invariant *)
Lemma inv_frame P c t th th' s' c' obs g w :
  Inv P c -> lookup t (c_thr c) = Some th ->
  apply_out c t (mkOut s' (Some th') None None w g) = Some (c', obs) ->
  s_state s' = s_state (c_sh c) -> s_prev s' = s_prev (c_sh c) ->
  s_total s' = s_total (c_sh c) -> s_running s' = s_running (c_sh c) ->
  cls (pc th') = cls (pc th) -> pending th' = pending th ->
  (hold_pc (pc th) = true -> want th' = want th) ->
  Lloc P th' -> Inv P c'.
Proof.
  intros [Vpar Vhold Vlock Vprev Vloc Vtotal Vrun Vres Vpre Vcr Vlcr] Hl Ha Es Ep Et Er Ec Epd Ew HL.
  unfold cls in Ec. injection Ec as E1 E2 E3 E4 E5 E6 E7.
  pose proof (apply_out_tsum hold c t th _ c' obs wi_hold Hl Ha) as Ehold.
  pose proof (apply_out_tsum thold c t th _ c' obs wi_thold Hl Ha) as Ethold.
  pose proof (apply_out_tsum pre c t th _ c' obs wi_pre Hl Ha) as Epre.
  pose proof (apply_out_tsum wcount c t th _ c' obs wi_wcount Hl Ha) as Ewcount.
  pose proof (apply_out_tsum wany c t th _ c' obs wi_wany Hl Ha) as Ewany.
  pose proof (apply_out_tsum wrun c t th _ c' obs wi_wrun Hl Ha) as Ewrun.
  pose proof (apply_out_tsum res c t th _ c' obs wi_res Hl Ha) as Eres.
  pose proof (apply_out_tsum pending c t th _ c' obs wi_pending Hl Ha) as Epend.
  destruct (apply_out_fields c t _ c' obs Ha) as (Fpar & Fsh & _ & _ & _).
  cbn [o_th o_spawn o_sh oget] in *.
  unfold hold, thold, pre, wcount, wany, wrun, res in Ehold, Ethold, Epre, Ewcount, Ewany, Ewrun, Eres.
  rewrite E1 in Ehold. rewrite E2 in Ethold. rewrite E3 in Epre. rewrite E4 in Ewcount.
  rewrite E5 in Ewany. rewrite E6 in Ewrun. rewrite E7 in Eres. rewrite Epd in Epend.
  fold hold in Ehold. fold thold in Ethold. fold pre in Epre. fold wcount in Ewcount. fold wany in Ewany.
  fold wrun in Ewrun. fold res in Eres.
  assert (Ah : tsum hold (c_thr c') = tsum hold (c_thr c)) by (clear - Ehold; lia).
  assert (Ath : tsum thold (c_thr c') = tsum thold (c_thr c)) by (clear - Ethold; lia).
  assert (Apre : tsum pre (c_thr c') = tsum pre (c_thr c)) by (clear - Epre; lia).
  assert (Awc : tsum wcount (c_thr c') = tsum wcount (c_thr c)) by (clear - Ewcount; lia).
  assert (Awa : tsum wany (c_thr c') = tsum wany (c_thr c)) by (clear - Ewany; lia).
  assert (Awr : tsum wrun (c_thr c') = tsum wrun (c_thr c)) by (clear - Ewrun; lia).
  assert (Are : tsum res (c_thr c') = tsum res (c_thr c)) by (clear - Eres; lia).
  assert (Apd : tsum pending (c_thr c') = tsum pending (c_thr c)) by (clear - Epend; lia).
  clear Ehold Ethold Epre Ewcount Ewany Ewrun Eres Epend.
  constructor; rewrite ?Fsh, ?Es, ?Ep, ?Et, ?Er, ?Ah, ?Ath, ?Apre, ?Awc, ?Awa, ?Awr, ?Are, ?Apd.
  - congruence.
  - exact Vhold.
  - exact Vlock.
  - eapply apply_out_tall; [apply wo_Lprev| |exact Ha| |].
    + apply (Lprev_transfer (c_sh c)); [left; exact Ep|exact Vprev].
    + cbn [o_th]. intros x E; injection E as <-. unfold Lprev, want'. rewrite E1, E2, Ep.
      intros Hh. rewrite (Ew Hh). exact (tall_lookup _ _ _ _ Vprev Hl Hh).
    + cbn [o_spawn]. intros x E; discriminate E.
  - eapply apply_out_tall; [apply wo_Lloc|exact Vloc|exact Ha| |].
    + cbn [o_th]. intros x E; injection E as <-. exact HL.
    + cbn [o_spawn]. intros x E; discriminate E.
  - exact Vtotal.
  - exact Vrun.
  - rewrite <- Vpar. rewrite Vpar. exact Vres.
  - exact Vpre.
  - exact Vcr.
  - exact Vlcr.
Qed.

(* a call that returns (or a goroutine that ends) from a program counter the invariant does not count *)
Lemma inv_frame_exit P c t th s' r c' obs g w :
  Inv P c -> lookup t (c_thr c) = Some th ->
  apply_out c t (mkOut s' None r None w g) = Some (c', obs) ->
  s_state s' = s_state (c_sh c) -> s_prev s' = s_prev (c_sh c) ->
  s_total s' = s_total (c_sh c) -> s_running s' = s_running (c_sh c) ->
  cls (pc th) = (false, false, false, false, false, false, false) -> pending th = 0 ->
  Inv P c'.
Proof.
  intros [Vpar Vhold Vlock Vprev Vloc Vtotal Vrun Vres Vpre Vcr Vlcr] Hl Ha Es Ep Et Er Ec Epd.
  unfold cls in Ec. injection Ec as E1 E2 E3 E4 E5 E6 E7.
  pose proof (apply_out_tsum hold c t th _ c' obs wi_hold Hl Ha) as Ehold.
  pose proof (apply_out_tsum thold c t th _ c' obs wi_thold Hl Ha) as Ethold.
  pose proof (apply_out_tsum pre c t th _ c' obs wi_pre Hl Ha) as Epre.
  pose proof (apply_out_tsum wcount c t th _ c' obs wi_wcount Hl Ha) as Ewcount.
  pose proof (apply_out_tsum wany c t th _ c' obs wi_wany Hl Ha) as Ewany.
  pose proof (apply_out_tsum wrun c t th _ c' obs wi_wrun Hl Ha) as Ewrun.
  pose proof (apply_out_tsum res c t th _ c' obs wi_res Hl Ha) as Eres.
  pose proof (apply_out_tsum pending c t th _ c' obs wi_pending Hl Ha) as Epend.
  destruct (apply_out_fields c t _ c' obs Ha) as (Fpar & Fsh & _ & _ & _).
  cbn [o_th o_spawn o_sh oget] in *.
  unfold hold, thold, pre, wcount, wany, wrun, res in Ehold, Ethold, Epre, Ewcount, Ewany, Ewrun, Eres.
  rewrite E1 in Ehold. rewrite E2 in Ethold. rewrite E3 in Epre. rewrite E4 in Ewcount.
  rewrite E5 in Ewany. rewrite E6 in Ewrun. rewrite E7 in Eres. rewrite Epd in Epend.
  fold hold in Ehold. fold thold in Ethold. fold pre in Epre. fold wcount in Ewcount. fold wany in Ewany.
  fold wrun in Ewrun. fold res in Eres. cbn [b2z] in *.
  assert (Ah : tsum hold (c_thr c') = tsum hold (c_thr c)) by (clear - Ehold; lia).
  assert (Ath : tsum thold (c_thr c') = tsum thold (c_thr c)) by (clear - Ethold; lia).
  assert (Apre : tsum pre (c_thr c') = tsum pre (c_thr c)) by (clear - Epre; lia).
  assert (Awc : tsum wcount (c_thr c') = tsum wcount (c_thr c)) by (clear - Ewcount; lia).
  assert (Awa : tsum wany (c_thr c') = tsum wany (c_thr c)) by (clear - Ewany; lia).
  assert (Awr : tsum wrun (c_thr c') = tsum wrun (c_thr c)) by (clear - Ewrun; lia).
  assert (Are : tsum res (c_thr c') = tsum res (c_thr c)) by (clear - Eres; lia).
  assert (Apd : tsum pending (c_thr c') = tsum pending (c_thr c)) by (clear - Epend; lia).
  clear Ehold Ethold Epre Ewcount Ewany Ewrun Eres Epend.
  constructor; rewrite ?Fsh, ?Es, ?Ep, ?Et, ?Er, ?Ah, ?Ath, ?Apre, ?Awc, ?Awa, ?Awr, ?Are, ?Apd.
  - congruence.
  - exact Vhold.
  - exact Vlock.
  - eapply apply_out_tall; [apply wo_Lprev| |exact Ha| |].
    + apply (Lprev_transfer (c_sh c)); [left; exact Ep|exact Vprev].
    + cbn [o_th]. intros x E; discriminate E.
    + cbn [o_spawn]. intros x E; discriminate E.
  - eapply apply_out_tall; [apply wo_Lloc|exact Vloc|exact Ha| |].
    + cbn [o_th]. intros x E; discriminate E.
    + cbn [o_spawn]. intros x E; discriminate E.
  - exact Vtotal.
  - exact Vrun.
  - exact Vres.
  - exact Vpre.
  - exact Vcr.
  - exact Vlcr.
Qed.

Ltac ifs_in H :=
  repeat match type of H with
  | context [if ?b then _ else _] => let E := fresh "Ei" in destruct b eqn:E
  end.

Ltac lloc_tac HV HI Hl Epc :=
  let Lth := fresh "Lth" in
  pose proof (tall_lookup _ _ _ _ (v_loc _ _ HI) Hl) as Lth;
  unfold Lloc in Lth |- *; rewrite Epc in Lth; cbn in Lth |- *;
  first [ exact I | exact Lth | assumption
        | (clear HI; destruct HV as (?&?&?&?&?); lia)
        | (clear HI; destruct HV as (?&?&?&?&?); intuition lia) ].

Ltac frame_tac HV HI Hl Ha Epc :=
  first
  [ eapply (inv_frame _ _ _ _ _ _ _ _ _ _ HI Hl Ha);
    [ reflexivity | reflexivity | reflexivity | reflexivity
    | cbn [pc goto]; rewrite Epc; reflexivity
    | unfold pending; cbn [pc goto]; rewrite Epc; reflexivity
    | first [ reflexivity | (rewrite Epc; cbn; intros X; discriminate X) ]
    | first [ (unfold Lloc; cbn [pc goto]; exact I) | lloc_tac HV HI Hl Epc ] ]
  | eapply (inv_frame_exit _ _ _ _ _ _ _ _ _ _ HI Hl Ha);
    [ reflexivity | reflexivity | reflexivity | reflexivity
    | rewrite Epc; reflexivity
    | unfold pending; rewrite Epc; reflexivity ] ].


Ltac eqb_facts :=
  repeat match goal with
  | H : pstate_eqb _ _ = true |- _ => apply pstate_eqb_sz in H; cbn [sz] in H
  | H : pstate_eqb _ _ = false |- _ => apply pstate_neqb_sz in H; cbn [sz] in H
  end.

Ltac shcbn :=
  cbn [s_state s_prev s_total s_running s_q s_closed s_mp s_gn s_bw s_br s_gw s_gr s_idc s_ictx
       st_state st_prev st_q st_closed st_total st_running st_mp st_gn st_bw st_br st_gw st_gr st_idc st_ictx sz].

Lemma inv_step_pstep P c t th ch o c' obs :
  pvalid P -> Inv P c -> lookup t (c_thr c) = Some th ->
  pstep (c_par c) (parked_of (c_thr c)) (c_sh c) th ch = Some o ->
  apply_out c t o = Some (c', obs) -> Inv P c'.
Proof.
  intros HV HI Hl Hp Ha.
  pose proof (v_par _ _ HI) as Vpar. rewrite Vpar in Hp.
  pstep_split Hp Epc.
  all: unfold unwind, back in Ha.
  all: ifs_in Ha.
  all: try solve [frame_tac HV HI Hl Ha Epc].
  all: destruct HI as [_ Vhold Vlock Vprev Vloc Vtotal Vrun Vres Vpre Vcr Vlcr].
  all: pose proof (apply_out_tsum hold c t th _ c' obs wi_hold Hl Ha) as Ehold.
  all: pose proof (apply_out_tsum thold c t th _ c' obs wi_thold Hl Ha) as Ethold.
  all: pose proof (apply_out_tsum pre c t th _ c' obs wi_pre Hl Ha) as Epre.
  all: pose proof (apply_out_tsum wcount c t th _ c' obs wi_wcount Hl Ha) as Ewcount.
  all: pose proof (apply_out_tsum wany c t th _ c' obs wi_wany Hl Ha) as Ewany.
  all: pose proof (apply_out_tsum wrun c t th _ c' obs wi_wrun Hl Ha) as Ewrun.
  all: pose proof (apply_out_tsum res c t th _ c' obs wi_res Hl Ha) as Eres.
  all: pose proof (apply_out_tsum pending c t th _ c' obs wi_pending Hl Ha) as Epend.
  all: destruct (apply_out_fields c t _ c' obs Ha) as (Fpar & Fsh & _ & _ & _).
  all: pose proof (tall_lookup _ _ _ _ Vprev Hl) as Pth.
  all: pose proof (tall_lookup _ _ _ _ Vloc Hl) as Lth.
  all: pose proof (tsum_ge_lookup hold t _ th hold_nonneg Hl) as Gh.
  all: pose proof (tsum_ge_lookup wany t _ th wany_nonneg Hl) as Gwany.
  all: pose proof (tsum_others_le pre hold t _ th le_pre_hold Hl) as Opre.
  all: pose proof (tsum_others_le thold hold t _ th le_thold_hold Hl) as Othold.
  all: pose proof (tsum_others_le res hold t _ th le_res_hold Hl) as Ores.
  all: pose proof (tsum_others_le pend hold t _ th le_pend_hold Hl) as Opend.
  all: pose proof (tsum_le wcount wany (c_thr c) le_wcount_wany) as Hcw.
  all: pose proof (tsum_nonneg hold (c_thr c) hold_nonneg) as Nh.
  all: pose proof (tsum_nonneg thold (c_thr c) thold_nonneg) as Nth.
  all: pose proof (tsum_nonneg pre (c_thr c) pre_nonneg) as Npre.
  all: pose proof (tsum_nonneg res (c_thr c) res_nonneg) as Nres.
  all: pose proof (tsum_nonneg wany (c_thr c) wany_nonneg) as Nwany.
  all: pose proof (tsum_nonneg wcount (c_thr c) wcount_nonneg) as Nwc.
  all: pose proof (tsum_nonneg pend (c_thr c) pend_nonneg) as Npend.
  all: pose proof (Lloc_pending_nonneg P _ Vloc HV) as Npending.
  all: pose proof (tsum_zero_of pending pend (c_thr c) pend_nonneg pend_zero) as Zpend.
  all: pose proof (tsum_ge_lookup pend t _ th pend_nonneg Hl) as Gpend.
  all: pose proof (sz_range (s_state (c_sh c))) as Rst.
  all: pose proof (sz_range (s_prev (c_sh c))) as Rpv.
  all: rewrite Vpar in *; destruct HV as (V1 & V2 & V3 & V4 & V5).
  all: cbn [o_th o_spawn o_sh oget] in *.
  all: rewrite ?hold_eq, ?thold_eq, ?pre_eq, ?wcount_eq, ?wany_eq, ?wrun_eq, ?res_eq, ?pend_eq, ?pending_eq in *.
  all: unfold Lprev, Lloc, want', new_worker, unlock_state in *.
  all: rewrite ?Epc in *.
  all: cbn in Ehold, Ethold, Epre, Ewcount, Ewany, Ewrun, Eres, Epend, Pth, Lth, Gh, Gwany, Opre, Othold, Ores, Opend, Gpend.
  all: rewrite ?sz_want in *.
  all: eqb_facts.
  all: try (specialize (Pth eq_refl)).
  all: try match type of Pth with false = true -> _ => clear Pth end.
  all: pose proof (tsum_ge_lookup pre t _ th pre_nonneg Hl) as Gpre.
  all: pose proof (tsum_ge_lookup thold t _ th thold_nonneg Hl) as Gthold.
  all: rewrite pre_eq, Epc in Gpre; rewrite thold_eq, Epc in Gthold; cbn in Gpre, Gthold.
  all: ifs_in Fsh.
  all: eqb_facts.
  all: rewrite ?sz_want in *.
  all: try match goal with H : context [if l_second ?x then _ else _] |- _ => destruct (l_second x) eqn:Esec end.
  all: try match goal with H : allow _ _ _ _ = true |- _ => unfold allow in H; apply andb_prop in H; destruct H as [H _]; apply Z.ltb_lt in H end.
  all: constructor; rewrite ?Fsh; shcbn; rewrite ?sz_want; repeat match goal with H : l_second _ = _ |- _ => rewrite H end.
  all: try exact Fpar.
  all: try match goal with
       | |- tall (Lprev _) _ =>
         eapply apply_out_tall; [ | | exact Ha | | ];
         [ apply wo_Lprev
         | apply (Lprev_transfer (c_sh c)); [first [left; reflexivity | right; clear Ha Vprev Vloc Hl; lia] | exact Vprev]
         | cbn [o_th]; intros x E; first [discriminate E | injection E as <-; unfold Lprev, want'; cbn; intros Hh;
              first [discriminate Hh | (rewrite ?sz_want; cbn [l_second goto set_ok set_err set_flag set_n set_a set_b set_wid]; repeat match goal with H : l_second _ = _ |- _ => rewrite H end; shcbn; first [reflexivity | assumption | (clear Vprev Vloc Hl; lia)])]]
         | cbn [o_spawn]; intros x E; first [discriminate E | injection E as <-; unfold Lprev; cbn; intros X; discriminate X] ]
       | |- tall (Lloc _) _ =>
         eapply apply_out_tall;
         [ apply wo_Lloc | exact Vloc | exact Ha
         | cbn [o_th]; intros x E; first [discriminate E | injection E as <-; unfold Lloc; cbn;
              first [exact I | assumption | (clear Ha Vprev Vloc Hl; lia) | (clear Ha Vprev Vloc Hl; intuition lia)]]
         | cbn [o_spawn]; intros x E; first [discriminate E | injection E as <-; unfold Lloc; cbn; exact I] ]
       end.
  all: clear Ha Vprev Vloc Hl; lia.
Qed.

(* ---------------------------------------------------------------- the other events *)
Lemma apply_out_update c t th' :
  apply_out c t (mkOut (c_sh c) (Some th') None None WkNone []) =
  Some (with_thr c (update t th' (c_thr c)), obs_of t th' ++ []).
Proof. reflexivity. Qed.

Lemma inv_update P c t th th' :
  Inv P c -> lookup t (c_thr c) = Some th ->
  cls (pc th') = cls (pc th) -> pending th' = pending th ->
  (hold_pc (pc th) = true -> want th' = want th) -> Lloc P th' ->
  Inv P (with_thr c (update t th' (c_thr c))).
Proof.
  intros HI Hl E1 E2 E3 E4.
  eapply (inv_frame P c t th th' (c_sh c) _ _ [] WkNone HI Hl (apply_out_update c t th')); auto.
Qed.

Lemma Lloc_same_pc P th th' :
  pc th' = pc th -> l_n th' = l_n th -> l_a th' = l_a th -> l_b th' = l_b th -> l_second th' = l_second th ->
  Lloc P th -> Lloc P th'.
Proof. unfold Lloc. intros -> -> -> -> ->. auto. Qed.

Lemma inv_init P : pvalid P -> Inv P (pinit P).
Proof.
  intros (V1 & V2 & V3 & V4 & V5).
  constructor; cbn; try reflexivity; try lia; try constructor.
Qed.

Lemma inv_step P c e c' : pvalid P -> Inv P c -> pstep_cfg c e = Some c' -> Inv P c'.
Proof.
  intros HV HI Hs. apply pstep_cfg_inv in Hs. destruct e as [t op|t ch|t|t|t].
  - (* PCall *)
    destruct Hs as (Hl & Hb & -> & Hid).
    destruct HI as [Vpar Vhold Vlock Vprev Vloc Vtotal Vrun Vres Vpre Vcr Vlcr].
    assert (Hz : forall g, (forall op, g (enter (c_sh c) op) = 0) ->
                 tsum g (spawn t (enter (c_sh c) op) (c_thr c)) = tsum g (c_thr c)).
    { intros g Hg. rewrite tsum_spawn, Hg. lia. }
    assert (Hc : forall op, pc (enter (c_sh c) op) = pc (enter0 op)) by (intros o; reflexivity).
    constructor; cbn [c_par c_sh c_thr];
      rewrite ?(Hz hold), ?(Hz thold), ?(Hz pre), ?(Hz wcount), ?(Hz wany), ?(Hz wrun), ?(Hz res), ?(Hz pending);
      auto; try (intros o; destruct o; reflexivity).
    + apply tall_spawn; [exact Vprev|]. unfold Lprev. destruct op; cbn; intros H; discriminate H.
    + apply tall_spawn; [exact Vloc|]. unfold Lloc. destruct op; cbn; exact I.
  - (* PStep *)
    destruct Hs as (th & o & obs & Hl & Hp & Ha). eapply inv_step_pstep; eauto.
  - (* PCancel *)
    destruct Hs as (th & Hl & _ & ->).
    apply (inv_update P c t th); auto.
    eapply Lloc_same_pc; [| | | | |exact (tall_lookup _ _ _ _ (v_loc _ _ HI) Hl)]; reflexivity.
  - (* PFire *)
    destruct Hs as (th & Hl & _ & ->).
    destruct (is_parked th) eqn:Ep.
    + apply is_parked_pc in Ep. apply (inv_update P c t th); auto;
        [cbn; rewrite Ep; reflexivity | unfold pending; cbn; rewrite Ep; reflexivity | unfold Lloc; cbn; exact I].
    + apply (inv_update P c t th); auto.
      eapply Lloc_same_pc; [| | | | |exact (tall_lookup _ _ _ _ (v_loc _ _ HI) Hl)]; reflexivity.
  - (* PFinish *)
    destruct Hs as (th & obs & Hl & Epc & Ha).
    eapply (inv_frame P c t th _ _ _ _ _ _ HI Hl Ha); try reflexivity.
    all: try (cbn; rewrite Epc; reflexivity).
    all: try (unfold pending; cbn; rewrite Epc; reflexivity).
    all: try (unfold Lloc; cbn; exact I).
Qed.

Theorem inv_reach P c : pvalid P -> preach P c -> Inv P c.
Proof.
  intros HV. apply preach_ind; [apply inv_init, HV|]. intros c0 e c1 H. apply inv_step; assumption.
Qed.
