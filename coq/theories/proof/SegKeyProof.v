(* Proofs about SegKeyModel (C14): SegmentKeysLock.

   What is modelled and what is specified: the hash (FNV-1a, 32 bit), the index
   computation hash % size and the dispatch of the six methods to locks[index] are the code
   of /repo/syncx/segment_key_lock.go.  The record [rw] with [can_write]/[can_read] is NOT
   code of the library: it is a SPECIFICATION of the non-blocking contract of Go's
   sync.RWMutex (a writer excludes everybody, readers exclude writers, TryLock/TryRLock
   answer whether the acquisition is possible now, Lock/RLock are only issued when they
   cannot block).  The theorems below are about SegmentKeysLock given that contract.

   A key is its list of bytes: the model (like the Go code, which hashes []byte(key)) has no
   access to the identity/allocation of the string, so "equal contents => same lock" holds by
   construction; the informative statements are [seg_step_index_only] (an operation depends
   on the key only through its index) and the range lemmas (no index-out-of-range panic).
   All theorems are for size >= 1 where the size matters (NewSegmentKeysLock(0) makes
   getLock divide by zero in Go; the model does not cover size = 0). *)
From Ekit Require Import Common SegKeyModel.
From Coq Require Import ZifyBool.

(* ---------- 5. hash and index ---------- *)
Lemma two32 : 2 ^ 32 = 4294967296. Proof. reflexivity. Qed.

Lemma fnv_step_range h b : 0 <= fnv_step h b < 2 ^ 32.
Proof. unfold fnv_step. apply Z.mod_pos_bound. reflexivity. Qed.

Lemma fnv_fold_range key : forall h, 0 <= h < 2 ^ 32 -> 0 <= fold_left fnv_step key h < 2 ^ 32.
Proof.
  induction key as [|b r IH]; intros h Hh; cbn [fold_left]; [exact Hh|].
  apply IH, fnv_step_range.
Qed.

(* the hash is a uint32 *)
Lemma fnv1a_range_lemma key : 0 <= fnv1a key < 2 ^ 32.
Proof. unfold fnv1a. apply fnv_fold_range. unfold fnv_offset. rewrite two32. lia. Qed.

(* s.locks[hash % s.size] never indexes out of range *)
Lemma seg_index_range_lemma size key : 0 < size -> 0 <= seg_index size key < size.
Proof. intros Hs. unfold seg_index. apply Z.mod_pos_bound, Hs. Qed.

(* the lock selected is a function of (size, bytes of the key) *)
Lemma same_bytes_same_lock_lemma size (k1 k2 : list Z) :
  k1 = k2 -> seg_index size k1 = seg_index size k2.
Proof. intros ->. reflexivity. Qed.

Definition op_key (o : seg_op) : list Z :=
  match o with
  | STryLock k | STryRLock k | SLock k | SRLock k | SUnlock k | SRUnlock k => k
  end.
Definition op_with_key (o : seg_op) (k : list Z) : seg_op :=
  match o with
  | STryLock _ => STryLock k | STryRLock _ => STryRLock k | SLock _ => SLock k
  | SRLock _ => SRLock k | SUnlock _ => SUnlock k | SRUnlock _ => SRUnlock k
  end.
Definition op_index (s : seg) (o : seg_op) : Z := seg_index (seg_size s) (op_key o).

(* an operation depends on its key only through the index: two keys of the same segment
   are indistinguishable for the lock (this is what makes colliding keys share a lock) *)
Lemma seg_step_index_only_lemma s o k1 k2 :
  seg_index (seg_size s) k1 = seg_index (seg_size s) k2 ->
  seg_step s (op_with_key o k1) = seg_step s (op_with_key o k2).
Proof.
  intros H. destruct o; cbn [op_with_key seg_step]; rewrite H; reflexivity.
Qed.

Lemma seg_step_same_bytes_lemma s o k1 k2 :
  k1 = k2 -> seg_step s (op_with_key o k1) = seg_step s (op_with_key o k2).
Proof. intros ->. reflexivity. Qed.

(* ---------- the lock table ---------- *)
Lemma get_set_same i r l : get_lock i (set_lock i r l) = r.
Proof.
  induction l as [|[j r'] t IH]; cbn [set_lock get_lock].
  - rewrite Z.eqb_refl. reflexivity.
  - destruct (i =? j) eqn:E; cbn [get_lock]; rewrite E; [reflexivity|exact IH].
Qed.

Lemma get_set_other i j r l : j <> i -> get_lock j (set_lock i r l) = get_lock j l.
Proof.
  intros Hne. induction l as [|[j' r'] t IH]; cbn [set_lock get_lock].
  - destruct (j =? i) eqn:E; [lia|reflexivity].
  - destruct (i =? j') eqn:E; cbn [get_lock].
    + destruct (j =? j') eqn:E2; [lia|reflexivity].
    + rewrite IH. reflexivity.
Qed.

Lemma get_set i j r l : get_lock j (set_lock i r l) = if j =? i then r else get_lock j l.
Proof.
  destruct (j =? i) eqn:E.
  - apply Z.eqb_eq in E. subst. apply get_set_same.
  - apply get_set_other. lia.
Qed.

Lemma forall_set_lock (P : Z * rw -> Prop) i r l :
  Forall P l -> P (i, r) -> (forall r0 r1, P (i, r0) -> P (i, r1)) -> Forall P (set_lock i r l).
Proof.
  intros Hl Hp Hind. induction Hl as [|[j r'] t Hj Ht IH]; cbn [set_lock].
  - constructor; [exact Hp|constructor].
  - destruct (i =? j) eqn:E.
    + apply Z.eqb_eq in E. subst j. constructor; [exact Hp|exact Ht].
    + constructor; [exact Hj|exact IH].
Qed.

(* ---------- 6. the invariant ---------- *)
Definition rw_wf (r : rw) : Prop :=
  (rw_writer r = true -> rw_readers r = 0) /\ 0 <= rw_readers r.

Definition lock_at (s : seg) (i : Z) : rw := get_lock i (seg_locks s).
Definition lock_of (s : seg) (k : list Z) : rw := lock_at s (seg_index (seg_size s) k).

Record seg_inv (size : Z) (s : seg) : Prop := {
  sinv_size : seg_size s = size;
  (* a writer excludes readers; reader counts are not negative *)
  sinv_wf : forall i, rw_wf (lock_at s i);
  (* only slots 0..size-1 of the array are ever touched *)
  sinv_range : Forall (fun jr => 0 <= fst jr < size) (seg_locks s)
}.

Lemma rw_free_wf : rw_wf rw_free.
Proof. unfold rw_wf, rw_free; cbn. split; [reflexivity|lia]. Qed.

Lemma seg_inv_init size : seg_inv size (seg_init size).
Proof.
  constructor; [reflexivity| |constructor].
  intros i. unfold lock_at. cbn. apply rw_free_wf.
Qed.

(* shape of a step: the state is unchanged, or exactly the slot of the key's index is
   replaced by a well-formed lock state *)
Lemma seg_step_shape s o :
  (forall i, rw_wf (lock_at s i)) ->
  fst (seg_step s o) = s \/
  exists r, rw_wf r /\
    fst (seg_step s o) =
      {| seg_size := seg_size s; seg_locks := set_lock (op_index s o) r (seg_locks s) |}.
Proof.
  intros Hwf. unfold op_index.
  destruct o as [k|k|k|k|k|k]; cbn [seg_step op_key];
    specialize (Hwf (seg_index (seg_size s) k)); unfold lock_at, rw_wf in Hwf;
    set (r0 := get_lock (seg_index (seg_size s) k) (seg_locks s)) in *.
  - destruct (can_write r0); [right|left; reflexivity].
    eexists; split; [|reflexivity]. unfold rw_wf; cbn. lia.
  - destruct (can_read r0) eqn:E; [right|left; reflexivity].
    eexists; split; [|reflexivity]. unfold rw_wf; cbn. split; [discriminate|lia].
  - destruct (can_write r0); [right|left; reflexivity].
    eexists; split; [|reflexivity]. unfold rw_wf; cbn. lia.
  - destruct (can_read r0) eqn:E; [right|left; reflexivity].
    eexists; split; [|reflexivity]. unfold rw_wf; cbn. split; [discriminate|lia].
  - destruct (rw_writer r0); [right|left; reflexivity].
    eexists; split; [|reflexivity]. apply rw_free_wf.
  - destruct (0 <? rw_readers r0) eqn:E; [right|left; reflexivity].
    eexists; split; [|reflexivity]. unfold rw_wf; cbn. split; [discriminate|lia].
Qed.

Lemma seg_step_size s o : seg_size (fst (seg_step s o)) = seg_size s.
Proof.
  destruct o as [k|k|k|k|k|k]; cbn [seg_step];
    match goal with |- context [if ?b then _ else _] => destruct b end; reflexivity.
Qed.

Lemma seg_inv_step size s o :
  0 < size -> seg_inv size s -> seg_inv size (fst (seg_step s o)).
Proof.
  intros Hs [Isz Iwf Irng].
  destruct (seg_step_shape s o Iwf) as [Heq|(r & Hr & Heq)]; rewrite Heq.
  - constructor; assumption.
  - constructor; cbn [seg_size seg_locks].
    + exact Isz.
    + intros i. unfold lock_at. cbn [seg_locks]. rewrite get_set.
      destruct (i =? op_index s o); [exact Hr|apply Iwf].
    + apply forall_set_lock; [exact Irng| |auto].
      cbn [fst]. unfold op_index. rewrite Isz. apply seg_index_range_lemma, Hs.
Qed.

Lemma seg_final_app s ops1 ops2 :
  seg_final s (ops1 ++ ops2) = seg_final (seg_final s ops1) ops2.
Proof. unfold seg_final. apply fold_left_app. Qed.

Lemma seg_final_cons s o ops : seg_final s (o :: ops) = seg_final (fst (seg_step s o)) ops.
Proof. reflexivity. Qed.

Lemma seg_inv_final size ops : 0 < size ->
  forall s, seg_inv size s -> seg_inv size (seg_final s ops).
Proof.
  intros Hs. induction ops as [|o r IH]; intros s Hinv; [exact Hinv|].
  rewrite seg_final_cons. apply IH, seg_inv_step; assumption.
Qed.

(* every state reachable from NewSegmentKeysLock(size) satisfies the invariant *)
Theorem seg_inv_reachable_lemma size ops :
  0 < size -> seg_inv size (seg_final (seg_init size) ops).
Proof. intros Hs. apply seg_inv_final; [exact Hs|apply seg_inv_init]. Qed.

Theorem seg_inv_reachable_explicit_lemma size ops :
  0 < size ->
  let s := seg_final (seg_init size) ops in
  seg_size s = size /\
  (forall i, (rw_writer (lock_at s i) = true -> rw_readers (lock_at s i) = 0) /\
             0 <= rw_readers (lock_at s i)) /\
  Forall (fun jr => 0 <= fst jr < size) (seg_locks s).
Proof.
  intros Hs s. destruct (seg_inv_reachable_lemma size ops Hs) as [H1 H2 H3].
  exact (conj H1 (conj H2 H3)).
Qed.

(* ---------- exclusion ---------- *)
Definition write_held (s : seg) (k : list Z) : Prop := rw_writer (lock_of s k) = true.
Definition same_seg (s : seg) (k1 k2 : list Z) : Prop :=
  seg_index (seg_size s) k1 = seg_index (seg_size s) k2.

(* a successful TryLock / Lock leaves the key's lock write-held *)
Lemma lock_acquires_lemma s k s' :
  (seg_step s (STryLock k) = (s', SBool true) \/ seg_step s (SLock k) = (s', SUnit)) ->
  write_held s' k /\ rw_readers (lock_of s k) = 0 /\ rw_writer (lock_of s k) = false.
Proof.
  unfold write_held, lock_of, lock_at. cbn [seg_step].
  set (i := seg_index (seg_size s) k). set (r0 := get_lock i (seg_locks s)).
  intros [H|H]; destruct (can_write r0) eqn:E; try discriminate; injection H as <-;
    cbn [seg_size seg_locks]; fold i; rewrite get_set_same; cbn [rw_writer];
    unfold can_write in E; destruct (rw_writer r0); cbn in E; (split; [reflexivity|lia]).
Qed.

(* while a write lock is held on k: every acquisition attempt on any key of the same
   segment (in particular on an equal key) fails / would block, and changes nothing *)
Lemma write_excludes_all_lemma s k k' :
  write_held s k -> same_seg s k' k ->
  seg_step s (STryLock k') = (s, SBool false) /\
  seg_step s (STryRLock k') = (s, SBool false) /\
  seg_step s (SLock k') = (s, SWouldBlock) /\
  seg_step s (SRLock k') = (s, SWouldBlock).
Proof.
  unfold write_held, same_seg, lock_of, lock_at. intros Hw Hsame.
  cbn [seg_step]. rewrite Hsame. unfold can_write, can_read. rewrite Hw. cbn. auto.
Qed.

(* ... and nobody holds a read lock on that segment *)
Lemma write_held_no_readers_lemma size s k :
  seg_inv size s -> write_held s k -> rw_readers (lock_of s k) = 0.
Proof.
  intros Hinv Hw. unfold write_held, lock_of in *.
  destruct (sinv_wf size s Hinv (seg_index (seg_size s) k)) as [H _]. apply H, Hw.
Qed.

(* TryLock answers true exactly when the segment is completely free: it also fails while
   read locks are held *)
Lemma trylock_true_iff_free_lemma s k :
  snd (seg_step s (STryLock k)) = SBool true <->
  rw_writer (lock_of s k) = false /\ rw_readers (lock_of s k) = 0.
Proof.
  unfold lock_of, lock_at. cbn [seg_step].
  set (r0 := get_lock (seg_index (seg_size s) k) (seg_locks s)).
  unfold can_write. destruct (rw_writer r0); cbn [negb andb snd].
  - split; [discriminate|intros [H _]; discriminate].
  - destruct (rw_readers r0 =? 0) eqn:E; cbn [snd].
    + split; [intros _; split; [reflexivity|lia]|reflexivity].
    + split; [discriminate|intros [_ H]; lia].
Qed.

Lemma tryrlock_true_iff_no_writer_lemma s k :
  snd (seg_step s (STryRLock k)) = SBool true <-> rw_writer (lock_of s k) = false.
Proof.
  unfold lock_of, lock_at. cbn [seg_step].
  set (r0 := get_lock (seg_index (seg_size s) k) (seg_locks s)).
  unfold can_read. destruct (rw_writer r0); cbn [negb snd]; split; try discriminate; reflexivity.
Qed.

(* operations on a different segment do not touch the lock of k *)
Lemma seg_step_other_segment_lemma s o i :
  op_index s o <> i -> lock_at (fst (seg_step s o)) i = lock_at s i.
Proof.
  unfold op_index, lock_at. intros Hne.
  destruct o as [k|k|k|k|k|k]; cbn [seg_step op_key] in *;
    match goal with |- context [if ?b then _ else _] => destruct b end;
    cbn [fst seg_locks]; try reflexivity; apply get_set_other; congruence.
Qed.

Definition is_unlock_of (s : seg) (i : Z) (o : seg_op) : Prop :=
  match o with SUnlock k => seg_index (seg_size s) k = i | _ => False end.

(* the write lock stays held until an Unlock on that segment: no other operation (on any
   key, by anybody) releases it *)
Lemma write_held_persists_lemma size s k o :
  seg_inv size s -> write_held s k ->
  ~ is_unlock_of s (seg_index (seg_size s) k) o ->
  write_held (fst (seg_step s o)) k /\
  (same_seg s (op_key o) k -> seg_step s o = (s, snd (seg_step s o))).
Proof.
  intros Hinv Hw Hnu. unfold write_held, lock_of in *. rewrite seg_step_size.
  set (i := seg_index (seg_size s) k) in *.
  destruct (Z.eq_dec (op_index s o) i) as [Heq|Hne].
  - (* same segment *)
    pose proof (sinv_wf size s Hinv i) as [Hwf0 _]. specialize (Hwf0 Hw).
    unfold op_index, lock_at in *.
    assert (Hsame : seg_step s o = (s, snd (seg_step s o))).
    { destruct o as [k'|k'|k'|k'|k'|k']; cbn [seg_step op_key is_unlock_of] in *;
        try rewrite Heq; unfold can_write, can_read; try rewrite Hw; try rewrite Hwf0;
        cbn; try reflexivity. exfalso. apply Hnu, Heq. }
    rewrite Hsame. cbn [fst]. split; [exact Hw|intros _; reflexivity].
  - rewrite (seg_step_other_segment_lemma s o i Hne). split; [exact Hw|].
    unfold same_seg, op_index in *. intros H. contradiction.
Qed.

Definition acquire_denied (out : seg_out) : Prop := out = SBool false \/ out = SWouldBlock.
Definition is_acquire (o : seg_op) : Prop :=
  match o with STryLock _ | STryRLock _ | SLock _ | SRLock _ => True | _ => False end.

(* history form: from a state where k is write-held, along ANY sequence of operations that
   contains no Unlock of k's segment, the lock stays held and every acquisition on a key of
   that segment is denied *)
Lemma write_excludes_history size k : 0 < size ->
  forall ops s, seg_inv size s -> write_held s k ->
  Forall (fun o => ~ is_unlock_of s (seg_index (seg_size s) k) o) ops ->
  write_held (seg_final s ops) k /\
  Forall2 (fun o out => is_acquire o -> same_seg s (op_key o) k -> acquire_denied out)
          ops (seg_run s ops).
Proof.
  intros Hs ops. induction ops as [|o r IH]; intros s Hinv Hw Hall.
  - split; [exact Hw|constructor].
  - inversion Hall as [|o0 r0 Ho Hr]; subst.
    rewrite seg_final_cons. cbn [seg_run].
    destruct (write_held_persists_lemma size s k o Hinv Hw Ho) as [Hw' Hsame].
    pose proof (seg_inv_step size s o Hs Hinv) as Hinv'.
    pose proof (seg_step_size s o) as Hsz.
    destruct (seg_step s o) as [s' out] eqn:Hstep. cbn [fst snd] in *.
    assert (Hall' : Forall (fun o1 => ~ is_unlock_of s' (seg_index (seg_size s') k) o1) r).
    { rewrite Forall_forall in *. intros o1 Hin. specialize (Hr o1 Hin).
      unfold is_unlock_of in *. rewrite Hsz. exact Hr. }
    destruct (IH s' Hinv' Hw' Hall') as [Hfin Hruns].
    split; [exact Hfin|]. constructor.
    + intros Hacq Hseg.
      destruct (write_excludes_all_lemma s k (op_key o) Hw Hseg) as (H1 & H2 & H3 & H4).
      unfold acquire_denied.
      destruct o as [k'|k'|k'|k'|k'|k']; cbn [op_key is_acquire] in *; try contradiction;
        rewrite Hstep in *.
      * injection H1 as _ <-. auto.
      * injection H2 as _ <-. auto.
      * injection H3 as _ <-. auto.
      * injection H4 as _ <-. auto.
    + unfold same_seg in *. rewrite Hsz in Hruns. exact Hruns.
Qed.

(* the statement of the property: after ANY history, if TryLock(k) (or Lock(k)) succeeds and
   no Unlock of that segment follows, then at every later point TryLock and TryRLock on any
   key of the same segment — in particular a key with equal bytes — answer false *)
Theorem write_excludes_all_reachable_lemma size ops1 ops2 k k' s1 :
  0 < size ->
  (seg_step (seg_final (seg_init size) ops1) (STryLock k) = (s1, SBool true) \/
   seg_step (seg_final (seg_init size) ops1) (SLock k) = (s1, SUnit)) ->
  Forall (fun o => ~ is_unlock_of s1 (seg_index size k) o) ops2 ->
  seg_index size k' = seg_index size k ->
  let s2 := seg_final s1 ops2 in
  seg_step s2 (STryLock k') = (s2, SBool false) /\
  seg_step s2 (STryRLock k') = (s2, SBool false) /\
  seg_step s2 (SLock k') = (s2, SWouldBlock) /\
  seg_step s2 (SRLock k') = (s2, SWouldBlock).
Proof.
  intros Hs Hacq Hnu Hidx s2.
  pose proof (seg_inv_reachable_lemma size ops1 Hs) as Hinv0.
  set (s0 := seg_final (seg_init size) ops1) in *.
  assert (Hs1 : s1 = fst (seg_step s0 (STryLock k)) \/ s1 = fst (seg_step s0 (SLock k))).
  { destruct Hacq as [H|H]; rewrite H; auto. }
  assert (Hinv1 : seg_inv size s1).
  { destruct Hs1 as [-> | ->]; apply seg_inv_step; assumption. }
  destruct (lock_acquires_lemma s0 k s1 Hacq) as [Hw1 _].
  pose proof (sinv_size size s1 Hinv1) as Hsz1.
  assert (Hnu' : Forall (fun o => ~ is_unlock_of s1 (seg_index (seg_size s1) k) o) ops2).
  { rewrite Hsz1. exact Hnu. }
  destruct (write_excludes_history size k Hs ops2 s1 Hinv1 Hw1 Hnu') as [Hw2 _].
  apply (write_excludes_all_lemma s2 k k' Hw2).
  unfold same_seg. subst s2.
  pose proof (sinv_size size _ (seg_inv_final size ops2 Hs s1 Hinv1)) as Hsz2.
  rewrite Hsz2. exact Hidx.
Qed.

(* ---------- sharing of read locks ---------- *)
Lemma readers_share_lemma s k :
  rw_writer (lock_of s k) = false ->
  exists s', seg_step s (STryRLock k) = (s', SBool true) /\
    rw_readers (lock_of s' k) = rw_readers (lock_of s k) + 1 /\
    rw_writer (lock_of s' k) = false.
Proof.
  unfold lock_of, lock_at. intros Hw. cbn [seg_step]. unfold can_read. rewrite Hw. cbn [negb].
  eexists. split; [reflexivity|]. cbn [seg_size seg_locks]. rewrite get_set_same. cbn. auto.
Qed.

(* any number of read locks on keys of one segment can be held together: n TryRLocks in a row
   on an idle segment all succeed *)
Lemma readers_share_many s k n :
  rw_writer (lock_of s k) = false ->
  seg_run s (repeat (STryRLock k) n) = repeat (SBool true) n /\
  rw_readers (lock_of (seg_final s (repeat (STryRLock k) n)) k)
    = rw_readers (lock_of s k) + Z.of_nat n /\
  rw_writer (lock_of (seg_final s (repeat (STryRLock k) n)) k) = false.
Proof.
  revert s. induction n as [|n IH]; intros s Hw.
  - cbn. split; [reflexivity|split; [lia|exact Hw]].
  - destruct (readers_share_lemma s k Hw) as (s' & Hstep & Hr & Hw').
    cbn [repeat seg_run]. rewrite seg_final_cons. rewrite Hstep. cbn [fst].
    destruct (IH s' Hw') as (Hrun & Hrd & Hwr).
    rewrite Hrun. split; [reflexivity|]. split; [lia|exact Hwr].
Qed.

(* ---------- idle ---------- *)
Definition seg_free_at (s : seg) (k : list Z) : Prop :=
  rw_writer (lock_of s k) = false /\ rw_readers (lock_of s k) = 0.
Definition seg_idle (s : seg) : Prop :=
  forall i, rw_writer (lock_at s i) = false /\ rw_readers (lock_at s i) = 0.

Lemma trylock_succeeds_when_free_lemma s k :
  seg_free_at s k -> exists s', seg_step s (STryLock k) = (s', SBool true) /\ write_held s' k.
Proof.
  unfold seg_free_at, write_held, lock_of, lock_at. intros [Hw Hr]. cbn [seg_step].
  unfold can_write. rewrite Hw, Hr. cbn [negb andb Z.eqb].
  eexists. split; [reflexivity|]. cbn [seg_size seg_locks]. rewrite get_set_same. reflexivity.
Qed.

Lemma seg_init_idle size : seg_idle (seg_init size).
Proof. intros i. unfold lock_at. cbn. auto. Qed.

(* when nothing is held every TryLock succeeds *)
Lemma all_trylocks_succeed_when_idle_lemma s k :
  seg_idle s -> snd (seg_step s (STryLock k)) = SBool true.
Proof.
  intros Hidle. apply trylock_true_iff_free_lemma. apply (Hidle (seg_index (seg_size s) k)).
Qed.

Lemma all_trylocks_succeed_initially_lemma size k :
  snd (seg_step (seg_init size) (STryLock k)) = SBool true.
Proof. apply all_trylocks_succeed_when_idle_lemma, seg_init_idle. Qed.

(* Lock;Unlock and RLock;RUnlock give the lock back: idleness is restored, so "nothing is
   held" is reached again after every balanced use *)
Lemma lock_unlock_restores_idle_lemma s k s1 :
  seg_idle s -> seg_step s (STryLock k) = (s1, SBool true) ->
  snd (seg_step s1 (SUnlock k)) = SUnit /\ seg_idle (fst (seg_step s1 (SUnlock k))).
Proof.
  intros Hidle Hstep.
  destruct (lock_acquires_lemma s k s1 (or_introl Hstep)) as [Hw _].
  assert (Hs1 : s1 = fst (seg_step s (STryLock k))) by (rewrite Hstep; reflexivity).
  assert (Hsz : seg_size s1 = seg_size s) by (rewrite Hs1; apply seg_step_size).
  unfold write_held, lock_of, lock_at in Hw.
  cbn [seg_step]. rewrite Hw. cbn [fst snd]. split; [reflexivity|].
  intros i. unfold lock_at. cbn [seg_locks]. rewrite get_set.
  destruct (i =? seg_index (seg_size s1) k) eqn:E; [cbn; auto|].
  assert (Hne : op_index s (STryLock k) <> i) by (unfold op_index; cbn [op_key]; rewrite <- Hsz; lia).
  pose proof (seg_step_other_segment_lemma s (STryLock k) i Hne) as Hoth.
  rewrite <- Hs1 in Hoth. unfold lock_at in Hoth. rewrite Hoth. apply Hidle.
Qed.

Lemma rlock_runlock_restores_idle_lemma s k s1 :
  seg_idle s -> seg_step s (STryRLock k) = (s1, SBool true) ->
  snd (seg_step s1 (SRUnlock k)) = SUnit /\ seg_idle (fst (seg_step s1 (SRUnlock k))).
Proof.
  intros Hidle Hstep.
  destruct (Hidle (seg_index (seg_size s) k)) as [Hw0 Hr0].
  destruct (readers_share_lemma s k Hw0) as (s1' & Hstep' & Hr & Hw).
  rewrite Hstep in Hstep'. injection Hstep' as <-.
  assert (Hs1 : s1 = fst (seg_step s (STryRLock k))) by (rewrite Hstep; reflexivity).
  assert (Hsz : seg_size s1 = seg_size s) by (rewrite Hs1; apply seg_step_size).
  unfold lock_of, lock_at in Hr, Hw, Hr0.
  cbn [seg_step]. rewrite Hr, Hr0. cbn [Z.add Z.ltb Z.compare fst snd Z.sub Z.opp Z.pos_sub].
  split; [reflexivity|].
  intros i. unfold lock_at. cbn [seg_locks]. rewrite get_set.
  destruct (i =? seg_index (seg_size s1) k) eqn:E; [cbn; auto|].
  assert (Hne : op_index s (STryRLock k) <> i) by (unfold op_index; cbn [op_key]; rewrite <- Hsz; lia).
  pose proof (seg_step_other_segment_lemma s (STryRLock k) i Hne) as Hoth.
  rewrite <- Hs1 in Hoth. unfold lock_at in Hoth. rewrite Hoth. apply Hidle.
Qed.

(* a caveat the property statement hides: exclusion is per SEGMENT, not per key.  Distinct
   keys that collide (same hash mod size) exclude each other as well; see the example in
   props/C14.v. *)
