(* Pointer-level red-black tree: the recursive model's insertion and deletion re-expressed as an
   UNWINDING over the path from the modified leaf to the root (pure lemmas about RBModel only).
   The Go loops fixAfterAdd / fixAfterDelete walk exactly this path upwards. *)
From Ekit Require Import Common RBModel RBPtrModel RBPtrProof.

Section Pure.
  Variable cmp : Z -> Z -> Z.

  (* the search for key k goes through frame f into its hole *)
  Definition dir_ok (k : Z) (f : frame) : Prop :=
    match f with
    | FL _ k' _ _ => (cmp k k' <? 0) = true
    | FR _ _ k' _ => (cmp k k' <? 0) = false /\ (0 <? cmp k k') = true
    end.
  Definition path_ok (k : Z) (ctx : list frame) : Prop := Forall (dir_ok k) ctx.

  (* ---------- insertion ---------- *)
  Definition up_ins (f : frame) (res : tree * ist) : tree * ist :=
    let '(t', st) := res in
    match f with
    | FL c k' v' r =>
      match st with
      | Done => (T c t' k' v' r, Done)
      | Dup => (T c t' k' v' r, Dup)
      | RedNode => match c with Red => (T c t' k' v' r, Inf L) | Black => (T c t' k' v' r, Done) end
      | Inf d => fix_add_left c t' k' v' r d
      end
    | FR c l k' v' =>
      match st with
      | Done => (T c l k' v' t', Done)
      | Dup => (T c l k' v' t', Dup)
      | RedNode => match c with Red => (T c l k' v' t', Inf R) | Black => (T c l k' v' t', Done) end
      | Inf d => fix_add_right c l k' v' t' d
      end
    end.
  Fixpoint unwind_ins (ctx : list frame) (res : tree * ist) : tree * ist :=
    match ctx with [] => res | f :: rest => unwind_ins rest (up_ins f res) end.

  Lemma ins_dup_same k v t : snd (ins cmp k v t) = Dup -> fst (ins cmp k v t) = t.
  Proof.
    induction t as [|c l IHl k' v' r IHr]; cbn [ins]; [discriminate|].
    destruct (cmp k k' <? 0).
    - destruct (ins cmp k v l) as [l' st]. cbn [fst snd] in *.
      destruct st; cbn [fst snd]; try discriminate; try reflexivity.
      + destruct c; discriminate.
      + unfold fix_add_left. destruct (isred r); discriminate.
    - destruct (0 <? cmp k k').
      + destruct (ins cmp k v r) as [r' st]. cbn [fst snd] in *.
        destruct st; cbn [fst snd]; try discriminate; try reflexivity.
        * destruct c; discriminate.
        * unfold fix_add_right. destruct (isred l); discriminate.
      + reflexivity.
  Qed.

  Lemma ins_plug1 k v f t : dir_ok k f -> ins cmp k v (plug1 f t) = up_ins f (ins cmp k v t) \/
                                          (snd (ins cmp k v t) = Dup /\ ins cmp k v (plug1 f t) = (plug1 f t, Dup)).
  Proof.
    intro Hd. destruct f as [c k' v' r|c l k' v']; cbn [plug1 ins up_ins dir_ok] in *.
    - rewrite Hd. destruct (ins cmp k v t) as [t' st]. destruct st; cbn [snd]; auto.
    - destruct Hd as [Hd1 Hd2]. rewrite Hd1, Hd2. destruct (ins cmp k v t) as [t' st]. destruct st; cbn [snd]; auto.
  Qed.

  Lemma unwind_ins_dup ctx t : snd (unwind_ins ctx (t, Dup)) = Dup.
  Proof. revert t. induction ctx as [|f rest IH]; intro t; [reflexivity|]. destruct f; cbn [unwind_ins up_ins]; apply IH. Qed.

  Lemma ins_plug_dup k v ctx : path_ok k ctx -> forall t, snd (ins cmp k v t) = Dup -> snd (ins cmp k v (plug ctx t)) = Dup.
  Proof.
    induction 1 as [|f rest Hf Hrest IH]; intros t Ht; [exact Ht|].
    cbn [plug]. apply IH. destruct (ins_plug1 k v f t Hf) as [He|[_ He]]; rewrite He.
    - destruct (ins cmp k v t) as [t' st]. cbn [snd] in Ht. subst st. destruct f; reflexivity.
    - reflexivity.
  Qed.

  Lemma ins_plug k v ctx : path_ok k ctx -> forall t, snd (ins cmp k v t) <> Dup ->
    ins cmp k v (plug ctx t) = unwind_ins ctx (ins cmp k v t).
  Proof.
    induction 1 as [|f rest Hf Hrest IH]; intros t Ht; [reflexivity|].
    cbn [plug unwind_ins]. destruct (ins_plug1 k v f t Hf) as [He|[Hd _]]; [|contradiction].
    rewrite <- He. apply IH. rewrite He.
    destruct (ins cmp k v t) as [t' st]. cbn [snd] in Ht.
    destruct f as [c k' v' r|c l k' v']; cbn [up_ins]; destruct st; try congruence; cbn [snd]; try discriminate.
    - destruct c; discriminate.
    - unfold fix_add_left. destruct (isred r); discriminate.
    - destruct c; discriminate.
    - unfold fix_add_right. destruct (isred l); discriminate.
  Qed.

  Lemma unwind_ins_done ctx t : unwind_ins ctx (t, Done) = (plug ctx t, Done).
  Proof. revert t. induction ctx as [|f rest IH]; intro t; [reflexivity|]. destruct f; cbn [unwind_ins up_ins plug plug1]; apply IH. Qed.
End Pure.
