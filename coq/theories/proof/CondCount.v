(* C13, counting form: the clause "while enough non-cancelled waiters remain the number of Waits returning nil
   equals the number of Signals".  A history observer counts, along an execution of CondModel, the Signal CALLS,
   the Signals / forwarding steps that found the waiter list empty, the waiters present when a Broadcast locked
   l.mu, and the nil returns of Wait — independently of the model's ghost counters — and the theorems relate
   these history counts. *)
From Ekit Require Import Common Conc CondModel CondProof CondProofNodes CondProof2 CondProof3.
From Coq Require Import ZifyBool Arith PeanoNat.

Record hcount := {
  h_sigcalls : Z;    (* calls of Signal started *)
  h_sigempty : Z;    (* Signals whose `if l.list.len() == 0` found the list empty *)
  h_sigpanic : Z;    (* Signal calls that ended in a panic before that test (copied Cond) *)
  h_fwdempty : Z;    (* time-out paths that held a token and found the list empty (token dropped) *)
  h_released : Z;    (* sum over Broadcasts of the number of waiters in the list when notifyAll locked l.mu *)
  h_nil : Z          (* Wait calls that returned nil *)
}.

Definition h0 : hcount :=
  {| h_sigcalls := 0; h_sigempty := 0; h_sigpanic := 0; h_fwdempty := 0; h_released := 0; h_nil := 0 |}.

(* a Signal call that has not yet executed the `return l.size` deciding `if l.list.len() == 0` *)
Definition pre_sig (p : cpc) : bool :=
  match p with
  | S_CheckCopy | S_FirstUse | S_NotifyOne | NO_Lock | NO_Defer | NO_IfLen | LEN LenOne => true
  | CC_If InSignal | CC_Panic InSignal | FU_Once InSignal | FU_IfNil InSignal | FU_Assign InSignal
  | NL_Ret InSignal | NC_1 InSignal | NC_2 InSignal | NC_3 InSignal | NC_Ret InSignal => true
  | _ => false
  end.

Definition is_panic (o : cobs) : bool := match o with OPanicCopied | OPanicNilList => true | _ => false end.
Definition is_nilret (o : cobs) : bool := match o with ORet RNil => true | _ => false end.
Definition b2z (b : bool) : Z := if b then 1 else 0.

(* what the observer adds for event e executed in configuration c with observations obs *)
Definition observe (h : hcount) (c : ccfg) (e : cev) (obs : list (tid * cobs)) : hcount :=
  match e with
  | ECall _ OpSignal =>
    {| h_sigcalls := h_sigcalls h + 1; h_sigempty := h_sigempty h; h_sigpanic := h_sigpanic h;
       h_fwdempty := h_fwdempty h; h_released := h_released h; h_nil := h_nil h |}
  | EStep t _ =>
    match lookup t (c_thr c) with
    | Some p =>
      {| h_sigcalls := h_sigcalls h;
         h_sigempty := h_sigempty h + match p with LEN LenOne => b2z (c_size c =? 0) | _ => 0 end;
         h_sigpanic := h_sigpanic h + (if pre_sig p then b2z (existsb (fun x => is_panic (snd x)) obs) else 0);
         h_fwdempty := h_fwdempty h + match p with LEN (LenWait _) => b2z (c_size c =? 0) | _ => 0 end;
         h_released := h_released h +
                       match p with
                       | NA_Lock => if c_nl c then match c_mu c with None => Z.of_nat (length (c_lst c)) | Some _ => 0 end else 0
                       | _ => 0
                       end;
         h_nil := h_nil h + b2z (existsb (fun x => is_nilret (snd x)) obs) |}
    | None => h
    end
  | _ => h
  end.

Fixpoint runh (c : ccfg) (h : hcount) (evs : list cev) : option (ccfg * hcount) :=
  match evs with
  | [] => Some (c, h)
  | e :: r => match cond_exec1 c e with
              | Some (c', obs) => runh c' (observe h c e obs) r
              | None => None
              end
  end.

(* "every Signal and every forwarding step found a non-empty waiter list", on the history *)
Fixpoint decisions_nonempty (c : ccfg) (evs : list cev) : Prop :=
  match evs with
  | [] => True
  | e :: r =>
    match e with
    | EStep t _ => match lookup t (c_thr c) with
                   | Some (LEN LenOne) | Some (LEN (LenWait _)) => c_lst c <> []
                   | _ => True
                   end
    | _ => True
    end /\
    match cond_exec1 c e with Some (c', _) => decisions_nonempty c' r | None => True end
  end.

Lemma runh_cfg c h evs c' h' : runh c h evs = Some (c', h') -> exec cond_step c evs = Some c'.
Proof.
  revert c h. induction evs as [|e r IH]; intros c h; cbn.
  - intros H; injection H as <- _. reflexivity.
  - unfold cond_step at 1. destruct (cond_exec1 c e) as [[c1 obs]|]; [|discriminate]. apply IH.
Qed.

Lemma runh_total c h evs c' : exec cond_step c evs = Some c' -> exists h', runh c h evs = Some (c', h').
Proof.
  revert c h. induction evs as [|e r IH]; intros c h; cbn.
  - intros H; injection H as <-. eauto.
  - unfold cond_step at 1. destruct (cond_exec1 c e) as [[c1 obs]|]; [|discriminate]. apply IH.
Qed.

(* ---------- the observer's counts and the model's ghost counters ---------- *)
Definition J (c : ccfg) (h : hcount) : Prop :=
  h_sigcalls h = g_sig c + h_sigempty h + h_sigpanic h + count pre_sig (c_thr c) /\
  h_fwdempty h = g_drop c /\ h_released h = g_bcast c /\ h_nil h = g_nil c /\
  0 <= h_sigempty h /\ 0 <= h_sigpanic h.

Lemma J_step c h e c' obs : C_nodup c -> J c h -> cond_exec1 c e = Some (c', obs) -> J c' (observe h c e obs).
Proof.
  intros Hnd (J1 & J2 & J3 & J4 & J5 & J6) H. unfold J. destruct e as [t op|t o|t].
  - unfold cond_exec1 in H. destruct (lookup t (c_thr c)); [discriminate|].
    destruct op; try (destruct (c_L c) as [hh|]; try discriminate; try (destruct (Nat.eqb hh t); try discriminate));
      injection H as <- <-; scfg; rewrite ?count_spawn;
      cbn [pre_sig observe h_sigcalls h_sigempty h_sigpanic h_fwdempty h_released h_nil]; lia.
  - pose proof H as H'. apply exec1_step_inv in H. destruct H as (p & so & Hl & Hs & -> & ->).
    cbn [observe]. rewrite Hl. cbn [h_sigcalls h_sigempty h_sigpanic h_fwdempty h_released h_nil].
    destruct p; inv_step Hs; dctx;
      try match goal with Hf : find_parked ?n _ = Some ?u |- _ =>
            pose proof (find_parked_lookup _ _ _ Hnd Hf) as Hu;
            assert (Hut : u <> t) by (intros ->; rewrite Hl in Hu; discriminate);
            rewrite (count_update _ pre_sig u _ (WT_Parked n))
              by (rewrite ?lookup_update_other, ?lookup_remove_other by exact Hut; exact Hu) end;
      rewrite ?(count_update _ pre_sig _ _ _ _ Hl), ?(count_remove _ pre_sig _ _ _ Hl);
      cbn [pre_sig after_checkcopy after_firstuse b2z existsb snd is_panic is_nilret obs_of obs_wake app orb] in *;
      try lia.
  - apply exec1_cancel_inv in H. destruct H as (p & Hl & _ & _ & [(n & -> & ->)|[_ ->]]); scfg; cbn [observe].
    + rewrite (count_update _ pre_sig _ _ _ _ Hl). cbn. lia.
    + lia.
Qed.

Lemma J_init copied : J (cond_init copied) h0.
Proof. unfold J. destruct copied; cbn; lia. Qed.

Lemma cond_run_snoc copied evs0 c e c' :
  cond_run copied evs0 = Some c -> cond_step c e = Some c' -> cond_run copied (evs0 ++ [e]) = Some c'.
Proof. unfold cond_run. intros H Hs. rewrite exec_app, H. cbn. rewrite Hs. reflexivity. Qed.

(* the relation holds along every run that starts in a reachable configuration *)
Lemma runh_J copied evs : forall evs0 c0 h c h',
  cond_run copied evs0 = Some c0 -> J c0 h -> runh c0 h evs = Some (c, h') ->
  J c h' /\ cond_run copied (evs0 ++ evs) = Some c.
Proof.
  induction evs as [|e r IH]; intros evs0 c0 h c h' Hr Hj H; cbn in H.
  - injection H as <- <-. rewrite app_nil_r. split; assumption.
  - destruct (cond_exec1 c0 e) as [[c1 obs]|] eqn:E; [|discriminate].
    assert (Hs : cond_step c0 e = Some c1) by (unfold cond_step; rewrite E; reflexivity).
    pose proof (cond_run_snoc _ _ _ _ _ Hr Hs) as Hr1.
    pose proof (J_step _ _ _ _ _ (i_nodup _ (f_inv _ (full_reachable _ _ _ Hr))) Hj E) as Hj1.
    destruct (IH _ _ _ _ _ Hr1 Hj1 H) as [A B]. split; [exact A|]. rewrite <- app_assoc in B. exact B.
Qed.

Lemma count_pre_nonneg thr : 0 <= count pre_sig thr.
Proof. apply count_nonneg. Qed.

(* ---------- never more nil returns than Signal calls + waiters released by Broadcasts: ALL executions ---------- *)
Lemma count_inequality_lemma copied evs c h :
  runh (cond_init copied) h0 evs = Some (c, h) -> h_nil h <= h_sigcalls h + h_released h.
Proof.
  intros H. destruct (runh_J copied evs [] _ _ _ _ eq_refl (J_init copied) H) as [(J1 & J2 & J3 & J4 & J5 & J6) Hr].
  cbn in Hr. pose proof (no_invented_wakeup_lemma _ _ _ Hr). pose proof (count_pre_nonneg (c_thr c)). lia.
Qed.

(* ---------- under the premise, the "empty list" and panic counters stay 0 ---------- *)
Lemma no_panic_obs (obs : list (tid * cobs)) :
  (forall t, ~ In (t, OPanicCopied) obs /\ ~ In (t, OPanicNilList) obs) ->
  existsb (fun x => is_panic (snd x)) obs = false.
Proof.
  intros H. destruct (existsb (fun x => is_panic (snd x)) obs) eqn:E; [|reflexivity]. exfalso.
  apply existsb_exists in E. destruct E as ([t o] & Hin & Hp). destruct (H t) as [A B]. destruct o; try discriminate Hp; [exact (A Hin)|exact (B Hin)].
Qed.

Definition Zero (h : hcount) : Prop := h_sigempty h = 0 /\ h_fwdempty h = 0 /\ h_sigpanic h = 0.

Lemma runh_zero evs : forall evs0 c0 h c h',
  cond_run false evs0 = Some c0 -> Zero h -> decisions_nonempty c0 evs -> runh c0 h evs = Some (c, h') -> Zero h'.
Proof.
  induction evs as [|e r IH]; intros evs0 c0 h c h' Hr Hz Hd H; cbn in H.
  - injection H as _ <-. exact Hz.
  - cbn [decisions_nonempty] in Hd. destruct Hd as [Hd1 Hd2].
    destruct (cond_exec1 c0 e) as [[c1 obs]|] eqn:E; [|discriminate].
    assert (Hs : cond_step c0 e = Some c1) by (unfold cond_step; rewrite E; reflexivity).
    pose proof (cond_run_snoc _ _ _ _ _ Hr Hs) as Hr1.
    eapply (IH _ _ _ _ _ Hr1); [|exact Hd2|exact H].
    destruct Hz as (Z1 & Z2 & Z3). unfold Zero.
    destruct e as [t op|t o|t]; cbn [observe].
    + destruct op; cbn; auto.
    + destruct (lookup t (c_thr c0)) as [p|] eqn:Hl; [|auto].
      cbn [h_sigempty h_fwdempty h_sigpanic].
      pose proof (no_panic_obs obs (fun t' => never_panics_lemma _ _ _ _ _ t' Hr E)) as Hnp. rewrite Hnp.
      pose proof (size_is_length c0 t p (f_inv _ (full_reachable _ _ _ Hr)) Hl) as Hsz.
      assert (Hne : forall x, p = LEN x -> x = LenOne \/ (exists n, x = LenWait n) -> (c_size c0 =? 0) = false).
      { intros x -> Hx. specialize (Hsz eq_refl eq_refl).
        assert (c_lst c0 <> []) by (destruct Hx as [->|(n & ->)]; exact Hd1).
        destruct (c_lst c0); [congruence|cbn in Hsz; lia]. }
      destruct p; cbn [b2z]; try (destruct (pre_sig _); cbn; repeat split; lia).
      destruct x; [rewrite (Hne _ eq_refl (or_intror (ex_intro _ n eq_refl)))|rewrite (Hne _ eq_refl (or_introl eq_refl))|];
        cbn; repeat split; lia.
    + auto.
Qed.

Lemma count_all_false (f : cpc -> bool) thr :
  (forall t p, In (t, p) thr -> f p = false) -> count f thr = 0.
Proof.
  induction thr as [|[t p] r IH]; cbn; [reflexivity|]. intros H.
  rewrite (H t p) by (left; reflexivity). rewrite IH; [reflexivity|]. intros t0 p0 Hi. apply (H t0 p0). right; exact Hi.
Qed.

(* ---------- the quiescent corollary ---------- *)
Lemma count_quiescent_lemma evs c h :
  runh (cond_init false) h0 evs = Some (c, h) ->
  decisions_nonempty (cond_init false) evs ->
  (forall t p, lookup t (c_thr c) = Some p -> is_parked p = true) ->
  c_tok c = [] ->
  h_nil h = h_sigcalls h + h_released h /\ g_drop c = 0 /\ h_fwdempty h = 0 /\ h_sigempty h = 0.
Proof.
  intros H Hd Hp Ht.
  destruct (runh_J false evs [] _ _ _ _ eq_refl (J_init false) H) as [(J1 & J2 & J3 & J4 & J5 & J6) Hr]. cbn in Hr.
  assert (Hz0 : Zero h0) by (repeat split; reflexivity).
  destruct (runh_zero evs [] _ _ _ _ eq_refl Hz0 Hd H) as (Z1 & Z2 & Z3).
  assert (Hq : forall t p, lookup t (c_thr c) = Some p -> owed p = 0 /\ bcast_holding p = false).
  { intros t p Hl. specialize (Hp _ _ Hl). destruct p; try discriminate Hp. split; reflexivity. }
  pose proof (ledger_quiescent_lemma _ _ _ Hr Hq) as L. rewrite Ht in L. cbn in L.
  assert (Hc : count pre_sig (c_thr c) = 0).
  { apply count_all_false. intros t p Hi.
    pose proof (in_lookup _ _ _ (i_nodup _ (f_inv _ (full_reachable _ _ _ Hr))) Hi) as Hl.
    specialize (Hp _ _ Hl). destruct p; try discriminate Hp. reflexivity. }
  repeat split; lia.
Qed.

(* the observer's counts are the model's ghost counters (so the ledger theorems of C13_cond.v speak about them) *)
Lemma observer_vs_ghosts_lemma copied evs c h :
  runh (cond_init copied) h0 evs = Some (c, h) ->
  h_nil h = g_nil c /\ h_released h = g_bcast c /\ h_fwdempty h = g_drop c /\
  h_sigcalls h = g_sig c + h_sigempty h + h_sigpanic h + count pre_sig (c_thr c).
Proof.
  intros H. destruct (runh_J copied evs [] _ _ _ _ eq_refl (J_init copied) H) as [(J1 & J2 & J3 & J4 & J5 & J6) _].
  repeat split; assumption.
Qed.
