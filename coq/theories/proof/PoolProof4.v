(* Proofs about PoolModel, part 4: the C11 theorems in their final form (lemmas quoted by props/C11_pool.v),
   no send on a closed channel / no double close, and the constructor. *)
From Ekit Require Import Common Conc PoolModel PoolProof PoolProof2 PoolProof3.
From Coq Require Import ZifyBool Arith PeanoNat.

Definition pexecs (P : params) (evs : list pev) : option pcfg := exec pstep_cfg (pinit P) evs.

Lemma pexecs_reach P evs c : pexecs P evs = Some c -> preach P c.
Proof. intros H. exists evs. exact H. Qed.

(* ---------------------------------------------------------------- worker bound *)
Lemma le_wrun_wcount x : wrun x <= wcount x.
Proof. unfold wrun, wcount. destruct (pc x); cbn; lia. Qed.

(* goroutines inside the user function of a task *)
Definition at_user (th : thr) : Z := match pc th with WUser => 1 | _ => 0 end.
Lemma le_user_wrun x : at_user x <= wrun x.
Proof. unfold at_user, wrun. destruct (pc x); cbn; lia. Qed.
Lemma at_user_nonneg x : 0 <= at_user x.
Proof. unfold at_user. destruct (pc x); lia. Qed.

Lemma totalgo_le_maxgo_lemma P : pvalid P ->
  forall evs c, pexecs P evs = Some c -> 0 <= s_total (c_sh c) <= i_max P.
Proof.
  intros HV evs c He. destruct (inv12_reach P c HV (pexecs_reach _ _ _ He)) as [HI _].
  pose proof (v_res _ _ HI). pose proof (v_total _ _ HI).
  pose proof (tsum_nonneg res (c_thr c) res_nonneg).
  pose proof (tsum_nonneg wcount (c_thr c) wcount_nonneg).
  pose proof (Lloc_pending_nonneg P _ (v_loc _ _ HI) HV). lia.
Qed.

Lemma running_tasks_le_totalgo_lemma P : pvalid P ->
  forall evs c, pexecs P evs = Some c ->
  0 <= tsum at_user (c_thr c) <= s_running (c_sh c) /\ s_running (c_sh c) <= s_total (c_sh c) /\
  s_total (c_sh c) <= i_max P.
Proof.
  intros HV evs c He. destruct (inv12_reach P c HV (pexecs_reach _ _ _ He)) as [HI _].
  pose proof (v_res _ _ HI). pose proof (v_total _ _ HI). pose proof (v_run _ _ HI).
  pose proof (tsum_nonneg res (c_thr c) res_nonneg).
  pose proof (tsum_le wrun wcount (c_thr c) le_wrun_wcount).
  pose proof (tsum_le at_user wrun (c_thr c) le_user_wrun).
  pose proof (tsum_nonneg at_user (c_thr c) at_user_nonneg).
  pose proof (Lloc_pending_nonneg P _ (v_loc _ _ HI) HV). lia.
Qed.

(* ---------------------------------------------------------------- lifecycle *)
Lemma le_wrun_wany x : wrun x <= wany x.
Proof. pose proof (le_wrun_wcount x). pose proof (le_wcount_wany x). lia. Qed.

(* before a Start call has taken the state word: no task has started, no worker goroutine exists,
   numGoRunningTasks = 0 *)
Lemma no_task_before_start_lemma P : pvalid P ->
  forall evs c, pexecs P evs = Some c -> g_began (c_gh c) = false ->
  g_started (c_gh c) = [] /\ tsum wany (c_thr c) = 0 /\ s_running (c_sh c) = 0.
Proof.
  intros HV evs c He Hb. destruct (inv12_reach P c HV (pexecs_reach _ _ _ He)) as [HI HJ].
  split; [apply (w_nostart _ HJ), Hb|].
  pose proof (w_began _ HJ) as Wb. rewrite Hb in Wb. cbn in Wb.
  assert (Hw : tsum wany (c_thr c) = 0).
  { destruct (proj1 Wb eq_refl) as [H1|(H1 & H2 & H3)]; [apply (v_cr _ _ HI), H1|apply (v_lcr _ _ HI); assumption]. }
  split; [exact Hw|].
  pose proof (v_run _ _ HI). pose proof (tsum_le wrun wany (c_thr c) le_wrun_wany).
  pose proof (tsum_nonneg wrun (c_thr c) wrun_nonneg). lia.
Qed.

(* the history flag means what its name says: it is set exactly by Start's successful CAS *)
Lemma began_iff_not_fresh P : pvalid P ->
  forall evs c, pexecs P evs = Some c ->
  (g_began (c_gh c) = false <->
   (s_state (c_sh c) = SCreated \/
    (s_state (c_sh c) = SLocked /\ s_prev (c_sh c) = SCreated /\ tsum thold (c_thr c) = 0))).
Proof.
  intros HV evs c He. destruct (inv12_reach P c HV (pexecs_reach _ _ _ He)) as [HI HJ].
  pose proof (w_began _ HJ) as Wb.
  split.
  - intros Hb. rewrite Hb in Wb. destruct (proj1 Wb eq_refl) as [H1|(H1 & H2 & H3)].
    + left. apply sz_inj. exact H1.
    + right. repeat split; [apply sz_inj; exact H1|apply sz_inj; exact H2|exact H3].
  - intros H. destruct (g_began (c_gh c)); [|reflexivity]. exfalso.
    assert (zb true = 0); [|discriminate]. apply Wb.
    destruct H as [H|(H1 & H2 & H3)]; [left; rewrite H; reflexivity|right; rewrite H1, H2; auto].
Qed.

Lemma start_once_lemma P : pvalid P ->
  forall evs c, pexecs P evs = Some c -> 0 <= g_starts (c_gh c) <= 1.
Proof.
  intros HV evs c He. destruct (inv12_reach P c HV (pexecs_reach _ _ _ He)) as [HI HJ].
  pose proof (w_starts _ HJ). pose proof (w_counts _ HJ).
  pose proof (tsum_nonneg spath (c_thr c) spath_nonneg).
  destruct (g_began (c_gh c)); cbn in *; lia.
Qed.

Lemma shutdown_once_lemma P : pvalid P ->
  forall evs c, pexecs P evs = Some c ->
  0 <= g_shuts (c_gh c) <= 1 /\ (g_shut (c_gh c) = true -> g_now (c_gh c) = true -> False).
Proof.
  intros HV evs c He. destruct (inv12_reach P c HV (pexecs_reach _ _ _ He)) as [HI HJ].
  pose proof (w_shuts _ HJ). pose proof (w_counts _ HJ). destruct (w_down _ HJ) as [Hd _].
  pose proof (tsum_nonneg shpath (c_thr c) shpath_nonneg).
  destruct (g_shut (c_gh c)), (g_now (c_gh c)); cbn in *; split; try lia; intros; try discriminate.
Qed.

(* once a Shutdown / ShutdownNow has taken effect the state word is closing or stopped for ever *)
Lemma down_iff_shutdown_lemma P : pvalid P ->
  forall evs c, pexecs P evs = Some c ->
  ((g_shut (c_gh c) = true \/ g_now (c_gh c) = true) <->
   (s_state (c_sh c) = SClosing \/ s_state (c_sh c) = SStopped)).
Proof.
  intros HV evs c He. destruct (inv12_reach P c HV (pexecs_reach _ _ _ He)) as [HI HJ].
  destruct (w_down _ HJ) as [Hd Hi].
  split.
  - intros H. assert (3 <= sz (s_state (c_sh c)) <= 4).
    { apply Hi. destruct H as [H|H]; rewrite H in *; destruct (g_shut (c_gh c)), (g_now (c_gh c)); cbn in *; lia. }
    destruct (s_state (c_sh c)); cbn in *; auto; lia.
  - intros H. assert (Hs : 3 <= sz (s_state (c_sh c)) <= 4) by (destruct H as [H|H]; rewrite H; cbn; lia).
    apply Hi in Hs. destruct (g_shut (c_gh c)), (g_now (c_gh c)); cbn in *; auto; lia.
Qed.

(* ---------------------------------------------------------------- facts about one statement *)
(* the lifecycle state: the `locked` excursions are transparent *)
Definition lstate (s : shared) : pstate :=
  if pstate_eqb (s_state s) SLocked then s_prev s else s_state s.
Definition lrank (s : shared) : Z := sz (lstate s).

Definition ret_err (r : pret) : bool :=
  match r with
  | RSubmit e | RStart e | RShutdown e | RShutdownNow e _ => is_err e
  | RPanicSend | RPanicClose => false
  end.
Definition ret_panic (r : pret) : bool :=
  match r with RPanicSend | RPanicClose => true | _ => false end.

Lemma lrank_same s s' : s_state s' = s_state s -> s_prev s' = s_prev s -> lrank s' = lrank s.
Proof. unfold lrank, lstate. intros -> ->. reflexivity. Qed.

Lemma pstep_facts P c t th ch o c' obs :
  pvalid P -> Inv P c -> Inv2 c -> lookup t (c_thr c) = Some th ->
  pstep (c_par c) (parked_of (c_thr c)) (c_sh c) th ch = Some o ->
  apply_out c t o = Some (c', obs) ->
  (lrank (c_sh c) <= lrank (c_sh c') /\ (lrank (c_sh c) = 1 -> lrank (c_sh c') <= 2)) /\
  (forall r, o_ret o = Some r ->
     ret_panic r = false /\ (l_late th = true -> ret_err r = true)).
Proof.
  intros HV HI HJ Hl Hp Ha.
  pose proof (v_par _ _ HI) as Vpar. rewrite Vpar in Hp.
  destruct (apply_out_fields c t o c' obs Ha) as (_ & Fsh & _).
  pose proof (tall_lookup _ _ _ _ (w_late _ HJ) Hl) as Tth.
  pose proof (tall_lookup _ _ _ _ (v_prev _ _ HI) Hl) as Pth.
  pose proof (tsum_ge_lookup hold t _ th hold_nonneg Hl) as Gh.
  pose proof (tsum_ge_lookup atclose t _ th atclose_nonneg Hl) as Gatclose.
  pose proof (tsum_nonneg atclose (c_thr c) atclose_nonneg) as Natc.
  pose proof (tsum_nonneg hold (c_thr c) hold_nonneg) as Nh.
  pose proof (v_lock _ _ HI) as Vlock. pose proof (v_hold _ _ HI) as Vhold.
  pose proof (w_closed _ HJ) as Wc. destruct (w_down _ HJ) as [Wd1 Wd2].
  pose proof (sz_range (s_state (c_sh c))) as Rst.
  pose proof (sz_range (s_prev (c_sh c))) as Rpv.
  clear HI HJ.
  pstep_split Hp Epc.
  all: cbn [o_sh o_ret] in *.
  (* statements that do not touch the state word and return nothing *)
  all: try solve [ split; [ rewrite Fsh; rewrite (lrank_same _ (c_sh c)) by reflexivity; lia
                          | intros rr X; discriminate X ] ].
  all: unfold Llate, Lprev, want', unlock_state, lrank, lstate in *.
  all: rewrite ?hold_eq, ?atclose_eq in *.
  all: rewrite ?Epc in *.
  all: cbn in Tth, Pth, Gh, Gatclose.
  all: try (specialize (Pth eq_refl)).
  all: try match type of Pth with false = true -> _ => clear Pth end.
  all: rewrite Fsh; clear Fsh Ha.
  all: repeat match goal with H : s_closed _ = _ |- _ => rewrite H in * end; cbn [zb] in *.
  all: eqb_facts.
  all: rewrite ?sz_want in *.
  all: try match goal with H : context [if l_second ?x then _ else _] |- _ => destruct (l_second x) eqn:Esec end.
  all: assert (Zb2 : 0 <= zb (g_shut (c_gh c)) <= 1) by (destruct (g_shut (c_gh c)); cbn; lia).
  all: assert (Zb3 : 0 <= zb (g_now (c_gh c)) <= 1) by (destruct (g_now (c_gh c)); cbn; lia).
  all: split;
    [ shcbn;
      repeat match goal with |- context [pstate_eqb ?a ?b] =>
        let E := fresh "Eq" in destruct (pstate_eqb a b) eqn:E; eqb_facts end;
      shcbn; rewrite ?sz_want; repeat match goal with H : l_second _ = _ |- _ => rewrite H end;
      clear Tth; lia
    | intros rr X; first [discriminate X | injection X as <-; cbn;
        split; [first [reflexivity | (exfalso; clear Tth; lia)] |
                intros Hlate; specialize (Tth Hlate); first [reflexivity | contradiction | (exfalso; clear - Tth; lia)
                  | (destruct (l_err th); cbn in *; first [reflexivity | contradiction | discriminate])]]] ].
Qed.

(* ---------------------------------------------------------------- observations that are return values *)
Lemma obs_of_no_ret t th t0 r : ~ In (t0, ORet r) (obs_of t th).
Proof. unfold obs_of. destruct (is_parked th); cbn; [tauto|]. intros [H|[]]. discriminate H. Qed.

Lemma flat_obs_no_ret (l : list (tid * thr)) t0 r :
  ~ In (t0, ORet r) (flat_map (fun x => obs_of (fst x) (snd x)) l).
Proof.
  induction l as [|[a b] l IH]; cbn; [tauto|]. rewrite in_app_iff. intros [H|H]; [|tauto].
  exact (obs_of_no_ret _ _ _ _ H).
Qed.

Lemma apply_out_obs_ret c t o c' obs t0 r :
  apply_out c t o = Some (c', obs) -> In (t0, ORet r) obs ->
  t0 = t /\ o_th o = None /\ o_ret o = Some r.
Proof.
  unfold apply_out. destruct (apply_wake _ _) as [[l2 wk]|]; [|discriminate].
  intros H; injection H as _ <-. rewrite !in_app_iff. intros [H|[H|H]].
  - destruct (o_th o) as [th'|]; [exfalso; exact (obs_of_no_ret _ _ _ _ H)|].
    destruct (o_ret o) as [r0|]; [|destruct H]. destruct H as [H|[]]. injection H as <- <-. auto.
  - destruct (o_spawn o); [exfalso; exact (obs_of_no_ret _ _ _ _ H)|destruct H].
  - exfalso. exact (flat_obs_no_ret _ _ _ H).
Qed.

(* pexec1 (with observations) and pstep_cfg agree *)
Lemma pexec1_cfg c e c' obs : pexec1 c e = Some (c', obs) -> pstep_cfg c e = Some c'.
Proof. unfold pstep_cfg. intros ->. reflexivity. Qed.

Lemma pexec1_step_inv c t ch c' obs :
  pexec1 c (PStep t ch) = Some (c', obs) ->
  exists th o, lookup t (c_thr c) = Some th /\
    pstep (c_par c) (parked_of (c_thr c)) (c_sh c) th ch = Some o /\ apply_out c t o = Some (c', obs).
Proof.
  unfold pexec1. destruct (lookup t (c_thr c)) as [th|]; [|discriminate].
  destruct (pstep _ _ _ th ch) as [o|] eqn:E; [|discriminate]. intros H. exists th, o. auto.
Qed.

(* return values only come from PStep events *)
Lemma pexec1_ret_is_step c e c' obs t0 r :
  pexec1 c e = Some (c', obs) -> In (t0, ORet r) obs -> exists ch, e = PStep t0 ch.
Proof.
  destruct e as [t op|t ch|t|t|t]; unfold pexec1.
  - destruct (lookup t (c_thr c)); [discriminate|]. destruct (Nat.ltb t (i_base (c_par c))); [|discriminate].
    destruct op as [id pp| | | |]; [destruct (Nat.eqb id (c_ntask c)); [|discriminate]| | | |]; intros H; injection H as _ <-;
      intros X; apply obs_of_no_ret in X; destruct X.
  - intros H X. destruct (pexec1_step_inv _ _ _ _ _ H) as (th & o & Hl & Hp & Ha).
    destruct (apply_out_obs_ret _ _ _ _ _ _ _ Ha X) as (-> & _). exists ch. reflexivity.
  - destruct (lookup t (c_thr c)) as [th|]; [|discriminate]. destruct (l_cancel th); [discriminate|].
    intros H; injection H as _ <-. intros [].
  - destruct (lookup t (c_thr c)) as [th|]; [|discriminate]. destruct (l_tm th); try discriminate.
    destruct (is_parked th); intros H; injection H as _ <-; intros X; [apply obs_of_no_ret in X; destruct X|destruct X].
  - destruct (lookup t (c_thr c)) as [th|]; [|discriminate]. destruct (pc th); try discriminate.
    intros H X. destruct (apply_out_obs_ret _ _ _ _ _ _ _ H X) as (_ & Hn & _). discriminate Hn.
Qed.

(* ---------------------------------------------------------------- the step theorems *)
Lemma lifecycle_monotone_lemma P : pvalid P ->
  forall evs c e c', pexecs P evs = Some c -> pstep_cfg c e = Some c' ->
  lrank (c_sh c) <= lrank (c_sh c') /\ (lrank (c_sh c) = 1 -> lrank (c_sh c') <= 2).
Proof.
  intros HV evs c e c' He Hs. destruct (inv12_reach P c HV (pexecs_reach _ _ _ He)) as [HI HJ].
  apply pstep_cfg_inv in Hs. destruct e as [t op|t ch|t|t|t].
  - destruct Hs as (_ & _ & -> & _). cbn. lia.
  - destruct Hs as (th & o & obs & Hl & Hp & Ha).
    exact (proj1 (pstep_facts P c t th ch o c' obs HV HI HJ Hl Hp Ha)).
  - destruct Hs as (th & _ & _ & ->). cbn. lia.
  - destruct Hs as (th & _ & _ & ->). cbn. lia.
  - destruct Hs as (th & obs & _ & _ & Ha). destruct (apply_out_fields _ _ _ _ _ Ha) as (_ & -> & _). cbn. lia.
Qed.

(* the lifecycle state is never `locked`: the excursions are transparent *)
Lemma tall_in (Q : thr -> Prop) l t th : tall Q l -> In (t, th) l -> Q th.
Proof. unfold tall. rewrite Forall_forall. intros H Hi. exact (H _ Hi). Qed.

Lemma tsum_pos_in g l : (forall th, 0 <= g th) -> 1 <= tsum g l -> exists t th, In (t, th) l /\ 1 <= g th.
Proof.
  intros Hg. induction l as [|[t0 p0] r IH]; cbn; [lia|]. intros H.
  destruct (Z_le_gt_dec 1 (g p0)) as [E|E].
  - exists t0, p0. auto.
  - destruct IH as (t & th & Hi & Hp); [specialize (Hg p0); lia|]. exists t, th. auto.
Qed.

Lemma lstate_range_lemma P : pvalid P ->
  forall evs c, pexecs P evs = Some c -> 1 <= lrank (c_sh c) <= 4.
Proof.
  intros HV evs c He. destruct (inv12_reach P c HV (pexecs_reach _ _ _ He)) as [HI HJ].
  unfold lrank, lstate. destruct (pstate_eqb (s_state (c_sh c)) SLocked) eqn:E.
  - apply pstate_eqb_sz in E. cbn in E. pose proof (proj1 (v_lock _ _ HI) E) as Hh.
    destruct (tsum_pos_in hold (c_thr c) hold_nonneg ltac:(lia)) as (t & th & Hi & Hp).
    pose proof (tall_in _ _ _ _ (v_prev _ _ HI) Hi) as Hq. unfold Lprev in Hq.
    unfold hold in Hp. destruct (hold_pc (pc th)); [|cbn in Hp; lia]. rewrite (Hq eq_refl).
    unfold want', want. destruct (thold_pc (pc th)); [cbn; lia|destruct (l_second th); cbn; lia].
  - apply pstate_neqb_sz in E. cbn in E. pose proof (sz_range (s_state (c_sh c))). lia.
Qed.

(* a call invoked after a Shutdown / ShutdownNow took effect returns an error, whatever the schedule *)
Lemma calls_fail_after_shutdown_lemma P : pvalid P ->
  forall evs c e c' obs t th r, pexecs P evs = Some c ->
  lookup t (c_thr c) = Some th -> l_late th = true ->
  pexec1 c e = Some (c', obs) -> In (t, ORet r) obs -> ret_err r = true.
Proof.
  intros HV evs c e c' obs t th r He Hl Hlate Hx Hin.
  destruct (inv12_reach P c HV (pexecs_reach _ _ _ He)) as [HI HJ].
  destruct (pexec1_ret_is_step _ _ _ _ _ _ Hx Hin) as (ch & ->).
  destruct (pexec1_step_inv _ _ _ _ _ Hx) as (th0 & o & Hl0 & Hp & Ha).
  rewrite Hl in Hl0. injection Hl0 as <-.
  destruct (apply_out_obs_ret _ _ _ _ _ _ _ Ha Hin) as (_ & _ & Hr).
  exact (proj2 (proj2 (pstep_facts P c t th ch o c' obs HV HI HJ Hl Hp Ha) r Hr) Hlate).
Qed.

(* a late call is exactly a call invoked when the state word was closing or stopped *)
Lemma late_at_call c t op c' obs :
  pexec1 c (PCall t op) = Some (c', obs) ->
  exists th, lookup t (c_thr c') = Some th /\ l_late th = is_down (c_sh c).
Proof.
  intros H. pose proof (pexec1_cfg _ _ _ _ H) as Hs. apply pstep_cfg_inv in Hs.
  destruct Hs as (Hl & _ & -> & _). exists (enter (c_sh c) op). split; [|reflexivity].
  cbn [c_thr]. unfold spawn. clear - Hl. induction (c_thr c) as [|[a b] l IH]; cbn in *.
  - rewrite Nat.eqb_refl. reflexivity.
  - destruct (Nat.eqb t a); [discriminate|]. apply IH, Hl.
Qed.

(* C10 mechanism: no send on a closed channel, no close of a closed channel - in no schedule *)
Lemma no_panic_lemma P : pvalid P ->
  forall evs c e c' obs t r, pexecs P evs = Some c ->
  pexec1 c e = Some (c', obs) -> In (t, ORet r) obs -> ret_panic r = false.
Proof.
  intros HV evs c e c' obs t r He Hx Hin.
  destruct (inv12_reach P c HV (pexecs_reach _ _ _ He)) as [HI HJ].
  destruct (pexec1_ret_is_step _ _ _ _ _ _ Hx Hin) as (ch & ->).
  destruct (pexec1_step_inv _ _ _ _ _ Hx) as (th & o & Hl & Hp & Ha).
  destruct (apply_out_obs_ret _ _ _ _ _ _ _ Ha Hin) as (_ & _ & Hr).
  exact (proj1 (proj2 (pstep_facts P c t th ch o c' obs HV HI HJ Hl Hp Ha) r Hr)).
Qed.

(* ---------------------------------------------------------------- the constructor *)
(* the defaulting rule of NewOnDemandBlockTaskPool *)
Definition defaulted (initGo core mx : Z) : Z * Z :=
  if negb (core =? initGo) && (mx =? initGo) then (core, core)
  else if (core =? initGo) && negb (mx =? initGo) then (mx, mx)
  else (core, mx).

Definition opts_st (initGo : Z) (opts : list popt) : ctor_st := fold_left apply_opt opts (mkCt initGo initGo 0 1).

Lemma constructor_rejects_lemma initGo queueSize opts :
  let a := opts_st initGo opts in
  let cm := defaulted initGo (ct_core a) (ct_max a) in
  (pool_new initGo queueSize opts = CtErr <->
     (initGo < 1 \/ queueSize < 0 \/ ~ (initGo <= fst cm <= snd cm) \/ ct_rn a < 0 \/ ct_rd a < ct_rn a)) /\
  (forall i c m q rn rd, pool_new initGo queueSize opts = CtOk i c m q rn rd ->
     i = initGo /\ q = queueSize /\ (c, m) = cm /\ rn = ct_rn a /\ rd = ct_rd a /\
     1 <= i <= c /\ c <= m /\ 0 <= q /\ 0 <= rn <= rd).
Proof.
  intros a cm. unfold pool_new. fold (opts_st initGo opts). fold a.
  unfold cm, defaulted.
  destruct (initGo <? 1) eqn:E1; [split; [split; [lia|reflexivity]|intros; discriminate]|].
  destruct (queueSize <? 0) eqn:E2; [split; [split; [lia|reflexivity]|intros; discriminate]|].
  destruct (negb (ct_core a =? initGo) && (ct_max a =? initGo)) eqn:D1;
    [|destruct ((ct_core a =? initGo) && negb (ct_max a =? initGo)) eqn:D2]; cbn [fst snd];
  match goal with |- context [negb ((initGo <=? ?x) && (?x <=? ?y))] =>
    destruct (negb ((initGo <=? x) && (x <=? y))) eqn:E3 end;
  try (split; [split; [lia|reflexivity]|intros; discriminate]);
  (destruct ((ct_rn a <? 0) || (ct_rd a <? ct_rn a)) eqn:E4;
   [split; [split; [lia|reflexivity]|intros; discriminate]|]);
  (split; [split; [intros X; discriminate X|lia]|]);
  intros i c0 m q rn rd X; injection X as <- <- <- <- <- <-; repeat split; lia.
Qed.

(* an accepted configuration is a valid parameter record of the interleaving model *)
Lemma constructor_ok_valid initGo queueSize opts i c m q rn rd fa fb base fc :
  pool_new initGo queueSize opts = CtOk i c m q rn rd -> 0 < rd ->
  pvalid (mkPar i c m q rn rd fa fb base fc).
Proof.
  intros H Hrd. destruct (constructor_rejects_lemma initGo queueSize opts) as [_ Hk].
  destruct (Hk _ _ _ _ _ _ H) as (-> & -> & _ & _ & _ & H1 & H2 & H3 & H4).
  unfold pvalid. cbn. lia.
Qed.
