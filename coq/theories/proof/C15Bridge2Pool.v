(* C15Bridge2Pool.v — C15 bridge, trace-level COMPOSITION for pool.OnDemandBlockTaskPool
   (interleaving model PoolModel.v; the code as it is now: i_fixc = true, Submit wraps the task once).

   Locations of the trace (field name, instance):
     OnDemandBlockTaskPool.state, .id, .numGoRunningTasks   only sync/atomic accesses           (QAtomic)
     .queue (the channel-typed field), .interruptCtx, .interruptCtxCancel, .initGo, .coreGo, .maxGo,
     .queueBacklogRate, .timeoutGroup, .maxIdleTime, group.mp (the map header)
                                                            never written after the constructor (QConst)
     OnDemandBlockTaskPool.totalGo                          every access under b.mutex (RWMutex: writers
                                                            exclusively, readers at least shared)  (QLocked)
     group.mp[] (the map's buckets), group.n                every access under g.mu (RWMutex)     (QLocked)
     taskWrapper.t of the wrapper of task k (instance k)    written by Submit (`task = &taskWrapper{t: task}`)
                                                            while the wrapper is local, published by the channel
                                                            send `b.queue <- task`, afterwards only read, by the
                                                            worker that received the task                 (QPub)
   Locks: OnDemandBlockTaskPool.mutex and group.mu, both RWMutexes (Lock/Unlock = Excl, RLock/RUnlock = Shared).
   The channel b.queue is the generic release/acquire object ("OnDemandBlockTaskPool.queue^", 0): the send of
   Submit is a release, the receive of the worker (emitted at its `case task, ok := <-b.queue:`) an acquire.
   `go b.goroutine(id)` is a Fork of the tid the model gives the new worker.  NOT emitted (they only add
   happens-before edges: conservative): close(b.queue), the receives of ShutdownNow's drain loop, context
   cancellation / Done, timer operations, len/cap of the channel.
   [pool_trace_drf_lemma]: for EVERY event list (calls, steps with every select choice, cancellations, timer
   fires, task completions; both pinned variants i_fixa / i_fixb; all parameters with i_fixc = true) the trace
   is well-formed, every access is an instance of a row of taskpool_table, and there is no data race. *)
From Coq Require Import List String Bool Arith Lia ZArith.
From Ekit Require Import Common HB FootprintModel FootprintProof C15Bridge C15Bridge2 Conc PoolModel PoolProof PoolProof2
     PoolProof3 PoolProof4 PoolProof5 PoolProof6 C15BridgePool.
From Ekit Require LockedProof.
Import ListNotations.
Open Scope string_scope.
Open Scope nat_scope.
Open Scope list_scope.

Ltac nlia := repeat match goal with H : @eq bool _ _ |- _ => clear H end; lia.

(* ---------- names ---------- *)
Definition pfield (f : string) : name := lname (TY_Pool ++ "." ++ f).
Definition STATEn : name := pfield "state".
Definition IDn : name := pfield "id".
Definition RUNn : name := pfield "numGoRunningTasks".
Definition QUEUEf : name := pfield "queue".
Definition ICTXn : name := pfield "interruptCtx".
Definition ICANCELn : name := pfield "interruptCtxCancel".
Definition INITGOn : name := pfield "initGo".
Definition COREGOn : name := pfield "coreGo".
Definition MAXGOn : name := pfield "maxGo".
Definition RATEn : name := pfield "queueBacklogRate".
Definition TGROUPn : name := pfield "timeoutGroup".
Definition MAXIDLEn : name := pfield "maxIdleTime".
Definition TOTALn : name := pfield "totalGo".
Definition MPf : name := lname "group.mp".
Definition MPEn : name := lname "group.mp[]".
Definition GNn : name := lname "group.n".
Definition TWf : string := "taskWrapper.t".
Definition TWn (k : nat) : name := (TWf, k).
Definition BMUn : name := lname BMU_Pool.
Definition GMUn : name := lname GMU_Pool.
Definition QUEUEo : name := lname "OnDemandBlockTaskPool.queue^".

Definition atomic_fields : list string :=
  ["OnDemandBlockTaskPool.state"; "OnDemandBlockTaskPool.id"; "OnDemandBlockTaskPool.numGoRunningTasks"].
Definition const_fields : list string :=
  ["OnDemandBlockTaskPool.queue"; "OnDemandBlockTaskPool.interruptCtx"; "OnDemandBlockTaskPool.interruptCtxCancel";
   "OnDemandBlockTaskPool.initGo"; "OnDemandBlockTaskPool.coreGo"; "OnDemandBlockTaskPool.maxGo";
   "OnDemandBlockTaskPool.queueBacklogRate"; "OnDemandBlockTaskPool.timeoutGroup";
   "OnDemandBlockTaskPool.maxIdleTime"; "group.mp"].

Definition dsc_Pool (x : name) : option disc :=
  let f := fst x in
  if String.eqb f TWf then Some (QPub (VSync QUEUEo))
  else match snd x with
       | S _ => None
       | O =>
         if existsb (String.eqb f) atomic_fields then Some QAtomic
         else if existsb (String.eqb f) const_fields then Some QConst
         else if String.eqb f "OnDemandBlockTaskPool.totalGo" then Some (QLocked BMUn)
         else if String.eqb f "group.mp[]" || String.eqb f "group.n" then Some (QLocked GMUn)
         else None
       end.

Lemma dsc_TW k : dsc_Pool (TWn k) = Some (QPub (VSync QUEUEo)). Proof. reflexivity. Qed.
Lemma via_TW k : via_of dsc_Pool (TWn k) = Some (VSync QUEUEo). Proof. reflexivity. Qed.

Lemma via_Pool_inv y v : via_of dsc_Pool y = Some v -> v = VSync QUEUEo /\ exists k, y = TWn k.
Proof.
  destruct y as [f n]. unfold via_of, dsc_Pool. cbn [fst snd].
  destruct (String.eqb f TWf) eqn:E.
  - apply String.eqb_eq in E. subst f. intros H. injection H as <-. split; [reflexivity|now exists n].
  - destruct n; [|discriminate].
    destruct (existsb (String.eqb f) atomic_fields); [discriminate|].
    destruct (existsb (String.eqb f) const_fields); [discriminate|].
    destruct (String.eqb f "OnDemandBlockTaskPool.totalGo"); [discriminate|].
    destruct (String.eqb f "group.mp[]" || String.eqb f "group.n"); discriminate.
Qed.

(* ---------- the accesses, lock, channel and fork operations of one statement ---------- *)
Definition acts_Pool (c : pcfg) (th : thr) (ch : choice) : list action :=
  let s := c_sh c in
  match pc th with
  (* the state word *)
  | SbChkClosing | SbChkStopped | StChkClosing | StChkStopped | StChkRunning
  | ShChkCreated | ShChkStopped | ShChkClosing | SnChkCreated | SnChkClosing | SnChkStopped => [ARead STATEn]
  | TsCas | StCas | ShCas | SnCas | WTmCas | WClCas | StCasRun => [ARmw STATEn]
  | TsRetCtx | TsRetT | TsRetF0 => [ARmw STATEn]            (* the deferred CompareAndSwap(stateLocked, state) *)
  (* Submit *)
  | SbWrap => [Write (TWn (tid_of th))]
  | TsSelect =>
      match ch with
      | CSend _ => if s_closed s then [Read QUEUEf] else [Read QUEUEf; SRel QUEUEo]
      | _ => [Read QUEUEf]
      end
  | TsId => [ARmw IDn]
  | TsGo => [Fork (c_next c)]
  | StGo => [ARmw IDn; Fork (c_next c)]
  (* b.mutex *)
  | AlRLock | NgRLock => [Acq BMUn Shared]
  | AlRate => [Read QUEUEf]
  | AlRet => [Read TOTALn; Read MAXGOn; Read RATEn; Rel BMUn Shared]
  | NgRead => [Read TOTALn]
  | NgRUnlock => [Rel BMUn Shared]
  | SiLock | TiLock | WIdLock | WTmLock | CdLock | WBkLock => [Acq BMUn Excl]
  | SiAdd | TiAdd | WIdSub | CdSub | WTmDecr | WBkDecr => [Read TOTALn; Write TOTALn]
  | SiUnlock | TiUnlock | WIdUnlock | CdUnlock | WTmUnlock | WBkUnlock1 | WBkUnlock2 => [Rel BMUn Excl]
  | WTmLeft => [Read TOTALn]
  | WBkNoTasks => [Read QUEUEf; Read TOTALn]
  | WBkIf1 => [Read COREGOn; Read TOTALn; Read MAXGOn; Read INITGOn; Read TGROUPn]
  | WBkIf2 => [Read INITGOn; Read TOTALn; Read TGROUPn]
  | WBkNewTimer => [Read MAXIDLEn]
  (* Start *)
  | NcN => [Read INITGOn]
  | NcAllow => [Read MAXGOn; Read INITGOn]
  | NcNeed => [Read QUEUEf; Read INITGOn]
  (* Shutdown / ShutdownNow *)
  | ShClose | SnClose | SnMake | SnRange => [Read QUEUEf]
  | ShRet => [Read ICTXn]
  | SnCancel | WTmCancel | WClCancel => [Read ICANCELn]
  (* the worker *)
  | WSelect => [Read ICTXn; Read QUEUEf]
  | WCaseQueue => [SAcq QUEUEo]                              (* the receive *)
  | WTmDel | WRcDel | WIfIsIn | WBkAdd => [Read TGROUPn]
  | WRunInc | WRunDec => [ARmw RUNn]
  | WRun => [Read ICTXn]
  | RwRet => [Read (TWn (tid_of th))]                        (* tw.t.Run(ctx) *)
  (* the timeout group *)
  | TdLock | RdLock | GaLock => [Acq GMUn Excl]
  | TdIf | RdIf => [Read MPf; Read MPEn]
  | GaIf => if zmem (l_wid th) (s_mp s) then [Read MPf; Read MPEn; Rel GMUn Excl] else [Read MPf; Read MPEn]
  | TdDec | RdDec => [Read GNn; Write GNn]
  | TdDelete | RdDelete => [Read MPf; Write MPEn; Rel GMUn Excl]
  | GaSet => [Read MPf; Write MPEn]
  | GaInc => [Read GNn; Write GNn; Rel GMUn Excl]
  | IiRLock | Z1RLock | Z2RLock => [Acq GMUn Shared]
  | IiLookup => [Read MPf; Read MPEn]
  | IiRet => [Rel GMUn Shared]
  | Z1Ret | Z2Ret => [Read GNn; Rel GMUn Shared]
  | _ => []
  end.

Definition emit_Pool (c : pcfg) (e : pev) : list event :=
  match e with
  | PStep t ch => match lookup t (c_thr c) with
                  | Some th => map (mkEv t) (acts_Pool c th ch)
                  | None => []
                  end
  | _ => []
  end.

Definition pool_trace (P : params) (evs : list pev) : execution :=
  trace pcfg pev pstep_cfg emit_Pool (pinit P) evs.

(* ---------- classification of threads ---------- *)
(* a Submit call that has not yet executed `task = &taskWrapper{t: task}` *)
Definition prewrapb (th : thr) : bool :=
  negb (l_nil th) && match pc th with SbNil | SbWrap => true | _ => false end.
(* ... has wrapped and not yet sent *)
Definition unsentb (th : thr) : bool :=
  match pc th with
  | SbFor | SbChkClosing | SbRetClosing | SbChkStopped | SbRetStopped | SbTry1 | SbTry2
  | TsCas | TsDefer | TsSelect | TsCaseCtx | TsRetCtx | TsCaseDefault | TsRetF0 | TsRetF1 => true
  | SbIf1 | SbIf2 => negb (l_ok th)
  | _ => false
  end.
(* a worker between its receive (ok = true) and the call of the wrapped task *)
Definition holdtaskb (th : thr) : bool :=
  match pc th with
  | WCaseQueue | WIfIsIn | IiRLock | IiDefer | IiLookup | IiRet | WRcDel | RdLock | RdDefer | RdIf
  | RdDec | RdDelete | WStop1 | WDrain1 | WIfNotOk => l_ok th
  | WRunInc | WRun | RwDefer | RwRet => true
  | _ => false
  end.
Definition at_recv (th : thr) : bool := match pc th with WCaseQueue => true | _ => false end.

Definition TW_ok (a : ast) (t : Conc.tid) (th : thr) : Prop :=
  (prewrapb th = true -> a_lst a (TWn (tid_of th)) = LFresh) /\
  (unsentb th = true -> a_lst a (TWn (tid_of th)) = LLocal t) /\
  (holdtaskb th = true -> exists t0, a_lst a (TWn (tid_of th)) = LPub t0 /\
       (at_recv th = true \/ t0 = t \/ a_seen a (TWn (tid_of th)) t = true)).

Definition lkflag (l : name) (m : mode) (p : ppc) : bool :=
  if name_eqb l BMUn then match m with Excl => bw_pc p | Shared => br_pc p end
  else if name_eqb l GMUn then match m with Excl => gw_pc p | Shared => gr_pc p end
  else false.
Definition LK_ok (a : ast) (t : Conc.tid) (th : thr) : Prop :=
  forall l m, l = BMUn \/ l = GMUn -> a_lk a l t m = lkflag l m (pc th).

Notation thrP := (list (Conc.tid * thr)).

Record RP (c : pcfg) (a : ast) : Prop := {
  p_idle : forall t l m, lookup t (c_thr c) = None -> (l = BMUn \/ l = GMUn) -> a_lk a l t m = false;
  p_fresh : forall k, c_ntask c <= k -> a_lst a (TWn k) = LFresh;
  p_q : forall k, In k (s_q (c_sh c)) -> exists t0, a_lst a (TWn (tk_id k)) = LPub t0;
  p_thr : forall t th, lookup t (c_thr c) = Some th -> LK_ok a t th /\ TW_ok a t th
}.

Lemma RP_ext c a b : aeqm a b -> RP c a -> RP c b.
Proof.
  intros (H1 & H2 & H3) [Id Fr Q Th]. constructor.
  - intros t l m Hl Hx. rewrite <- H1. now apply Id.
  - intros k Hk. rewrite <- H2. now apply Fr.
  - intros k Hk. destruct (Q k Hk) as [t0 H]. exists t0. now rewrite <- H2.
  - intros t th Hl. destruct (Th t th Hl) as [L1 (T1 & T2 & T3)]. split.
    + intros l m Hx. rewrite <- H1. now apply L1.
    + unfold TW_ok. rewrite <- !H2, <- !H3. repeat split; assumption.
Qed.

(* ====================== the thread table is a finite map; spawned workers get fresh tids ====================== *)
Record invN (c : pcfg) : Prop := {
  n_nodup : NoDup (tids (c_thr c));
  n_lt : forall t th, lookup t (c_thr c) = Some th -> t < c_next c;
  n_base : i_base (c_par c) <= c_next c
}.

Lemma lookup_in_tids (l : thrP) t th : lookup t l = Some th -> In t (tids l).
Proof.
  intros H. destruct (in_dec Nat.eq_dec t (tids l)) as [Hi|Hn]; [exact Hi|].
  apply lookup_none_not_in in Hn. congruence.
Qed.
Lemma in_tids_lookup (l : thrP) t : In t (tids l) -> exists th, lookup t l = Some th.
Proof.
  intros H. destruct (lookup t l) as [th|] eqn:E; [now exists th|].
  apply lookup_none_not_in in E. contradiction.
Qed.

Lemma lookup_wake_all (f : thr -> thr) (l : thrP) t :
  lookup t (fst (wake_all f l)) = option_map (fun th => if is_parked th then f th else th) (lookup t l).
Proof.
  induction l as [|[t' x] r IH]; cbn [wake_all fst lookup option_map]; [reflexivity|].
  destruct (wake_all f r) as [r' w]. cbn [fst] in IH.
  destruct (is_parked x) eqn:Ep; cbn [fst lookup]; destruct (Nat.eqb t t'); cbn [option_map]; rewrite ?Ep; auto.
Qed.
Lemma tids_wake_all (f : thr -> thr) (l : thrP) : tids (fst (wake_all f l)) = tids l.
Proof.
  unfold tids. induction l as [|[t x] r IH]; cbn [wake_all fst map]; [reflexivity|].
  destruct (wake_all f r) as [r' w]. cbn [fst] in IH. destruct (is_parked x); cbn [fst map]; rewrite IH; reflexivity.
Qed.

(* what a step of thread t does to the entry of another thread *)
Definition woken (w : wake) (t' : Conc.tid) (th1 th2 : thr) : Prop :=
  match w with
  | WkNone => False
  | WkRecv r k => t' = r /\ th2 = recv_ok k th1
  | WkClose => th2 = recv_closed th1
  | WkCancel => th2 = recv_int th1
  end.

Definition ptbl_next (c : pcfg) (thr' : thrP) (t : Conc.tid) (o : pout) : Prop :=
  lookup t thr' = o_th o /\
  (forall t', t' <> t -> (t' <> c_next c \/ o_spawn o = None) ->
     match lookup t' (c_thr c), lookup t' thr' with
     | Some th1, Some th2 => th2 = th1 \/ (is_parked th1 = true /\ woken (o_wake o) t' th1 th2)
     | None, None => True
     | _, _ => False
     end) /\
  (forall w, o_spawn o = Some w -> lookup (c_next c) thr' = Some w).

Lemma apply_out_tbl c t th o c' obs :
  invN c -> lookup t (c_thr c) = Some th -> apply_out c t o = Some (c', obs) ->
  (o_wake o = WkNone \/ forall th', o_th o = Some th' -> is_parked th' = false) ->
  ptbl_next c (c_thr c') t o /\ invN c'.
Proof.
  intros [Nd Lt Ba] Hl Ha Hw. unfold apply_out in Ha.
  set (l1 := match o_th o with Some th' => update t th' (c_thr c) | None => remove t (c_thr c) end) in *.
  destruct (apply_wake (o_wake o) l1) as [[l2 wk]|] eqn:Ew; [|discriminate].
  injection Ha as <- _. cbn [c_thr c_next c_par].
  assert (L1t : lookup t l1 = o_th o).
  { unfold l1. destruct (o_th o); [exact (lookup_update_same _ _ _ _ _ Hl)|now apply LockedProof.lookup_remove_same]. }
  assert (L1o : forall t', t' <> t -> lookup t' l1 = lookup t' (c_thr c)).
  { intros t' Hne. unfold l1. destruct (o_th o); [now apply lookup_update_other|now apply LockedProof.lookup_remove_other]. }
  assert (T1 : forall x, In x (tids l1) -> In x (tids (c_thr c))).
  { intros x. unfold l1. destruct (o_th o); [now rewrite tids_update|].
    intros H. apply in_tids_lookup in H as [y Hy]. destruct (Nat.eq_dec x t) as [->|Hne].
    - rewrite LockedProof.lookup_remove_same in Hy by exact Nd. discriminate.
    - rewrite LockedProof.lookup_remove_other in Hy by exact Hne. eapply lookup_in_tids; eassumption. }
  assert (N1 : NoDup (tids l1)).
  { unfold l1. destruct (o_th o); [now rewrite tids_update|now apply nodup_remove]. }
  (* the wake *)
  assert (L2 : tids l2 = tids l1 /\ lookup t l2 = o_th o /\
               forall t', t' <> t ->
                 match lookup t' (c_thr c), lookup t' l2 with
                 | Some th1, Some th2 => th2 = th1 \/ (is_parked th1 = true /\ woken (o_wake o) t' th1 th2)
                 | None, None => True
                 | _, _ => False
                 end).
  { unfold apply_wake in Ew. destruct (o_wake o) as [|r k| |] eqn:Eo.
    - injection Ew as <- _. split; [reflexivity|]. split; [exact L1t|].
      intros t' Hne. rewrite (L1o t' Hne). destruct (lookup t' (c_thr c)); auto.
    - destruct (lookup r l1) as [x|] eqn:Er; [|discriminate]. destruct (is_parked x) eqn:Ep; [|discriminate].
      injection Ew as <- _.
      assert (Hrt : r <> t).
      { intros ->. rewrite L1t in Er. destruct Hw as [Hw|Hw]; [discriminate Hw|]. rewrite (Hw x Er) in Ep. discriminate. }
      split; [apply tids_update|]. split.
      + rewrite lookup_update_other by (intros E; apply Hrt; now symmetry). exact L1t.
      + intros t' Hne. destruct (Nat.eq_dec t' r) as [->|Hner].
        * rewrite (lookup_update_same _ _ _ _ _ Er). rewrite <- (L1o r Hrt), Er. right. split; [exact Ep|]. now split.
        * rewrite lookup_update_other by exact Hner. rewrite (L1o t' Hne). destruct (lookup t' (c_thr c)); auto.
    - assert (E2 : l2 = fst (wake_all recv_closed l1)) by (destruct (wake_all recv_closed l1); cbn [fst]; congruence).
      subst l2. split; [apply tids_wake_all|]. split.
      + rewrite lookup_wake_all, L1t. destruct (o_th o) as [x|] eqn:Eth; [|reflexivity]. cbn.
        destruct Hw as [Hw|Hw]; [discriminate Hw|]. now rewrite (Hw x eq_refl).
      + intros t' Hne. rewrite lookup_wake_all, (L1o t' Hne). destruct (lookup t' (c_thr c)) as [x|]; cbn; [|exact I].
        destruct (is_parked x) eqn:Ep; [right; split; [reflexivity|reflexivity]|now left].
    - assert (E2 : l2 = fst (wake_all recv_int l1)) by (destruct (wake_all recv_int l1); cbn [fst]; congruence).
      subst l2. split; [apply tids_wake_all|]. split.
      + rewrite lookup_wake_all, L1t. destruct (o_th o) as [x|] eqn:Eth; [|reflexivity]. cbn.
        destruct Hw as [Hw|Hw]; [discriminate Hw|]. now rewrite (Hw x eq_refl).
      + intros t' Hne. rewrite lookup_wake_all, (L1o t' Hne). destruct (lookup t' (c_thr c)) as [x|]; cbn; [|exact I].
        destruct (is_parked x) eqn:Ep; [right; split; [reflexivity|reflexivity]|now left]. }
  destruct L2 as (T2 & L2t & L2o).
  assert (Hnx : lookup (c_next c) l2 = None).
  { apply lookup_none_not_in. rewrite T2. intros H. apply T1 in H. apply in_tids_lookup in H as [y Hy].
    pose proof (Lt _ _ Hy). nlia. }
  assert (Htn : t <> c_next c) by (pose proof (Lt _ _ Hl); nlia).
  split.
  - (* the table *)
    split; [|split].
    + destruct (o_spawn o); [|exact L2t]. rewrite LockedProof.lookup_spawn_other by exact Htn. exact L2t.
    + intros t' Hne Hsp. destruct (o_spawn o) as [w|] eqn:Es.
      * destruct Hsp as [Hsp|Hsp]; [|discriminate Hsp]. rewrite LockedProof.lookup_spawn_other by exact Hsp. now apply L2o.
      * now apply L2o.
    + intros w Hs. rewrite Hs. now apply LockedProof.lookup_spawn_same.
  - (* the table stays a finite map *)
    constructor; cbn [c_thr c_next c_par].
    + destruct (o_spawn o); [|now rewrite T2].
      apply nodup_spawn; [now rewrite T2|exact Hnx].
    + intros x y Hy. destruct (o_spawn o) as [w|].
      * destruct (Nat.eq_dec x (c_next c)) as [->|Hne]; [nlia|].
        rewrite LockedProof.lookup_spawn_other in Hy by exact Hne.
        apply lookup_in_tids in Hy. rewrite T2 in Hy. apply T1 in Hy. apply in_tids_lookup in Hy as [z Hz].
        pose proof (Lt _ _ Hz). nlia.
      * apply lookup_in_tids in Hy. rewrite T2 in Hy. apply T1 in Hy. apply in_tids_lookup in Hy as [z Hz].
        exact (Lt _ _ Hz).
    + destruct (o_spawn o); nlia.
Qed.

(* ====================== the invariant after a step of thread t ====================== *)
Lemma parked_flags th : is_parked th = true ->
  bw_pc (pc th) = false /\ br_pc (pc th) = false /\ gw_pc (pc th) = false /\ gr_pc (pc th) = false /\
  prewrapb th = false /\ unsentb th = false /\ holdtaskb th = false.
Proof.
  intros H. apply is_parked_pc in H. unfold prewrapb, unsentb, holdtaskb. rewrite H. cbn.
  rewrite !andb_false_r. repeat split.
Qed.

Ltac flagfalse :=
  let H := fresh in intros H; unfold prewrapb, unsentb, holdtaskb, recv_ok, recv_closed, recv_int in H; cbn in H;
  rewrite ?andb_false_r in H; discriminate H.

(* the facts about another thread's entry survive the events of t *)
Lemma others_ok c a a' t t' th1 th2 w :
  RP c a -> lookup t' (c_thr c) = Some th1 -> t' <> t -> evolves t a a' -> lk_frame t a a' ->
  (th2 = th1 \/ (is_parked th1 = true /\ woken w t' th1 th2)) ->
  (prewrapb th1 = true -> a_lst a' (TWn (tid_of th1)) = LFresh) ->
  (forall r k, w = WkRecv r k -> exists t0, a_lst a' (TWn (tk_id k)) = LPub t0) ->
  LK_ok a' t' th2 /\ TW_ok a' t' th2.
Proof.
  intros HR Hl Hne Hev [Hlk _] Hth Hfr Hrk.
  destruct (p_thr _ _ HR t' th1 Hl) as [L1 (T1 & T2 & T3)].
  assert (HLK1 : LK_ok a' t' th1) by (intros l m Hx; rewrite Hlk by exact Hne; now apply L1).
  assert (HTW1 : TW_ok a' t' th1).
  { repeat split.
    - exact Hfr.
    - intros H. exact (evolves_local_other _ _ _ _ _ Hev Hne (T2 H)).
    - intros H. destruct (T3 H) as (t0 & H1 & H2). exists t0. split; [exact (evolves_pub _ _ _ _ _ Hev H1)|].
      destruct H2 as [H2|[H2|H2]]; auto. right. right. destruct Hev as (_ & E2 & _). now apply E2. }
  destruct Hth as [->|[Hp Hw]]; [now split|].
  assert (Hpc : pc th1 = WParked) by now apply is_parked_pc.
  unfold LK_ok in HLK1. rewrite Hpc in HLK1.
  destruct w as [|r k| |]; cbn [woken] in Hw.
  - destruct Hw.
  - destruct Hw as [-> ->]. split; [exact HLK1|]. split; [flagfalse|]. split; [flagfalse|].
    intros _. destruct (Hrk r k eq_refl) as [t0 H0]. exists t0. split; [exact H0|now left].
  - subst th2. split; [exact HLK1|]. split; [flagfalse|]. split; flagfalse.
  - subst th2. split; [exact HLK1|]. split; [flagfalse|]. split; flagfalse.
Qed.

Lemma RP_next c c' a a' t th o :
  RP c a -> invN c -> lookup t (c_thr c) = Some th -> ptbl_next c (c_thr c') t o ->
  evolves t a a' -> lk_frame t a a' ->
  c_ntask c' = c_ntask c ->
  (forall t' th1, t' <> t -> lookup t' (c_thr c) = Some th1 -> prewrapb th1 = true ->
     a_lst a' (TWn (tid_of th1)) = LFresh) ->
  (forall k, c_ntask c <= k -> a_lst a' (TWn k) = LFresh) ->
  (forall k, In k (s_q (c_sh c')) -> exists t0, a_lst a' (TWn (tk_id k)) = LPub t0) ->
  (forall r k, o_wake o = WkRecv r k -> exists t0, a_lst a' (TWn (tk_id k)) = LPub t0) ->
  (o_th o = None -> forall l m, l = BMUn \/ l = GMUn -> a_lk a' l t m = false) ->
  (forall th', o_th o = Some th' -> LK_ok a' t th' /\ TW_ok a' t th') ->
  (forall w, o_spawn o = Some w -> pc w = WNewTimer) ->
  RP c' a'.
Proof.
  intros HR HN Hl (Ht & Ho & Hs) Hev Hfrm Ent Hfr Hfresh Hq Hwk Hidle Hnew Hsp.
  pose proof Hfrm as [Hlk _].
  assert (Htn : t <> c_next c) by (pose proof (n_lt _ HN _ _ Hl); nlia).
  assert (Hnx : lookup (c_next c) (c_thr c) = None).
  { destruct (lookup (c_next c) (c_thr c)) eqn:E; [|reflexivity]. pose proof (n_lt _ HN _ _ E). nlia. }
  constructor.
  - (* threads without an entry hold nothing *)
    intros t' l m Hl' Hx. destruct (Nat.eq_dec t' t) as [->|Hne].
    + rewrite Ht in Hl'. now apply Hidle.
    + rewrite Hlk by exact Hne. apply (p_idle _ _ HR); [|exact Hx].
      destruct (o_spawn o) as [w|] eqn:Es.
      * destruct (Nat.eq_dec t' (c_next c)) as [->|Hnn]; [exact Hnx|].
        specialize (Ho t' Hne (or_introl Hnn)). rewrite Hl' in Ho. destruct (lookup t' (c_thr c)); [destruct Ho|reflexivity].
      * specialize (Ho t' Hne (or_intror eq_refl)). rewrite Hl' in Ho.
        destruct (lookup t' (c_thr c)); [destruct Ho|reflexivity].
  - intros k Hk. apply Hfresh. nlia.
  - exact Hq.
  - intros t' th2 Hl'. destruct (Nat.eq_dec t' t) as [->|Hne].
    + rewrite Ht in Hl'. now apply Hnew.
    + destruct (o_spawn o) as [w|] eqn:Es.
      * destruct (Nat.eq_dec t' (c_next c)) as [->|Hnn].
        -- rewrite (Hs w eq_refl) in Hl'. injection Hl' as <-. pose proof (Hsp w eq_refl) as Hw.
           split.
           ++ intros l m Hx. rewrite Hlk by exact Hne. rewrite Hw.
              rewrite (p_idle _ _ HR _ l m Hnx Hx). destruct Hx as [-> | ->]; destruct m; reflexivity.
           ++ unfold TW_ok, prewrapb, unsentb, holdtaskb. rewrite Hw. cbn. rewrite !andb_false_r.
              repeat split; discriminate.
        -- specialize (Ho t' Hne (or_introl Hnn)). rewrite Hl' in Ho.
           destruct (lookup t' (c_thr c)) as [th1|] eqn:E1; [|destruct Ho].
           eapply (others_ok c a a' t t' th1 th2 (o_wake o) HR E1 Hne Hev Hfrm Ho); [|exact Hwk].
           intros Hp. exact (Hfr t' th1 Hne E1 Hp).
      * specialize (Ho t' Hne (or_intror eq_refl)). rewrite Hl' in Ho.
        destruct (lookup t' (c_thr c)) as [th1|] eqn:E1; [|destruct Ho].
        eapply (others_ok c a a' t t' th1 th2 (o_wake o) HR E1 Hne Hev Hfrm Ho); [|exact Hwk].
        intros Hp. exact (Hfr t' th1 Hne E1 Hp).
Qed.

(* ====================== the classes of steps ====================== *)
Lemma evolves_of_eqP t a a' :
  (forall x, a_lst a' x = a_lst a x) -> (forall x t', a_seen a' x t' = a_seen a x t') -> evolves t a a'.
Proof.
  intros H1 H2. repeat split.
  - intros x. left. apply H1.
  - intros x t' H. now rewrite H2.
  - intros x t' _. apply H2.
Qed.

(* the new entry of the acting thread asks for no more than the old one (published state unchanged) *)
Definition TW_le (c : pcfg) (th th' : thr) : Prop :=
  (prewrapb th' = true -> prewrapb th = true /\ tid_of th' = tid_of th) /\
  (unsentb th' = true -> unsentb th = true /\ tid_of th' = tid_of th) /\
  (holdtaskb th' = true ->
     (holdtaskb th = true /\ tid_of th' = tid_of th /\ (at_recv th = true -> at_recv th' = true)) \/
     (at_recv th' = true /\ In (l_task th') (s_q (c_sh c)))).

Lemma TW_same c a a' t th th' :
  RP c a -> lookup t (c_thr c) = Some th ->
  (forall x, a_lst a' x = a_lst a x) -> (forall x t', a_seen a' x t' = a_seen a x t') ->
  TW_le c th th' -> TW_ok a' t th'.
Proof.
  intros HR Hl Hlst Hseen (F1 & F2 & F3). destruct (p_thr _ _ HR t th Hl) as [_ (T1 & T2 & T3)].
  repeat split.
  - intros H. destruct (F1 H) as [H1 ->]. rewrite Hlst. now apply T1.
  - intros H. destruct (F2 H) as [H1 ->]. rewrite Hlst. now apply T2.
  - intros H. destruct (F3 H) as [(H1 & E & H2)|[H1 H2]].
    + rewrite E. destruct (T3 H1) as (t0 & Hp & Hs). exists t0. rewrite Hlst, Hseen. split; [exact Hp|].
      destruct Hs as [Hs|Hs]; [left; now apply H2|now right].
    + destruct (p_q _ _ HR _ H2) as [t0 Hp]. exists t0. rewrite Hlst. split; [exact Hp|now left].
Qed.

(* P0 / P1 / P5: the published state does not move *)
Lemma PL_same c c' a a' t th o :
  RP c a -> invN c -> lookup t (c_thr c) = Some th -> ptbl_next c (c_thr c') t o ->
  evolves t a a' -> lk_frame t a a' ->
  (forall x, a_lst a' x = a_lst a x) -> (forall x t', a_seen a' x t' = a_seen a x t') ->
  c_ntask c' = c_ntask c ->
  (forall k, In k (s_q (c_sh c')) -> In k (s_q (c_sh c))) ->
  (forall r k, o_wake o <> WkRecv r k) ->
  (o_th o = None -> forall l m, l = BMUn \/ l = GMUn -> a_lk a' l t m = false) ->
  (forall th', o_th o = Some th' -> LK_ok a' t th' /\ TW_le c th th') ->
  (forall w, o_spawn o = Some w -> pc w = WNewTimer) ->
  RP c' a'.
Proof.
  intros HR HN Hl Htb Hev Hfrm Hlst Hseen Ent Hq Hwk Hidle Hnew Hsp.
  apply (RP_next c c' a a' t th o HR HN Hl Htb Hev Hfrm Ent); try assumption.
  - intros t' th1 Hne Hl1 Hp. rewrite Hlst. destruct (p_thr _ _ HR t' th1 Hl1) as [_ (T1 & _)]. now apply T1.
  - intros k Hk. rewrite Hlst. now apply (p_fresh _ _ HR).
  - intros k Hk. destruct (p_q _ _ HR k (Hq k Hk)) as [t0 H]. exists t0. now rewrite Hlst.
  - intros r k E. exfalso. exact (Hwk r k E).
  - intros th' E. destruct (Hnew th' E) as [H1 H2]. split; [exact H1|].
    exact (TW_same c a a' t th th' HR Hl Hlst Hseen H2).
Qed.

(* P2: task = &taskWrapper{t: task} *)
Lemma PL_wrap c c' a a' t th th' o :
  RP c a -> invN c -> lookup t (c_thr c) = Some th -> ptbl_next c (c_thr c') t o ->
  evolves t a a' -> lk_frame t a a' ->
  prewrapb th = true -> tid_of th < c_ntask c ->
  (forall t' th1, t' <> t -> lookup t' (c_thr c) = Some th1 -> prewrapb th1 = true -> tid_of th1 <> tid_of th) ->
  a_lst a' (TWn (tid_of th)) = LLocal t ->
  (forall k, k <> tid_of th -> a_lst a' (TWn k) = a_lst a (TWn k)) ->
  (forall l t' m, a_lk a' l t' m = a_lk a l t' m) ->
  c_ntask c' = c_ntask c -> c_sh c' = c_sh c ->
  o_th o = Some th' -> o_wake o = WkNone -> o_spawn o = None ->
  pc th' = pc (goto SbFor th) -> tid_of th' = tid_of th -> l_nil th' = l_nil th ->
  RP c' a'.
Proof.
  intros HR HN Hl Htb Hev Hfrm Hpre Hlt Huniq Hnew Hold Hlk Ent Esh Eth Ewk Esp Epc Eid Enil.
  apply (RP_next c c' a a' t th o HR HN Hl Htb Hev Hfrm Ent).
  - intros t' th1 Hne Hl1 Hp. rewrite Hold by exact (Huniq t' th1 Hne Hl1 Hp).
    destruct (p_thr _ _ HR t' th1 Hl1) as [_ (T1 & _)]. now apply T1.
  - intros k Hk. rewrite Hold by nlia. now apply (p_fresh _ _ HR).
  - rewrite Esh. intros k Hk. destruct (p_q _ _ HR k Hk) as [t0 H]. exists t0.
    destruct (Nat.eq_dec (tk_id k) (tid_of th)) as [E|E].
    + exfalso. destruct (p_thr _ _ HR t th Hl) as [_ (T1 & _)]. rewrite E, (T1 Hpre) in H. discriminate.
    + now rewrite Hold.
  - intros r k E. rewrite Ewk in E. discriminate.
  - intros E. rewrite Eth in E. discriminate.
  - intros x E. rewrite Eth in E. injection E as <-. split.
    + intros l m Hx. rewrite Hlk. destruct (p_thr _ _ HR t th Hl) as [L1 _]. rewrite (L1 l m Hx), Epc.
      unfold prewrapb in Hpre. apply andb_true_iff in Hpre as [_ Hpre].
      destruct (pc th); try discriminate Hpre; destruct Hx as [-> | ->]; destruct m; reflexivity.
    + unfold TW_ok, prewrapb, unsentb, holdtaskb. rewrite Epc, Eid. cbn [pc goto]. rewrite !andb_false_r.
      split; [discriminate|]. split; [intros _; exact Hnew|discriminate].
  - intros w E. rewrite Esp in E. discriminate.
Qed.

(* P3: the send `b.queue <- task` succeeds *)
Lemma PL_send c c' a a' t th th' o :
  RP c a -> invN c -> lookup t (c_thr c) = Some th -> ptbl_next c (c_thr c') t o ->
  evolves t a a' -> lk_frame t a a' ->
  unsentb th = true ->
  (forall k t0, a_lst a (TWn k) = LLocal t0 -> t0 = t -> a_lst a' (TWn k) = LPub t) ->
  (forall x, a_lst a x = LFresh -> a_lst a' x = LFresh) ->
  (forall l t' m, a_lk a' l t' m = a_lk a l t' m) ->
  c_ntask c' = c_ntask c ->
  (forall k, In k (s_q (c_sh c')) -> In k (s_q (c_sh c)) \/ k = l_task th) ->
  (forall r k, o_wake o = WkRecv r k -> k = l_task th) ->
  o_th o = Some th' -> o_spawn o = None ->
  pc th' = TsCaseSend -> pc th = TsSelect ->
  RP c' a'.
Proof.
  intros HR HN Hl Htb Hev Hfrm Hun Hpub Hfr Hlk Ent Hq Hwk Eth Esp Epc Epc0.
  destruct (p_thr _ _ HR t th Hl) as [L1 (_ & T2 & _)].
  assert (Hmine : a_lst a' (TWn (tid_of th)) = LPub t) by (apply (Hpub _ t (T2 Hun)); reflexivity).
  apply (RP_next c c' a a' t th o HR HN Hl Htb Hev Hfrm Ent).
  - intros t' th1 Hne Hl1 Hp. apply Hfr. destruct (p_thr _ _ HR t' th1 Hl1) as [_ (T1 & _)]. now apply T1.
  - intros k Hk. apply Hfr. now apply (p_fresh _ _ HR).
  - intros k Hk. destruct (Hq k Hk) as [Hin| ->].
    + destruct (p_q _ _ HR k Hin) as [t0 H]. exists t0. exact (evolves_pub _ _ _ _ _ Hev H).
    + exists t. exact Hmine.
  - intros r k E. rewrite (Hwk r k E). exists t. exact Hmine.
  - intros E. rewrite Eth in E. discriminate.
  - intros x E. rewrite Eth in E. injection E as <-. split.
    + intros l m Hx. rewrite Hlk, (L1 l m Hx), Epc, Epc0. destruct Hx as [-> | ->]; destruct m; reflexivity.
    + unfold TW_ok, prewrapb, unsentb, holdtaskb. rewrite Epc. rewrite !andb_false_r. repeat split; discriminate.
  - intros w E. rewrite Esp in E. discriminate.
Qed.

(* P4: the worker's receive `case task, ok := <-b.queue:` *)
Lemma PL_recv c c' a a' t th th' o :
  RP c a -> invN c -> lookup t (c_thr c) = Some th -> ptbl_next c (c_thr c') t o ->
  evolves t a a' -> lk_frame t a a' ->
  (forall x, a_lst a' x = a_lst a x) ->
  (forall k t0, a_lst a (TWn k) = LPub t0 -> a_seen a' (TWn k) t = true) ->
  (forall l t' m, a_lk a' l t' m = a_lk a l t' m) ->
  c_ntask c' = c_ntask c -> c_sh c' = c_sh c ->
  o_th o = Some th' -> o_wake o = WkNone -> o_spawn o = None ->
  pc th = WCaseQueue -> pc th' = WIfIsIn -> tid_of th' = tid_of th -> l_ok th' = l_ok th ->
  RP c' a'.
Proof.
  intros HR HN Hl Htb Hev Hfrm Hlst Hseen Hlk Ent Esh Eth Ewk Esp Epc0 Epc Eid Eok.
  destruct (p_thr _ _ HR t th Hl) as [L1 (_ & _ & T3)].
  apply (RP_next c c' a a' t th o HR HN Hl Htb Hev Hfrm Ent).
  - intros t' th1 Hne Hl1 Hp. rewrite Hlst. destruct (p_thr _ _ HR t' th1 Hl1) as [_ (T1 & _)]. now apply T1.
  - intros k Hk. rewrite Hlst. now apply (p_fresh _ _ HR).
  - rewrite Esh. intros k Hk. destruct (p_q _ _ HR k Hk) as [t0 H]. exists t0. now rewrite Hlst.
  - intros r k E. rewrite Ewk in E. discriminate.
  - intros E. rewrite Eth in E. discriminate.
  - intros x E. rewrite Eth in E. injection E as <-. split.
    + intros l m Hx. rewrite Hlk, (L1 l m Hx), Epc, Epc0. destruct Hx as [-> | ->]; destruct m; reflexivity.
    + unfold TW_ok, prewrapb, unsentb. rewrite Epc. rewrite !andb_false_r.
      split; [discriminate|]. split; [discriminate|].
      intros H. assert (H0 : holdtaskb th = true).
      { unfold holdtaskb in *. rewrite Epc in H. rewrite Epc0. now rewrite <- Eok. }
      destruct (T3 H0) as (t0 & Hp & _). exists t0. rewrite Eid, Hlst. split; [exact Hp|].
      right. right. exact (Hseen _ t0 Hp).
  - intros w E. rewrite Esp in E. discriminate.
Qed.

(* ====================== locks ====================== *)
Lemma name_eqb_BG : name_eqb BMUn GMUn = false. Proof. reflexivity. Qed.
Lemma name_eqb_GB : name_eqb GMUn BMUn = false. Proof. reflexivity. Qed.

(* no lock publishes anything here: the only publication channel is the queue *)
Lemma lst_rel_P a t l m y : a_lst (st_rel dsc_Pool a t l m) y = a_lst a y.
Proof.
  cbn [a_lst st_rel]. destruct (a_lst a y) as [|t0|t0]; try reflexivity.
  destruct (via_of dsc_Pool y) as [[l'|o]|] eqn:Ev; try reflexivity.
  destruct (via_Pool_inv _ _ Ev) as [E _]. discriminate E.
Qed.
Lemma seen_acq_P a t l m y t' : a_seen (st_acq dsc_Pool a t l m) y t' = a_seen a y t'.
Proof.
  cbn [a_seen st_acq]. destruct (a_lst a y) as [|t0|t0]; rewrite ?andb_false_r, ?orb_false_r; try reflexivity.
  destruct (via_of dsc_Pool y) as [[l'|o]|] eqn:Ev; rewrite ?andb_false_r, ?orb_false_r; try reflexivity.
  destruct (via_Pool_inv _ _ Ev) as [E _]. discriminate E.
Qed.

Lemma evolves_acq a t l m : evolves t a (st_acq dsc_Pool a t l m).
Proof. apply evolves_of_eqP; [reflexivity|intros; apply seen_acq_P]. Qed.
Lemma evolves_rel a t l m : evolves t a (st_rel dsc_Pool a t l m).
Proof. apply evolves_of_eqP; [intros; apply lst_rel_P|reflexivity]. Qed.
Lemma lk_frame_acq a t l m : lk_frame t a (st_acq dsc_Pool a t l m).
Proof.
  split; cbn [a_lk a_used st_acq]; intros; apply Nat.eqb_neq in H; rewrite H; [now rewrite andb_false_r|reflexivity].
Qed.
Lemma lk_frame_rel a t l m : lk_frame t a (st_rel dsc_Pool a t l m).
Proof.
  split; cbn [a_lk a_used st_rel]; intros; apply Nat.eqb_neq in H; rewrite H; [now rewrite andb_false_r|reflexivity].
Qed.

Lemma LK_keep a t th th' :
  LK_ok a t th -> (forall l m, l = BMUn \/ l = GMUn -> lkflag l m (pc th') = lkflag l m (pc th)) -> LK_ok a t th'.
Proof. intros H Hf l m Hx. rewrite (Hf l m Hx). now apply H. Qed.

Lemma LK_acq a t th th' l0 m0 :
  LK_ok a t th ->
  (forall l m, l = BMUn \/ l = GMUn ->
     lkflag l m (pc th') = if name_eqb l l0 && mode_eqb m m0 then true else lkflag l m (pc th)) ->
  LK_ok (st_acq dsc_Pool a t l0 m0) t th'.
Proof.
  intros H Hf l m Hx. cbn [a_lk st_acq]. rewrite (Hf l m Hx), Nat.eqb_refl, andb_true_r.
  destruct (name_eqb l l0 && mode_eqb m m0); [reflexivity|now apply H].
Qed.
Lemma LK_rel a t th th' l0 m0 :
  LK_ok a t th ->
  (forall l m, l = BMUn \/ l = GMUn ->
     lkflag l m (pc th') = if name_eqb l l0 && mode_eqb m m0 then false else lkflag l m (pc th)) ->
  LK_ok (st_rel dsc_Pool a t l0 m0) t th'.
Proof.
  intros H Hf l m Hx. cbn [a_lk st_rel]. rewrite (Hf l m Hx), Nat.eqb_refl, andb_true_r.
  destruct (name_eqb l l0 && mode_eqb m m0); [reflexivity|now apply H].
Qed.

(* the lock words of the model say who is inside the sections (C15BridgePool.LInv) *)
Lemma no_holder c a (f : thr -> Z) (fp : ppc -> bool) l m :
  RP c a -> (forall th, f th = PoolProof2.b2z (fp (pc th))) -> tsum f (c_thr c) = 0%Z ->
  (l = BMUn \/ l = GMUn) -> (forall p, lkflag l m p = fp p) ->
  forall t', a_lk a l t' m = false.
Proof.
  intros HR Hf Hs Hx Hfl t'. destruct (lookup t' (c_thr c)) as [th|] eqn:E.
  - destruct (p_thr _ _ HR t' th E) as [L1 _]. rewrite (L1 l m Hx), Hfl.
    assert (H0 : f th = 0%Z).
    { apply (tsum_zero_lookup f t' (c_thr c) th); auto. intros x. rewrite Hf. apply b2z_nonneg. }
    rewrite Hf in H0. destruct (fp (pc th)); [discriminate H0|reflexivity].
  - now apply (p_idle _ _ HR).
Qed.

Lemma free_B_excl c a : RP c a -> LInv c -> b_free (c_sh c) = true -> lk_free a BMUn Excl.
Proof.
  intros HR [A B _ _] Hf. unfold b_free in Hf. apply andb_true_iff in Hf as [H1 H2].
  apply negb_true_iff in H1. apply Z.eqb_eq in H2. rewrite H1 in A. rewrite H2 in B. split.
  - apply (no_holder c a bwh bw_pc BMUn Excl HR); auto; try (intros p; reflexivity).
  - intros _. apply (no_holder c a brh br_pc BMUn Shared HR); auto; try (intros p; reflexivity).
Qed.
Lemma free_B_shared c a : RP c a -> LInv c -> s_bw (c_sh c) = false -> lk_free a BMUn Shared.
Proof.
  intros HR [A _ _ _] Hf. rewrite Hf in A. split; [|discriminate].
  apply (no_holder c a bwh bw_pc BMUn Excl HR); auto; try (intros p; reflexivity).
Qed.
Lemma free_G_excl c a : RP c a -> LInv c -> g_free (c_sh c) = true -> lk_free a GMUn Excl.
Proof.
  intros HR [_ _ C D] Hf. unfold g_free in Hf. apply andb_true_iff in Hf as [H1 H2].
  apply negb_true_iff in H1. apply Z.eqb_eq in H2. rewrite H1 in C. rewrite H2 in D. split.
  - apply (no_holder c a gwh gw_pc GMUn Excl HR); auto; try (intros p; reflexivity).
  - intros _. apply (no_holder c a grh gr_pc GMUn Shared HR); auto; try (intros p; reflexivity).
Qed.
Lemma free_G_shared c a : RP c a -> LInv c -> s_gw (c_sh c) = false -> lk_free a GMUn Shared.
Proof.
  intros HR [_ _ C _] Hf. rewrite Hf in C. split; [|discriminate].
  apply (no_holder c a gwh gw_pc GMUn Excl HR); auto; try (intros p; reflexivity).
Qed.

(* ====================== the accesses are admissible and leave the abstract state alone ====================== *)
Definition okp (a : ast) (t : Conc.tid) (x : name) (w ao : bool) : Prop :=
  acc_ok dsc_Pool a t x w ao /\ (via_of dsc_Pool x = None \/ a_lst a x <> LFresh).

Lemma ok_atomic a t x w : dsc_Pool x = Some QAtomic -> okp a t x w true.
Proof. intros H. split; [unfold acc_ok; now rewrite H|left; unfold via_of; now rewrite H]. Qed.
Lemma ok_const a t x : dsc_Pool x = Some QConst -> okp a t x false false.
Proof. intros H. split; [unfold acc_ok; now rewrite H|left; unfold via_of; now rewrite H]. Qed.
Lemma ok_locked a t th x l w :
  dsc_Pool x = Some (QLocked l) -> LK_ok a t th -> (l = BMUn \/ l = GMUn) ->
  (match w return Prop with
   | true => lkflag l Excl (pc th) = true
   | false => lkflag l Shared (pc th) = true \/ lkflag l Excl (pc th) = true
   end) ->
  okp a t x w false.
Proof.
  intros H HL Hx Hf. split; [|left; unfold via_of; now rewrite H]. unfold acc_ok. rewrite H.
  destruct w; cbn [h_at_least].
  - now rewrite (HL l Excl Hx).
  - rewrite (HL l Shared Hx), (HL l Excl Hx). exact Hf.
Qed.
Lemma ok_TWread c a t th :
  RP c a -> lookup t (c_thr c) = Some th -> holdtaskb th = true -> at_recv th = false ->
  okp a t (TWn (tid_of th)) false false.
Proof.
  intros HR Hl Hh Hr. destruct (p_thr _ _ HR t th Hl) as [_ (_ & _ & T3)].
  destruct (T3 Hh) as (t0 & Hp & [Hs|Hs]); [congruence|].
  split; [|right; congruence]. unfold acc_ok. rewrite dsc_TW, Hp. now split.
Qed.

Definition oksP (a : ast) (t : Conc.tid) (accs : list action) : Prop :=
  Forall (fun b => exists x w ao, access_of b = Some (x, w, ao) /\ okp a t x w ao) accs.
Lemma oksP_accs a t accs : oksP a t accs -> accs_ok dsc_Pool a t accs /\ settled dsc_Pool a accs.
Proof.
  intros H. split; eapply Forall_impl; try exact H; cbn beta.
  - intros b (x & w & ao & Hacc & Hok & _). now exists x, w, ao.
  - intros b (x & w & ao & Hacc & _ & Hs) x' w' ao' Hacc'. rewrite Hacc in Hacc'. injection Hacc' as <- _ _. exact Hs.
Qed.

(* ====================== the shapes of a step ====================== *)
Lemma ps_same c' a t accs :
  oksP a t accs -> RP c' a ->
  all_ok dsc_Pool a (map (mkEv t) accs) /\ RP c' (aupds dsc_Pool a (map (mkEv t) accs)).
Proof.
  intros H HR. destruct (oksP_accs _ _ _ H) as [H1 H2].
  destruct (step_accs dsc_Pool a t accs H1 H2) as [Hok Heq]. split; [exact Hok|].
  eapply RP_ext; [apply aeqm_sym; exact Heq|exact HR].
Qed.
Lemma ps_rel c' a t accs l m :
  oksP a t accs -> a_lk a l t m = true -> RP c' (st_rel dsc_Pool a t l m) ->
  all_ok dsc_Pool a (map (mkEv t) (accs ++ [Rel l m])) /\
  RP c' (aupds dsc_Pool a (map (mkEv t) (accs ++ [Rel l m]))).
Proof.
  intros H Hl HR. destruct (oksP_accs _ _ _ H) as [H1 H2].
  destruct (step_accs_rel dsc_Pool a t accs l m H1 H2 Hl) as [Hok Heq]. split; [exact Hok|].
  eapply RP_ext; [apply aeqm_sym; exact Heq|exact HR].
Qed.
Lemma ps_acq c' a t l m :
  lk_free a l m -> RP c' (st_acq dsc_Pool a t l m) ->
  all_ok dsc_Pool a (map (mkEv t) [Acq l m]) /\ RP c' (aupds dsc_Pool a (map (mkEv t) [Acq l m])).
Proof.
  intros Hl HR. destruct (step_accs_acq dsc_Pool a t [] l m) as [Hok Heq]; [constructor|constructor|exact Hl|].
  split; [exact Hok|]. eapply RP_ext; [apply aeqm_sym; exact Heq|exact HR].
Qed.
Lemma ps_fork c' a t accs c0 :
  oksP a t accs -> a_used a c0 = false -> c0 <> t -> RP c' a ->
  all_ok dsc_Pool a (map (mkEv t) (accs ++ [Fork c0])) /\
  RP c' (aupds dsc_Pool a (map (mkEv t) (accs ++ [Fork c0]))).
Proof.
  intros H Hu Hne HR. destruct (oksP_accs _ _ _ H) as [H1 H2].
  destruct (step_accs_fork dsc_Pool a t accs c0 H1 H2 Hu Hne) as [Hok Heq]. split; [exact Hok|].
  eapply RP_ext; [apply aeqm_sym; exact Heq|exact HR].
Qed.
Lemma ps_srel c' a t accs o :
  oksP a t accs -> RP c' (st_srel dsc_Pool a t o) ->
  all_ok dsc_Pool a (map (mkEv t) (accs ++ [SRel o])) /\
  RP c' (aupds dsc_Pool a (map (mkEv t) (accs ++ [SRel o]))).
Proof.
  intros H HR. destruct (oksP_accs _ _ _ H) as [H1 H2].
  destruct (step_accs_srel dsc_Pool a t accs o H1 H2) as [Hok Heq]. split; [exact Hok|].
  eapply RP_ext; [apply aeqm_sym; exact Heq|exact HR].
Qed.
Lemma ps_sacq c' a t o :
  RP c' (st_sacq dsc_Pool a t o) ->
  all_ok dsc_Pool a (map (mkEv t) [SAcq o]) /\ RP c' (aupds dsc_Pool a (map (mkEv t) [SAcq o])).
Proof.
  intros HR. destruct (step_accs_sacq dsc_Pool a t [] o) as [Hok Heq]; [constructor|constructor|].
  split; [exact Hok|]. eapply RP_ext; [apply aeqm_sym; exact Heq|exact HR].
Qed.
Lemma ps_touch c' a t accs :
  accs_ok dsc_Pool a t accs -> RP c' (st_touch dsc_Pool a t (acts_locs accs)) ->
  all_ok dsc_Pool a (map (mkEv t) accs) /\ RP c' (aupds dsc_Pool a (map (mkEv t) accs)).
Proof.
  intros H HR. destruct (step_touch dsc_Pool a t accs H) as [Hok Heq]. split; [exact Hok|].
  eapply RP_ext; [apply aeqm_sym, aeq_aeqm; exact Heq|exact HR].
Qed.


(* ---------- more normal forms ---------- *)
Lemma evolves_touchP a t accs : accs_ok dsc_Pool a t accs -> evolves t a (st_touch dsc_Pool a t (acts_locs accs)).
Proof.
  intros H. destruct (step_touch dsc_Pool a t accs H) as [_ Heq].
  eapply evolves_ext; [apply (evolves_aupds dsc_Pool t accs a)|apply aeq_aeqm, Heq].
Qed.
Lemma lk_frame_touch a t xs : lk_frame t a (st_touch dsc_Pool a t xs).
Proof.
  split; cbn [a_lk a_used st_touch]; [reflexivity|]. intros t' Hne. apply Nat.eqb_neq in Hne. rewrite Hne.
  now destruct xs.
Qed.
Lemma evolves_srelP a t o : evolves t a (st_srel dsc_Pool a t o).
Proof. eapply evolves_ext; [apply (evolves_aupd dsc_Pool t a (SRel o))|apply aeq_aeqm, srel_st]. Qed.
Lemma lk_frame_srel a t o : lk_frame t a (st_srel dsc_Pool a t o).
Proof. split; cbn [a_lk a_used st_srel]; [reflexivity|]. intros t' Hne. apply Nat.eqb_neq in Hne. now rewrite Hne. Qed.
Lemma evolves_sacqP a t o : evolves t a (st_sacq dsc_Pool a t o).
Proof. eapply evolves_ext; [apply (evolves_aupd dsc_Pool t a (SAcq o))|apply aeq_aeqm, sacq_st]. Qed.
Lemma lk_frame_sacq a t o : lk_frame t a (st_sacq dsc_Pool a t o).
Proof. split; cbn [a_lk a_used st_sacq]; [reflexivity|]. intros t' Hne. apply Nat.eqb_neq in Hne. now rewrite Hne. Qed.

(* ---------- task ids are unique among the Submit calls in flight (PoolProof5.Inv3) ---------- *)
Lemma unsent_prewrap i th : prewrapb th = true -> tid_of th = i -> unsent i th = 1%Z.
Proof.
  unfold prewrapb, unsent, sentp, idz, tid_of. intros H E. apply andb_true_iff in H as [Hn Hp].
  rewrite Hn, E, Nat.eqb_refl. destruct (pc th); try discriminate Hp; reflexivity.
Qed.

Lemma wrap_facts P c t th :
  preach P c -> lookup t (c_thr c) = Some th -> prewrapb th = true ->
  tid_of th < c_ntask c /\
  forall t' th1, t' <> t -> lookup t' (c_thr c) = Some th1 -> prewrapb th1 = true -> tid_of th1 <> tid_of th.
Proof.
  intros Hr Hl Hp. pose proof (inv3_reach P (tid_of th) c Hr) as [_ _ X3 _ _].
  pose proof (unsent_prewrap (tid_of th) th Hp eq_refl) as Hu.
  pose proof (tsum_ge_lookup (unsent (tid_of th)) t (c_thr c) th (unsent_nonneg _) Hl) as G1.
  pose proof (tsum_nonneg (sentfl (tid_of th)) (c_thr c) (sentfl_nonneg _)) as G2.
  pose proof (cnt_nonneg (tid_of th) (g_acc (c_gh c))) as G3.
  pose proof (cnt_nonneg (tid_of th) (g_rej (c_gh c))) as G4.
  split.
  - destruct (Nat.ltb (tid_of th) (c_ntask c)) eqn:E; [now apply Nat.ltb_lt|]. lia.
  - intros t' th1 Hne Hl1 Hp1 E.
    pose proof (unsent_prewrap (tid_of th) th1 Hp1 E) as Hu1.
    pose proof (tsum_remove (unsent (tid_of th)) t (c_thr c) th Hl) as Hr1.
    assert (Hl1' : lookup t' (remove t (c_thr c)) = Some th1) by (rewrite LockedProof.lookup_remove_other; assumption).
    pose proof (tsum_ge_lookup (unsent (tid_of th)) t' _ th1 (unsent_nonneg _) Hl1') as G5.
    destruct (Nat.ltb (tid_of th) (c_ntask c)); lia.
Qed.

Lemma TW_le_none c th th' :
  prewrapb th' = false -> unsentb th' = false -> holdtaskb th' = false -> TW_le c th th'.
Proof. intros H1 H2 H3. unfold TW_le. rewrite H1, H2, H3. repeat split; discriminate. Qed.

Lemma TW_le_same c th th' :
  pc th' = pc th -> l_nil th' = l_nil th -> l_ok th' = l_ok th -> tid_of th' = tid_of th -> TW_le c th th'.
Proof.
  intros E1 E2 E3 E4. unfold TW_le, prewrapb, unsentb, holdtaskb, at_recv. rewrite E1, E2, E3, E4.
  split; [intros H; now split|]. split; [intros H; now split|].
  intros H. left. split; [exact H|]. split; [reflexivity|auto].
Qed.

(* a step that only rewrites the entry of thread t (cancellation, timer, end of the user function) *)
Lemma RP_local c c' a t th th' obs g :
  RP c a -> invN c -> lookup t (c_thr c) = Some th ->
  apply_out c t (mkOut (c_sh c) (Some th') None None WkNone g) = Some (c', obs) ->
  (forall l m, l = BMUn \/ l = GMUn -> lkflag l m (pc th') = lkflag l m (pc th)) ->
  TW_le c th th' ->
  invN c' /\ RP c' a.
Proof.
  intros HR HN Hl Ha Hf Htw.
  destruct (apply_out_fields c t _ c' obs Ha) as (Fpar & Fsh & Fnt & Fgh & Fnx).
  destruct (apply_out_tbl c t th _ c' obs HN Hl Ha (or_introl eq_refl)) as [Htb HN'].
  split; [exact HN'|].
  apply (PL_same c c' a a t th _ HR HN Hl Htb (evolves_refl _ _) (lk_frame_refl _ _)); try reflexivity.
  - exact Fnt.
  - rewrite Fsh. cbn. auto.
  - cbn. discriminate.
  - cbn. discriminate.
  - cbn [o_th]. intros x E. injection E as <-. split; [|exact Htw].
    apply (LK_keep a t th _ (proj1 (p_thr _ _ HR t th Hl)) Hf).
  - cbn. discriminate.
Qed.

(* ====================== the step lemma ====================== *)
Definition Pused (c : pcfg) (a : ast) : Prop := forall t', c_next c <= t' -> a_used a t' = false.

Lemma Pused_step c c' a t acts th :
  invN c -> lookup t (c_thr c) = Some th -> c_next c <= c_next c' -> Pused c a ->
  Pused c' (aupds dsc_Pool a (map (mkEv t) acts)).
Proof.
  intros HN Hl Hle Hu t' Ht'. destruct (lk_frame_aupds dsc_Pool t acts a) as [_ H].
  pose proof (n_lt _ HN _ _ Hl). rewrite H by nlia. apply Hu. nlia.
Qed.

Lemma conj3 (A B C : Prop) : A /\ C -> B -> A /\ B /\ C.
Proof. tauto. Qed.

Ltac okp_tac LKt Epc :=
  first [ apply ok_atomic; reflexivity | apply ok_const; reflexivity
        | eapply ok_locked; [reflexivity|exact LKt|first [left; reflexivity|right; reflexivity]
                            |rewrite Epc; cbn; first [reflexivity|left; reflexivity|right; reflexivity]] ].
Ltac oksP_tac LKt Epc :=
  repeat (constructor; [eexists _, _, _; split; [reflexivity|okp_tac LKt Epc]|]); try constructor.

Ltac tw1 :=
  let H := fresh "H" in intros H;
  first [ solve [rewrite ?andb_false_r in H; discriminate H]
        | solve [split; [first [exact H|reflexivity]|reflexivity]]
        | solve [split; [|reflexivity];
                 repeat match goal with |- context [l_ok ?x] => destruct (l_ok x) eqn:? end; cbn in *; congruence]
        | solve [left; split; [first [exact H|assumption]|split; [reflexivity|let X := fresh in intros X; discriminate X]]]
        | solve [right; split; [reflexivity|match goal with E : s_q _ = _ |- _ => rewrite E; left; reflexivity end]] ].
Ltac twle_tac Epc :=
  unfold TW_le, prewrapb, unsentb, holdtaskb, at_recv; cbn; rewrite ?Epc; cbn;
  split; [tw1|split; tw1].

Section Params.
  Variable P : params.
  Hypothesis Hfixc : i_fixc P = true.

  Definition R_Pool (c : pcfg) (a : ast) : Prop := preach P c /\ invN c /\ Pused c a /\ RP c a.

  Lemma pool_Hstep2 c a e c' :
    R_Pool c a -> pstep_cfg c e = Some c' ->
    all_ok dsc_Pool a (emit_Pool c e) /\ R_Pool c' (aupds dsc_Pool a (emit_Pool c e)).
  Proof.
    intros (Hreach & HN & HU & HR) Hs.
    pose proof (preach_step P c e c' Hreach Hs) as Hreach'.
    assert (Vpar : c_par c = P).
    { revert Hreach. clear. intros Hr. revert c Hr. apply preach_ind; [reflexivity|].
      intros c0 e0 c1 H0 Hs. apply pstep_cfg_inv in Hs. destruct e0 as [t op|t ch|t|t|t].
      - destruct Hs as (_ & _ & -> & _). exact H0.
      - destruct Hs as (th & o & obs & _ & _ & Ha). destruct (apply_out_fields _ _ _ _ _ Ha) as (Fp & _). congruence.
      - destruct Hs as (th & _ & _ & ->). exact H0.
      - destruct Hs as (th & _ & _ & ->). exact H0.
      - destruct Hs as (th & obs & _ & _ & Ha). destruct (apply_out_fields _ _ _ _ _ Ha) as (Fp & _). congruence. }
    pose proof (linv_reach P c Hreach) as HL.
    apply pstep_cfg_inv in Hs. destruct e as [t op|t ch|t|t|t].
    - (* CALL *)
      destruct Hs as (Hl & Hb & -> & Hid). cbn [emit_Pool aupds fold_left map all_ok].
      split; [exact I|]. split; [exact Hreach'|].
      assert (Hlt : t < c_next c) by (pose proof (n_base _ HN); lia).
      split; [|split; [exact HU|]].
      { constructor; cbn [c_thr c_next c_par].
        - apply nodup_spawn; [exact (n_nodup _ HN)|exact Hl].
        - intros x y Hy. destruct (Nat.eq_dec x t) as [->|Hne]; [exact Hlt|].
          rewrite LockedProof.lookup_spawn_other in Hy by exact Hne. exact (n_lt _ HN _ _ Hy).
        - exact (n_base _ HN). }
      constructor; cbn [c_thr c_sh c_ntask].
      + intros t' l m Hl' Hx. apply (p_idle _ _ HR); [|exact Hx].
        destruct (Nat.eq_dec t' t) as [->|Hne]; [exact Hl|].
        now rewrite LockedProof.lookup_spawn_other in Hl' by exact Hne.
      + intros k Hk. apply (p_fresh _ _ HR). destruct op; lia.
      + exact (p_q _ _ HR).
      + intros t' th2 Hl'. destruct (Nat.eq_dec t' t) as [->|Hne].
        * rewrite (LockedProof.lookup_spawn_same _ _ _ Hl) in Hl'. injection Hl' as <-. split.
          -- intros l m Hx. rewrite (p_idle _ _ HR t l m Hl Hx).
             destruct op; destruct Hx as [-> | ->]; destruct m; reflexivity.
          -- destruct op; unfold TW_ok, prewrapb, unsentb, holdtaskb; cbn; repeat split; try discriminate.
             intros _. subst id. apply (p_fresh _ _ HR). lia.
        * rewrite LockedProof.lookup_spawn_other in Hl' by exact Hne. exact (p_thr _ _ HR t' th2 Hl').
    - (* STEP *)
      destruct Hs as (th & o & obs & Hl & Hp & Ha).
      cbn [emit_Pool]. rewrite Hl.
      destruct (apply_out_fields c t o c' obs Ha) as (Fpar & Fsh & Fnt & Fgh & Fnx).
      enough (Hgoal : all_ok dsc_Pool a (map (mkEv t) (acts_Pool c th ch)) /\ invN c' /\
                      RP c' (aupds dsc_Pool a (map (mkEv t) (acts_Pool c th ch)))).
      { destruct Hgoal as (G1 & G2 & G3). split; [exact G1|]. split; [exact Hreach'|]. split; [exact G2|]. split; [|exact G3].
        apply (Pused_step c c' a t _ th HN Hl); [|exact HU]. rewrite Fnx. destruct (o_spawn o); nlia. }
      rewrite Vpar in Hp.
      pstep_split Hp Epc.
      all: unfold unwind, back in Ha.
      all: ifs_in Ha.
      all: unfold acts_Pool; rewrite Epc; cbn [pc].
      all: repeat match goal with H : ?x = _ |- context [if ?x then _ else _] => rewrite H end.
      all: pose proof (proj1 (p_thr _ _ HR t th Hl)) as LKt.
      all: match goal with Ha : apply_out _ _ ?o = Some _ |- _ =>
             destruct (apply_out_tbl c t th o c' obs HN Hl Ha) as [Htb HN'];
               [first [left; reflexivity
                      | right; let x := fresh in let E := fresh in intros x E; first [discriminate E | injection E as <-; reflexivity]]|]
           end.
      all: apply conj3; [|exact HN'].
      all: try discriminate Hfixc.
      all: try solve [
        match goal with
        (* accesses only *)
        | Ha : apply_out _ _ ?o = Some _ |- all_ok _ _ (map _ ?accs) /\ _ =>
          apply ps_same; [oksP_tac LKt Epc|];
          apply (PL_same c c' a a t th o HR HN Hl Htb (evolves_refl _ _) (lk_frame_refl _ _));
            [reflexivity|reflexivity|exact Fnt
            |rewrite Fsh; unfold unlock_state; cbn;
               repeat match goal with |- context [if ?b then _ else _] => destruct b end; cbn;
               let k := fresh in let Hk := fresh in intros k Hk; first [exact Hk
                 | match goal with H : s_q _ = _ |- _ => rewrite H; right; exact Hk end]
            |cbn; discriminate
            |cbn [o_th]; first [let E := fresh in intros E; discriminate E
                 | let l := fresh "l" in let m := fresh "m" in let Hx := fresh in
                   intros _ l m Hx; rewrite (LKt l m Hx), Epc; destruct Hx as [-> | ->]; destruct m; reflexivity]
            |cbn [o_th]; let x := fresh in let E := fresh in intros x E; first [discriminate E
                 | injection E as <-; split;
                   [apply (LK_keep a t th _ LKt); let l := fresh "l" in let m := fresh "m" in let Hx := fresh in
                    intros l m Hx; cbn; rewrite Epc; destruct Hx as [-> | ->]; destruct m; reflexivity
                   |twle_tac Epc]]
            |cbn [o_spawn]; let w := fresh in let E := fresh in intros w E; first [discriminate E | injection E as <-; reflexivity]]
        end ].
      (* Lock / RLock *)
      all: try solve [
        match goal with
        | Ha : apply_out _ _ ?o = Some _ |- all_ok _ _ (map _ [Acq ?l ?m]) /\ _ =>
          apply ps_acq;
            [first [apply (free_B_excl c a HR HL); assumption | apply (free_B_shared c a HR HL); assumption
                   | apply (free_G_excl c a HR HL); assumption | apply (free_G_shared c a HR HL); assumption]|];
          apply (PL_same c c' a (st_acq dsc_Pool a t l m) t th o HR HN Hl Htb (evolves_acq a t l m) (lk_frame_acq a t l m));
            [reflexivity|intros; apply seen_acq_P|exact Fnt
            |rewrite Fsh; unfold unlock_state; cbn;
               repeat match goal with |- context [if ?b then _ else _] => destruct b end; cbn;
               let k := fresh in let Hk := fresh in intros k Hk; first [exact Hk
                 | match goal with H : s_q _ = _ |- _ => rewrite H; right; exact Hk end]
            |cbn; discriminate
            |cbn [o_th]; first [let E := fresh in intros E; discriminate E
                 | let l := fresh "l" in let m := fresh "m" in let Hx := fresh in
                   intros _ l m Hx; rewrite (LKt l m Hx), Epc; destruct Hx as [-> | ->]; destruct m; reflexivity]
            |cbn [o_th]; let x := fresh in let E := fresh in intros x E; first [discriminate E
                 | injection E as <-; split;
                   [apply (LK_acq a t th _ l m LKt); let l0 := fresh "l" in let m0 := fresh "m" in let Hx := fresh in
                    intros l0 m0 Hx; cbn; rewrite Epc; destruct Hx as [-> | ->]; destruct m0; reflexivity
                   |twle_tac Epc]]
            |cbn [o_spawn]; let w := fresh in let E := fresh in intros w E; first [discriminate E | injection E as <-; reflexivity]]
        end ].
      (* Unlock / RUnlock, possibly after accesses *)
      all: try solve [
        match goal with
        | Ha : apply_out _ _ ?o = Some _ |- all_ok _ _ (map _ ?L) /\ _ =>
          let go accs l m :=
            apply (ps_rel c' a t accs l m);
              [oksP_tac LKt Epc
              |first [rewrite (LKt l m (or_introl eq_refl))|rewrite (LKt l m (or_intror eq_refl))]; rewrite Epc; reflexivity
              |apply (PL_same c c' a (st_rel dsc_Pool a t l m) t th o HR HN Hl Htb (evolves_rel a t l m) (lk_frame_rel a t l m));
                [intros; apply lst_rel_P|reflexivity|exact Fnt
            |rewrite Fsh; unfold unlock_state; cbn;
               repeat match goal with |- context [if ?b then _ else _] => destruct b end; cbn;
               let k := fresh in let Hk := fresh in intros k Hk; first [exact Hk
                 | match goal with H : s_q _ = _ |- _ => rewrite H; right; exact Hk end]
                |cbn; discriminate
                |cbn [o_th]; first [let E := fresh in intros E; discriminate E
                 | let l := fresh "l" in let m := fresh "m" in let Hx := fresh in
                   intros _ l m Hx; rewrite (LKt l m Hx), Epc; destruct Hx as [-> | ->]; destruct m; reflexivity]
                |cbn [o_th]; let x := fresh in let E := fresh in intros x E; first [discriminate E
                     | injection E as <-; split;
                       [apply (LK_rel a t th _ l m LKt); let l0 := fresh "l" in let m0 := fresh "m" in let Hx := fresh in
                        intros l0 m0 Hx; cbn; rewrite Epc; destruct Hx as [-> | ->]; destruct m0; reflexivity
                       |twle_tac Epc]]
                |cbn [o_spawn]; let w := fresh in let E := fresh in intros w E; first [discriminate E | injection E as <-; reflexivity]]] in
          match L with
          | [Rel ?l ?m] => go (@nil action) l m
          | [?b1; Rel ?l ?m] => go [b1] l m
          | [?b1; ?b2; Rel ?l ?m] => go [b1; b2] l m
          | [?b1; ?b2; ?b3; Rel ?l ?m] => go [b1; b2; b3] l m
          end
        end ].
      (* go b.goroutine(id) *)
      all: try solve [
        match goal with
        | Ha : apply_out _ _ ?o = Some _ |- all_ok _ _ (map _ ?L) /\ _ =>
          let go accs :=
            apply (ps_fork c' a t accs (c_next c));
              [oksP_tac LKt Epc
              |apply HU; lia
              |pose proof (n_lt _ HN _ _ Hl); lia
              |apply (PL_same c c' a a t th o HR HN Hl Htb (evolves_refl _ _) (lk_frame_refl _ _));
                [reflexivity|reflexivity|exact Fnt
            |rewrite Fsh; unfold unlock_state; cbn;
               repeat match goal with |- context [if ?b then _ else _] => destruct b end; cbn;
               let k := fresh in let Hk := fresh in intros k Hk; first [exact Hk
                 | match goal with H : s_q _ = _ |- _ => rewrite H; right; exact Hk end]
                |cbn; discriminate
                |cbn [o_th]; first [let E := fresh in intros E; discriminate E
                 | let l := fresh "l" in let m := fresh "m" in let Hx := fresh in
                   intros _ l m Hx; rewrite (LKt l m Hx), Epc; destruct Hx as [-> | ->]; destruct m; reflexivity]
                |cbn [o_th]; let x := fresh in let E := fresh in intros x E; first [discriminate E
                     | injection E as <-; split;
                       [apply (LK_keep a t th _ LKt); let l := fresh "l" in let m := fresh "m" in let Hx := fresh in
                        intros l m Hx; cbn; rewrite Epc; destruct Hx as [-> | ->]; destruct m; reflexivity
                       |twle_tac Epc]]
                |cbn [o_spawn]; let w := fresh in let E := fresh in intros w E; first [discriminate E | injection E as <-; reflexivity]]] in
          match L with
          | [Fork _] => go (@nil action)
          | [?b1; Fork _] => go [b1]
          end
        end ].
      (* tw.t.Run(ctx): the worker reads the wrapper it received *)
      all: try solve [
        match goal with
        | Ha : apply_out _ _ ?o = Some _ |- all_ok _ _ (map _ [Read (TWn _)]) /\ _ =>
          apply ps_same;
            [constructor; [|constructor]; eexists _, _, _; split; [reflexivity|];
             apply (ok_TWread c a t th HR Hl); unfold holdtaskb, at_recv; rewrite Epc; reflexivity|];
          apply (PL_same c c' a a t th o HR HN Hl Htb (evolves_refl _ _) (lk_frame_refl _ _));
            [reflexivity|reflexivity|exact Fnt
            |rewrite Fsh; cbn; let k := fresh in let Hk := fresh in intros k Hk; exact Hk
            |cbn; discriminate
            |cbn [o_th]; let E := fresh in intros E; discriminate E
            |cbn [o_th]; let x := fresh in let E := fresh in intros x E; injection E as <-; split;
               [apply (LK_keep a t th _ LKt); let l := fresh "l" in let m := fresh "m" in let Hx := fresh in
                intros l m Hx; cbn; rewrite Epc; destruct Hx as [-> | ->]; destruct m; reflexivity
               |twle_tac Epc]
            |cbn [o_spawn]; let w := fresh in let E := fresh in intros w E; discriminate E]
        end ].
      (* the receive *)
      all: try solve [
        match goal with
        | Ha : apply_out _ _ ?o = Some _ |- all_ok _ _ (map _ [SAcq QUEUEo]) /\ _ =>
          apply ps_sacq;
          eapply (PL_recv c c' a (st_sacq dsc_Pool a t QUEUEo) t th _ o HR HN Hl Htb (evolves_sacqP a t QUEUEo) (lk_frame_sacq a t QUEUEo));
            [reflexivity
            |let k := fresh in let t0 := fresh in let H := fresh in
             intros k t0 H; cbn [a_seen a_lst st_sacq]; rewrite H, via_TW, Nat.eqb_refl, name_eqb_refl; now rewrite orb_true_r
            |reflexivity|exact Fnt|exact Fsh|reflexivity|reflexivity|reflexivity|exact Epc|reflexivity|reflexivity|reflexivity]
        end ].
      (* the send *)
      all: try solve [
        match goal with
        | Ha : apply_out _ _ ?o = Some _ |- all_ok _ _ (map _ [Read QUEUEf; SRel QUEUEo]) /\ _ =>
          apply (ps_srel c' a t [Read QUEUEf] QUEUEo); [oksP_tac LKt Epc|];
          eapply (PL_send c c' a (st_srel dsc_Pool a t QUEUEo) t th _ o HR HN Hl Htb (evolves_srelP a t QUEUEo) (lk_frame_srel a t QUEUEo));
            [unfold unsentb; rewrite Epc; reflexivity
            |let k := fresh in let t0 := fresh in let H := fresh in let E := fresh in
             intros k t0 H E; cbn [a_lst st_srel]; rewrite H, via_TW, E, Nat.eqb_refl, name_eqb_refl; reflexivity
            |let x := fresh in let H := fresh in intros x H; cbn [a_lst st_srel]; now rewrite H
            |reflexivity|exact Fnt
            |rewrite Fsh; cbn; let k := fresh in let Hk := fresh in intros k Hk;
             first [left; exact Hk | apply in_app_or in Hk; destruct Hk as [Hk|[<-|[]]]; [left; exact Hk|right; reflexivity]]
            |cbn; let r := fresh in let k := fresh in let E := fresh in intros r k E; first [discriminate E|injection E as _ <-; reflexivity]
            |reflexivity|reflexivity|reflexivity|exact Epc]
        end ].
      (* task = &taskWrapper{t: task} *)
      pose proof (tall_lookup _ _ _ _ (x_loc _ _ (inv3_reach P 0 c Hreach)) Hl) as [_ L5b].
      rewrite Epc in L5b. cbn in L5b.
      assert (Hpre : prewrapb th = true) by (unfold prewrapb; rewrite Epc, L5b; reflexivity).
      destruct (wrap_facts P c t th Hreach Hl Hpre) as [Hlt Huniq].
      destruct (p_thr _ _ HR t th Hl) as [_ (T1 & _)].
      assert (Hok : accs_ok dsc_Pool a t [Write (TWn (tid_of th))]).
      { constructor; [|constructor]. exists (TWn (tid_of th)), true, false. split; [reflexivity|].
        unfold acc_ok. rewrite dsc_TW, (T1 Hpre). exact I. }
      apply (ps_touch c' a t _ Hok).
      match goal with Ha : apply_out _ _ ?o = Some _ |- _ =>
        eapply (PL_wrap c c' a _ t th _ o HR HN Hl Htb (evolves_touchP a t _ Hok) (lk_frame_touch a t _) Hpre Hlt Huniq)
      end.
      + cbn [a_lst st_touch acts_locs flat_map access_of app memn existsb].
        rewrite (T1 Hpre), via_TW, name_eqb_refl. reflexivity.
      + intros k Hk. cbn [a_lst st_touch acts_locs flat_map access_of app memn existsb].
        destruct (a_lst a (TWn k)); try reflexivity. rewrite via_TW.
        assert (E : name_eqb (TWn k) (TWn (tid_of th)) = false).
        { destruct (name_eqb (TWn k) (TWn (tid_of th))) eqn:E; [|reflexivity]. apply name_eqb_eq in E.
          injection E as E. now contradiction Hk. }
        now rewrite E.
      + reflexivity.
      + exact Fnt.
      + exact Fsh.
      + reflexivity.
      + reflexivity.
      + reflexivity.
      + reflexivity.
      + reflexivity.
      + reflexivity.
    - (* CANCEL *)
      destruct Hs as (th & Hl & _ & ->). cbn [emit_Pool aupds fold_left map all_ok].
      split; [exact I|]. split; [exact Hreach'|].
      assert (Ha : exists obs, apply_out c t (mkOut (c_sh c) (Some (set_cancel true th)) None None WkNone []) =
                               Some (with_thr c (update t (set_cancel true th) (c_thr c)), obs))
        by (eexists; unfold apply_out; cbn; reflexivity).
      destruct Ha as [obs Ha].
      destruct (RP_local c _ a t th (set_cancel true th) obs [] HR HN Hl Ha) as [HN' HR'].
      + reflexivity.
      + now apply TW_le_same.
      + split; [exact HN'|]. split; [exact HU|exact HR'].
    - (* FIRE *)
      destruct Hs as (th & Hl & _ & ->). cbn [emit_Pool aupds fold_left map all_ok].
      split; [exact I|]. split; [exact Hreach'|].
      set (th' := if is_parked th then goto WCaseTimer (set_tm TmDead th) else set_tm TmFired th) in *.
      assert (Ha : exists obs, apply_out c t (mkOut (c_sh c) (Some th') None None WkNone []) =
                               Some (with_thr c (update t th' (c_thr c)), obs))
        by (eexists; unfold apply_out; cbn; reflexivity).
      destruct Ha as [obs Ha].
      destruct (RP_local c _ a t th th' obs [] HR HN Hl Ha) as [HN' HR']; unfold th' in *.
      + destruct (is_parked th) eqn:Ep; [|reflexivity]. apply is_parked_pc in Ep. cbn. rewrite Ep. reflexivity.
      + destruct (is_parked th) eqn:Ep; [|now apply TW_le_same].
        apply is_parked_pc in Ep. apply TW_le_none; unfold prewrapb, unsentb, holdtaskb; cbn; now rewrite ?andb_false_r.
      + split; [exact HN'|]. split; [exact HU|exact HR'].
    - (* FINISH *)
      destruct Hs as (th & obs & Hl & Epc & Ha). cbn [emit_Pool aupds fold_left map all_ok].
      split; [exact I|]. split; [exact Hreach'|].
      destruct (RP_local c c' a t th _ obs _ HR HN Hl Ha) as [HN' HR'].
      + intros l m Hx. cbn. rewrite Epc. destruct Hx as [-> | ->]; destruct m; reflexivity.
      + apply TW_le_none; unfold prewrapb, unsentb, holdtaskb; cbn; now rewrite ?andb_false_r.
      + split; [exact HN'|]. split; [|exact HR'].
        intros t' Ht'. apply HU. destruct (apply_out_fields c t _ c' obs Ha) as (_ & _ & _ & _ & Fnx). cbn in Fnx. lia.
  Qed.

  Lemma R_Pool_init : R_Pool (pinit P) a0.
  Proof.
    split; [apply preach_init|]. split; [|split].
    - constructor; cbn; [constructor|intros t th H; discriminate H|lia].
    - intros t' _. reflexivity.
    - constructor; cbn.
      + reflexivity.
      + reflexivity.
      + intros k [].
      + intros t th H. discriminate H.
  Qed.

  (* every access of the trace is an instance of a row of taskpool_table *)
  Lemma emit_instances_Pool c e : Forall (fun ev => instance_b taskpool_table (act ev) = true) (emit_Pool c e).
  Proof.
    destruct e as [t op|t ch|t|t|t]; cbn [emit_Pool]; try constructor.
    destruct (lookup t (c_thr c)) as [th|]; [|constructor].
    unfold acts_Pool. destruct (pc th); cbn [map];
      repeat match goal with |- context [if ?b then _ else _] => destruct b end;
      repeat match goal with |- context [match ?b with _ => _ end] => destruct b end;
      repeat constructor.
  Qed.

  Theorem pool_trace_drf_lemma evs c :
    pexecs P evs = Some c ->
    wf (pool_trace P evs) /\ instances_of taskpool_table (pool_trace P evs) /\ ~ race (pool_trace P evs).
  Proof.
    intros Hex. unfold pexecs in Hex.
    destruct (model_trace_drf dsc_Pool _ _ pstep_cfg emit_Pool R_Pool pool_Hstep2 _ evs _ R_Pool_init Hex) as [Hwf Hno].
    split; [exact Hwf|]. split; [|exact Hno].
    apply instances_of_forall. apply trace_forall. exact emit_instances_Pool.
  Qed.
End Params.

(* ====================== coverage of the footprint table ====================== *)
Definition P0_Pool : params := mkPar 1 1 2 1 0 1 true true 10 true.
(* the actions of the statement at p, for a representative thread record and both kinds of select choice *)
Definition acts0_Pool (p : ppc) : list action :=
  acts_Pool (pinit P0_Pool) (goto p (thr0 p)) C0 ++ acts_Pool (pinit P0_Pool) (goto p (thr0 p)) (CSend None).

(* a `defer ...Unlock()` contributes the Unlock that the function's return emits *)
Definition cover_acts_Pool (p : ppc) : list action :=
  acts0_Pool p ++
  match p with
  | AlDefer => [Rel BMUn Shared]
  | TdDefer | RdDefer | GaDefer => [Rel GMUn Excl]
  | IiDefer | Z1Defer | Z2Defer => [Rel GMUn Shared]
  | _ => []
  end.

(* the footprint tool keys the channel operand of a select case by the case's communication statement; the
   model evaluates the operands at the `select` step *)
Definition keys_of_pc_Pool (p : ppc) : list (string * string) :=
  map (fun st => (func_of_pc_Pool p, st)) (rstmts_of_pc_Pool p) ++
  match p with
  | TsSelect => [("Submit", "OnDemandBlockTaskPool.trySubmit: b.queue <- task")]
  | WSelect => [("goroutine", "<-b.interruptCtx.Done()"); ("goroutine", "task, ok := <-b.queue")]
  | _ => []
  end.

Lemma acts_cover_table_Pool :
  forallb (fun p => forallb (fun k => forallb (fun b => action_inb b (cover_acts_Pool p))
                                              (stmt_actions taskpool_table (fst k) (snd k)))
                            (keys_of_pc_Pool p)) all_pcs_Pool = true.
Proof. vm_compute. reflexivity. Qed.

(* the rows (memory accesses, lock operations) that are the statement of NO program counter: the methods the
   interleaving model does not contain — States() and its ticker goroutine States$go1, internalState() *)
Definition keys2_Pool : list (string * string) := flat_map keys_of_pc_Pool all_pcs_Pool.
Lemma unmatched_rows_Pool :
  nodup string_dec
    (map r_func (filter (fun r => match actions_of_row r with [] => false | _ => true end &&
                                  negb (existsb (fun k => C15Bridge.row_is (fst k) (snd k) r) keys2_Pool)) taskpool_table))
  = ["States"; "internalState"; "States$go1"].
Proof. vm_compute. reflexivity. Qed.

(* ====================== non-vacuity: a concrete run with three goroutines ====================== *)
(* client 0: Start() to completion (b.totalGo += n under b.mutex.Lock, go b.goroutine -> worker 10);
   client 1: Submit(task 0) up to the end of allowToCreateGoroutine (wraps the task, sends it into the buffered
   queue, reads b.totalGo under b.mutex.RLock); worker 10: receives the task and calls tw.t.Run *)
Definition pool_example_evs : list pev :=
  [PCall 0 OpStart] ++ repeat (PStep 0 C0) 19 ++ [PCall 1 (OpSubmit 0 false)] ++ repeat (PStep 1 C0) 12 ++
  [PStep 1 (CSend None)] ++ repeat (PStep 1 C0) 6 ++
  repeat (PStep 10 C0) 3 ++ [PStep 10 CQueue] ++ repeat (PStep 10 C0) 11.

Lemma pool_example_trace_eq :
  pool_trace P0_Pool pool_example_evs =
  [ mkEv 0 (ARead STATEn); mkEv 0 (ARead STATEn); mkEv 0 (ARead STATEn); mkEv 0 (ARmw STATEn);
    mkEv 0 (Read INITGOn); mkEv 0 (Read MAXGOn); mkEv 0 (Read INITGOn); mkEv 0 (Read QUEUEf); mkEv 0 (Read INITGOn);
    mkEv 0 (Acq BMUn Excl); mkEv 0 (Read TOTALn); mkEv 0 (Write TOTALn); mkEv 0 (Rel BMUn Excl);
    mkEv 0 (ARmw IDn); mkEv 0 (Fork 10); mkEv 0 (ARmw STATEn);
    mkEv 1 (Write (TWn 0)); mkEv 1 (ARead STATEn); mkEv 1 (ARead STATEn); mkEv 1 (ARmw STATEn); mkEv 1 (ARmw STATEn);
    mkEv 1 (Read QUEUEf); mkEv 1 (SRel QUEUEo); mkEv 1 (Acq BMUn Shared); mkEv 1 (Read QUEUEf); mkEv 1 (Read TOTALn);
    mkEv 1 (Read MAXGOn); mkEv 1 (Read RATEn); mkEv 1 (Rel BMUn Shared);
    mkEv 10 (Read ICTXn); mkEv 10 (Read QUEUEf); mkEv 10 (SAcq QUEUEo); mkEv 10 (Read TGROUPn);
    mkEv 10 (Acq GMUn Shared); mkEv 10 (Read MPf); mkEv 10 (Read MPEn); mkEv 10 (Rel GMUn Shared);
    mkEv 10 (ARmw RUNn); mkEv 10 (Read ICTXn); mkEv 10 (Read (TWn 0)) ].
Proof. vm_compute. reflexivity. Qed.

(* `b.totalGo += n` of Start (index 11) happens-before `b.totalGo < b.maxGo` of Submit (25): Unlock (12) ->
   RLock (23); the write of the wrapper (16) happens-before the worker's tw.t (39): send (22) -> receive (31) *)
Lemma pool_example_lemma :
  let tr := pool_trace P0_Pool pool_example_evs in
  (exists c, pexecs P0_Pool pool_example_evs = Some c) /\
  ev_at tr 11 (mkEv 0 (Write TOTALn)) /\ ev_at tr 25 (mkEv 1 (Read TOTALn)) /\ hb tr 11 25 /\
  ev_at tr 16 (mkEv 1 (Write (TWn 0))) /\ ev_at tr 39 (mkEv 10 (Read (TWn 0))) /\ hb tr 16 39 /\
  wf tr /\ ~ race tr.
Proof.
  cbn zeta.
  assert (Hex : exists c, pexecs P0_Pool pool_example_evs = Some c) by (eexists; vm_compute; reflexivity).
  split; [exact Hex|]. destruct Hex as (c & Hex).
  destruct (pool_trace_drf_lemma P0_Pool eq_refl _ _ Hex) as (Hwf & _ & Hno).
  assert (Hpo : forall i j a b, i < j -> ev_at (pool_trace P0_Pool pool_example_evs) i a ->
                  ev_at (pool_trace P0_Pool pool_example_evs) j b -> HB.tid a = HB.tid b ->
                  hb (pool_trace P0_Pool pool_example_evs) i j).
  { intros i j a b Hlt Ha Hb Ht. apply hb_po. eapply po_intro; eassumption. }
  assert (Hsw : forall i j a b, i < j -> ev_at (pool_trace P0_Pool pool_example_evs) i a ->
                  ev_at (pool_trace P0_Pool pool_example_evs) j b -> syncs a b ->
                  hb (pool_trace P0_Pool pool_example_evs) i j).
  { intros i j a b Hlt Ha Hb Hs. apply hb_sw. split; [exact Hlt|]. exists a, b. repeat split; assumption. }
  rewrite pool_example_trace_eq in *.
  split; [reflexivity|]. split; [reflexivity|]. split.
  { apply hb_trans with 12; [eapply Hpo; [|reflexivity|reflexivity|reflexivity]; apply Nat.ltb_lt; reflexivity|].
    apply hb_trans with 23; [eapply Hsw; [|reflexivity|reflexivity|]; [apply Nat.ltb_lt; reflexivity|split; [reflexivity|now left]]|].
    eapply Hpo; [|reflexivity|reflexivity|reflexivity]; apply Nat.ltb_lt; reflexivity. }
  split; [reflexivity|]. split; [reflexivity|]. split.
  { apply hb_trans with 22; [eapply Hpo; [|reflexivity|reflexivity|reflexivity]; apply Nat.ltb_lt; reflexivity|].
    apply hb_trans with 31; [eapply Hsw; [|reflexivity|reflexivity|]; [apply Nat.ltb_lt; reflexivity|reflexivity]|].
    eapply Hpo; [|reflexivity|reflexivity|reflexivity]; apply Nat.ltb_lt; reflexivity. }
  split; assumption.
Qed.
