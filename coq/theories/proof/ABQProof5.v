(* ABQProof (part 5): the lemmas of parts 2-4 restated for every configuration reachable from
   the constructor's state by ANY event sequence (CALL / STEP / CANCEL in any order) — the form in
   which props/C07_abq.v and props/C09_abq.v quote them. *)
From Ekit Require Import Common Conc ABQModel ABQProof ABQProof2 ABQProof3 ABQProof4.
From Coq Require Import ZifyBool Arith PeanoNat.

Definition abq_reach (cap : Z) (c : abq_cfg) : Prop :=
  exists evs, exec abq_next (abq_init cap) evs = Some c.

Lemma abq_reach_inv cap c : 1 <= cap -> abq_reach cap c -> abq_inv cap c.
Proof. intros Hcap [evs H]. exact (abq_inv_reachable_lemma cap Hcap evs c H). Qed.

Lemma abq_reach_step cap c e c' : abq_reach cap c -> abq_next c e = Some c' -> abq_reach cap c'.
Proof.
  intros [evs H] Hn. exists (evs ++ [e]). rewrite exec_app, H. cbn. rewrite Hn. reflexivity.
Qed.

(* ---------------- C07 ---------------- *)
Lemma abq_count_bounded_lemma cap c : 1 <= cap -> abq_reach cap c ->
  0 <= q_count c <= cap /\ 0 <= abs_len c <= cap /\ Z.of_nat (length (abq_abs c)) = abs_len c.
Proof. intros Hcap R. apply (abq_count_bounds_inv cap c (abq_reach_inv cap c Hcap R)). Qed.

Lemma abq_ring_consistent_lemma cap c : 1 <= cap -> abq_reach cap c -> q_w c = false ->
  0 <= q_head c < cap /\ 0 <= q_tail c < cap /\ 0 <= q_count c <= cap /\
  q_tail c = (q_head c + q_count c) mod cap /\
  abq_abs c = ring (q_data c) (q_head c) (q_count c).
Proof. intros Hcap R. apply (abq_ring_consistent_inv cap Hcap c (abq_reach_inv cap c Hcap R)). Qed.

(* the same inside the writer's critical section, in the writer's current view *)
Lemma abq_ring_view_lemma cap c : 1 <= cap -> abq_reach cap c ->
  cap_of (q_data c) = cap /\
  (cap | q_tail c + count (pc_is ETailInc) (q_thr c) - abs_head c - abs_len c) /\
  0 <= q_head c <= cap /\ 0 <= q_tail c <= cap /\
  (q_head c = cap -> 1 <= count head_hi (q_thr c)) /\
  (q_tail c = cap -> 1 <= count tail_hi (q_thr c)).
Proof.
  intros Hcap R. pose proof (abq_reach_inv cap c Hcap R) as I. inv_facts I c.
  assert (count head_hi (q_thr c) <= count in_wcs (q_thr c)) by (apply count_sub, sub_head_hi).
  assert (count tail_hi (q_thr c) <= count in_wcs (q_thr c)) by (apply count_sub, sub_tail_hi).
  destruct (q_w c); repeat split; try assumption; lia.
Qed.

Lemma abq_permit_ledger_lemma cap c : 1 <= cap -> abq_reach cap c ->
  s_free (q_enq c) + count held_e (q_thr c) + abs_len c + count owes_e (q_thr c) = cap /\
  s_free (q_deq c) + count held_d (q_thr c) + count owes_d (q_thr c) = abs_len c /\
  0 <= s_free (q_enq c) <= cap /\ 0 <= s_free (q_deq c) <= cap.
Proof. intros Hcap R. apply (abq_ledger_inv cap c (abq_reach_inv cap c Hcap R)). Qed.

Lemma abq_permit_ledger_unlocked_lemma cap c : 1 <= cap -> abq_reach cap c -> q_w c = false ->
  s_free (q_enq c) + count held_e (q_thr c) + q_count c = cap /\
  s_free (q_deq c) + count held_d (q_thr c) = q_count c.
Proof. intros Hcap R. apply (abq_ledger_unlocked_inv cap c (abq_reach_inv cap c Hcap R)). Qed.

Lemma abq_quiescent_lemma cap c : 1 <= cap -> abq_reach cap c -> q_thr c = [] ->
  s_free (q_enq c) = cap - q_count c /\ s_free (q_deq c) = q_count c /\
  s_wait (q_enq c) = [] /\ s_wait (q_deq c) = [] /\ q_w c = false /\ q_r c = 0 /\
  abq_abs c = ring (q_data c) (q_head c) (q_count c) /\ 0 <= q_count c <= cap.
Proof. intros Hcap R. apply (abq_quiescent_inv cap c (abq_reach_inv cap c Hcap R)). Qed.

Lemma abq_linearizable_lemma cap c e c' o : 1 <= cap -> abq_reach cap c ->
  abq_exec1 c e = Some (c', o) -> ev_abs cap c e c'.
Proof.
  intros Hcap R H. exact (proj2 (abq_inv_exec1 cap c e c' o Hcap (abq_reach_inv cap c Hcap R) H)).
Qed.

Lemma abq_return_values_lemma cap c t th c' o r : 1 <= cap -> abq_reach cap c ->
  lookup t (q_thr c) = Some th -> abq_exec1 c (AStep t) = Some (c', o) -> In (t, ORet r) o ->
  ret_ok c th r.
Proof.
  intros Hcap R Hl H Hin. cbn in H. rewrite Hl in H.
  exact (abq_return_inv cap Hcap c t th c' o r (abq_reach_inv cap c Hcap R) Hl H Hin).
Qed.

Lemma abq_ctx_error_lemma cap c t th c' o : 1 <= cap -> abq_reach cap c ->
  lookup t (q_thr c) = Some th -> abq_exec1 c (AStep t) = Some (c', o) -> In (t, ORet RCtx) o ->
  t_lin th = [] /\ abq_abs c' = abq_abs c /\ q_enq c' = q_enq c /\ q_deq c' = q_deq c /\
  g_in c' = g_in c /\ g_out c' = g_out c /\ lookup t (q_thr c') = None.
Proof.
  intros Hcap R Hl H Hin. cbn in H. rewrite Hl in H.
  destruct (abq_ctx_error_inv cap Hcap c t th c' o (abq_reach_inv cap c Hcap R) Hl H Hin)
    as [A [B [C [D [E [F [G _]]]]]]]. auto 10.
Qed.

Lemma abq_fifo_exactly_once_lemma cap c : 1 <= cap -> abq_reach cap c -> g_in c = g_out c ++ abq_abs c.
Proof. intros Hcap R. exact (i_log _ _ (abq_reach_inv cap c Hcap R)). Qed.

Lemma abq_never_panics_lemma cap c e c' o x : 1 <= cap -> abq_reach cap c ->
  abq_exec1 c e = Some (c', o) -> ~ In (x, OPanic) o.
Proof. intros Hcap R. apply (abq_no_panic_inv cap Hcap c e c' o x (abq_reach_inv cap c Hcap R)). Qed.

(* ---------------- C09 ---------------- *)
Lemma abq_stuck_lemma cap c : 1 <= cap -> abq_reach cap c -> stuck c ->
  forall t th, lookup t (q_thr c) = Some th ->
    (t_pc th = EPark \/ t_pc th = DPark) /\
    (t_pc th = DPark -> s_free (q_deq c) = 0 /\ q_count c = 0 /\ abq_abs c = []) /\
    (t_pc th = EPark -> s_free (q_enq c) = 0 /\ q_count c = cap /\ Z.of_nat (length (abq_abs c)) = cap).
Proof. intros Hcap R. apply (stuck_implies_cannot_proceed_inv cap c (abq_reach_inv cap c Hcap R)). Qed.

Lemma abq_parked_lemma cap c t th : 1 <= cap -> abq_reach cap c -> lookup t (q_thr c) = Some th ->
  (t_pc th = EPark -> s_free (q_enq c) = 0 /\ In t (s_wait (q_enq c))) /\
  (t_pc th = DPark -> s_free (q_deq c) = 0 /\ In t (s_wait (q_deq c))).
Proof. intros Hcap R. apply (parked_sees_no_permit cap c t th (abq_reach_inv cap c Hcap R)). Qed.

Lemma abq_cancel_enables_lemma cap c t th : 1 <= cap -> abq_reach cap c ->
  lookup t (q_thr c) = Some th -> t_pc th = EPark \/ t_pc th = DPark ->
  exists c1 c2 c3 o1 p1 p2,
    abq_exec1 c (ACancel t) = Some (c1, o1) /\ In (t, OAt p1) o1 /\
    abq_exec1 c1 (AStep t) = Some (c2, [(t, OAt p2)]) /\
    abq_exec1 c2 (AStep t) = Some (c3, [(t, ORet RCtx)]) /\
    abq_abs c3 = abq_abs c /\ s_free (q_enq c3) = s_free (q_enq c) /\ s_free (q_deq c3) = s_free (q_deq c) /\
    g_in c3 = g_in c /\ g_out c3 = g_out c /\ lookup t (q_thr c3) = None.
Proof.
  intros Hcap R Hl P.
  destruct (cancel_enables_inv cap Hcap c t th (abq_reach_inv cap c Hcap R) Hl P)
    as [c1 [c2 [c3 [o1 [p1 [p2 [A [B [C [D [E [F [G [H [J [K _]]]]]]]]]]]]]]]].
  exists c1, c2, c3, o1, p1, p2. auto 12.
Qed.

(* the steps of a cancelled waiter on its way out never block, whatever the other threads do *)
Lemma abq_error_path_never_blocks_lemma c t th :
  t_pc th = EIfErr \/ t_pc th = ERetErr \/ t_pc th = DIfErr \/ t_pc th = DRetErr ->
  abq_step c t th <> None.
Proof.
  intros P H. destruct (abq_step_none c t th H) as [N|[N|[[[N|N] _]|[[N|N] _]]]];
    destruct P as [P|[P|[P|P]]]; congruence.
Qed.

Lemma abq_capacity_lemma cap c t vs : 1 <= cap -> abq_reach cap c -> q_thr c = [] ->
  s_free (q_enq c) = cap - q_count c /\ s_free (q_deq c) = q_count c /\
  exists c', enqs_alone c t vs = (c', Nat.min (length vs) (Z.to_nat (cap - q_count c))) /\
    (Z.of_nat (length vs) = cap - q_count c ->
     q_thr c' = [] /\ abq_abs c' = abq_abs c ++ vs /\ Z.of_nat (length (abq_abs c')) = cap /\
     exists c'', deqs_alone c' t (Z.to_nat cap) = (c'', abq_abs c ++ vs)).
Proof.
  intros Hcap R Hq. pose proof (abq_reach_inv cap c Hcap R) as I.
  destruct (abq_quiescent_inv cap c I Hq) as [Fe [Fd _]]. split; [exact Fe|]. split; [exact Fd|].
  destruct (enqs_alone_exact cap Hcap t vs c I Hq) as [c' [E [I' P]]].
  exists c'. split; [exact E|]. intros Hlen.
  destruct P as [Q' [A' N']]; [lia|].
  pose proof (abq_count_bounds_inv cap c' I') as [_ [_ L']].
  destruct (abq_quiescent_inv cap c' I' Q') as [_ [_ [_ [_ [W' _]]]]].
  assert (Hl : Z.of_nat (length (abq_abs c')) = cap).
  { rewrite L'. unfold abs_len. rewrite Q'. cbn. lia. }
  split; [exact Q'|]. split; [exact A'|]. split; [exact Hl|].
  destruct (deqs_alone_exact cap Hcap t (Z.to_nat cap) c' I' Q') as [c'' [D _]].
  exists c''. rewrite D. f_equal. rewrite <- A'. apply firstn_all2. lia.
Qed.
