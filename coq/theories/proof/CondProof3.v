(* CondModel (C13), third part: the theorems about the time-out path, Broadcast, recycled nodes,
   the caller's lock and the return values, derived from the invariant of CondProof2.v. *)
From Ekit Require Import Common Conc CondModel CondProof CondProofNodes CondProof2.
From Coq Require Import ZifyBool Arith PeanoNat.

Ltac use_step H p so Hl Hs :=
  apply exec1_step_inv in H; destruct H as (p & so & Hl & Hs & -> & ->).

(* ---------- 3. the time-out path forwards the token whenever a waiter exists ---------- *)
Lemma signal_not_lost_lemma copied evs c t n o c' obs :
  cond_run copied evs = Some c -> lookup t (c_thr c) = Some (LEN (LenWait n)) ->
  cond_exec1 c (EStep t o) = Some (c', obs) ->
  (c_lst c <> [] -> lookup t (c_thr c') = Some (WT_Forward n) /\ g_drop c' = g_drop c) /\
  (c_lst c = [] -> lookup t (c_thr c') = Some (WT_RetErr n) /\ g_drop c' = g_drop c + 1).
Proof.
  intros H Hl Hs. pose proof (f_inv c (full_reachable _ _ _ H)) as I.
  pose proof (size_is_length c t _ I Hl eq_refl eq_refl) as Hsz.
  use_step Hs p so Hl' Hst. rewrite Hl in Hl'. injection Hl' as <-.
  cbn in Hst. destruct (c_size c =? 0) eqn:E; injection Hst as <-; scfg.
  - split; [intros X; exfalso; apply X; destruct (c_lst c); [reflexivity|cbn in Hsz; lia]|].
    intros _. split; [apply (lookup_update_same _ _ _ _ _ Hl)|reflexivity].
  - split; [|intros X; rewrite X in Hsz; cbn in Hsz; lia].
    intros _. split; [apply (lookup_update_same _ _ _ _ _ Hl)|reflexivity].
Qed.

(* notifyNext always finds a real front node ... *)
Lemma front_exists_lemma copied evs c t k :
  cond_run copied evs = Some c -> lookup t (c_thr c) = Some (FT_Ret k) -> c_lst c <> [].
Proof.
  intros H Hl. pose proof (i_front c (f_inv c (full_reachable _ _ _ H))) as F.
  specialize (F t FNeed). apply F. rewrite lookup_pm, Hl. reflexivity.
Qed.

(* ... the node it has chosen is still the front of the list when it unlinks it ... *)
Lemma front_selected_lemma copied evs c t p f :
  cond_run copied evs = Some c -> lookup t (c_thr c) = Some p -> frontof p = FSel f ->
  hd_error (c_lst c) = Some f.
Proof.
  intros H Hl Hp. pose proof (i_front c (f_inv c (full_reachable _ _ _ H))) as F.
  specialize (F t (FSel f)). apply F. rewrite lookup_pm, Hl. cbn. rewrite Hp. reflexivity.
Qed.

(* ... and the send goes to the empty channel of a waiter that has not yet looked at its channel:
   it cannot block, and the token cannot be absorbed by a waiter that gave up *)
Lemma send_target_lemma copied evs c t p f :
  cond_run copied evs = Some c -> lookup t (c_thr c) = Some p -> inflight p = Some f ->
  ~ In f (c_tok c) /\ ~ In f (c_lst c) /\
  exists u pu, lookup u (c_thr c) = Some pu /\ nodest pu = Some (f, PhAwait).
Proof.
  intros H Hl Hp. pose proof (f_nodes c (full_reachable _ _ _ H)) as N.
  assert (Hf : infl (pm inflight (c_thr c)) t f) by (unfold infl; rewrite lookup_pm, Hl; cbn; rewrite Hp; reflexivity).
  destruct (n_infl _ _ _ _ _ _ _ N _ _ Hf) as (A & B & (u & Ho)).
  split; [exact A|]. split; [intros X; exact (n_lst_ntf _ _ _ _ _ _ _ N _ X B)|].
  destruct (own_to_pc _ _ _ _ Ho) as (pu & Hlu & Hpu). eauto.
Qed.

(* the holder of l.mu can always execute its next statement (oracle 0 = "the pool misses"):
   no dead-lock under l.mu, no send on a full channel, no front() of an empty list, no remove of an
   unlinked node *)
Lemma mu_holder_can_step_lemma copied evs c t p :
  cond_run copied evs = Some c -> lookup t (c_thr c) = Some p -> holds_mu p = true ->
  exists c' obs, cond_exec1 c (EStep t 0) = Some (c', obs).
Proof.
  intros H Hl Hm. pose proof (full_reachable _ _ _ H) as F. pose proof (f_nodes c F) as N.
  assert (Hstep : exists so, step_pc c t 0 p = Some so).
  { destruct p; try discriminate Hm; cbn [step_pc go fin]; try (eexists; reflexivity).
    all: lazymatch type of Hl with
         | lookup _ _ = Some (LEN ?x) => destruct x; destruct (c_size c =? 0); eexists; reflexivity
         | lookup _ _ = Some (FT_Ret _) =>
           pose proof (front_exists_lemma _ _ _ _ _ H Hl) as X; destruct (c_lst c); [congruence|eexists; reflexivity]
         | lookup _ _ = Some (NN_Send ?k ?f) =>
           destruct (send_target_lemma _ _ _ _ _ f H Hl eq_refl) as (A & _);
           apply mem_nat_notin in A; rewrite A; destruct k; eexists; reflexivity
         | lookup _ _ = Some (RM_1 ?r ?m) =>
           assert (X : In m (c_lst c));
           [ destruct r as [k|];
             [ pose proof (front_selected_lemma _ _ _ _ _ m H Hl eq_refl) as Y; destruct (c_lst c); [discriminate|];
               injection Y as ->; left; reflexivity
             | exact (n_link _ _ _ _ _ _ _ N _ _ _ (own_of_pc _ _ _ _ _ Hl eq_refl)) ]
           | apply mem_nat_in in X; rewrite X; destruct r; eexists; reflexivity ]
         | lookup _ _ = Some (RM_5 ?r _) => destruct r; eexists; reflexivity
         | lookup _ _ = Some (WT_Select1 ?n) => destruct (mem_nat n (c_tok c)); eexists; reflexivity
         | _ => idtac
         end. }
  destruct Hstep as (so & Hso). unfold cond_exec1. rewrite Hl, Hso. eauto.
Qed.

(* c.L.Unlock() in Wait is executed by the owner of c.L *)
Lemma prelude_holds_L_lemma copied evs c t p :
  cond_run copied evs = Some c -> lookup t (c_thr c) = Some p -> holds_L p = true -> c_L c = Some t.
Proof.
  intros H Hl Hp. apply (i_L c (f_inv c (full_reachable _ _ _ H))). rewrite lookup_pm, Hl. cbn. rewrite Hp. reflexivity.
Qed.

(* ---------- 4. Broadcast releases every waiter present when it locked l.mu ---------- *)
Lemma broadcast_snapshot_lemma c t o c' obs :
  lookup t (c_thr c) = Some NA_Lock -> cond_exec1 c (EStep t o) = Some (c', obs) ->
  In (t, OAt NA_Defer) obs -> g_bsnap c' = c_lst c /\ g_bsent c' = [] /\ c_mu c' = Some t.
Proof.
  intros Hl Hs Hob. use_step Hs p so Hl' Hst. rewrite Hl in Hl'. injection Hl' as <-.
  inv_step Hst; cbn in Hob; destruct Hob as [X|[]]; try discriminate X. auto.
Qed.

Lemma broadcast_releases_all_present_lemma copied evs c t o c' obs :
  cond_run copied evs = Some c -> lookup t (c_thr c) = Some (LEN LenAll) ->
  cond_exec1 c (EStep t o) = Some (c', obs) -> In (t, ORet RUnit) obs ->
  forall n, In n (g_bsnap c) -> In n (g_bsent c').
Proof.
  intros H Hl Hs Hob n Hn. pose proof (full_reachable _ _ _ H) as F.
  pose proof (size_is_length c t _ (f_inv c F) Hl eq_refl eq_refl) as Hsz.
  assert (Hb : lookup t (pm bcast_holding (c_thr c)) = Some true) by (rewrite lookup_pm, Hl; reflexivity).
  destruct (f_bsnap c F t Hb n Hn) as [X|[X|X]].
  - exfalso. use_step Hs p so Hl' Hst. rewrite Hl in Hl'. injection Hl' as <-. cbn in Hst.
    destruct (c_size c =? 0) eqn:E; injection Hst as <-.
    + destruct (c_lst c); [exact X|cbn in Hsz; lia].
    + cbn in Hob. destruct Hob as [Y|[]]. discriminate Y.
  - use_step Hs p so Hl' Hst. rewrite Hl in Hl'. injection Hl' as <-. cbn in Hst.
    destruct (c_size c =? 0); injection Hst as <-; scfg; exact X.
  - rewrite lookup_pm, Hl in X. discriminate X.
Qed.

(* while a Broadcast runs, every waiter of the snapshot is still in the list, or has been sent its token,
   or is the one being notified right now *)
Lemma broadcast_progress_lemma copied evs c t p :
  cond_run copied evs = Some c -> lookup t (c_thr c) = Some p -> bcast_holding p = true ->
  forall n, In n (g_bsnap c) -> In n (c_lst c) \/ In n (g_bsent c) \/ inflight p = Some n.
Proof.
  intros H Hl Hp n Hn. pose proof (full_reachable _ _ _ H) as F.
  assert (Hb : lookup t (pm bcast_holding (c_thr c)) = Some true) by (rewrite lookup_pm, Hl; cbn; rewrite Hp; reflexivity).
  destruct (f_bsnap c F t Hb n Hn) as [X|[X|X]]; [left; exact X|right; left; exact X|].
  right; right. rewrite lookup_pm, Hl in X. cbn in X. congruence.
Qed.

(* ---------- 5. a waiter that gave up never absorbs a later signal; recycled nodes are clean ---------- *)
Lemma quiet_node_lemma copied evs c t p n :
  cond_run copied evs = Some c -> lookup t (c_thr c) = Some p -> nodest p = Some (n, PhQuiet) ->
  ~ In n (c_lst c) /\ ~ In n (c_tok c) /\
  (forall t2 p2, lookup t2 (c_thr c) = Some p2 -> inflight p2 <> Some n) /\
  (forall t2 p2 f, lookup t2 (c_thr c) = Some p2 -> frontof p2 = FSel f -> f <> n).
Proof.
  intros H Hl Hp. pose proof (f_nodes c (full_reachable _ _ _ H)) as N.
  pose proof (own_of_pc _ _ _ _ _ Hl Hp) as Ho.
  destruct (n_link _ _ _ _ _ _ _ N _ _ _ Ho) as [A B]. split; [exact A|]. split; [exact B|]. split.
  - intros t2 p2 Hl2 Hf.
    assert (Hi : infl (pm inflight (c_thr c)) t2 n) by (unfold infl; rewrite lookup_pm, Hl2; cbn; rewrite Hf; reflexivity).
    destruct (n_infl _ _ _ _ _ _ _ N _ _ Hi) as (_ & _ & (u & Hu)).
    pose proof (o_uniq _ _ _ (n_owns _ _ _ _ _ _ _ N) _ _ _ _ _ Ho Hu) as <-.
    destruct (own_functional _ _ _ _ _ _ Ho Hu) as [_ X]. discriminate X.
  - intros t2 p2 f Hl2 Hf ->. pose proof (front_selected_lemma _ _ _ _ _ _ H Hl2 Hf) as X.
    apply A. destruct (c_lst c); [discriminate|]. injection X as ->. left; reflexivity.
Qed.

Lemma gave_up_never_absorbs_lemma copied evs c t p n :
  cond_run copied evs = Some c -> lookup t (c_thr c) = Some p ->
  p = WT_RetErr n \/ p = FR_Put n false ->
  In t (c_canc c) /\ ~ In n (c_lst c) /\ ~ In n (c_tok c) /\
  (forall t2 p2, lookup t2 (c_thr c) = Some p2 -> inflight p2 <> Some n).
Proof.
  intros H Hl Hp.
  assert (Hq : nodest p = Some (n, PhQuiet)) by (destruct Hp as [-> | ->]; reflexivity).
  destruct (quiet_node_lemma _ _ _ _ _ _ H Hl Hq) as (A & B & C & _).
  split; [|split; [exact A|split; [exact B|exact C]]].
  apply (i_ctx c (f_inv c (full_reachable _ _ _ H))). rewrite lookup_pm, Hl. destruct Hp as [-> | ->]; reflexivity.
Qed.

Lemma pool_node_clean_lemma copied evs c n :
  cond_run copied evs = Some c -> In n (c_pool c) ->
  ~ In n (c_lst c) /\ ~ In n (c_tok c) /\ ~ In n (g_notified c) /\
  (forall t p, lookup t (c_thr c) = Some p -> wnode p <> Some n /\ inflight p <> Some n /\ frontof p <> FSel n).
Proof.
  intros H Hn. pose proof (f_nodes c (full_reachable _ _ _ H)) as N.
  pose proof (o_pool_own _ _ _ (n_owns _ _ _ _ _ _ _ N) n) as Hfree.
  assert (A : ~ In n (c_lst c)).
  { intros X. destruct (n_lst_own _ _ _ _ _ _ _ N _ X) as (t & ph & Ho & _). exact (Hfree _ _ Hn Ho). }
  split; [exact A|]. split; [|split].
  - intros X. destruct (n_tok _ _ _ _ _ _ _ N _ X) as [_ (t & Ho)]. exact (Hfree _ _ Hn Ho).
  - intros X. destruct (n_ntf_own _ _ _ _ _ _ _ N _ X) as (t & ph & Ho & _). exact (Hfree _ _ Hn Ho).
  - intros t p Hl. split; [|split].
    + unfold wnode. destruct (nodest p) as [[m ph]|] eqn:E; [|discriminate].
      intros X; injection X as ->. exact (Hfree _ _ Hn (own_of_pc _ _ _ _ _ Hl E)).
    + intros X.
      assert (Hi : infl (pm inflight (c_thr c)) t n) by (unfold infl; rewrite lookup_pm, Hl; cbn; rewrite X; reflexivity).
      destruct (n_infl _ _ _ _ _ _ _ N _ _ Hi) as (_ & _ & (u & Hu)). exact (Hfree _ _ Hn Hu).
    + intros X. pose proof (front_selected_lemma _ _ _ _ _ _ H Hl X) as Y.
      apply A. destruct (c_lst c); [discriminate|]. injection Y as ->. left; reflexivity.
Qed.

(* the node that alloc returns — recycled or fresh — has an empty channel, is not linked, and nobody holds
   a reference to it *)
Lemma recycled_channel_empty_lemma copied evs c t o c' obs n :
  cond_run copied evs = Some c -> lookup t (c_thr c) = Some AL_Get ->
  cond_exec1 c (EStep t o) = Some (c', obs) -> In (t, OAt (AL_Ret n)) obs ->
  In n (c_pool c) /\ ~ In n (c_tok c) /\ ~ In n (c_lst c) /\ ~ In n (g_notified c).
Proof.
  intros H Hl Hs Hob. use_step Hs p so Hl' Hst. rewrite Hl in Hl'. injection Hl' as <-. cbn in Hst.
  destruct o as [|i].
  - injection Hst as <-. cbn in Hob. destruct Hob as [X|[]]. discriminate X.
  - destruct (take_nth i (c_pool c)) as [[m rest]|] eqn:E; [|discriminate]. injection Hst as <-.
    cbn in Hob. destruct Hob as [X|[]]. injection X as ->.
    destruct (take_nth_spec _ _ _ _ E) as (Hin & _). split; [exact Hin|].
    destruct (pool_node_clean_lemma _ _ _ _ H Hin) as (A & B & C & _). auto.
Qed.

Lemma fresh_node_clean_lemma copied evs c :
  cond_run copied evs = Some c ->
  ~ In (c_next c) (c_tok c) /\ ~ In (c_next c) (c_lst c) /\ ~ In (c_next c) (g_notified c) /\ ~ In (c_next c) (c_pool c).
Proof.
  intros H. pose proof (f_nodes c (full_reachable _ _ _ H)) as N.
  pose proof (o_own_lt _ _ _ (n_owns _ _ _ _ _ _ _ N)) as Hlt.
  split; [|split; [|split]].
  - intros X. destruct (n_tok _ _ _ _ _ _ _ N _ X) as [_ (t & Ho)]. pose proof (Hlt _ _ _ Ho). lia.
  - intros X. destruct (n_lst_own _ _ _ _ _ _ _ N _ X) as (t & ph & Ho & _). pose proof (Hlt _ _ _ Ho). lia.
  - intros X. destruct (n_ntf_own _ _ _ _ _ _ _ N _ X) as (t & ph & Ho & _). pose proof (Hlt _ _ _ Ho). lia.
  - intros X. pose proof (o_pool_lt _ _ _ (n_owns _ _ _ _ _ _ _ N) _ X). lia.
Qed.

(* ---------- 6. every return of Wait happens with c.L held by the returning thread ---------- *)
Lemma wait_returns_with_lock_lemma c t o c' obs r :
  cond_exec1 c (EStep t o) = Some (c', obs) -> In (t, ORet r) obs -> r = RNil \/ r = RErr ->
  c_L c = None /\ c_L c' = Some t.
Proof.
  intros Hs Hob Hr. use_step Hs p so Hl Hst.
  destruct p; inv_step Hst; cbn in Hob;
    repeat match goal with
           | H : _ \/ _ |- _ => destruct H
           | H : False |- _ => destruct H
           | H : (_, _) = (_, _) |- _ => inversion H; subst; clear H
           end; try discriminate; try (destruct Hr; discriminate); auto.
Qed.

(* ---------- 7. a nil return consumed a token; an error return only with the context cancelled ---------- *)
Lemma nil_return_consumed_token_lemma c t o c' obs :
  cond_exec1 c (EStep t o) = Some (c', obs) -> In (t, ORet RNil) obs ->
  exists n, lookup t (c_thr c) = Some (FR_Put n true) /\ g_nil c' = g_nil c + 1.
Proof.
  intros Hs Hob. use_step Hs p so Hl Hst.
  destruct p; inv_step Hst; cbn in Hob;
    repeat match goal with
           | H : _ \/ _ |- _ => destruct H
           | H : False |- _ => destruct H
           | H : (_, _) = (_, _) |- _ => inversion H; subst; clear H
           end; try discriminate.
  eexists; split; [exact Hl|reflexivity].
Qed.

Lemma err_return_cancelled_lemma copied evs c t o c' obs :
  cond_run copied evs = Some c -> cond_exec1 c (EStep t o) = Some (c', obs) -> In (t, ORet RErr) obs ->
  In t (c_canc c).
Proof.
  intros H Hs Hob. pose proof (i_ctx c (f_inv c (full_reachable _ _ _ H))) as C.
  apply C. use_step Hs p so Hl Hst. rewrite lookup_pm, Hl. cbn.
  destruct p; inv_step Hst; cbn in Hob;
    repeat match goal with
           | H : _ \/ _ |- _ => destruct H
           | H : False |- _ => destruct H
           | H : (_, _) = (_, _) |- _ => inversion H; subst; clear H
           end; try discriminate; reflexivity.
Qed.

(* ---------- counters only grow; no invented wake-up ---------- *)
Definition C_nonneg (c : ccfg) : Prop :=
  0 <= g_drop c /\ 0 <= g_nil c /\ 0 <= g_err c /\ 0 <= g_sig c /\ 0 <= g_bcast c.

Lemma nonneg_step c e c' : C_nonneg c -> cond_step c e = Some c' -> C_nonneg c'.
Proof.
  unfold C_nonneg, cond_step. intros Hc H. destruct (cond_exec1 c e) as [[c2 obs]|] eqn:E; [|discriminate].
  injection H as <-. destruct e as [t op|t o|t].
  - apply exec1_call_inv in E. destruct E as [_ Hsh]. destruct Hsh; scfg; exact Hc.
  - apply exec1_step_inv in E. destruct E as (p & so & Hl & Hs & -> & _).
    destruct p; inv_step Hs; lia.
  - apply exec1_cancel_inv in E. destruct E as (p & _ & _ & _ & [(n & _ & ->)|[_ ->]]); scfg; exact Hc.
Qed.

Lemma nonneg_reachable copied evs c : cond_run copied evs = Some c -> C_nonneg c.
Proof.
  unfold cond_run. intros H.
  eapply (invariant_reachable ccfg cev cond_step C_nonneg); [|idtac|exact H].
  - intros c0 e c1 Hc Hs. eapply nonneg_step; eassumption.
  - unfold C_nonneg. destruct copied; cbn; lia.
Qed.

Lemma owed_nonneg p : 0 <= owed p.
Proof. destruct p; cbn; try lia; dctx; cbn; try lia; destruct ok; lia. Qed.

Lemma sum_owed_nonneg thr : 0 <= sum_owed thr.
Proof. induction thr as [|[t p] r IH]; cbn; [lia|]. pose proof (owed_nonneg p). lia. Qed.

Lemma bcast_pending_nonneg c : 0 <= bcast_pending c.
Proof.
  unfold bcast_pending. destruct (c_mu c); [|lia]. destruct (lookup t (c_thr c)); [|lia].
  destruct (bcast_holding c0); lia.
Qed.

Lemma no_invented_wakeup_lemma copied evs c :
  cond_run copied evs = Some c -> g_nil c <= g_sig c + g_bcast c.
Proof.
  intros H. pose proof (ledger_lemma _ _ _ H) as L. unfold ledger_lhs, ledger_rhs in L.
  pose proof (nonneg_reachable _ _ _ H) as (A & _).
  pose proof (sum_owed_nonneg (c_thr c)). pose proof (bcast_pending_nonneg c). lia.
Qed.

(* ---------- no panic unless the Cond value is a copy ---------- *)
Definition is_ccpanic (p : cpc) : bool := match p with CC_Panic _ => true | _ => false end.
Definition C_ck (c : ccfg) : Prop :=
  c_ck c <> CkOther /\ forall t, lookup t (pm is_ccpanic (c_thr c)) = Some true -> False.

Lemma ck_step c e c' : C_nodup c -> C_ck c -> cond_step c e = Some c' -> C_ck c'.
Proof.
  unfold C_ck, cond_step. intros Hnd [Hk Hp] H. destruct (cond_exec1 c e) as [[c2 obs]|] eqn:E; [|discriminate].
  injection H as <-. destruct e as [t op|t o|t].
  - apply exec1_call_inv in E. destruct E as [Hl Hsh].
    destruct Hsh; scfg; (split; [exact Hk|]); try exact Hp;
      (eapply flag_spawn; [exact Hl|exact Hp|auto|cbn; intros XX; discriminate XX]).
  - apply exec1_step_inv in E. destruct E as (p & so & Hl & Hs & -> & _).
    destruct p; inv_step Hs; dctx; try wake_same is_ccpanic Hl Hnd; (split; [first [exact Hk|discriminate|congruence]|]);
      try (same_pm is_ccpanic Hl; exact Hp);
      try (eapply flag_update; [exact Hl|exact Hp|auto|cbn; intros XX; first [discriminate XX|congruence]]);
      try (eapply flag_remove; [exact Hnd|exact Hp|auto]).
  - apply exec1_cancel_inv in E. destruct E as (p & Hl & _ & _ & [(n & -> & ->)|[_ ->]]); scfg; (split; [exact Hk|]).
    + same_pm is_ccpanic Hl. exact Hp.
    + exact Hp.
Qed.

Lemma ck_reachable evs c : cond_run false evs = Some c -> C_ck c.
Proof.
  intros H.
  assert (X : C_nodup c /\ C_ck c); [|apply X].
  revert H. unfold cond_run.
  apply (invariant_reachable ccfg cev cond_step (fun c => C_nodup c /\ C_ck c)).
  - intros c0 e c1 [A B] Hs. split; [|eapply ck_step; eassumption].
    unfold cond_step in Hs. destruct (cond_exec1 c0 e) as [[c2 obs]|] eqn:E; [|discriminate]. injection Hs as <-.
    eapply nodup_pres; eassumption.
  - split; [constructor|]. split; [discriminate|]. intros t X. discriminate X.
Qed.

Lemma never_panics_lemma evs c e c' obs t :
  cond_run false evs = Some c -> cond_exec1 c e = Some (c', obs) ->
  ~ In (t, OPanicCopied) obs /\ ~ In (t, OPanicNilList) obs.
Proof.
  intros H He. pose proof (ck_reachable _ _ H) as [_ Hp]. pose proof (i_once c (f_inv c (full_reachable _ _ _ H))) as (_ & O2 & _).
  destruct e as [t0 op|t0 o|t0].
  - unfold cond_exec1 in He. destruct (lookup t0 (c_thr c)); [discriminate|].
    destruct op; try (destruct (c_L c) as [h|]; try discriminate; try (destruct (Nat.eqb h t0); try discriminate));
      injection He as <- <-; cbn; split; intros [X|[]]; discriminate X.
  - apply exec1_step_inv in He. destruct He as (p & so & Hl & Hs & -> & ->).
    assert (Hpf : past_fu p = true -> c_nl c = true) by (intros X; apply (O2 t0); rewrite lookup_pm, Hl; cbn; rewrite X; reflexivity).
    assert (Hcc : is_ccpanic p = true -> False) by (intros X; apply (Hp t0); rewrite lookup_pm, Hl; cbn; rewrite X; reflexivity).
    destruct p; inv_step Hs; cbn [past_fu is_ccpanic] in *;
      try (exfalso; apply Hcc; reflexivity);
      try (specialize (Hpf eq_refl); congruence);
      cbn; split; intros X;
      repeat match goal with
             | H : _ \/ _ |- _ => destruct H
             | H : False |- _ => destruct H
             | H : (_, _) = (_, _) |- _ => inversion H; subst; clear H
             end.
  - unfold cond_exec1 in He. destruct (lookup t0 (c_thr c)) as [p|]; [|discriminate].
    destruct (in_wait p && negb (mem_nat t0 (c_canc c))); [|discriminate].
    destruct p; injection He as <- <-; cbn; split; intros X;
      repeat match goal with
             | H : _ \/ _ |- _ => destruct H
             | H : False |- _ => destruct H
             | H : (_, _) = (_, _) |- _ => inversion H; subst; clear H
             end.
Qed.
