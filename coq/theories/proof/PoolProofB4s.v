(* PoolModel (pool.OnDemandBlockTaskPool), proofs for C12 / liveness side of C10 - B4s: ... preserved by every step *)
From Ekit Require Import Common Conc PoolModel PoolProofB0 PoolProofB1 PoolProofB2d PoolProofB2bd PoolProofB3d PoolProofB4d.
From Coq Require Import ZifyBool Arith PeanoNat.

Ltac clG := msimp; cbn [pcf pend start_bad ing badnz badz baddead baddrain tm_dead in_group_pc int_bad tsgo_inmp g_cnt g_wk g_nz g_tmset g_mustz g_deadset g_drain g_int g_tsgo bz andb]; msimp.
Ltac clG_all := msimp_all; cbn [pcf pend start_bad ing badnz badz baddead baddrain tm_dead in_group_pc int_bad tsgo_inmp g_cnt g_wk g_nz g_tmset g_mustz g_deadset g_drain g_int g_tsgo bz andb] in *; msimp_all.

Lemma ing_z1 mp mp' y : zmem (l_wid y) mp' = zmem (l_wid y) mp -> ing mp' y = ing mp y.
Proof. intros H. cbn [ing]. rewrite H. reflexivity. Qed.
Lemma ing_z2 mp mp' y : g_own (pc y) = 0 -> ing mp' y = ing mp y.
Proof. cbn [ing]. destruct (pc y); cbn; intros H; try discriminate H; destruct (zmem (l_wid y) mp'), (zmem (l_wid y) mp); reflexivity. Qed.
Lemma badnz_z1 mp mp' y : zmem (l_wid y) mp' = zmem (l_wid y) mp -> badnz mp' y = badnz mp y.
Proof. intros H. cbn [badnz]. rewrite H. reflexivity. Qed.
Lemma badnz_z2 mp mp' y : g_own (pc y) = 0 -> badnz mp' y = badnz mp y.
Proof. cbn [badnz]. destruct (pc y); cbn; intros H; try discriminate H; destruct (zmem (l_wid y) mp'), (zmem (l_wid y) mp); reflexivity. Qed.
Lemma badz_z1 mp mp' y : zmem (l_wid y) mp' = zmem (l_wid y) mp -> badz mp' y = badz mp y.
Proof. intros H. cbn [badz]. rewrite H. reflexivity. Qed.
Lemma badz_z2 mp mp' y : g_own (pc y) = 0 -> badz mp' y = badz mp y.
Proof. cbn [badz]. destruct (pc y); cbn; intros H; try discriminate H; destruct (zmem (l_wid y) mp'), (zmem (l_wid y) mp), (l_tm y); reflexivity. Qed.

Lemma invG_step c e c' :
  1 <= i_init (c_par c) -> i_init (c_par c) <= i_max (c_par c) ->
  invQ c -> invW c -> invG c -> pstep_cfg c e = Some c' -> invG c'.
Proof.
  intros Hval1 Hval HQ HW [I0 I1 I2 I3 I4 I5 I6] Hstep.
  destruct (step_cases _ _ _ Hstep) as [(t & op & -> & Hl & Hb & -> & _)|(th & o & obs & Hl & Ho & Ha)].
  - constructor; cbn [call_cfg c_thr c_sh c_gh c_par]; rewrite ?tsum_spawn; unfold enter;
      destruct op; cbn [enter0]; msimp; clG; msimp; clG; break_if; rewrite ?Z.add_0_r; try assumption; try lia.
  - apply (invG_of_G c (ev_tid e) th o c' obs Hl Ha).
    pose proof (q_int c HQ) as Qint.
    pose proof (tsum_ge_lookup _ _ _ _ (int_bad_nn (s_ictx (c_sh c))) Hl) as NQ.
    pose proof (w_uniq c HW) as Wu. pose proof (w_mp c HW) as Wmp. pose proof (w_tsgo c HW) as Wts.
    pose proof (tsum_ge_lookup _ _ _ _ (tsgo_inmp_nn (s_mp (c_sh c))) Hl) as NW.
    pose proof (tsum_ge_lookup (pcf g_cnt) _ _ _ (pcf_nonneg _ g_cnt_nn) Hl) as N0.
    pose proof (tsum_ge_lookup (start_bad (c_par c)) _ _ _ (start_bad_nn (c_par c)) Hl) as N2.
    pose proof (tsum_ge_lookup (ing (s_mp (c_sh c))) _ _ _ (ing_nn (s_mp (c_sh c))) Hl) as N3.
    pose proof (tsum_ge_lookup (badnz (s_mp (c_sh c))) _ _ _ (badnz_nn (s_mp (c_sh c))) Hl) as N4.
    pose proof (tsum_ge_lookup (badz (s_mp (c_sh c))) _ _ _ (badz_nn (s_mp (c_sh c))) Hl) as N5.
    pose proof (tsum_ge_lookup baddead _ _ _ baddead_nn Hl) as N6.
    pose proof (tsum_ge_lookup baddrain _ _ _ baddrain_nn Hl) as N7.
    pose proof (fun F mp' => zmem_frame F (s_mp (c_sh c)) mp' (c_thr c) (ev_tid e) th Hl) as Hzf.
    clear Ha Hstep HQ HW.
    destruct e as [t op|t ch|t|t|t]; cbn [ev_out ev_tid] in *; [discriminate Ho| | | |];
      generalize dependent (parked_of (c_thr c)); intros pk; intros;
      generalize dependent (c_par c); intros P; intros;
      destruct (c_sh c) as [st pv q cl tot run mp gn bw br gw gr idc ictx];
      cbn [s_total s_gn s_mp s_ictx s_idc] in *;
      [ pstep_split Ho th ch
      | destruct (l_cancel th); [discriminate Ho|injection Ho as <-]
      | destruct (l_tm th) eqn:Htm; try discriminate Ho; injection Ho as <-; unfold is_parked in *; destruct (pc th) eqn:Hpc
      | destruct (pc th) eqn:Hpc; try discriminate Ho; injection Ho as <- ].
    all: unfold invG_G; repeat match goal with |- _ /\ _ => split end.
    all: unfold_helpers; msimp; clG; unfold_helpers; msimp; rewrite ?Hpc, ?Htm; clG; break_if; msimp; clG; rewrite ?upd_same; try assumption.
    all: msimp_all; clG_all; unfold_helpers; msimp_all; rewrite ?Hpc, ?Htm in *; clG_all; unfold upd in *; break_if; msimp_all; clG_all.
    all: try match goal with |- context [tsum (ing (l_wid ?x :: ?m)) _] =>
      pose proof (Hzf ing (l_wid x :: m) eq_refl (Wu _) (fun a Ha => zmem_cons_other a _ m Ha) (ing_z1 _ _) (ing_z2 _ _)) as Hf1 end.
    all: try match goal with |- context [tsum (ing (zremove (l_wid ?x) ?m)) _] =>
      pose proof (Hzf ing (zremove (l_wid x) m) eq_refl (Wu _) (fun a Ha => zmem_zremove_other a _ m Ha) (ing_z1 _ _) (ing_z2 _ _)) as Hf1 end.
    all: try match goal with |- context [tsum (badnz (l_wid ?x :: ?m)) _] =>
      pose proof (Hzf badnz (l_wid x :: m) eq_refl (Wu _) (fun a Ha => zmem_cons_other a _ m Ha) (badnz_z1 _ _) (badnz_z2 _ _)) as Hf1 end.
    all: try match goal with |- context [tsum (badnz (zremove (l_wid ?x) ?m)) _] =>
      pose proof (Hzf badnz (zremove (l_wid x) m) eq_refl (Wu _) (fun a Ha => zmem_zremove_other a _ m Ha) (badnz_z1 _ _) (badnz_z2 _ _)) as Hf1 end.
    all: try match goal with |- context [tsum (badz (l_wid ?x :: ?m)) _] =>
      pose proof (Hzf badz (l_wid x :: m) eq_refl (Wu _) (fun a Ha => zmem_cons_other a _ m Ha) (badz_z1 _ _) (badz_z2 _ _)) as Hf1 end.
    all: try match goal with |- context [tsum (badz (zremove (l_wid ?x) ?m)) _] =>
      pose proof (Hzf badz (zremove (l_wid x) m) eq_refl (Wu _) (fun a Ha => zmem_zremove_other a _ m Ha) (badz_z1 _ _) (badz_z2 _ _)) as Hf1 end.
    all: clear Hzf; clG_all; rewrite ?Hpc, ?Htm, ?zmem_cons_same, ?zmem_zremove_same in *; clG_all;
              rewrite ?Hpc, ?Htm, ?zmem_cons_same, ?zmem_zremove_same in *; clG_all.
    all: repeat match goal with
              | H : zmem ?a ?l = ?v, H' : context [zmem ?a ?l] |- _ =>
                lazymatch H' with H => fail | _ => rewrite H in H' end
              end; clG_all.
    all: repeat match goal with
              | H : zmem ?a ?l = true |- _ =>
                lazymatch goal with _ : In a l |- _ => fail | _ => pose proof (proj1 (zmem_in a l) H) end
              end;
              repeat match goal with
              | H : In ?a _ |- _ => lazymatch goal with _ : 1 <= a <= _ |- _ => fail | _ => pose proof (Wmp a H) end
              end.
    all: repeat match goal with H : context [match l_tm ?x with _ => _ end] |- _ => destruct (l_tm x) eqn:? end;
              try discriminate.
    all: first [ lia
                    | break_hyp; msimp_all; clG_all; try discriminate;
                      repeat match goal with
              | H : zmem ?a ?l = true |- _ =>
                lazymatch goal with _ : In a l |- _ => fail | _ => pose proof (proj1 (zmem_in a l) H) end
              end;
                      repeat match goal with
              | H : In ?a _ |- _ => lazymatch goal with _ : 1 <= a <= _ |- _ => fail | _ => pose proof (Wmp a H) end
              end; lia
                    | fail ].
Qed.
