(* Pointer-level red-black tree: the public operations Delete / Find / Set / KeyValues / Size against the recursive
   model, the step simulation, and the theorems for every history. *)
From Ekit Require Import Common RBModel TreeMapModel RBBalance RBPtrModel RBPtrProof RBPtrProof2 RBPtrProof3 RBPtrProof4 RBPtrProof5 RBPtrProof6 RBPtrProof7.
From Coq Require Import Arith FinFun.

(* ---------- reading the heap back ---------- *)
Lemma abs_fuel_irep h : forall t p fuel, irep h t p -> phs t = [] -> (height (erase t) <= fuel)%nat ->
  abs_fuel fuel h (rid t) = erase t.
Proof.
  induction t as [|i k v|i c l IHl k v r IHr]; intros p fuel H Hph Hf.
  - destruct fuel; reflexivity.
  - cbn in Hph. discriminate.
  - cbn [phs] in Hph. apply app_eq_nil in Hph. destruct Hph as [Hpl Hpr]. cbn [irep] in H. destruct H as (Hi & Hl & Hr).
    destruct fuel as [|fuel]; [cbn in Hf; lia|]. cbn [erase height] in Hf.
    cbn [abs_fuel rid erase]. rewrite Hi. cbn [ncol nkey nval nleft nright].
    rewrite (IHl _ fuel Hl Hpl) by lia. rewrite (IHr _ fuel Hr Hpr) by lia. reflexivity.
Qed.
Lemma card_ids t : phs t = [] -> card (erase t) = length (ids t).
Proof.
  induction t as [|i k v|i c l IHl k v r IHr]; intro Hph; [reflexivity|cbn in Hph; discriminate|].
  cbn [phs] in Hph. apply app_eq_nil in Hph. destruct Hph as [Hpl Hpr].
  cbn [erase card ids length]. rewrite app_length, (IHl Hpl), (IHr Hpr). reflexivity.
Qed.
Lemma pigeon (l : list positive) n : NoDup l -> (forall j, In j l -> (j < n)%positive) -> (length l < Pos.to_nat n)%nat.
Proof.
  intros Hnd Hb.
  assert (Hnd' : NoDup (map Pos.to_nat l)).
  { apply FinFun.Injective_map_NoDup; [|exact Hnd]. intros a b Hab. apply Pos2Nat.inj. exact Hab. }
  assert (Hincl : incl (map Pos.to_nat l) (seq 1 (Pos.to_nat n - 1))).
  { intros x Hx. apply in_map_iff in Hx. destruct Hx as (j & <- & Hj). apply in_seq. specialize (Hb j Hj). lia. }
  pose proof (NoDup_incl_length Hnd' Hincl) as Hlen. rewrite map_length, seq_length in Hlen. lia.
Qed.
Lemma bad_parent_irep h : forall fuel t p, irep h t p -> phs t = [] -> bad_parent_fuel fuel h (rid t) p = false.
Proof.
  induction fuel as [|fuel IH]; intros t p H Hph; [reflexivity|].
  destruct t as [|i k v|i c l k v r]; [reflexivity|cbn in Hph; discriminate|].
  cbn [phs] in Hph. apply app_eq_nil in Hph. destruct Hph as [Hpl Hpr]. cbn [irep] in H. destruct H as (Hi & Hl & Hr).
  cbn [bad_parent_fuel rid]. rewrite Hi. cbn [npar nleft nright]. rewrite ptr_eqb_refl, (IH _ _ Hl Hpl), (IH _ _ Hr Hpr). reflexivity.
Qed.

(* a walk from the root of t ends at the root of a sub-tree of t *)
Lemma walk_sub h : forall path t p i, irep h t p -> phs t = [] -> walk h (rid t) path = Some i ->
  exists t' p', irep h t' p' /\ phs t' = [] /\ rid t' = Some i /\ incl (ids t') (ids t) /\ (path = [] -> t' = t /\ p' = p).
Proof.
  induction path as [|d rest IH]; intros t p i H Hph Hw.
  - exists t, p. cbn in Hw. split; [exact H|]. split; [exact Hph|]. split; [exact Hw|]. split; [apply incl_refl|]. intros _. split; reflexivity.
  - destruct t as [|j k v|j c l k v r]; [cbn in Hw; discriminate|cbn in Hph; discriminate|].
    cbn [phs] in Hph. apply app_eq_nil in Hph. destruct Hph as [Hpl Hpr]. cbn [irep] in H. destruct H as (Hj & Hl & Hr).
    cbn [walk rid] in Hw. rewrite Hj in Hw. cbn [nleft nright] in Hw.
    destruct d.
    + destruct (IH l (Some j) i Hl Hpl Hw) as (t' & p' & H1 & H2 & H3 & H4 & _).
      exists t', p'. split; [exact H1|]. split; [exact H2|]. split; [exact H3|]. split; [|discriminate].
      intros x Hx. cbn [ids]. right. apply in_or_app. left. apply H4. exact Hx.
    + destruct (IH r (Some j) i Hr Hpr Hw) as (t' & p' & H1 & H2 & H3 & H4 & _).
      exists t', p'. split; [exact H1|]. split; [exact H2|]. split; [exact H3|]. split; [|discriminate].
      intros x Hx. cbn [ids]. right. apply in_or_app. right. apply H4. exact Hx.
Qed.
Lemma walk_in h path t p i : irep h t p -> phs t = [] -> walk h (rid t) path = Some i -> In i (ids t).
Proof.
  intros H Hph Hw. destruct (walk_sub h path t p i H Hph Hw) as (t' & p' & _ & _ & Hr & Hincl & _).
  apply Hincl. apply rid_in. exact Hr.
Qed.
Lemma walk_unique h : forall t p, irep h t p -> phs t = [] -> NoDup (ids t) ->
  forall p1 p2 i, walk h (rid t) p1 = Some i -> walk h (rid t) p2 = Some i -> p1 = p2.
Proof.
  induction t as [|j k v|j c l IHl k v r IHr]; intros p H Hph Hnd p1 p2 i H1 H2.
  - destruct p1; cbn in H1; discriminate.
  - cbn in Hph. discriminate.
  - cbn [phs] in Hph. apply app_eq_nil in Hph. destruct Hph as [Hpl Hpr]. cbn [irep] in H. destruct H as (Hj & Hl & Hr).
    cbn [ids] in Hnd. nd_sat.
    assert (Hstep : forall d q x, walk h (Some j) (d :: q) = Some x ->
               match d with L => walk h (rid l) q = Some x | R => walk h (rid r) q = Some x end).
    { intros d q x Hw. cbn [walk] in Hw. rewrite Hj in Hw. destruct d; exact Hw. }
    cbn [rid] in H1, H2.
    destruct p1 as [|d1 q1], p2 as [|d2 q2].
    + reflexivity.
    + cbn in H1. injection H1 as <-. apply Hstep in H2. exfalso.
      destruct d2; [apply (walk_in _ _ _ _ _ Hl Hpl) in H2|apply (walk_in _ _ _ _ _ Hr Hpr) in H2]; contradiction.
    + cbn in H2. injection H2 as <-. apply Hstep in H1. exfalso.
      destruct d1; [apply (walk_in _ _ _ _ _ Hl Hpl) in H1|apply (walk_in _ _ _ _ _ Hr Hpr) in H1]; contradiction.
    + apply Hstep in H1. apply Hstep in H2. destruct d1, d2.
      * f_equal. exact (IHl _ Hl Hpl ltac:(assumption) _ _ _ H1 H2).
      * exfalso. apply (walk_in _ _ _ _ _ Hl Hpl) in H1. apply (walk_in _ _ _ _ _ Hr Hpr) in H2.
        match goal with Hd : disj (ids l) (ids r) |- _ => exact (Hd _ H1 H2) end.
      * exfalso. apply (walk_in _ _ _ _ _ Hr Hpr) in H1. apply (walk_in _ _ _ _ _ Hl Hpl) in H2.
        match goal with Hd : disj (ids l) (ids r) |- _ => exact (Hd _ H2 H1) end.
      * f_equal. exact (IHr _ Hr Hpr ltac:(assumption) _ _ _ H1 H2).
Qed.

Section Ops.
  Variable cmp : Z -> Z -> Z.

  Lemma findNode_spec k s it :
    tree_inv s it -> psize s = Z.of_nat (card (erase it)) ->
    exists r, findNode cmp (pfuel s) k s = ROk r (mkst (pheap s) (proot s) (psize s) (pnext s) (cmp_calls cmp k (erase it) + pcalls s)%nat) /\
      match r with
      | None => find cmp k (erase it) = None /\ del cmp k (erase it) = None /\ (forall v, set cmp k v (erase it) = None)
      | Some i => exists ctx' c l k' v' r', r = Some i /\
                    it = iplug ctx' (IT i c l k' v' r') /\ path_ok cmp k (ectx ctx') /\ here cmp k k' /\
                    cfg (pheap s) (proot s) ctx' (IT i c l k' v' r')
      end.
  Proof.
    destruct s as [h rt sz nx cl]. intros (Hcfg & Hph & Hbound) Hsz. cbn [pheap proot psize pnext pcalls] in *.
    assert (Hfuel : (height (erase it) < pfuel (mkst h rt sz nx cl))%nat).
    { unfold pfuel. cbn [psize]. rewrite Hsz, Nat2Z.id. pose proof (height_le_card (erase it)). lia. }
    destruct (findNode_loop_spec cmp k it [] _ h rt sz nx cl Hcfg Hph Hfuel) as (r & Hrun & Hres).
    exists r. split.
    - unfold findNode. munfold. mrun. destruct Hcfg as (Hc & _). cbn [ictx] in Hc. rewrite Hc in Hrun |- *. exact Hrun.
    - destruct r as [i|]; [|exact Hres].
      destruct Hres as (ctx' & c & l & k' & v' & r' & He & Ht & Hp & Hh & Hcfg'). rewrite app_nil_r in Hcfg'.
      exists ctx', c, l, k', v', r'. split; [reflexivity|]. split; [exact Ht|]. split; [exact Hp|]. split; [exact Hh|exact Hcfg'].
  Qed.

  Lemma find_here k c l k' v' r : here cmp k k' -> find cmp k (T c l k' v' r) = Some v'.
  Proof. intros [H1 H2]. cbn [find]. rewrite H1, H2. reflexivity. Qed.
  Lemma set_here k v c l k' v' r : here cmp k k' -> set cmp k v (T c l k' v' r) = Some (T c l k' v r).
  Proof. intros [H1 H2]. cbn [set]. rewrite H1, H2. reflexivity. Qed.

  Lemma rbFind_spec k s it :
    tree_inv s it -> psize s = Z.of_nat (card (erase it)) ->
    rbFind cmp k s = ROk (find cmp k (erase it))
                         (mkst (pheap s) (proot s) (psize s) (pnext s) (cmp_calls cmp k (erase it) + pcalls s)%nat).
  Proof.
    intros Hinv Hsz. destruct (findNode_spec k s it Hinv Hsz) as (r & Hrun & Hres).
    unfold rbFind. erewrite bind_ok; [|exact Hrun].
    destruct r as [i|].
    - destruct Hres as (ctx' & c & l & k' & v' & r' & _ & Ht & Hp & Hh & Hcfg').
      rewrite Ht, erase_iplug, (find_plug cmp k _ Hp). cbn [erase]. rewrite (find_here k _ _ _ _ _ Hh).
      cfg_open Hcfg'. munfold. mrun. reflexivity.
    - destruct Hres as (Hf & _). rewrite Hf. reflexivity.
  Qed.

  Lemma rbSet_spec k v s it :
    tree_inv s it -> psize s = Z.of_nat (card (erase it)) ->
    match set cmp k v (erase it) with
    | None => rbSet cmp k v s = ROk (Some EAbsent)
                (mkst (pheap s) (proot s) (psize s) (pnext s) (cmp_calls cmp k (erase it) + pcalls s)%nat)
    | Some t' => exists h' it', rbSet cmp k v s = ROk None
                (mkst h' (proot s) (psize s) (pnext s) (cmp_calls cmp k (erase it) + pcalls s)%nat) /\
                tree_inv (mkst h' (proot s) (psize s) (pnext s) (cmp_calls cmp k (erase it) + pcalls s)%nat) it' /\
                erase it' = t'
    end.
  Proof.
    intros Hinv Hsz. destruct (findNode_spec k s it Hinv Hsz) as (r & Hrun & Hres).
    destruct r as [i|].
    - destruct Hres as (ctx' & c & l & k' & v' & r' & _ & Ht & Hp & Hh & Hcfg').
      assert (Hset : set cmp k v (erase it) = Some (erase (iplug ctx' (IT i c l k' v r')))).
      { rewrite Ht, !erase_iplug, (set_plug cmp k v _ Hp). cbn [erase]. rewrite (set_here k v _ _ _ _ _ Hh). reflexivity. }
      rewrite Hset. clear Hset.
      destruct Hinv as (_ & Hph & Hbound).
      pose proof Hcfg' as H0. cfg_open H0.
      eexists. exists (iplug ctx' (IT i c l k' v r')). split.
      { unfold rbSet. erewrite bind_ok; [|exact Hrun]. munfold. mrun. reflexivity. }
      split; [|reflexivity].
      split; [cbn [pheap proot]; apply cfg_plug; cfg_tac|]. cbn [pnext]. split.
      + rewrite Ht in Hph. apply phs_iplug_nil in Hph. destruct Hph as [Hq1 Hq2]. apply phs_iplug_nil_intro; assumption.
      + intros j Hj. apply Hbound. rewrite Ht. apply ids_iplug. apply ids_iplug in Hj. exact Hj.
    - destruct Hres as (_ & _ & Hs). rewrite Hs. unfold rbSet. erewrite bind_ok; [|exact Hrun]. reflexivity.
  Qed.

  Lemma rbDelete_spec k s it :
    tree_inv s it -> col (erase it) = Black -> psize s = Z.of_nat (card (erase it)) ->
    match delete cmp k (erase it) with
    | None => rbDelete cmp k s = ROk None
                (mkst (pheap s) (proot s) (psize s) (pnext s) (cmp_calls cmp k (erase it) + pcalls s)%nat)
    | Some (t', v) => exists h' rt' it', rbDelete cmp k s = ROk (Some v)
                (mkst h' rt' (psize s - 1) (pnext s) (cmp_calls cmp k (erase it) + pcalls s)%nat) /\
                tree_inv (mkst h' rt' (psize s - 1) (pnext s) (cmp_calls cmp k (erase it) + pcalls s)%nat) it' /\
                erase it' = t'
    end.
  Proof.
    intros Hinv Hcol Hsz. destruct (findNode_spec k s it Hinv Hsz) as (r & Hrun & Hres).
    destruct r as [i|].
    - destruct Hres as (ctx' & c & l & k' & v' & r' & _ & Ht & Hp & Hh & Hcfg').
      destruct Hinv as (_ & Hph & Hbound).
      assert (Hphs : phs l = [] /\ phs r' = [] /\ cphs ctx' = []).
      { rewrite Ht in Hph. apply phs_iplug_nil in Hph. destruct Hph as [Hq1 Hq2]. cbn [phs] in Hq1. apply app_eq_nil in Hq1. tauto. }
      destruct Hphs as (Hpl & Hpr & Hcph).
      assert (Hfuel : (height (erase (iplug ctx' (IT i c l k' v' r'))) < pfuel s)%nat).
      { rewrite <- Ht. unfold pfuel. rewrite Hsz, Nat2Z.id. pose proof (height_le_card (erase it)). lia. }
      destruct (wp_ok _ _ _ (deleteNode_spec cmp (pfuel s) ctx' i c l k' v' r' _ _ (psize s) (pnext s) (cmp_calls cmp k (erase it) + pcalls s)%nat
                   Hcfg' Hpl Hpr Hcph ltac:(rewrite <- Ht; exact Hcol) Hfuel))
        as ([] & s' & Hrund & h' & rt' & t' & -> & Hcfgd & Hphd & Hincl & Hdel).
      rewrite <- Ht in Hdel. rewrite (Hdel k Hp Hh).
      exists h', rt', t'. split.
      { unfold rbDelete. erewrite bind_ok; [|exact Hrun]. cfg_open Hcfg'. munfold. mrun. rewrite Hrund. reflexivity. }
      split; [|reflexivity]. split; [exact Hcfgd|]. split; [exact Hphd|].
      cbn [pnext]. intros j Hj. apply Hbound. rewrite Ht. apply Hincl. exact Hj.
    - destruct Hres as (_ & Hd & _). unfold delete. rewrite Hd. unfold rbDelete. erewrite bind_ok; [|exact Hrun]. reflexivity.
  Qed.

  (* ---------- KeyValues: the stack-based in-order traversal ---------- *)
  Record sent := mksent { se_id : id; se_k : Z; se_v : Z; se_r : itree }.
  Definition sptr (e : sent) : ptr := Some (se_id e).
  Definition sent_ok (h : heap) (bound : nat) (e : sent) : Prop :=
    (exists c l p, hget h (se_id e) = Some (mkn c (se_k e) (se_v e) l (rid (se_r e)) p)) /\
    irep h (se_r e) (Some (se_id e)) /\ phs (se_r e) = [] /\ (height (erase (se_r e)) < bound)%nat.
  Definition sout (e : sent) : list (Z * Z) := (se_k e, se_v e) :: inorder (erase (se_r e)).
  Definition srem (st : list sent) : list (Z * Z) := flat_map sout (rev st).
  Fixpoint smeas (st : list sent) : nat :=
    match st with [] => O | e :: rest => S (card (erase (se_r e))) + smeas rest end.
  Fixpoint spine (t : itree) : list sent :=
    match t with IT i _ l k v r => mksent i k v r :: spine l | _ => [] end.

  Lemma srem_app a b : srem (a ++ b) = srem b ++ srem a.
  Proof. unfold srem. rewrite rev_app_distr, flat_map_app. reflexivity. Qed.
  Lemma smeas_app a b : smeas (a ++ b) = (smeas a + smeas b)%nat.
  Proof. induction a as [|e a IH]; [reflexivity|]. cbn [app smeas]. rewrite IH. lia. Qed.
  Lemma srem_spine t : phs t = [] -> srem (spine t) = inorder (erase t).
  Proof.
    induction t as [|i k v|i c l IHl k v r IHr]; intro Hph; [reflexivity|cbn in Hph; discriminate|].
    cbn [phs] in Hph. apply app_eq_nil in Hph. destruct Hph as [Hpl Hpr].
    cbn [spine erase inorder]. change (mksent i k v r :: spine l) with ([mksent i k v r] ++ spine l).
    rewrite srem_app, (IHl Hpl). unfold srem. cbn. rewrite app_nil_r. reflexivity.
  Qed.
  Lemma smeas_spine t : smeas (spine t) = card (erase t).
  Proof. induction t as [|i k v|i c l IHl k v r IHr]; [reflexivity|reflexivity|]. cbn [spine smeas erase card se_r]. rewrite IHl. lia. Qed.
  Lemma spine_ok h bound t p : irep h t p -> phs t = [] -> (height (erase t) < bound)%nat -> Forall (sent_ok h bound) (spine t).
  Proof.
    revert p. induction t as [|i k v|i c l IHl k v r IHr]; intros p H Hph Hb; [constructor|constructor|].
    cbn [phs] in Hph. apply app_eq_nil in Hph. destruct Hph as [Hpl Hpr]. cbn [irep] in H. destruct H as (Hi & Hl & Hr).
    cbn [erase height] in Hb. cbn [spine]. constructor.
    - split; [cbn; eauto|]. cbn [se_r se_id]. split; [exact Hr|]. split; [exact Hpr|lia].
    - apply (IHl _ Hl Hpl). lia.
  Qed.

  Lemma push_left_loop_spec h rt sz nx cl : forall t p ifuel stack,
    irep h t p -> phs t = [] -> (height (erase t) < ifuel)%nat ->
    push_left_loop ifuel stack (rid t) (mkst h rt sz nx cl) = ROk (stack ++ map sptr (spine t), None) (mkst h rt sz nx cl).
  Proof.
    induction t as [|i k v|i c l IHl k v r _]; intros p ifuel stack H Hph Hb.
    - destruct ifuel; [cbn in Hb; lia|]. cbn. rewrite app_nil_r. reflexivity.
    - cbn in Hph. discriminate.
    - cbn [phs] in Hph. apply app_eq_nil in Hph. destruct Hph as [Hpl Hpr]. cbn [irep] in H. destruct H as (Hi & Hl & Hr).
      destruct ifuel as [|ifuel]; [cbn in Hb; lia|]. cbn [erase height] in Hb.
      cbn [push_left_loop rid isnil]. munfold. mrun. rewrite (IHl (Some i) ifuel _ Hl Hpl) by lia.
      cbn [spine map]. rewrite <- app_assoc. reflexivity.
  Qed.

  Lemma inOrder_loop_spec h rt sz nx cl ifuel : forall n fuel st curr p acc,
    Forall (sent_ok h ifuel) st -> irep h curr p -> phs curr = [] -> (height (erase curr) < ifuel)%nat ->
    (card (erase curr) + smeas st <= n)%nat -> (n < fuel)%nat ->
    inOrder_loop fuel ifuel (map sptr st) (rid curr) acc (mkst h rt sz nx cl)
      = ROk (acc ++ inorder (erase curr) ++ srem st) (mkst h rt sz nx cl).
  Proof.
    induction n as [|n IH]; intros fuel st curr p acc Hst Hc Hph Hh Hm Hfuel.
    - destruct fuel as [|fuel]; [lia|].
      destruct st as [|e st]; [|cbn [smeas] in Hm; lia].
      destruct curr as [|?|i c l k v r]; [|cbn in Hph; discriminate|cbn [erase card] in Hm; lia].
      cbn. rewrite app_nil_r. reflexivity.
    - destruct fuel as [|fuel]; [lia|].
      pose (full := st ++ spine curr).
      destruct (Nat.eq_dec (length full) 0) as [Hz|Hnz].
      + (* nothing left *)
        unfold full in Hz. rewrite app_length in Hz.
        destruct st as [|e st]; [|cbn in Hz; lia]. destruct curr as [|?|i c l k v r]; [|cbn in Hph; discriminate|cbn in Hz; lia].
        cbn. rewrite app_nil_r. reflexivity.
      + assert (Hcond : (isnil (rid curr) && (length (map sptr st) =? 0)%nat) = false).
        { destruct curr as [|?|i c l k v r]; [|cbn in Hph; discriminate|reflexivity].
          unfold full in Hnz. cbn [spine] in Hnz. rewrite app_nil_r in Hnz. rewrite map_length. cbn [rid isnil andb].
          apply Nat.eqb_neq. exact Hnz. }
        destruct (exists_last (l := full)) as (init & e & Hfull); [intro Hx; rewrite Hx in Hnz; cbn in Hnz; lia|].
        assert (Hall : Forall (sent_ok h ifuel) full).
        { unfold full. apply Forall_app. split; [exact Hst|apply (spine_ok h ifuel curr p Hc Hph Hh)]. }
        rewrite Hfull in Hall. apply Forall_app in Hall. destruct Hall as [Hinit He]. inversion He as [|e' l' Hok _]; subst e' l'.
        destruct Hok as ((c & l & pp & Hget) & Hr & Hpr & Hhr).
        assert (Hmeas : smeas full = (card (erase curr) + smeas st)%nat).
        { unfold full. rewrite smeas_app, smeas_spine. lia. }
        rewrite Hfull, smeas_app in Hmeas. cbn [smeas] in Hmeas.
        cbn [inOrder_loop]. rewrite Hcond. munfold.
        rewrite (push_left_loop_spec h rt sz nx cl curr p ifuel (map sptr st) Hc Hph Hh).
        rewrite <- map_app. fold full. rewrite Hfull, map_app, rev_app_distr. cbn [map rev app sptr].
        mrun. rewrite rev_involutive.
        rewrite (IH fuel init (se_r e) (Some (se_id e)) (acc ++ [(se_k e, se_v e)]) Hinit Hr Hpr Hhr) by lia.
        f_equal. rewrite <- !app_assoc. f_equal.
        assert (Hsr : srem full = inorder (erase curr) ++ srem st).
        { unfold full. rewrite srem_app, (srem_spine curr Hph). reflexivity. }
        rewrite <- Hsr, Hfull, srem_app. unfold srem at 2. cbn [rev app flat_map sout]. rewrite app_nil_r.
        reflexivity.
  Qed.

  Lemma rbKeyValues_spec s it :
    tree_inv s it -> psize s = Z.of_nat (card (erase it)) ->
    rbKeyValues s = ROk (inorder (erase it)) s.
  Proof.
    destruct s as [h rt sz nx cl]. intros (Hcfg & Hph & _) Hsz. cbn [pheap proot psize] in *.
    destruct Hcfg as (Hc & Hr & _). cbn [ictx cpar] in Hc, Hr. subst rt.
    unfold rbKeyValues. munfold. mrun.
    destruct it as [|?|i c l k v r]; [reflexivity|cbn in Hph; discriminate|].
    cbn [rid isnil].
    assert (Hh : (height (erase (IT i c l k v r)) < pfuel (mkst h (Some i) sz nx cl))%nat).
    { unfold pfuel. cbn [psize]. rewrite Hsz, Nat2Z.id. pose proof (height_le_card (erase (IT i c l k v r))). lia. }
    change (@nil ptr) with (map sptr []). change (Some i) with (rid (IT i c l k v r)) at 3.
    rewrite (inOrder_loop_spec h _ sz nx cl _ (card (erase (IT i c l k v r))) _ [] (IT i c l k v r) None [] (Forall_nil _) Hr Hph Hh).
    - cbn [srem rev flat_map app]. rewrite app_nil_r. reflexivity.
    - cbn [smeas]. lia.
    - unfold pfuel. cbn [psize]. rewrite Hsz, Nat2Z.id. lia.
  Qed.

  (* ---------- one call ---------- *)
  Definition sim (s : pstate) (m : rbtree) : Prop :=
    exists it, tree_inv s it /\ erase it = root m /\ psize s = size m.

  Lemma tree_inv_calls h rt sz nx cl cl' it : tree_inv (mkst h rt sz nx cl) it -> tree_inv (mkst h rt sz nx cl') it.
  Proof. intro H. exact H. Qed.

  Lemma ptr_step_sim o s m : sim s m -> rb_ok m ->
    exists s', ptr_step cmp o s = ROk (snd (rb_step cmp m o)) s' /\ sim s' (fst (rb_step cmp m o)) /\
               pcalls s' = rb_op_calls cmp m o.
  Proof.
    intros (it & Hinv & He & Hsz) ((Hcol & _) & Hcard).
    destruct s as [h rt sz nx cl]. cbn [psize] in Hsz. subst sz.
    assert (Hinv0 : tree_inv (mkst h rt (size m) nx O) it) by exact Hinv.
    assert (Hsz0 : psize (mkst h rt (size m) nx O) = Z.of_nat (card (erase it))) by (cbn [psize]; rewrite He; exact Hcard).
    assert (Hcol0 : col (erase it) = Black) by (rewrite He; exact Hcol).
    unfold ptr_step. unfold bind at 1. unfold reset_calls. cbn [pheap proot psize pnext].
    destruct o as [k v|k|k|k v| |]; cbn [rb_step rb_op_calls].
    - pose proof (rbAdd_spec cmp k v _ it Hinv0 Hcol0 Hsz0) as Ha. rewrite <- He.
      destruct (add cmp k v (erase it)) as [t'|].
      + destruct Ha as (s' & it' & Hrun & Hinv' & He' & Hsz' & Hcl').
        exists s'. unfold bind. rewrite Hrun. split; [reflexivity|]. split.
        * exists it'. split; [exact Hinv'|]. split; [exact He'|]. cbn [fst snd root size psize] in *. lia.
        * rewrite Hcl'. cbn [pcalls]. lia.
      + destruct Ha as (s' & Hrun & Hinv' & Hsz' & Hcl').
        exists s'. unfold bind. rewrite Hrun. split; [reflexivity|]. split.
        * exists it. split; [exact Hinv'|]. split; [exact He|]. cbn [fst snd root size psize] in *. lia.
        * rewrite Hcl'. cbn [pcalls]. lia.
    - pose proof (rbDelete_spec k _ it Hinv0 Hcol0 Hsz0) as Hd. rewrite <- He.
      destruct (delete cmp k (erase it)) as [[t' v]|].
      + destruct Hd as (h' & rt' & it' & Hrun & Hinv' & He').
        eexists. unfold bind. rewrite Hrun. split; [reflexivity|]. split.
        * exists it'. split; [exact Hinv'|]. split; [exact He'|]. cbn [fst snd root size psize] in *. lia.
        * cbn [pcalls]. lia.
      + eexists. unfold bind. rewrite Hd. split; [reflexivity|]. split.
        * exists it. split; [exact Hinv|]. split; [exact He|reflexivity].
        * cbn [pcalls]. lia.
    - rewrite <- He. eexists. unfold bind. rewrite (rbFind_spec k _ it Hinv0 Hsz0). split; [reflexivity|]. split.
      + exists it. split; [exact Hinv|]. split; [exact He|reflexivity].
      + cbn [pcalls]. lia.
    - pose proof (rbSet_spec k v _ it Hinv0 Hsz0) as Hs. rewrite <- He.
      destruct (set cmp k v (erase it)) as [t'|].
      + destruct Hs as (h' & it' & Hrun & Hinv' & He').
        eexists. unfold bind. rewrite Hrun. split; [reflexivity|]. split.
        * exists it'. split; [exact Hinv'|]. split; [exact He'|reflexivity].
        * cbn [pcalls]. lia.
      + eexists. unfold bind. rewrite Hs. split; [reflexivity|]. split.
        * exists it. split; [exact Hinv|]. split; [exact He|reflexivity].
        * cbn [pcalls]. lia.
    - rewrite <- He. eexists. unfold bind. rewrite (rbKeyValues_spec _ it Hinv0 Hsz0). split; [reflexivity|]. split.
      + exists it. split; [exact Hinv|]. split; [exact He|reflexivity].
      + reflexivity.
    - eexists. unfold bind, rbSize, get_size. cbn [psize]. split; [reflexivity|]. split.
      + exists it. split; [exact Hinv|]. split; [exact He|reflexivity].
      + reflexivity.
  Qed.

  (* ---------- every history ---------- *)
  Lemma sim_init : sim pinit rb_empty.
  Proof.
    exists IE. split; [|split; reflexivity]. split; [|split; [reflexivity|intros j []]].
    unfold cfg. cbn. repeat split. constructor.
  Qed.

  Lemma ptr_run_sim ops : forall s m, sim s m -> rb_ok m ->
    exists l sf, ptr_run cmp s ops = ROk l sf /\
      sim sf (rb_final cmp m ops) /\ rb_ok (rb_final cmp m ops) /\
      map snd l = map snd (rb_run cmp m ops) /\
      Forall2 (fun ps ms => sim (fst ps) (fst ms)) l (rb_run cmp m ops) /\
      map (fun ps => pcalls (fst ps)) l = rb_calls_run cmp m ops.
  Proof.
    induction ops as [|o rest IH]; intros s m Hsim Hok.
    - exists [], s. cbn. split; [reflexivity|]. split; [exact Hsim|]. split; [exact Hok|]. split; [reflexivity|]. split; [constructor|reflexivity].
    - destruct (ptr_step_sim o s m Hsim Hok) as (s' & Hstep & Hsim' & Hcalls).
      pose proof (rb_step_ok cmp m o Hok) as Hok'.
      destruct (IH s' (fst (rb_step cmp m o)) Hsim' Hok') as (l & sf & Hrun & Hsimf & Hokf & Hout & Hall & Hcl).
      exists ((s', snd (rb_step cmp m o)) :: l), sf.
      cbn [ptr_run]. rewrite Hstep, Hrun. split; [reflexivity|].
      unfold rb_final in *. cbn [fold_left rb_run rb_calls_run]. destruct (rb_step cmp m o) as [m' out] eqn:Hst. cbn [fst snd] in *.
      split; [exact Hsimf|]. split; [exact Hokf|]. split; [cbn [map snd]; rewrite Hout; reflexivity|].
      split; [constructor; [exact Hsim'|exact Hall]|].
      cbn [map fst]. rewrite Hcl, Hcalls. destruct o; reflexivity.
  Qed.

  (* ---------- what the simulation says about the heap itself ---------- *)
  Lemma sim_abs s m : sim s m -> abs_tree s = root m /\ bad_parent s = false.
  Proof.
    intros (it & (Hcfg & Hph & Hb) & He & _). destruct Hcfg as (Hc & Hr & Hnd). cbn [ictx cpar cids] in *.
    rewrite app_nil_r in Hnd. unfold abs_tree, bad_parent. rewrite Hc. split.
    - rewrite <- He. apply (abs_fuel_irep _ _ None); [exact Hr|exact Hph|].
      pose proof (height_le_card (erase it)) as H. rewrite (card_ids it Hph) in H. pose proof (pigeon _ _ Hnd Hb) as H0.
      apply Nat.le_trans with (length (ids it)); [exact H|]. apply Nat.lt_le_incl. exact H0.
    - apply bad_parent_irep; assumption.
  Qed.

  Lemma sim_links s m : sim s m -> links_ok s.
  Proof.
    intros (it & (Hcfg & Hph & Hb) & _ & _). destruct Hcfg as (Hc & Hr & Hnd). cbn [ictx cpar cids] in *.
    rewrite app_nil_r in Hnd. unfold links_ok, reachable. rewrite Hc. split; [|split].
    - intros r n Hrt Hn. destruct (irep_root _ _ _ _ Hr Hrt) as (n' & Hn' & Hp). congruence.
    - intros i (path & Hw). destruct (walk_sub _ _ _ _ _ Hr Hph Hw) as (t' & p' & Ht' & Hph' & Hrid & _ & _).
      destruct t' as [|?|j c l k v r]; [discriminate|cbn in Hph'; discriminate|].
      cbn [rid] in Hrid. injection Hrid as ->. cbn [irep] in Ht'. destruct Ht' as (Hi & Hl & Hr').
      eexists. split; [exact Hi|]. cbn [nleft nright]. split; intros c0 Hc0.
      + destruct (irep_root _ _ _ _ Hl Hc0) as (nc & Hnc & Hp). eauto.
      + destruct (irep_root _ _ _ _ Hr' Hc0) as (nc & Hnc & Hp). eauto.
    - intros p1 p2 i. apply (walk_unique _ _ _ Hr Hph Hnd).
  Qed.

  (* ---------- the theorems ---------- *)
  Theorem ptr_refines_rec_lemma ops :
    exists l sf, ptr_run cmp pinit ops = ROk l sf /\
      map snd l = map snd (rb_run cmp rb_empty ops) /\
      Forall2 (fun ps ms => abs_tree (fst ps) = root (fst ms) /\ psize (fst ps) = size (fst ms) /\ bad_parent (fst ps) = false)
              l (rb_run cmp rb_empty ops) /\
      map (fun ps => pcalls (fst ps)) l = rb_calls_run cmp rb_empty ops /\
      abs_tree sf = root (rb_final cmp rb_empty ops) /\ psize sf = size (rb_final cmp rb_empty ops).
  Proof.
    destruct (ptr_run_sim ops pinit rb_empty sim_init rb_empty_ok) as (l & sf & Hrun & Hsimf & _ & Hout & Hall & Hcl).
    exists l, sf. split; [exact Hrun|]. split; [exact Hout|]. split.
    - clear -Hall. induction Hall as [|ps ms l l' Hs _ IH]; constructor; [|exact IH].
      destruct (sim_abs _ _ Hs) as [Ha Hb]. destruct Hs as (it & _ & _ & Hsz). tauto.
    - split; [exact Hcl|]. destruct (sim_abs _ _ Hsimf) as [Ha _]. destruct Hsimf as (it & _ & _ & Hsz). tauto.
  Qed.

  Theorem parent_links_consistent_lemma ops l sf :
    ptr_run cmp pinit ops = ROk l sf -> links_ok sf /\ Forall (fun ps => links_ok (fst ps)) l.
  Proof.
    intro Hrun. destruct (ptr_run_sim ops pinit rb_empty sim_init rb_empty_ok) as (l' & sf' & Hrun' & Hsimf & _ & _ & Hall & _).
    rewrite Hrun in Hrun'. injection Hrun' as <- <-. split; [exact (sim_links _ _ Hsimf)|].
    clear -Hall. induction Hall as [|ps ms l l' Hs _ IH]; constructor; [exact (sim_links _ _ Hs)|exact IH].
  Qed.

  Theorem ptr_rb_inv_reachable_lemma ops l sf :
    ptr_run cmp pinit ops = ROk l sf -> rb_inv (abs_tree sf) /\ Forall (fun ps => rb_inv (abs_tree (fst ps))) l.
  Proof.
    intro Hrun. destruct (ptr_run_sim ops pinit rb_empty sim_init rb_empty_ok) as (l' & sf' & Hrun' & Hsimf & Hokf & _ & Hall & _).
    rewrite Hrun in Hrun'. injection Hrun' as <- <-. split.
    - rewrite (proj1 (sim_abs _ _ Hsimf)). exact (proj1 Hokf).
    - assert (Hoks : forall m ops0, rb_ok m -> Forall (fun ms => rb_ok (fst ms)) (rb_run cmp m ops0)).
      { intros m ops0. revert m. induction ops0 as [|o rest IH]; intros m Hm; [constructor|].
        cbn [rb_run]. pose proof (rb_step_ok cmp m o Hm) as Hm'. destruct (rb_step cmp m o) as [m' out]. constructor; [exact Hm'|apply IH; exact Hm']. }
      specialize (Hoks rb_empty ops rb_empty_ok). revert Hoks. clear -Hall.
      induction Hall as [|ps ms l l' Hs _ IH]; intro Hoks; constructor.
      + rewrite (proj1 (sim_abs _ _ Hs)). inversion Hoks as [|? ? Hm _]; subst. exact (proj1 Hm).
      + apply IH. inversion Hoks; assumption.
  Qed.

  Theorem ptr_findNode_calls_lemma ops l sf k :
    ptr_run cmp pinit ops = ROk l sf ->
    exists r s', findNode cmp (pfuel sf) k sf = ROk r s' /\
      (pcalls s' - pcalls sf <= 2 * Nat.log2 (card (abs_tree sf) + 1))%nat /\
      (pcalls s' - pcalls sf <= 2 * Nat.log2 (Z.to_nat (psize sf) + 1))%nat.
  Proof.
    intro Hrun. destruct (ptr_run_sim ops pinit rb_empty sim_init rb_empty_ok) as (l' & sf' & Hrun' & Hsimf & Hokf & _ & _ & _).
    rewrite Hrun in Hrun'. injection Hrun' as <- <-.
    pose proof (proj1 (sim_abs _ _ Hsimf)) as Ha. destruct Hsimf as (it & Hinv & He & Hsz).
    assert (Hsz' : psize sf = Z.of_nat (card (erase it))) by (rewrite Hsz, He; exact (proj2 Hokf)).
    destruct (findNode_spec k sf it Hinv Hsz') as (r & Hrunf & _).
    eexists; eexists. split; [exact Hrunf|]. cbn [pcalls]. rewrite Ha, <- He.
    replace (cmp_calls cmp k (erase it) + pcalls sf - pcalls sf)%nat with (cmp_calls cmp k (erase it)) by lia.
    assert (Hinv' : rb_inv (erase it)) by (rewrite He; exact (proj1 Hokf)).
    pose proof (cmp_calls_height cmp k (erase it)) as H1. pose proof (height_logarithmic_lemma _ Hinv') as H2.
    split; [lia|]. rewrite Hsz', Nat2Z.id. lia.
  Qed.
End Ops.
