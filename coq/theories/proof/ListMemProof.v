(* Proofs about ListMemModel (C04, aliasing layer): which arrays ArrayList and
   CopyOnWriteArrayList write, where their results live, and that the contents of the live
   array and the outputs are those of the abstract sequence (hence of ListModel). *)
From Coq Require Import ZifyBool.
From Ekit Require Import Common ListModel ListProof ListProof2 SliceModel SliceProof SliceProof2
  SliceMemModel SliceMemProof ListMemModel.

(* all arrays that exist in st, except array a, are unchanged in st' (st' may have more arrays) *)
Definition frame_but (a : nat) (st st' : store) : Prop :=
  (length st <= length st')%nat /\
  forall b, (b < length st)%nat -> b <> a -> arr_of st' b = arr_of st b.

Lemma mcontents_contents st s : mcontents st s = contents_s st s.
Proof. destruct s as [h|]; reflexivity. Qed.

(* ---------- generic facts ---------- *)
Lemma nth_mid_other {A} (S1 : list A) X Y S2 d b :
  b <> length S1 -> nth b (S1 ++ X :: S2) d = nth b (S1 ++ Y :: S2) d.
Proof.
  intros Hb. destruct (Nat.lt_ge_cases b (length S1)) as [Hlt|Hge].
  - rewrite !app_nth1 by exact Hlt. reflexivity.
  - rewrite !app_nth2 by exact Hge. destruct (b - length S1)%nat as [|k] eqn:E; [lia|reflexivity].
Qed.

Lemma length_mk S1 pre w post S2 : length (mk_st S1 pre w post S2) = (length S1 + S (length S2))%nat.
Proof. unfold mk_st. rewrite app_length. reflexivity. Qed.

Lemma frame_refl a st : frame_but a st st.
Proof. split; [lia | intros; reflexivity]. Qed.

Lemma frame_mk S1 pre w post pre' w' post' S2 :
  frame_but (length S1) (mk_st S1 pre w post S2) (mk_st S1 pre' w' post' S2).
Proof.
  split; [rewrite !length_mk; lia|]. intros b _ Hb. unfold arr_of, mk_st. apply nth_mid_other. exact Hb.
Qed.

Lemma frame_app a st X : frame_but a st (st ++ X).
Proof.
  split; [rewrite app_length; lia|]. intros b Hb _. unfold arr_of. apply app_nth1. exact Hb.
Qed.

Lemma frame_trans a a' st st1 st2 :
  frame_but a st st1 -> frame_but a' st1 st2 -> (a' = a \/ length st <= a')%nat -> frame_but a st st2.
Proof.
  intros [Hl1 H1] [Hl2 H2] Ha. split; [lia|]. intros b Hb Hne.
  rewrite H2; [apply H1; assumption | lia | lia].
Qed.

Lemma keeps_frame a st st' : keeps st st' -> frame_but a st st'.
Proof.
  intros Hk. split; [apply keeps_len; exact Hk|]. intros b Hb _. apply keeps_arr; assumption.
Qed.

Lemma wf_mk h S1 pre w post S2 :
  hmatch h S1 pre w -> (h_len h <= h_cap h)%nat -> (h_cap h <= length w + length post)%nat ->
  wf (mk_st S1 pre w post S2) h.
Proof.
  intros [Ha [Ho Hl]] Hc Hp. unfold wf. rewrite Ha, arr_of_mk, length_mk, !app_length.
  repeat split; lia.
Qed.

Lemma skipn_repeat {A} (x : A) n c : skipn n (repeat x c) = repeat x (c - n).
Proof.
  revert c. induction n as [|n IH]; intros c; [rewrite Nat.sub_0_r; reflexivity|].
  destruct c as [|c]; [reflexivity|]. cbn [repeat skipn]. apply IH.
Qed.

Lemma write_at_mk S1 pre w post S2 xs : (length xs <= length post)%nat ->
  write_at (mk_st S1 pre w post S2) (length S1) (length pre + length w) xs
  = mk_st S1 pre (w ++ xs) (skipn (length xs) post) S2.
Proof.
  intros Hx. unfold write_at. rewrite arr_of_mk. unfold mk_st. rewrite set_nth_mid_gen.
  f_equal. f_equal.
  assert (He : pre ++ w ++ post = (pre ++ w) ++ post) by (rewrite app_assoc; reflexivity).
  rewrite He. rewrite <- app_length.
  rewrite firstn_app, firstn_all, Nat.sub_diag. cbn [firstn]. rewrite app_nil_r.
  rewrite skipn_app, skipn_all2 by lia.
  replace (length (pre ++ w) + length xs - length (pre ++ w))%nat with (length xs) by lia.
  cbn [app]. rewrite <- !app_assoc. reflexivity.
Qed.

Lemma make_copy st n c xs : length xs = n -> (n <= c)%nat ->
  copy_m (fst (make st n c)) (snd (make st n c)) xs = st ++ [xs ++ repeat 0 (c - n)].
Proof.
  intros Hx Hc. unfold copy_m, make, write_at. cbn [fst snd h_arr h_off h_len].
  unfold arr_of. rewrite (nth_mid_gen st (repeat 0 c) [] []), set_nth_mid_gen.
  cbn [firstn app]. rewrite <- Hx, firstn_all, Nat.add_0_l, skipn_repeat. reflexivity.
Qed.

Lemma as_slice_closed st s : wfs st s ->
  m_as_slice st s = (st ++ [contents_s st s], mkhdr (length st) 0 (mlen s) (mlen s)).
Proof.
  intros Hw. unfold m_as_slice. rewrite mcontents_contents.
  rewrite make_copy by (try apply contents_s_length; try exact Hw; lia).
  rewrite Nat.sub_diag. cbn [repeat]. rewrite app_nil_r. reflexivity.
Qed.

(* a header at the end of the store: st ++ [w ++ post] *)
Lemma last_as_mk st w post : st ++ [w ++ post] = mk_st st [] w post [].
Proof. reflexivity. Qed.

Lemma hmatch_last st l c w : length w = l -> hmatch (mkhdr (length st) 0 l c) st [] w.
Proof. intros Hl. repeat split; cbn [h_arr h_off h_len length]; lia. Qed.

Lemma keeps_last st X : keeps st (st ++ X).
Proof. apply keeps_app, keeps_refl. Qed.

Lemma nth_firstn_lt' {A} : forall n (l : list A) b d, (b < n)%nat -> nth b (firstn n l) d = nth b l d.
Proof.
  induction n as [|n IH]; intros l b d Hb; [lia|].
  destruct l as [|x l]; [destruct b; reflexivity|]. destruct b as [|b]; [reflexivity|].
  cbn [firstn nth]. apply IH. lia.
Qed.

Lemma keeps_frame_trans st st1 st2 a :
  keeps st st1 -> frame_but a st1 st2 -> (length st <= a)%nat -> keeps st st2.
Proof.
  intros Hk [Hl Hf] Ha. pose proof (keeps_len _ _ Hk) as Hl1. unfold keeps.
  apply nth_ext with (d := []) (d' := []).
  - rewrite firstn_length. lia.
  - intros b Hb. rewrite firstn_length in Hb. assert (Hb' : (b < length st)%nat) by lia.
    rewrite nth_firstn_lt' by exact Hb'.
    change (nth b st2 []) with (arr_of st2 b). rewrite Hf by lia.
    change (nth b st []) with (arr_of st b). apply keeps_arr; assumption.
Qed.

Lemma keeps_trans st st1 st2 : keeps st st1 -> keeps st1 st2 -> keeps st st2.
Proof.
  intros H1 H2. apply (keeps_frame_trans st st1 st2 (length st) H1); [apply keeps_frame; exact H2 | lia].
Qed.

(* ---------- the variadic append ---------- *)
Section G.
  Variable grow : nat -> nat -> nat.

  Lemma append_many_in_place S1 pre w post S2 h xs :
    hmatch h S1 pre w -> xs <> [] -> (h_len h + length xs <= h_cap h)%nat ->
    (h_cap h <= h_len h + length post)%nat ->
    append_many grow (mk_st S1 pre w post S2) (Some h) xs =
    (mk_st S1 pre (w ++ xs) (skipn (length xs) post) S2,
     Some (mkhdr (h_arr h) (h_off h) (h_len h + length xs) (h_cap h))).
  Proof.
    intros [Ha [Ho Hl]] Hne Hfit Hpost. unfold append_many. destruct xs as [|x xs]; [congruence|].
    cbn [hdr_of]. rewrite (proj2 (Nat.leb_le _ _) Hfit). rewrite Ha, Ho, Hl.
    rewrite write_at_mk by lia. reflexivity.
  Qed.

  Lemma append_many_spec st h xs : wf st h ->
    exists st' h', append_many grow st (Some h) xs = (st', Some h') /\ wf st' h' /\
      contents st' h' = contents st h ++ xs /\ frame_but (h_arr h) st st' /\
      (((h_len h + length xs <= h_cap h)%nat \/ xs = []) ->
         h_arr h' = h_arr h /\ h_off h' = h_off h /\ h_cap h' = h_cap h /\ length st' = length st) /\
      (xs <> [] -> (h_cap h < h_len h + length xs)%nat -> h_arr h' = length st /\ keeps st st').
  Proof.
    intros Hw. destruct xs as [|x xs'] eqn:Ex.
    - exists st, h. cbn [append_many]. rewrite app_nil_r.
      split; [reflexivity|]. split; [exact Hw|]. split; [reflexivity|]. split; [apply frame_refl|].
      split; [intros _; repeat split; reflexivity|]. intros Hc; congruence.
    - rewrite <- Ex. assert (Hne : xs <> []) by (rewrite Ex; discriminate).
      destruct (Nat.le_gt_cases (h_len h + length xs) (h_cap h)) as [Hfit|Hno].
      + destruct (decompose st h Hw) as [S1 [pre [post [S2 [Hst [Hm Hpost]]]]]].
        remember (contents st h) as w eqn:Ew.
        pose proof Hm as [Ha [Ho Hl]].
        exists (mk_st S1 pre (w ++ xs) (skipn (length xs) post) S2),
               (mkhdr (h_arr h) (h_off h) (h_len h + length xs) (h_cap h)).
        assert (Hm' : hmatch (mkhdr (h_arr h) (h_off h) (h_len h + length xs) (h_cap h)) S1 pre (w ++ xs)).
        { repeat split; cbn [h_arr h_off h_len]; try assumption. rewrite app_length. lia. }
        split; [rewrite Hst at 1; apply append_many_in_place; assumption|].
        split; [apply wf_mk; cbn [h_len h_cap]; try assumption; rewrite ?app_length, ?skipn_length; lia|].
        split; [apply contents_mk; exact Hm'|].
        split; [rewrite Hst at 1; rewrite Ha; apply frame_mk|].
        split; [intros _; cbn [h_arr h_off h_cap]; split; [reflexivity|]; split; [reflexivity|];
                split; [reflexivity|]; rewrite Hst; rewrite !length_mk; reflexivity|].
        intros _ Hc. lia.
      + exists (st ++ [mcontents st (Some h) ++ xs ++ repeat 0 (grow (h_len h) (length xs))]),
               (mkhdr (length st) 0 (h_len h + length xs) (h_len h + length xs + grow (h_len h) (length xs))).
        assert (Hlen : length (contents st h) = h_len h).
        { apply (contents_s_length st (Some h)). exact Hw. }
        split.
        { unfold append_many. rewrite Ex. rewrite <- Ex. cbn [hdr_of].
          rewrite (proj2 (Nat.leb_gt _ _) Hno). reflexivity. }
        change (mcontents st (Some h)) with (contents st h).
        assert (Hm' : hmatch (mkhdr (length st) 0 (h_len h + length xs)
                        (h_len h + length xs + grow (h_len h) (length xs))) st [] (contents st h ++ xs)).
        { apply hmatch_last. rewrite app_length. lia. }
        assert (Hst' : st ++ [contents st h ++ xs ++ repeat 0 (grow (h_len h) (length xs))]
                       = mk_st st [] (contents st h ++ xs) (repeat 0 (grow (h_len h) (length xs))) []).
        { unfold mk_st. cbn [app]. rewrite <- app_assoc. reflexivity. }
        rewrite Hst'.
        split; [apply wf_mk; cbn [h_len h_cap]; try exact Hm'; rewrite ?app_length, ?repeat_length; lia|].
        split; [apply contents_mk; exact Hm'|].
        split; [rewrite <- Hst'; apply frame_app|].
        split; [intros [Hc|Hc]; [lia|congruence]|].
        intros _ _. split; [reflexivity|]. rewrite <- Hst'. apply keeps_last.
  Qed.
End G.

(* ---------- bridges between the list functions of Common / ListModel and firstn / skipn ---------- *)
Lemma insert_at_fs : forall (l : list Z) n x, (n <= length l)%nat ->
  insert_at l n x = firstn n l ++ x :: skipn n l.
Proof.
  induction l as [|a l IH]; intros [|n] x H; cbn [insert_at firstn skipn app length] in *;
    try reflexivity; try lia.
  f_equal. apply IH. lia.
Qed.

Lemma get_chk_nth_d : forall (w : list Z) i, (i < length w)%nat -> get_chk w i = Ok (nth_d i w 0).
Proof.
  unfold get_chk. induction w as [|a w IH]; intros [|i] H; cbn [length nth_opt nth_d] in *;
    try reflexivity; try lia.
  apply IH. lia.
Qed.

Lemma split_w (w : list Z) i : (i < length w)%nat ->
  exists p x q, w = p ++ x :: q /\ length p = i.
Proof. intros H. exact (ListProof.split_mid w i H). Qed.

(* internal/slice.Delete on a window (as SliceMemProof.delete_m_lemma, keeping the removed element) *)
Lemma delete_internal_m_lemma h S1 pre w post S2 index : hmatch h S1 pre w -> (h_len h <= h_cap h)%nat ->
  delete_internal_m (mk_st S1 pre w post S2) (Some h) index =
  match delete_internal w index with
  | Ok (r, x, after) =>
      Ok (mk_st S1 pre after post S2, Some (mkhdr (h_arr h) (h_off h) (h_len h - 1) (h_cap h)), x)
  | Err e => Err e
  | Panic => Panic
  end.
Proof.
  intros Hm Hcap. unfold delete_internal_m, delete_internal, mlen. cbn [hdr_of].
  pose proof Hm as [_ [_ Hl]]. rewrite Hl.
  destruct ((index <? 0) || (index >=? Z.of_nat (length w))); [reflexivity|].
  rewrite (load_mk h S1 pre w post S2 _ Hm).
  destruct (get_chk w (Z.to_nat index)) as [res| |]; cbn [obind]; try reflexivity.
  rewrite (shift_left_lift h S1 pre post S2 _ w _ Hm).
  destruct (shift_left w (Z.to_nat index) (length w - 1 - Z.to_nat index)) as [a| |]; cbn [obind lift]; try reflexivity.
  unfold reslice.
  assert (Hr : ((0 <=? length w - 1)%nat && (length w - 1 <=? h_cap h)%nat)%bool = true).
  { apply andb_true_intro. split; [apply Nat.leb_le; lia|apply Nat.leb_le; lia]. }
  rewrite Hr. cbn [obind fst snd]. rewrite Nat.add_0_r, !Nat.sub_0_r. reflexivity.
Qed.

Lemma contents_last st w post c :
  contents (st ++ [w ++ post]) (mkhdr (length st) 0 (length w) c) = w.
Proof. rewrite last_as_mk. apply contents_mk. apply hmatch_last. reflexivity. Qed.

Section G2.
  Variable grow : nat -> nat -> nat.

  Lemma m_range_spec st h stop : wf st h -> forall n i, (i + n = h_len h)%nat ->
    m_range st h i n stop = Ok (range_loop (skipn i (contents st h)) (Z.of_nat i) stop).
  Proof.
    intros Hw. assert (Hlen : length (contents st h) = h_len h) by (apply (contents_s_length st (Some h)); exact Hw).
    induction n as [|n IH]; intros i Hi; cbn [m_range].
    - rewrite skipn_all2 by lia. reflexivity.
    - destruct (get_step st (Some h) i Hw) as [v [Hv Hs]]; [unfold mlen; cbn [hdr_of]; lia|].
      cbn [hdr_of contents_s] in Hv, Hs. rewrite Hv, Hs. cbn [obind range_loop].
      destruct (Z.of_nat i =? stop); [reflexivity|].
      rewrite IH by lia. cbn [obind]. replace (Z.of_nat (S i)) with (Z.of_nat i + 1) by lia. reflexivity.
  Qed.

  (* Shrink: contents kept; either nothing happens or the live header moves to a FRESH array *)
  Lemma mshrink_spec st h : wf st h ->
    exists st' h', mshrink grow st (Some h) = Ok (st', Some h') /\ wf st' h' /\
      contents st' h' = contents st h /\ keeps st st' /\
      ((st' = st /\ h' = h /\ snd (cal_capacity (Z.of_nat (h_cap h)) (Z.of_nat (h_len h))) = false) \/
       ((length st <= h_arr h')%nat /\ snd (cal_capacity (Z.of_nat (h_cap h)) (Z.of_nat (h_len h))) = true)).
  Proof.
    intros Hw. unfold mshrink, mcap, mlen. cbn [hdr_of].
    destruct (cal_capacity (Z.of_nat (h_cap h)) (Z.of_nat (h_len h))) as [n changed] eqn:E.
    destruct changed; cbn [negb snd].
    - pose proof (cal_capacity_nonneg _ _ _ E) as Hn.
      replace (n <? 0) with false by lia.
      set (N := Z.to_nat n).
      assert (Hw0 : wf (fst (make st 0 N)) (snd (make st 0 N))).
      { unfold make. cbn [fst snd]. rewrite <- (app_nil_l (repeat 0 N)), last_as_mk.
        apply wf_mk; [apply hmatch_last; reflexivity | cbn [h_len h_cap]; lia |
                      cbn [h_cap length]; rewrite repeat_length; lia]. }
      destruct (append_many_spec grow _ _ (mcontents st (Some h)) Hw0)
        as [st' [h' [Ha [Hw' [Hc [Hf [Hin Hout]]]]]]].
      exists st', h'. split; [rewrite Ha; reflexivity|]. split; [exact Hw'|].
      assert (Hk0 : keeps st (fst (make st 0 N))) by (unfold make; cbn [fst]; apply keeps_last).
      assert (Hc0 : contents (fst (make st 0 N)) (snd (make st 0 N)) = []).
      { unfold make. cbn [fst snd]. rewrite <- (app_nil_l (repeat 0 N)). apply (contents_last st [] (repeat 0 N) N). }
      split; [rewrite Hc, Hc0; reflexivity|].
      assert (Hl0 : length (fst (make st 0 N)) = S (length st)).
      { unfold make. cbn [fst]. rewrite app_length. cbn [length]. lia. }
      assert (Ha0 : h_arr (snd (make st 0 N)) = length st) by reflexivity.
      assert (Hkeep : keeps st st' /\ (length st <= h_arr h')%nat).
      { destruct (list_eq_dec Z.eq_dec (mcontents st (Some h)) []) as [Hnil|Hnn].
        - destruct (Hin (or_intror Hnil)) as [H1 [_ [_ H4]]].
          rewrite Hnil in Ha. cbn [append_many] in Ha. injection Ha as Ha1 Ha2. subst st'.
          split; [exact Hk0 | rewrite <- Ha2; cbn [snd make h_arr]; lia].
        - destruct (Nat.le_gt_cases (h_len (snd (make st 0 N)) + length (mcontents st (Some h)))
                                    (h_cap (snd (make st 0 N)))) as [Hfit|Hno].
          + destruct (Hin (or_introl Hfit)) as [H1 [_ [_ H4]]]. split; [|rewrite H1, Ha0; lia].
            apply (keeps_frame_trans st _ st' _ Hk0 Hf). rewrite Ha0. lia.
          + destruct (Hout Hnn Hno) as [H1 H2]. split; [|rewrite H1, Hl0; lia].
            apply (keeps_trans st _ st' Hk0 H2). }
      destruct Hkeep as [Hk Hge]. split; [exact Hk|]. right. split; [exact Hge | reflexivity].
    - exists st, h. split; [reflexivity|]. split; [exact Hw|]. split; [reflexivity|].
      split; [apply keeps_refl|]. left. repeat split.
  Qed.
End G2.

(* ====================================================================== *)
(* ArrayList, one call                                                     *)
(* ====================================================================== *)
Definition al_post (st : store) (h : hdr) (w : list Z) (o : op) (st' : store) (h' : hdr) (r : outcome out) : Prop :=
  wf st' h' /\
  contents st' h' = fst (seq_step w o) /\
  canon r = snd (seq_step w o) /\
  frame_but (h_arr h) st st' /\
  (h_arr h' = h_arr h \/ (length st <= h_arr h')%nat) /\
  (forall e, r = Err e -> st' = st /\ h' = h) /\
  (h_arr h' = h_arr h <-> reallocates h o = false).

Ltac same_state Hw Hc :=
  split; [exact Hw|]; split; [first [exact Hc | reflexivity]|]; split; [reflexivity|]; split; [apply frame_refl|];
  split; [left; reflexivity|]; split; [intros e He; first [discriminate | split; reflexivity]|];
  cbn [reallocates]; try match goal with H : (_ && _)%bool = false |- _ => rewrite H end;
  cbn [andb]; split; intros; reflexivity.

Section G3.
  Variable grow : nat -> nat -> nat.

  Lemma mal_step_win S1 pre w post S2 h o :
    hmatch h S1 pre w -> (h_len h <= h_cap h)%nat -> (h_cap h <= length w + length post)%nat ->
    exists st' h' r, mal_step grow (mk_st S1 pre w post S2) (Some h) o = (st', Some h', r) /\
                     al_post (mk_st S1 pre w post S2) h w o st' h' r.
  Proof.
    intros Hm Hlc Hpost. pose proof Hm as [Ha [Ho Hl]].
    assert (Hw : wf (mk_st S1 pre w post S2) h) by (apply wf_mk; assumption).
    assert (Hc : contents (mk_st S1 pre w post S2) h = w) by (apply contents_mk; exact Hm).
    assert (Hz : zlen w = Z.of_nat (h_len h)) by (unfold zlen; rewrite Hl; reflexivity).
    destruct o as [i|xs|i x|i x|i| | |stop| ]; cbn [mal_step]; unfold mlen, mcap, al_post;
      cbn [hdr_of seq_step]; rewrite ?Hz.
    - (* Get *)
      eexists _, _, _. split; [reflexivity|]. unfold al_post.
      rewrite (load_mk h S1 pre w post S2 _ Hm).
      destruct (in_idx i (Z.of_nat (h_len h))) eqn:E; unfold in_idx in E; cbn [fst snd].
      + replace ((i <? 0) || (i >=? Z.of_nat (h_len h))) with false by lia.
        rewrite get_chk_nth_d by lia. cbn [obind canon].
        same_state Hw Hc.
      + replace ((i <? 0) || (i >=? Z.of_nat (h_len h))) with true by lia. cbn [canon].
        same_state Hw Hc.
    - (* Append *)
      destruct (append_many_spec grow _ _ xs Hw) as [st' [h' [He [Hw' [Hc' [Hf [Hin Hout]]]]]]].
      exists st', h', (Ok OUnit). rewrite He. split; [reflexivity|]. unfold al_post. cbn [seq_step fst snd canon].
      split; [exact Hw'|]. split; [rewrite Hc', Hc; reflexivity|]. split; [reflexivity|].
      split; [exact Hf|].
      assert (Harr : (h_arr h < length (mk_st S1 pre w post S2))%nat) by (destruct Hw as [Hx _]; exact Hx).
      cbn [reallocates].
      destruct (list_eq_dec Z.eq_dec xs []) as [Hnil|Hnn].
      { destruct (Hin (or_intror Hnil)) as [H1 _]. subst xs. cbn [length Nat.eqb negb andb].
        split; [left; exact H1|]. split; [intros e He'; discriminate|]. split; intros; [reflexivity | exact H1]. }
      assert (Hlx : (length xs <> 0)%nat) by (destruct xs; [congruence | cbn [length]; lia]).
      replace (Nat.eqb (length xs) 0) with false by (symmetry; apply Nat.eqb_neq; exact Hlx). cbn [negb andb].
      destruct (Nat.le_gt_cases (h_len h + length xs) (h_cap h)) as [Hfit|Hno].
      { destruct (Hin (or_introl Hfit)) as [H1 _].
        split; [left; exact H1|]. split; [intros e He'; discriminate|].
        split; intros; [apply Nat.ltb_ge; lia | exact H1]. }
      destruct (Hout Hnn Hno) as [H1 _].
      split; [right; rewrite H1; lia|]. split; [intros e He'; discriminate|].
      split; [intros H2; lia | intros H2; apply Nat.ltb_ge in H2; lia].
    - (* Add *)
      destruct (Nat.lt_ge_cases (h_len h) (h_cap h)) as [Hspare|Hfull].
      + destruct post as [|z post']; [cbn [length] in Hpost; lia|].
        rewrite (add_m_in_place (grow1 grow) h S1 pre w z post' S2 x i Hm Hspare). rewrite add_lemma, <- Hl.
        destruct ((0 <=? i) && (i <=? Z.of_nat (h_len h))) eqn:E.
        * eexists _, _, _. split; [reflexivity|]. unfold al_post. cbn [fst snd canon h_arr].
          set (r := firstn (Z.to_nat i) w ++ x :: skipn (Z.to_nat i) w).
          assert (Hm' : hmatch (mkhdr (h_arr h) (h_off h) (S (h_len h)) (h_cap h)) S1 pre r).
          { repeat split; cbn [h_arr h_off h_len]; try assumption. unfold r.
            rewrite app_length. cbn [length]. rewrite firstn_length, skipn_length. lia. }
          split; [apply wf_mk; cbn [h_len h_cap length] in *; try exact Hm'; try lia|].
          { unfold r. rewrite app_length. cbn [length]. rewrite firstn_length, skipn_length. lia. }
          split; [rewrite (contents_mk _ S1 pre r post' S2 Hm'); unfold r; rewrite insert_at_fs by lia; reflexivity|].
          split; [reflexivity|]. split; [rewrite Ha; apply frame_mk|].
          split; [left; reflexivity|]. split; [intros e He; discriminate|].
          cbn [reallocates]. rewrite E. cbn [andb]. split; intros; [apply Nat.leb_gt; lia | reflexivity].
        * eexists _, _, _. split; [reflexivity|]. unfold al_post. cbn [fst snd canon].
          same_state Hw Hc.
      + rewrite (add_m_fresh (grow1 grow) (mk_st S1 pre w post S2) (Some h) w x i);
          [| exact Hc | unfold mlen; cbn [hdr_of]; exact Hl | unfold mlen; cbn [hdr_of]; exact Hfull].
        rewrite add_lemma, <- Hl.
        destruct ((0 <=? i) && (i <=? Z.of_nat (h_len h))) eqn:E.
        * eexists _, _, _. split; [reflexivity|]. unfold al_post. cbn [fst snd canon h_arr].
          set (r := firstn (Z.to_nat i) w ++ x :: skipn (Z.to_nat i) w).
          set (st := mk_st S1 pre w post S2).
          assert (Hlr : length r = S (h_len h)).
          { unfold r. rewrite app_length. cbn [length]. rewrite firstn_length, skipn_length. lia. }
          assert (Hm' : hmatch (mkhdr (length st) 0 (S (h_len h)) (S (h_len h) + grow1 grow (h_len h))) st [] r).
          { apply hmatch_last. exact Hlr. }
          rewrite last_as_mk.
          split; [apply wf_mk; cbn [h_len h_cap]; try exact Hm'; rewrite ?repeat_length; lia|].
          split; [rewrite (contents_mk _ st [] r _ [] Hm'); unfold r; rewrite insert_at_fs by lia; reflexivity|].
          split; [reflexivity|]. split; [rewrite <- last_as_mk; apply frame_app|].
          split; [right; lia|]. split; [intros e He; discriminate|].
          assert (Harr : (h_arr h < length st)%nat) by (destruct Hw as [Hx _]; exact Hx).
          cbn [reallocates]. rewrite E. cbn [andb].
          split; [intros H2; lia | intros H2; apply Nat.leb_gt in H2; lia].
        * eexists _, _, _. split; [reflexivity|]. unfold al_post. cbn [fst snd canon].
          same_state Hw Hc.
    - (* Set *)
      destruct (in_idx i (Z.of_nat (h_len h))) eqn:E; unfold in_idx in E.
      + replace ((i >=? Z.of_nat (h_len h)) || (i <? 0)) with false by lia.
        rewrite (store_mk h S1 pre w post S2 _ _ Hm). unfold set_chk.
        replace (Z.to_nat i <? length w)%nat with true by lia. cbn [obind].
        eexists _, _, _. split; [reflexivity|]. unfold al_post. cbn [fst snd canon].
        assert (Hm' : hmatch h S1 pre (set_nth w (Z.to_nat i) x)).
        { apply (hmatch_len h S1 pre w); [exact Hm | apply SliceMemProof.set_nth_length]. }
        split; [apply wf_mk; try assumption; rewrite SliceMemProof.set_nth_length; exact Hpost|].
        split; [apply contents_mk; exact Hm'|]. split; [reflexivity|].
        split; [rewrite Ha; apply frame_mk|]. split; [left; reflexivity|]. split; [intros e He; discriminate|].
        cbn [reallocates]. split; intros; reflexivity.
      + replace ((i >=? Z.of_nat (h_len h)) || (i <? 0)) with true by lia.
        eexists _, _, _. split; [reflexivity|]. unfold al_post. cbn [fst snd canon].
        same_state Hw Hc.
    - (* Delete *)
      rewrite (delete_internal_m_lemma h S1 pre w post S2 i Hm Hlc).
      destruct (in_idx i (Z.of_nat (h_len h))) eqn:E; unfold in_idx in E.
      + destruct (split_w w (Z.to_nat i)) as [p [y [q [Hwq Hp]]]]; [lia|].
        assert (Hdel : delete_internal w i = Ok (p ++ q, y, p ++ q ++ [last q y])).
        { rewrite Hwq. replace i with (Z.of_nat (length p)) by lia. apply delete_at_lemma. }
        rewrite Hdel. cbn [fst snd].
        set (h1 := mkhdr (h_arr h) (h_off h) (h_len h - 1) (h_cap h)).
        assert (Hst1 : mk_st S1 pre (p ++ q ++ [last q y]) post S2 = mk_st S1 pre (p ++ q) (last q y :: post) S2).
        { unfold mk_st. repeat rewrite <- app_assoc. reflexivity. }
        rewrite Hst1.
        assert (Hlpq : length (p ++ q) = (h_len h - 1)%nat).
        { rewrite Hl, Hwq, !app_length. cbn [length]. lia. }
        assert (Hm1 : hmatch h1 S1 pre (p ++ q)) by (repeat split; cbn [h1 h_arr h_off h_len]; try assumption; lia).
        assert (Hw1 : wf (mk_st S1 pre (p ++ q) (last q y :: post) S2) h1).
        { apply wf_mk; cbn [h1 h_len h_cap length]; try exact Hm1; lia. }
        destruct (mshrink_spec grow _ _ Hw1) as [st' [h' [Hs [Hw' [Hc' [Hk Hcase]]]]]].
        rewrite Hs. exists st', h', (Ok (OVal y)). split; [reflexivity|]. unfold al_post. cbn [fst snd canon].
        split; [exact Hw'|].
        split; [rewrite Hc', (contents_mk _ _ _ _ _ _ Hm1), Hwq, <- Hp, remove_at_mid; reflexivity|].
        split; [rewrite Hwq, <- Hp, nth_d_mid; reflexivity|].
        split.
        { apply (frame_trans _ (h_arr h) _ (mk_st S1 pre (p ++ q) (last q y :: post) S2));
            [rewrite Ha; apply frame_mk | apply keeps_frame; exact Hk | left; reflexivity]. }
        assert (Harr : (h_arr h < length (mk_st S1 pre w post S2))%nat) by (destruct Hw as [Hx _]; exact Hx).
        cbn [reallocates]. replace ((0 <=? i) && (i <? Z.of_nat (h_len h))) with true by lia. cbn [andb].
        cbn [h1 h_cap h_len] in Hcase.
        destruct Hcase as [[_ [Hh Hcc]]|[Hge Hcc]].
        { split; [left; rewrite Hh; reflexivity|]. split; [intros e He; discriminate|].
          split; intros; [exact Hcc | rewrite Hh; reflexivity]. }
        rewrite length_mk in *.
        split; [right; exact Hge|]. split; [intros e He; discriminate|].
        rewrite Hcc. split; [intros H2; lia | intros H2; discriminate].
      + unfold delete_internal.
        replace ((i <? 0) || (i >=? Z.of_nat (length w))) with true by lia.
        eexists _, _, _. split; [reflexivity|]. unfold al_post. cbn [fst snd canon].
        same_state Hw Hc.
    - (* Len *)
      eexists _, _, _. split; [reflexivity|]. unfold al_post. cbn [seq_step fst snd canon].
      same_state Hw Hc.
    - (* Cap *)
      eexists _, _, _. split; [reflexivity|]. unfold al_post. cbn [seq_step fst snd canon].
      same_state Hw Hc.
    - (* Range *)
      eexists _, _, _. split; [reflexivity|]. unfold al_post. cbn [seq_step fst snd].
      rewrite (m_range_spec _ h stop Hw (h_len h) 0) by lia. rewrite Hc. cbn [skipn obind canon Z.of_nat].
      pose proof (range_loop_seq w stop) as Hr. cbv zeta in Hr. rewrite Hr.
      same_state Hw Hc.
    - (* AsSlice *)
      rewrite (as_slice_closed _ (Some h) Hw). cbn [fst snd contents_s]. unfold mlen. cbn [hdr_of].
      rewrite Hc.
      eexists _, _, _. split; [reflexivity|]. unfold al_post. cbn [seq_step fst snd canon].
      destruct (wfs_keeps _ (mk_st S1 pre w post S2 ++ [w]) (Some h) (keeps_last _ _) Hw) as [Hw2 Hc2].
      cbn [wfs contents_s] in Hw2, Hc2.
      split; [exact Hw2|]. split; [rewrite Hc2; exact Hc|].
      split.
      { unfold mcontents. cbn [hdr_of h_len h_off h_arr].
        pose proof (contents_last (mk_st S1 pre w post S2) w [] (h_len h)) as Hcl.
        rewrite app_nil_r in Hcl. unfold contents in Hcl. cbn [h_len h_off h_arr] in Hcl.
        rewrite <- Hl in Hcl. rewrite Hcl. reflexivity. }
      split; [apply frame_app|]. split; [left; reflexivity|]. split; [intros e He; discriminate|].
      cbn [reallocates]. split; intros; reflexivity.
  Qed.
End G3.

(* ====================================================================== *)
(* ArrayList: every well-formed state, histories, aliasing                  *)
(* ====================================================================== *)
Lemma frame_wf_contents a st st' h :
  frame_but a st st' -> h_arr h <> a -> wf st h -> wf st' h /\ contents st' h = contents st h.
Proof.
  intros [Hl Hf] Hne [Ha [Hlc Hoc]]. unfold wf, contents. rewrite (Hf _ Ha Hne).
  split; [split; [lia | split; assumption] | reflexivity].
Qed.

Lemma store_at_frame st r i x st' : wf st r -> store_at st r i x = Ok st' ->
  frame_but (h_arr r) st st' /\ length st' = length st.
Proof.
  intros Hw Hs. destruct (decompose st r Hw) as [S1 [pre [post [S2 [Hst [Hm _]]]]]].
  remember (contents st r) as w eqn:Ew. pose proof Hm as [Ha _].
  rewrite Hst in Hs. rewrite (store_mk r S1 pre w post S2 i x Hm) in Hs.
  destruct (set_chk w i x) as [w'| |]; cbn [obind] in Hs; try discriminate.
  injection Hs as Hs. subst st'. rewrite Ha.
  split; [rewrite Hst at 1; apply frame_mk | rewrite Hst at 1; rewrite !length_mk; reflexivity].
Qed.

Section G4.
  Variable grow : nat -> nat -> nat.

  Lemma mal_step_spec st h o : wf st h ->
    exists st' h' r, mal_step grow st (Some h) o = (st', Some h', r) /\
                     al_post st h (contents st h) o st' h' r.
  Proof.
    intros Hw. destruct (decompose st h Hw) as [S1 [pre [post [S2 [Hst [Hm Hp]]]]]].
    destruct Hw as [_ [Hlc _]]. pose proof Hm as [_ [_ Hl]].
    remember (contents st h) as w eqn:Ew. clear Ew. subst st.
    apply mal_step_win; [exact Hm | exact Hlc | lia].
  Qed.

  Definition plain (ops : list op) : list (op * Z) := map (fun o => (o, 0)) ops.

  Lemma mal_run_refines : forall ops st h, wf st h ->
    map canon (m_run (mal_step grow) st (Some h) ops) = seq_run (contents st h) (plain ops).
  Proof.
    induction ops as [|o t IH]; intros st h Hw; cbn [m_run plain map seq_run]; [reflexivity|].
    destruct (mal_step_spec st h o Hw) as [st1 [h1 [r [Hs [Hw1 [Hc1 [Hr _]]]]]]].
    rewrite Hs. destruct (seq_step (contents st h) o) as [l' r'] eqn:E. cbn [fst snd] in *.
    cbn [map]. rewrite Hr. f_equal. rewrite (IH st1 h1 Hw1), Hc1. reflexivity.
  Qed.

  (* the state after a history; every array that is not the list's live array stays as it is and
     never becomes the live array *)
  Lemma mal_final_spec : forall ops st h, wf st h ->
    exists st' h', m_final (mal_step grow) st (Some h) ops = (st', Some h') /\ wf st' h' /\
      contents st' h' = seq_final (contents st h) (plain ops) /\
      (length st <= length st')%nat /\
      (forall b, (b < length st)%nat -> b <> h_arr h -> arr_of st' b = arr_of st b /\ b <> h_arr h').
  Proof.
    induction ops as [|o t IH]; intros st h Hw; cbn [m_final plain map seq_final].
    - exists st, h. split; [reflexivity|]. split; [exact Hw|]. split; [reflexivity|]. split; [lia|].
      intros b Hb Hne. split; [reflexivity | exact Hne].
    - destruct (mal_step_spec st h o Hw) as [st1 [h1 [r [Hs [Hw1 [Hc1 [Hr [[Hl1 Hf1] [Harr _]]]]]]]]].
      rewrite Hs. destruct (IH st1 h1 Hw1) as [st' [h' [Hfin [Hw' [Hc' [Hl' Hb']]]]]].
      exists st', h'. split; [exact Hfin|]. split; [exact Hw'|].
      split; [rewrite Hc', Hc1; reflexivity|]. split; [lia|].
      intros b Hb Hne.
      assert (Hne1 : b <> h_arr h1) by (destruct Harr as [He|Hge]; [rewrite He; exact Hne | lia]).
      destruct (Hb' b (Nat.lt_le_trans _ _ _ Hb Hl1) Hne1) as [H1 H2].
      split; [rewrite H1; apply Hf1; assumption | exact H2].
  Qed.

  (* AsSlice: a header into an array that did not exist before, holding the contents; later list
     operations never change that array; client writes into it never change the list *)
  Lemma as_slice_fresh_mem st h : wf st h ->
    let st1 := fst (m_as_slice st (Some h)) in
    let r := snd (m_as_slice st (Some h)) in
    h_arr r = length st /\ keeps st st1 /\ wf st1 r /\ contents st1 r = contents st h /\
    wf st1 h /\ contents st1 h = contents st h /\
    (forall ops st2 v2, m_final (mal_step grow) st1 (Some h) ops = (st2, v2) ->
       arr_of st2 (h_arr r) = arr_of st1 (h_arr r)) /\
    (forall i x st1', store_at st1 r i x = Ok st1' ->
       wf st1' h /\ contents st1' h = contents st1 h /\
       forall b, b <> h_arr r -> arr_of st1' b = arr_of st1 b).
  Proof.
    intros Hw. cbv zeta. rewrite (as_slice_closed st (Some h) Hw). cbn [fst snd contents_s h_arr].
    assert (Hlen : length (contents st h) = h_len h) by (apply (contents_s_length st (Some h)); exact Hw).
    unfold mlen. cbn [hdr_of].
    destruct (wfs_keeps st (st ++ [contents st h]) (Some h) (keeps_last _ _) Hw) as [Hw2 Hc2].
    cbn [wfs contents_s] in Hw2, Hc2.
    assert (Hwr : wf (st ++ [contents st h]) (mkhdr (length st) 0 (h_len h) (h_len h))).
    { rewrite <- (app_nil_r (contents st h)), last_as_mk.
      apply wf_mk; [apply hmatch_last; exact Hlen | cbn [h_len h_cap]; lia | cbn [h_cap length]; lia]. }
    assert (Hne : h_arr h <> length st) by (destruct Hw as [Hx _]; lia).
    split; [reflexivity|]. split; [apply keeps_last|]. split; [exact Hwr|].
    split.
    { pose proof (contents_last st (contents st h) [] (h_len h)) as Hcl.
      rewrite app_nil_r, Hlen in Hcl. exact Hcl. }
    split; [exact Hw2|]. split; [exact Hc2|]. split.
    - intros ops st2 v2 Hfin.
      destruct (mal_final_spec ops _ h Hw2) as [st' [h' [Hfin' [_ [_ [_ Hb]]]]]].
      rewrite Hfin in Hfin'. injection Hfin' as He1 He2. subst st2.
      apply Hb; [rewrite app_length; cbn [length]; lia | lia].
    - intros i x st1' Hs.
      destruct (store_at_frame _ _ _ _ _ Hwr Hs) as [Hf Hl]. cbn [h_arr] in Hf.
      destruct (frame_wf_contents _ _ _ h Hf Hne Hw2) as [H1 H2].
      split; [exact H1|]. split; [exact H2|].
      intros b Hb. destruct Hf as [_ Hf]. destruct (Nat.lt_ge_cases b (length (st ++ [contents st h]))) as [Hlt|Hge].
      + apply Hf; assumption.
      + unfold arr_of. rewrite !nth_overflow by lia. reflexivity.
  Qed.
End G4.

(* ====================================================================== *)
(* CopyOnWriteArrayList                                                    *)
(* ====================================================================== *)
Lemma skipn_cons_inv (w : list Z) : forall i x t, skipn i w = x :: t -> nth_opt w i = Some x /\ skipn (S i) w = t.
Proof.
  induction w as [|a w IH]; intros [|i] x t H; cbn [skipn nth_opt] in *; try discriminate.
  - injection H as H1 H2. subst. split; reflexivity.
  - apply IH. exact H.
Qed.

Definition mutates (o : op) : bool :=
  match o with OpAppend _ | OpAdd _ _ | OpSet _ _ | OpDelete _ => true | _ => false end.

Definition cow_post (st : store) (h : hdr) (w : list Z) (o : op) (st' : store) (h' : hdr) (r : outcome out) : Prop :=
  wf st' h' /\
  contents st' h' = fst (seq_step w o) /\
  canon r = snd (seq_step w o) /\
  keeps st st' /\
  (h' = h \/ h_arr h' = length st) /\
  (forall e, r = Err e -> h' = h) /\
  (mutates o = true -> (exists v, r = Ok v) -> h_arr h' = length st).

Section G5.
  Variable grow : nat -> nat -> nat.

  Section Loop.
    Variables (st : store) (src : hdr) (index : Z) (L : nat).
    Hypothesis Hsrc : wf st src.
    Let w := contents st src.
    Let dst := mkhdr (length st) 0 L L.

    Lemma cow_loop_read X i x t : skipn i w = x :: t -> load (st ++ X) src i = Ok x.
    Proof.
      intros Hs. pose proof (load_keeps st (st ++ X) (Some src) i (keeps_last _ _) Hsrc) as H1.
      pose proof (load_contents st (Some src) i Hsrc) as H2. cbn [hdr_of contents_s] in H1, H2.
      rewrite H1, H2. fold w. unfold get_chk.
      destruct (skipn_cons_inv w i x t Hs) as [Hn _]. rewrite Hn. reflexivity.
    Qed.

    Lemma cow_loop_write acc z rest x : (length acc + S (length rest) = L)%nat ->
      store_at (st ++ [acc ++ z :: rest]) dst (length acc) x = Ok (st ++ [(acc ++ [x]) ++ rest]).
    Proof.
      intros HL. rewrite <- (app_nil_r (acc ++ z :: rest)), last_as_mk.
      rewrite (store_mk dst st [] (acc ++ z :: rest) [] [] _ _) by (apply hmatch_last; rewrite app_length; cbn [length]; lia).
      unfold set_chk. replace (length acc <? length (acc ++ z :: rest))%nat with true
        by (symmetry; apply Nat.ltb_lt; rewrite app_length; cbn [length]; lia).
      cbn [obind]. rewrite set_nth_mid_gen. unfold mk_st. rewrite app_nil_r, <- app_assoc. reflexivity.
    Qed.

    Lemma mcow_del_after : forall vs acc i ret,
      skipn i w = vs -> index < Z.of_nat i -> (length acc + length vs = L)%nat ->
      mcow_del_loop (st ++ [acc ++ repeat 0 (length vs)]) src dst i (length vs) index (length acc) ret
        = Ok (st ++ [acc ++ vs], ret).
    Proof.
      induction vs as [|x t IH]; intros acc i ret Hs Hi HL; cbn [length mcow_del_loop repeat].
      - reflexivity.
      - rewrite (cow_loop_read _ i x t Hs). cbn [obind].
        replace (Z.of_nat i =? index) with false by lia.
        rewrite cow_loop_write by (rewrite repeat_length; cbn [length] in HL; lia). cbn [obind].
        destruct (skipn_cons_inv w i x t Hs) as [_ Hs'].
        replace (S (length acc)) with (length (acc ++ [x])) by (rewrite app_length; cbn [length]; lia).
        rewrite (IH (acc ++ [x]) (S i) ret Hs') by (rewrite ?app_length; cbn [length] in *; lia).
        rewrite <- app_assoc. reflexivity.
    Qed.

    Lemma mcow_del_before : forall p acc i ret y q,
      skipn i w = p ++ y :: q -> Z.of_nat i + Z.of_nat (length p) = index ->
      (length acc + (length p + length q) = L)%nat ->
      mcow_del_loop (st ++ [acc ++ repeat 0 (length p + length q)]) src dst i (length (p ++ y :: q))
                    index (length acc) ret
        = Ok (st ++ [acc ++ p ++ q], y).
    Proof.
      induction p as [|x p IH]; intros acc i ret y q Hs Hi HL; cbn [app length Nat.add] in *.
      - cbn [mcow_del_loop]. rewrite (cow_loop_read _ i y q Hs). cbn [obind].
        replace (Z.of_nat i =? index) with true by lia.
        destruct (skipn_cons_inv w i y q Hs) as [_ Hs'].
        apply mcow_del_after; [exact Hs' | lia | lia].
      - cbn [mcow_del_loop repeat]. rewrite (cow_loop_read _ i x (p ++ y :: q) Hs). cbn [obind].
        replace (Z.of_nat i =? index) with false by lia.
        rewrite cow_loop_write by (rewrite repeat_length; lia). cbn [obind].
        destruct (skipn_cons_inv w i x (p ++ y :: q) Hs) as [_ Hs'].
        replace (S (length acc)) with (length (acc ++ [x])) by (rewrite app_length; cbn [length]; lia).
        rewrite (IH (acc ++ [x]) (S i) ret y q Hs') by (rewrite ?app_length; cbn [length]; lia).
        rewrite <- app_assoc. reflexivity.
    Qed.
  End Loop.
End G5.

Ltac cow_same Hw Hc :=
  split; [exact Hw|]; split; [first [exact Hc | reflexivity]|]; split; [reflexivity|]; split; [apply keeps_refl|];
  split; [left; reflexivity|]; split; [intros e He; reflexivity|]; cbn [mutates]; intros Hmu; discriminate.

Section G6.
  Variable grow : nat -> nat -> nat.

  Lemma mcow_step_spec st h o : wf st h ->
    exists st' h' r, mcow_step grow st (Some h) o = (st', Some h', r) /\
                     cow_post st h (contents st h) o st' h' r.
  Proof.
    intros Hw. remember (contents st h) as w eqn:Ew.
    assert (Hlen : length w = h_len h) by (rewrite Ew; apply (contents_s_length st (Some h)); exact Hw).
    assert (Hc : contents st h = w) by (symmetry; exact Ew).
    assert (Hz : zlen w = Z.of_nat (h_len h)) by (unfold zlen; rewrite Hlen; reflexivity).
    assert (Hmc : mcontents st (Some h) = w) by (rewrite mcontents_contents; exact Hc).
    destruct o as [i|xs|i x|i x|i| | |stop| ]; cbn [mcow_step]; unfold mlen, mcap, cow_post;
      cbn [hdr_of seq_step]; rewrite ?Hz, ?Hmc.
    - (* Get *)
      eexists _, _, _. split; [reflexivity|].
      pose proof (load_contents st (Some h) (Z.to_nat i) Hw) as Hld. cbn [hdr_of contents_s] in Hld.
      rewrite Hld, Hc.
      destruct (in_idx i (Z.of_nat (h_len h))) eqn:E; unfold in_idx in E; cbn [fst snd].
      + replace ((i <? 0) || (i >=? Z.of_nat (h_len h))) with false by lia.
        rewrite get_chk_nth_d by lia. cbn [obind canon]. cow_same Hw Hc.
      + replace ((i <? 0) || (i >=? Z.of_nat (h_len h))) with true by lia. cbn [canon]. cow_same Hw Hc.
    - (* Append *)
      rewrite make_copy by (try exact Hlen; lia).
      replace (h_len h + length xs - h_len h)%nat with (length xs) by lia.
      set (h0 := snd (make st (h_len h) (h_len h + length xs))).
      assert (Hm0 : hmatch h0 st [] w) by (apply hmatch_last; exact Hlen).
      assert (Hw0 : wf (st ++ [w ++ repeat 0 (length xs)]) h0).
      { rewrite last_as_mk. apply wf_mk; [exact Hm0 | cbn [h0 make snd h_len h_cap]; lia |
                                         cbn [h0 make snd h_cap]; rewrite repeat_length; lia]. }
      destruct (append_many_spec grow _ _ xs Hw0) as [st' [h' [He [Hw' [Hc' [Hf [Hin _]]]]]]].
      rewrite He. exists st', h', (Ok OUnit). split; [reflexivity|]. cbn [fst snd canon].
      assert (Hfit : (h_len h0 + length xs <= h_cap h0)%nat) by (cbn [h0 make snd h_len h_cap]; lia).
      destruct (Hin (or_introl Hfit)) as [H1 _]. cbn [h0 make snd h_arr] in H1.
      split; [exact Hw'|].
      split; [rewrite Hc', last_as_mk, (contents_mk _ _ _ _ _ _ Hm0); reflexivity|].
      split; [reflexivity|].
      split; [apply (keeps_frame_trans st _ st' _ (keeps_last _ _) Hf); cbn [h0 make snd h_arr]; lia|].
      split; [right; exact H1|]. split; [intros e He'; discriminate | intros _ _; exact H1].
    - (* Add *)
      rewrite make_copy by (try exact Hlen; lia).
      replace (h_len h + 1 - h_len h)%nat with 1%nat by lia. cbn [repeat].
      set (h0 := snd (make st (h_len h) (h_len h + 1))).
      assert (Hm0 : hmatch h0 st [] w) by (apply hmatch_last; exact Hlen).
      rewrite last_as_mk.
      rewrite (add_m_in_place (grow1 grow) h0 st [] w 0 [] [] x i Hm0) by (cbn [h0 make snd h_len h_cap]; lia).
      rewrite add_lemma, Hlen.
      destruct (wfs_keeps st (mk_st st [] w [0] []) (Some h)) as [Hw2 Hc2];
        [rewrite <- last_as_mk; apply keeps_last | exact Hw |].
      cbn [wfs contents_s] in Hw2, Hc2.
      destruct ((0 <=? i) && (i <=? Z.of_nat (h_len h))) eqn:E.
      + eexists _, _, _. split; [reflexivity|]. unfold h0. cbn [fst snd canon h_arr h_off h_len h_cap make].
        set (r := firstn (Z.to_nat i) w ++ x :: skipn (Z.to_nat i) w).
        assert (Hlr : length r = S (h_len h)).
        { unfold r. rewrite app_length. cbn [length]. rewrite firstn_length, skipn_length. lia. }
        assert (Hm' : hmatch (mkhdr (length st) 0 (S (h_len h)) (h_len h + 1)) st [] r) by (apply hmatch_last; exact Hlr).
        split; [apply wf_mk; cbn [h_len h_cap length]; try exact Hm'; lia|].
        split; [rewrite (contents_mk _ st [] r [] [] Hm'); unfold r; rewrite insert_at_fs by lia; reflexivity|].
        split; [reflexivity|].
        split; [unfold mk_st; cbn [app]; apply keeps_last|].
        split; [right; reflexivity|]. split; [intros e He; discriminate | intros _ _; reflexivity].
      + eexists _, _, _. split; [reflexivity|]. cbn [fst snd canon].
        split; [exact Hw2|]. split; [rewrite Hc2; exact Hc|]. split; [reflexivity|].
        split; [rewrite <- last_as_mk; apply keeps_last|]. split; [left; reflexivity|].
        split; [intros e He; reflexivity | intros _ [v Hv]; discriminate].
    - (* Set *)
      destruct (in_idx i (Z.of_nat (h_len h))) eqn:E; unfold in_idx in E.
      + replace ((i >=? Z.of_nat (h_len h)) || (i <? 0)) with false by lia.
        rewrite make_copy by (try exact Hlen; lia). rewrite Nat.sub_diag. cbn [repeat].
        set (h0 := snd (make st (h_len h) (h_len h))).
        assert (Hm0 : hmatch h0 st [] w) by (apply hmatch_last; exact Hlen).
        rewrite last_as_mk, (store_mk h0 st [] w [] [] _ _ Hm0). unfold set_chk.
        replace (Z.to_nat i <? length w)%nat with true by lia. cbn [obind].
        eexists _, _, _. split; [reflexivity|]. cbn [fst snd canon].
        assert (Hm' : hmatch h0 st [] (set_nth w (Z.to_nat i) x)).
        { apply (hmatch_len h0 st [] w); [exact Hm0 | apply SliceMemProof.set_nth_length]. }
        split; [apply wf_mk; cbn [h0 make snd h_len h_cap length]; try exact Hm';
                rewrite ?SliceMemProof.set_nth_length; lia|].
        split; [apply contents_mk; exact Hm'|]. split; [reflexivity|].
        split; [unfold mk_st; cbn [app]; apply keeps_last|].
        split; [right; reflexivity|]. split; [intros e He; discriminate | intros _ _; reflexivity].
      + replace ((i >=? Z.of_nat (h_len h)) || (i <? 0)) with true by lia.
        eexists _, _, _. split; [reflexivity|]. cbn [fst snd canon].
        split; [exact Hw|]. split; [exact Hc|]. split; [reflexivity|]. split; [apply keeps_refl|].
        split; [left; reflexivity|]. split; [intros e He; reflexivity | intros _ [v Hv]; discriminate].
    - (* Delete *)
      destruct (in_idx i (Z.of_nat (h_len h))) eqn:E; unfold in_idx in E.
      + replace ((i >=? Z.of_nat (h_len h)) || (i <? 0)) with false by lia.
        destruct (split_w w (Z.to_nat i)) as [p [y [q [Hwq Hp]]]]; [lia|].
        assert (HL : (h_len h - 1 = length p + length q)%nat).
        { rewrite <- Hlen, Hwq, app_length. cbn [length]. lia. }
        assert (Hn : h_len h = length (p ++ y :: q)) by (rewrite <- Hwq; symmetry; exact Hlen).
        rewrite HL. unfold make. cbn [fst snd]. rewrite Hn.
        pose proof (mcow_del_before st h i (length p + length q) Hw p [] 0 0 y q) as Hloop.
        cbn [app length Nat.add] in Hloop. rewrite Hloop; [| rewrite Hc, Hwq; reflexivity | lia | lia].
        eexists _, _, _. split; [reflexivity|]. cbn [fst snd canon].
        assert (Hm' : hmatch (mkhdr (length st) 0 (length p + length q) (length p + length q)) st [] (p ++ q))
          by (apply hmatch_last; apply app_length).
        rewrite <- (app_nil_r (p ++ q)), last_as_mk.
        split; [apply wf_mk; cbn [h_len h_cap length]; try exact Hm'; rewrite ?app_length; lia|].
        split; [rewrite (contents_mk _ st [] (p ++ q) [] [] Hm'), Hwq, <- Hp, remove_at_mid; reflexivity|].
        split; [rewrite Hwq, <- Hp, nth_d_mid; reflexivity|].
        split; [unfold mk_st; cbn [app]; apply keeps_last|].
        split; [right; reflexivity|]. split; [intros e He; discriminate | intros _ _; reflexivity].
      + replace ((i >=? Z.of_nat (h_len h)) || (i <? 0)) with true by lia.
        eexists _, _, _. split; [reflexivity|]. cbn [fst snd canon].
        split; [exact Hw|]. split; [exact Hc|]. split; [reflexivity|]. split; [apply keeps_refl|].
        split; [left; reflexivity|]. split; [intros e He; reflexivity | intros _ [v Hv]; discriminate].
    - (* Len *) eexists _, _, _. split; [reflexivity|]. cbn [fst snd canon]. cow_same Hw Hc.
    - (* Cap *) eexists _, _, _. split; [reflexivity|]. cbn [fst snd canon]. cow_same Hw Hc.
    - (* Range *)
      eexists _, _, _. split; [reflexivity|]. cbn [fst snd].
      rewrite (m_range_spec _ h stop Hw (h_len h) 0) by lia. rewrite Hc. cbn [skipn obind canon Z.of_nat].
      pose proof (range_loop_seq w stop) as Hr. cbv zeta in Hr. rewrite Hr. cow_same Hw Hc.
    - (* AsSlice *)
      pose proof (as_slice_closed _ (Some h) Hw) as Hcl. cbn [contents_s] in Hcl. unfold mlen in Hcl.
      cbn [hdr_of] in Hcl. rewrite Hc in Hcl. rewrite Hcl. cbn [fst snd].
      eexists _, _, _. split; [reflexivity|]. cbn [fst snd canon].
      destruct (wfs_keeps st (st ++ [w]) (Some h) (keeps_last _ _) Hw) as [Hw2 Hc2].
      cbn [wfs contents_s] in Hw2, Hc2.
      split; [exact Hw2|]. split; [rewrite Hc2; exact Hc|].
      split.
      { unfold mcontents. cbn [hdr_of h_len h_off h_arr].
        pose proof (contents_last st w [] (h_len h)) as Hcl2.
        rewrite app_nil_r in Hcl2. unfold contents in Hcl2. cbn [h_len h_off h_arr] in Hcl2.
        rewrite Hlen in Hcl2. rewrite Hcl2. reflexivity. }
      split; [apply keeps_last|]. split; [left; reflexivity|].
      split; [intros e He; reflexivity | cbn [mutates]; intros Hmu; discriminate].
  Qed.

  Lemma mcow_run_refines : forall ops st h, wf st h ->
    map canon (m_run (mcow_step grow) st (Some h) ops) = seq_run (contents st h) (plain ops).
  Proof.
    induction ops as [|o t IH]; intros st h Hw; cbn [m_run plain map seq_run]; [reflexivity|].
    destruct (mcow_step_spec st h o Hw) as [st1 [h1 [r [Hs [Hw1 [Hc1 [Hr _]]]]]]].
    rewrite Hs. destruct (seq_step (contents st h) o) as [l' r'] eqn:E. cbn [fst snd] in *.
    cbn [map]. rewrite Hr. f_equal. rewrite (IH st1 h1 Hw1), Hc1. reflexivity.
  Qed.

  (* after any history every array that existed before is unchanged: a reader holding any old
     snapshot header sees a constant array *)
  Lemma mcow_final_spec : forall ops st h, wf st h ->
    exists st' h', m_final (mcow_step grow) st (Some h) ops = (st', Some h') /\ wf st' h' /\
      contents st' h' = seq_final (contents st h) (plain ops) /\ keeps st st'.
  Proof.
    induction ops as [|o t IH]; intros st h Hw; cbn [m_final plain map seq_final].
    - exists st, h. split; [reflexivity|]. split; [exact Hw|]. split; [reflexivity | apply keeps_refl].
    - destruct (mcow_step_spec st h o Hw) as [st1 [h1 [r [Hs [Hw1 [Hc1 [Hr [Hk1 _]]]]]]]].
      rewrite Hs. destruct (IH st1 h1 Hw1) as [st' [h' [Hfin [Hw' [Hc' Hk']]]]].
      exists st', h'. split; [exact Hfin|]. split; [exact Hw'|].
      split; [rewrite Hc', Hc1; reflexivity | apply (keeps_trans _ _ _ Hk1 Hk')].
  Qed.

  Lemma cow_snapshot_constant ops st h snap st' v' : wf st h -> wf st snap ->
    m_final (mcow_step grow) st (Some h) ops = (st', v') ->
    wf st' snap /\ contents st' snap = contents st snap /\ arr_of st' (h_arr snap) = arr_of st (h_arr snap).
  Proof.
    intros Hw Hsn Hfin. destruct (mcow_final_spec ops st h Hw) as [st2 [h2 [Hfin2 [_ [_ Hk]]]]].
    rewrite Hfin in Hfin2. injection Hfin2 as He1 He2. subst st2.
    destruct (wfs_keeps st st' (Some snap) Hk Hsn) as [H1 H2]. cbn [wfs contents_s] in H1, H2.
    split; [exact H1|]. split; [exact H2|]. apply keeps_arr; [exact Hk | destruct Hsn as [Hx _]; exact Hx].
  Qed.
End G6.

(* ---------- transfer to ListModel (whatever capacity oracle ListModel is given) ---------- *)
Lemma seq_run_oracle_irrelevant : forall (h1 h2 : list (op * Z)) l,
  map fst h1 = map fst h2 -> seq_run l h1 = seq_run l h2.
Proof.
  induction h1 as [|[o1 c1] t1 IH]; intros [|[o2 c2] t2] l H; cbn [map fst] in H; try discriminate;
    [reflexivity|].
  injection H as Ho Ht. subst o2. cbn [seq_run]. destruct (seq_step l o1) as [l' r]. f_equal. apply IH. exact Ht.
Qed.

Lemma plain_fst (hist : list (op * Z)) : map fst (plain (map fst hist)) = map fst hist.
Proof. unfold plain. rewrite !map_map. reflexivity. Qed.

Lemma mal_run_is_listmodel grow st h hist a : wf st h -> sv a = contents st h ->
  map canon (m_run (mal_step grow) st (Some h) (map fst hist)) = map canon (lrun (SArr a) hist).
Proof.
  intros Hw Ha. rewrite (mal_run_refines grow _ st h Hw), (lrun_refines hist (SArr a) I).
  cbn [ListModel.contents]. rewrite Ha. apply seq_run_oracle_irrelevant. apply plain_fst.
Qed.

Lemma mcow_run_is_listmodel grow st h hist a : wf st h -> sv a = contents st h ->
  map canon (m_run (mcow_step grow) st (Some h) (map fst hist)) = map canon (lrun (SCow a) hist).
Proof.
  intros Hw Ha. rewrite (mcow_run_refines grow _ st h Hw), (lrun_refines hist (SCow a) I).
  cbn [ListModel.contents]. rewrite Ha. apply seq_run_oracle_irrelevant. apply plain_fst.
Qed.

(* the constructors give well-formed headers *)
Lemma mal_new_wf st c : exists h, mal_new st c = (st ++ [repeat 0 c], Some h) /\
  wf (st ++ [repeat 0 c]) h /\ contents (st ++ [repeat 0 c]) h = [] /\ h_arr h = length st /\ h_cap h = c.
Proof.
  exists (mkhdr (length st) 0 0 c). split; [reflexivity|].
  rewrite <- (app_nil_l (repeat 0 c)), last_as_mk.
  split; [apply wf_mk; [apply hmatch_last; reflexivity | cbn [h_len h_cap]; lia |
                        cbn [h_cap length]; rewrite repeat_length; lia]|].
  split; [apply contents_mk; apply hmatch_last; reflexivity | split; reflexivity].
Qed.

Lemma mcow_new_of_fresh st ts : wfs st ts ->
  exists h, mcow_new_of st ts = (st ++ [contents_s st ts], Some h) /\ h_arr h = length st /\
    wf (st ++ [contents_s st ts]) h /\ contents (st ++ [contents_s st ts]) h = contents_s st ts /\
    keeps st (st ++ [contents_s st ts]).
Proof.
  intros Hw. unfold mcow_new_of. rewrite (as_slice_closed st ts Hw). cbn [fst snd].
  exists (mkhdr (length st) 0 (mlen ts) (mlen ts)). split; [reflexivity|]. split; [reflexivity|].
  pose proof (contents_s_length st ts Hw) as Hl.
  split; [rewrite <- (app_nil_r (contents_s st ts)), last_as_mk;
          apply wf_mk; [apply hmatch_last; exact Hl | cbn [h_len h_cap]; lia | cbn [h_cap length]; lia]|].
  split; [|apply keeps_last].
  pose proof (contents_last st (contents_s st ts) [] (mlen ts)) as Hc. rewrite app_nil_r, Hl in Hc. exact Hc.
Qed.

Lemma nth_opt_set_nth_same (w : list Z) : forall i x, (i < length w)%nat -> nth_opt (set_nth w i x) i = Some x.
Proof.
  induction w as [|a w IH]; intros [|i] x H; cbn [length set_nth nth_opt] in *; try lia; try reflexivity.
  apply IH. lia.
Qed.

Lemma set_through_lemma grow st h i x st' h' r :
  wf st h -> mal_step grow st (Some h) (OpSet i x) = (st', Some h', r) -> 0 <= i < zlen (contents st h) ->
  h' = h /\ load st' h (Z.to_nat i) = Ok x.
Proof.
  intros Hw Hs Hi. destruct (decompose st h Hw) as [S1 [pre [post [S2 [Hst [Hm _]]]]]].
  remember (contents st h) as w eqn:Ew. pose proof Hm as [_ [_ Hl]]. unfold zlen in Hi.
  cbn [mal_step] in Hs. unfold mlen in Hs. cbn [hdr_of] in Hs. rewrite Hl in Hs.
  replace ((i >=? Z.of_nat (length w)) || (i <? 0)) with false in Hs by lia.
  rewrite Hst in Hs. rewrite (store_mk h S1 pre w post S2 _ _ Hm) in Hs. unfold set_chk in Hs.
  replace (Z.to_nat i <? length w)%nat with true in Hs by lia. cbn [obind] in Hs.
  injection Hs as H1 H2 H3. subst st' h'. split; [reflexivity|].
  rewrite (load_mk h S1 pre _ post S2 _ (hmatch_len h S1 pre w _ Hm (SliceMemProof.set_nth_length w _ _))).
  unfold get_chk. rewrite nth_opt_set_nth_same by lia. reflexivity.
Qed.
