(* PoolModel (pool.OnDemandBlockTaskPool), proofs for C12 / liveness side of C10 - B5f3: Layer 5, field 3 (J) after a step, by case analysis over the statements *)
From Ekit Require Import Common Conc PoolModel
  PoolProofB0 PoolProofB1 PoolProofB2d PoolProofB2bd PoolProofB3d PoolProofB3s PoolProofB4d PoolProofB5d.
From Coq Require Import ZifyBool Arith PeanoNat.

(* Layer 5, field 3 (J): the fact after a step, by case analysis over the statements *)
Ltac clK := msimp; cbn [pcf hss_bad crea_bad g_hss g_crea pend cnt_ning ing badnz badz baddead start_bad in_group_pc int_bad tsgo_inmp own_gt own_lt clrecv_bad clrecv will zreader zr_bad cnt_bad qe qempty eqst g_cnt g_wk g_own g_nz g_tmset g_mustz g_deadset g_int g_tsgo g_spa g_hsl g_hst g_hbw g_gadd g_gdec g_clp g_qb g_will0 g_willn g_cas g_canc pstate_eqb downb bz andb orb negb]; msimp.
Ltac clK_all := msimp_all; cbn [pcf hss_bad crea_bad g_hss g_crea pend cnt_ning ing badnz badz baddead start_bad in_group_pc int_bad tsgo_inmp own_gt own_lt clrecv_bad clrecv will zreader zr_bad cnt_bad qe qempty eqst g_cnt g_wk g_own g_nz g_tmset g_mustz g_deadset g_int g_tsgo g_spa g_hsl g_hst g_hbw g_gadd g_gdec g_clp g_qb g_will0 g_willn g_cas g_canc pstate_eqb downb bz andb orb negb] in *; msimp_all.

Lemma invK_U_J c e th o :
  1 <= i_init (c_par c) -> i_fixa (c_par c) = true -> i_fixb (c_par c) = true ->
  invB c -> invP c -> invQ c -> invW c -> invG c -> invK2 c -> invK c ->
  lookup (ev_tid e) (c_thr c) = Some th -> ev_out c e th = Some o ->
  invK_G3 (c_par c) (c_gh c) (c_thr c) th o.
Proof.
  intros Hval Hfa Hfb HB HP HQ HW HG HK2 [Imain Igadd Igdec IJ IQ Icanc Igr1 Igr2] Hl Ho.
    pose proof (b_bw c HB) as B1. pose proof (b_sl c HB) as B5.
    pose proof (p_closed c HP) as Pcl. pose proof (p_ictx c HP) as Pic. pose proof (p_nbegan1 c HP) as Pnb1.
    pose proof (p_hst_began c HP) as Phb. pose proof (p_began1 c HP) as Pb1. pose proof (p_canc1 c HP) as Pca.
    pose proof (p_hss c HP) as Phss. pose proof (p_crea c HP) as Pcr. pose proof (p_nbegan2 c HP) as Pnb2.
    pose proof (tsum_ge_lookup (hss_bad (s_prev (c_sh c))) _ _ _ (hss_bad_nn _) Hl) as NPh.
    pose proof (tsum_ge_lookup crea_bad _ _ _ crea_bad_nn Hl) as NPc.
    pose proof (p_grace1 c HP) as Pg1. pose proof (p_grace2 c HP) as Pg2.
    pose proof (p_shut c HP) as Psh. pose proof (p_closing c HP) as Pclo. pose proof (p_down_began c HP) as Pdb.
    pose proof (q_int c HQ) as Qint. pose proof (tsum_ge_lookup _ _ _ _ (int_bad_nn (s_ictx (c_sh c))) Hl) as NQ.
    pose proof (w_uniq c HW) as Wu. pose proof (w_mp c HW) as Wmp. pose proof (w_tsgo c HW) as Wts.
    pose proof (tsum_ge_lookup _ _ _ _ (tsgo_inmp_nn (s_mp (c_sh c))) Hl) as NW.
    pose proof (w_idc2 c HW) as Wi2. pose proof (w_gt c HW) as Wgt. pose proof (w_lt c HW) as Wlt. pose proof (w_idc0 c HW) as Wi0.
    pose proof (d_total c HG) as Dt. pose proof (d_start c HG) as Ds.
    pose proof (tsum_ge_lookup _ _ _ _ (start_bad_nn (c_par c)) Hl) as NDs.
    pose proof (g_gn c HG) as Gn. pose proof (g_nzero c HG) as Gnz. pose proof (g_zin c HG) as Gz.
    pose proof (tsum_ge_lookup _ _ _ _ (badnz_nn (s_mp (c_sh c))) Hl) as NGnz.
    pose proof (tsum_ge_lookup _ _ _ _ (badz_nn (s_mp (c_sh c))) Hl) as NGz.
    pose proof (k_cl c HK2) as Kcl. pose proof (tsum_ge_lookup _ _ _ _ (clrecv_bad_nn (s_closed (c_sh c) && qe (c_sh c))) Hl) as NKcl.
    pose proof (tsum_ge_lookup (pcf g_spa) _ _ _ (pcf_nonneg _ g_spa_nn) Hl) as N0.
    pose proof (tsum_ge_lookup (cnt_ning (s_mp (c_sh c))) _ _ _ (cnt_ning_nn (s_mp (c_sh c))) Hl) as N1.
    pose proof (tsum_ge_lookup (pcf g_gadd) _ _ _ (pcf_nonneg _ g_gadd_nn) Hl) as N3.
    pose proof (tsum_ge_lookup (pcf g_gdec) _ _ _ (pcf_nonneg _ g_gdec_nn) Hl) as N4.
    pose proof (tsum_ge_lookup will _ _ _ will_nn Hl) as N5.
    pose proof (tsum_ge_lookup (zr_bad (s_total (c_sh c) =? 0)) _ _ _ (zr_bad_nn (s_total (c_sh c) =? 0)) Hl) as N6.
    pose proof (tsum_ge_lookup (pcf g_canc) _ _ _ (pcf_nonneg _ g_canc_nn) Hl) as N7.
    pose proof (tsum_ge_lookup (pcf g_cnt) _ _ _ (pcf_nonneg _ g_cnt_nn) Hl) as N8.
    pose proof (tsum_ge_lookup (cnt_bad (g_grace (c_gh c))) _ _ _ (cnt_bad_nn (g_grace (c_gh c))) Hl) as N9.
    pose proof (tsum_ge_lookup (pcf g_cnt) _ _ _ (pcf_nonneg _ g_cnt_nn) Hl) as Ncnt.
    pose proof (tsum_ge_lookup (pcf g_gadd) _ _ _ (pcf_nonneg _ g_gadd_nn) Hl) as Ngadd.
    pose proof (tsum_ge_lookup (pcf g_gdec) _ _ _ (pcf_nonneg _ g_gdec_nn) Hl) as Ngdec.
    pose proof (tsum_ge_lookup (pcf g_canc) _ _ _ (pcf_nonneg _ g_canc_nn) Hl) as Ncanc.
    pose proof (tsum_ge_lookup (pcf g_spa) _ _ _ (pcf_nonneg _ g_spa_nn) Hl) as Nspa.
    pose proof (tsum_ge_lookup (pcf g_hsl) _ _ _ (pcf_nonneg _ g_hsl_nn) Hl) as Nhsl.
    pose proof (tsum_ge_lookup (pcf g_hbw) _ _ _ (pcf_nonneg _ g_hbw_nn) Hl) as Nhbw.
    pose proof (tsum_le_rest _ _ _ _ _ gadd_le Hl) as Hr1. pose proof (tsum_le_rest _ _ _ _ _ gdec_le Hl) as Hr2.
    pose proof (tsum_le_rest _ _ _ _ _ spa_le Hl) as Hr3.
    pose proof (nt_ge_sum (s_mp (c_sh c)) (c_thr c)) as Hnt.
    pose proof (tsum_le _ _ (c_thr c) (cnt_ning_le (s_mp (c_sh c)))) as Hcl.
    pose proof (tsum_nonneg _ (c_thr c) (pcf_nonneg _ g_cnt_nn)) as Hc0.
    pose proof (tsum_zero_supp pend (pcf g_hsl) (c_thr c) (pcf_nonneg _ g_hsl_nn) pend_supp) as Hp0.
    pose proof (tsum_zero_supp pend (pcf g_hsl) (remove (ev_tid e) (c_thr c)) (pcf_nonneg _ g_hsl_nn) pend_supp) as Hp1.
    rewrite <- (Z.add_simpl_l (pend th) (tsum pend (remove (ev_tid e) (c_thr c)))) in Hp1.
    rewrite <- (tsum_remove pend _ th _ Hl) in Hp1.
    pose proof (tsum_remove (pcf g_hsl) _ th _ Hl) as Hp2.
    pose proof (tsum_le _ _ (c_thr c) (zr_le_wk (s_total (c_sh c) =? 0))) as Hzw.
    pose proof (tsum_le _ _ (c_thr c) cnt_le_wk) as Hcw.
    pose proof (fun H => tsum_le _ _ (c_thr c) (fun x => wk_le_out (s_idc (c_sh c)) x H)) as Hwo.
    pose proof (fun F mp' => zmem_frame F (s_mp (c_sh c)) mp' (c_thr c) (ev_tid e) th Hl) as Hzf.
    clear HB HP HQ HW HG HK2.
    destruct e as [t op|t ch|t|t|t]; cbn [ev_out ev_tid] in *; [discriminate Ho| | | |];
      generalize dependent (parked_of (c_thr c)); intros pk; intros;
      generalize dependent (c_par c); intros P; intros;
      destruct (c_sh c) as [st pv q cl tot run mp gn bw br gw gr idc ictx];
      destruct (c_gh c) as [gsent gstarted gdone gret gacc grej gstarts gshuts gnow ggrace gbegan gshut];
      cbn [s_state s_prev s_q s_closed s_total s_gn s_mp s_ictx s_idc s_bw g_began g_grace g_shut qe i_init i_fixa i_fixb] in *;
      pose proof (bz_range gbegan) as Rgb; pose proof (bz_range ggrace) as Rgg; pose proof (bz_range cl) as Rcl;
      pose proof (bz_range (qempty q)) as Rq; pose proof (bz_range gshut) as Rgs;
      [ cbn [eqst] in *; pstep_split Ho th ch
      | destruct (l_cancel th); [discriminate Ho|injection Ho as <-]
      | destruct (l_tm th) eqn:Htm; try discriminate Ho; injection Ho as <-; unfold is_parked in *; destruct (pc th) eqn:Hpc
      | destruct (pc th) eqn:Hpc; try discriminate Ho; injection Ho as <- ].
    all: unfold invK_G3.
    all: unfold_helpers; clK; unfold_helpers; clK; rewrite ?Hpc, ?Htm, ?Hfa, ?Hfb; clK; break_if; clK; rewrite ?upd_same, ?qempty_snoc; try assumption.
    all: clK_all; unfold_helpers; clK_all; rewrite ?Hpc, ?Htm, ?Hfa, ?Hfb in *; clK_all; unfold upd in *; break_if; clK_all.
    all: try match goal with |- context [tsum (cnt_ning (l_wid ?x :: ?m)) _] =>
      pose proof (Hzf cnt_ning (l_wid x :: m) eq_refl (Wu _) (fun a Ha => zmem_cons_other a _ m Ha) (cnt_ning_z1 _ _) (cnt_ning_z2 _ _)) as Hf1 end.
    all: try match goal with |- context [tsum (cnt_ning (zremove (l_wid ?x) ?m)) _] =>
      pose proof (Hzf cnt_ning (zremove (l_wid x) m) eq_refl (Wu _) (fun a Ha => zmem_zremove_other a _ m Ha) (cnt_ning_z1 _ _) (cnt_ning_z2 _ _)) as Hf1 end.
    all: clear Hzf; clK_all; rewrite ?Hpc, ?Htm, ?zmem_cons_same, ?zmem_zremove_same in *; clK_all;
              rewrite ?Hpc, ?Htm, ?zmem_cons_same, ?zmem_zremove_same in *; clK_all.
    all: rewrite ?tsum_cnt_bad_true, ?tsum_cnt_bad_false, ?tsum_zr_bad_true in *.
    all: repeat match goal with
              | H : zmem ?a ?l = ?v, H' : context [zmem ?a ?l] |- _ =>
                lazymatch H' with H => fail | _ => rewrite H in H' end
              end; clK_all.
    all: repeat match goal with
              | H : zmem ?a ?l = true |- _ =>
                lazymatch goal with _ : In a l |- _ => fail | _ => pose proof (proj1 (zmem_in a l) H) end
              end;
              repeat match goal with
              | H : In ?a _ |- _ => lazymatch goal with _ : 1 <= a <= _ |- _ => fail | _ => pose proof (Wmp a H) end
              end.
    all: repeat match goal with H : context [match l_tm ?x with _ => _ end] |- _ => destruct (l_tm x) eqn:? end; try discriminate.
    all: bz_cmp; bz_goal_ranges.
    (* static cascade for this field: its own fact only; the facts it can need; then everything *)
    all: try solve [ try clear Imain; try clear Igadd; try clear Igdec; try clear IQ; try clear Icanc; try clear Igr1; try clear Igr2; try clear B1; try clear B5; try clear Pcl; try clear Pic; try clear Pnb1; try clear Phb; try clear Pb1; try clear Pca; try clear Phss; try clear Pcr; try clear Pnb2; try clear NPh; try clear NPc; try clear Psh; try clear Pclo; try clear Pdb; try clear Qint; try clear NQ; try clear Wu; try clear Wmp; try clear Wts; try clear NW; try clear Wi2; try clear Wgt; try clear Wlt; try clear Wi0; try clear Dt; try clear Ds; try clear NDs; try clear Gn; try clear Gnz; try clear Gz; try clear NGnz; try clear NGz; try clear Kcl; try clear NKcl; try clear Ncnt; try clear Ngadd; try clear Ngdec; try clear Ncanc; try clear Nspa; try clear Nhsl; try clear Nhbw; try clear Hr1; try clear Hr2; try clear Hr3; try clear Hnt; try clear Hcl; try clear Hc0; try clear Hp0; try clear Hp1; try clear Hp2; try clear Hzw; try clear Hcw; try clear Hwo; try clear N0; try clear N1; try clear N3; try clear N4; try clear N6; try clear N7; try clear N8; try clear N9; try clear Rgb; try clear Rgg; try clear Rcl; try clear Rq; try clear Rgs; try clear Hval; try clear Hfa; try clear Hfb; try clear Pg1; try clear Pg2; first [ lia | break_hyp; clK_all; try discriminate; bz_cmp; repeat match goal with H : ?b = true |- _ => progress (rewrite H in *) | H : ?b = false |- _ => progress (rewrite H in *) end; clK_all; first [ lia | destruct st; clK_all; try discriminate; first [ lia | destruct pv; clK_all; try discriminate; lia ] ] ] ].
    all: try solve [ try clear Igadd; try clear IQ; try clear Icanc; try clear Igr1; try clear Igr2; try clear B1; try clear Phb; try clear Pb1; try clear Pca; try clear Phss; try clear Pcr; try clear Pnb2; try clear NPh; try clear NPc; try clear Psh; try clear Pclo; try clear Wu; try clear Wmp; try clear Wts; try clear NW; try clear Wi2; try clear Wgt; try clear Wlt; try clear Wi0; try clear Gn; try clear Gnz; try clear Gz; try clear NGnz; try clear NGz; try clear Kcl; try clear NKcl; try clear Ngadd; try clear Ncanc; try clear Nhbw; try clear Hr1; try clear Hr2; try clear Hnt; try clear Hzw; try clear Hcw; try clear Hwo; try clear N3; try clear N6; try clear N7; try clear N9; try clear Rgg; try clear Rgs; try clear Hfa; try clear Pg1; try clear Pg2; first [ first [ lia | break_hyp; clK_all; try discriminate; bz_cmp; repeat match goal with H : ?b = true |- _ => progress (rewrite H in *) | H : ?b = false |- _ => progress (rewrite H in *) end; clK_all; first [ lia | destruct st; clK_all; try discriminate; first [ lia | destruct pv; clK_all; try discriminate; lia ] ] ] | destruct Imain as [Hm|[[Hm1 Hm2]|Hm]]; destruct Igdec as [Hd|[Hd|Hd]]; first [ lia | break_hyp; clK_all; try discriminate; bz_cmp; repeat match goal with H : ?b = true |- _ => progress (rewrite H in *) | H : ?b = false |- _ => progress (rewrite H in *) end; clK_all; first [ lia | destruct st; clK_all; try discriminate; first [ lia | destruct pv; clK_all; try discriminate; lia ] ] ] ] ].
    all: first [ solve [ first [ first [ lia | break_hyp; clK_all; try discriminate; bz_cmp; repeat match goal with H : ?b = true |- _ => progress (rewrite H in *) | H : ?b = false |- _ => progress (rewrite H in *) end; clK_all; first [ lia | destruct st; clK_all; try discriminate; first [ lia | destruct pv; clK_all; try discriminate; lia ] ] ] | destruct Imain as [Hm|[[Hm1 Hm2]|Hm]]; destruct Igdec as [Hd|[Hd|Hd]]; first [ lia | break_hyp; clK_all; try discriminate; bz_cmp; repeat match goal with H : ?b = true |- _ => progress (rewrite H in *) | H : ?b = false |- _ => progress (rewrite H in *) end; clK_all; first [ lia | destruct st; clK_all; try discriminate; first [ lia | destruct pv; clK_all; try discriminate; lia ] ] ] ] ] | fail ].
Qed.
