(* Pointer-level red-black tree: insertion fix-up.  fixAddLeftBlack / fixAddRightBlack / fixUncleRed and the loop of
   fixAfterAdd against the recursive model's unwinding [unwind_ins] (RBPtrProof2). *)
From Ekit Require Import Common RBModel RBPtrModel RBPtrProof RBPtrProof2.

Lemma cfg_down h rt f rest t : cfg h rt rest (iplug1 f t) -> cfg h rt (f :: rest) t.
Proof.
  intros (Hc & Hr & Hnd). destruct f as [i c k v r|i c l k v]; cbn [ictx irep cpar fid cids ids fsib iplug1 rid] in *;
    dands; nd_sat; unfold cfg; cbn [ictx irep ids rid cids cpar fid fsib]; repeat split; fin.
Qed.

Definition wp {A} (m : M A) (s : pstate) (Q : A -> pstate -> Prop) : Prop :=
  match m s with ROk a s' => Q a s' | RPanic => False | RFuel => False end.
Lemma wp_ok {A} (m : M A) s (Q : A -> pstate -> Prop) : wp m s Q -> exists a s', m s = ROk a s' /\ Q a s'.
Proof. unfold wp. destruct (m s) as [a s'| |]; intro H; try contradiction. exists a, s'. split; [reflexivity|exact H]. Qed.
Lemma wp_intro {A} (m : M A) s (Q : A -> pstate -> Prop) a s' : m s = ROk a s' -> Q a s' -> wp m s Q.
Proof. unfold wp. intros -> H. exact H. Qed.
Lemma wp_mono {A} (m : M A) s (Q Q' : A -> pstate -> Prop) : wp m s Q -> (forall a s', Q a s' -> Q' a s') -> wp m s Q'.
Proof. unfold wp. destruct (m s); intros H HQ; try contradiction. apply HQ. exact H. Qed.


Ltac cfg_tac := unfold cfg; cbn [ictx irep cpar fid fcol cids ids fsib rid iplug1]; repeat split; hsimp; fin.
Ltac cfg_open H :=
  let Hc := fresh "Hc" in let Hr := fresh "Hr" in let Hnd := fresh "Hnd" in
  destruct H as (Hc & Hr & Hnd); cbn [ictx irep cpar fid fcol cids ids fsib rid iplug1] in *; dands; nd_sat.
Ltac call_rotL ctx n c a k v r c' b k' v' d h1 rt1 Hrun Hcfg :=
  match goal with |- context[rotateLeft _ (mkst ?hh ?rr ?sz ?nx ?cl)] =>
    destruct (rotateLeft_spec hh rr sz nx cl ctx n c a k v r c' b k' v' d) as (h1 & rt1 & Hrun & Hcfg);
    [cfg_tac | rewrite Hrun; clear Hrun]
  end.
Ltac call_rotR ctx n c l c' a k' v' b k v d h1 rt1 Hrun Hcfg :=
  match goal with |- context[rotateRight _ (mkst ?hh ?rr ?sz ?nx ?cl)] =>
    destruct (rotateRight_spec hh rr sz nx cl ctx n c l c' a k' v' b k v d) as (h1 & rt1 & Hrun & Hcfg);
    [cfg_tac | rewrite Hrun; clear Hrun]
  end.

Section Ins.
  Variable cmp : Z -> Z -> Z.

  (* ---------- fixAddLeftBlack / fixAddRightBlack: the parent p (red) of x hangs LEFT / RIGHT of g, black uncle ---------- *)
  Lemma fixAddLeftBlack_L h rt sz nx cl rest x xl xk xv xr p pk pv ps g gc gk gv u :
    cfg h rt (IFL p Red pk pv ps :: IFL g gc gk gv u :: rest) (IT x Red xl xk xv xr) ->
    wp (fixAddLeftBlack (Some x)) (mkst h rt sz nx cl) (fun a s' => a = Some x /\ exists h' rt',
      s' = mkst h' rt' sz nx cl /\
      cfg h' rt' rest (IT p Black (IT x Red xl xk xv xr) pk pv (IT g Red ps gk gv u))).
  Proof.
    intro H. cfg_open H.
    unfold wp, fixAddLeftBlack. munfold. mrun.
    call_rotR rest g Red p Black (IT x Red xl xk xv xr) pk pv ps gk gv u h1 rt1 Hrun1 Hcfg1.
    mrun. split; [reflexivity|]. exists h1, rt1. split; [reflexivity|exact Hcfg1].
  Qed.

  Lemma fixAddLeftBlack_R h rt sz nx cl rest x xl xk xv xr p pl pk pv g gc gk gv u :
    cfg h rt (IFR p Red pl pk pv :: IFL g gc gk gv u :: rest) (IT x Red xl xk xv xr) ->
    wp (fixAddLeftBlack (Some x)) (mkst h rt sz nx cl) (fun a s' => a = Some p /\ exists h' rt',
      s' = mkst h' rt' sz nx cl /\
      cfg h' rt' rest (IT x Black (IT p Red pl pk pv xl) xk xv (IT g Red xr gk gv u))).
  Proof.
    intro H. cfg_open H.
    unfold wp, fixAddLeftBlack. munfold. mrun.
    call_rotL (IFL g gc gk gv u :: rest) p Red pl pk pv x Red xl xk xv xr h1 rt1 Hrun1 Hcfg1.
    cfg_open Hcfg1. mrun.
    call_rotR rest g Red x Black (IT p Red pl pk pv xl) xk xv xr gk gv u h2 rt2 Hrun2 Hcfg2.
    mrun. split; [reflexivity|]. exists h2, rt2. split; [reflexivity|exact Hcfg2].
  Qed.

  Lemma fixAddRightBlack_R h rt sz nx cl rest x xl xk xv xr p ps pk pv g gc gk gv u :
    cfg h rt (IFR p Red ps pk pv :: IFR g gc u gk gv :: rest) (IT x Red xl xk xv xr) ->
    wp (fixAddRightBlack (Some x)) (mkst h rt sz nx cl) (fun a s' => a = Some x /\ exists h' rt',
      s' = mkst h' rt' sz nx cl /\
      cfg h' rt' rest (IT p Black (IT g Red u gk gv ps) pk pv (IT x Red xl xk xv xr))).
  Proof.
    intro H. cfg_open H.
    unfold wp, fixAddRightBlack. munfold. mrun.
    call_rotL rest g Red u gk gv p Black ps pk pv (IT x Red xl xk xv xr) h1 rt1 Hrun1 Hcfg1.
    mrun. split; [reflexivity|]. exists h1, rt1. split; [reflexivity|exact Hcfg1].
  Qed.

  Lemma fixAddRightBlack_L h rt sz nx cl rest x xl xk xv xr p pr pk pv g gc gk gv u :
    cfg h rt (IFL p Red pk pv pr :: IFR g gc u gk gv :: rest) (IT x Red xl xk xv xr) ->
    wp (fixAddRightBlack (Some x)) (mkst h rt sz nx cl) (fun a s' => a = Some p /\ exists h' rt',
      s' = mkst h' rt' sz nx cl /\
      cfg h' rt' rest (IT x Black (IT g Red u gk gv xl) xk xv (IT p Red xr pk pv pr))).
  Proof.
    intro H. cfg_open H.
    unfold wp, fixAddRightBlack. munfold. mrun.
    call_rotR (IFR g gc u gk gv :: rest) p Red x Red xl xk xv xr pk pv pr h1 rt1 Hrun1 Hcfg1.
    cfg_open Hcfg1. mrun.
    call_rotL rest g Red u gk gv x Black xl xk xv (IT p Red xr pk pv pr) h2 rt2 Hrun2 Hcfg2.
    mrun. split; [reflexivity|]. exists h2, rt2. split; [reflexivity|exact Hcfg2].
  Qed.

  (* ---------- the loop of fixAfterAdd ---------- *)
  Fixpoint root_black (ctx : ictxt) : Prop :=
    match ctx with [] => True | f :: rest => match rest with [] => fcol f = Black | _ => root_black rest end end.

  Lemma cfg_root_neq h rt f rest t x : cfg h rt (f :: rest) t -> In x (ids t) -> ptr_eqb (Some x) rt = false.
  Proof.
    intros (Hc & Hr & Hnd) Hin. destruct (ictx_root _ _ _ _ Hc) as (i & -> & Hi); [discriminate|].
    apply ptr_eqb_some_neq. intro Heq. subst i. apply NoDup_app_inv in Hnd. destruct Hnd as (_ & _ & Hd).
    exact (Hd x Hin Hi).
  Qed.

  Lemma loop_exit_black fuel h rt sz nx cl f rest x c xl xk xv xr :
    cfg h rt (f :: rest) (IT x c xl xk xv xr) -> fcol f = Black ->
    fixAfterAdd_loop (S fuel) (Some x) (mkst h rt sz nx cl) = ROk tt (mkst h rt sz nx cl).
  Proof.
    intros H Hb. pose proof (cfg_root_neq _ _ _ _ _ x H (or_introl eq_refl)) as Hne.
    destruct f as [p pc pk pv ps|p pc pl pk pv]; cbn [fcol] in Hb; subst pc; cfg_open H;
      cbn [fixAfterAdd_loop]; munfold; mrun; rewrite Hne; mrun; reflexivity.
  Qed.

  (* one iteration with a red parent: either the red uncle is recoloured and the loop goes on two
     levels up, or the black-uncle rotations end it *)
  Lemma fixAfterAdd_step h rt sz nx cl f g rest x xl xk xv xr :
    let t := IT x Red xl xk xv xr in
    cfg h rt (f :: g :: rest) t -> fcol f = Red ->
    (exists h' gl gr,
        (forall fuel, fixAfterAdd_loop (S fuel) (Some x) (mkst h rt sz nx cl) =
                      fixAfterAdd_loop fuel (Some (fid g)) (mkst h' rt sz nx cl)) /\
        cfg h' rt rest (IT (fid g) Red gl (match g with IFL _ _ k _ _ => k | IFR _ _ _ k _ => k end)
                                          (match g with IFL _ _ _ v _ => v | IFR _ _ _ _ v => v end) gr) /\
        up_ins (eframe g) (up_ins (eframe f) (erase t, RedNode)) =
          (erase (IT (fid g) Red gl (match g with IFL _ _ k _ _ => k | IFR _ _ _ k _ => k end)
                                          (match g with IFL _ _ _ v _ => v | IFR _ _ _ _ v => v end) gr), RedNode) /\
        same (ids gl ++ ids gr ++ [fid g]) (ids t ++ fid f :: ids (fsib f) ++ fid g :: ids (fsib g)) /\
        same (phs gl ++ phs gr) (phs t ++ phs (fsib f) ++ phs (fsib g)))
    \/
    (exists h' rt' t1,
        (forall fuel, fixAfterAdd_loop (S (S fuel)) (Some x) (mkst h rt sz nx cl) = ROk tt (mkst h' rt' sz nx cl)) /\
        cfg h' rt' rest t1 /\
        up_ins (eframe g) (up_ins (eframe f) (erase t, RedNode)) = (erase t1, Done) /\
        same (ids t1) (ids t ++ fid f :: ids (fsib f) ++ fid g :: ids (fsib g)) /\
        same (phs t1) (phs t ++ phs (fsib f) ++ phs (fsib g))).
  Proof.
    intros t H Hred. subst t. pose proof (cfg_root_neq _ _ _ _ _ x H (or_introl eq_refl)) as Hne.
    destruct f as [p pc pk pv ps|p pc ps pk pv]; cbn [fcol] in Hred; subst pc;
    destruct g as [g gc gk gv u|g gc u gk gv].
    - (* LL *)
      destruct u as [|ui uk uv|ui [|] ul uk uv ur].
      3: { left. cfg_open H. eexists. exists (IT p Black (IT x Red xl xk xv xr) pk pv ps), (IT ui Black ul uk uv ur).
           split; [intro fuel; cbn [fixAfterAdd_loop]; munfold; mrun; rewrite Hne; mrun; reflexivity|].
           split; [cfg_tac|]. split; [reflexivity|]. split; same_tac. }
      all: right.
      all: destruct (wp_ok _ _ _ (fixAddLeftBlack_L h rt sz nx cl _ _ _ _ _ _ _ _ _ _ _ _ _ _ _ H)) as (a & s' & Hrun & -> & h' & rt' & -> & Hcfg').
      all: exists h', rt'; eexists; split;
        [intro fuel; cfg_open H; cbn [fixAfterAdd_loop]; munfold; mrun; rewrite Hne; mrun; rewrite Hrun;
         apply (loop_exit_black fuel _ _ _ _ _ _ _ _ _ _ _ _ _ (cfg_down _ _ (IFL p Black pk pv _) _ _ Hcfg')); reflexivity|].
      all: split; [exact Hcfg'|]. all: split; [reflexivity|]. all: split; same_tac.
    - (* LR: p left of g? no: x left of p, p right of g *)
      destruct u as [|ui uk uv|ui [|] ul uk uv ur].
      3: { left. cfg_open H. eexists. exists (IT ui Black ul uk uv ur), (IT p Black (IT x Red xl xk xv xr) pk pv ps).
           split; [intro fuel; cbn [fixAfterAdd_loop]; munfold; mrun; rewrite Hne; mrun; reflexivity|].
           split; [cfg_tac|]. split; [reflexivity|]. split; same_tac. }
      all: right.
      all: destruct (wp_ok _ _ _ (fixAddRightBlack_L h rt sz nx cl _ _ _ _ _ _ _ _ _ _ _ _ _ _ _ H)) as (a & s' & Hrun & -> & h' & rt' & -> & Hcfg').
      all: exists h', rt'; eexists; split;
        [intro fuel; cfg_open H; cbn [fixAfterAdd_loop]; munfold; mrun; rewrite Hne; mrun; rewrite Hrun;
         apply (loop_exit_black fuel _ _ _ _ _ _ _ _ _ _ _ _ _ (cfg_down _ _ (IFR x Black _ xk xv) _ _ Hcfg')); reflexivity|].
      all: split; [exact Hcfg'|]. all: split; [reflexivity|]. all: split; same_tac.
    - (* RL *)
      destruct u as [|ui uk uv|ui [|] ul uk uv ur].
      3: { left. cfg_open H. eexists. exists (IT p Black ps pk pv (IT x Red xl xk xv xr)), (IT ui Black ul uk uv ur).
           split; [intro fuel; cbn [fixAfterAdd_loop]; munfold; mrun; rewrite Hne; mrun; reflexivity|].
           split; [cfg_tac|]. split; [reflexivity|]. split; same_tac. }
      all: right.
      all: destruct (wp_ok _ _ _ (fixAddLeftBlack_R h rt sz nx cl _ _ _ _ _ _ _ _ _ _ _ _ _ _ _ H)) as (a & s' & Hrun & -> & h' & rt' & -> & Hcfg').
      all: exists h', rt'; eexists; split;
        [intro fuel; cfg_open H; cbn [fixAfterAdd_loop]; munfold; mrun; rewrite Hne; mrun; rewrite Hrun;
         apply (loop_exit_black fuel _ _ _ _ _ _ _ _ _ _ _ _ _ (cfg_down _ _ (IFL x Black xk xv _) _ _ Hcfg')); reflexivity|].
      all: split; [exact Hcfg'|]. all: split; [reflexivity|]. all: split; same_tac.
    - (* RR *)
      destruct u as [|ui uk uv|ui [|] ul uk uv ur].
      3: { left. cfg_open H. eexists. exists (IT ui Black ul uk uv ur), (IT p Black ps pk pv (IT x Red xl xk xv xr)).
           split; [intro fuel; cbn [fixAfterAdd_loop]; munfold; mrun; rewrite Hne; mrun; reflexivity|].
           split; [cfg_tac|]. split; [reflexivity|]. split; same_tac. }
      all: right.
      all: destruct (wp_ok _ _ _ (fixAddRightBlack_R h rt sz nx cl _ _ _ _ _ _ _ _ _ _ _ _ _ _ _ H)) as (a & s' & Hrun & -> & h' & rt' & -> & Hcfg').
      all: exists h', rt'; eexists; split;
        [intro fuel; cfg_open H; cbn [fixAfterAdd_loop]; munfold; mrun; rewrite Hne; mrun; rewrite Hrun;
         apply (loop_exit_black fuel _ _ _ _ _ _ _ _ _ _ _ _ _ (cfg_down _ _ (IFR p Black _ pk pv) _ _ Hcfg')); reflexivity|].
      all: split; [exact Hcfg'|]. all: split; [reflexivity|]. all: split; same_tac.
  Qed.

  Lemma root_black_tail f g rest : root_black (f :: g :: rest) -> root_black rest.
  Proof. cbn [root_black]. destruct rest as [|k rest']; [intros _; exact I|]. intro H; exact H. Qed.

  Lemma fixAfterAdd_loop_spec : forall n ctx, (length ctx <= n)%nat ->
    forall fuel x xl xk xv xr h rt sz nx cl,
    cfg h rt ctx (IT x Red xl xk xv xr) -> root_black ctx -> (length ctx < fuel)%nat ->
    exists h' rt' t',
      fixAfterAdd_loop fuel (Some x) (mkst h rt sz nx cl) = ROk tt (mkst h' rt' sz nx cl) /\
      cfg h' rt' [] t' /\
      erase t' = fst (unwind_ins (ectx ctx) (erase (IT x Red xl xk xv xr), RedNode)) /\
      same (ids t') (ids (IT x Red xl xk xv xr) ++ cids ctx) /\
      same (phs t') (phs (IT x Red xl xk xv xr) ++ cphs ctx).
  Proof.
    induction n as [|n IH]; intros ctx Hlen fuel x xl xk xv xr h rt sz nx cl H Hrb Hfuel.
    - destruct ctx; [|cbn in Hlen; lia]. destruct fuel as [|fuel]; [cbn in Hfuel; lia|].
      exists h, rt, (IT x Red xl xk xv xr). split.
      { destruct H as (Hc & _). cbn [ictx rid] in Hc. subst rt. cbn [fixAfterAdd_loop]. munfold. mrun. reflexivity. }
      split; [exact H|]. split; [reflexivity|]. split; same_tac.
    - destruct ctx as [|f rest].
      { destruct fuel as [|fuel]; [cbn in Hfuel; lia|].
        exists h, rt, (IT x Red xl xk xv xr). split.
        { destruct H as (Hc & _). cbn [ictx rid] in Hc. subst rt. cbn [fixAfterAdd_loop]. munfold. mrun. reflexivity. }
        split; [exact H|]. split; [reflexivity|]. split; same_tac. }
      destruct (fcol f) eqn:Hf.
      + (* red parent *)
        destruct rest as [|g rest']; [cbn [root_black] in Hrb; congruence|].
        destruct fuel as [|[|fuel]]; [cbn in Hfuel; lia|cbn in Hfuel; lia|].
        destruct (fixAfterAdd_step h rt sz nx cl f g rest' x xl xk xv xr H Hf)
          as [(h' & gl & gr & Hrun & Hcfg & Hup & Hids & Hphs)|(h' & rt' & t1 & Hrun & Hcfg & Hup & Hids & Hphs)].
        * destruct (IH rest' ltac:(cbn in Hlen; lia) (S fuel) _ _ _ _ _ h' rt sz nx cl Hcfg (root_black_tail _ _ _ Hrb) ltac:(cbn in Hfuel |- *; lia))
            as (h2 & rt2 & t2 & Hrun2 & Hcfg2 & He2 & Hids2 & Hphs2).
          exists h2, rt2, t2. split; [rewrite Hrun; exact Hrun2|]. split; [exact Hcfg2|].
          split; [rewrite He2; cbn [ectx map unwind_ins]; rewrite Hup; reflexivity|].
          split.
          -- eapply same_trans; [exact Hids2|]. same_via Hids.
          -- eapply same_trans; [exact Hphs2|]. same_via Hphs.
        * exists h', rt', (iplug rest' t1). split; [apply Hrun|]. split; [apply cfg_plug; exact Hcfg|].
          split; [cbn [ectx map unwind_ins]; rewrite Hup, unwind_ins_done, erase_iplug; reflexivity|].
          split.
          -- eapply same_trans; [apply ids_iplug|]. same_via Hids.
          -- eapply same_trans; [apply phs_iplug|]. same_via Hphs.
      + (* black parent: done *)
        destruct fuel as [|fuel]; [cbn in Hfuel; lia|].
        exists h, rt, (iplug (f :: rest) (IT x Red xl xk xv xr)).
        split; [apply (loop_exit_black fuel _ _ _ _ _ _ _ _ _ _ _ _ _ H Hf)|].
        split; [apply cfg_plug; exact H|].
        split.
        { rewrite erase_iplug. cbn [ectx map unwind_ins].
          destruct f as [p pc pk pv ps|p pc ps pk pv]; cbn [fcol] in Hf; subst pc; cbn [eframe up_ins]; rewrite unwind_ins_done; reflexivity. }
        split; [apply ids_iplug|apply phs_iplug].
  Qed.

  Definition isetcol (c : color) (t : itree) : itree :=
    match t with IT i _ l k v r => IT i c l k v r | _ => t end.
  Lemma erase_isetcol c t : erase (isetcol c t) = setcol c (erase t).
  Proof. destruct t; reflexivity. Qed.
  Lemma ids_isetcol c t : ids (isetcol c t) = ids t.
  Proof. destruct t; reflexivity. Qed.
  Lemma phs_isetcol c t : phs (isetcol c t) = phs t.
  Proof. destruct t; reflexivity. Qed.

  Lemma blacken_root h rt sz nx cl t :
    cfg h rt [] t ->
    exists h', (rt0 <- get_root ;; setColor rt0 Black) (mkst h rt sz nx cl) = ROk tt (mkst h' rt sz nx cl) /\
               cfg h' rt [] (isetcol Black t).
  Proof.
    intro H. destruct t as [|i k v|i c l k v r]; cfg_open H; subst rt; eexists; (split; [munfold; mrun; reflexivity|]); cbn [isetcol with_col ncol nkey nval nleft nright npar]; cfg_tac.
  Qed.

  Lemma fixAfterAdd_spec fuel ctx x xl xk xv xr h rt sz nx cl :
    cfg h rt ctx (IT x Red xl xk xv xr) -> root_black ctx -> (length ctx < fuel)%nat ->
    exists h' rt' t',
      fixAfterAdd fuel (Some x) (mkst h rt sz nx cl) = ROk tt (mkst h' rt' sz nx cl) /\
      cfg h' rt' [] t' /\
      erase t' = setcol Black (fst (unwind_ins (ectx ctx) (erase (IT x Red xl xk xv xr), RedNode))) /\
      same (ids t') (ids (IT x Red xl xk xv xr) ++ cids ctx) /\
      same (phs t') (phs (IT x Red xl xk xv xr) ++ cphs ctx).
  Proof.
    intros H Hrb Hfuel.
    assert (H1 : cfg (hset h x (mkn Red xk xv (rid xl) (rid xr) (cpar ctx))) rt ctx (IT x Red xl xk xv xr)).
    { destruct H as (Hc & Hr & Hnd). cbn [irep ids rid] in *. dands. nd_sat. unfold cfg. cbn [irep ids rid].
      split; [apply ictx_hset_other; assumption|]. split; [|nd_goal]. hsimp. repeat split; fin. }
    destruct (fixAfterAdd_loop_spec _ ctx (le_n _) fuel x xl xk xv xr _ rt sz nx cl H1 Hrb Hfuel)
      as (h2 & rt2 & t2 & Hrun2 & Hcfg2 & He2 & Hids2 & Hphs2).
    destruct (blacken_root h2 rt2 sz nx cl t2 Hcfg2) as (h3 & Hrun3 & Hcfg3).
    exists h3, rt2, (isetcol Black t2). split.
    { unfold fixAfterAdd. destruct H as (_ & Hr & _). cbn [irep] in Hr. dands.
      erewrite bind_ok; [|unfold set_col, store; cbn [pheap proot psize pnext pcalls]; hsimp; cbn [with_col ncol nkey nval nleft nright npar]; reflexivity].
      erewrite bind_ok; [|exact Hrun2]. exact Hrun3. }
    split; [exact Hcfg3|]. split; [rewrite erase_isetcol, He2; reflexivity|].
    rewrite ids_isetcol, phs_isetcol. split; assumption.
  Qed.
End Ins.
