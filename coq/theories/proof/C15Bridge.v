(* C15Bridge.v — C15: generic part of the bridge between the statement-granular interleaving
   models (C06–C13) and the hypothesis [guards_respected] of the data-race-freedom theorems.

   1. STATIC side: the key of a footprint row is (entry function, "inline path: statement text");
      a program counter of an interleaving model carries (label function, statement text) = the
      lock-step label `<Recv>.<Func>|<stmt>|<occ>` of ocaml/drv_<obj>.ml, plus the entry function
      and the inline path.  [guards_respected_at tbl func stmt held]: every row of the table with
      that key and guard [GLock l m] finds (l, m') in [held] with m' at least m.  The boolean
      [guards_held] decides it; it is monotone in [held].
   2. TRACE side (one lock L): an execution (list of HB events) every event of which is
      admissible in the lock state reached by the events before it ([all_ok]) is well-formed
      ([HB.wf]) and respects the guards of the table ([FootprintModel.guards_respected]) —
      [all_ok_wf_guards].  [model_trace_ok]: an interleaving model whose every step emits an
      admissible event list and moves a model-level lock state accordingly generates only such
      executions.  The per-object files instantiate both. *)
From Coq Require Import List String Ascii Bool Arith Lia.
From Ekit Require Import HB FootprintModel.
From Ekit Require Conc.
Import ListNotations.
Open Scope string_scope.

(* ====================== 1. static side ====================== *)

Definition mode_ge (have need : mode) : bool :=
  match have, need with
  | Excl, _ => true
  | Shared, Shared => true
  | Shared, Excl => false
  end.

Definition lockset := list (string * mode).

Definition has_lock (held : lockset) (l : string) (m : mode) : bool :=
  existsb (fun p => String.eqb (fst p) l && mode_ge (snd p) m) held.

(* the statement key of a footprint row: "" = a statement of the entry function itself *)
Definition row_stmt (path stmt : string) : string :=
  if String.eqb path "" then stmt else path ++ ": " ++ stmt.

Definition row_is (func stmt : string) (r : row) : bool :=
  String.eqb (r_func r) func && String.eqb (r_stmt r) stmt.

Definition is_glock (r : row) : bool :=
  match r_guard r with GLock _ _ => true | _ => false end.

Definition guards_respected_at (tbl : table) (func stmt : string) (held : lockset) : Prop :=
  forall r l m, In r tbl -> r_func r = func -> r_stmt r = stmt -> r_guard r = GLock l m ->
    exists m', In (l, m') held /\ mode_ge m' m = true.

Definition guards_held (tbl : table) (func stmt : string) (held : lockset) : bool :=
  forallb (fun r => match r_guard r with
                    | GLock l m => negb (row_is func stmt r) || has_lock held l m
                    | _ => true
                    end) tbl.

Lemma has_lock_spec held l m :
  has_lock held l m = true <-> exists m', In (l, m') held /\ mode_ge m' m = true.
Proof.
  unfold has_lock. rewrite existsb_exists. split.
  - intros ([l' m'] & Hin & H). cbn in H. apply andb_true_iff in H as [Hl Hm].
    apply String.eqb_eq in Hl. subst l'. now exists m'.
  - intros (m' & Hin & Hm). exists (l, m'). split; [exact Hin|]. cbn.
    now rewrite String.eqb_refl, Hm.
Qed.

Lemma guards_held_spec tbl func stmt held :
  guards_held tbl func stmt held = true -> guards_respected_at tbl func stmt held.
Proof.
  unfold guards_held, guards_respected_at. rewrite forallb_forall.
  intros H r l m Hin Hf Hs Hg. specialize (H r Hin). rewrite Hg in H.
  unfold row_is in H. rewrite Hf, Hs, !String.eqb_refl in H. cbn in H.
  now apply has_lock_spec.
Qed.

Lemma guards_respected_at_incl tbl func stmt h1 h2 :
  incl h1 h2 -> guards_respected_at tbl func stmt h1 -> guards_respected_at tbl func stmt h2.
Proof.
  intros Hi H r l m Hin Hf Hs Hg. destruct (H r l m Hin Hf Hs Hg) as (m' & Hm & Hge).
  exists m'. split; [now apply Hi|exact Hge].
Qed.

(* non-vacuity: the GLock rows of a table that no program counter of the model carries *)
Definition unmatched (tbl : table) (keys : list (string * string)) : list row :=
  filter (fun r => is_glock r && negb (existsb (fun k => row_is (fst k) (snd k) r) keys)) tbl.
Definition glock_rows (tbl : table) : list row := filter is_glock tbl.

(* the last component of an inline path "A>B>C" is the function the statement belongs to *)
Fixpoint last_comp_aux (acc s : string) : string :=
  match s with
  | EmptyString => acc
  | String c r => if Ascii.eqb c ">"%char then last_comp_aux "" r else last_comp_aux (acc ++ String c "") r
  end.
Definition last_comp (s : string) : string := last_comp_aux "" s.

(* label function of a pc: path = "" -> "<Type>.<entry>", otherwise the last path component *)
Definition lfunc_of (type func path : string) : string :=
  if String.eqb path "" then type ++ "." ++ func else last_comp path.

(* ====================== 2. trace side: one lock ====================== *)

Definition name_eqb (a b : name) : bool := String.eqb (fst a) (fst b) && Nat.eqb (snd a) (snd b).
Lemma name_eqb_eq a b : name_eqb a b = true <-> a = b.
Proof.
  destruct a as [s n], b as [s' n']. unfold name_eqb. cbn.
  rewrite andb_true_iff, String.eqb_eq, Nat.eqb_eq. split; [intros [-> ->]; reflexivity|].
  intros H; injection H as -> ->; split; reflexivity.
Qed.
Definition mode_eqb (a b : mode) : bool :=
  match a, b with Excl, Excl | Shared, Shared => true | _, _ => false end.
Lemma mode_eqb_eq a b : mode_eqb a b = true <-> a = b.
Proof. destruct a, b; cbn; split; congruence. Qed.

Close Scope string_scope.
Section OneLock.
  Variable L : string.          (* the lock, instance 0 *)
  Variable tbl : table.

  Definition lstate := thread -> mode -> bool.
  Definition ls0 : lstate := fun _ _ => false.

  Definition upd (h : lstate) (e : event) : lstate :=
    match act e with
    | Acq l m => if name_eqb l (lname L)
                 then fun t m' => if Nat.eqb t (tid e) && mode_eqb m' m then true else h t m'
                 else h
    | Rel l m => if name_eqb l (lname L)
                 then fun t m' => if Nat.eqb t (tid e) && mode_eqb m' m then false else h t m'
                 else h
    | _ => h
    end.

  Definition upds (h : lstate) (es : list event) : lstate := fold_left upd es h.

  Definition h_at_least (h : lstate) (t : thread) (m : mode) : Prop :=
    match m with Excl => h t Excl = true | Shared => h t Shared = true \/ h t Excl = true end.

  Definition guard_okh (h : lstate) (t : thread) (g : guard) : Prop :=
    match g with
    | GNone | GConst => True
    | GLock l m => l = L /\ h_at_least h t m
    | _ => False
    end.

  Definition ev_ok (h : lstate) (e : event) : Prop :=
    match act e with
    | Acq l m => l = lname L /\ (forall t', h t' Excl = false) /\
                 (m = Excl -> forall t', h t' Shared = false)
    | Rel l m => l = lname L /\ h (tid e) m = true
    | Fork _ => False
    | a => match access_of a with
           | Some (x, w, ao) =>
               exists r, In r tbl /\ r_loc r = fst x /\ kind_matches (r_kind r) w ao = true /\
                         guard_okh h (tid e) (r_guard r)
           | None => True
           end
    end.

  Fixpoint all_ok (h : lstate) (es : list event) : Prop :=
    match es with
    | [] => True
    | e :: r => ev_ok h e /\ all_ok (upd h e) r
    end.

  Definition ls_eq (h h' : lstate) : Prop := forall t m, h t m = h' t m.

  Lemma upd_ext h h' e : ls_eq h h' -> ls_eq (upd h e) (upd h' e).
  Proof.
    intros H t m. unfold upd. destruct (act e); try apply H;
      destruct (name_eqb l (lname L)); try apply H;
      destruct (Nat.eqb t (tid e) && mode_eqb m m0); try reflexivity; apply H.
  Qed.

  Lemma upds_ext es : forall h h', ls_eq h h' -> ls_eq (upds h es) (upds h' es).
  Proof.
    induction es as [|e r IH]; intros h h' H; cbn; [exact H|]. apply IH. now apply upd_ext.
  Qed.

  Lemma guard_okh_ext h h' t g : ls_eq h h' -> guard_okh h t g -> guard_okh h' t g.
  Proof.
    intros H. destruct g as [| |l m| |]; cbn; try tauto.
    intros [Hl Hh]. split; [exact Hl|]. destruct m; cbn in *; rewrite <- !H; exact Hh.
  Qed.

  Lemma ev_ok_ext h h' e : ls_eq h h' -> ev_ok h e -> ev_ok h' e.
  Proof.
    intros H. unfold ev_ok. destruct (act e) eqn:Ea; cbn [access_of]; try tauto.
    - intros (Hl & H1 & H2). split; [exact Hl|]. split.
      + intros t'. rewrite <- H. apply H1.
      + intros Hm t'. rewrite <- H. now apply H2.
    - intros (Hl & H1). split; [exact Hl|]. now rewrite <- H.
    - intros (r & Hin & Hloc & Hk & Hg). exists r. repeat split; try assumption.
      eapply guard_okh_ext; eassumption.
    - intros (r & Hin & Hloc & Hk & Hg). exists r. repeat split; try assumption.
      eapply guard_okh_ext; eassumption.
    - intros (r & Hin & Hloc & Hk & Hg). exists r. repeat split; try assumption.
      eapply guard_okh_ext; eassumption.
    - intros (r & Hin & Hloc & Hk & Hg). exists r. repeat split; try assumption.
      eapply guard_okh_ext; eassumption.
    - intros (r & Hin & Hloc & Hk & Hg). exists r. repeat split; try assumption.
      eapply guard_okh_ext; eassumption.
  Qed.

  Lemma all_ok_ext es : forall h h', ls_eq h h' -> all_ok h es -> all_ok h' es.
  Proof.
    induction es as [|e r IH]; intros h h' H; cbn; [tauto|].
    intros [He Hr]. split; [eapply ev_ok_ext; eassumption|].
    eapply IH; [|exact Hr]. now apply upd_ext.
  Qed.

  Lemma all_ok_app es1 : forall h es2,
    all_ok h (es1 ++ es2) <-> all_ok h es1 /\ all_ok (upds h es1) es2.
  Proof.
    induction es1 as [|e r IH]; intros h es2; cbn; [tauto|]. rewrite IH. tauto.
  Qed.

  Lemma upds_app h es1 es2 : upds h (es1 ++ es2) = upds (upds h es1) es2.
  Proof. unfold upds. apply fold_left_app. Qed.

  (* ---------- holds on prefixes and extensions ---------- *)

  Lemma ev_at_app_l (e1 e2 : execution) i ev : i < List.length e1 -> (ev_at (e1 ++ e2) i ev <-> ev_at e1 i ev).
  Proof. intros Hi. unfold ev_at. now rewrite nth_error_app1. Qed.

  Lemma holds_prefix (e1 e2 : execution) t l m i :
    i <= List.length e1 -> (holds (e1 ++ e2) t l m i <-> holds e1 t l m i).
  Proof.
    intros Hi. unfold holds. split.
    - intros (p & Hp & (ev & Hev & Ht & Ha) & Hno). exists p. split; [exact Hp|]. split.
      + exists ev. split; [|now split]. apply (ev_at_app_l e1 e2); [lia|exact Hev].
      + intros k ev' Hk Hev'. apply (Hno k ev' Hk). apply ev_at_app_l; [lia|exact Hev'].
    - intros (p & Hp & (ev & Hev & Ht & Ha) & Hno). exists p. split; [exact Hp|]. split.
      + exists ev. split; [|now split]. apply ev_at_app_l; [lia|exact Hev].
      + intros k ev' Hk Hev'. apply (Hno k ev' Hk). apply (ev_at_app_l e1 e2); [lia|exact Hev'].
  Qed.

  Lemma ev_at_last (e : execution) ev : ev_at (e ++ [ev]) (List.length e) ev.
  Proof. unfold ev_at. rewrite nth_error_app2; [|lia]. now rewrite Nat.sub_diag. Qed.

  Lemma holds_snoc (e : execution) ev t l m :
    holds (e ++ [ev]) t l m (S (List.length e)) <->
    (tid ev = t /\ act ev = Acq l m) \/
    (holds e t l m (List.length e) /\ ~ (tid ev = t /\ act ev = Rel l m)).
  Proof.
    split.
    - intros (p & Hp & (ev0 & Hev0 & Ht & Ha) & Hno).
      destruct (Nat.eq_dec p (List.length e)) as [->|Hne].
      + left. pose proof (ev_at_fun _ _ _ _ Hev0 (ev_at_last e ev)) as ->. now split.
      + right. split.
        * exists p. split; [lia|]. split.
          -- exists ev0. split; [|now split]. apply (ev_at_app_l e [ev]); [lia|exact Hev0].
          -- intros k ev' Hk Hev'. apply (Hno k ev'); [lia|]. apply ev_at_app_l; [lia|exact Hev'].
        * apply (Hno (List.length e) ev); [lia|apply ev_at_last].
    - intros [[Ht Ha]|[(p & Hp & (ev0 & Hev0 & Ht & Ha) & Hno) Hnr]].
      + exists (List.length e). split; [lia|]. split.
        * exists ev. split; [apply ev_at_last|now split].
        * intros k ev' Hk. lia.
      + exists p. split; [lia|]. split.
        * exists ev0. split; [|now split]. apply ev_at_app_l; [lia|exact Hev0].
        * intros k ev' Hk Hev'. destruct (Nat.eq_dec k (List.length e)) as [->|Hne].
          -- pose proof (ev_at_fun _ _ _ _ Hev' (ev_at_last e ev)) as ->. exact Hnr.
          -- apply (Hno k ev'); [lia|]. apply (ev_at_app_l e [ev]); [lia|exact Hev'].
  Qed.

  (* the lock state computed along the trace is HB's [holds] at the end of the trace *)
  Lemma upds_holds (e : execution) : forall t m,
    upds ls0 e t m = true <-> holds e t (lname L) m (List.length e).
  Proof.
    induction e as [|ev e IH] using rev_ind; intros t m.
    - cbn. split; [discriminate|]. intros (p & Hp & _). lia.
    - rewrite upds_app. cbn [upds fold_left]. rewrite app_length. cbn [length].
      rewrite Nat.add_1_r, holds_snoc. fold (upds ls0 e). unfold upd.
      destruct (act ev) as [l m0|l m0| | | | | | | | ] eqn:Ea;
        try (rewrite IH; split; [intros H; right; split; [exact H|intros [_ X]; discriminate X]
                                |intros [[_ X]|[H _]]; [discriminate X|exact H]]).
      + destruct (name_eqb l (lname L)) eqn:El.
        * apply name_eqb_eq in El. subst l.
          destruct (Nat.eqb t (tid ev) && mode_eqb m m0) eqn:Et.
          -- apply andb_true_iff in Et as [Et Em]. apply Nat.eqb_eq in Et. apply mode_eqb_eq in Em.
             subst. split; [intros _; left; now split|reflexivity].
          -- rewrite IH. split.
             ++ intros H. right. split; [exact H|intros [_ X]; discriminate X].
             ++ intros [[Ht X]|[H _]]; [|exact H]. injection X as Hm. subst.
                rewrite Nat.eqb_refl in Et. cbn in Et.
                destruct m; cbn in Et; discriminate Et.
        * rewrite IH. split.
          -- intros H. right. split; [exact H|intros [_ X]; discriminate X].
          -- intros [[Ht X]|[H _]]; [|exact H]. injection X as Hl Hm. subst l.
             assert (Hx : name_eqb (lname L) (lname L) = true) by now apply name_eqb_eq.
             congruence.
      + destruct (name_eqb l (lname L)) eqn:El.
        * apply name_eqb_eq in El. subst l.
          destruct (Nat.eqb t (tid ev) && mode_eqb m m0) eqn:Et.
          -- apply andb_true_iff in Et as [Et Em]. apply Nat.eqb_eq in Et. apply mode_eqb_eq in Em.
             subst. split; [discriminate|].
             intros [[_ X]|[_ H]]; [discriminate X|]. exfalso. apply H. now split.
          -- rewrite IH. split.
             ++ intros H. right. split; [exact H|]. intros [Ht X]. injection X as Hm. subst.
                rewrite Nat.eqb_refl in Et. destruct m; cbn in Et; discriminate Et.
             ++ intros [[_ X]|[H _]]; [discriminate X|exact H].
        * rewrite IH. split.
          -- intros H. right. split; [exact H|]. intros [_ X]. injection X as Hl Hm. subst l.
             assert (Hx : name_eqb (lname L) (lname L) = true) by now apply name_eqb_eq.
             congruence.
          -- intros [[_ X]|[H _]]; [discriminate X|exact H].
  Qed.

  (* every event of an admissible trace is admissible in the state of its prefix *)
  Lemma all_ok_at (es : list event) : forall h, all_ok h es ->
    forall i ev, ev_at es i ev -> ev_ok (upds h (firstn i es)) ev.
  Proof.
    induction es as [|e r IH]; intros h Hok i ev Hev.
    - unfold ev_at in Hev. destruct i; discriminate Hev.
    - destruct Hok as [He Hr]. destruct i as [|i].
      + unfold ev_at in Hev. cbn in Hev. injection Hev as <-. exact He.
      + cbn [firstn upds fold_left]. apply (IH (upd h e) Hr i ev). exact Hev.
  Qed.

  Lemma firstn_split_at (es : list event) i ev :
    ev_at es i ev -> es = firstn i es ++ skipn i es /\ List.length (firstn i es) = i.
  Proof.
    intros H. split; [symmetry; apply firstn_skipn|]. apply firstn_length_le.
    apply ev_at_lt in H. lia.
  Qed.

  Lemma holds_of_state (es : list event) i ev t m :
    ev_at es i ev -> (upds ls0 (firstn i es) t m = true <-> holds es t (lname L) m i).
  Proof.
    intros Hev. destruct (firstn_split_at es i ev Hev) as [Hs Hl].
    rewrite upds_holds, Hl. rewrite Hs at 2. symmetry. apply holds_prefix. lia.
  Qed.

  Theorem all_ok_wf_guards (es : list event) :
    all_ok ls0 es -> wf es /\ guards_respected tbl es.
  Proof.
    intros Hok. pose proof (all_ok_at es ls0 Hok) as Hat. split.
    - constructor.
      + intros i ev l m Hev Ha t'. specialize (Hat i ev Hev). unfold ev_ok in Hat. rewrite Ha in Hat.
        destruct Hat as (-> & H1 & H2). split.
        * intros Hh. apply (holds_of_state es i ev t' Excl Hev) in Hh. rewrite H1 in Hh. discriminate.
        * intros Hm Hh. apply (holds_of_state es i ev t' Shared Hev) in Hh.
          rewrite (H2 Hm) in Hh. discriminate.
      + intros i ev l m Hev Ha. specialize (Hat i ev Hev). unfold ev_ok in Hat. rewrite Ha in Hat.
        destruct Hat as (-> & H1). now apply (holds_of_state es i ev (tid ev) m Hev).
      + intros i j a b c Ha Hact. specialize (Hat i a Ha). unfold ev_ok in Hat. rewrite Hact in Hat.
        contradiction.
    - exists (fun _ => None). intros i ev x w a Hev Hacc.
      specialize (Hat i ev Hev). unfold ev_ok in Hat.
      assert (Hex : exists r, In r tbl /\ r_loc r = fst x /\ kind_matches (r_kind r) w a = true /\
                              guard_okh (upds ls0 (firstn i es)) (tid ev) (r_guard r)).
      { destruct (act ev); cbn in Hacc; try discriminate Hacc; injection Hacc as <- <- <-; exact Hat. }
      destruct Hex as (r & Hin & Hloc & Hk & Hg). exists r. repeat split; try assumption.
      destruct (r_guard r) as [| |l m| |]; cbn in *; try tauto.
      destruct Hg as [-> Hh]. split; [|exact I].
      destruct m; cbn in *.
      + now apply (holds_of_state es i ev (tid ev) Excl Hev).
      + destruct Hh as [Hh|Hh]; [left|right].
        * now apply (holds_of_state es i ev (tid ev) Shared Hev).
        * now apply (holds_of_state es i ev (tid ev) Excl Hev).
  Qed.


  (* ---------- the events of ONE step of thread t, checked against the thread's own lock state ---------- *)
  (* [sim hx hs touched am acts]: run the actions of one model step with t's holdings (hx = holds
     L exclusively, hs = shared).  A memory access needs a row of the table (same location, same
     kind) whose guard is satisfied by (hx, hs); a release needs the lock held in that mode; an
     acquisition must be the FIRST lock operation of the step (the model enables the step only when
     the lock is free: a dynamic premise, [free]).  Result: t's holdings after the step and the mode
     acquired, if any. *)
  Definition row_for (x : name) (w a hx hs : bool) (r : row) : bool :=
    String.eqb (r_loc r) (fst x) && kind_matches (r_kind r) w a &&
    match r_guard r with
    | GNone | GConst => true
    | GLock l m => String.eqb l L && match m with Excl => hx | Shared => hs || hx end
    | _ => false
    end.

  Fixpoint sim (sub : table) (hx hs touched : bool) (am : option mode) (acts : list action)
    : option (bool * bool * option mode) :=
    match acts with
    | [] => Some (hx, hs, am)
    | a :: r =>
      match a with
      | Acq l m =>
          if name_eqb l (lname L) && negb touched && negb hx && negb hs
          then match m with Excl => sim sub true hs true (Some m) r | Shared => sim sub hx true true (Some m) r end
          else None
      | Rel l m =>
          if name_eqb l (lname L) && match m with Excl => hx | Shared => hs end
          then match m with Excl => sim sub false hs true am r | Shared => sim sub hx false true am r end
          else None
      | Fork _ => None
      | _ => match access_of a with
             | Some (x, w, ao) => if existsb (row_for x w ao hx hs) sub then sim sub hx hs touched am r else None
             | None => sim sub hx hs touched am r
             end
      end
    end.

  Definition free (h : lstate) (m : mode) : Prop :=
    (forall t', h t' Excl = false) /\ (m = Excl -> forall t', h t' Shared = false).

  Definition set_ls (h : lstate) (t : thread) (hx hs : bool) : lstate :=
    fun t' m => if Nat.eqb t' t then match m with Excl => hx | Shared => hs end else h t' m.

  Lemma sim_touched sub acts : forall hx hs am r,
    sim sub hx hs true am acts = Some r -> snd r = am.
  Proof.
    induction acts as [|a acts IH]; intros hx hs am r H; cbn in H.
    - injection H as <-. reflexivity.
    - destruct a; cbn [access_of] in H;
        try (destruct (existsb _ sub); [|discriminate H]); try (now apply IH in H); try discriminate H.
      + rewrite andb_false_r in H. cbn in H. discriminate H.
      + destruct (name_eqb l (lname L) && _); [|discriminate H]. destruct m; now apply IH in H.
  Qed.

  Lemma row_for_ok h t x w a r :
    row_for x w a (h t Excl) (h t Shared) r = true ->
    r_loc r = fst x /\ kind_matches (r_kind r) w a = true /\ guard_okh h t (r_guard r).
  Proof.
    unfold row_for. intros H. apply andb_true_iff in H as [H Hg]. apply andb_true_iff in H as [Hl Hk].
    apply String.eqb_eq in Hl. split; [exact Hl|]. split; [exact Hk|].
    destruct (r_guard r) as [| |l m| |]; cbn; try exact I; try discriminate Hg.
    apply andb_true_iff in Hg as [Hl' Hm]. apply String.eqb_eq in Hl'. split; [exact Hl'|].
    destruct m; cbn; [exact Hm|]. apply orb_true_iff in Hm. exact Hm.
  Qed.

  Lemma set_ls_same h t : ls_eq h (set_ls h t (h t Excl) (h t Shared)).
  Proof.
    intros t' m. unfold set_ls. destruct (Nat.eqb t' t) eqn:E; [|reflexivity].
    apply Nat.eqb_eq in E. subst. destruct m; reflexivity.
  Qed.

  Lemma sim_sound sub t acts : incl sub tbl -> forall h touched am r,
    sim sub (h t Excl) (h t Shared) touched am acts = Some r ->
    (touched = false -> forall m, snd r = Some m -> free h m) ->
    all_ok h (map (mkEv t) acts) /\
    ls_eq (upds h (map (mkEv t) acts)) (set_ls h t (fst (fst r)) (snd (fst r))).
  Proof.
    intros Hsub. induction acts as [|a acts IH]; intros h touched am r H Hfree.
    - cbn in H. injection H as <-. cbn. split; [exact I|]. apply set_ls_same.
    - cbn [map all_ok upds fold_left]. fold (upds (upd h (mkEv t a)) (map (mkEv t) acts)).
      assert (Hacc : forall x w ao, access_of a = Some (x, w, ao) ->
                (if existsb (row_for x w ao (h t Excl) (h t Shared)) sub
                 then sim sub (h t Excl) (h t Shared) touched am acts else None) = Some r ->
                upd h (mkEv t a) = h ->
                ev_ok h (mkEv t a) = (exists r0, In r0 tbl /\ r_loc r0 = fst x /\
                     kind_matches (r_kind r0) w ao = true /\ guard_okh h t (r_guard r0)) ->
                (ev_ok h (mkEv t a) /\ all_ok (upd h (mkEv t a)) (map (mkEv t) acts)) /\
                ls_eq (upds (upd h (mkEv t a)) (map (mkEv t) acts)) (set_ls h t (fst (fst r)) (snd (fst r)))).
      { intros x w ao Ha H1 Hu He. rewrite Hu, He.
        destruct (existsb (row_for x w ao (h t Excl) (h t Shared)) sub) eqn:Ex; [|discriminate H1].
        apply existsb_exists in Ex as (r0 & Hin & Hr0). apply Hsub in Hin. apply row_for_ok in Hr0 as (Hl & Hk & Hg).
        destruct (IH h touched am r H1 Hfree) as [Hok Heq].
        split; [split; [|exact Hok]|exact Heq]. exists r0. repeat split; assumption. }
      destruct a as [l m|l m|x|x|x|o|o|c|x|x]; cbn [sim access_of] in H.
      + (* Acq *)
        destruct (name_eqb l (lname L) && negb touched && negb (h t Excl) && negb (h t Shared)) eqn:E;
          [|discriminate H].
        apply andb_true_iff in E as [E Hs]. apply andb_true_iff in E as [E Hx].
        apply andb_true_iff in E as [El Ht]. apply name_eqb_eq in El. subst l.
        apply negb_true_iff in Ht, Hx, Hs. subst touched.
        set (h1 := upd h (mkEv t (Acq (lname L) m))).
        assert (Hh1 : ls_eq h1 (set_ls h t (match m with Excl => true | Shared => h t Excl end)
                                           (match m with Excl => h t Shared | Shared => true end))).
        { intros t' m'. unfold h1, upd, set_ls. cbn [act tid].
          replace (name_eqb (lname L) (lname L)) with true by (symmetry; now apply name_eqb_eq).
          destruct (Nat.eqb t' t) eqn:Et; cbn [andb]; [|reflexivity].
          apply Nat.eqb_eq in Et. subst t'. destruct m, m'; reflexivity. }
        assert (Hsim : sim sub (h1 t Excl) (h1 t Shared) true (Some m) acts = Some r).
        { rewrite !Hh1. unfold set_ls. rewrite Nat.eqb_refl. destruct m; exact H. }
        pose proof (sim_touched _ _ _ _ _ _ Hsim) as Ham.
        destruct (IH h1 true (Some m) r Hsim) as [Hok Heq]; [discriminate|].
        split; [split; [|exact Hok]|].
        * unfold ev_ok. cbn [act]. destruct (Hfree eq_refl m Ham) as [F1 F2].
          split; [reflexivity|]. split; assumption.
        * intros t' m'. rewrite Heq. unfold set_ls. destruct (Nat.eqb t' t) eqn:Et; [reflexivity|].
          rewrite Hh1. unfold set_ls. now rewrite Et.
      + (* Rel *)
        destruct (name_eqb l (lname L) && match m with Excl => h t Excl | Shared => h t Shared end) eqn:E;
          [|discriminate H].
        apply andb_true_iff in E as [El Hm]. apply name_eqb_eq in El. subst l.
        set (h1 := upd h (mkEv t (Rel (lname L) m))).
        assert (Hh1 : ls_eq h1 (set_ls h t (match m with Excl => false | Shared => h t Excl end)
                                           (match m with Excl => h t Shared | Shared => false end))).
        { intros t' m'. unfold h1, upd, set_ls. cbn [act tid].
          replace (name_eqb (lname L) (lname L)) with true by (symmetry; now apply name_eqb_eq).
          destruct (Nat.eqb t' t) eqn:Et; cbn [andb]; [|reflexivity].
          apply Nat.eqb_eq in Et. subst t'. destruct m, m'; reflexivity. }
        assert (Hsim : sim sub (h1 t Excl) (h1 t Shared) true am acts = Some r).
        { rewrite !Hh1. unfold set_ls. rewrite Nat.eqb_refl. destruct m; exact H. }
        destruct (IH h1 true am r Hsim) as [Hok Heq]; [discriminate|].
        split; [split; [|exact Hok]|].
        * unfold ev_ok. cbn [act tid]. split; [reflexivity|]. destruct m; exact Hm.
        * intros t' m'. rewrite Heq. unfold set_ls. destruct (Nat.eqb t' t) eqn:Et; [reflexivity|].
          rewrite Hh1. unfold set_ls. now rewrite Et.
      + apply (Hacc x false true eq_refl H); reflexivity.
      + apply (Hacc x true true eq_refl H); reflexivity.
      + apply (Hacc x true true eq_refl H); reflexivity.
      + destruct (IH h touched am r H Hfree) as [Hok Heq]. split; [split; [exact I|exact Hok]|exact Heq].
      + destruct (IH h touched am r H Hfree) as [Hok Heq]. split; [split; [exact I|exact Hok]|exact Heq].
      + discriminate H.
      + apply (Hacc x false false eq_refl H); reflexivity.
      + apply (Hacc x true false eq_refl H); reflexivity.
  Qed.

  (* ---------- an interleaving model that emits admissible steps ---------- *)
  Section Model.
    Variables (cfg mev : Type) (step : cfg -> mev -> option cfg) (emit : cfg -> mev -> list event).
    Variable Inv : cfg -> Prop.
    Variable hold : cfg -> lstate.

    Fixpoint trace (c : cfg) (evs : list mev) : list event :=
      match evs with
      | [] => []
      | e :: r => match step c e with Some c' => emit c e ++ trace c' r | None => [] end
      end.

    Hypothesis Hstep : forall c e c', Inv c -> step c e = Some c' ->
      Inv c' /\ all_ok (hold c) (emit c e) /\ ls_eq (upds (hold c) (emit c e)) (hold c').

    Lemma model_trace_ok evs : forall c c', Inv c -> Conc.exec step c evs = Some c' ->
      all_ok (hold c) (trace c evs).
    Proof.
      induction evs as [|e r IH]; intros c c' Hi Hex; cbn; [exact I|].
      cbn in Hex. destruct (step c e) as [c1|] eqn:E; [|discriminate].
      destruct (Hstep c e c1 Hi E) as (Hi1 & Hok & Heq).
      apply all_ok_app. split; [exact Hok|].
      eapply all_ok_ext; [|eapply IH; eassumption].
      intros t m. symmetry. apply Heq.
    Qed.

    Theorem model_trace_wf_guards c0 evs c :
      Inv c0 -> ls_eq (hold c0) ls0 -> Conc.exec step c0 evs = Some c ->
      wf (trace c0 evs) /\ guards_respected tbl (trace c0 evs).
    Proof.
      intros Hi H0 Hex. apply all_ok_wf_guards.
      eapply all_ok_ext; [exact H0|]. eapply model_trace_ok; eassumption.
    Qed.
  End Model.
End OneLock.
Open Scope string_scope.

(* ---------- the HB actions of a footprint row (memory accesses and lock operations) ---------- *)
(* other synchronisation rows (channel, semaphore, pool, once) are NOT emitted: they only add
   happens-before edges, so leaving them out can only create more races (conservative) *)
Definition actions_of_row (r : row) : list action :=
  let x := lname (r_loc r) in
  match r_kind r with
  | KRead => [Read x]
  | KWrite => [Write x]
  | KARead => [ARead x]
  | KAWrite => [AWrite x]
  | KARmw => [ARmw x]
  | KSync op =>
      if String.eqb op "lock" then [Acq x Excl]
      else if String.eqb op "unlock" then [Rel x Excl]
      else if String.eqb op "rlock" then [Acq x Shared]
      else if String.eqb op "runlock" then [Rel x Shared]
      else []
  | KDelegate _ => []
  end.

Definition stmt_actions (tbl : table) (func stmt : string) : list action :=
  flat_map actions_of_row (filter (row_is func stmt) tbl).

Definition rows_of_func (tbl : table) (f : string) : table :=
  filter (fun r => String.eqb (r_func r) f) tbl.
Lemma rows_of_func_incl tbl f : incl (rows_of_func tbl f) tbl.
Proof. intros r H. unfold rows_of_func in H. apply filter_In in H. tauto. Qed.

(* membership of an action in a list, decided *)
Definition action_inb (a : action) (l : list action) : bool :=
  existsb (fun b => if action_eq_dec a b then true else false) l.

(* one printable line of a bridge table: (pc name, label function, statement text, occurrence) *)
Definition bridge_line := (string * string * string * nat)%type.
