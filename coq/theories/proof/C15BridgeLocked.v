(* C15BridgeLocked.v — C15 bridge for the lock-bracketed wrappers queue.ConcurrentPriorityQueue and
   list.ConcurrentList (interleaving model LockedModel.v, Section LockedObj).

   stmt_of_pc_CPQ / stmt_of_pc_CList: the Coq-side copy of the (operation, pc) -> label table of
   ocaml/drv_locked.ml (lk_label; compared with it on every run by checks/part_c15bridge.py).
   locks_held_lk: the model's RWMutex is a flag lk_w and a reader counter lk_r WITHOUT owners; thread t
   holds the lock exclusively iff the flag is set and t is inside a write-locked section (the proved
   invariant: exactly one thread is, iff the flag is set), shared iff the counter is positive and t
   is inside a read-locked section (the counter is the number of such threads).
   guards_respected_CPQ_lemma / guards_respected_CList_lemma: whenever a thread is about to execute a
   statement it holds every lock the footprint table declares for the plain accesses of that
   statement — for every event list and every initial content. *)
From Coq Require Import List String Bool Arith Lia ZArith.
From Ekit Require Import Common HB FootprintModel C15Bridge Conc LockedModel LockedProof.
Import ListNotations.
Open Scope string_scope.

Section LockedBridge.
  Variables (state op ret : Type).
  Variable seq_step : state -> op -> state * ret.
  Variable excl : op -> bool.
  Variable mutating : op -> bool.
  Hypothesis Hexcl : forall o, mutating o = true -> excl o = true.
  Hypothesis Hro : forall s o, mutating o = false -> fst (seq_step s o) = s.
  Variable MU : string.

  Notation cfg := (sys_cfg op ret (lk_shared state) (lk_pc state)).

  Definition locks_held_lk (c : cfg) (t : Conc.tid) : lockset :=
    match lookup t (s_thr c) with
    | Some x =>
        ((if lk_w (s_sh c) && lk_in_w excl x then [(MU, Excl)] else []) ++
         (if (0 <? lk_r (s_sh c))%nat && lk_in_r excl x then [(MU, Shared)] else []))%list
    | None => []
    end.

  Definition pc_locks_lk (x : op * lk_pc state) : lockset :=
    if lk_in_w excl x then [(MU, Excl)] else if lk_in_r excl x then [(MU, Shared)] else [].

  Lemma section_locks_held_lk s0 evs (c : cfg) t x :
    exec (lk_step seq_step excl) (sys_init (lk_init s0)) evs = Some c ->
    lookup t (s_thr c) = Some x -> incl (pc_locks_lk x) (locks_held_lk c t).
  Proof.
    intros Hex Hl.
    destruct (locked_object_linearizable_lemma state op ret seq_step excl mutating Hexcl Hro s0 evs c Hex)
      as (_ & _ & _ & Hw & Hr & _).
    unfold pc_locks_lk, locks_held_lk. rewrite Hl.
    destruct (lk_in_w excl x) eqn:Ew.
    - pose proof (count_pos_of_lookup (lk_in_w excl) t x _ Hl Ew) as Hpos.
      destruct (lk_w (s_sh c)); [|lia]. intros y [<-|[]]. now left.
    - destruct (lk_in_r excl x) eqn:Er; [|intros y []].
      pose proof (count_pos_of_lookup (lk_in_r excl) t x _ Hl Er) as Hpos.
      assert (Hlt : (0 <? lk_r (s_sh c))%nat = true) by (apply Nat.ltb_lt; lia).
      rewrite Hlt. intros y [<-|[]]. apply in_or_app. right. now left.
  Qed.
End LockedBridge.

Arguments locks_held_lk {state op ret}. Arguments pc_locks_lk {state op}.

(* the label of a pc of a lock-bracketed method (ocaml/drv_locked.ml, lk_label) *)
Definition lk_stmt {state : Type} (lockfield : string) (excl : bool) (body : string) (p : lk_pc state) : string :=
  match p with
  | PLock => lockfield ++ (if excl then ".Lock()" else ".RLock()")
  | PDefer => "defer " ++ lockfield ++ (if excl then ".Unlock()" else ".RUnlock()")
  | PBody => body
  | PMid _ => ""        (* inside the statement `return c.inner.Op(args)`: not a yield point of its own *)
  end.
(* the statement whose accesses the micro-step PMid performs is the body statement *)
Definition lk_rstmt {state : Type} (lockfield : string) (excl : bool) (body : string) (p : lk_pc state) : string :=
  match p with PMid _ => body | _ => lk_stmt lockfield excl body p end.
Definition lk_pcname {state : Type} (p : lk_pc state) : string :=
  match p with PLock => "PLock" | PDefer => "PDefer" | PBody => "PBody" | PMid _ => "PMid" end.

(* ====================== ConcurrentPriorityQueue ====================== *)
Definition TY_CPQ := "ConcurrentPriorityQueue".
Definition MU_CPQ := "ConcurrentPriorityQueue.m".

Definition func_of_op_CPQ (o : pq_op) : string :=
  match o with PQLen => "Len" | PQCap => "Cap" | PQPeek => "Peek" | PQEnqueue _ => "Enqueue" | PQDequeue => "Dequeue" end.
Definition body_of_op_CPQ (o : pq_op) : string :=
  match o with
  | PQLen => "return c.pq.Len()" | PQCap => "return c.pq.Cap()" | PQPeek => "return c.pq.Peek()"
  | PQEnqueue _ => "return c.pq.Enqueue(t)" | PQDequeue => "return c.pq.Dequeue()"
  end.
Definition func_of_pc_CPQ (o : pq_op) (p : lk_pc pq_state) : string := func_of_op_CPQ o.
Definition stmt_of_pc_CPQ (o : pq_op) (p : lk_pc pq_state) : string :=
  lk_stmt "c.m" (cpq_excl o) (body_of_op_CPQ o) p.
Definition rstmt_of_pc_CPQ (o : pq_op) (p : lk_pc pq_state) : string :=
  lk_rstmt "c.m" (cpq_excl o) (body_of_op_CPQ o) p.
Definition lfunc_of_pc_CPQ (o : pq_op) (p : lk_pc pq_state) : string := lfunc_of TY_CPQ (func_of_op_CPQ o) "".

Definition all_ops_CPQ : list pq_op := [PQLen; PQCap; PQPeek; PQEnqueue 0%Z; PQDequeue].
Definition some_pq_state : pq_state := {| pq_cap := 0%Z; pq_items := [] |}.
Definition all_opcs_CPQ : list (pq_op * lk_pc pq_state) :=
  flat_map (fun o => map (fun p => (o, p)) [PLock; PDefer; PBody; PMid some_pq_state]) all_ops_CPQ.

Definition bridge_CPQ : list bridge_line :=
  map (fun x => (func_of_op_CPQ (fst x) ++ ":" ++ lk_pcname (snd x), lfunc_of_pc_CPQ (fst x) (snd x),
                 stmt_of_pc_CPQ (fst x) (snd x), O))
      (filter (fun x => negb (String.eqb (stmt_of_pc_CPQ (fst x) (snd x)) "")) all_opcs_CPQ).

Definition locks_held_CPQ : cpq_cfg -> Conc.tid -> lockset := locks_held_lk cpq_excl MU_CPQ.
Definition pc_locks_CPQ : pq_op * lk_pc pq_state -> lockset := pc_locks_lk cpq_excl MU_CPQ.

Lemma guards_static_CPQ o p :
  guards_held cpq_table (func_of_pc_CPQ o p) (rstmt_of_pc_CPQ o p) (pc_locks_CPQ (o, p)) = true.
Proof. destruct o, p; vm_compute; reflexivity. Qed.

Theorem guards_respected_CPQ_lemma capacity items evs c t o p :
  exec cpq_step (cpq_init capacity items) evs = Some c -> lookup t (s_thr c) = Some (o, p) ->
  guards_respected_at cpq_table (func_of_pc_CPQ o p) (rstmt_of_pc_CPQ o p) (locks_held_CPQ c t).
Proof.
  intros Hex Hl. eapply guards_respected_at_incl.
  - exact (section_locks_held_lk pq_state pq_op pq_ret pq_seq_step cpq_excl pq_mutating
             cpq_side_condition pq_readonly MU_CPQ _ evs c t (o, p) Hex Hl).
  - apply guards_held_spec, guards_static_CPQ.
Qed.

Definition keys_CPQ : list (string * string) :=
  map (fun x => (func_of_pc_CPQ (fst x) (snd x), rstmt_of_pc_CPQ (fst x) (snd x))) all_opcs_CPQ.
Lemma all_glock_rows_matched_CPQ :
  unmatched cpq_table keys_CPQ = [] /\ List.length (glock_rows cpq_table) = 5%nat.
Proof. vm_compute. split; reflexivity. Qed.

(* ====================== ConcurrentList ====================== *)
Definition TY_CList := "ConcurrentList".
Definition MU_CList := "ConcurrentList.lock".

Definition func_of_op_CList (o : ls_op) : string :=
  match o with
  | LGet _ => "Get" | LAppend _ => "Append" | LAdd _ _ => "Add" | LSet _ _ => "Set" | LDelete _ => "Delete"
  | LLen => "Len" | LCap => "Cap" | LRange _ => "Range" | LAsSlice => "AsSlice"
  end.
Definition body_of_op_CList (o : ls_op) : string :=
  match o with
  | LGet _ => "return c.List.Get(index)" | LAppend _ => "return c.List.Append(ts...)"
  | LAdd _ _ => "return c.List.Add(index, t)" | LSet _ _ => "return c.List.Set(index, t)"
  | LDelete _ => "return c.List.Delete(index)" | LLen => "return c.List.Len()"
  | LCap => "return c.List.Cap()" | LRange _ => "return c.List.Range(fn)"
  | LAsSlice => "return c.List.AsSlice()"
  end.
Definition func_of_pc_CList (o : ls_op) (p : lk_pc (list Z)) : string := func_of_op_CList o.
Definition stmt_of_pc_CList (o : ls_op) (p : lk_pc (list Z)) : string :=
  lk_stmt "c.lock" (clist_excl o) (body_of_op_CList o) p.
Definition rstmt_of_pc_CList (o : ls_op) (p : lk_pc (list Z)) : string :=
  lk_rstmt "c.lock" (clist_excl o) (body_of_op_CList o) p.
Definition lfunc_of_pc_CList (o : ls_op) (p : lk_pc (list Z)) : string := lfunc_of TY_CList (func_of_op_CList o) "".

Definition all_ops_CList : list ls_op :=
  [LGet 0%Z; LAppend []; LAdd 0%Z 0%Z; LSet 0%Z 0%Z; LDelete 0%Z; LLen; LCap; LRange 0%Z; LAsSlice].
Definition all_opcs_CList : list (ls_op * lk_pc (list Z)) :=
  flat_map (fun o => map (fun p => (o, p)) [PLock; PDefer; PBody; PMid []]) all_ops_CList.

Definition bridge_CList : list bridge_line :=
  map (fun x => (func_of_op_CList (fst x) ++ ":" ++ lk_pcname (snd x), lfunc_of_pc_CList (fst x) (snd x),
                 stmt_of_pc_CList (fst x) (snd x), O))
      (filter (fun x => negb (String.eqb (stmt_of_pc_CList (fst x) (snd x)) "")) all_opcs_CList).

Definition locks_held_CList : clist_cfg -> Conc.tid -> lockset := locks_held_lk clist_excl MU_CList.
Definition pc_locks_CList : ls_op * lk_pc (list Z) -> lockset := pc_locks_lk clist_excl MU_CList.

Lemma guards_static_CList o p :
  guards_held clist_table (func_of_pc_CList o p) (rstmt_of_pc_CList o p) (pc_locks_CList (o, p)) = true.
Proof. destruct o, p; vm_compute; reflexivity. Qed.

Theorem guards_respected_CList_lemma items evs c t o p :
  exec clist_step (clist_init items) evs = Some c -> lookup t (s_thr c) = Some (o, p) ->
  guards_respected_at clist_table (func_of_pc_CList o p) (rstmt_of_pc_CList o p) (locks_held_CList c t).
Proof.
  intros Hex Hl. eapply guards_respected_at_incl.
  - exact (section_locks_held_lk (list Z) ls_op ls_ret ls_seq_step clist_excl ls_mutating
             clist_side_condition ls_readonly MU_CList _ evs c t (o, p) Hex Hl).
  - apply guards_held_spec, guards_static_CList.
Qed.

Definition keys_CList : list (string * string) :=
  map (fun x => (func_of_pc_CList (fst x) (snd x), rstmt_of_pc_CList (fst x) (snd x))) all_opcs_CList.
Lemma all_glock_rows_matched_CList :
  unmatched clist_table keys_CList = [] /\ List.length (glock_rows clist_table) = 9%nat.
Proof. vm_compute. split; reflexivity. Qed.
