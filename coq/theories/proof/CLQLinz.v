(* From the linearisation-point form to the textbook (Herlihy-Wing, permutation) form of
   linearizability, for histories of CLQModel (the argument uses nothing about queues except
   that [lin_run] replays the marked steps through the sequential specification).

   Operations are identified as usual by (thread, k) = the k-th call of that thread.
   Histories are the model's lists, NEWEST FIRST.  [textbook_linearizable h] for a history h of
   invocations and responses: there is a sequential history S (a list of operations with their
   results, newest first) such that
     - S has no operation twice, and contains only operations invoked in h, with their arguments;
     - S contains every operation completed in h, with the result h shows
       (operations pending in h may or may not be in S: the "completion" of h);
     - S is legal for the sequential specification;
     - real-time order: if the response of a precedes the invocation of b in h and b is in S,
       then a is in S before b. *)
From Ekit Require Import Common Conc CLQModel.
From Coq Require Import Arith PeanoNat Lia.

Local Open Scope nat_scope.

Definition opid := (tid * nat)%type.
Definition seqop := (opid * clq_op * clq_res)%type.
Definition sid (x : seqop) : opid := fst (fst x).

Fixpoint ncalls (t : tid) (h : list clq_hev) : nat :=
  match h with
  | [] => 0
  | HCall t' _ :: r => (if Nat.eqb t' t then 1 else 0) + ncalls t r
  | _ :: r => ncalls t r
  end.

Fixpoint nrets (t : tid) (h : list clq_hev) : nat :=
  match h with
  | [] => 0
  | HRet t' _ :: r => (if Nat.eqb t' t then 1 else 0) + nrets t r
  | _ :: r => nrets t r
  end.

(* argument of the k-th call of thread t / result of its k-th response *)
Fixpoint call_of (h : list clq_hev) (t : tid) (k : nat) : option clq_op :=
  match h with
  | [] => None
  | HCall t' o :: r => if Nat.eqb t' t && Nat.eqb (ncalls t r) k then Some o else call_of r t k
  | _ :: r => call_of r t k
  end.

Fixpoint ret_of (h : list clq_hev) (t : tid) (k : nat) : option clq_res :=
  match h with
  | [] => None
  | HRet t' x :: r => if Nat.eqb t' t && Nat.eqb (nrets t r) k then Some x else ret_of r t k
  | _ :: r => ret_of r t k
  end.

(* the response of operation a occurs before the invocation of operation b *)
Definition prec (h : list clq_hev) (a b : opid) : Prop :=
  exists H3 H2 H1 o r,
    h = H3 ++ HCall (fst b) o :: H2 ++ HRet (fst a) r :: H1 /\
    nrets (fst a) H1 = snd a /\
    ncalls (fst b) (H2 ++ HRet (fst a) r :: H1) = snd b.

(* a occurs before (= is older than) b in the sequential history S *)
Definition before (S : list seqop) (a b : opid) : Prop :=
  exists S3 S2 S1 xa xb, S = S3 ++ xb :: S2 ++ xa :: S1 /\ sid xa = a /\ sid xb = b.

Fixpoint seq_run (S : list seqop) : option (list Z) :=
  match S with
  | [] => Some []
  | (_, o, r) :: S' =>
    match seq_run S' with
    | None => None
    | Some q => let (q', r') := fifo_spec o q in if res_eqb r r' then Some q' else None
    end
  end.

Definition textbook_linearizable (h : list clq_hev) : Prop :=
  exists S : list seqop,
    NoDup (map sid S) /\
    (forall t k o r, In ((t, k), o, r) S -> call_of h t k = Some o) /\
    (forall t k r, ret_of h t k = Some r -> exists o, In ((t, k), o, r) S) /\
    seq_run S <> None /\
    (forall a b, prec h a b -> In b (map sid S) -> before S a b).

(* ---------- the witness: the operations in the order of their marked steps ---------- *)
Fixpoint lin_items (h : list clq_hev) : list seqop :=
  match h with
  | [] => []
  | HLin t o r :: h' => ((t, ncalls t h' - 1), o, r) :: lin_items h'
  | _ :: h' => lin_items h'
  end.

Lemma seq_run_lin_items h : seq_run (lin_items h) = lin_run h.
Proof.
  induction h as [|e h IH]; [reflexivity|].
  destruct e as [t o|t o r|t r]; cbn [lin_items seq_run lin_run]; rewrite IH; destruct (lin_run h); reflexivity.
Qed.

(* ---------- counting ---------- *)
Lemma ret_of_bound h t k r : ret_of h t k = Some r -> k < nrets t h.
Proof.
  induction h as [|e h IH]; cbn; [discriminate|].
  destruct e as [t' o|t' o x|t' x]; auto.
  destruct (Nat.eqb t' t && Nat.eqb (nrets t h) k) eqn:E.
  - intros _. apply andb_prop in E. destruct E as [E1 E2]. rewrite E1. apply Nat.eqb_eq in E2. lia.
  - intros H. specialize (IH H). lia.
Qed.

Lemma call_of_bound h t k o : call_of h t k = Some o -> k < ncalls t h.
Proof.
  induction h as [|e h IH]; cbn; [discriminate|].
  destruct e as [t' o'|t' o' x|t' x]; auto.
  destruct (Nat.eqb t' t && Nat.eqb (ncalls t h) k) eqn:E.
  - intros _. apply andb_prop in E. destruct E as [E1 E2]. rewrite E1. apply Nat.eqb_eq in E2. lia.
  - intros H. specialize (IH H). lia.
Qed.

Lemma call_of_cons_old e h t k o : call_of h t k = Some o -> call_of (e :: h) t k = Some o.
Proof.
  intros H. pose proof (call_of_bound _ _ _ _ H) as Hb.
  destruct e as [t' o'|t' o' x|t' x]; cbn; auto.
  destruct (Nat.eqb (ncalls t h) k) eqn:E; [apply Nat.eqb_eq in E; lia|].
  rewrite andb_false_r. exact H.
Qed.

Lemma ret_of_cons_old e h t k r : ret_of h t k = Some r -> ret_of (e :: h) t k = Some r.
Proof.
  intros H. pose proof (ret_of_bound _ _ _ _ H) as Hb.
  destruct e as [t' o'|t' o' x|t' x]; cbn; auto.
  destruct (Nat.eqb (nrets t h) k) eqn:E; [apply Nat.eqb_eq in E; lia|].
  rewrite andb_false_r. exact H.
Qed.

Lemma ret_of_app X t r H1 : ret_of (X ++ HRet t r :: H1) t (nrets t H1) = Some r.
Proof.
  induction X as [|e X IH]; cbn [app].
  - cbn. rewrite Nat.eqb_refl, Nat.eqb_refl. reflexivity.
  - apply ret_of_cons_old, IH.
Qed.

(* ---------- the invariant linking the phases of the threads to the witness ---------- *)
Definition thread_inv (h : list clq_hev) (t : tid) : Prop :=
  match phase t h with
  | None => False
  | Some PIdle => ncalls t h = nrets t h
  | Some (PCalled o) =>
    ncalls t h = S (nrets t h) /\ call_of h t (nrets t h) = Some o /\
    ~ In (t, nrets t h) (map sid (lin_items h))
  | Some (PLin o r) =>
    ncalls t h = S (nrets t h) /\ call_of h t (nrets t h) = Some o /\
    In ((t, nrets t h), o, r) (lin_items h)
  end.

Record hist_inv (h : list clq_hev) : Prop := {
  hi_thr : forall t, thread_inv h t;
  hi_bound : forall t k, In (t, k) (map sid (lin_items h)) -> k < ncalls t h;
  hi_nodup : NoDup (map sid (lin_items h));
  hi_call : forall t k o r, In ((t, k), o, r) (lin_items h) -> call_of h t k = Some o;
  hi_ret : forall t k r, ret_of h t k = Some r -> exists o, In ((t, k), o, r) (lin_items h)
}.

Lemma op_eqb_true a b : op_eqb a b = true -> a = b.
Proof.
  destruct a as [x|], b as [y|]; cbn; try discriminate; try reflexivity.
  intros H. apply Z.eqb_eq in H. subst. reflexivity.
Qed.

Lemma res_eqb_true a b : res_eqb a b = true -> a = b.
Proof.
  destruct a as [|[x|]], b as [|[y|]]; cbn; try discriminate; try reflexivity.
  intros H. apply Z.eqb_eq in H. subst. reflexivity.
Qed.

Lemma hist_inv_nil : hist_inv [].
Proof.
  constructor; cbn; try tauto.
  - constructor.
  - discriminate.
Qed.

Lemma phase_other e h t : hev_tid e <> t -> phase t (e :: h) = phase t h.
Proof.
  intros Hne. cbn [phase]. destruct (phase t h); [|reflexivity].
  destruct (Nat.eqb (hev_tid e) t) eqn:E; [apply Nat.eqb_eq in E; contradiction|reflexivity].
Qed.

Lemma hist_inv_cons e h :
  hist_inv h -> (forall t, phase t (e :: h) <> None) -> hist_inv (e :: h).
Proof.
  intros [Ithr Ibound Inodup Icall Iret] Hwf.
  destruct e as [t0 o0|t0 o0 r0|t0 r0].
  - (* a new invocation *)
    assert (Hph0 : phase t0 h = Some PIdle).
    { specialize (Hwf t0). cbn [phase hev_tid] in Hwf. rewrite Nat.eqb_refl in Hwf.
      specialize (Ithr t0). unfold thread_inv in Ithr.
      destruct (phase t0 h) as [[|o|o r]|]; cbn in Hwf; try contradiction; try congruence. }
    pose proof (Ithr t0) as I0. unfold thread_inv in I0. rewrite Hph0 in I0.
    constructor; cbn [lin_items].
    + intros t. unfold thread_inv. destruct (Nat.eq_dec t0 t) as [<-|Hne].
      * cbn [phase hev_tid]. rewrite Hph0, Nat.eqb_refl. cbn [advance ncalls nrets call_of].
        rewrite Nat.eqb_refl. split; [lia|]. split.
        -- rewrite I0, Nat.eqb_refl. reflexivity.
        -- intros Hin. apply Ibound in Hin. lia.
      * rewrite phase_other by exact Hne. specialize (Ithr t). unfold thread_inv in Ithr.
        cbn [ncalls nrets]. apply Nat.eqb_neq in Hne. rewrite Hne. cbn [Nat.add].
        destruct (phase t h) as [[|o|o r]|]; auto.
        -- destruct Ithr as (A & B & C). split; [exact A|]. split; [apply call_of_cons_old, B|exact C].
        -- destruct Ithr as (A & B & C). split; [exact A|]. split; [apply call_of_cons_old, B|exact C].
    + intros t k Hin. apply Ibound in Hin. cbn [ncalls]. lia.
    + exact Inodup.
    + intros t k o r Hin. apply call_of_cons_old. eapply Icall; eauto.
    + intros t k r Hr. cbn [ret_of] in Hr. eapply Iret; eauto.
  - (* a marked step *)
    assert (Hph0 : phase t0 h = Some (PCalled o0)).
    { specialize (Hwf t0). cbn [phase hev_tid] in Hwf. rewrite Nat.eqb_refl in Hwf.
      destruct (phase t0 h) as [[|o|o r]|]; cbn in Hwf; try contradiction; try congruence.
      destruct (op_eqb o o0) eqn:E; [|contradiction]. apply op_eqb_true in E. subst. reflexivity. }
    pose proof (Ithr t0) as I0. unfold thread_inv in I0. rewrite Hph0 in I0. destruct I0 as (A0 & B0 & C0).
    assert (Hid : ncalls t0 h - 1 = nrets t0 h) by lia.
    constructor; cbn [lin_items map sid fst]; rewrite ?Hid.
    + intros t. unfold thread_inv. destruct (Nat.eq_dec t0 t) as [<-|Hne].
      * cbn [phase hev_tid]. rewrite Hph0, Nat.eqb_refl. cbn [advance].
        assert (Eo : op_eqb o0 o0 = true) by (destruct o0; cbn; [apply Z.eqb_refl|reflexivity]).
        rewrite Eo. cbn [ncalls nrets call_of lin_items]. rewrite Hid. split; [exact A0|]. split; [exact B0|].
        left. reflexivity.
      * rewrite phase_other by exact Hne. specialize (Ithr t). unfold thread_inv in Ithr.
        cbn [ncalls nrets call_of lin_items map]. rewrite Hid.
        destruct (phase t h) as [[|o|o r]|]; auto.
        -- destruct Ithr as (A & B & C). split; [exact A|]. split; [exact B|].
           cbn [sid fst]. intros [E|Hin]; [injection E as E _; contradiction|exact (C Hin)].
        -- destruct Ithr as (A & B & C). split; [exact A|]. split; [exact B|]. right. exact C.
    + intros t k [E|Hin]; cbn [ncalls].
      * injection E as <- <-. lia.
      * apply Ibound, Hin.
    + constructor; [exact C0|exact Inodup].
    + intros t k o r [E|Hin]; cbn [call_of].
      * injection E as <- <- <- <-. exact B0.
      * eapply Icall; eauto.
    + intros t k r Hr. cbn [ret_of] in Hr. destruct (Iret t k r Hr) as [o Ho]. exists o. right. exact Ho.
  - (* a response *)
    assert (Hph0 : exists o, phase t0 h = Some (PLin o r0)).
    { specialize (Hwf t0). cbn [phase hev_tid] in Hwf. rewrite Nat.eqb_refl in Hwf.
      destruct (phase t0 h) as [[|o|o r]|]; cbn in Hwf; try contradiction; try congruence.
      destruct (res_eqb r r0) eqn:E; [|contradiction]. apply res_eqb_true in E. subst. eauto. }
    destruct Hph0 as [o0 Hph0].
    pose proof (Ithr t0) as I0. unfold thread_inv in I0. rewrite Hph0 in I0. destruct I0 as (A0 & B0 & C0).
    constructor; cbn [lin_items].
    + intros t. unfold thread_inv. destruct (Nat.eq_dec t0 t) as [<-|Hne].
      * cbn [phase hev_tid]. rewrite Hph0, Nat.eqb_refl. cbn [advance].
        assert (Er : res_eqb r0 r0 = true) by (destruct r0 as [|[x|]]; cbn; try reflexivity; apply Z.eqb_refl).
        rewrite Er. cbn [ncalls nrets]. rewrite Nat.eqb_refl. lia.
      * rewrite phase_other by exact Hne. specialize (Ithr t). unfold thread_inv in Ithr.
        cbn [ncalls nrets call_of]. apply Nat.eqb_neq in Hne. rewrite Hne. cbn [Nat.add].
        destruct (phase t h) as [[|o|o r]|]; auto.
    + intros t k Hin. apply Ibound in Hin. cbn [ncalls]. exact Hin.
    + exact Inodup.
    + intros t k o r Hin. cbn [call_of]. eapply Icall; eauto.
    + intros t k r Hr. cbn [ret_of] in Hr.
      destruct (Nat.eqb t0 t && Nat.eqb (nrets t h) k) eqn:E.
      * injection Hr as <-. apply andb_prop in E. destruct E as [E1 E2].
        apply Nat.eqb_eq in E1, E2. subst. exists o0. exact C0.
      * eapply Iret; eauto.
Qed.

Lemma phase_cons_wf e h : (forall t, phase t (e :: h) <> None) -> forall t, phase t h <> None.
Proof.
  intros H t Hn. apply (H t). cbn [phase]. rewrite Hn. reflexivity.
Qed.

Lemma hist_inv_of_wf h : (forall t, phase t h <> None) -> hist_inv h.
Proof.
  induction h as [|e h IH]; intros Hwf; [apply hist_inv_nil|].
  apply hist_inv_cons; [apply IH, (phase_cons_wf e h Hwf)|exact Hwf].
Qed.

(* ---------- real-time order ---------- *)
Lemma before_cons x S a b : before S a b -> before (x :: S) a b.
Proof.
  intros (S3 & S2 & S1 & xa & xb & E & Ea & Eb). exists (x :: S3), S2, S1, xa, xb.
  rewrite E. auto.
Qed.

Lemma in_split_sid (S : list seqop) a : In a (map sid S) -> exists S2 xa S1, S = S2 ++ xa :: S1 /\ sid xa = a.
Proof.
  intros Hin. apply in_map_iff in Hin. destruct Hin as (xa & Ea & Hin).
  apply in_split in Hin. destruct Hin as (S2 & S1 & E). eauto.
Qed.

Lemma prec_order h :
  (forall t, phase t h <> None) ->
  forall a b, prec h a b -> In b (map sid (lin_items h)) -> before (lin_items h) a b.
Proof.
  induction h as [|e h IH]; intros Hwf a b Hp Hb.
  - destruct Hp as (H3 & H2 & H1 & o & r & E & _). destruct H3; discriminate.
  - pose proof (phase_cons_wf e h Hwf) as Hwf'.
    pose proof (hist_inv_of_wf h Hwf') as Ih.
    destruct Hp as (H3 & H2 & H1 & o & r & E & Ea & Eb).
    destruct a as [ta ka], b as [tb kb]. cbn [fst snd] in *.
    destruct H3 as [|e' H3]; cbn [app] in E.
    + (* b is invoked by this very event: it cannot be in the witness yet *)
      exfalso. injection E as -> Eh.
      cbn [lin_items] in Hb. apply (hi_bound _ Ih tb kb) in Hb.
      rewrite Eh in Hb. lia.
    + injection E as <- Eh.
      assert (Hp' : prec h (ta, ka) (tb, kb)) by (exists H3, H2, H1, o, r; auto).
      assert (Ha : In (ta, ka) (map sid (lin_items h))).
      { destruct (hi_ret _ Ih ta ka r) as [oa Hoa].
        - rewrite Eh, <- Ea.
          replace (H3 ++ HCall tb o :: H2 ++ HRet ta r :: H1)
            with ((H3 ++ HCall tb o :: H2) ++ HRet ta r :: H1)
            by (rewrite <- app_assoc; reflexivity).
          apply ret_of_app.
        - apply in_map_iff. exists ((ta, ka), oa, r). split; [reflexivity|exact Hoa]. }
      destruct e as [t0 o0|t0 o0 r0|t0 r0]; cbn [lin_items] in *.
      * apply IH; auto.
      * destruct Hb as [Eb'|Hb].
        -- destruct (in_split_sid _ _ Ha) as (S2 & xa & S1 & ES & Exa).
           exists [], S2, S1, xa, ((t0, ncalls t0 h - 1), o0, r0). rewrite ES. auto.
        -- apply before_cons. apply IH; auto.
      * apply IH; auto.
Qed.

(* ---------- the theorem on histories with marked steps ---------- *)
Lemma linpoint_to_textbook h q :
  lin_run h = Some q -> (forall t, phase t h <> None) ->
  exists S : list seqop,
    NoDup (map sid S) /\
    (forall t k o r, In ((t, k), o, r) S -> call_of h t k = Some o) /\
    (forall t k r, ret_of h t k = Some r -> exists o, In ((t, k), o, r) S) /\
    seq_run S = Some q /\
    (forall a b, prec h a b -> In b (map sid S) -> before S a b).
Proof.
  intros Hlin Hwf. pose proof (hist_inv_of_wf h Hwf) as Ih.
  exists (lin_items h). split; [apply Ih|]. split; [apply Ih|]. split; [apply Ih|]. split.
  - rewrite seq_run_lin_items. exact Hlin.
  - apply prec_order, Hwf.
Qed.

(* ---------- erasing the marked steps: the visible history ---------- *)
Definition is_visible (e : clq_hev) : bool := match e with HLin _ _ _ => false | _ => true end.
Definition visible (h : list clq_hev) : list clq_hev := filter is_visible h.

Lemma ncalls_visible t h : ncalls t (visible h) = ncalls t h.
Proof. induction h as [|[t' o|t' o r|t' r] h IH]; cbn; auto. Qed.
Lemma nrets_visible t h : nrets t (visible h) = nrets t h.
Proof. induction h as [|[t' o|t' o r|t' r] h IH]; cbn; auto. Qed.
Lemma call_of_visible t k h : call_of (visible h) t k = call_of h t k.
Proof.
  induction h as [|[t' o|t' o r|t' r] h IH]; cbn; auto.
  fold (visible h). rewrite ncalls_visible, IH. reflexivity.
Qed.
Lemma ret_of_visible t k h : ret_of (visible h) t k = ret_of h t k.
Proof.
  induction h as [|[t' o|t' o r|t' r] h IH]; cbn; auto.
  fold (visible h). rewrite nrets_visible, IH. reflexivity.
Qed.

Lemma filter_split {A} (f : A -> bool) (l : list A) X x Y :
  filter f l = X ++ x :: Y -> exists X' Y', l = X' ++ x :: Y' /\ filter f X' = X /\ filter f Y' = Y.
Proof.
  revert X. induction l as [|y l IH]; intros X E; cbn in E.
  - destruct X; discriminate.
  - destruct (f y) eqn:Ef.
    + destruct X as [|x0 X]; cbn in E.
      * injection E as -> E. exists [], l. cbn. auto.
      * injection E as -> E. destruct (IH X E) as (X' & Y' & E1 & E2 & E3).
        exists (x0 :: X'), Y'. cbn. rewrite Ef, E1, E2. auto.
    + destruct (IH X E) as (X' & Y' & E1 & E2 & E3).
      exists (y :: X'), Y'. cbn. rewrite Ef, E1, E2. auto.
Qed.

Lemma prec_visible h a b : prec (visible h) a b -> prec h a b.
Proof.
  intros (H3 & H2 & H1 & o & r & E & Ea & Eb). unfold visible in E.
  destruct (filter_split _ _ _ _ _ E) as (H3' & Y & E1 & E2 & E3).
  destruct (filter_split _ _ _ _ _ E3) as (H2' & H1' & E4 & E5 & E6).
  exists H3', H2', H1', o, r. split; [rewrite E1, E4; reflexivity|]. split.
  - rewrite <- Ea, <- E6. symmetry. apply nrets_visible.
  - rewrite <- Eb, <- E5, <- E6.
    transitivity (ncalls (fst b) (visible (H2' ++ HRet (fst a) r :: H1'))); [symmetry; apply ncalls_visible|].
    unfold visible. rewrite filter_app. reflexivity.
Qed.

(* Theorem: a history whose marked steps form a linearisation in linearisation-point form has a
   textbook-linearizable visible part (the history of invocations and responses only) *)
Lemma linpoint_textbook h q :
  lin_run h = Some q -> (forall t, phase t h <> None) -> textbook_linearizable (visible h).
Proof.
  intros Hlin Hwf. destruct (linpoint_to_textbook h q Hlin Hwf) as (S & H1 & H2 & H3 & H4 & H5).
  exists S. split; [exact H1|]. split; [|split; [|split]].
  - intros t k o r Hin. rewrite call_of_visible. eapply H2; eauto.
  - intros t k r Hr. rewrite ret_of_visible in Hr. eapply H3; eauto.
  - rewrite H4. discriminate.
  - intros a b Hp Hb. apply H5; [apply prec_visible, Hp|exact Hb].
Qed.

(* sanity of the definition: a Dequeue that returns 5 from the never-filled queue is rejected *)
Lemma textbook_rejects_invented_value :
  ~ textbook_linearizable [HRet 1 (RDeq (Some 5%Z)); HCall 1 OpDeq].
Proof.
  intros (S & Hnd & Hcall & Hret & Hleg & _).
  destruct (Hret 1 0 (RDeq (Some 5%Z)) eq_refl) as [o Ho].
  pose proof (Hcall _ _ _ _ Ho) as Hc. cbn in Hc. injection Hc as <-.
  assert (Hall : forall x, In x S -> sid x = (1, 0)).
  { intros [[[t k] o] r] Hx. specialize (Hcall t k o r Hx). cbn in Hcall.
    destruct t as [|[|t]]; destruct k as [|k]; cbn in Hcall; try discriminate. reflexivity. }
  destruct S as [|x S]; [contradiction|].
  destruct S as [|y S].
  - destruct Ho as [->|[]]. cbn in Hleg. apply Hleg. reflexivity.
  - exfalso. cbn [map] in Hnd. inversion Hnd as [|? ? Hn _]; subst.
    apply Hn. left. rewrite (Hall x), (Hall y); cbn; auto.
Qed.

(* ---------- every reachable history of the queue ---------- *)
From Ekit Require Import CLQProof CLQProof2 CLQProof3.

Lemma visible_vis h : visible h = vis h.
Proof. reflexivity. Qed.

Lemma reach_textbook evs c : clq_reach evs c -> textbook_linearizable (vis (q_hist c)).
Proof.
  intros H. destruct (reach_lin_form evs c H) as (Hlin & Hwf & _).
  rewrite <- visible_vis. eapply linpoint_textbook; eauto.
Qed.
