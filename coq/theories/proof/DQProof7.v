(* Proofs about DQModel, part 7: the statements of props/C08_dq.v and props/C09_dq.v in their
   final form (corollaries of parts 1-6). *)
From Ekit Require Import Common Conc DQModel DQProof DQProof2 DQProof3 DQProof4 DQProof5 DQProof6.
From Coq Require Import Arith PeanoNat ZifyBool Permutation.

Definition dq_reach (cap : Z) (old : bool) (c : dq_cfg) : Prop :=
  exists evs, exec dq_step (dq_init cap old) evs = Some c.

(* the removal statements of Dequeue *)
Definition at_removal (th : dthr) : Prop := t_pc th = DDeq0 \/ t_pc th = DDeq1.

Lemma dq_dequeue_not_early_final cap old c t k th c' obs :
  dq_reach cap old c -> lookup t (q_thr c) = Some th -> at_removal th ->
  dq_exec1 c (DStep t k) = Some (c', obs) ->
  exists v th', In v (q_heap c) /\ q_heap c' = remove_first v (q_heap c) /\ e_dl v <= q_now c /\
                lookup t (q_thr c') = Some th' /\ t_el th' = v /\ t_eff th' = Removed v.
Proof.
  intros [evs Hex] Hl Hpc H. destruct (dq_removal_step_lemma _ _ _ _ _ _ _ _ _ Hex Hl Hpc H) as (v & th' & [Hin _] & Hnow & Hh & Hl' & He & _ & Hf).
  exists v, th'. repeat split; assumption.
Qed.

Lemma dq_dequeue_earliest_final cap old c t k th c' obs :
  dq_reach cap old c -> lookup t (q_thr c) = Some th -> at_removal th ->
  dq_exec1 c (DStep t k) = Some (c', obs) ->
  exists v, q_heap c' = remove_first v (q_heap c) /\ In v (q_heap c) /\
            forall y, In y (q_heap c) -> e_dl v <= e_dl y.
Proof.
  intros [evs Hex] Hl Hpc H. destruct (dq_removal_step_lemma _ _ _ _ _ _ _ _ _ Hex Hl Hpc H) as (v & th' & [Hin Hmin] & _ & Hh & _).
  exists v. repeat split; assumption.
Qed.

Lemma dq_heap_change_final c e c' obs :
  dq_exec1 c e = Some (c', obs) ->
  q_heap c' = q_heap c \/
  (exists t k th, e = DStep t k /\ lookup t (q_thr c) = Some th /\ t_pc th = EDo /\
                  heap_full (q_cap c) (q_heap c) = false /\ q_heap c' = q_heap c ++ [t_el th]) \/
  (exists t k th v, e = DStep t k /\ lookup t (q_thr c) = Some th /\ at_removal th /\
                    In v (mins (q_heap c)) /\ q_heap c' = remove_first v (q_heap c)).
Proof. exact (dq_heap_change_lemma c e c' obs). Qed.

Lemma dq_exactly_once_final cap old c :
  dq_reach cap old c ->
  Permutation (q_ins c) (q_heap c ++ inflight removed_of (q_thr c) ++ q_out c) /\
  Permutation (q_ins c) (q_okd c ++ inflight inserted_of (q_thr c)) /\
  (q_thr c = [] -> Permutation (q_ins c) (q_heap c ++ q_out c) /\ Permutation (q_ins c) (q_okd c)).
Proof.
  intros [evs Hex]. destruct (dq_exactly_once_lemma _ _ _ _ Hex) as [H1 H2]. split; [exact H1|]. split; [exact H2|].
  intros Hq. eapply dq_exactly_once_quiescent_lemma; eassumption.
Qed.

Lemma dq_return_final cap old c e c' obs t r :
  dq_reach cap old c -> dq_exec1 c e = Some (c', obs) -> In (t, ORet r) obs ->
  exists th, lookup t (q_thr c) = Some th /\ lookup t (q_thr c') = None /\
    match r with
    | RVal v => t_eff th = Removed v /\ q_out c' = v :: q_out c /\ q_okd c' = q_okd c
    | RNil => t_eff th = Inserted /\ q_okd c' = t_el th :: q_okd c /\ q_out c' = q_out c
    | RCtx => t_eff th = NoEff /\ q_out c' = q_out c /\ q_okd c' = q_okd c
    | _ => False
    end /\ q_heap c' = q_heap c /\ q_ins c' = q_ins c.
Proof. intros [evs Hex]. eapply dq_return_lemma; eassumption. Qed.

Lemma dq_ctx_error_final cap old c e c' obs t :
  dq_reach cap old c -> dq_exec1 c e = Some (c', obs) -> In (t, ORet RCtx) obs ->
  exists th, lookup t (q_thr c) = Some th /\ t_eff th = NoEff /\
             q_heap c' = q_heap c /\ q_ins c' = q_ins c /\ q_out c' = q_out c /\ q_okd c' = q_okd c.
Proof.
  intros Hr H Hin. destruct (dq_return_final _ _ _ _ _ _ _ _ Hr H Hin) as (th & Hl & _ & (He & Ho & Hk) & Hh & Hi).
  exists th. repeat split; assumption.
Qed.

Lemma dq_eff_meaning_final cap old c e c' obs t th th' :
  dq_reach cap old c ->
  dq_exec1 c e = Some (c', obs) -> lookup t (q_thr c) = Some th -> lookup t (q_thr c') = Some th' ->
  (t_eff th' = t_eff th /\ (forall k, e = DStep t k -> q_heap c' = q_heap c)) \/
  (exists k, e = DStep t k /\ t_eff th = NoEff /\
     ((t_pc th = EDo /\ t_eff th' = Inserted /\ q_heap c' = q_heap c ++ [t_el th]) \/
      (at_removal th /\ exists v, t_eff th' = Removed v /\ In v (mins (q_heap c)) /\ q_heap c' = remove_first v (q_heap c)))).
Proof.
  intros [evs Hex] H Hl Hl'. destruct (invAll_reachable _ _ _ _ Hex) as [HA _ _ [_ _ Heff]].
  destruct (dq_eff_step_lemma _ _ _ _ _ _ _ (a_nodup _ HA) H Hl Hl') as [Ha|[Hb|Hc]]; [left; exact Ha|right; exact Hb|exfalso].
  destruct Hc as (k & _ & Hne & Hpc). pose proof (Heff _ _ Hl) as He. unfold eff_ok in He.
  destruct Hpc as [Hpc|[Hpc|Hpc]]; rewrite Hpc in He; contradiction.
Qed.

Lemma dq_new_call_no_effect_final : forall x, t_eff (new_enq x) = NoEff /\ t_eff new_deq = NoEff.
Proof. intros x. split; reflexivity. Qed.

Lemma dq_len_le_capacity_final cap old c :
  dq_reach cap old c -> q_cap c = cap /\ (0 < cap -> Z.of_nat (length (q_heap c)) <= cap).
Proof.
  intros [evs Hex]. destruct (dq_cap_const _ _ _ _ Hex) as [Hc _]. split; [exact Hc|].
  intros Hpos. rewrite <- Hc. apply (dq_len_le_capacity_lemma _ _ _ _ Hex). lia.
Qed.

Lemma dq_mutual_exclusion_final cap old c t1 t2 th1 th2 :
  dq_reach cap old c -> lookup t1 (q_thr c) = Some th1 -> lookup t2 (q_thr c) = Some th2 ->
  holds_lock (t_pc th1) = true -> holds_lock (t_pc th2) = true -> t1 = t2.
Proof. intros [evs Hex]. eapply dq_mutual_exclusion_lemma; eassumption. Qed.

Lemma dq_never_fatal_final cap old c : dq_reach cap old c -> q_bad c = false.
Proof. intros [evs Hex]. eapply dq_never_fatal_lemma; eassumption. Qed.

(* ---------- C09 ---------- *)
Lemma dq_no_lost_wakeup_final cap old c t th :
  dq_reach cap old c -> lookup t (q_thr c) = Some th -> is_waiter (t_pc th) = true ->
  (t_sg th <= cur c (wcond (t_site th)))%nat /\
  (t_sg th = cur c (wcond (t_site th)) \/ closedb c (wcond (t_site th)) (t_sg th) = true \/
   exists t' th', lookup t' (q_thr c) = Some th' /\ (t_pc th' = Bc4 \/ t_pc th' = Bc5) /\
                  bcond (t_site th') = wcond (t_site th) /\ t_bold th' = t_sg th).
Proof. intros [evs Hex] Hl Hw. exact (dq_no_lost_wakeup_lemma _ _ _ _ _ _ Hex Hl Hw). Qed.

Lemma dq_stuck_final cap old c :
  dq_reach cap old c -> dq_stuck c ->
  q_mutex c = None /\
  forall t th, lookup t (q_thr c) = Some th ->
    is_park (t_pc th) = true /\ t_canc th = false /\
    t_sg th = cur c (wcond (t_site th)) /\ closedb c (wcond (t_site th)) (t_sg th) = false /\
    parked_state c th.
Proof. intros [evs Hex]. eapply dq_stuck_lemma; eassumption. Qed.

(* when the clock did not advance between `delay := val.Delay()` and the arming of the timer, the
   sleeping Dequeue of a stuck configuration sees an unexpired head *)
Lemma dq_stuck_head_unexpired_final cap old c t th :
  dq_reach cap old c -> dq_stuck c -> lookup t (q_thr c) = Some th -> t_pc th = DPark1 -> t_lag th = 0 ->
  forall y, In y (q_heap c) -> q_now c < e_dl y.
Proof.
  intros Hr Hs Hl Hpc Hlag y Hy. destruct (dq_stuck_final _ _ _ Hr Hs) as [_ H].
  destruct (H _ _ Hl) as (_ & _ & _ & _ & Hp). unfold parked_state in Hp. rewrite Hpc in Hp.
  destruct Hp as (f & _ & Hnow & Hf & _ & Hmin). specialize (Hmin y Hy). lia.
Qed.

Lemma dq_stuck_intro c :
  (forall t th, lookup t (q_thr c) = Some th ->
     is_park (t_pc th) = true /\
     match t_tm th with Some (Tm (Some f) _) => q_now c < f | _ => True end) -> dq_stuck c.
Proof.
  intros H. split.
  - intros t k. unfold dq_exec1. destruct (lookup t (q_thr c)) as [th|] eqn:Hl; [|reflexivity].
    destruct (H _ _ Hl) as [Hp _]. unfold dq_step_thr. destruct (t_pc th); try discriminate Hp; reflexivity.
  - intros t. unfold dq_exec1. destruct (lookup t (q_thr c)) as [th|] eqn:Hl; [|reflexivity].
    destruct (H _ _ Hl) as [_ Hf]. destruct (t_tm th) as [[[f|] b]|]; try reflexivity.
    destruct (f <=? q_now c) eqn:E; [lia|reflexivity].
Qed.

Lemma dq_broadcast_wakes_final cap old c t k th c' obs :
  dq_reach cap old c -> lookup t (q_thr c) = Some th -> t_pc th = Bc5 ->
  dq_exec1 c (DStep t k) = Some (c', obs) ->
  forall t2 th2, lookup t2 (q_thr c) = Some th2 ->
    is_park (t_pc th2) = true -> wcond (t_site th2) = bcond (t_site th) -> t_sg th2 = t_bold th ->
    exists th2', lookup t2 (q_thr c') = Some th2' /\ t_pc th2' = sig_case (t_pc th2) /\
                 In (t2, OAt (sig_case (t_pc th2))) obs.
Proof. intros [evs Hex]. eapply dq_broadcast_wakes_lemma; eassumption. Qed.

Lemma dq_broadcast_reads_current_final cap old c t th :
  dq_reach cap old c -> lookup t (q_thr c) = Some th -> t_pc th = Bc3 -> t_bold th = cur c (bcond (t_site th)).
Proof. intros [evs Hex]. eapply dq_broadcast_reads_current_lemma; eassumption. Qed.

Lemma dq_cancel_enables_final cap old c t th :
  dq_reach cap old c -> lookup t (q_thr c) = Some th -> is_park (t_pc th) = true ->
  exists n c' obs, (n <= 4)%nat /\
    dq_exec_obs c (DCancel t :: repeat (DStep t 0) n) = Some (c', obs) /\
    In (t, OAt (ctx_case (t_pc th))) obs /\ In (t, ORet RCtx) obs /\
    lookup t (q_thr c') = None /\
    (forall t2, t2 <> t -> lookup t2 (q_thr c') = lookup t2 (q_thr c)) /\
    q_heap c' = q_heap c /\ q_mutex c' = q_mutex c /\ q_now c' = q_now c /\
    q_ins c' = q_ins c /\ q_out c' = q_out c /\ q_okd c' = q_okd c /\ q_esig c' = q_esig c /\ q_dsig c' = q_dsig c.
Proof. intros [evs Hex]. eapply dq_cancel_enables_lemma; eassumption. Qed.
