(* Lemmas about ListModel (C04), part 2: LinkedList (the bidirectional walk),
   CopyOnWriteArrayList, the ConcurrentList wrapper, and histories. *)
From Coq Require Import ZifyBool.
From Ekit Require Import Common ListModel ListProof.

(* ====================================================================== *)
(* LinkedList: the walk                                                    *)
(* ====================================================================== *)
Lemma walk_next_spec : forall l steps p,
  (p + steps < ring_size l)%nat -> walk (ring_next l) steps p = (p + steps)%nat.
Proof.
  intros l. induction steps as [|k IH]; intros p H; cbn [walk].
  - lia.
  - unfold ring_next at 2.
    replace (S p <? ring_size l)%nat with true by lia.
    rewrite IH by lia. lia.
Qed.

Lemma walk_prev_spec : forall l steps p,
  (steps <= p)%nat -> walk (ring_prev l) steps p = (p - steps)%nat.
Proof.
  intros l. induction steps as [|k IH]; intros p H; cbn [walk].
  - lia.
  - destruct p as [|p']; [lia|]. cbn [ring_prev]. rewrite IH by lia. lia.
Qed.

Lemma node_val_spec : forall l k,
  (k < length (lnodes l))%nat -> node_val l (S k) = Ok (nth_d k (lnodes l) 0).
Proof.
  intros l k H. unfold node_val, node_index.
  replace ((1 <=? S k) && (S k <=? length (lnodes l)))%nat with true by lia.
  cbn [obind]. replace (S k - 1)%nat with k by lia.
  destruct (split_mid (lnodes l) k H) as [a [x [b [Hl Ha]]]].
  rewrite Hl, <- Ha, nth_opt_mid, nth_d_mid. reflexivity.
Qed.

Lemma node_index_spec : forall l k,
  (k < length (lnodes l))%nat -> node_index l (S k) = Ok k.
Proof.
  intros l k H. unfold node_index.
  replace ((1 <=? S k) && (S k <=? length (lnodes l)))%nat with true by lia.
  replace (S k - 1)%nat with k by lia. reflexivity.
Qed.

(* both directions of findNode end on the node with the requested index, for EVERY valid
   index (not only in the half of the list where the code uses that direction) *)
Lemma walk_forward_finds_nth_lemma : forall l index,
  0 <= index < zlen (lnodes l) ->
  walk (ring_next l) (Z.to_nat (index + 1)) O = S (Z.to_nat index) /\
  node_val l (walk (ring_next l) (Z.to_nat (index + 1)) O)
    = Ok (nth_d (Z.to_nat index) (lnodes l) 0).
Proof.
  intros l index H.
  assert (Hw : walk (ring_next l) (Z.to_nat (index + 1)) O = S (Z.to_nat index)).
  { rewrite walk_next_spec; unfold ring_size, zlen in *; lia. }
  split; [exact Hw|]. rewrite Hw. apply node_val_spec. unfold zlen in H. lia.
Qed.

Lemma walk_backward_finds_nth_lemma : forall l index,
  0 <= index < zlen (lnodes l) ->
  walk (ring_prev l) (Z.to_nat (zlen (lnodes l) - index)) (tail_pos l) = S (Z.to_nat index) /\
  node_val l (walk (ring_prev l) (Z.to_nat (zlen (lnodes l) - index)) (tail_pos l))
    = Ok (nth_d (Z.to_nat index) (lnodes l) 0).
Proof.
  intros l index H.
  assert (Hw : walk (ring_prev l) (Z.to_nat (zlen (lnodes l) - index)) (tail_pos l)
               = S (Z.to_nat index)).
  { rewrite walk_prev_spec; unfold tail_pos, zlen in *; lia. }
  split; [exact Hw|]. rewrite Hw. apply node_val_spec. unfold zlen in H. lia.
Qed.

Lemma find_node_spec : forall l index,
  llen l = zlen (lnodes l) -> 0 <= index < llen l -> find_node l index = S (Z.to_nat index).
Proof.
  intros l index Hwf H. unfold find_node.
  destruct (index <=? Z.quot (llen l) 2).
  - apply walk_forward_finds_nth_lemma. lia.
  - rewrite Hwf. apply walk_backward_finds_nth_lemma. lia.
Qed.

Lemma ll_append_spec : forall ts l,
  ll_append l ts = {| lnodes := lnodes l ++ ts; llen := llen l + zlen ts |}.
Proof.
  induction ts as [|t ts IH]; intros l; cbn [ll_append].
  - rewrite app_nil_r, zlen_nil, Z.add_0_r. destruct l; reflexivity.
  - rewrite IH. unfold ll_push. cbn [lnodes llen]. rewrite <- app_assoc, zlen_cons.
    f_equal. lia.
Qed.

Lemma ring_next_inner : forall l k,
  (k <= length (lnodes l))%nat -> ring_next l k = S k.
Proof.
  intros l k H. unfold ring_next, ring_size.
  replace (S k <? length (lnodes l) + 2)%nat with true by lia. reflexivity.
Qed.

Lemma ring_next_inner_head : forall l, ring_next l O = 1%nat.
Proof.
  intros l. unfold ring_next, ring_size.
  replace (1 <? length (lnodes l) + 2)%nat with true by lia. reflexivity.
Qed.

Lemma ll_range_loop_spec : forall l rest pre i stop,
  lnodes l = pre ++ rest ->
  ll_range_loop l (length rest) (S (length pre)) i stop = Ok (range_loop rest i stop).
Proof.
  intros l. induction rest as [|v t IH]; intros pre i stop Hl; cbn [length ll_range_loop range_loop].
  - reflexivity.
  - rewrite node_val_spec by (rewrite Hl, app_length; cbn [length]; lia).
    rewrite Hl, nth_d_mid. cbn [obind].
    destruct (i =? stop); [reflexivity|].
    rewrite ring_next_inner by (rewrite Hl, app_length; cbn [length]; lia).
    replace (S (S (length pre))) with (S (length (pre ++ [v])))
      by (rewrite app_length; cbn [length]; lia).
    rewrite IH by (rewrite Hl, <- app_assoc; reflexivity).
    cbn [obind]. reflexivity.
Qed.

Lemma ll_fill_loop_spec : forall l rest pre,
  lnodes l = pre ++ rest ->
  ll_fill_loop l (length rest) (S (length pre)) (zlen pre) (pre ++ zeros (length rest))
    = Ok (pre ++ rest).
Proof.
  intros l. induction rest as [|v t IH]; intros pre Hl; cbn [length ll_fill_loop zeros].
  - reflexivity.
  - rewrite node_val_spec by (rewrite Hl, app_length; cbn [length]; lia).
    rewrite Hl, nth_d_mid. cbn [obind].
    rewrite arr_set_mid by reflexivity. cbn [obind].
    rewrite ring_next_inner by (rewrite Hl, app_length; cbn [length]; lia).
    replace (S (S (length pre))) with (S (length (pre ++ [v])))
      by (rewrite app_length; cbn [length]; lia).
    replace (zlen pre + 1) with (zlen (pre ++ [v])) by zl.
    replace (pre ++ v :: zeros (length t)) with ((pre ++ [v]) ++ zeros (length t))
      by (rewrite <- app_assoc; reflexivity).
    rewrite IH by (rewrite Hl, <- app_assoc; reflexivity).
    rewrite <- app_assoc. reflexivity.
Qed.

Lemma ll_step_refines : forall l o,
  llen l = zlen (lnodes l) ->
  lnodes (fst (ll_step l o)) = fst (seq_step (lnodes l) o) /\
  canon (snd (ll_step l o)) = snd (seq_step (lnodes l) o) /\
  llen (fst (ll_step l o)) = zlen (lnodes (fst (ll_step l o))).
Proof.
  intros l o Hwf. destruct o as [i|xs|i x|i x|i| | |stop| ]; cbn [ll_step seq_step].
  - (* Get *)
    unfold ll_get, ll_check_index. rewrite Hwf.
    destruct (in_idx i (zlen (lnodes l))) eqn:E; unfold in_idx in E; rewrite E; cbn [negb fst snd].
    + split; [reflexivity|]. split; [|first [exact Hwf | reflexivity]].
      rewrite find_node_spec by lia.
      rewrite node_val_spec by (unfold zlen in *; lia). reflexivity.
    + repeat split; try reflexivity. first [exact Hwf | reflexivity].
  - (* Append *)
    rewrite ll_append_spec. cbn [fst snd lnodes llen canon].
    repeat split; try reflexivity. rewrite zlen_app. lia.
  - (* Add *)
    unfold ll_add. rewrite Hwf.
    destruct ((0 <=? i) && (i <=? zlen (lnodes l))) eqn:E.
    + replace ((i <? 0) || (i >? zlen (lnodes l))) with false by lia.
      destruct (split_at_z (lnodes l) i) as [p [r [Hs [Hp Hp']]]]; [lia|].
      destruct (Z.eqb_spec i (zlen (lnodes l))) as [He|Hne].
      * rewrite ll_append_spec. cbn [fst snd lnodes llen canon].
        assert (Hr : r = []).
        { destruct r as [|y r]; [reflexivity|]. rewrite Hs in He. exfalso. revert He. zl. }
        subst r. rewrite app_nil_r in Hs.
        rewrite <- Hp', <- Hs.
        replace (lnodes l) with (lnodes l ++ []) at 2 by apply app_nil_r.
        rewrite insert_at_mid.
        repeat split; try reflexivity. rewrite zlen_app, zlen_cons, zlen_nil. lia.
      * rewrite find_node_spec by lia.
        rewrite node_index_spec by (unfold zlen in *; lia).
        cbn [fst snd lnodes llen canon].
        repeat split; try reflexivity.
        rewrite Hs, <- Hp', insert_at_mid. zl.
    + replace ((i <? 0) || (i >? zlen (lnodes l))) with true by lia.
      cbn [fst snd canon]. repeat split; try reflexivity. first [exact Hwf | reflexivity].
  - (* Set *)
    unfold ll_set, ll_check_index. rewrite Hwf.
    destruct (in_idx i (zlen (lnodes l))) eqn:E; unfold in_idx in E; rewrite E; cbn [negb].
    + rewrite find_node_spec by lia.
      rewrite node_index_spec by (unfold zlen in *; lia).
      cbn [fst snd lnodes llen canon].
      repeat split; try reflexivity.
      unfold zlen in *. rewrite set_nth_length. first [exact Hwf | reflexivity].
    + cbn [fst snd canon]. repeat split; try reflexivity. first [exact Hwf | reflexivity].
  - (* Delete *)
    unfold ll_delete, ll_check_index. rewrite Hwf.
    destruct (in_idx i (zlen (lnodes l))) eqn:E; unfold in_idx in E; rewrite E; cbn [negb].
    + rewrite find_node_spec by lia.
      rewrite node_index_spec by (unfold zlen in *; lia).
      destruct (split_mid_z (lnodes l) i) as [p [y [q [Hs [Hp Hp']]]]]; [lia|].
      rewrite Hs, <- Hp', nth_opt_mid, nth_d_mid, remove_at_mid.
      cbn [fst snd lnodes llen canon].
      repeat split; try reflexivity.
      zl.
    + cbn [fst snd canon]. repeat split; try reflexivity. first [exact Hwf | reflexivity].
  - cbn [fst snd canon]. rewrite Hwf. repeat split; try reflexivity.
  - cbn [fst snd canon]. repeat split; try reflexivity. first [exact Hwf | reflexivity].
  - (* Range *)
    cbn [fst snd]. split; [reflexivity|]. split; [|first [exact Hwf | reflexivity]].
    rewrite ring_next_inner_head.
    rewrite Hwf, to_nat_zlen.
    pose proof (ll_range_loop_spec l (lnodes l) [] 0 stop eq_refl) as H.
    cbn [length] in H. rewrite H. cbn [obind canon].
    pose proof (range_loop_seq (lnodes l) stop) as H2. cbv zeta in H2. rewrite H2. reflexivity.
  - (* AsSlice *)
    cbn [fst snd]. split; [reflexivity|]. split; [|first [exact Hwf | reflexivity]].
    unfold ll_as_slice. rewrite Hwf. rewrite go_make_ok by zl. cbn [obind sv].
    rewrite ring_next_inner_head.
    rewrite to_nat_zlen.
    pose proof (ll_fill_loop_spec l (lnodes l) [] eq_refl) as H.
    cbn [length app] in H. rewrite zlen_nil in H. rewrite H. reflexivity.
Qed.

Lemma ll_step_err_id : forall l o e, snd (ll_step l o) = Err e -> fst (ll_step l o) = l.
Proof.
  intros l o e H. destruct o as [i|xs|i x|i x|i| | |stop| ]; cbn [ll_step fst snd] in *;
    try reflexivity; try discriminate.
  - unfold ll_add in *. destruct ((i <? 0) || (i >? llen l)); [reflexivity|].
    destruct (i =? llen l); [discriminate|].
    destruct (node_index l (find_node l i)); cbn [fst snd] in *; try reflexivity; discriminate.
  - unfold ll_set in *. destruct (negb (ll_check_index l i)); [reflexivity|].
    destruct (node_index l (find_node l i)); cbn [fst snd] in *; try reflexivity; discriminate.
  - unfold ll_delete in *. destruct (negb (ll_check_index l i)); [reflexivity|].
    destruct (node_index l (find_node l i)) as [k| |]; cbn [fst snd] in *; try reflexivity.
    destruct (nth_opt (lnodes l) k); cbn [fst snd] in *; try reflexivity; discriminate.
Qed.

(* ====================================================================== *)
(* CopyOnWriteArrayList                                                    *)
(* ====================================================================== *)
Lemma cow_del_after : forall vs acc i index ret,
  index < i ->
  cow_del_loop vs i index (zlen acc) ret (acc ++ zeros (length vs)) = Ok (ret, acc ++ vs).
Proof.
  induction vs as [|v t IH]; intros acc i index ret H; cbn [cow_del_loop length zeros].
  - reflexivity.
  - replace (i =? index) with false by lia.
    rewrite arr_set_mid by reflexivity. cbn [obind].
    replace (zlen acc + 1) with (zlen (acc ++ [v])) by zl.
    replace (acc ++ v :: zeros (length t)) with ((acc ++ [v]) ++ zeros (length t))
      by (rewrite <- app_assoc; reflexivity).
    rewrite IH by lia. rewrite <- app_assoc. reflexivity.
Qed.

Lemma cow_del_before : forall p acc i index ret x q,
  i + zlen p = index ->
  cow_del_loop (p ++ x :: q) i index (zlen acc) ret (acc ++ zeros (length p + length q))
    = Ok (x, acc ++ p ++ q).
Proof.
  induction p as [|v p IH]; intros acc i index ret x q H;
    cbn [app cow_del_loop length Nat.add zeros].
  - replace (i =? index) with true by (rewrite zlen_nil in H; lia).
    apply cow_del_after. rewrite zlen_nil in H. lia.
  - replace (i =? index) with false by (rewrite zlen_cons in H; pose proof (zlen_nonneg _ p); lia).
    rewrite arr_set_mid by reflexivity. cbn [obind].
    replace (zlen acc + 1) with (zlen (acc ++ [v])) by zl.
    replace (acc ++ v :: zeros (length p + length q))
      with ((acc ++ [v]) ++ zeros (length p + length q))
      by (rewrite <- app_assoc; reflexivity).
    rewrite IH by (rewrite zlen_cons in H; lia).
    rewrite <- app_assoc. reflexivity.
Qed.

Lemma cow_step_refines : forall a o c,
  sv (fst (cow_step a o c)) = fst (seq_step (sv a) o) /\
  canon (snd (cow_step a o c)) = snd (seq_step (sv a) o).
Proof.
  intros a o c. destruct o as [i|xs|i x|i x|i| | |stop| ]; cbn [cow_step seq_step].
  - (* Get *)
    unfold cow_get. cbv zeta. destruct (in_idx i (zlen (sv a))) eqn:E; cbn [fst snd].
    + split; [reflexivity|].
      replace ((i <? 0) || (i >=? zlen (sv a))) with false by (unfold in_idx in E; lia).
      destruct (split_mid_z (sv a) i) as [p [y [q [Hs [Hp Hp']]]]]; [unfold in_idx in E; lia|].
      rewrite Hs, <- Hp', <- Hp. rewrite arr_get_mid by reflexivity.
      rewrite nth_d_mid. reflexivity.
    + split; [reflexivity|].
      replace ((i <? 0) || (i >=? zlen (sv a))) with true by (unfold in_idx in E; lia).
      reflexivity.
  - (* Append *)
    unfold cow_append. cbv zeta.
    rewrite go_make_ok by (pose proof (zlen_nonneg _ (sv a)); pose proof (zlen_nonneg _ xs); lia).
    cbn [sv sc]. rewrite to_nat_zlen, go_copy_fresh. split; reflexivity.
  - (* Add *)
    unfold cow_add. cbv zeta.
    rewrite go_make_ok by (pose proof (zlen_nonneg _ (sv a)); lia).
    cbn [sv sc]. rewrite to_nat_zlen, go_copy_fresh.
    destruct ((0 <=? i) && (i <=? zlen (sv a))) eqn:E.
    + rewrite slice_add_ok by (cbn [sv]; lia). split; reflexivity.
    + rewrite slice_add_err by (cbn [sv]; lia). split; reflexivity.
  - (* Set *)
    unfold cow_set. cbv zeta. destruct (in_idx i (zlen (sv a))) eqn:E.
    + replace ((i >=? zlen (sv a)) || (i <? 0)) with false by (unfold in_idx in E; lia).
      rewrite go_make_ok by (pose proof (zlen_nonneg _ (sv a)); lia).
      cbn [sv sc]. rewrite to_nat_zlen, go_copy_fresh.
      destruct (split_mid_z (sv a) i) as [p [y [q [Hs [Hp Hp']]]]]; [unfold in_idx in E; lia|].
      rewrite Hs, <- Hp', <- Hp. rewrite arr_set_mid by reflexivity.
      rewrite set_nth_mid. cbn [fst snd sv canon]. split; reflexivity.
    + replace ((i >=? zlen (sv a)) || (i <? 0)) with true by (unfold in_idx in E; lia).
      split; reflexivity.
  - (* Delete *)
    unfold cow_delete. cbv zeta. destruct (in_idx i (zlen (sv a))) eqn:E.
    + replace ((i >=? zlen (sv a)) || (i <? 0)) with false by (unfold in_idx in E; lia).
      rewrite go_make_ok by (unfold in_idx in E; lia).
      cbn [sv sc].
      destruct (split_mid_z (sv a) i) as [p [y [q [Hs [Hp Hp']]]]]; [unfold in_idx in E; lia|].
      rewrite Hs, <- Hp'.
      replace (Z.to_nat (zlen (p ++ y :: q) - 1)) with (length p + length q)%nat
        by (unfold zlen; rewrite app_length; cbn [length]; lia).
      pose proof (cow_del_before p [] 0 i 0 y q) as H.
      rewrite zlen_nil in H. cbn [app] in H. rewrite H by lia.
      rewrite nth_d_mid, remove_at_mid. cbn [fst snd sv canon]. split; reflexivity.
    + replace ((i >=? zlen (sv a)) || (i <? 0)) with true by (unfold in_idx in E; lia).
      split; reflexivity.
  - split; reflexivity.
  - split; reflexivity.
  - cbn [fst snd canon]. split; [reflexivity|].
    pose proof (range_loop_seq (sv a) stop) as H. cbv zeta in H. rewrite H. reflexivity.
  - cbn [fst snd]. rewrite as_slice_of_spec. split; reflexivity.
Qed.

Lemma cow_step_err_id : forall a o c e, snd (cow_step a o c) = Err e -> fst (cow_step a o c) = a.
Proof.
  intros a o c e H. destruct o as [i|xs|i x|i x|i| | |stop| ]; cbn [cow_step fst snd] in *;
    try reflexivity; try discriminate.
  - unfold cow_append in *. cbv zeta in *.
    destruct (go_make (zlen (sv a)) (zlen (sv a) + zlen xs)); cbn [fst snd] in *;
      try reflexivity; discriminate.
  - unfold cow_add in *. cbv zeta in *.
    destruct (go_make (zlen (sv a)) (zlen (sv a) + 1)) as [m| |]; cbn [fst snd] in *;
      try reflexivity.
    destruct (slice_add _ x i c); cbn [fst snd] in *; try reflexivity; discriminate.
  - unfold cow_set in *. cbv zeta in *.
    destruct ((i >=? zlen (sv a)) || (i <? 0)); [reflexivity|].
    destruct (go_make (zlen (sv a)) (zlen (sv a))) as [m| |]; cbn [fst snd] in *;
      try reflexivity.
    destruct (arr_set _ i x); cbn [fst snd] in *; try reflexivity; discriminate.
  - unfold cow_delete in *. cbv zeta in *.
    destruct ((i >=? zlen (sv a)) || (i <? 0)); [reflexivity|].
    destruct (go_make (zlen (sv a) - 1) (zlen (sv a) - 1)) as [m| |]; cbn [fst snd] in *;
      try reflexivity.
    destruct (cow_del_loop (sv a) 0 i 0 0 (sv m)) as [[ret ni]| |]; cbn [fst snd] in *;
      try reflexivity; discriminate.
Qed.

(* ====================================================================== *)
(* All four implementations (ConcurrentList delegates)                     *)
(* ====================================================================== *)
Lemma lstep_refines : forall s o c, wf s ->
  contents (fst (lstep s o c)) = fst (seq_step (contents s) o) /\
  canon (snd (lstep s o c)) = snd (seq_step (contents s) o) /\
  wf (fst (lstep s o c)).
Proof.
  induction s as [a|l|a|s IH]; intros o c Hwf; cbn [lstep contents wf] in *.
  - pose proof (al_step_refines a o c) as [H1 H2].
    destruct (al_step a o c) as [a' r]. cbn [fst snd contents wf] in *. tauto.
  - pose proof (ll_step_refines l o Hwf) as [H1 [H2 H3]].
    destruct (ll_step l o) as [l' r]. cbn [fst snd contents wf] in *. tauto.
  - pose proof (cow_step_refines a o c) as [H1 H2].
    destruct (cow_step a o c) as [a' r]. cbn [fst snd contents wf] in *. tauto.
  - pose proof (IH o c Hwf) as [H1 [H2 H3]].
    destruct (lstep s o c) as [s' r]. cbn [fst snd contents wf] in *. tauto.
Qed.

Lemma lstep_err_id : forall s o c e, snd (lstep s o c) = Err e -> fst (lstep s o c) = s.
Proof.
  induction s as [a|l|a|s IH]; intros o c e H; cbn [lstep] in *.
  - pose proof (al_step_err_id a o c e) as Hid.
    destruct (al_step a o c) as [a' r]. cbn [fst snd] in *. now rewrite Hid.
  - pose proof (ll_step_err_id l o e) as Hid.
    destruct (ll_step l o) as [l' r]. cbn [fst snd] in *. now rewrite Hid.
  - pose proof (cow_step_err_id a o c e) as Hid.
    destruct (cow_step a o c) as [a' r]. cbn [fst snd] in *. now rewrite Hid.
  - pose proof (IH o c e) as Hid.
    destruct (lstep s o c) as [s' r]. cbn [fst snd] in *. now rewrite Hid.
Qed.

Lemma wf_linit : forall im c0, wf (linit im c0).
Proof. induction im as [| | |im IH]; intros c0; cbn [linit wf]; try exact I; [reflexivity | apply IH]. Qed.

Lemma contents_linit : forall im c0, contents (linit im c0) = [].
Proof. induction im as [| | |im IH]; intros c0; cbn [linit contents]; try reflexivity; apply IH. Qed.

(* ---------- histories ---------- *)
Lemma lrun_refines : forall h s, wf s -> map canon (lrun s h) = seq_run (contents s) h.
Proof.
  induction h as [|[o c] t IH]; intros s Hwf; cbn [lrun seq_run map].
  - reflexivity.
  - pose proof (lstep_refines s o c Hwf) as [H1 [H2 H3]].
    destruct (lstep s o c) as [s' r]. destruct (seq_step (contents s) o) as [l' r'].
    cbn [fst snd] in *. cbn [map]. rewrite H2, IH by exact H3. rewrite H1. reflexivity.
Qed.

Lemma lfinal_refines : forall h s, wf s ->
  wf (lfinal s h) /\ contents (lfinal s h) = seq_final (contents s) h.
Proof.
  induction h as [|[o c] t IH]; intros s Hwf; cbn [lfinal seq_final].
  - split; [exact Hwf | reflexivity].
  - pose proof (lstep_refines s o c Hwf) as [H1 [H2 H3]].
    destruct (IH (fst (lstep s o c)) H3) as [H4 H5].
    split; [exact H4|]. rewrite H5, H1. reflexivity.
Qed.

Lemma seq_step_no_panic : forall l o, snd (seq_step l o) <> Panic.
Proof.
  intros l o. destruct o as [i|xs|i x|i x|i| | |stop| ]; cbn [seq_step];
    repeat match goal with |- context [if ?b then _ else _] => destruct b end;
    cbn [snd]; discriminate.
Qed.

Lemma canon_panic : forall r, canon r = Panic -> r = Panic.
Proof. intros [[]| |]; cbn [canon]; intros H; try discriminate; reflexivity. Qed.

Lemma lstep_no_panic : forall s o c, wf s -> snd (lstep s o c) <> Panic.
Proof.
  intros s o c Hwf Hp. pose proof (lstep_refines s o c Hwf) as [_ [H2 _]].
  rewrite Hp in H2. cbn [canon] in H2. symmetry in H2. exact (seq_step_no_panic _ _ H2).
Qed.

Lemma lrun_no_panic : forall h s, wf s -> Forall (fun r => r <> Panic) (lrun s h).
Proof.
  induction h as [|[o c] t IH]; intros s Hwf; cbn [lrun].
  - constructor.
  - pose proof (lstep_refines s o c Hwf) as [_ [_ H3]].
    pose proof (lstep_no_panic s o c Hwf) as Hn.
    destruct (lstep s o c) as [s' r]. cbn [fst snd] in *.
    constructor; [exact Hn | apply IH; exact H3].
Qed.

(* errors are index errors, and occur exactly when the index is outside the permitted range *)
Lemma lstep_error_iff : forall s o c, wf s ->
  (index_ok (zlen (contents s)) o = false -> snd (lstep s o c) = Err EIndex) /\
  (index_ok (zlen (contents s)) o = true -> exists v, snd (lstep s o c) = Ok v).
Proof.
  intros s o c Hwf. pose proof (lstep_refines s o c Hwf) as [_ [H2 _]].
  assert (Hc : forall r r', canon r = r' -> (r' = Err EIndex -> r = Err EIndex) /\
                            ((exists v, r' = Ok v) -> exists v, r = Ok v)).
  { intros r r' H. subst r'. split.
    - destruct r as [[]| |]; cbn [canon]; intros H; try discriminate; exact H.
    - intros [v Hv]. destruct r as [w| |]; [exists w; reflexivity | |];
        cbn [canon] in Hv; discriminate. }
  destruct (Hc _ _ H2) as [Hc1 Hc2]. clear Hc.
  split; intros Hi.
  - apply Hc1. destruct o as [i|xs|i x|i x|i| | |stop| ]; cbn [index_ok seq_step] in *;
      try discriminate; rewrite Hi; reflexivity.
  - apply Hc2. destruct o as [i|xs|i x|i x|i| | |stop| ]; cbn [index_ok seq_step] in *;
      try rewrite Hi; cbn [snd]; eexists; reflexivity.
Qed.

(* AsSlice: non-nil, equal to the contents, and the list itself is untouched *)
Lemma canon_slice : forall r b l, canon r = Ok (OSlice b l) -> r = Ok (OSlice b l).
Proof.
  intros r b0 l0 H. destruct r as [w|e|]; [destruct w| |]; cbn [canon] in H;
    try discriminate; exact H.
Qed.

Lemma as_slice_fresh_lemma : forall s c, wf s ->
  lstep s OpAsSlice c = (s, Ok (OSlice false (contents s))).
Proof.
  induction s as [a|l|a|s IH]; intros c Hwf; cbn [lstep contents wf] in *.
  - cbn [al_step]. rewrite as_slice_of_spec. reflexivity.
  - pose proof (ll_step_refines l OpAsSlice Hwf) as [_ [H2 _]].
    cbn [ll_step seq_step snd] in *. apply canon_slice in H2. rewrite H2. reflexivity.
  - cbn [cow_step]. rewrite as_slice_of_spec. reflexivity.
  - rewrite IH by exact Hwf. reflexivity.
Qed.

(* ArrayList: len <= cap along every history, for every capacity oracle *)
Lemma len_le_cap_lemma : forall h a,
  zlen (sv a) <= sc a ->
  exists a', lfinal (SArr a) h = SArr a' /\ zlen (sv a') <= sc a'.
Proof.
  induction h as [|[o c] t IH]; intros a Hinv; cbn [lfinal lstep].
  - exists a. split; [reflexivity | exact Hinv].
  - pose proof (al_step_inv a o c Hinv) as H.
    destruct (al_step a o c) as [a' r]. cbn [fst] in *. apply IH. exact H.
Qed.

Lemma shrink_preserves_contents_lemma : forall s o,
  exists s', shrink s o = Ok s' /\ sv s' = sv s.
Proof.
  intros s o. destruct (shrink_ok s o) as [s' [H1 [H2 _]]]. exists s'. split; assumption.
Qed.
