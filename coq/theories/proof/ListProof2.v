(* Lemmas about ListModel (C04), part 2: LinkedList (the bidirectional walk),
   CopyOnWriteArrayList, the ConcurrentList wrapper, and histories. *)
From Coq Require Import ZifyBool.
From Ekit Require Import Common ListModel ListProof.

(* ====================================================================== *)
(* LinkedList: the walk                                                    *)
(* ====================================================================== *)
Lemma walk_next_spec : forall l steps p,
  (p + steps < ring_size l)%nat -> walk (ring_next l) steps p = (p + steps)%nat.
Proof.
  intros l. induction steps as [|k IH]; intros p H; cbn [walk].
  - lia.
  - unfold ring_next at 2.
    replace (S p <? ring_size l)%nat with true by lia.
    rewrite IH by lia. lia.
Qed.

Lemma walk_prev_spec : forall l steps p,
  (steps <= p)%nat -> walk (ring_prev l) steps p = (p - steps)%nat.
Proof.
  intros l. induction steps as [|k IH]; intros p H; cbn [walk].
  - lia.
  - destruct p as [|p']; [lia|]. cbn [ring_prev]. rewrite IH by lia. lia.
Qed.

Lemma node_val_spec : forall l k,
  (k < length (lnodes l))%nat -> node_val l (S k) = Ok (nth_d k (lnodes l) 0).
Proof.
  intros l k H. unfold node_val, node_index.
  replace ((1 <=? S k) && (S k <=? length (lnodes l)))%nat with true by lia.
  cbn [obind]. replace (S k - 1)%nat with k by lia.
  destruct (split_mid (lnodes l) k H) as [a [x [b [Hl Ha]]]].
  rewrite Hl, <- Ha, nth_opt_mid, nth_d_mid. reflexivity.
Qed.

Lemma node_index_spec : forall l k,
  (k < length (lnodes l))%nat -> node_index l (S k) = Ok k.
Proof.
  intros l k H. unfold node_index.
  replace ((1 <=? S k) && (S k <=? length (lnodes l)))%nat with true by lia.
  replace (S k - 1)%nat with k by lia. reflexivity.
Qed.

(* both directions of findNode end on the node with the requested index, for EVERY valid
   index (not only in the half of the list where the code uses that direction) *)
Lemma walk_forward_finds_nth_lemma : forall l index,
  0 <= index < zlen (lnodes l) ->
  walk (ring_next l) (Z.to_nat (index + 1)) O = S (Z.to_nat index) /\
  node_val l (walk (ring_next l) (Z.to_nat (index + 1)) O)
    = Ok (nth_d (Z.to_nat index) (lnodes l) 0).
Proof.
  intros l index H.
  assert (Hw : walk (ring_next l) (Z.to_nat (index + 1)) O = S (Z.to_nat index)).
  { rewrite walk_next_spec; unfold ring_size, zlen in *; lia. }
  split; [exact Hw|]. rewrite Hw. apply node_val_spec. unfold zlen in H. lia.
Qed.

Lemma walk_backward_finds_nth_lemma : forall l index,
  0 <= index < zlen (lnodes l) ->
  walk (ring_prev l) (Z.to_nat (zlen (lnodes l) - index)) (tail_pos l) = S (Z.to_nat index) /\
  node_val l (walk (ring_prev l) (Z.to_nat (zlen (lnodes l) - index)) (tail_pos l))
    = Ok (nth_d (Z.to_nat index) (lnodes l) 0).
Proof.
  intros l index H.
  assert (Hw : walk (ring_prev l) (Z.to_nat (zlen (lnodes l) - index)) (tail_pos l)
               = S (Z.to_nat index)).
  { rewrite walk_prev_spec; unfold tail_pos, zlen in *; lia. }
  split; [exact Hw|]. rewrite Hw. apply node_val_spec. unfold zlen in H. lia.
Qed.

Lemma find_node_spec : forall l index,
  llen l = zlen (lnodes l) -> 0 <= index < llen l -> find_node l index = S (Z.to_nat index).
Proof.
  intros l index Hwf H. unfold find_node.
  destruct (index <=? Z.quot (llen l) 2).
  - apply walk_forward_finds_nth_lemma. lia.
  - rewrite Hwf. apply walk_backward_finds_nth_lemma. lia.
Qed.

Lemma ll_append_spec : forall ts l,
  ll_append l ts = {| lnodes := lnodes l ++ ts; llen := llen l + zlen ts |}.
Proof.
  induction ts as [|t ts IH]; intros l; cbn [ll_append].
  - rewrite app_nil_r, zlen_nil, Z.add_0_r. destruct l; reflexivity.
  - rewrite IH. unfold ll_push. cbn [lnodes llen]. rewrite <- app_assoc, zlen_cons.
    f_equal. lia.
Qed.

Lemma ring_next_inner : forall l k,
  (k <= length (lnodes l))%nat -> ring_next l k = S k.
Proof.
  intros l k H. unfold ring_next, ring_size.
  replace (S k <? length (lnodes l) + 2)%nat with true by lia. reflexivity.
Qed.

Lemma ring_next_inner_head : forall l, ring_next l O = 1%nat.
Proof.
  intros l. unfold ring_next, ring_size.
  replace (1 <? length (lnodes l) + 2)%nat with true by lia. reflexivity.
Qed.

Lemma ll_range_loop_spec : forall l rest pre i stop,
  lnodes l = pre ++ rest ->
  ll_range_loop l (length rest) (S (length pre)) i stop = Ok (range_loop rest i stop).
Proof.
  intros l. induction rest as [|v t IH]; intros pre i stop Hl; cbn [length ll_range_loop range_loop].
  - reflexivity.
  - rewrite node_val_spec by (rewrite Hl, app_length; cbn [length]; lia).
    rewrite Hl, nth_d_mid. cbn [obind].
    destruct (i =? stop); [reflexivity|].
    rewrite ring_next_inner by (rewrite Hl, app_length; cbn [length]; lia).
    replace (S (S (length pre))) with (S (length (pre ++ [v])))
      by (rewrite app_length; cbn [length]; lia).
    rewrite IH by (rewrite Hl, <- app_assoc; reflexivity).
    cbn [obind]. reflexivity.
Qed.

Lemma ll_fill_loop_spec : forall l rest pre,
  lnodes l = pre ++ rest ->
  ll_fill_loop l (length rest) (S (length pre)) (zlen pre) (pre ++ zeros (length rest))
    = Ok (pre ++ rest).
Proof.
  intros l. induction rest as [|v t IH]; intros pre Hl; cbn [length ll_fill_loop zeros].
  - reflexivity.
  - rewrite node_val_spec by (rewrite Hl, app_length; cbn [length]; lia).
    rewrite Hl, nth_d_mid. cbn [obind].
    rewrite arr_set_mid by reflexivity. cbn [obind].
    rewrite ring_next_inner by (rewrite Hl, app_length; cbn [length]; lia).
    replace (S (S (length pre))) with (S (length (pre ++ [v])))
      by (rewrite app_length; cbn [length]; lia).
    replace (zlen pre + 1) with (zlen (pre ++ [v])) by zl.
    replace (pre ++ v :: zeros (length t)) with ((pre ++ [v]) ++ zeros (length t))
      by (rewrite <- app_assoc; reflexivity).
    rewrite IH by (rewrite Hl, <- app_assoc; reflexivity).
    rewrite <- app_assoc. reflexivity.
Qed.

Lemma ll_step_refines : forall l o,
  llen l = zlen (lnodes l) ->
  lnodes (fst (ll_step l o)) = fst (seq_step (lnodes l) o) /\
  canon (snd (ll_step l o)) = snd (seq_step (lnodes l) o) /\
  llen (fst (ll_step l o)) = zlen (lnodes (fst (ll_step l o))).
Proof.
  intros l o Hwf. destruct o as [i|xs|i x|i x|i| | |stop| ]; cbn [ll_step seq_step].
  - (* Get *)
    unfold ll_get, ll_check_index. rewrite Hwf.
    destruct (in_idx i (zlen (lnodes l))) eqn:E; unfold in_idx in E; rewrite E; cbn [negb fst snd].
    + split; [reflexivity|]. split; [|first [exact Hwf | reflexivity]].
      rewrite find_node_spec by lia.
      rewrite node_val_spec by (unfold zlen in *; lia). reflexivity.
    + repeat split; try reflexivity. first [exact Hwf | reflexivity].
  - (* Append *)
    rewrite ll_append_spec. cbn [fst snd lnodes llen canon].
    repeat split; try reflexivity. rewrite zlen_app. lia.
  - (* Add *)
    unfold ll_add. rewrite Hwf.
    destruct ((0 <=? i) && (i <=? zlen (lnodes l))) eqn:E.
    + replace ((i <? 0) || (i >? zlen (lnodes l))) with false by lia.
      destruct (split_at_z (lnodes l) i) as [p [r [Hs [Hp Hp']]]]; [lia|].
      destruct (Z.eqb_spec i (zlen (lnodes l))) as [He|Hne].
      * rewrite ll_append_spec. cbn [fst snd lnodes llen canon].
        assert (Hr : r = []).
        { destruct r as [|y r]; [reflexivity|]. rewrite Hs in He. exfalso. revert He. zl. }
        subst r. rewrite app_nil_r in Hs.
        rewrite <- Hp', <- Hs.
        replace (lnodes l) with (lnodes l ++ []) at 2 by apply app_nil_r.
        rewrite insert_at_mid.
        repeat split; try reflexivity. rewrite zlen_app, zlen_cons, zlen_nil. lia.
      * rewrite find_node_spec by lia.
        rewrite node_index_spec by (unfold zlen in *; lia).
        cbn [fst snd lnodes llen canon].
        repeat split; try reflexivity.
        rewrite Hs, <- Hp', insert_at_mid. zl.
    + replace ((i <? 0) || (i >? zlen (lnodes l))) with true by lia.
      cbn [fst snd canon]. repeat split; try reflexivity. first [exact Hwf | reflexivity].
  - (* Set *)
    unfold ll_set, ll_check_index. rewrite Hwf.
    destruct (in_idx i (zlen (lnodes l))) eqn:E; unfold in_idx in E; rewrite E; cbn [negb].
    + rewrite find_node_spec by lia.
      rewrite node_index_spec by (unfold zlen in *; lia).
      cbn [fst snd lnodes llen canon].
      repeat split; try reflexivity.
      unfold zlen in *. rewrite set_nth_length. first [exact Hwf | reflexivity].
    + cbn [fst snd canon]. repeat split; try reflexivity. first [exact Hwf | reflexivity].
  - (* Delete *)
    unfold ll_delete, ll_check_index. rewrite Hwf.
    destruct (in_idx i (zlen (lnodes l))) eqn:E; unfold in_idx in E; rewrite E; cbn [negb].
    + rewrite find_node_spec by lia.
      rewrite node_index_spec by (unfold zlen in *; lia).
      destruct (split_mid_z (lnodes l) i) as [p [y [q [Hs [Hp Hp']]]]]; [lia|].
      rewrite Hs, <- Hp', nth_opt_mid, nth_d_mid, remove_at_mid.
      cbn [fst snd lnodes llen canon].
      repeat split; try reflexivity.
      zl.
    + cbn [fst snd canon]. repeat split; try reflexivity. first [exact Hwf | reflexivity].
  - cbn [fst snd canon]. rewrite Hwf. repeat split; try reflexivity.
  - cbn [fst snd canon]. repeat split; try reflexivity. first [exact Hwf | reflexivity].
  - (* Range *)
    cbn [fst snd]. split; [reflexivity|]. split; [|first [exact Hwf | reflexivity]].
    rewrite ring_next_inner_head.
    rewrite Hwf, to_nat_zlen.
    pose proof (ll_range_loop_spec l (lnodes l) [] 0 stop eq_refl) as H.
    cbn [length] in H. rewrite H. cbn [obind canon].
    pose proof (range_loop_seq (lnodes l) stop) as H2. cbv zeta in H2. rewrite H2. reflexivity.
  - (* AsSlice *)
    cbn [fst snd]. split; [reflexivity|]. split; [|first [exact Hwf | reflexivity]].
    unfold ll_as_slice. rewrite Hwf. rewrite go_make_ok by zl. cbn [obind sv].
    rewrite ring_next_inner_head.
    rewrite to_nat_zlen.
    pose proof (ll_fill_loop_spec l (lnodes l) [] eq_refl) as H.
    cbn [length app] in H. rewrite zlen_nil in H. rewrite H. reflexivity.
Qed.
