(* Proofs about PoolModel, part 7: the taskWrapper depth.  Since commit 4ac6152 (Submit wraps the task once,
   in front of its spin loop; model flag i_fixc = true) every queued / held task has exactly one wrapper layer,
   so the unwinding after a user function is bounded by a constant.  Before (i_fixc = false) every retry of
   the loop added a layer: for every n a spinning Submit reaches depth n (why the old code overflowed the stack). *)
From Ekit Require Import Common Conc PoolModel PoolProof PoolProof2 PoolProof3 PoolProof4 PoolProof5 PoolProof6
  PoolExamples.
From Coq Require Import ZifyBool Arith PeanoNat.

(* ---------------------------------------------------------------- per-thread predicates and hand-offs *)
Definition wake_ok2 (Q : thr -> Prop) (R : task -> Prop) : Prop :=
  forall th, is_parked th = true -> Q th ->
    (forall k, R k -> Q (recv_ok k th)) /\ Q (recv_closed th) /\ Q (recv_int th).

Definition wake_task_ok (R : task -> Prop) (w : wake) : Prop :=
  match w with WkRecv _ k => R k | _ => True end.

Lemma tall_apply_wake2 (Q : thr -> Prop) R w l l' wk :
  wake_ok2 Q R -> wake_task_ok R w -> apply_wake w l = Some (l', wk) -> tall Q l -> tall Q l'.
Proof.
  intros Hp Hw. destruct w as [|r k| |]; cbn.
  - intros H; injection H as <- _; auto.
  - destruct (lookup r l) as [th|] eqn:El; [|discriminate].
    destruct (is_parked th) eqn:Ep; [|discriminate].
    intros H Ha; injection H as <- _. apply tall_update; [exact Ha|].
    apply (Hp th Ep); [eapply tall_lookup; eassumption|exact Hw].
  - intros H Ha. pose proof (tall_wake_all Q recv_closed l) as Hx.
    destruct (wake_all recv_closed l) as [a b]. injection H as <- _. apply Hx; [|exact Ha].
    intros th Ep Hth. apply (Hp th Ep Hth).
  - intros H Ha. pose proof (tall_wake_all Q recv_int l) as Hx.
    destruct (wake_all recv_int l) as [a b]. injection H as <- _. apply Hx; [|exact Ha].
    intros th Ep Hth. apply (Hp th Ep Hth).
Qed.

Lemma apply_out_tall2 (Q : thr -> Prop) R c t o c' obs :
  wake_ok2 Q R -> tall Q (c_thr c) -> apply_out c t o = Some (c', obs) ->
  wake_task_ok R (o_wake o) ->
  (forall th', o_th o = Some th' -> Q th') ->
  (forall w, o_spawn o = Some w -> Q w) ->
  tall Q (c_thr c').
Proof.
  intros Hp Ha. unfold apply_out.
  set (l1 := match o_th o with Some th' => update t th' (c_thr c) | None => remove t (c_thr c) end).
  destruct (apply_wake (o_wake o) l1) as [[l2 wk]|] eqn:Ew; [|discriminate].
  intros H Hw Hth Hsp; injection H as <- _. cbn [c_thr].
  assert (H1 : tall Q l1).
  { unfold l1. destruct (o_th o) as [th'|]; [apply tall_update; auto|apply tall_remove; auto]. }
  pose proof (tall_apply_wake2 Q R _ _ _ _ Hp Hw Ew H1) as H2.
  destruct (o_spawn o) as [w|]; [apply tall_spawn; auto|exact H2].
Qed.

(* ---------------------------------------------------------------- depth = 1 *)
Definition unwinding_pc (p : ppc) : bool :=
  match p with RwRecIf | RwBuf | RwStack | RwErr => true | _ => false end.

Definition Ldep (th : thr) : Prop :=
  match pc th with
  | SbNil | SbWrap => tk_depth (l_task th) = O
  | SbRetInvalid => True
  | SnAppend => tk_depth (l_task th) = 1%nat
  | p => if sub_pc p then tk_depth (l_task th) = 1%nat
         else if hold1_pc p then l_ok th = true -> tk_depth (l_task th) = 1%nat
         else if hold2_pc p || unwinding_pc p then tk_depth (l_task th) = 1%nat
         else True
  end.
Definition d1 (k : task) : Prop := tk_depth k = 1%nat.

Lemma wo2_Ldep : wake_ok2 Ldep d1.
Proof.
  intros th Hp _. apply is_parked_pc in Hp. unfold Ldep, recv_ok, recv_closed, recv_int, d1. cbn.
  repeat split; intros; auto; discriminate.
Qed.

Record Inv4 (c : pcfg) : Prop := {
  y_q : Forall d1 (s_q (c_sh c));
  y_t : tall Ldep (c_thr c)
}.

Lemma inv4_step_pstep P c t th ch o c' obs :
  c_par c = P -> i_fixc P = true -> Inv4 c -> lookup t (c_thr c) = Some th ->
  pstep (c_par c) (parked_of (c_thr c)) (c_sh c) th ch = Some o ->
  apply_out c t o = Some (c', obs) -> Inv4 c'.
Proof.
  intros Vpar Hfc [Yq Yt] Hl Hp Ha.
  rewrite Vpar in Hp.
  pose proof (tall_lookup _ _ _ _ Yt Hl) as Lth.
  destruct (apply_out_fields c t o c' obs Ha) as (_ & Fsh & _).
  pstep_split Hp Epc.
  all: unfold unwind, back in *.
  all: rewrite ?Hfc in *.
  all: unfold Ldep in Lth; rewrite Epc in Lth; cbn in Lth.
  all: cbn [o_sh] in Fsh.
  all: ifs_in Ha.
  all: split.
  (* the queue *)
  all: try (rewrite Fsh; unfold unlock_state; shcbn;
            repeat match goal with |- context [if pstate_eqb ?a ?b then _ else _] => destruct (pstate_eqb a b) end; shcbn;
            first [ exact Yq
                  | (apply Forall_app; split; [exact Yq|constructor; [exact Lth|constructor]])
                  | (match goal with H : s_q _ = _ :: _ |- _ => rewrite H in Yq; inversion Yq; assumption end) ]; fail).
  (* the threads *)
  all: try (eapply apply_out_tall2; [apply wo2_Ldep | exact Yt | exact Ha | | | ];
      [ cbn [o_wake wake_task_ok]; first [exact I | exact Lth]
      | cbn [o_th]; intros x E; first [discriminate E | injection E as <-; unfold Ldep; cbn;
          first [ exact I | exact Lth | assumption | reflexivity
                | (match goal with H : s_q _ = _ :: _ |- _ => rewrite H in Yq; inversion Yq; intros; assumption end)
                | (rewrite Lth; reflexivity) | (intros X; first [discriminate X | (apply Lth; exact X) | exact Lth])
                | (destruct (l_ok th); cbn in *; first [exact I | exact Lth | (intros; auto)]) ]]
      | cbn [o_spawn]; intros x E; first [discriminate E | injection E as <-; unfold Ldep; cbn; exact I] ]; fail).
  all: try (rewrite Fsh; shcbn; repeat match goal with H : s_q _ = _ |- _ => rewrite H end; first [exact Yq | constructor | (inversion Yq; assumption)]; fail).
  all: eapply apply_out_tall2; [apply wo2_Ldep | exact Yt | exact Ha | exact I | | ].
  all: try (cbn [o_spawn]; intros x E; discriminate E).
  all: cbn [o_th]; intros x E; injection E as <-; unfold Ldep; cbn.
  all: try exact I.
  all: try (inversion Yq; intros; assumption).
  all: try exact Lth.
Qed.

(* ---------------------------------------------------------------- the other events *)
Lemma inv4_init P : Inv4 (pinit P).
Proof. constructor; cbn; constructor. Qed.

Lemma Ldep_same th th' :
  pc th' = pc th -> l_task th' = l_task th -> l_ok th' = l_ok th -> Ldep th -> Ldep th'.
Proof. unfold Ldep. intros -> -> ->. auto. Qed.

Lemma inv4_step c e c' : i_fixc (c_par c) = true -> Inv4 c -> pstep_cfg c e = Some c' -> Inv4 c'.
Proof.
  intros Hfc HK Hs. apply pstep_cfg_inv in Hs. destruct e as [t op|t ch|t|t|t].
  - destruct Hs as (Hl & Hb & -> & Hid). destruct HK as [Yq Yt]. constructor; cbn [c_sh c_thr]; [exact Yq|].
    apply tall_spawn; [exact Yt|]. unfold Ldep. destruct op; cbn; auto.
  - destruct Hs as (th & o & obs & Hl & Hp & Ha). eapply (inv4_step_pstep (c_par c)); eauto.
  - destruct Hs as (th & Hl & _ & ->). destruct HK as [Yq Yt]. constructor; cbn [c_sh c_thr with_thr]; [exact Yq|].
    apply tall_update; [exact Yt|]. eapply Ldep_same; [| | |exact (tall_lookup _ _ _ _ Yt Hl)]; reflexivity.
  - destruct Hs as (th & Hl & _ & ->). destruct HK as [Yq Yt]. constructor; cbn [c_sh c_thr with_thr]; [exact Yq|].
    apply tall_update; [exact Yt|]. destruct (is_parked th) eqn:Ep.
    + unfold Ldep. cbn. exact I.
    + eapply Ldep_same; [| | |exact (tall_lookup _ _ _ _ Yt Hl)]; reflexivity.
  - destruct Hs as (th & obs & Hl & Epc & Ha). destruct HK as [Yq Yt].
    destruct (apply_out_fields _ _ _ _ _ Ha) as (_ & Fsh & _). cbn [o_sh] in Fsh.
    pose proof (tall_lookup _ _ _ _ Yt Hl) as Lth. unfold Ldep in Lth. rewrite Epc in Lth. cbn in Lth.
    constructor; [rewrite Fsh; exact Yq|].
    eapply apply_out_tall2; [apply wo2_Ldep|exact Yt|exact Ha|exact I| |].
    + cbn [o_th]. intros x E; injection E as <-. unfold Ldep. cbn. exact Lth.
    + cbn [o_spawn]. intros x E; discriminate E.
Qed.

Lemma par_const c e c' : pstep_cfg c e = Some c' -> c_par c' = c_par c.
Proof.
  intros Hs. apply pstep_cfg_inv in Hs. destruct e as [t op|t ch|t|t|t].
  - destruct Hs as (_ & _ & -> & _). reflexivity.
  - destruct Hs as (th & o & obs & _ & _ & Ha). apply (apply_out_fields _ _ _ _ _ Ha).
  - destruct Hs as (th & _ & _ & ->). reflexivity.
  - destruct Hs as (th & _ & _ & ->). reflexivity.
  - destruct Hs as (th & obs & _ & _ & Ha). apply (apply_out_fields _ _ _ _ _ Ha).
Qed.

Theorem inv4_reach P c : i_fixc P = true -> preach P c -> c_par c = P /\ Inv4 c.
Proof.
  intros Hfc. revert c. apply (preach_ind P (fun c => c_par c = P /\ Inv4 c)).
  - split; [reflexivity|apply inv4_init].
  - intros c0 e c1 [Hp HK] Hs. split; [rewrite (par_const _ _ _ Hs); exact Hp|].
    eapply inv4_step; eauto. rewrite Hp. exact Hfc.
Qed.

(* with the fix: every queued task and every task inside its user function has exactly one wrapper layer *)
Lemma wrapper_depth_one_lemma P : i_fixc P = true ->
  forall evs c, pexecs P evs = Some c ->
  Forall (fun k => tk_depth k = 1%nat) (s_q (c_sh c)) /\
  (forall t th, lookup t (c_thr c) = Some th -> pc th = WUser -> tk_depth (l_task th) = 1%nat).
Proof.
  intros Hfc evs c He. destruct (inv4_reach P c Hfc (pexecs_reach _ _ _ He)) as [_ [Yq Yt]].
  split; [exact Yq|]. intros t th Hl Epc. pose proof (tall_lookup _ _ _ _ Yt Hl) as L.
  unfold Ldep in L. rewrite Epc in L. exact L.
Qed.

(* ... so a panicking (or returning) task is unwound in at most 8 statements of its worker *)
Lemma panic_is_contained_fixed_lemma P : i_fixc P = true ->
  forall evs c t th, pexecs P evs = Some c ->
  lookup t (c_thr c) = Some th -> pc th = WUser ->
  exists c1, pstep_cfg c (PFinish t) = Some c1 /\
    g_done (c_gh c1) = g_done (c_gh c) ++ [tk_id (l_task th)] /\
    exists k c2 th2, exec pstep_cfg c1 (repeat (PStep t C0) k) = Some c2 /\ (k <= 8)%nat /\
      lookup t (c_thr c2) = Some th2 /\ pc th2 = WRunDec /\ c_sh c2 = c_sh c.
Proof.
  intros Hfc evs c t th He Hl Epc.
  destruct (wrapper_depth_one_lemma P Hfc evs c He) as [_ Hd]. specialize (Hd t th Hl Epc).
  destruct (panic_is_contained_lemma c t th Hl Epc) as (c1 & H1 & H2 & _ & _ & k & c2 & th2 & Hx & Hk & Hl2 & Hp2 & Hs2 & _).
  exists c1. split; [exact H1|]. split; [exact H2|]. exists k, c2, th2. rewrite Hd in Hk. repeat split; auto.
Qed.

(* ---------------------------------------------------------------- the pinned behaviour: unbounded depth *)
(* a pool that is never started, unbuffered queue, one Submit: it spins for ever; before commit 4ac6152 every
   round of the loop wrapped the task once more *)
Definition spin_P : params := mkPar 1 1 1 0 0 1 true true 100%nat false.

Definition spin_round : list pev :=
  [PStep 1%nat C0; PStep 1%nat C0; PStep 1%nat C0; PStep 1%nat C0; PStep 1%nat C0; PStep 1%nat C0;
   PStep 1%nat CDefault;
   PStep 1%nat C0; PStep 1%nat C0; PStep 1%nat C0; PStep 1%nat C0; PStep 1%nat C0; PStep 1%nat C0; PStep 1%nat C0].
Fixpoint spin_rounds (n : nat) : list pev :=
  match n with O => [] | S k => spin_rounds k ++ spin_round end.
Definition spin_schedule (n : nat) : list pev :=
  [PCall 1%nat (OpSubmit 0 false); PStep 1%nat C0; PStep 1%nat C0] ++ spin_rounds n.

(* the configuration at the loop head with n wrapper layers *)
Definition at_loop_head (n : nat) (c : pcfg) : Prop :=
  c_par c = spin_P /\ c_sh c = sh0 /\ c_next c = 100%nat /\ c_ntask c = 1%nat /\ c_gh c = gh0 /\
  exists th, c_thr c = [(1%nat, th)] /\ pc th = SbChkClosing /\ l_task th = mkTask 0 n false /\
             l_cancel th = false /\ l_nil th = false.

Lemma spin_one_round n c : at_loop_head n c -> exists c', exec pstep_cfg c spin_round = Some c' /\ at_loop_head (S n) c'.
Proof.
  intros (Hp & Hs & Hn & Ht & Hg & th & Hth & Epc & Etask & Ec & Enil).
  destruct c as [par sh thr nx nt gh]. cbn in *. subst.
  destruct th as [p tk nil can sec ok er fl n0 a b acc wid tm lvl pan nt0 has late]. cbn in *. subst.
  eexists. split; [vm_compute; reflexivity|].
  unfold at_loop_head. cbn. repeat split. eexists. repeat split.
Qed.

Lemma spin_reaches n : exists c, exec pstep_cfg (pinit spin_P) (spin_schedule n) = Some c /\ at_loop_head n c.
Proof.
  induction n as [|n IH].
  - eexists. split; [vm_compute; reflexivity|]. unfold at_loop_head. cbn. repeat split. eexists. repeat split.
  - destruct IH as (c & Hx & Hc). destruct (spin_one_round n c Hc) as (c' & Hx' & Hc').
    exists c'. split; [|exact Hc'].
    unfold spin_schedule in *. cbn [spin_rounds]. rewrite app_assoc. rewrite exec_app, Hx. exact Hx'.
Qed.

Lemma submit_wrap_depth_unbounded_lemma :
  pvalid spin_P /\ i_fixc spin_P = false /\
  forall n, exists evs c th,
    exec pstep_cfg (pinit spin_P) evs = Some c /\ lookup 1%nat (c_thr c) = Some th /\
    pc th = SbChkClosing /\ tk_depth (l_task th) = n /\ s_state (c_sh c) = SCreated.
Proof.
  split; [unfold pvalid; cbn; lia|]. split; [reflexivity|].
  intros n. destruct (spin_reaches n) as (c & Hx & (Hp & Hs & _ & _ & _ & th & Hth & Epc & Etask & _)).
  exists (spin_schedule n), c, th. rewrite Hth, Hs, Etask. cbn. repeat split; auto.
Qed.
