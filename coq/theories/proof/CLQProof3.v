(* Proofs about CLQModel (C06), part 3: the theorems over all schedules, in the form the
   property file states them. *)
From Ekit Require Import Common Conc CLQModel CLQProof CLQProof2.
From Coq Require Import Arith PeanoNat Lia.

Local Open Scope nat_scope.

Definition clq_reach (evs : list clq_ev) (c : clq_cfg) : Prop := exec clq_step clq_init evs = Some c.

Lemma clq_step_exec1 c e c' : clq_step c e = Some c' <-> exists o, clq_exec1 c e = Some (c', o).
Proof.
  unfold clq_step. destruct (clq_exec1 c e) as [[c1 o]|]; split.
  - intros H; injection H as <-. eauto.
  - intros [o' H]. injection H as <- _. reflexivity.
  - discriminate.
  - intros [o' H]. discriminate.
Qed.

Lemma reach_inv evs c : clq_reach evs c -> clq_inv c.
Proof.
  unfold clq_reach. apply (invariant_reachable clq_cfg clq_ev clq_step clq_inv); [|apply clq_inv_init].
  intros c0 e c1 Hinv Hs. apply clq_step_exec1 in Hs. destruct Hs as [o Hs].
  apply (clq_inv_step c0 e c1 o Hinv Hs).
Qed.

(* ---------- structure (DESIGN 12.5) ---------- *)
Lemma reach_shape evs c : clq_reach evs c -> exists chain hi ti, shape c chain hi ti.
Proof. intros H. destruct (reach_inv _ _ H) as (chain & hi & ti & Sh & _). eauto. Qed.

Lemma reach_no_panic evs c e c' o : clq_reach evs c -> clq_exec1 c e = Some (c', o) -> o <> QPanic.
Proof. intros H Hs. apply (clq_inv_step c e c' o (reach_inv _ _ H) Hs). Qed.

(* between its successful link CAS and its tail CAS an Enqueue is alone, tail is still the node
   it linked behind, that node's next is its new node: the tail CAS succeeds *)
Lemma reach_swinger evs c t l :
  clq_reach evs c -> lookup t (q_thr c) = Some l -> q_pc l = EnqTailCAS ->
  q_tail c = q_tailPtr l /\
  (exists x, q_newPtr l = Some x /\ node_next (q_nexts c) (q_tail c) = Some (Some x) /\
             node_next (q_nexts c) (Some x) = Some None /\ node_val (q_vals c) (Some x) = Some (q_val l)) /\
  (forall t2 l2, lookup t2 (q_thr c) = Some l2 -> q_pc l2 = EnqTailCAS -> t2 = t).
Proof.
  intros H Hl Hpc. destruct (reach_inv _ _ H) as (chain & hi & ti & Sh & Th & _).
  pose proof Th as (Hnd & Hall & Hpair).
  pose proof (Hall t l Hl) as Hok. unfold thr_ok in Hok. rewrite Hpc in Hok.
  destruct Hok as (Hlen & Hp & Hq & Hv).
  pose proof Sh as [S1 S2 S3 S4 S5 S6 S7 (S8 & S9 & S10)].
  split; [congruence|]. split.
  - destruct (nth_error_lt_some chain (S ti) ltac:(lia)) as [y Hy].
    destruct (nth_error_lt_some chain ti ltac:(lia)) as [x Hx].
    exists y. split; [congruence|]. split.
    + rewrite S7, Hx. cbn [node_next]. rewrite (S4 ti x Hx), Hy. reflexivity.
    + split.
      * cbn [node_next]. rewrite (S4 (S ti) y Hy).
        replace (nth_error chain (S (S ti))) with (@None nat); [reflexivity|].
        symmetry. apply nth_error_None. lia.
      * rewrite <- Hy, <- Hq. exact Hv.
  - intros t2 l2 H2 Hpc2. destruct (Nat.eq_dec t2 t) as [E|Hne]; [exact E|exfalso].
    destruct (Hpair t t2 l l2 ltac:(congruence) Hl H2) as [_ Hs].
    apply Hs; unfold is_swinger; [rewrite Hpc|rewrite Hpc2]; reflexivity.
Qed.

(* head <> tail -> head.next <> nil, and it is a node with a value *)
Lemma reach_head_next evs c :
  clq_reach evs c -> q_head c <> q_tail c ->
  exists x v, node_next (q_nexts c) (q_head c) = Some (Some x) /\ node_val (q_vals c) (Some x) = Some v.
Proof.
  intros H Hne. destruct (reach_inv _ _ H) as (chain & hi & ti & Sh & _).
  pose proof Sh as [S1 S2 S3 S4 S5 S6 S7 (S8 & S9 & S10)].
  assert (Hlt : hi < ti).
  { destruct (Nat.eq_dec hi ti) as [->|]; [|lia]. exfalso. apply Hne. congruence. }
  destruct (chain_idx_valid c chain hi ti hi Sh ltac:(lia)) as (x & Hx & _).
  destruct (chain_idx_valid c chain hi ti (S hi) Sh ltac:(lia)) as (y & Hy & _ & Hyv & _).
  destruct (nth_error_lt_some (q_vals c) y Hyv) as [v Hv].
  exists y, v. split; [|exact Hv].
  rewrite S6, Hx. cbn [node_next]. rewrite (S4 hi x Hx), Hy. reflexivity.
Qed.

(* a dequeuer about to CAS: its snapshot is a position not after head, strictly before tail,
   and what it read from head.next is the following node *)
Lemma reach_dequeuer evs c t l :
  clq_reach evs c -> lookup t (q_thr c) = Some l -> q_pc l = DeqCASHead ->
  exists chain hi ti kh, shape c chain hi ti /\ kh <= hi /\ S kh <= ti /\
    q_headPtr l = nth_error chain kh /\ q_headNextPtr l = nth_error chain (S kh).
Proof.
  intros H Hl Hpc. destruct (reach_inv _ _ H) as (chain & hi & ti & Sh & Th & _).
  destruct Th as (_ & Hall & _). pose proof (Hall t l Hl) as Hok. unfold thr_ok in Hok. rewrite Hpc in Hok.
  destruct Hok as (kh & H1 & H2 & H3 & H4). exists chain, hi, ti, kh. auto.
Qed.

(* no call ever waits: a call in flight always has an enabled step (for ANY configuration) *)
Lemma step_enabled c t l : lookup t (q_thr c) = Some l -> clq_exec1 c (QStep t) <> None.
Proof.
  intros Hl. unfold clq_exec1. rewrite Hl. unfold goto, panic, ret.
  destruct (q_pc l); try discriminate;
    repeat match goal with
           | |- context [match ?x with _ => _ end] => destruct x
           | |- context [if ?x then _ else _] => destruct x
           end; discriminate.
Qed.

(* ---------- the history ---------- *)
(* the observable part of the ghost history = the invocation / response events, exactly *)
Definition is_vis (e : clq_hev) : bool := match e with HLin _ _ _ => false | _ => true end.
Definition vis (h : list clq_hev) : list clq_hev := filter is_vis h.

Definition vis_of (e : clq_ev) (o : clq_obs) : list clq_hev :=
  match e, o with
  | QCallEnq t v, _ => [HCall t (OpEnq v)]
  | QCallDeq t, _ => [HCall t OpDeq]
  | QStep t, QRet r => [HRet t r]
  | QStep _, _ => []
  end.

Lemma hist_faithful c e c' o :
  clq_exec1 c e = Some (c', o) -> vis (q_hist c') = vis_of e o ++ vis (q_hist c).
Proof.
  unfold clq_exec1. destruct e as [t v|t|t].
  - destruct (lookup t (q_thr c)); [discriminate|]. intros H; injection H as <- <-. reflexivity.
  - destruct (lookup t (q_thr c)); [discriminate|]. intros H; injection H as <- <-. reflexivity.
  - destruct (lookup t (q_thr c)) as [l|]; [|discriminate]. unfold goto, panic, ret.
    destruct (q_pc l);
      repeat match goal with
             | |- context [match ?x with _ => _ end] => destruct x
             | |- context [if ?x then _ else _] => destruct x
             end; intros H; injection H as <- <-; reflexivity.
Qed.

(* one step adds at most one event to the history, performed by the thread of the event *)
Definition ev_tid (e : clq_ev) : tid := match e with QCallEnq t _ | QCallDeq t | QStep t => t end.

Lemma hist_step_shape c e c' o :
  clq_exec1 c e = Some (c', o) ->
  q_hist c' = q_hist c \/ exists ev, q_hist c' = ev :: q_hist c /\ hev_tid ev = ev_tid e.
Proof.
  unfold clq_exec1. destruct e as [t v|t|t].
  - destruct (lookup t (q_thr c)); [discriminate|]. intros H; injection H as <- <-. right. eexists; split; reflexivity.
  - destruct (lookup t (q_thr c)); [discriminate|]. intros H; injection H as <- <-. right. eexists; split; reflexivity.
  - destruct (lookup t (q_thr c)) as [l|]; [|discriminate]. unfold goto, panic, ret.
    destruct (q_pc l);
      repeat match goal with
             | |- context [match ?x with _ => _ end] => destruct x
             | |- context [if ?x then _ else _] => destruct x
             end; intros H; injection H as <- <-; cbn [q_hist upd_thr];
      first [left; reflexivity | right; eexists; split; reflexivity].
Qed.

(* every step either leaves the abstract queue unchanged (and is not marked), or is THE marked
   linearisation step of one call and transforms the abstract queue as the FIFO specification says *)
Definition step_kind (c c' : clq_cfg) (e : clq_ev) : Prop :=
  (clq_abs c' = clq_abs c /\
   (q_hist c' = q_hist c \/ exists ev, q_hist c' = ev :: q_hist c /\ is_vis ev = true)) \/
  (exists t op r, e = QStep t /\ q_hist c' = HLin t op r :: q_hist c /\
                  fifo_spec op (clq_abs c) = (clq_abs c', r)).

Lemma reach_step_kind evs c e c' o :
  clq_reach evs c -> clq_exec1 c e = Some (c', o) -> step_kind c c' e.
Proof.
  intros H Hs. pose proof (reach_inv _ _ H) as Hinv.
  destruct (clq_inv_step c e c' o Hinv Hs) as [(chain' & hi' & ti' & _ & _ & (Hlin' & _)) _].
  destruct Hinv as (chain & hi & ti & _ & _ & (Hlin & _)).
  destruct (hist_step_shape c e c' o Hs) as [Hh|(ev & Hh & Ht)].
  - left. split; [|left; exact Hh]. rewrite Hh in Hlin'. congruence.
  - rewrite Hh in Hlin'. cbn [lin_run] in Hlin'. rewrite Hlin in Hlin'.
    destruct ev as [t0 o0|t0 o0 r0|t0 r0].
    + left. split; [congruence|]. right. exists (HCall t0 o0). auto.
    + right. exists t0, o0, r0.
      assert (He : e = QStep t0).
      { cbn in Ht. destruct e as [t v|t|t]; cbn in Ht; subst.
        - unfold clq_exec1 in Hs. destruct (lookup t (q_thr c)); [discriminate|].
          injection Hs as <- <-. cbn in Hh. injection Hh as Hh. discriminate.
        - unfold clq_exec1 in Hs. destruct (lookup t (q_thr c)); [discriminate|].
          injection Hs as <- <-. cbn in Hh. injection Hh as Hh. discriminate.
        - reflexivity. }
      split; [exact He|]. split; [exact Hh|].
      destruct (fifo_spec o0 (clq_abs c)) as [q' r'] eqn:Ef.
      destruct (res_eqb r0 r') eqn:Er; [|discriminate].
      apply res_eqb_eq in Er. subst r'. congruence.
    + left. split; [congruence|]. right. exists (HRet t0 r0). auto.
Qed.

(* linearisation-point form of linearizability *)
Definition lin_form (c : clq_cfg) : Prop :=
  (* the marked steps, in their order, form a legal sequential FIFO history from the empty queue
     whose results are the marked ones and whose final state is the current abstract queue *)
  lin_run (q_hist c) = Some (clq_abs c) /\
  (* per thread the history is (Call o . Lin o r . Ret r)* followed by the call in flight, if any:
     exactly one marked step between the invocation and the response of every completed call,
     with the same operation and the returned value *)
  (forall t, phase t (q_hist c) <> None) /\
  (* a thread without a call in flight has completed all its calls *)
  (forall t, lookup t (q_thr c) = None -> phase t (q_hist c) = Some PIdle).

Lemma reach_lin_form evs c : clq_reach evs c -> lin_form c.
Proof.
  intros H. destruct (reach_inv _ _ H) as (chain & hi & ti & _ & _ & (Hlin & Hph)).
  split; [exact Hlin|]. split.
  - intros t. rewrite Hph. discriminate.
  - intros t Hl. rewrite Hph. unfold exp_of. rewrite Hl. reflexivity.
Qed.

(* the abstract queue of a reachable configuration, explicitly *)
Lemma reach_abs evs c :
  clq_reach evs c -> exists chain hi ti, shape c chain hi ti /\ clq_abs c = map (valof (q_vals c)) (seg chain hi ti).
Proof.
  intros H. destruct (reach_shape _ _ H) as (chain & hi & ti & Sh).
  exists chain, hi, ti. split; [exact Sh|apply abs_shape, Sh].
Qed.

Lemma reach_shape_abs evs c :
  clq_reach evs c ->
  exists chain hi ti,
    shape c chain hi ti /\
    (hi <= ti /\ ti < length chain /\ length chain <= ti + 2) /\
    clq_abs c = map (valof (q_vals c)) (seg chain hi ti).
Proof.
  intros H. destruct (reach_abs evs c H) as (chain & hi & ti & Sh & Ha).
  exists chain, hi, ti. split; [exact Sh|]. split; [apply Sh|exact Ha].
Qed.

(* ---------- facts used by the C15 footprint argument ---------- *)
(* node.val is written once, at allocation: the value array only grows *)
Lemma vals_append_only c e c' o :
  clq_exec1 c e = Some (c', o) -> exists ext, q_vals c' = q_vals c ++ ext.
Proof.
  unfold clq_exec1. destruct e as [t v|t|t].
  - destruct (lookup t (q_thr c)); [discriminate|]. intros H; injection H as <- <-.
    exists []. cbn. rewrite app_nil_r. reflexivity.
  - destruct (lookup t (q_thr c)); [discriminate|]. intros H; injection H as <- <-.
    exists []. cbn. rewrite app_nil_r. reflexivity.
  - destruct (lookup t (q_thr c)) as [l|]; [|discriminate]. unfold goto, panic, ret.
    destruct (q_pc l);
      repeat match goal with
             | |- context [match ?x with _ => _ end] => destruct x
             | |- context [if ?x then _ else _] => destruct x
             end; intros H; injection H as <- <-; cbn [q_vals upd_thr];
      first [exists []; rewrite app_nil_r; reflexivity | eexists; reflexivity].
Qed.

(* the only plain read of node.val (`return headNext.val, nil`) reads a node that WAS published by
   a link CAS (it is in the chain) and that this call reached through its own atomic load of head.next *)
Lemma reach_val_read_published evs c t l :
  clq_reach evs c -> lookup t (q_thr c) = Some l -> q_pc l = DeqRetVal ->
  exists chain hi ti x v, shape c chain hi ti /\ q_headNext l = Some x /\ In x chain /\
                          nth_error (q_vals c) x = Some v.
Proof.
  intros H Hl Hpc. destruct (reach_inv _ _ H) as (chain & hi & ti & Sh & Th & _).
  destruct Th as (_ & Hall & _). pose proof (Hall t l Hl) as Hok. unfold thr_ok in Hok. rewrite Hpc in Hok.
  destruct Hok as (x & v & H1 & H2 & H3). exists chain, hi, ti, x, v. auto.
Qed.

(* a node an Enqueue has allocated and not yet linked is referenced by no other call and is not
   reachable from head / tail: its plain initialisation cannot race *)
Lemma reach_unpublished_private evs c t l x :
  clq_reach evs c -> lookup t (q_thr c) = Some l -> owned l = Some x ->
  exists chain hi ti, shape c chain hi ti /\ ~ In x chain /\
    forall t2 l2, t2 <> t -> lookup t2 (q_thr c) = Some l2 -> owned l2 <> Some x.
Proof.
  intros H Hl Ho. destruct (reach_inv _ _ H) as (chain & hi & ti & Sh & Th & _).
  destruct Th as (_ & Hall & Hpair). exists chain, hi, ti. split; [exact Sh|]. split.
  - eapply owned_fresh; eauto.
  - intros t2 l2 Hne H2 E. destruct (Hpair t t2 l l2 ltac:(congruence) Hl H2) as [Hc _].
    apply Hc; congruence.
Qed.
