(* Proofs about CopierModel (C20), part 2: the tree-driven copy is total and meets `post`. *)
From Ekit Require Import Common CopierModel CopierProof.
From Coq Require Import ZifyBool.

(* ------------------------------------------------------------ typing *)
Definition has_types : list (Z * bool * ty) -> list value -> bool :=
  fix go (l : list (Z * bool * ty)) (xs : list value) {struct l} : bool :=
    match l, xs with
    | [], [] => true
    | (_, _, ft) :: r, x :: xr => has_type ft x && go r xr
    | _, _ => false
    end.

Lemma has_type_struct : forall n fs vs, has_type (Struct n fs) (VStruct vs) = has_types fs vs.
Proof. reflexivity. Qed.

Definition flds_typed (fs : list fld) (vs : list value) : Prop :=
  Forall2 (fun (f : fld) v => has_type (ftyp f) v = true) fs vs.

Lemma has_types_iff : forall fs vs, has_types fs vs = true <-> flds_typed fs vs.
Proof.
  induction fs as [|[[n e] t] r IH]; intros vs; destruct vs as [|x xr]; cbn [has_types]; split; intros H.
  - constructor.
  - reflexivity.
  - discriminate H.
  - inversion H.
  - discriminate H.
  - inversion H.
  - apply andb_prop in H as [H1 H2]. constructor; [exact H1|apply IH; exact H2].
  - inversion H as [|f v fr vr Hf Hr]; subst. cbn [ftyp snd] in Hf. rewrite Hf. cbn.
    apply IH. exact Hr.
Qed.

Definition zero_values : list (Z * bool * ty) -> list value :=
  fix go (l : list (Z * bool * ty)) : list value :=
    match l with [] => [] | (_, _, ft) :: r => zero_value ft :: go r end.

Lemma zero_value_struct : forall n fs, zero_value (Struct n fs) = VStruct (zero_values fs).
Proof. reflexivity. Qed.

Lemma has_type_zero : forall t, has_type t (zero_value t) = true.
Proof.
  induction t as [k|n k|n fs IH|t IH|t IH|k v IHk IHv| |k i] using ty_ind'; try reflexivity.
  - cbn. destruct (is_string_kind k); reflexivity.
  - cbn. destruct (is_string_kind k); reflexivity.
  - rewrite zero_value_struct, has_type_struct.
    induction IH as [|[[fn fe] ft] r Hf Hr IHr]; [reflexivity|].
    cbn [zero_values has_types]. cbn [ftyp snd] in Hf. rewrite Hf. exact IHr.
Qed.

Lemma flds_typed_nth : forall fs vs i n e t,
  flds_typed fs vs -> nth_opt fs i = Some (n, e, t) ->
  exists x, nth_opt vs i = Some x /\ has_type t x = true.
Proof.
  intros fs vs i n e t H. revert i. induction H as [|f v fr vr Hf Hr IH]; intros i Hn.
  - destruct i; discriminate Hn.
  - destruct i; cbn in Hn |- *.
    + inversion Hn; subst. exists v. split; [reflexivity|exact Hf].
    + apply IH. exact Hn.
Qed.

Lemma flds_typed_app : forall a b va vb,
  flds_typed a va -> flds_typed b vb -> flds_typed (a ++ b) (va ++ vb).
Proof. intros. apply Forall2_app; assumption. Qed.

Lemma flds_typed_length : forall fs vs, flds_typed fs vs -> length fs = length vs.
Proof. intros fs vs H. induction H as [|f v fr vr Hf Hr IH]; cbn; [reflexivity|rewrite IH; reflexivity]. Qed.

(* ------------------------------------------------------------ unfolding copy_tree_node *)
Definition src_unwrap (s : rv) : cres (option rv) :=
  match rty s with
  | Ptr et =>
      match rval s with
      | VPtr None => COk None
      | VPtr (Some x) => COk (Some {| rty := et; rval := x; raddr := true; rro := rro s |})
      | _ => CPanic
      end
  | _ => COk (Some s)
  end.

Definition dst_unwrap (d : rv) : cres (rv * bool) :=
  match rty d with
  | Ptr et =>
      match rval d with
      | VPtr None =>
          if can_set d
          then COk ({| rty := et; rval := zero_value et; raddr := true; rro := rro d |}, true)
          else CPanic
      | VPtr (Some x) => COk ({| rty := et; rval := x; raddr := true; rro := rro d |}, true)
      | _ => CPanic
      end
  | _ => COk (d, false)
  end.

Definition copy_leaf (o : options) (name : Z) (s s1 d d1 : rv) (p : bool) : value * status :=
  if negb (can_set d1) then (rewrap p (rval d1), SOk) else
  match find_conv o name with
  | None =>
      if negb (ty_eqb (rty s1) (rty d1)) then (rewrap p (rval d1), SErr CType)
      else if is_zero (rval s1) then (rewrap p (rval d1), SOk)
      else if rro s1 then (rewrap p (rval d1), SPanic)
      else (rewrap p (rval s1), SOk)
  | Some c =>
      if negb (can_set d) then (rewrap p (rval d1), SOk)
      else if rro s then (rewrap p (rval d1), SPanic)
      else match apply_conv c (rty s) (rval s) with
           | CPanic => (rewrap p (rval d1), SPanic)
           | CErr e => (rewrap p (rval d1), SErr e)
           | COk CNil => (rewrap p (rval d1), SErr CType)
           | COk (CDyn t r) =>
               if negb (ty_eqb t (rty d)) then (rewrap p (rval d1), SErr CType)
               else (r, SOk)
           end
  end.

Definition copy_kids (o : options) (s1 d1 : rv) : list node -> value -> value * status :=
  fix loop (ks : list node) (cur : value) {struct ks} : value * status :=
    match ks with
    | [] => (cur, SOk)
    | k :: rest =>
      match k with
      | Node cname si di _ _ =>
        if in_ignore o cname then loop rest cur else
        match r_field s1 si, r_field (with_val d1 cur) di with
        | COk cs, COk cd =>
            let '(x, stt) := copy_tree_node o k cs cd in
            let cur' := set_field cur di x in
            match stt with
            | SOk => loop rest cur'
            | _ => (cur', stt)
            end
        | _, _ => (cur, SPanic)
        end
      end
    end.

Lemma ctn_unfold : forall o name si di leaf kids s d,
  copy_tree_node o (Node name si di leaf kids) s d =
  match src_unwrap s with
  | CPanic => (rval d, SPanic)
  | CErr e => (rval d, SErr e)
  | COk None => (rval d, SOk)
  | COk (Some s1) =>
    match dst_unwrap d with
    | CPanic => (rval d, SPanic)
    | CErr e => (rval d, SErr e)
    | COk (d1, p) =>
      if leaf then copy_leaf o name s s1 d d1 p
      else let '(v', stt) := copy_kids o s1 d1 kids (rval d1) in (rewrap p v', stt)
    end
  end.
Proof. intros; reflexivity. Qed.

(* ------------------------------------------------------------ hypotheses on converters *)
(* Go's type system: a non-nil interface value has its dynamic type *)
Definition conv_ok (c : conv) : Prop :=
  forall v t r, cv_fun c v = Some (CDyn t r) -> has_type t r = true.
Definition opts_ok (o : options) : Prop :=
  forall n c, find_conv o n = Some c -> conv_ok c.

(* ------------------------------------------------------------ pointer unwrapping *)
Lemma src_unwrap_typed : forall sft y sa,
  has_type sft y = true ->
  (deref sft y = None /\
   src_unwrap {| rty := sft; rval := y; raddr := sa; rro := false |} = COk None) \/
  (exists y1 a, deref sft y = Some y1 /\
   src_unwrap {| rty := sft; rval := y; raddr := sa; rro := false |} =
     COk (Some {| rty := unptr sft; rval := y1; raddr := a; rro := false |}) /\
   has_type (unptr sft) y1 = true).
Proof.
  intros sft y sa Ht.
  destruct sft as [k|n k|n fs|e|e|k v| |k i];
    try (right; exists y, sa; split; [reflexivity|split; [reflexivity|exact Ht]]).
  destruct y as [z|s|fs|[p|]|s|m|z]; cbn in Ht; try discriminate Ht.
  - right. exists p, true. split; [reflexivity|split; [reflexivity|exact Ht]].
  - left. split; reflexivity.
Qed.

Lemma dst_unwrap_typed : forall dft x,
  has_type dft x = true ->
  dst_unwrap {| rty := dft; rval := x; raddr := true; rro := false |} =
    COk ({| rty := unptr dft; rval := deref_dst dft x; raddr := true; rro := false |},
         is_ptr_kind dft) /\
  has_type (unptr dft) (deref_dst dft x) = true.
Proof.
  intros dft x Ht.
  destruct dft as [k|n k|n fs|e|e|k v| |k i];
    try (split; [reflexivity|exact Ht]).
  destruct x as [z|s|fs|[p|]|s|m|z]; cbn in Ht; try discriminate Ht.
  - split; [reflexivity|exact Ht].
  - split; [reflexivity|]. cbn. apply has_type_zero.
Qed.

Lemma rewrap_typed : forall dft z,
  has_type (unptr dft) z = true -> has_type dft (rewrap (is_ptr_kind dft) z) = true.
Proof. intros dft z H. destruct dft; cbn in *; exact H. Qed.

Lemma zero_unique_leaf : forall t v,
  (is_shadow_kind (kind_of t) || is_atomic_type t) = true ->
  has_type t v = true -> is_zero v = true -> v = zero_value t.
Proof.
  intros t v Hl Ht Hz.
  destruct t as [k|n k|n fs|e|e|k e| |k i]; cbn in Hl; try discriminate Hl;
    destruct v as [z|s|fs'|[p|]|[s|]|[m|]|z]; cbn in Ht; try discriminate Ht;
    cbn in Hz; try discriminate Hz; cbn.
  - apply Z.eqb_eq in Hz. subst. destruct (is_string_kind k); [discriminate Ht|reflexivity].
  - destruct s; [|discriminate Hz]. rewrite Ht. reflexivity.
  - apply Z.eqb_eq in Hz. subst. destruct (is_string_kind k); [discriminate Ht|reflexivity].
  - destruct s; [|discriminate Hz]. rewrite Ht. reflexivity.
  - reflexivity.
  - reflexivity.
  - apply Z.eqb_eq in Hz. subst. reflexivity.
  - apply Z.eqb_eq in Hz. subst. reflexivity.
Qed.

(* ------------------------------------------------------------ one node *)
Definition kids_sound (dt : ty) : Prop :=
  forall o st kids sv dv sa v' stt,
    opts_ok o ->
    create_field_nodes false st dt = COk kids ->
    has_type st sv = true -> has_type dt dv = true ->
    copy_kids o {| rty := st; rval := sv; raddr := sa; rro := false |}
                {| rty := dt; rval := dv; raddr := true; rro := false |} kids dv = (v', stt) ->
    stt <> SPanic /\ has_type dt v' = true /\ (stt = SOk -> post o st sv dt dv v').

Lemma ctn_sound : forall o dn si di leaf kids sft dft y x sa x' stt,
  opts_ok o ->
  ((leaf = true /\ (is_shadow_kind (kind_of (unptr sft)) || is_atomic_type (unptr sft)) = true) \/
   (leaf = false /\ (is_shadow_kind (kind_of (unptr sft)) || is_atomic_type (unptr sft)) = false /\
    is_struct_kind (unptr sft) = true /\
    create_field_nodes false (unptr sft) (unptr dft) = COk kids /\ kids_sound (unptr dft))) ->
  has_type sft y = true -> has_type dft x = true ->
  copy_tree_node o (Node dn si di leaf kids)
    {| rty := sft; rval := y; raddr := sa; rro := false |}
    {| rty := dft; rval := x; raddr := true; rro := false |} = (x', stt) ->
  stt <> SPanic /\ has_type dft x' = true /\
  (stt = SOk ->
   field_post o dn sft y dft x x' (fun y1 x1 x1' => post o (unptr sft) y1 (unptr dft) x1 x1')).
Proof.
  intros o dn si di leaf kids sft dft y x sa x' stt Ho Hcls Hty Htx Hrun.
  rewrite ctn_unfold in Hrun.
  destruct (src_unwrap_typed sft y sa Hty) as [[Hd Hs]|[y1 [a [Hd [Hs Hty1]]]]]; rewrite Hs in Hrun.
  { (* nil source pointer *)
    cbn [rval] in Hrun. inversion Hrun; subst x' stt.
    split; [discriminate|]. split; [exact Htx|]. intros _.
    unfold field_post. rewrite Hd.
    destruct (is_shadow_kind (kind_of (unptr sft)) || is_atomic_type (unptr sft)); [reflexivity|].
    destruct (is_struct_kind (unptr sft)); reflexivity. }
  destruct (dst_unwrap_typed dft x Htx) as [Hdu Htx1]. rewrite Hdu in Hrun.
  destruct Hcls as [[Hleaf Hcl]|[Hleaf [Hcl [Hsk [Hctor Hkids]]]]]; subst leaf.
  - (* leaf *)
    unfold copy_leaf in Hrun. cbn [can_set raddr rro rval rty negb andb] in Hrun.
    unfold field_post. rewrite Hcl, Hd.
    destruct (find_conv o dn) as [c|] eqn:Ec.
    + unfold apply_conv in Hrun.
      destruct (ty_eqb sft (cv_src c)) eqn:E1; cbn [negb] in Hrun.
      2:{ inversion Hrun; subst. split; [discriminate|]. split; [apply rewrap_typed; exact Htx1|].
          intros Hk; discriminate Hk. }
      destruct (cv_fun c y) as [[|t r]|] eqn:E2.
      3:{ inversion Hrun; subst. split; [discriminate|]. split; [apply rewrap_typed; exact Htx1|].
          intros Hk; discriminate Hk. }
      1:{ inversion Hrun; subst. split; [discriminate|]. split; [apply rewrap_typed; exact Htx1|].
          intros Hk; discriminate Hk. }
      destruct (ty_eqb t dft) eqn:E3; cbn [negb] in Hrun.
      2:{ inversion Hrun; subst. split; [discriminate|]. split; [apply rewrap_typed; exact Htx1|].
          intros Hk; discriminate Hk. }
      inversion Hrun; subst x' stt.
      apply ty_eqb_eq in E1. apply ty_eqb_eq in E3.
      split; [discriminate|]. split.
      * rewrite <- E3. exact (Ho _ _ Ec _ _ _ E2).
      * intros _. subst t. split; [symmetry; exact E1|first [exact E2|reflexivity]].
    + destruct (ty_eqb (unptr sft) (unptr dft)) eqn:E1; cbn [negb] in Hrun.
      2:{ inversion Hrun; subst. split; [discriminate|]. split; [apply rewrap_typed; exact Htx1|].
          intros Hk; discriminate Hk. }
      apply ty_eqb_eq in E1.
      destruct (is_zero y1) eqn:Ez.
      * inversion Hrun; subst x' stt.
        split; [discriminate|]. split; [apply rewrap_typed; exact Htx1|]. intros _.
        split; [exact E1|]. exists (deref_dst dft x). split; [reflexivity|].
        split; [intros _; reflexivity|].
        intros [Hk|Hk]; [discriminate Hk|].
        rewrite Hk, <- E1. symmetry. apply zero_unique_leaf; assumption.
      * inversion Hrun; subst x' stt.
        split; [discriminate|]. split; [apply rewrap_typed; rewrite <- E1; exact Hty1|]. intros _.
        split; [exact E1|]. exists y1. split; [reflexivity|].
        split; [intros Hk; discriminate Hk|intros _; reflexivity].
  - (* inner struct *)
    destruct (copy_kids o {| rty := unptr sft; rval := y1; raddr := a; rro := false |}
                {| rty := unptr dft; rval := deref_dst dft x; raddr := true; rro := false |}
                kids (rval {| rty := unptr dft; rval := deref_dst dft x; raddr := true; rro := false |}))
      as [v1 st1] eqn:Ek.
    cbn [rval] in Ek. inversion Hrun; subst x' stt.
    destruct (Hkids o _ _ _ _ _ _ _ Ho Hctor Hty1 Htx1 Ek) as [Hnp [Htv Hpost]].
    split; [exact Hnp|]. split; [apply rewrap_typed; exact Htv|]. intros Hok.
    unfold field_post. rewrite Hcl, Hsk, Hd. exists v1. split; [reflexivity|]. apply Hpost. exact Hok.
Qed.

(* ------------------------------------------------------------ the loops, one step *)
Lemma copy_kids_cons : forall o s1 d1 cname si di leaf kk rest cur,
  copy_kids o s1 d1 (Node cname si di leaf kk :: rest) cur =
  if in_ignore o cname then copy_kids o s1 d1 rest cur else
  match r_field s1 si, r_field (with_val d1 cur) di with
  | COk cs, COk cd =>
      let '(x, stt) := copy_tree_node o (Node cname si di leaf kk) cs cd in
      let cur' := set_field cur di x in
      match stt with
      | SOk => copy_kids o s1 d1 rest cur'
      | _ => (cur', stt)
      end
  | _, _ => (cur, SPanic)
  end.
Proof. intros; reflexivity. Qed.

(* what the constructor's loop does with one destination field *)
Lemma cfn_loop_step : forall sfs dn dexp dft rest di kids,
  cfn_loop false sfs (field_map sfs 0 []) ((dn, dexp, dft) :: rest) di = COk kids ->
  (* no node for this field *)
  (cfn_loop false sfs (field_map sfs 0 []) rest (S di) = COk kids /\
   (dexp = false \/ assoc_find (field_map sfs 0 []) dn = None \/
    exists si sft, assoc_find (field_map sfs 0 []) dn = Some si /\
      nth_opt sfs si = Some (dn, true, sft) /\
      (is_shadow_kind (kind_of (unptr sft)) || is_atomic_type (unptr sft)) = false /\
      is_struct_kind (unptr sft) = false)) \/
  (* a node *)
  (exists si sft leaf kk ns,
     dexp = true /\ assoc_find (field_map sfs 0 []) dn = Some si /\
     nth_opt sfs si = Some (dn, true, sft) /\
     kids = Node dn si di leaf kk :: ns /\
     cfn_loop false sfs (field_map sfs 0 []) rest (S di) = COk ns /\
     ((leaf = true /\ (is_shadow_kind (kind_of (unptr sft)) || is_atomic_type (unptr sft)) = true) \/
      (leaf = false /\ (is_shadow_kind (kind_of (unptr sft)) || is_atomic_type (unptr sft)) = false /\
       is_struct_kind (unptr sft) = true /\
       create_field_nodes false (unptr sft) (unptr dft) = COk kk))).
Proof.
  intros sfs dn dexp dft rest di kids H.
  cbn [cfn_loop] in H. fold (cfn_loop false sfs (field_map sfs 0 [])) in H.
  destruct dexp; cbn [negb] in H; [|left; split; [exact H|left; reflexivity]].
  destruct (assoc_find (field_map sfs 0 []) dn) as [si|] eqn:Ef;
    [|left; split; [exact H|right; left; reflexivity]].
  destruct (field_map_ok sfs _ _ Ef) as [sft Hn]. rewrite Hn in H.
  destruct (multi_ptr sft); [discriminate H|].
  destruct (multi_ptr dft); [discriminate H|].
  cbv zeta in H.
  destruct (is_shadow_kind (kind_of (unptr sft))) eqn:Esh.
  { destruct (cfn_loop false sfs (field_map sfs 0 []) rest (S di)) as [ns| |] eqn:Er; try discriminate H.
    inversion H; subst kids. right. exists si, sft, true, [], ns.
    repeat split; try reflexivity; try assumption. left. rewrite ?Esh, ?Eat. split; reflexivity. }
  destruct (is_atomic_type (unptr sft)) eqn:Eat.
  { destruct (cfn_loop false sfs (field_map sfs 0 []) rest (S di)) as [ns| |] eqn:Er; try discriminate H.
    inversion H; subst kids. right. exists si, sft, true, [], ns.
    repeat split; try reflexivity; try assumption. left. rewrite ?Esh, ?Eat. split; reflexivity. }
  destruct (is_struct_kind (unptr sft)) eqn:Est.
  - cbn [negb andb] in H.
    destruct (is_struct_kind (unptr dft)); cbn [negb] in H; [|discriminate H].
    destruct (create_field_nodes false (unptr sft) (unptr dft)) as [kk| |] eqn:Ec; try discriminate H.
    destruct (cfn_loop false sfs (field_map sfs 0 []) rest (S di)) as [ns| |] eqn:Er; try discriminate H.
    inversion H; subst kids. right. exists si, sft, false, kk, ns.
    repeat split; try reflexivity; try assumption. right. rewrite ?Esh, ?Eat, ?Est. repeat split; try reflexivity; exact Ec.
  - left. split; [exact H|]. right; right. exists si, sft. rewrite ?Esh, ?Eat, ?Est. repeat split; try assumption; reflexivity.
Qed.

(* ------------------------------------------------------------ the whole loop *)
Lemma copy_kids_loop_sound :
  forall o sn sfs svs dname whole sa d0,
  opts_ok o -> flds_typed sfs svs ->
  forall dfs, Forall (fun f : fld => kids_sound (unptr (ftyp f))) dfs ->
  forall pre_fs pre_vs dvs kids v' stt,
    whole = pre_fs ++ dfs ->
    flds_typed pre_fs pre_vs -> flds_typed dfs dvs ->
    cfn_loop false sfs (field_map sfs 0 []) dfs (length pre_fs) = COk kids ->
    copy_kids o {| rty := Struct sn sfs; rval := VStruct svs; raddr := sa; rro := false |}
                {| rty := Struct dname whole; rval := d0; raddr := true; rro := false |}
                kids (VStruct (pre_vs ++ dvs)) = (v', stt) ->
    stt <> SPanic /\
    exists dvs', v' = VStruct (pre_vs ++ dvs') /\ flds_typed dfs dvs' /\
      (stt = SOk -> post_each o sfs (VStruct svs) dfs dvs dvs').
Proof.
  intros o sn sfs svs dname whole sa d0 Ho Hsfs dfs HF.
  induction HF as [|[[dn dexp] dft] rest Hf Hrest IH];
    intros pre_fs pre_vs dvs kids v' stt Hw Hpre Hd Hctor Hrun.
  - inversion Hd; subst. cbn in Hctor. inversion Hctor; subst kids.
    cbn in Hrun. inversion Hrun; subst.
    split; [discriminate|]. exists []. split; [reflexivity|]. split; [constructor|].
    intros _. exact I.
  - inversion Hd as [|f0 x fr xr Hx Hxr]; subst. cbn [ftyp snd] in Hx, Hf.
    assert (Hcont : forall kids' x', has_type dft x' = true ->
              cfn_loop false sfs (field_map sfs 0 []) rest (S (length pre_fs)) = COk kids' ->
              copy_kids o {| rty := Struct sn sfs; rval := VStruct svs; raddr := sa; rro := false |}
                {| rty := Struct dname (pre_fs ++ (dn, dexp, dft) :: rest); rval := d0;
                   raddr := true; rro := false |}
                kids' (VStruct (pre_vs ++ x' :: xr)) = (v', stt) ->
              stt <> SPanic /\
              exists dvs0, v' = VStruct (pre_vs ++ x' :: dvs0) /\ flds_typed rest dvs0 /\
                (stt = SOk -> post_each o sfs (VStruct svs) rest xr dvs0)).
    { intros kids' x' Hx' Hc Hr.
      specialize (IH (pre_fs ++ [(dn, dexp, dft)]) (pre_vs ++ [x']) xr kids' v' stt).
      rewrite app_length in IH. cbn [length] in IH. rewrite Nat.add_1_r in IH.
      rewrite <- !app_assoc in IH. cbn [app] in IH.
      destruct IH as [Hnp [dvs0 [Hv [Ht Hp]]]]; [reflexivity| |exact Hxr|exact Hc|exact Hr|].
      { apply flds_typed_app; [exact Hpre|]. constructor; [exact Hx'|constructor]. }
      split; [exact Hnp|]. exists dvs0. rewrite <- app_assoc in Hv. cbn [app] in Hv.
      split; [exact Hv|]. split; assumption. }
    destruct (cfn_loop_step _ _ _ _ _ _ _ Hctor)
      as [[Hc Hskip]|[si [sft [leaf [kk [ns [Hexp [Hfind [Hnth [Hk [Hc Hcls]]]]]]]]]]].
    + destruct (Hcont kids x Hx Hc Hrun) as [Hnp [dvs0 [Hv [Ht Hp]]]].
      split; [exact Hnp|]. exists (x :: dvs0). split; [exact Hv|].
      split; [constructor; assumption|].
      intros Hok. cbn [post_each]. split; [|apply Hp; exact Hok].
      destruct Hskip as [He|[Hn|[si [sft [Hfind [Hnth [Hcl Hsk]]]]]]].
      * subst dexp. reflexivity.
      * rewrite Hn. destruct (dexp && negb (in_ignore o dn)); reflexivity.
      * destruct (dexp && negb (in_ignore o dn)); [|reflexivity]. rewrite Hfind, Hnth.
        destruct (flds_typed_nth _ _ _ _ _ _ Hsfs Hnth) as [y [Hy Hty]].
        cbn [sfield]. rewrite Hy. unfold field_post. rewrite Hcl, Hsk. reflexivity.
    + subst dexp kids. rewrite copy_kids_cons in Hrun.
      destruct (in_ignore o dn) eqn:Eig.
      * destruct (Hcont ns x Hx Hc Hrun) as [Hnp [dvs0 [Hv [Ht Hp]]]].
        split; [exact Hnp|]. exists (x :: dvs0). split; [exact Hv|].
        split; [constructor; assumption|].
        intros Hok. cbn [post_each]. rewrite Eig. cbn [negb andb].
        split; [reflexivity|apply Hp; exact Hok].
      * destruct (flds_typed_nth _ _ _ _ _ _ Hsfs Hnth) as [y [Hy Hty]].
        assert (Hlen : length pre_fs = length pre_vs) by (apply flds_typed_length; exact Hpre).
        assert (Hrs : r_field {| rty := Struct sn sfs; rval := VStruct svs; raddr := sa; rro := false |} si
                      = COk {| rty := sft; rval := y; raddr := sa; rro := false |}).
        { unfold r_field. simpl. rewrite Hnth, Hy. reflexivity. }
        assert (Hrd : r_field (with_val {| rty := Struct dname (pre_fs ++ (dn, true, dft) :: rest);
                                           rval := d0; raddr := true; rro := false |}
                                        (VStruct (pre_vs ++ x :: xr))) (length pre_fs)
                      = COk {| rty := dft; rval := x; raddr := true; rro := false |}).
        { unfold r_field, with_val. simpl. rewrite nth_opt_app_0.
          rewrite Hlen, nth_opt_app_0. reflexivity. }
        rewrite Hrs, Hrd in Hrun.
        destruct (copy_tree_node o (Node dn si (length pre_fs) leaf kk)
                    {| rty := sft; rval := y; raddr := sa; rro := false |}
                    {| rty := dft; rval := x; raddr := true; rro := false |}) as [x' st1] eqn:En.
        assert (Hcls' :
          (leaf = true /\ (is_shadow_kind (kind_of (unptr sft)) || is_atomic_type (unptr sft)) = true) \/
          (leaf = false /\ (is_shadow_kind (kind_of (unptr sft)) || is_atomic_type (unptr sft)) = false /\
           is_struct_kind (unptr sft) = true /\
           create_field_nodes false (unptr sft) (unptr dft) = COk kk /\ kids_sound (unptr dft))).
        { destruct Hcls as [H1|[H1 [H2 [H3 H4]]]]; [left; exact H1|].
          right. split; [exact H1|]. split; [exact H2|]. split; [exact H3|]. split; [exact H4|exact Hf]. }
        destruct (ctn_sound _ _ _ _ _ _ _ _ _ _ _ _ _ Ho Hcls' Hty Hx En) as [Hnp1 [Htx' Hfp]].
        cbv zeta in Hrun. cbn [set_field] in Hrun. rewrite Hlen, set_nth_app_0 in Hrun.
        destruct st1 as [|e|].
        -- destruct (Hcont ns x' Htx' Hc Hrun) as [Hnp [dvs0 [Hv [Ht Hp]]]].
           split; [exact Hnp|]. exists (x' :: dvs0). split; [exact Hv|].
           split; [constructor; assumption|].
           intros Hok. cbn [post_each]. rewrite Eig. cbn [negb andb]. rewrite Hfind, Hnth.
           cbn [sfield]. rewrite Hy. split; [apply Hfp; reflexivity|apply Hp; exact Hok].
        -- inversion Hrun; subst. split; [discriminate|]. exists (x' :: xr).
           split; [reflexivity|]. split; [constructor; assumption|]. intros Hk; discriminate Hk.
        -- exfalso. apply Hnp1. reflexivity.
Qed.

(* ------------------------------------------------------------ every destination type *)
Lemma cfn_loop_nomap : forall sfs dfs di kids,
  (forall n, assoc_find (field_map sfs 0 []) n = None) ->
  cfn_loop false sfs (field_map sfs 0 []) dfs di = COk kids -> kids = [].
Proof.
  intros sfs dfs; induction dfs as [|[[dn dexp] dft] rest IH]; intros di kids Hno H.
  - cbn in H. inversion H. reflexivity.
  - cbn [cfn_loop] in H. rewrite Hno in H. destruct dexp; cbn [negb] in H; eapply IH; eassumption.
Qed.

Lemma post_each_nomap : forall o sfs sv dfs dvs,
  (forall n, assoc_find (field_map sfs 0 []) n = None) ->
  flds_typed dfs dvs -> post_each o sfs sv dfs dvs dvs.
Proof.
  intros o sfs sv dfs dvs Hno H. induction H as [|[[dn dexp] dft] x fr xr Hf Hr IH].
  - exact I.
  - cbn [post_each]. rewrite Hno. split; [|exact IH].
    destruct (dexp && negb (in_ignore o dn)); reflexivity.
Qed.

Lemma kids_sound_nonstruct : forall dt,
  (forall st, create_field_nodes false st dt = CPanic \/
              exists e, create_field_nodes false st dt = CErr e) ->
  kids_sound dt.
Proof.
  intros dt H o st kids sv dv sa v' stt _ Hc.
  destruct (H st) as [E|[e E]]; rewrite E in Hc; discriminate Hc.
Qed.

Lemma cfn_nonstruct : forall st dt,
  match dt with Struct _ _ | Atomic => False | _ => True end ->
  create_field_nodes false st dt = CPanic \/ exists e, create_field_nodes false st dt = CErr e.
Proof.
  intros st dt H. destruct dt; try contradiction; destruct st; cbn;
    first [left; reflexivity | right; eexists; reflexivity].
Qed.

Lemma kids_sound_all : forall dt, kids_sound dt /\ kids_sound (unptr dt).
Proof.
  induction dt as [k|n k|n fs IH|t IH|t IH|k v IHk IHv| |k i] using ty_ind';
    try (split; apply kids_sound_nonstruct; intros st; apply cfn_nonstruct; exact I).
  - assert (H : kids_sound (Struct n fs)).
    { assert (HF : Forall (fun f : fld => kids_sound (unptr (ftyp f))) fs).
      { eapply Forall_impl; [|exact IH]. intros f [_ Hf]. exact Hf. }
      intros o st kids sv dv sa v' stt Ho Hc Hts Htd Hrun.
      rewrite cfn_struct in Hc.
      destruct dv as [z|s|dvs|p|s|m|z]; cbn in Htd; try discriminate Htd.
      rewrite <- has_type_struct with (n := n) in Htd. rewrite has_type_struct in Htd.
      apply has_types_iff in Htd.
      destruct st as [k|sn k|sn sfs|t|t|k v| |k i]; cbn [fields_of] in Hc; try discriminate Hc.
      - (* struct source *)
        destruct sv as [z|s|svs|p|s|m|z]; cbn in Hts; try discriminate Hts.
        rewrite <- has_type_struct with (n := sn) in Hts. rewrite has_type_struct in Hts.
        apply has_types_iff in Hts.
        destruct (copy_kids_loop_sound o sn sfs svs n fs sa (VStruct dvs) Ho Hts fs HF
                    [] [] dvs kids v' stt eq_refl (Forall2_nil _) Htd Hc Hrun)
          as [Hnp [dvs' [Hv [Ht Hp]]]].
        cbn [app] in Hv. subst v'.
        split; [exact Hnp|]. split.
        + rewrite has_type_struct. apply has_types_iff. exact Ht.
        + intros Hok. rewrite post_struct with (sfs := sfs); [|reflexivity]. apply Hp. exact Hok.
      - (* time.Time as the source: no exported field *)
        assert (Hno : forall n, assoc_find (field_map atomic_fields 0 []) n = None)
          by (intros; reflexivity).
        apply cfn_loop_nomap in Hc; [|exact Hno]. subst kids.
        cbn in Hrun. inversion Hrun; subst v' stt.
        split; [discriminate|]. split.
        + rewrite has_type_struct. apply has_types_iff. exact Htd.
        + intros _. rewrite post_struct with (sfs := atomic_fields); [|reflexivity].
          apply post_each_nomap; assumption. }
    split; exact H.
  - split; [|apply IH].
    apply kids_sound_nonstruct; intros st; apply cfn_nonstruct; exact I.
  - assert (H : kids_sound Atomic).
    { intros o st kids sv dv sa v' stt Ho Hc Hts Htd Hrun.
      rewrite cfn_atomic in Hc. destruct (fields_of st) as [sfs| |] eqn:Ef; try discriminate Hc.
      inversion Hc; subst kids. cbn in Hrun. inversion Hrun; subst v' stt.
      split; [discriminate|]. split; [exact Htd|]. intros _.
      cbn [post]. rewrite Ef. reflexivity. }
    split; exact H.
Qed.

(* ------------------------------------------------------------ options plumbing *)
Definition opt_ok (p : opt) : Prop :=
  match p with OConvert _ (Some c) => conv_ok c | _ => True end.

Lemma assoc_find_Forall : forall {A} (P : A -> Prop) (l : list (Z * A)) n a,
  Forall (fun kc => P (snd kc)) l -> assoc_find l n = Some a -> P a.
Proof.
  intros A P l n a H. induction H as [|[k c] r Hc Hr IH]; intros Hf; cbn in Hf; [discriminate Hf|].
  destruct (Z.eqb k n); [inversion Hf; subst; exact Hc|apply IH; exact Hf].
Qed.

Definition convs_ok (o : options) : Prop :=
  match o_conv o with None => True | Some l => Forall (fun kc : Z * conv => conv_ok (snd kc)) l end.

Lemma convs_ok_opts_ok : forall o, convs_ok o -> opts_ok o.
Proof.
  intros o H n c Hf. unfold find_conv in Hf. unfold convs_ok in H.
  destruct (o_conv o) as [l|]; [|discriminate Hf].
  exact (assoc_find_Forall conv_ok l n c H Hf).
Qed.

Lemma apply_opt_convs_ok : forall o p, convs_ok o -> opt_ok p -> convs_ok (apply_opt o p).
Proof.
  intros o p Ho Hp. destruct p as [names|name [c|]]; cbn [apply_opt].
  - destruct names; [exact Ho|]. exact Ho.
  - destruct (Z.eqb name 0); [exact Ho|]. unfold convs_ok in *. cbn [o_conv].
    constructor; [exact Hp|]. destruct (o_conv o); [exact Ho|constructor].
  - exact Ho.
Qed.

Lemma apply_opts_convs_ok : forall ps o, convs_ok o -> Forall opt_ok ps -> convs_ok (apply_opts o ps).
Proof.
  induction ps as [|p r IH]; intros o Ho H; [exact Ho|].
  inversion H; subst. unfold apply_opts. cbn [fold_left]. apply IH; [|assumption].
  apply apply_opt_convs_ok; assumption.
Qed.

Lemma fold_right_cons_id : forall {A} (l : list A), fold_right (fun x acc => x :: acc) [] l = l.
Proof. intros A l; induction l as [|a l IH]; cbn; [reflexivity|rewrite IH; reflexivity]. Qed.

Lemma fold_left_cons_rev : forall {A} (l acc : list A),
  fold_left (fun acc n => n :: acc) l acc = rev l ++ acc.
Proof.
  intros A l; induction l as [|a l IH]; intros acc; cbn; [reflexivity|].
  rewrite IH, <- app_assoc. reflexivity.
Qed.

(* the per-call copy of the defaults behaves exactly like the defaults *)
Lemma find_conv_copy_default : forall o n, find_conv (copy_default_options o) n = find_conv o n.
Proof.
  intros o n. unfold find_conv, copy_default_options. cbn [o_conv].
  destruct (o_conv o) as [[|kc l]|]; try reflexivity. rewrite fold_right_cons_id. reflexivity.
Qed.

Lemma in_ignore_copy_default : forall o n, in_ignore (copy_default_options o) n = in_ignore o n.
Proof.
  intros o n. unfold in_ignore, copy_default_options. cbn [o_ignore].
  destruct (o_ignore o) as [l|]; [|reflexivity].
  rewrite fold_left_cons_rev, app_nil_r.
  destruct (existsb (Z.eqb n) l) eqn:E.
  - apply existsb_exists in E as [x [Hin Hx]]. apply existsb_exists. exists x.
    split; [apply in_rev; rewrite rev_involutive; exact Hin|exact Hx].
  - destruct (existsb (Z.eqb n) (rev l)) eqn:E'; [|reflexivity].
    apply existsb_exists in E' as [x [Hin Hx]]. apply in_rev in Hin.
    assert (existsb (Z.eqb n) l = true) by (apply existsb_exists; exists x; split; assumption).
    congruence.
Qed.

Lemma copy_default_convs_ok : forall o, convs_ok o -> convs_ok (copy_default_options o).
Proof.
  intros o H. unfold convs_ok, copy_default_options in *. cbn [o_conv].
  destruct (o_conv o) as [[|kc l]|]; try exact I. rewrite fold_right_cons_id. exact H.
Qed.

Definition effective_options (c : copier) (ps : list opt) : options :=
  apply_opts (copy_default_options (c_defaults c)) ps.

(* ------------------------------------------------------------ CopyTo / Copy *)
Lemma reflect_copy_to_sound : forall st dt ps c src dv cps r stt,
  new_reflect_copier st dt ps = COk c ->
  Forall opt_ok ps -> Forall opt_ok cps ->
  match src with None => True | Some sv => has_type st sv = true end ->
  has_type dt dv = true ->
  reflect_copy_to c st dt src (Some dv) cps = (r, stt) ->
  stt <> SPanic /\
  exists dv', r = Some dv' /\ has_type dt dv' = true /\
    (stt = SOk ->
     match src with
     | None => dv' = dv
     | Some sv => post (effective_options c cps) st sv dt dv dv'
     end).
Proof.
  intros st dt ps c src dv cps r stt Hnew Hps Hcps Hsrc Hdv Hrun.
  unfold new_reflect_copier, new_reflect_copier_gen in Hnew.
  destruct (is_struct_kind st); cbn [negb] in Hnew; [|discriminate Hnew].
  destruct (is_struct_kind dt); cbn [negb] in Hnew; [|discriminate Hnew].
  destruct (create_field_nodes false st dt) as [kids| |] eqn:Hc; try discriminate Hnew.
  inversion Hnew; subst c. clear Hnew.
  unfold reflect_copy_to, reflect_copy_to_gen in Hrun.
  change (copy_tree_node_gen true) with copy_tree_node in Hrun. cbn [c_root c_defaults] in Hrun.
  fold (effective_options {| c_root := Node 0 0 0 false kids; c_defaults := apply_opts new_options ps |} cps) in Hrun.
  set (o := effective_options _ cps) in *.
  assert (Ho : opts_ok o).
  { apply convs_ok_opts_ok. unfold o, effective_options. cbn [c_defaults].
    apply apply_opts_convs_ok; [|exact Hcps]. apply copy_default_convs_ok.
    apply apply_opts_convs_ok; [exact I|exact Hps]. }
  rewrite ctn_unfold in Hrun.
  destruct src as [sv|].
  - cbn [src_unwrap dst_unwrap rty rval rro raddr] in Hrun.
    change (apply_opts (copy_default_options (apply_opts new_options ps)) cps) with o in Hrun.
    destruct (copy_kids o {| rty := st; rval := sv; raddr := true; rro := false |}
                {| rty := dt; rval := dv; raddr := true; rro := false |} kids dv) as [v' st1] eqn:Ek.
    cbn [rewrap] in Hrun. inversion Hrun; subst r stt.
    destruct (proj1 (kids_sound_all dt) o st kids sv dv true v' st1 Ho Hc Hsrc Hdv Ek) as [Hnp [Ht Hp]].
    split; [exact Hnp|]. exists v'. split; [reflexivity|]. split; [exact Ht|exact Hp].
  - cbn in Hrun. inversion Hrun; subst r stt.
    split; [discriminate|]. exists dv. split; [reflexivity|]. split; [exact Hdv|]. intros _; reflexivity.
Qed.

Lemma copy_total_lemma : forall st dt ps c src dv cps,
  new_reflect_copier st dt ps = COk c ->
  Forall opt_ok ps -> Forall opt_ok cps ->
  match src with None => True | Some sv => has_type st sv = true end ->
  has_type dt dv = true ->
  snd (reflect_copy_to c st dt src (Some dv) cps) <> SPanic /\
  snd (reflect_copy c st dt src cps) <> SPanic.
Proof.
  intros st dt ps c src dv cps Hnew Hps Hcps Hsrc Hdv. split.
  - destruct (reflect_copy_to c st dt src (Some dv) cps) as [r stt] eqn:E.
    exact (proj1 (reflect_copy_to_sound _ _ _ _ _ _ _ _ _ Hnew Hps Hcps Hsrc Hdv E)).
  - unfold reflect_copy.
    destruct (reflect_copy_to c st dt src (Some (zero_value dt)) cps) as [r stt] eqn:E.
    exact (proj1 (reflect_copy_to_sound _ _ _ _ _ _ _ _ _ Hnew Hps Hcps Hsrc (has_type_zero dt) E)).
Qed.

Lemma copy_spec_lemma : forall st dt ps c sv dv cps r,
  new_reflect_copier st dt ps = COk c ->
  Forall opt_ok ps -> Forall opt_ok cps ->
  has_type st sv = true -> has_type dt dv = true ->
  reflect_copy_to c st dt (Some sv) (Some dv) cps = (r, SOk) ->
  exists dv', r = Some dv' /\ has_type dt dv' = true /\
              post (effective_options c cps) st sv dt dv dv'.
Proof.
  intros st dt ps c sv dv cps r Hnew Hps Hcps Hsv Hdv Hrun.
  destruct (reflect_copy_to_sound _ _ _ _ (Some sv) _ _ _ _ Hnew Hps Hcps Hsv Hdv Hrun)
    as [_ [dv' [Hr [Ht Hp]]]].
  exists dv'. split; [exact Hr|]. split; [exact Ht|]. apply Hp. reflexivity.
Qed.

Lemma copy_nil_src_lemma : forall st dt ps c dv cps,
  new_reflect_copier st dt ps = COk c ->
  reflect_copy_to c st dt None (Some dv) cps = (Some dv, SOk).
Proof.
  intros st dt ps c dv cps Hnew.
  unfold new_reflect_copier, new_reflect_copier_gen in Hnew.
  destruct (is_struct_kind st); cbn [negb] in Hnew; [|discriminate Hnew].
  destruct (is_struct_kind dt); cbn [negb] in Hnew; [|discriminate Hnew].
  destruct (create_field_nodes false st dt) as [kids| |]; try discriminate Hnew.
  inversion Hnew; subst c. reflexivity.
Qed.

(* a nil destination pointer: Set on the unaddressable reflect.ValueOf(dst) *)
Lemma copyto_nil_dst_panics_lemma : forall st dt ps c sv cps,
  new_reflect_copier st dt ps = COk c ->
  snd (reflect_copy_to c st dt (Some sv) None cps) = SPanic.
Proof.
  intros st dt ps c sv cps Hnew.
  unfold new_reflect_copier, new_reflect_copier_gen in Hnew.
  destruct (is_struct_kind st); cbn [negb] in Hnew; [|discriminate Hnew].
  destruct (is_struct_kind dt); cbn [negb] in Hnew; [|discriminate Hnew].
  destruct (create_field_nodes false st dt) as [kids| |]; try discriminate Hnew.
  inversion Hnew; subst c. reflexivity.
Qed.

(* the zero-skip: a zero-valued source field does not overwrite a non-fresh destination *)
Lemma copyto_zero_skip_refuted_lemma :
  exists st dt c sv dv dv',
    new_reflect_copier st dt [] = COk c /\
    has_type st sv = true /\ has_type dt dv = true /\
    reflect_copy_to c st dt (Some sv) (Some dv) [] = (Some dv', SOk) /\
    st = dt /\                               (* same struct type: every field matches *)
    sfield sv 0 = Some (VNum 0) /\           (* the source's value of field F1 *)
    sfield dv' 0 = Some (VNum 5).            (* ... is not what the destination holds *)
Proof.
  exists (Struct None [(1, true, Basic KInt)]), (Struct None [(1, true, Basic KInt)]).
  eexists. exists (VStruct [VNum 0]), (VStruct [VNum 5]), (VStruct [VNum 5]).
  repeat split; vm_compute; reflexivity.
Qed.
