(* Proofs about CopierModel (C20), part 2: the tree-driven copy is total and meets `post`. *)
From Ekit Require Import Common CopierModel CopierProof.
From Coq Require Import ZifyBool.

(* ------------------------------------------------------------ typing *)
Definition has_types : list (Z * bool * ty) -> list value -> bool :=
  fix go (l : list (Z * bool * ty)) (xs : list value) {struct l} : bool :=
    match l, xs with
    | [], [] => true
    | (_, _, ft) :: r, x :: xr => has_type ft x && go r xr
    | _, _ => false
    end.

Lemma has_type_struct : forall n fs vs, has_type (Struct n fs) (VStruct vs) = has_types fs vs.
Proof. reflexivity. Qed.

Definition flds_typed (fs : list fld) (vs : list value) : Prop :=
  Forall2 (fun (f : fld) v => has_type (ftyp f) v = true) fs vs.

Lemma has_types_iff : forall fs vs, has_types fs vs = true <-> flds_typed fs vs.
Proof.
  induction fs as [|[[n e] t] r IH]; intros vs; destruct vs as [|x xr]; cbn [has_types]; split; intros H.
  - constructor.
  - reflexivity.
  - discriminate H.
  - inversion H.
  - discriminate H.
  - inversion H.
  - apply andb_prop in H as [H1 H2]. constructor; [exact H1|apply IH; exact H2].
  - inversion H as [|f v fr vr Hf Hr]; subst. cbn [ftyp snd] in Hf. rewrite Hf. cbn.
    apply IH. exact Hr.
Qed.

Definition zero_values : list (Z * bool * ty) -> list value :=
  fix go (l : list (Z * bool * ty)) : list value :=
    match l with [] => [] | (_, _, ft) :: r => zero_value ft :: go r end.

Lemma zero_value_struct : forall n fs, zero_value (Struct n fs) = VStruct (zero_values fs).
Proof. reflexivity. Qed.

Lemma has_type_zero : forall t, has_type t (zero_value t) = true.
Proof.
  induction t as [k|n k|n fs IH|t IH|t IH|k v IHk IHv| |k i] using ty_ind'; try reflexivity.
  - cbn. destruct (is_string_kind k); reflexivity.
  - cbn. destruct (is_string_kind k); reflexivity.
  - rewrite zero_value_struct, has_type_struct.
    induction IH as [|[[fn fe] ft] r Hf Hr IHr]; [reflexivity|].
    cbn [zero_values has_types]. cbn [ftyp snd] in Hf. rewrite Hf. exact IHr.
Qed.

Lemma flds_typed_nth : forall fs vs i n e t,
  flds_typed fs vs -> nth_opt fs i = Some (n, e, t) ->
  exists x, nth_opt vs i = Some x /\ has_type t x = true.
Proof.
  intros fs vs i n e t H. revert i. induction H as [|f v fr vr Hf Hr IH]; intros i Hn.
  - destruct i; discriminate Hn.
  - destruct i; cbn in Hn |- *.
    + inversion Hn; subst. exists v. split; [reflexivity|exact Hf].
    + apply IH. exact Hn.
Qed.

Lemma flds_typed_app : forall a b va vb,
  flds_typed a va -> flds_typed b vb -> flds_typed (a ++ b) (va ++ vb).
Proof. intros. apply Forall2_app; assumption. Qed.

Lemma flds_typed_length : forall fs vs, flds_typed fs vs -> length fs = length vs.
Proof. intros fs vs H. induction H as [|f v fr vr Hf Hr IH]; cbn; [reflexivity|rewrite IH; reflexivity]. Qed.

(* ------------------------------------------------------------ unfolding copy_tree_node *)
Definition src_unwrap (s : rv) : cres (option rv) :=
  match rty s with
  | Ptr et =>
      match rval s with
      | VPtr None => COk None
      | VPtr (Some x) => COk (Some {| rty := et; rval := x; raddr := true; rro := rro s |})
      | _ => CPanic
      end
  | _ => COk (Some s)
  end.

Definition dst_unwrap (d : rv) : cres (rv * bool) :=
  match rty d with
  | Ptr et =>
      match rval d with
      | VPtr None =>
          if can_set d
          then COk ({| rty := et; rval := zero_value et; raddr := true; rro := rro d |}, true)
          else CPanic
      | VPtr (Some x) => COk ({| rty := et; rval := x; raddr := true; rro := rro d |}, true)
      | _ => CPanic
      end
  | _ => COk (d, false)
  end.

Definition copy_leaf (o : options) (name : Z) (s s1 d d1 : rv) (p : bool) : value * status :=
  if negb (can_set d1) then (rewrap p (rval d1), SOk) else
  match find_conv o name with
  | None =>
      if negb (ty_eqb (rty s1) (rty d1)) then (rewrap p (rval d1), SErr CType)
      else if is_zero (rval s1) then (rewrap p (rval d1), SOk)
      else if rro s1 then (rewrap p (rval d1), SPanic)
      else (rewrap p (rval s1), SOk)
  | Some c =>
      if negb (can_set d) then (rewrap p (rval d1), SOk)
      else if rro s then (rewrap p (rval d1), SPanic)
      else match apply_conv c (rty s) (rval s) with
           | CPanic => (rewrap p (rval d1), SPanic)
           | CErr e => (rewrap p (rval d1), SErr e)
           | COk r =>
               if negb (ty_eqb (cv_dst c) (rty d)) then (rewrap p (rval d1), SErr CType)
               else (r, SOk)
           end
  end.

Definition copy_kids (o : options) (s1 d1 : rv) : list node -> value -> value * status :=
  fix loop (ks : list node) (cur : value) {struct ks} : value * status :=
    match ks with
    | [] => (cur, SOk)
    | k :: rest =>
      match k with
      | Node cname si di _ _ =>
        if in_ignore o cname then loop rest cur else
        match r_field s1 si, r_field (with_val d1 cur) di with
        | COk cs, COk cd =>
            let '(x, stt) := copy_tree_node o k cs cd in
            let cur' := set_field cur di x in
            match stt with
            | SOk => loop rest cur'
            | _ => (cur', stt)
            end
        | _, _ => (cur, SPanic)
        end
      end
    end.

Lemma ctn_unfold : forall o name si di leaf kids s d,
  copy_tree_node o (Node name si di leaf kids) s d =
  match src_unwrap s with
  | CPanic => (rval d, SPanic)
  | CErr e => (rval d, SErr e)
  | COk None => (rval d, SOk)
  | COk (Some s1) =>
    match dst_unwrap d with
    | CPanic => (rval d, SPanic)
    | CErr e => (rval d, SErr e)
    | COk (d1, p) =>
      if leaf then copy_leaf o name s s1 d d1 p
      else let '(v', stt) := copy_kids o s1 d1 kids (rval d1) in (rewrap p v', stt)
    end
  end.
Proof. intros; reflexivity. Qed.

(* ------------------------------------------------------------ hypotheses on converters *)
(* Go's type system: Convert returns a value of the converter's Dst type *)
Definition conv_ok (c : conv) : Prop :=
  forall v r, cv_fun c v = Some r -> has_type (cv_dst c) r = true.
Definition opts_ok (o : options) : Prop :=
  forall n c, find_conv o n = Some c -> conv_ok c.

(* ------------------------------------------------------------ pointer unwrapping *)
Lemma src_unwrap_typed : forall sft y sa,
  has_type sft y = true ->
  (deref sft y = None /\
   src_unwrap {| rty := sft; rval := y; raddr := sa; rro := false |} = COk None) \/
  (exists y1 a, deref sft y = Some y1 /\
   src_unwrap {| rty := sft; rval := y; raddr := sa; rro := false |} =
     COk (Some {| rty := unptr sft; rval := y1; raddr := a; rro := false |}) /\
   has_type (unptr sft) y1 = true).
Proof.
  intros sft y sa Ht.
  destruct sft as [k|n k|n fs|e|e|k v| |k i];
    try (right; exists y, sa; split; [reflexivity|split; [reflexivity|exact Ht]]).
  destruct y as [z|s|fs|[p|]|s|m|z]; cbn in Ht; try discriminate Ht.
  - right. exists p, true. split; [reflexivity|split; [reflexivity|exact Ht]].
  - left. split; reflexivity.
Qed.

Lemma dst_unwrap_typed : forall dft x,
  has_type dft x = true ->
  dst_unwrap {| rty := dft; rval := x; raddr := true; rro := false |} =
    COk ({| rty := unptr dft; rval := deref_dst dft x; raddr := true; rro := false |},
         is_ptr_kind dft) /\
  has_type (unptr dft) (deref_dst dft x) = true.
Proof.
  intros dft x Ht.
  destruct dft as [k|n k|n fs|e|e|k v| |k i];
    try (split; [reflexivity|exact Ht]).
  destruct x as [z|s|fs|[p|]|s|m|z]; cbn in Ht; try discriminate Ht.
  - split; [reflexivity|exact Ht].
  - split; [reflexivity|]. cbn. apply has_type_zero.
Qed.

Lemma rewrap_typed : forall dft z,
  has_type (unptr dft) z = true -> has_type dft (rewrap (is_ptr_kind dft) z) = true.
Proof. intros dft z H. destruct dft; cbn in *; exact H. Qed.

Lemma zero_unique_leaf : forall t v,
  (is_shadow_kind (kind_of t) || is_atomic_type t) = true ->
  has_type t v = true -> is_zero v = true -> v = zero_value t.
Proof.
  intros t v Hl Ht Hz.
  destruct t as [k|n k|n fs|e|e|k e| |k i]; cbn in Hl; try discriminate Hl;
    destruct v as [z|s|fs'|[p|]|[s|]|[m|]|z]; cbn in Ht; try discriminate Ht;
    cbn in Hz; try discriminate Hz; cbn.
  - apply Z.eqb_eq in Hz. subst. destruct (is_string_kind k); [discriminate Ht|reflexivity].
  - destruct s; [|discriminate Hz]. rewrite Ht. reflexivity.
  - apply Z.eqb_eq in Hz. subst. destruct (is_string_kind k); [discriminate Ht|reflexivity].
  - destruct s; [|discriminate Hz]. rewrite Ht. reflexivity.
  - reflexivity.
  - reflexivity.
  - apply Z.eqb_eq in Hz. subst. reflexivity.
  - apply Z.eqb_eq in Hz. subst. reflexivity.
Qed.

(* ------------------------------------------------------------ one node *)
Definition kids_sound (dt : ty) : Prop :=
  forall o st kids sv dv sa v' stt,
    opts_ok o ->
    create_field_nodes false st dt = COk kids ->
    has_type st sv = true -> has_type dt dv = true ->
    copy_kids o {| rty := st; rval := sv; raddr := sa; rro := false |}
                {| rty := dt; rval := dv; raddr := true; rro := false |} kids dv = (v', stt) ->
    stt <> SPanic /\ has_type dt v' = true /\ (stt = SOk -> post o st sv dt dv v').

Lemma ctn_sound : forall o dn si di leaf kids sft dft y x sa x' stt,
  opts_ok o ->
  ((leaf = true /\ (is_shadow_kind (kind_of (unptr sft)) || is_atomic_type (unptr sft)) = true) \/
   (leaf = false /\ (is_shadow_kind (kind_of (unptr sft)) || is_atomic_type (unptr sft)) = false /\
    is_struct_kind (unptr sft) = true /\
    create_field_nodes false (unptr sft) (unptr dft) = COk kids /\ kids_sound (unptr dft))) ->
  has_type sft y = true -> has_type dft x = true ->
  copy_tree_node o (Node dn si di leaf kids)
    {| rty := sft; rval := y; raddr := sa; rro := false |}
    {| rty := dft; rval := x; raddr := true; rro := false |} = (x', stt) ->
  stt <> SPanic /\ has_type dft x' = true /\
  (stt = SOk ->
   field_post o dn sft y dft x x' (fun y1 x1 x1' => post o (unptr sft) y1 (unptr dft) x1 x1')).
Proof.
  intros o dn si di leaf kids sft dft y x sa x' stt Ho Hcls Hty Htx Hrun.
  rewrite ctn_unfold in Hrun.
  destruct (src_unwrap_typed sft y sa Hty) as [[Hd Hs]|[y1 [a [Hd [Hs Hty1]]]]]; rewrite Hs in Hrun.
  { (* nil source pointer *)
    cbn [rval] in Hrun. inversion Hrun; subst x' stt.
    split; [discriminate|]. split; [exact Htx|]. intros _.
    unfold field_post. rewrite Hd.
    destruct (is_shadow_kind (kind_of (unptr sft)) || is_atomic_type (unptr sft)); [reflexivity|].
    destruct (is_struct_kind (unptr sft)); reflexivity. }
  destruct (dst_unwrap_typed dft x Htx) as [Hdu Htx1]. rewrite Hdu in Hrun.
  destruct Hcls as [[Hleaf Hcl]|[Hleaf [Hcl [Hsk [Hctor Hkids]]]]]; subst leaf.
  - (* leaf *)
    unfold copy_leaf in Hrun. cbn [can_set raddr rro rval rty negb andb] in Hrun.
    unfold field_post. rewrite Hcl, Hd.
    destruct (find_conv o dn) as [c|] eqn:Ec.
    + unfold apply_conv in Hrun.
      destruct (ty_eqb sft (cv_src c)) eqn:E1; cbn [negb] in Hrun.
      2:{ inversion Hrun; subst. split; [discriminate|]. split; [apply rewrap_typed; exact Htx1|].
          intros Hk; discriminate Hk. }
      destruct (cv_fun c y) as [r|] eqn:E2.
      2:{ inversion Hrun; subst. split; [discriminate|]. split; [apply rewrap_typed; exact Htx1|].
          intros Hk; discriminate Hk. }
      destruct (ty_eqb (cv_dst c) dft) eqn:E3; cbn [negb] in Hrun.
      2:{ inversion Hrun; subst. split; [discriminate|]. split; [apply rewrap_typed; exact Htx1|].
          intros Hk; discriminate Hk. }
      inversion Hrun; subst x' stt.
      apply ty_eqb_eq in E1. apply ty_eqb_eq in E3.
      split; [discriminate|]. split.
      * rewrite <- E3. exact (Ho _ _ Ec _ _ E2).
      * intros _. split; [symmetry; exact E1|split; [exact E3|first [exact E2|reflexivity]]].
    + destruct (ty_eqb (unptr sft) (unptr dft)) eqn:E1; cbn [negb] in Hrun.
      2:{ inversion Hrun; subst. split; [discriminate|]. split; [apply rewrap_typed; exact Htx1|].
          intros Hk; discriminate Hk. }
      apply ty_eqb_eq in E1.
      destruct (is_zero y1) eqn:Ez.
      * inversion Hrun; subst x' stt.
        split; [discriminate|]. split; [apply rewrap_typed; exact Htx1|]. intros _.
        split; [exact E1|]. exists (deref_dst dft x). split; [reflexivity|].
        split; [intros _; reflexivity|].
        intros [Hk|Hk]; [discriminate Hk|].
        rewrite Hk, <- E1. symmetry. apply zero_unique_leaf; assumption.
      * inversion Hrun; subst x' stt.
        split; [discriminate|]. split; [apply rewrap_typed; rewrite <- E1; exact Hty1|]. intros _.
        split; [exact E1|]. exists y1. split; [reflexivity|].
        split; [intros Hk; discriminate Hk|intros _; reflexivity].
  - (* inner struct *)
    destruct (copy_kids o {| rty := unptr sft; rval := y1; raddr := a; rro := false |}
                {| rty := unptr dft; rval := deref_dst dft x; raddr := true; rro := false |}
                kids (rval {| rty := unptr dft; rval := deref_dst dft x; raddr := true; rro := false |}))
      as [v1 st1] eqn:Ek.
    cbn [rval] in Ek. inversion Hrun; subst x' stt.
    destruct (Hkids o _ _ _ _ _ _ _ Ho Hctor Hty1 Htx1 Ek) as [Hnp [Htv Hpost]].
    split; [exact Hnp|]. split; [apply rewrap_typed; exact Htv|]. intros Hok.
    unfold field_post. rewrite Hcl, Hsk, Hd. exists v1. split; [reflexivity|]. apply Hpost. exact Hok.
Qed.
