(* C01 / C02 — the clauses of the two tree properties stated for mapx.TreeMap and set.TreeSet
   HISTORIES (lists of tm_op / ts_op of model/TreeMapModel.v), which props/C01.v and props/C02.v
   state for tree.RBTree histories (lists of rb_op) only; plus the Keys[i] <-> Values[i] pairing of
   the multi tree map, and the comparator-call bound of one call on the pointer-level model.

   Part 1  (no comparator law): every TreeMap / TreeSet history is an RBTree history (a TreeMap call
           is zero, one or two RBTree calls), hence props/C02.v transfers: rb_inv, size = card, and
           tm_op_calls / ts_op_calls <= 2 * (2 * log2 (card + 1)), <= 2 * log2 (card + 1) for every
           call that is not a Put of a key that is already there (that one makes two descents).
   Part 2  (no comparator law): one more call after any history on the POINTER-level model
           (RBPtrModel: addNode's descent, findNode) makes at most 2 * log2 (card + 1) comparator calls.
   Part 3  (strict-weak-order laws): after every TreeMap / TreeSet history the in-order contents are
           the abstract map / set, strictly ascending, no duplicate keys; Keys / Values aligned;
           Len = cardinal; failed calls are the identity.
   Part 4  (laws): the multi tree map's Keys[i] <-> Values[i] pairing. *)
From Ekit Require Import Common RBModel TreeMapModel AbsMapModel RBRefine RBRefineSim RBBalance.
From Ekit Require Import DecorSpec DecorModel DecorSpecProof DecorProof RBDecor RBPtrModel RBPtrProof8.
From Coq Require Import Sorted Permutation.

(* ------------------------------------------------------------------ *)
(* Part 1: TreeMap / TreeSet histories are RBTree histories            *)
(* ------------------------------------------------------------------ *)
Lemma rb_final_app : forall cmp a b s, rb_final cmp s (a ++ b) = rb_final cmp (rb_final cmp s a) b.
Proof. intros cmp a b s. unfold rb_final. apply fold_left_app. Qed.

Lemma tm_step_is_rb : forall cmp s o, exists r, fst (tm_step cmp s o) = rb_final cmp s r.
Proof.
  intros cmp s o. destruct o as [k v | k | k | | |]; cbn [tm_step].
  - destruct (rb_step cmp s (OAdd k v)) as [s1 o1] eqn:H1.
    assert (Hs1 : s1 = fst (rb_step cmp s (OAdd k v))) by (rewrite H1; reflexivity).
    destruct o1 as [| v0 | e | | kvs | n]; try (exists [OAdd k v]; cbn [fst]; exact Hs1).
    destruct e; try (exists [OAdd k v]; cbn [fst]; exact Hs1).
    destruct (rb_step cmp s1 (OSet k v)) as [s2 o2] eqn:H2.
    exists [OAdd k v; OSet k v]. unfold rb_final. cbn [fold_left fst]. rewrite <- Hs1, H2. reflexivity.
  - exists []. reflexivity.
  - destruct (rb_step cmp s (ODelete k)) as [s1 o1] eqn:H1. exists [ODelete k].
    unfold rb_final. cbn [fold_left fst]. rewrite H1. reflexivity.
  - exists []. reflexivity.
  - exists []. reflexivity.
  - exists []. reflexivity.
Qed.

Lemma tm_final_is_rb : forall cmp ops s, exists r, tm_final cmp s ops = rb_final cmp s r.
Proof.
  intros cmp ops. induction ops as [|o ops IH]; intro s.
  - exists []. reflexivity.
  - destruct (tm_step_is_rb cmp s o) as (r1 & H1).
    destruct (IH (fst (tm_step cmp s o))) as (r2 & H2).
    exists (r1 ++ r2). rewrite rb_final_app, <- H1. exact H2.
Qed.

Lemma ts_step_is_rb : forall cmp s o, exists r, fst (ts_step cmp s o) = rb_final cmp s r.
Proof.
  intros cmp s o. destruct o as [k | k | k |]; cbn [ts_step fst].
  - apply tm_step_is_rb.
  - apply tm_step_is_rb.
  - exists []. reflexivity.
  - exists []. reflexivity.
Qed.

Lemma ts_final_is_rb : forall cmp ops s, exists r, ts_final cmp s ops = rb_final cmp s r.
Proof.
  intros cmp ops. induction ops as [|o ops IH]; intro s.
  - exists []. reflexivity.
  - destruct (ts_step_is_rb cmp s o) as (r1 & H1).
    destruct (IH (fst (ts_step cmp s o))) as (r2 & H2).
    exists (r1 ++ r2). rewrite rb_final_app, <- H1. exact H2.
Qed.

(* a state reached from the empty tree by RBTree calls: balanced, size = card, logarithmic descents *)
Definition reach_ok (cmp : Z -> Z -> Z) (s : rbtree) : Prop :=
  rb_inv (root s) /\ size s = Z.of_nat (card (root s)) /\
  forall k, (cmp_calls cmp k (root s) <= 2 * Nat.log2 (card (root s) + 1))%nat.

Lemma rb_reach_ok : forall cmp r, reach_ok cmp (rb_final cmp rb_empty r).
Proof.
  intros cmp r. split; [exact (rb_inv_reachable_lemma cmp r)|].
  split; [exact (size_is_card_reachable_lemma cmp r)|].
  intro k. exact (cmp_calls_logarithmic_lemma cmp r k).
Qed.

Lemma tm_reach_ok : forall cmp ops, reach_ok cmp (tm_final cmp rb_empty ops).
Proof. intros cmp ops. destruct (tm_final_is_rb cmp ops rb_empty) as (r & ->). apply rb_reach_ok. Qed.

Lemma ts_reach_ok : forall cmp ops, reach_ok cmp (ts_final cmp rb_empty ops).
Proof. intros cmp ops. destruct (ts_final_is_rb cmp ops rb_empty) as (r & ->). apply rb_reach_ok. Qed.

(* add reports a duplicate exactly when find finds the key (same descent; no comparator law) *)
Lemma ins_dup_iff_find : forall cmp k v t, snd (ins cmp k v t) = Dup <-> find cmp k t <> None.
Proof.
  intros cmp k v t. induction t as [|c l IHl k' v' r IHr]; cbn [ins find].
  - cbn [snd]. split; [discriminate | intro H; contradiction].
  - destruct (cmp k k' <? 0).
    + destruct (ins cmp k v l) as [l' st] eqn:Hl. cbn [snd] in IHl. rewrite <- IHl.
      destruct st as [| | |d]; cbn [snd].
      * split; discriminate.
      * split; reflexivity.
      * destruct c; cbn [snd]; split; discriminate.
      * pose proof (fix_add_left_not_dup c l' k' v' r d) as Hn. split; [intro H; contradiction | discriminate].
    + destruct (0 <? cmp k k').
      * destruct (ins cmp k v r) as [r' st] eqn:Hr. cbn [snd] in IHr. rewrite <- IHr.
        destruct st as [| | |d]; cbn [snd].
        -- split; discriminate.
        -- split; reflexivity.
        -- destruct c; cbn [snd]; split; discriminate.
        -- pose proof (fix_add_right_not_dup c l k' v' r' d) as Hn. split; [intro H; contradiction | discriminate].
      * cbn [snd]. split; [discriminate | reflexivity].
Qed.

Lemma add_none_iff_find : forall cmp k v t, add cmp k v t = None <-> find cmp k t <> None.
Proof.
  intros cmp k v t. rewrite <- (ins_dup_iff_find cmp k v t). unfold add.
  destruct (ins cmp k v t) as [t' st]. cbn [snd]. destruct st; split; try discriminate; reflexivity.
Qed.

(* "Put k is an update" in API terms: Get k finds the key *)
Definition tm_get_finds (cmp : Z -> Z -> Z) (s : rbtree) (k : Z) : bool :=
  match snd (tm_step cmp s (TGet k)) with TVal _ => true | _ => false end.

Lemma tm_get_finds_find : forall cmp s k, tm_get_finds cmp s k = false <-> find cmp k (root s) = None.
Proof.
  intros cmp s k. unfold tm_get_finds. cbn [tm_step rb_step snd].
  destruct (find cmp k (root s)); split; try discriminate; reflexivity.
Qed.

Lemma tm_op_calls_bound : forall cmp s o, reach_ok cmp s ->
  let b := (2 * Nat.log2 (card (root s) + 1))%nat in
  (tm_op_calls cmp s o <= 2 * b)%nat /\
  ((forall k v, o = TPut k v -> tm_get_finds cmp s k = false) -> (tm_op_calls cmp s o <= b)%nat).
Proof.
  intros cmp s o (_ & _ & Hc) b. subst b.
  destruct o as [k v | k | k | | |]; cbn [tm_op_calls]; try (split; [|intros _]; lia);
    try (pose proof (Hc k) as Hk; split; [|intros _]; lia).
  pose proof (Hc k) as Hk. split.
  - destruct (add cmp k v (root s)); lia.
  - intro Hnot. specialize (Hnot k v eq_refl). apply tm_get_finds_find in Hnot.
    destruct (add cmp k v (root s)) eqn:Ha; [lia|].
    apply add_none_iff_find in Ha. contradiction.
Qed.

Lemma tm_op_calls_logarithmic_lemma : forall cmp ops o,
  let s := tm_final cmp rb_empty ops in
  let n := card (root s) in
  (tm_op_calls cmp s o <= 2 * (2 * Nat.log2 (n + 1)))%nat /\
  ((forall k v, o = TPut k v -> tm_get_finds cmp s k = false) ->
   (tm_op_calls cmp s o <= 2 * Nat.log2 (n + 1))%nat) /\
  n = Z.to_nat (size s).
Proof.
  intros cmp ops o s n. pose proof (tm_reach_ok cmp ops) as Hok. fold s in Hok.
  destruct (tm_op_calls_bound cmp s o Hok) as (H1 & H2).
  split; [exact H1|]. split; [exact H2|].
  destruct Hok as (_ & Hsz & _). subst n. rewrite Hsz, Nat2Z.id. reflexivity.
Qed.

Lemma ts_op_calls_logarithmic_lemma : forall cmp ops o,
  let s := ts_final cmp rb_empty ops in
  let n := card (root s) in
  (ts_op_calls cmp s o <= 2 * (2 * Nat.log2 (n + 1)))%nat /\
  ((forall k, o = TreeMapModel.SAdd k -> tm_get_finds cmp s k = false) ->
   (ts_op_calls cmp s o <= 2 * Nat.log2 (n + 1))%nat) /\
  n = Z.to_nat (size s).
Proof.
  intros cmp ops o s n. pose proof (ts_reach_ok cmp ops) as Hok. fold s in Hok.
  split; [|split].
  - destruct o as [k | k | k |]; cbn [ts_op_calls]; try exact (proj1 (tm_op_calls_bound cmp s _ Hok)). lia.
  - intro Hnot. destruct o as [k | k | k |]; cbn [ts_op_calls].
    + apply (proj2 (tm_op_calls_bound cmp s (TPut k 0) Hok)).
      intros k0 v0 Heq. injection Heq as <- _. exact (Hnot k eq_refl).
    + apply (proj2 (tm_op_calls_bound cmp s (TDelete k) Hok)). intros k0 v0 Heq. discriminate.
    + apply (proj2 (tm_op_calls_bound cmp s (TGet k) Hok)). intros k0 v0 Heq. discriminate.
    + lia.
  - destruct Hok as (_ & Hsz & _). subst n. rewrite Hsz, Nat2Z.id. reflexivity.
Qed.

Lemma tm_rb_inv_reachable_lemma : forall cmp ops,
  rb_inv (root (tm_final cmp rb_empty ops)) /\
  size (tm_final cmp rb_empty ops) = Z.of_nat (card (root (tm_final cmp rb_empty ops))).
Proof. intros cmp ops. destruct (tm_reach_ok cmp ops) as (H1 & H2 & _). split; assumption. Qed.

Lemma ts_rb_inv_reachable_lemma : forall cmp ops,
  rb_inv (root (ts_final cmp rb_empty ops)) /\
  size (ts_final cmp rb_empty ops) = Z.of_nat (card (root (ts_final cmp rb_empty ops))).
Proof. intros cmp ops. destruct (ts_reach_ok cmp ops) as (H1 & H2 & _). split; assumption. Qed.

(* ------------------------------------------------------------------ *)
(* Part 2: one more call on the pointer-level model                    *)
(* ------------------------------------------------------------------ *)
Lemma ptr_run_app : forall cmp a b s,
  ptr_run cmp s (a ++ b) =
  match ptr_run cmp s a with
  | ROk l sf => match ptr_run cmp sf b with
                | ROk l' sf' => ROk (l ++ l') sf'
                | RPanic => RPanic
                | RFuel => RFuel
                end
  | RPanic => RPanic
  | RFuel => RFuel
  end.
Proof.
  intros cmp a b. induction a as [|o a IH]; intro s; cbn [app ptr_run].
  - destruct (ptr_run cmp s b); reflexivity.
  - destruct (ptr_step cmp o s) as [out s'| |]; try reflexivity.
    rewrite IH. destruct (ptr_run cmp s' a) as [l sf| |]; try reflexivity.
    destruct (ptr_run cmp sf b); reflexivity.
Qed.

Lemma rb_calls_run_app : forall cmp a b m,
  rb_calls_run cmp m (a ++ b) = rb_calls_run cmp m a ++ rb_calls_run cmp (rb_final cmp m a) b.
Proof.
  intros cmp a b. induction a as [|o a IH]; intro m; [reflexivity|].
  cbn [app rb_calls_run]. rewrite IH. reflexivity.
Qed.

(* comparator calls the recursive model attributes to one call *)
Definition rb_call_count (cmp : Z -> Z -> Z) (m : rbtree) (o : rb_op) : nat :=
  match o with
  | OAdd k _ | ODelete k | OFind k | OSet k _ => cmp_calls cmp k (root m)
  | OKeyValues | OSize => O
  end.

Lemma ptr_call_comparisons_lemma : forall cmp ops o,
  exists l sf out s',
    ptr_run cmp pinit ops = ROk l sf /\ ptr_step cmp o sf = ROk out s' /\
    pcalls s' = rb_call_count cmp (rb_final cmp rb_empty ops) o /\
    (pcalls s' <= 2 * Nat.log2 (card (abs_tree sf) + 1))%nat /\
    (pcalls s' <= 2 * Nat.log2 (Z.to_nat (psize sf) + 1))%nat.
Proof.
  intros cmp ops o.
  destruct (ptr_refines_rec_lemma cmp ops) as (l & sf & Hrun & _ & _ & _ & Habs & Hsz).
  destruct (ptr_refines_rec_lemma cmp (ops ++ [o])) as (l2 & sf2 & Hrun2 & _ & _ & Hcalls & _).
  rewrite ptr_run_app, Hrun in Hrun2. cbn [ptr_run] in Hrun2.
  destruct (ptr_step cmp o sf) as [out s'| |] eqn:Hstep; try discriminate.
  injection Hrun2 as <- <-.
  rewrite rb_calls_run_app, map_app in Hcalls. cbn [map rb_calls_run fst] in Hcalls.
  apply app_inj_tail in Hcalls. destruct Hcalls as [_ Hc].
  fold (rb_call_count cmp (rb_final cmp rb_empty ops) o) in Hc.
  exists l, sf, out, s'. split; [exact Hrun|]. split; [exact Hstep|]. split; [exact Hc|].
  assert (Hb : (rb_call_count cmp (rb_final cmp rb_empty ops) o
                <= 2 * Nat.log2 (card (root (rb_final cmp rb_empty ops)) + 1))%nat).
  { destruct o as [k v | k | k | k v | |]; cbn [rb_call_count];
      try exact (cmp_calls_logarithmic_lemma cmp ops k); lia. }
  rewrite Hc, Habs. split; [exact Hb|].
  rewrite Hsz, (size_is_card_reachable_lemma cmp ops), Nat2Z.id. exact Hb.
Qed.

(* the same, spelled out for Add: the comparator calls of the call ARE addNode's descent *)
Lemma ptr_add_descent_lemma : forall cmp ops k v,
  exists l sf out s',
    ptr_run cmp pinit ops = ROk l sf /\ ptr_step cmp (OAdd k v) sf = ROk out s' /\
    pcalls s' = cmp_calls cmp k (abs_tree sf) /\
    (pcalls s' <= 2 * Nat.log2 (card (abs_tree sf) + 1))%nat /\
    (pcalls s' <= 2 * Nat.log2 (Z.to_nat (psize sf) + 1))%nat.
Proof.
  intros cmp ops k v.
  destruct (ptr_call_comparisons_lemma cmp ops (OAdd k v)) as (l & sf & out & s' & Hrun & Hstep & Hc & H1 & H2).
  destruct (ptr_refines_rec_lemma cmp ops) as (l0 & sf0 & Hrun0 & _ & _ & _ & Habs & _).
  rewrite Hrun in Hrun0. injection Hrun0 as <- <-.
  exists l, sf, out, s'. repeat split; try assumption.
  rewrite Hc, Habs. reflexivity.
Qed.

(* ------------------------------------------------------------------ *)
(* Part 3: sortedness, alignment, cardinal, failed calls — TreeMap / TreeSet histories *)
(* ------------------------------------------------------------------ *)
Definition abs_tm_final (cmp : Z -> Z -> Z) (m : AbsMapModel.amap) (ops : list tm_op) : AbsMapModel.amap :=
  fold_left (fun st o => fst (abs_tm_step cmp st o)) ops m.
Definition abs_ts_final (cmp : Z -> Z -> Z) (st : AbsMapModel.aset) (ops : list ts_op) : AbsMapModel.aset :=
  fold_left (fun st o => fst (abs_ts_step cmp st o)) ops st.

Lemma combine_fst_snd : forall (m : list (Z * Z)), combine (map fst m) (map snd m) = m.
Proof. induction m as [|[k v] m IH]; cbn [map combine fst snd]; [reflexivity | rewrite IH; reflexivity]. Qed.

Lemma nth_error_fst_snd : forall (m : list (Z * Z)) i k v,
  nth_error (map fst m) i = Some k -> nth_error (map snd m) i = Some v -> nth_error m i = Some (k, v).
Proof.
  intros m i k v Hk Hv. rewrite nth_error_map in Hk, Hv.
  destruct (nth_error m i) as [[k0 v0]|]; cbn [option_map fst snd] in *; [|discriminate].
  injection Hk as <-. injection Hv as <-. reflexivity.
Qed.

(* find returning the stored value leaves the tree as it is when that value is set again *)
Lemma set_same : forall cmp k v t, find cmp k t = Some v -> set cmp k v t = Some t.
Proof.
  intros cmp k v t. induction t as [|c l IHl k' v' r IHr]; cbn [find set]; [discriminate|].
  destruct (cmp k k' <? 0).
  - intro H. rewrite (IHl H). reflexivity.
  - destruct (0 <? cmp k k').
    + intro H. rewrite (IHr H). reflexivity.
    + intro H. injection H as ->. reflexivity.
Qed.

Section GapLaws.
  Variable cmp : Z -> Z -> Z.
  Hypothesis cmp_antisym : forall a b, cmp a b < 0 <-> cmp b a > 0.
  Hypothesis cmp_trans : forall a b c, cmp a b < 0 -> cmp b c < 0 -> cmp a c < 0.
  Hypothesis cmp_eq_lt : forall a b c, cmp a b = 0 -> cmp a c < 0 -> cmp b c < 0.
  Local Set Default Proof Using "All".
  Local Notation "'L' x" := (x cmp cmp_antisym cmp_trans cmp_eq_lt) (at level 10, only parsing).
  Local Notation klt := (fun a b : Z * Z => cmp (fst a) (fst b) < 0).

  Lemma ordered_keys_sorted : forall m : AbsMapModel.amap,
    ordered cmp m -> StronglySorted (fun a b => cmp a b < 0) (map fst m).
  Proof.
    intros m Hord. induction Hord as [|[k v] m Hm IH Hall]; cbn [map fst]; constructor; [exact IH|].
    apply Forall_forall. intros k' Hin. apply in_map_iff in Hin. destruct Hin as (e & <- & Hin).
    rewrite Forall_forall in Hall. exact (Hall e Hin).
  Qed.

  (* in a strictly ascending list, looking a stored key up finds its own binding *)
  Lemma a_find_in : forall (m : AbsMapModel.amap) k v, ordered cmp m -> In (k, v) m -> a_find cmp k m = Some v.
  Proof.
    intros m k v Hord. induction Hord as [|[k' v'] m Hm IH Hall]; intro Hin; [contradiction|].
    cbn [a_find]. destruct Hin as [Heq | Hin].
    - injection Heq as -> ->. rewrite (L cmp_refl k). reflexivity.
    - rewrite Forall_forall in Hall. specialize (Hall _ Hin). unfold RBRefine.klt in Hall. cbn [fst] in Hall.
      pose proof (cmp_antisym k' k) as Ha.
      assert (Hb : (cmp k k' =? 0) = false) by (apply Z.eqb_neq; lia).
      rewrite Hb. exact (IH Hin).
  Qed.

  Lemma a_find_some_in : forall (m : AbsMapModel.amap) k v, a_find cmp k m = Some v -> exists k', In (k', v) m.
  Proof.
    intros m k v. induction m as [|[k' v'] m IH]; cbn [a_find]; [discriminate|].
    destruct (cmp k k' =? 0).
    - intro H. injection H as ->. exists k'. left. reflexivity.
    - intro H. destruct (IH H) as (k0 & Hin). exists k0. right. exact Hin.
  Qed.

  (* ---------------- TreeMap histories ---------------- *)
  Lemma tm_final_sim : forall ops s m, RBRefineSim.sim cmp s m ->
    RBRefineSim.sim cmp (tm_final cmp s ops) (abs_tm_final cmp m ops).
  Proof.
    induction ops as [|o ops IH]; intros s m Hsim; [exact Hsim|].
    unfold tm_final, abs_tm_final. cbn [fold_left].
    destruct (L tm_step_sim s m o Hsim) as (_ & Hsim'). exact (IH _ _ Hsim').
  Qed.

  Lemma tm_sim_reachable : forall ops,
    RBRefineSim.sim cmp (tm_final cmp rb_empty ops) (abs_tm_final cmp [] ops).
  Proof. intro ops. exact (tm_final_sim ops rb_empty [] (L RBRefineSim.sim_empty)). Qed.

  Lemma tm_state_sorted_lemma : forall ops,
    let kvs := inorder (root (tm_final cmp rb_empty ops)) in
    kvs = abs_tm_final cmp [] ops /\
    StronglySorted klt kvs /\ NoDup (map fst kvs).
  Proof.
    intros ops kvs. destruct (tm_sim_reachable ops) as (Hi & Ho & _). subst kvs. rewrite Hi.
    split; [reflexivity|]. split; [exact Ho | exact (L ordered_nodup _ Ho)].
  Qed.

  Lemma tm_keys_values_aligned_lemma : forall ops ks vs,
    let s := tm_final cmp rb_empty ops in
    snd (tm_step cmp s TKeys) = TKeysOut ks ->
    snd (tm_step cmp s TValues) = TValsOut vs ->
    length ks = length vs /\
    combine ks vs = abs_tm_final cmp [] ops /\
    StronglySorted (fun a b => cmp a b < 0) ks /\ NoDup ks /\
    (forall i k v, nth_error ks i = Some k -> nth_error vs i = Some v ->
                   snd (tm_step cmp s (TGet k)) = TVal v).
  Proof.
    intros ops ks vs s Hk Hv. cbn [tm_step snd] in Hk, Hv. injection Hk as <-. injection Hv as <-.
    destruct (tm_sim_reachable ops) as (Hi & Ho & _). fold s in Hi. rewrite Hi.
    split; [rewrite !map_length; reflexivity|].
    split; [apply combine_fst_snd|].
    split; [exact (ordered_keys_sorted _ Ho)|].
    split; [exact (L ordered_nodup _ Ho)|].
    intros i k v Hki Hvi. pose proof (nth_error_fst_snd _ _ _ _ Hki Hvi) as Hn.
    apply nth_error_In in Hn.
    cbn [tm_step rb_step snd]. rewrite (L find_spec k (root s)) by (rewrite Hi; exact Ho).
    rewrite Hi, (a_find_in _ _ _ Ho Hn). reflexivity.
  Qed.

  Lemma tm_len_is_cardinal_lemma : forall ops n,
    snd (tm_step cmp (tm_final cmp rb_empty ops) TLen) = TLenOut n ->
    n = Z.of_nat (card (root (tm_final cmp rb_empty ops))) /\
    n = Z.of_nat (length (abs_tm_final cmp [] ops)).
  Proof.
    intros ops n Hn. cbn [tm_step snd] in Hn. injection Hn as <-.
    destruct (tm_sim_reachable ops) as (Hi & _ & Hs). rewrite card_inorder, Hi. split; exact Hs.
  Qed.

  Lemma tm_failed_call_is_identity_lemma : forall ops op,
    let s := tm_final cmp rb_empty ops in
    let m := abs_tm_final cmp [] ops in
    match snd (tm_step cmp s op) with
    | TAbsent | TErr _ =>
        fst (tm_step cmp s op) = s /\ fst (abs_tm_step cmp m op) = m /\
        snd (abs_tm_step cmp m op) = snd (tm_step cmp s op)
    | _ => True
    end.
  Proof.
    intros ops op s m.
    destruct (L tm_step_sim s m op (tm_sim_reachable ops)) as (Hout & _).
    assert (Hs : match snd (tm_step cmp s op) with TAbsent | TErr _ => fst (tm_step cmp s op) = s | _ => True end).
    { destruct op as [k v | k | k | | |]; cbn [tm_step rb_step]; try exact I.
      - destruct (add cmp k v (root s)); cbn [fst snd]; [exact I|].
        destruct (set cmp k v (root s)); cbn [fst snd]; [exact I | reflexivity].
      - cbn [fst snd]. destruct (find cmp k (root s)); [exact I | reflexivity].
      - destruct (delete cmp k (root s)) as [[t' dv]|]; cbn [fst snd]; [exact I | reflexivity]. }
    assert (Hm : match snd (abs_tm_step cmp m op) with TAbsent | TErr _ => fst (abs_tm_step cmp m op) = m | _ => True end).
    { destruct op as [k v | k | k | | |]; cbn [abs_tm_step];
        try (destruct (a_find cmp k m); cbn [fst snd]; try exact I; reflexivity); exact I. }
    rewrite <- Hout in Hm.
    destruct (snd (tm_step cmp s op)); try exact I; (split; [exact Hs | split; [exact Hm | symmetry; exact Hout]]).
  Qed.

  Lemma tm_put_never_fails_lemma : forall ops k v,
    snd (tm_step cmp (tm_final cmp rb_empty ops) (TPut k v)) = TUnit.
  Proof.
    intros ops k v.
    destruct (L tm_step_sim _ _ (TPut k v) (tm_sim_reachable ops)) as (Hout & _).
    rewrite Hout. cbn [abs_tm_step]. destruct (a_find cmp k (abs_tm_final cmp [] ops)); reflexivity.
  Qed.

  (* ---------------- TreeSet histories ---------------- *)
  (* the TreeSet invariant: C01's simulation, the keys are the abstract set, every stored value is nil (0) *)
  Definition simz (s : rbtree) (st : AbsMapModel.aset) : Prop :=
    exists m, RBRefineSim.sim cmp s m /\ map fst m = st /\ Forall (fun e : Z * Z => snd e = 0) m.

  Lemma s_remove_none : forall k st, s_mem cmp k st = false -> s_remove cmp k st = st.
  Proof.
    intros k st. induction st as [|k' st IH]; cbn [s_mem s_remove]; [reflexivity|].
    destruct (cmp k k' =? 0); [discriminate|]. intro H. rewrite (IH H). reflexivity.
  Qed.

  Lemma zvals_a_set : forall k (m : AbsMapModel.amap),
    Forall (fun e : Z * Z => snd e = 0) m -> Forall (fun e : Z * Z => snd e = 0) (a_set cmp k 0 m).
  Proof.
    intros k m Hz. induction Hz as [|[k' v'] m Hx Hm IH]; cbn [a_set]; [constructor|].
    destruct (cmp k k' =? 0); constructor; try assumption. reflexivity.
  Qed.

  Lemma ts_step_simz : forall s st op, simz s st ->
    simz (fst (ts_step cmp s op)) (fst (abs_ts_step cmp st op)).
  Proof.
    intros s st op (m & Hsim & Hk & Hz). subst st.
    destruct op as [k | k | k |]; cbn [ts_step abs_ts_step fst].
    - destruct (L tm_step_sim s m (TPut k 0) Hsim) as (_ & Hs1). cbn [abs_tm_step] in Hs1.
      rewrite (L s_mem_keys).
      destruct (a_find cmp k m) as [v0|]; cbn [fst] in Hs1.
      + exists (a_set cmp k 0 m). split; [exact Hs1|]. split; [apply (L a_set_keys)|].
        exact (zvals_a_set k m Hz).
      + exists (a_insert cmp k 0 m). split; [exact Hs1|]. split; [apply (L s_insert_keys)|].
        apply (L Forall_a_insert); [reflexivity | exact Hz].
    - destruct (L tm_step_sim s m (TDelete k) Hsim) as (_ & Hs1). cbn [abs_tm_step] in Hs1.
      destruct (a_find cmp k m) as [v0|] eqn:Hf; cbn [fst] in Hs1.
      + exists (a_remove cmp k m). split; [exact Hs1|]. split; [apply (L s_remove_keys)|].
        apply (L Forall_a_remove). exact Hz.
      + exists m. split; [exact Hs1|]. split; [|exact Hz].
        rewrite <- (L s_remove_keys), (L a_remove_none _ _ Hf). reflexivity.
    - exists m. split; [exact Hsim | split; [reflexivity | exact Hz]].
    - exists m. split; [exact Hsim | split; [reflexivity | exact Hz]].
  Qed.

  Lemma ts_final_simz : forall ops s st, simz s st ->
    simz (ts_final cmp s ops) (abs_ts_final cmp st ops).
  Proof.
    induction ops as [|o ops IH]; intros s st Hsim; [exact Hsim|].
    unfold ts_final, abs_ts_final. cbn [fold_left]. exact (IH _ _ (ts_step_simz s st o Hsim)).
  Qed.

  Lemma ts_simz_reachable : forall ops, simz (ts_final cmp rb_empty ops) (abs_ts_final cmp [] ops).
  Proof.
    intro ops. apply ts_final_simz. exists []. split; [exact (L RBRefineSim.sim_empty)|]. split; [reflexivity | constructor].
  Qed.

  Lemma ts_keys_sorted_lemma : forall ops ks,
    snd (ts_step cmp (ts_final cmp rb_empty ops) TreeMapModel.SKeys) = SKeysOut ks ->
    ks = abs_ts_final cmp [] ops /\
    StronglySorted (fun a b => cmp a b < 0) ks /\ NoDup ks.
  Proof.
    intros ops ks Hk. cbn [ts_step snd] in Hk. injection Hk as <-.
    destruct (ts_simz_reachable ops) as (m & (Hi & Ho & _) & Hkeys & _). rewrite Hi.
    split; [exact Hkeys|]. split; [exact (ordered_keys_sorted _ Ho) | exact (L ordered_nodup _ Ho)].
  Qed.

  Lemma ts_size_is_cardinal_lemma : forall ops,
    size (ts_final cmp rb_empty ops) = Z.of_nat (card (root (ts_final cmp rb_empty ops))) /\
    size (ts_final cmp rb_empty ops) = Z.of_nat (length (abs_ts_final cmp [] ops)).
  Proof.
    intro ops. destruct (ts_simz_reachable ops) as (m & (Hi & _ & Hs) & Hkeys & _).
    rewrite card_inorder, Hi, <- Hkeys, map_length. split; exact Hs.
  Qed.

  (* TreeSet calls report nothing; the ones that have nothing to do — Add of a member, Delete of a
     non-member, Exist, Keys — leave the WHOLE state (shape, colours, values, size field) unchanged,
     and so does the abstract set *)
  Lemma ts_noop_is_identity_lemma : forall ops op,
    let s := ts_final cmp rb_empty ops in
    let st := abs_ts_final cmp [] ops in
    match op with
    | TreeMapModel.SAdd k => s_mem cmp k st = true -> fst (ts_step cmp s op) = s /\ fst (abs_ts_step cmp st op) = st
    | TreeMapModel.SDelete k => s_mem cmp k st = false -> fst (ts_step cmp s op) = s /\ fst (abs_ts_step cmp st op) = st
    | _ => fst (ts_step cmp s op) = s /\ fst (abs_ts_step cmp st op) = st
    end.
  Proof.
    intros ops op s st.
    destruct (ts_simz_reachable ops) as (m & Hsim & Hkeys & Hz). fold s in Hsim. fold st in Hkeys.
    pose proof Hsim as (Hi & Ho & Hsz).
    destruct op as [k | k | k |]; cbn [ts_step abs_ts_step fst]; try (split; reflexivity).
    - intro Hmem. rewrite Hmem. split; [|reflexivity].
      rewrite <- Hkeys, (L s_mem_keys) in Hmem.
      destruct (a_find cmp k m) as [v0|] eqn:Hf; [|discriminate].
      assert (Hv0 : v0 = 0).
      { destruct (a_find_some_in _ _ _ Hf) as (k0 & Hin). rewrite Forall_forall in Hz. exact (Hz _ Hin). }
      subst v0.
      assert (Hfind : find cmp k (root s) = Some 0) by (rewrite (L find_spec k (root s)) by (rewrite Hi; exact Ho); rewrite Hi; exact Hf).
      cbn [tm_step rb_step].
      assert (Hadd : add cmp k 0 (root s) = None).
      { apply add_none_iff_find. rewrite Hfind. discriminate. }
      rewrite Hadd. cbn [rb_step]. rewrite (set_same _ _ _ _ Hfind). cbn [fst]. destruct s; reflexivity.
    - intro Hmem. split; [|exact (s_remove_none _ _ Hmem)].
      rewrite <- Hkeys, (L s_mem_keys) in Hmem.
      destruct (a_find cmp k m) as [v0|] eqn:Hf; [discriminate|].
      pose proof (L delete_spec k (root s)) as Hd. rewrite Hi in Hd. specialize (Hd Ho).
      cbn [tm_step rb_step].
      destruct (delete cmp k (root s)) as [[t' dv]|]; [|reflexivity].
      destruct Hd as (Hd & _). rewrite Hf in Hd. discriminate.
  Qed.
End GapLaws.

(* ------------------------------------------------------------------ *)
(* Part 4: the multi tree map — Keys[i] <-> Values[i]                  *)
(* ------------------------------------------------------------------ *)
Lemma combine_map2 : forall (A B C : Type) (f : A -> B) (g : A -> C) (m : list A),
  combine (map f m) (map g m) = map (fun e => (f e, g e)) m.
Proof. intros A B C f g m. induction m as [|e m IH]; cbn [map combine]; [reflexivity | rewrite IH; reflexivity]. Qed.

(* in an association list without two equal keys, a stored binding is the one a look-up finds *)
Lemma aget_in_distinct : forall (U : Type) (eqb : Z -> Z -> bool) (a : list (Z * U)) k u,
  (forall x, eqb x x = true) -> distinct eqb a -> In (k, u) a -> aget eqb k a = Some u.
Proof.
  intros U eqb a k u Hrefl. induction a as [|[k0 u0] a IH]; intros HD Hin; [contradiction|].
  cbn [aget]. cbn [distinct] in HD. destruct HD as [Hall HD]. destruct Hin as [Heq | Hin].
  - injection Heq as -> ->. rewrite Hrefl. reflexivity.
  - rewrite Forall_forall in Hall. specialize (Hall _ Hin). cbn [fst] in Hall. rewrite Hall. exact (IH HD Hin).
Qed.

Section GapMulti.
  Variable cmp : Z -> Z -> Z.
  Hypothesis cmp_antisym : forall a b, cmp a b < 0 <-> cmp b a > 0.
  Hypothesis cmp_trans : forall a b c, cmp a b < 0 -> cmp b c < 0 -> cmp a c < 0.
  Hypothesis cmp_eq_lt : forall a b c, cmp a b = 0 -> cmp a c < 0 -> cmp b c < 0.
  Local Set Default Proof Using "All".
  Local Notation "'L' x" := (x cmp cmp_antisym cmp_trans cmp_eq_lt) (at level 10, only parsing).
  Local Notation "'LG' x" :=
    (x cmp cmp_antisym cmp_trans cmp_eq_lt (cmp_eqb cmp) (fun a b => eq_refl)) (at level 10, only parsing).

  Lemma multi_tree_R_reachable : forall (V : Type) (ops : list (mmop V)),
    tree_R (@nil V) cmp (fst (run (mmstep (tree_backing (@nil V) cmp)) tree_init ops))
                        (fst (run (mm_spec_step (cmp_eqb cmp)) [] ops)).
  Proof.
    intros V ops.
    exact (proj1 (DecorSpecProof.run_sim _ _ (tree_R [] cmp) (@mmout_equiv V)
                    (multi_sim V _ (tree_backing [] cmp) (cmp_eqb cmp) (tree_R [] cmp)
                               (LG tree_backing_refines_gen (list V) []))
                    tree_init [] (LG tree_R_init (list V) []) ops)).
  Qed.

  Lemma multi_treemap_aligned_lemma : forall (V : Type) (ops : list (mmop V)) ks vs,
    let B := tree_backing (@nil V) cmp in
    let s := fst (run (mmstep B) tree_init ops) in
    let a := fst (run (mm_spec_step (cmp_eqb cmp)) [] ops) in
    snd (mmstep B s MMKeys) = MRKeys ks ->
    snd (mmstep B s MMValues) = MRVals vs ->
    length ks = length vs /\
    Permutation (combine ks vs) a /\
    StronglySorted (fun x y => cmp x y < 0) ks /\
    (forall i k l, nth_error ks i = Some k -> nth_error vs i = Some l ->
                   snd (mmstep B s (MMGet k)) = MRFound l true /\ aget (cmp_eqb cmp) k a = Some l).
  Proof.
    intros V ops ks vs B s a Hk Hv.
    pose proof (multi_tree_R_reachable V ops) as HR. fold B in HR. fold s in HR. fold a in HR.
    pose proof (br_distinct _ _ _ _ (LG tree_backing_refines_gen (list V) []) s a HR) as HD.
    pose proof (mm_get_spec V _ B (cmp_eqb cmp) (tree_R [] cmp) (LG tree_backing_refines_gen (list V) [])) as Hget.
    destruct HR as (az & (m & (Hi & Ho & _) & Hperm) & Hvalid & Ha).
    change (snd (mmstep B s MMKeys)) with (@MRKeys V (mkeys B s)) in Hk.
    change (snd (mmstep B s MMValues)) with (MRVals (map copy_slice (mvals B s))) in Hv.
    injection Hk as <-. injection Hv as <-.
    rewrite Hi.
    assert (Hvs : map copy_slice (map (unbox (list V) [] (snd s)) (map snd m))
                  = map (fun e : Z * Z => unbox (list V) [] (snd s) (snd e)) m).
    { rewrite !map_map. apply map_ext. intro e. unfold copy_slice. apply app_nil_r. }
    rewrite Hvs.
    assert (Hcomb : combine (map fst m) (map (fun e : Z * Z => unbox (list V) [] (snd s) (snd e)) m)
                    = map (vmap Z (list V) (unbox (list V) [] (snd s))) m).
    { rewrite combine_map2. reflexivity. }
    split; [rewrite !map_length; reflexivity|].
    split; [rewrite Hcomb, Ha; apply Permutation_map; exact Hperm|].
    split; [exact (L ordered_keys_sorted m Ho)|].
    intros i k l Hki Hli.
    rewrite nth_error_map in Hki, Hli.
    destruct (nth_error m i) as [[k0 v0]|] eqn:Hn; cbn [option_map fst snd] in Hki, Hli; [|discriminate].
    injection Hki as ->. injection Hli as <-.
    assert (Hin : In (k, unbox (list V) [] (snd s) v0) a).
    { rewrite Ha. apply (Permutation_in _ (Permutation_map _ Hperm)).
      apply in_map_iff. exists (k, v0). split; [reflexivity | exact (nth_error_In _ _ Hn)]. }
    assert (Hag : aget (cmp_eqb cmp) k a = Some (unbox (list V) [] (snd s) v0)).
    { apply aget_in_distinct; [|exact HD | exact Hin].
      intro x. unfold cmp_eqb. rewrite (L cmp_refl x). reflexivity. }
    split; [|exact Hag].
    cbn [mmstep]. rewrite (Hget s a k (multi_tree_R_reachable V ops)). unfold afound. rewrite Hag. reflexivity.
  Qed.
End GapMulti.
