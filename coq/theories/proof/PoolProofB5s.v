(* PoolModel (pool.OnDemandBlockTaskPool), proofs for C12 / liveness side of C10 - B5s: the Layer-5 record is preserved by every step (from the eight per-field lemmas) *)
From Ekit Require Import Common Conc PoolModel
  PoolProofB0 PoolProofB1 PoolProofB2d PoolProofB2bd PoolProofB3d PoolProofB4d PoolProofB5d PoolProofB5f0 PoolProofB5f1 PoolProofB5f2 PoolProofB5f3 PoolProofB5f4 PoolProofB5f5 PoolProofB5f6 PoolProofB5f7.
From Coq Require Import ZifyBool Arith PeanoNat.

Lemma invK_step c e c' :
  1 <= i_init (c_par c) -> i_fixa (c_par c) = true -> i_fixb (c_par c) = true ->
  invB c -> invP c -> invQ c -> invW c -> invG c -> invK2 c -> invK c ->
  pstep_cfg c e = Some c' -> invK c'.
Proof.
  intros Hval Hfa Hfb HB HP HQ HW HG HK2 HK Hstep.
  destruct (step_cases _ _ _ Hstep) as [(t & op & -> & Hl & Hb & -> & _)|(th & o & obs & Hl & Ho & Ha)].
  - destruct HK as [Imain Igadd Igdec IJ IQ Icanc Igr1 Igr2].
    constructor; cbn [call_cfg c_thr c_sh c_gh c_par]; rewrite ?tsum_spawn; unfold enter;
      destruct op; cbn [enter0]; clK; break_if; rewrite ?Z.add_0_r; try assumption; try lia.
  - apply (invK_of_G c (ev_tid e) th o c' obs Hl Ha). apply invK_G_intro.
    + eapply invK_U_main; eassumption.
    + eapply invK_U_gadd; eassumption.
    + eapply invK_U_gdec; eassumption.
    + eapply invK_U_J; eassumption.
    + eapply invK_U_Q; eassumption.
    + eapply invK_U_canc; eassumption.
    + eapply invK_U_gr1; eassumption.
    + eapply invK_U_gr2; eassumption.
Qed.
