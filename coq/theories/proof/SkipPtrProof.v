(* C05, skip-list half, layer B: GENERAL SIMULATION between the statement-by-statement pointer
   model (SkipModel.v, Section Ptr: heap id -> (value, Forward list), fuel, PPanic/PFuel) and the
   verified heights model.  Part 1: list / Forward-pointer structure lemmas, the heap operations
   (frame lemmas), the representation relation position by position (Rnode/Rlev) and its
   decomposition at a cut A ++ X (Lleft/Lright), traverse on the pointer level = the heights
   model's traverse (on every level the same predecessor, as identities), the read-only
   operations (Search/Get/Peek/AsSlice and the chain dumps).  Part 2 (SkipPtrProof2.v): Insert,
   DeleteElement, histories, the theorems of props/C05_skipptr.v.

   Positions: as in the heights model, position 0 = header, k+1 = node with index k of [nodes];
   pid/pht/pvl = identity / tower height / value of a position.  The working invariant is
     Rnode h sq  : every position has a cell with its value and a Forward list of its height
     Rlev h sq i : for every position p with i < height, Forward[i] of p is the identity of the
                   node at index [fwd i sq p] of the heights model (nil iff None).
   SkipPtrProof2.ptr_rep states the same through the pointer model's own chain walk (p_chain);
   the two are equivalent under skip_inv (ptr_rep_iff_SR). *)
From Ekit Require Import Common SkipModel SkipProof.
From Coq Require Import Sorting.Sorted Sorting.Permutation ZifyBool Arith PeanoNat.
Local Open Scope nat_scope.

(* ---------- generic list facts ---------- *)
Lemma set_nth_length {A} : forall (l : list A) n a, length (set_nth l n a) = length l.
Proof. induction l as [|x l IH]; intros [|n] a; cbn; auto. Qed.

Lemma set_nth_same {A} : forall (l : list A) n a, n < length l -> nth_error (set_nth l n a) n = Some a.
Proof. induction l as [|x l IH]; intros [|n] a Hn; cbn in *; try lia; auto. apply IH. lia. Qed.

Lemma set_nth_other {A} : forall (l : list A) n m a, m <> n -> nth_error (set_nth l n a) m = nth_error l m.
Proof.
  induction l as [|x l IH]; intros [|n] [|m] a Hne; cbn; auto; try lia.
Qed.

Lemma nth_error_repeat {A} : forall (x : A) n k, k < n -> nth_error (repeat x n) k = Some x.
Proof. intros x n. induction n as [|n IH]; intros [|k] Hk; cbn; try lia; auto. apply IH. lia. Qed.

Lemma nth_error_mid {A} : forall (l1 l2 : list A) x, nth_error (l1 ++ x :: l2) (length l1) = Some x.
Proof. intros. rewrite nth_error_app2 by lia. rewrite Nat.sub_diag. reflexivity. Qed.

Lemma nth_error_app_r {A} : forall (l1 l2 : list A) k, nth_error (l1 ++ l2) (length l1 + k) = nth_error l2 k.
Proof. intros. rewrite nth_error_app2 by lia. f_equal. lia. Qed.

Lemma remove_at_mid {A} : forall (l1 l2 : list A) x, remove_at (l1 ++ x :: l2) (length l1) = l1 ++ l2.
Proof. induction l1 as [|a l1 IH]; intros l2 x; cbn; auto. f_equal. apply IH. Qed.

Lemma split_at {A} : forall (l : list A) k x, nth_error l k = Some x ->
  l = firstn k l ++ x :: skipn (S k) l /\ length (firstn k l) = k.
Proof.
  induction l as [|a l IH]; intros [|k] x Hn; cbn in *; try discriminate.
  - injection Hn as ->. auto.
  - destruct (IH _ _ Hn) as [H1 H2]. split; [f_equal; exact H1|f_equal; exact H2].
Qed.

(* identities in [1,n) without repetition: fewer than n of them *)
Lemma nodup_bound : forall (l : list nat) n, 1 <= n -> NoDup l -> (forall x, In x l -> 1 <= x < n) -> S (length l) <= n.
Proof.
  intros l n Hn Hnd Hr.
  assert (Hincl : incl l (seq 1 (n - 1))).
  { intros x Hx. apply in_seq. specialize (Hr x Hx). lia. }
  pose proof (NoDup_incl_length Hnd Hincl) as Hlen. rewrite seq_length in Hlen. lia.
Qed.

Lemma skipn_app_le {A} : forall (l1 l2 : list A) p, p <= length l1 -> skipn p (l1 ++ l2) = skipn p l1 ++ l2.
Proof.
  intros l1 l2 p Hp. rewrite skipn_app. replace (p - length l1) with 0 by lia. reflexivity.
Qed.

Lemma skipn_app_ge {A} : forall (l1 l2 : list A) p, skipn (length l1 + p) (l1 ++ l2) = skipn p l2.
Proof.
  intros l1 l2 p. rewrite skipn_app. rewrite skipn_all2 by lia.
  replace (length l1 + p - length l1) with p by lia. reflexivity.
Qed.

Lemma skipn_skipn' {A} : forall (l : list A) a b, skipn a (skipn b l) = skipn (a + b) l.
Proof.
  intros l a b. revert l. induction b as [|b IH]; intros l.
  - rewrite Nat.add_0_r. reflexivity.
  - replace (a + S b) with (S (a + b)) by lia. destruct l as [|x t]; [rewrite !skipn_nil; reflexivity|].
    cbn [skipn]. apply IH.
Qed.

Section FwdStruct.
  Variable T : Type.
  Notation node := (node T).
  Notation on_level := (on_level T).
  Notation fwd := (fwd T).
  Notation fwd_from := (fwd_from T).

  Lemma fwd_from_shift : forall i (l : list node) k d,
    fwd_from i l (d + k) = option_map (Nat.add d) (fwd_from i l k).
  Proof.
    intros i l. induction l as [|a l IH]; intros k d; cbn [SkipModel.fwd_from]; [reflexivity|].
    destruct (on_level i a); [reflexivity|].
    replace (S (d + k)) with (d + S k) by lia. apply IH.
  Qed.

  Lemma fwd_from_app : forall i (l1 l2 : list node) k,
    fwd_from i (l1 ++ l2) k =
    match fwd_from i l1 k with Some r => Some r | None => fwd_from i l2 (length l1 + k) end.
  Proof.
    intros i l1. induction l1 as [|a l1 IH]; intros l2 k; cbn [app SkipModel.fwd_from length]; [reflexivity|].
    destruct (on_level i a); [reflexivity|]. rewrite IH.
    replace (length l1 + S k) with (S (length l1) + k) by lia. reflexivity.
  Qed.

  Lemma fwd_from_range : forall i (l : list node) k r, fwd_from i l k = Some r -> k <= r < k + length l.
  Proof.
    intros i l. induction l as [|a l IH]; intros k r H; cbn [SkipModel.fwd_from length] in *; [discriminate|].
    destruct (on_level i a).
    - injection H as <-. lia.
    - apply IH in H. lia.
  Qed.

  Lemma fwd_range : forall i (sq : list node) p r, fwd i sq p = Some r -> p <= r < length sq.
  Proof.
    intros i sq p r H. unfold SkipModel.fwd in H. apply fwd_from_range in H.
    rewrite skipn_length in H. lia.
  Qed.

  Lemma fwd_at0 : forall i (sq : list node), fwd i sq 0 = fwd_from i sq 0.
  Proof. reflexivity. Qed.

  Lemma fwd_app_le : forall i (A B : list node) p, p <= length A ->
    fwd i (A ++ B) p =
    match fwd i A p with Some r => Some r | None => option_map (Nat.add (length A)) (fwd i B 0) end.
  Proof.
    intros i A B p Hp. unfold SkipModel.fwd. rewrite skipn_app_le by exact Hp.
    rewrite fwd_from_app. destruct (fwd_from i (skipn p A) p) as [r|]; [reflexivity|].
    rewrite skipn_length. replace (length A - p + p) with (length A + 0) by lia.
    rewrite fwd_from_shift. reflexivity.
  Qed.

  Lemma fwd_app_ge : forall i (A B : list node) p,
    fwd i (A ++ B) (length A + p) = option_map (Nat.add (length A)) (fwd i B p).
  Proof.
    intros i A B p. unfold SkipModel.fwd. rewrite skipn_app_ge. apply fwd_from_shift.
  Qed.

  Lemma fwd_cons0 : forall i (n : node) B,
    fwd i (n :: B) 0 = if on_level i n then Some 0 else option_map S (fwd i B 0).
  Proof.
    intros i n B. unfold SkipModel.fwd. cbn [skipn SkipModel.fwd_from].
    destruct (on_level i n); [reflexivity|]. apply (fwd_from_shift i B 0 1).
  Qed.

  Lemma fwd_consS : forall i (n : node) B p, fwd i (n :: B) (S p) = option_map S (fwd i B p).
  Proof.
    intros i n B p. unfold SkipModel.fwd. cbn [skipn]. apply (fwd_from_shift i (skipn p B) p 1).
  Qed.

  Lemma fwd_nil : forall i p, fwd i (@nil node) p = None.
  Proof. intros i p. unfold SkipModel.fwd. rewrite skipn_nil. reflexivity. Qed.

  (* the chain of level i behind position p, through Forward *)
  Lemma filter_fwd_from : forall i (l : list node) k,
    match fwd_from i l k with
    | None => filter (on_level i) l = []
    | Some r => k <= r /\ exists n, nth_error l (r - k) = Some n /\
                filter (on_level i) l = n :: filter (on_level i) (skipn (S (r - k)) l)
    end.
  Proof.
    intros i l. induction l as [|a l IH]; intros k; cbn [SkipModel.fwd_from filter]; [reflexivity|].
    destruct (on_level i a) eqn:Ha.
    - split; [lia|]. exists a. rewrite Nat.sub_diag. split; reflexivity.
    - specialize (IH (S k)). destruct (fwd_from i l (S k)) as [r|]; [|exact IH].
      destruct IH as [Hk [n [Hn Hf]]]. split; [lia|]. exists n.
      replace (r - k) with (S (r - S k)) by lia. split; [exact Hn|exact Hf].
  Qed.

  Lemma filter_fwd : forall i (sq : list node) p,
    match fwd i sq p with
    | None => filter (on_level i) (skipn p sq) = []
    | Some r => exists n, nth_error sq r = Some n /\
                filter (on_level i) (skipn p sq) = n :: filter (on_level i) (skipn (S r) sq)
    end.
  Proof.
    intros i sq p. unfold SkipModel.fwd. pose proof (filter_fwd_from i (skipn p sq) p) as H.
    destruct (fwd_from i (skipn p sq) p) as [r|]; [|exact H].
    destruct H as [Hk [n [Hn Hf]]]. exists n. rewrite nth_error_skipn_add in Hn.
    replace (p + (r - p)) with r in Hn by lia. split; [exact Hn|].
    rewrite Hf. rewrite skipn_skipn'. replace (S (r - p) + p) with (S r) by lia. reflexivity.
  Qed.
End FwdStruct.

Lemma NoDup_app_l {A} : forall (l1 l2 : list A), NoDup (l1 ++ l2) -> NoDup l1.
Proof.
  induction l1 as [|a l1 IH]; intros l2 H; [constructor|].
  cbn in H. inversion H as [|a' l' Hnotin Hnd]; subst. constructor; [|eapply IH; eauto].
  intros Hin. apply Hnotin. apply in_or_app. left. exact Hin.
Qed.

Section Heap.
  Variable T : Type.
  Notation node := (node T).
  Notation pnode := (pnode T).
  Notation on_level := (on_level T).
  Notation fwd := (fwd T).
  Notation hget := (hget T).
  Notation hset := (hset T).
  Notation set_fwd := (set_fwd T).
  Notation pforward := (pforward T).
  Notation pvalue := (pvalue T).
  Notation heapT := (list (nat * pnode)).

  (* ---------- positions of the heights model -> identities, heights, values ---------- *)
  Definition idx_id (sq : list node) (r : nat) : nat :=
    match nth_error sq r with Some n => nid n | None => 0 end.
  Definition pid (sq : list node) (p : nat) : nat :=
    match p with 0 => 0 | S k => idx_id sq k end.
  Definition pht (sq : list node) (p : nat) : nat :=
    match p with 0 => MaxLevel | S k => match nth_error sq k with Some n => nht n | None => 0 end end.
  Definition pvl (sq : list node) (p : nat) : option T :=
    match p with 0 => None | S k => option_map nval (nth_error sq k) end.

  Lemma idx_id_app_l : forall (A X : list node) r, r < length A -> idx_id (A ++ X) r = idx_id A r.
  Proof. intros A X r Hr. unfold idx_id. rewrite nth_error_app1 by exact Hr. reflexivity. Qed.
  Lemma idx_id_app_r : forall (A X : list node) r, idx_id (A ++ X) (length A + r) = idx_id X r.
  Proof. intros A X r. unfold idx_id. rewrite nth_error_app_r. reflexivity. Qed.
  Lemma idx_id_cons : forall (n : node) B r, idx_id (n :: B) (S r) = idx_id B r.
  Proof. reflexivity. Qed.

  Lemma pid_app_l : forall (A X : list node) p, p <= length A -> pid (A ++ X) p = pid A p.
  Proof. intros A X [|k] Hp; [reflexivity|]. cbn [pid]. apply idx_id_app_l. lia. Qed.
  Lemma pht_app_l : forall (A X : list node) p, p <= length A -> pht (A ++ X) p = pht A p.
  Proof. intros A X [|k] Hp; [reflexivity|]. cbn [pht]. rewrite nth_error_app1 by lia. reflexivity. Qed.
  Lemma pvl_app_l : forall (A X : list node) p, p <= length A -> pvl (A ++ X) p = pvl A p.
  Proof. intros A X [|k] Hp; [reflexivity|]. cbn [pvl]. rewrite nth_error_app1 by lia. reflexivity. Qed.

  Lemma pid_app_r : forall (A X : list node) k, pid (A ++ X) (length A + S k) = pid X (S k).
  Proof. intros A X k. replace (length A + S k) with (S (length A + k)) by lia. cbn [pid]. apply idx_id_app_r. Qed.
  Lemma pht_app_r : forall (A X : list node) k, pht (A ++ X) (length A + S k) = pht X (S k).
  Proof. intros A X k. replace (length A + S k) with (S (length A + k)) by lia. cbn [pht]. rewrite nth_error_app_r. reflexivity. Qed.
  Lemma pvl_app_r : forall (A X : list node) k, pvl (A ++ X) (length A + S k) = pvl X (S k).
  Proof. intros A X k. replace (length A + S k) with (S (length A + k)) by lia. cbn [pvl]. rewrite nth_error_app_r. reflexivity. Qed.

  Lemma pid_nth : forall (sq : list node) p, pid sq p = nth p (0 :: map nid sq) 0.
  Proof.
    intros sq [|k]; [reflexivity|]. cbn [pid nth]. unfold idx_id. revert k.
    induction sq as [|a sq IH]; intros [|k]; cbn; auto.
  Qed.

  Lemma pid_in : forall (sq : list node) p, 1 <= p <= length sq -> In (pid sq p) (map nid sq).
  Proof.
    intros sq [|k] Hp; [lia|]. cbn [pid]. unfold idx_id.
    destruct (nth_error sq k) as [n|] eqn:Hn; [|apply nth_error_None in Hn; lia].
    apply in_map. eapply nth_error_In; eauto.
  Qed.

  (* well-formed identities: unique, none is the header's *)
  Definition ids_ok (sq : list node) : Prop := NoDup (0 :: map nid sq).

  Lemma pid_inj : forall (sq : list node) p q, ids_ok sq -> p <= length sq -> q <= length sq ->
    pid sq p = pid sq q -> p = q.
  Proof.
    intros sq p q Hok Hp Hq He. rewrite !pid_nth in He.
    apply (proj1 (NoDup_nth (0 :: map nid sq) 0) Hok); auto; cbn [length]; rewrite map_length; lia.
  Qed.

  Lemma ids_ok_app_disj : forall (A X : list node) p k, ids_ok (A ++ X) -> p <= length A -> k < length X ->
    pid A p <> pid X (S k).
  Proof.
    intros A X p k Hok Hp Hk He.
    rewrite <- (pid_app_l A X p Hp), <- (pid_app_r A X k) in He.
    apply pid_inj in He; auto; rewrite ?app_length; lia.
  Qed.

  Lemma ids_ok_app_l : forall (A X : list node), ids_ok (A ++ X) -> ids_ok A.
  Proof.
    intros A X Hok. unfold ids_ok in *. rewrite map_app in Hok.
    change (0 :: map nid A ++ map nid X) with ((0 :: map nid A) ++ map nid X) in Hok.
    apply NoDup_app_l in Hok. exact Hok.
  Qed.

  Lemma ids_ok_remove : forall (A B : list node) n, ids_ok (A ++ n :: B) -> ids_ok (A ++ B).
  Proof.
    intros A B n Hok. unfold ids_ok in *. rewrite map_app in *. cbn [map] in Hok.
    change (0 :: map nid A ++ nid n :: map nid B) with ((0 :: map nid A) ++ nid n :: map nid B) in Hok.
    apply NoDup_remove_1 in Hok. exact Hok.
  Qed.

  Lemma ids_ok_mid_fresh_l : forall (A B : list node) n p, ids_ok (A ++ n :: B) -> p <= length A -> pid A p <> nid n.
  Proof.
    intros A B n p Hok Hp He.
    assert (H1 : pid (A ++ n :: B) p = pid (A ++ n :: B) (length A + 1)).
    { rewrite pid_app_l by exact Hp. rewrite pid_app_r. cbn. exact He. }
    apply pid_inj in H1; auto; rewrite ?app_length; cbn [length]; lia.
  Qed.

  Lemma ids_ok_mid_fresh_r : forall (A B : list node) n k, ids_ok (A ++ n :: B) -> k < length B -> pid B (S k) <> nid n.
  Proof.
    intros A B n k Hok Hk He.
    assert (H1 : pid (A ++ n :: B) (length A + S (S k)) = pid (A ++ n :: B) (length A + 1)).
    { rewrite !pid_app_r. cbn. exact He. }
    apply pid_inj in H1; auto; rewrite ?app_length; cbn [length]; lia.
  Qed.

  (* ---------- the heap operations ---------- *)
  Lemma hget_hset : forall (h : heapT) id n id', hget (hset h id n) id' = if Nat.eqb id id' then Some n else hget h id'.
  Proof. reflexivity. Qed.

  Lemma set_fwd_inv : forall (h : heapT) p i x h', set_fwd h p i x = POk h' ->
    exists n, hget h p = Some n /\ i < length (pfwd T n) /\
              h' = hset h p {| pval := pval T n; pfwd := set_nth (pfwd T n) i x |}.
  Proof.
    intros h p i x h' H. unfold SkipModel.set_fwd in H.
    destruct (hget h p) as [n|]; [|discriminate].
    destruct (Nat.ltb_spec i (length (pfwd T n))) as [Hlt|Hge]; [|discriminate].
    injection H as <-. exists n. auto.
  Qed.

  Lemma set_fwd_ok : forall (h : heapT) p i x n, hget h p = Some n -> i < length (pfwd T n) ->
    set_fwd h p i x = POk (hset h p {| pval := pval T n; pfwd := set_nth (pfwd T n) i x |}).
  Proof.
    intros h p i x n Hg Hi. unfold SkipModel.set_fwd. rewrite Hg.
    destruct (Nat.ltb_spec i (length (pfwd T n))) as [Hlt|Hge]; [reflexivity|lia].
  Qed.

  Lemma pforward_set_fwd : forall (h : heapT) p i x h', set_fwd h p i x = POk h' ->
    forall q j, pforward h' q j = if Nat.eqb p q && Nat.eqb j i then POk x else pforward h q j.
  Proof.
    intros h p i x h' H q j. destruct (set_fwd_inv _ _ _ _ _ H) as [n [Hg [Hi ->]]].
    unfold SkipModel.pforward. rewrite hget_hset.
    destruct (Nat.eqb_spec p q) as [<-|Hne]; cbn [andb]; [|reflexivity].
    rewrite Hg. cbn [pfwd]. destruct (Nat.eqb_spec j i) as [->|Hji].
    - rewrite set_nth_same by exact Hi. reflexivity.
    - rewrite set_nth_other by exact Hji. reflexivity.
  Qed.

  (* a node cell: value and tower height *)
  Definition node_at (h : heapT) (id : nat) (val : option T) (ht : nat) : Prop :=
    exists f, hget h id = Some {| pval := val; pfwd := f |} /\ length f = ht.

  Lemma node_at_set_fwd : forall (h : heapT) p i x h', set_fwd h p i x = POk h' ->
    forall id val ht, node_at h id val ht -> node_at h' id val ht.
  Proof.
    intros h p i x h' H id val ht [f [Hg Hl]]. destruct (set_fwd_inv _ _ _ _ _ H) as [n [Hgp [Hi ->]]].
    unfold node_at. rewrite hget_hset. destruct (Nat.eqb_spec p id) as [<-|Hne].
    - rewrite Hg in Hgp. injection Hgp as <-. cbn [pval pfwd].
      exists (set_nth f i x). split; [reflexivity|]. rewrite set_nth_length. exact Hl.
    - exists f. auto.
  Qed.

  Lemma node_at_hset_other : forall (h : heapT) id0 n0 id val ht, id0 <> id ->
    node_at h id val ht -> node_at (hset h id0 n0) id val ht.
  Proof.
    intros h id0 n0 id val ht Hne [f [Hg Hl]]. exists f. rewrite hget_hset.
    destruct (Nat.eqb_spec id0 id) as [He|_]; [contradiction|]. auto.
  Qed.

  Lemma pforward_hset_other : forall (h : heapT) id0 n0 q j, id0 <> q ->
    pforward (hset h id0 n0) q j = pforward h q j.
  Proof.
    intros h id0 n0 q j Hne. unfold SkipModel.pforward. rewrite hget_hset.
    destruct (Nat.eqb_spec id0 q) as [He|_]; [contradiction|]. reflexivity.
  Qed.

  Lemma set_fwd_node_at : forall (h : heapT) p i x val ht, node_at h p val ht -> i < ht ->
    exists h', set_fwd h p i x = POk h'.
  Proof.
    intros h p i x val ht [f [Hg Hl]] Hi. eexists. apply (set_fwd_ok h p i x _ Hg). cbn [pfwd]. lia.
  Qed.

  Lemma pvalue_node_at : forall (h : heapT) id v ht, node_at h id (Some v) ht -> pvalue h id = POk v.
  Proof. intros h id v ht [f [Hg _]]. unfold SkipModel.pvalue. rewrite Hg. reflexivity. Qed.

  (* ---------- the representation relation, position by position ---------- *)
  Definition Rnode (h : heapT) (sq : list node) : Prop :=
    forall p, p <= length sq -> node_at h (pid sq p) (pvl sq p) (pht sq p).
  Definition Rlev (h : heapT) (sq : list node) (i : nat) : Prop :=
    forall p, p <= length sq -> i < pht sq p ->
      pforward h (pid sq p) i = POk (option_map (idx_id sq) (fwd i sq p)).

  (* decomposition at a cut A ++ X: the nodes of A (and the header) point into A or at the
     entry e of X; the nodes of X point into X *)
  Definition hdptr (i : nat) (X : list node) : option nat := option_map (idx_id X) (fwd i X 0).
  Definition Lleft (h : heapT) (A : list node) (e : option nat) (i : nat) : Prop :=
    forall p, p <= length A -> i < pht A p ->
      pforward h (pid A p) i = POk (match fwd i A p with Some r => Some (idx_id A r) | None => e end).
  Definition Lright (h : heapT) (X : list node) (i : nat) : Prop :=
    forall k, k < length X -> i < pht X (S k) ->
      pforward h (pid X (S k)) i = POk (option_map (idx_id X) (fwd i X (S k))).
  Definition NLeft (h : heapT) (A : list node) : Prop :=
    forall p, p <= length A -> node_at h (pid A p) (pvl A p) (pht A p).
  Definition NRight (h : heapT) (X : list node) : Prop :=
    forall k, k < length X -> node_at h (pid X (S k)) (pvl X (S k)) (pht X (S k)).

  Lemma hdptr_cons : forall i (n : node) B, hdptr i (n :: B) = if on_level i n then Some (nid n) else hdptr i B.
  Proof.
    intros i n B. unfold hdptr. rewrite fwd_cons0. destruct (on_level i n); [reflexivity|].
    destruct (fwd i B 0) as [r|]; reflexivity.
  Qed.

  Lemma fwd_map_app_l : forall i (A X : list node) p, p <= length A ->
    option_map (idx_id (A ++ X)) (fwd i (A ++ X) p) =
    match fwd i A p with Some r => Some (idx_id A r) | None => hdptr i X end.
  Proof.
    intros i A X p Hp. rewrite fwd_app_le by exact Hp.
    destruct (fwd i A p) as [r|] eqn:Hf.
    - cbn [option_map]. apply fwd_range in Hf. rewrite idx_id_app_l by lia. reflexivity.
    - unfold hdptr. destruct (fwd i X 0) as [r|]; cbn [option_map]; [|reflexivity].
      rewrite idx_id_app_r. reflexivity.
  Qed.

  Lemma fwd_map_app_r : forall i (A X : list node) k,
    option_map (idx_id (A ++ X)) (fwd i (A ++ X) (length A + S k)) = option_map (idx_id X) (fwd i X (S k)).
  Proof.
    intros i A X k. rewrite fwd_app_ge. destruct (fwd i X (S k)) as [r|]; cbn [option_map]; [|reflexivity].
    rewrite idx_id_app_r. reflexivity.
  Qed.

  Lemma Rlev_app : forall h (A X : list node) i,
    Rlev h (A ++ X) i <-> Lleft h A (hdptr i X) i /\ Lright h X i.
  Proof.
    intros h A X i. split.
    - intros HR. split.
      + intros p Hp Hi. specialize (HR p). rewrite app_length in HR.
        rewrite pid_app_l, pht_app_l, fwd_map_app_l in HR by exact Hp. apply HR; [lia|exact Hi].
      + intros k Hk Hi. specialize (HR (length A + S k)). rewrite app_length in HR.
        rewrite pid_app_r, pht_app_r, fwd_map_app_r in HR. apply HR; [lia|exact Hi].
    - intros [HL HRt] p Hp Hi. rewrite app_length in Hp.
      destruct (Nat.le_gt_cases p (length A)) as [Hle|Hgt].
      + rewrite pid_app_l, fwd_map_app_l by exact Hle. rewrite pht_app_l in Hi by exact Hle. apply HL; auto.
      + replace p with (length A + S (p - length A - 1)) in * by lia.
        rewrite pid_app_r, fwd_map_app_r. rewrite pht_app_r in Hi. apply HRt; [lia|exact Hi].
  Qed.

  Lemma Rnode_app : forall h (A X : list node), Rnode h (A ++ X) <-> NLeft h A /\ NRight h X.
  Proof.
    intros h A X. split.
    - intros HR. split.
      + intros p Hp. specialize (HR p). rewrite app_length in HR.
        rewrite pid_app_l, pht_app_l, pvl_app_l in HR by exact Hp. apply HR. lia.
      + intros k Hk. specialize (HR (length A + S k)). rewrite app_length in HR.
        rewrite pid_app_r, pht_app_r, pvl_app_r in HR. apply HR. lia.
    - intros [HL HRt] p Hp. rewrite app_length in Hp.
      destruct (Nat.le_gt_cases p (length A)) as [Hle|Hgt].
      + rewrite pid_app_l, pht_app_l, pvl_app_l by exact Hle. apply HL; auto.
      + replace p with (length A + S (p - length A - 1)) in * by lia.
        rewrite pid_app_r, pht_app_r, pvl_app_r. apply HRt. lia.
  Qed.

  Lemma Lright_cons : forall h (n : node) B i,
    Lright h (n :: B) i <-> (i < nht n -> pforward h (nid n) i = POk (hdptr i B)) /\ Lright h B i.
  Proof.
    intros h n B i. split.
    - intros HR. split.
      + intros Hi. specialize (HR 0). cbn [length pht pid nth_error] in HR.
        rewrite fwd_consS in HR. unfold hdptr.
        replace (option_map (idx_id B) (fwd i B 0)) with (option_map (idx_id (n :: B)) (option_map S (fwd i B 0)))
          by (destruct (fwd i B 0); reflexivity).
        apply HR; [lia|exact Hi].
      + intros k Hk Hi. specialize (HR (S k)). cbn [length] in HR.
        replace (option_map (idx_id B) (fwd i B (S k))) with (option_map (idx_id (n :: B)) (fwd i (n :: B) (S (S k))))
          by (rewrite fwd_consS; destruct (fwd i B (S k)); reflexivity).
        apply HR; [lia|exact Hi].
    - intros [H0 HB] [|k] Hk Hi.
      + cbn [pid idx_id nth_error]. cbn [pht nth_error] in Hi. rewrite fwd_consS.
        rewrite (H0 Hi). unfold hdptr. destruct (fwd i B 0); reflexivity.
      + cbn [length] in Hk. assert (Hk' : k < length B) by lia. specialize (HB k Hk' Hi).
        rewrite fwd_consS. change (pid (n :: B) (S (S k))) with (pid B (S k)). rewrite HB.
        destruct (fwd i B (S k)); reflexivity.
  Qed.
End Heap.

Section Trav.
  Variable T : Type.
  Variable cmp : T -> T -> Z.

  Notation node := (node T).
  Notation sl := (sl T).
  Notation psl := (psl T).
  Notation ltb := (ltb T cmp).
  Notation on_level := (on_level T).
  Notation fwd := (fwd T).
  Notation fwd_from := (fwd_from T).
  Notation advance := (advance T cmp).
  Notation traverse_from := (traverse_from T cmp).
  Notation traverse := (traverse T cmp).
  Notation pforward := (pforward T).
  Notation pvalue := (pvalue T).
  Notation p_walk := (p_walk T cmp).
  Notation p_trav := (p_trav T cmp).
  Notation idx_id := (idx_id T).
  Notation pid := (pid T).
  Notation pht := (pht T).
  Notation pvl := (pvl T).
  Notation Rnode := (Rnode T).
  Notation Rlev := (Rlev T).

  (* ---------- the heights model's inner loop, hop by hop along Forward[i] ---------- *)
  Lemma advance_unfold_gen : forall i v (l : list node) k cur,
    advance i v l k cur =
    match fwd_from i l k with
    | None => cur
    | Some r => match nth_error l (r - k) with
                | Some n => if ltb v n then advance i v (skipn (S (r - k)) l) (S r) (S r) else cur
                | None => cur
                end
    end.
  Proof.
    intros i v l. induction l as [|a l IH]; intros k cur; cbn [SkipModel.advance SkipModel.fwd_from]; [reflexivity|].
    destruct (on_level i a) eqn:Ha.
    - rewrite Nat.sub_diag. cbn [nth_error skipn]. reflexivity.
    - rewrite IH. destruct (fwd_from i l (S k)) as [r|] eqn:Hf; [|reflexivity].
      apply fwd_from_range in Hf. replace (r - k) with (S (r - S k)) by lia. cbn [nth_error skipn]. reflexivity.
  Qed.

  Lemma advance_unfold : forall i v (sq : list node) cur,
    advance i v (skipn cur sq) cur cur =
    match fwd i sq cur with
    | None => cur
    | Some r => match nth_error sq r with
                | Some n => if ltb v n then advance i v (skipn (S r) sq) (S r) (S r) else cur
                | None => cur
                end
    end.
  Proof.
    intros i v sq cur. rewrite advance_unfold_gen. unfold SkipModel.fwd.
    destruct (fwd_from i (skipn cur sq) cur) as [r|] eqn:Hf; [|reflexivity].
    apply fwd_from_range in Hf. rewrite nth_error_skipn_add. replace (cur + (r - cur)) with r by lia.
    rewrite skipn_skipn'. replace (S (r - cur) + cur) with (S r) by lia. reflexivity.
  Qed.

  Lemma traverse_from_length : forall (sq : list node) v i cur, length (traverse_from sq v i cur) = i.
  Proof.
    intros sq v i. induction i as [|i IH]; intros cur; cbn [SkipModel.traverse_from]; [reflexivity|].
    rewrite app_length, IH. cbn. lia.
  Qed.

  Section WithHeap.
    Variable h : list (nat * pnode T).
    Variable sq : list node.
    Hypothesis HN : Rnode h sq.
    Hypothesis HL : forall i, Rlev h sq i.

    Lemma pvalue_idx : forall r n, nth_error sq r = Some n -> pvalue h (idx_id sq r) = POk (nval n).
    Proof.
      intros r n Hn. assert (Hr : S r <= length sq).
      { apply Nat.le_succ_l. apply nth_error_Some. congruence. }
      pose proof (HN (S r) Hr) as Hna. cbn [SkipPtrProof.pid SkipPtrProof.pvl SkipPtrProof.pht] in Hna. rewrite Hn in Hna. cbn [option_map] in Hna.
      eapply pvalue_node_at; eauto.
    Qed.

    Lemma p_walk_sim : forall v i fuel cur, cur <= length sq -> i < pht sq cur -> length sq - cur < fuel ->
      let r := advance i v (skipn cur sq) cur cur in
      p_walk fuel h v i (pid sq cur) = POk (pid sq r) /\ r <= length sq /\ i < pht sq r.
    Proof.
      intros v i fuel. induction fuel as [|f IH]; intros cur Hc Hi Hf; [lia|].
      cbv zeta. cbn [SkipModel.p_walk]. rewrite (HL i cur Hc Hi). rewrite advance_unfold.
      pose proof (fwd_spec T i sq cur) as Hsp.
      destruct (fwd i sq cur) as [r|] eqn:Hfw; cbn [option_map pbind]; [|auto].
      destruct Hsp as [Hcr [n [Hn [Hon _]]]]. rewrite Hn. rewrite (pvalue_idx r n Hn). cbn [pbind].
      change (cmp (nval n) v <? 0)%Z with (ltb v n).
      destruct (ltb v n); [|auto].
      assert (Hr : r < length sq) by (apply nth_error_Some; congruence).
      change (idx_id sq r) with (pid sq (S r)). apply IH; [lia| |lia].
      cbn [SkipPtrProof.pht]. rewrite Hn. unfold SkipModel.on_level in Hon. apply Nat.ltb_lt in Hon. exact Hon.
    Qed.

    Lemma p_trav_sim : forall v fuel, length sq < fuel ->
      forall i cur upd0, i <= MaxLevel -> length upd0 = MaxLevel -> cur <= length sq ->
      (forall j, j < i -> j < pht sq cur) ->
      let u := traverse_from sq v i cur in
      exists upd1,
        p_trav fuel h v i (pid sq cur) upd0 = POk (pid sq (match i with 0 => cur | S _ => nth 0 u 0 end), upd1) /\
        length upd1 = MaxLevel /\
        (forall j, j < i -> nth_error upd1 j = Some (Some (pid sq (nth j u 0)))) /\
        (forall j, i <= j -> nth_error upd1 j = nth_error upd0 j) /\
        (forall j, j < i -> nth j u 0 <= length sq /\ j < pht sq (nth j u 0)).
    Proof.
      intros v fuel Hfuel i. induction i as [|i IH]; intros cur upd0 Hi Hlen Hc Hon; cbv zeta.
      - exists upd0. cbn [SkipModel.p_trav SkipModel.traverse_from]. split; [reflexivity|]. split; [exact Hlen|]. split; [intros j Hj; lia|].
        split; [intros j Hj; reflexivity|intros j Hj; lia].
      - cbn [SkipModel.p_trav SkipModel.traverse_from].
        destruct (p_walk_sim v i fuel cur Hc (Hon i (Nat.lt_succ_diag_r i))) as [Hw [Hr Hir]]; [lia|].
        set (cur' := advance i v (skipn cur sq) cur cur) in *.
        rewrite Hw. cbn [pbind].
        destruct (Nat.ltb_spec i (length upd0)) as [Hlt|Hge]; [|lia].
        destruct (IH cur' (set_nth upd0 i (Some (pid sq cur')))) as [upd1 [Hp [Hl1 [Hlow [Hhigh Hpos]]]]];
          [lia|rewrite set_nth_length; exact Hlen|exact Hr|intros j Hj; lia|].
        set (u' := traverse_from sq v i cur') in *.
        assert (Hlu : length u' = i) by apply traverse_from_length.
        exists upd1. rewrite Hp. split.
        + f_equal. f_equal. f_equal. destruct i as [|i'].
          * destruct u'; [reflexivity|discriminate].
          * rewrite app_nth1 by lia. reflexivity.
        + split; [exact Hl1|]. split; [|split].
          * intros j Hj. destruct (Nat.eq_dec j i) as [->|Hne].
            -- rewrite app_nth2 by lia. rewrite Hlu, Nat.sub_diag. cbn [nth].
               rewrite Hhigh by lia. apply set_nth_same. lia.
            -- rewrite app_nth1 by lia. apply Hlow. lia.
          * intros j Hj. rewrite Hhigh by lia. apply set_nth_other. lia.
          * intros j Hj. destruct (Nat.eq_dec j i) as [->|Hne].
            -- rewrite app_nth2 by lia. rewrite Hlu, Nat.sub_diag. cbn [nth]. auto.
            -- rewrite app_nth1 by lia. apply Hpos. lia.
    Qed.
  End WithHeap.
End Trav.

Lemma MaxLevel_pos : 1 <= MaxLevel.
Proof. unfold MaxLevel. lia. Qed.

Section ReadOnly.
  Variable T : Type.
  Variable cmp : T -> T -> Z.
  Hypothesis cmp_antisym : forall a b, Z.sgn (cmp b a) = (- Z.sgn (cmp a b))%Z.
  Hypothesis cmp_trans : forall a b c, (cmp a b <= 0)%Z -> (cmp b c <= 0)%Z -> (cmp a c <= 0)%Z.

  Notation node := (node T).
  Notation sl := (sl T).
  Notation psl := (psl T).
  Notation on_level := (on_level T).
  Notation fwd := (fwd T).
  Notation traverse := (traverse T cmp).
  Notation pforward := (pforward T).
  Notation pvalue := (pvalue T).
  Notation idx_id := (idx_id T).
  Notation pid := (pid T).
  Notation pht := (pht T).
  Notation pvl := (pvl T).
  Notation Rnode := (Rnode T).
  Notation Rlev := (Rlev T).
  Notation skip_inv := (skip_inv T cmp).
  Notation heap := (heap T).
  Notation plevel := (plevel T).
  Notation psize := (psize T).
  Notation pnext := (pnext T).

  (* the simulation relation between a pointer state and a heights state *)
  Definition SR (sp : psl) (s : sl) : Prop :=
    plevel sp = level s /\ psize sp = size s /\ pnext sp = nextid s /\
    Rnode (heap sp) (nodes s) /\ forall i, Rlev (heap sp) (nodes s) i.

  (* ---------- what skip_inv gives ---------- *)
  Lemma inv_ids_ok : forall s : sl, skip_inv s -> ids_ok T (nodes s).
  Proof.
    intros s (_ & Hnd & Hids & _). unfold ids_ok. constructor; [|exact Hnd].
    intros Hin. apply in_map_iff in Hin. destruct Hin as [n [Hn Hin]].
    rewrite Forall_forall in Hids. specialize (Hids n Hin). lia.
  Qed.

  Lemma inv_len_lt : forall s : sl, skip_inv s -> length (nodes s) < nextid s.
  Proof.
    intros s (_ & Hnd & Hids & Hnx & _).
    pose proof (nodup_bound (map nid (nodes s)) (nextid s) Hnx Hnd) as H. rewrite map_length in H.
    apply H. intros x Hin. apply in_map_iff in Hin. destruct Hin as [n [<- Hin]].
    rewrite Forall_forall in Hids. apply Hids. exact Hin.
  Qed.

  Lemma inv_level_le : forall s : sl, skip_inv s -> 1 <= level s <= MaxLevel.
  Proof.
    intros s (_ & _ & _ & _ & _ & Hh & (Hl1 & _ & Hex) & _). split; [exact Hl1|].
    destruct Hex as [H1|[n [Hin Hn]]]; [rewrite H1; apply MaxLevel_pos|].
    rewrite Forall_forall in Hh. specialize (Hh n Hin). lia.
  Qed.

  Lemma inv_pht0 : forall (s : sl) p, skip_inv s -> p <= length (nodes s) -> 0 < pht (nodes s) p.
  Proof.
    intros s [|k] Hinv Hp; cbn [SkipPtrProof.pht]; [apply MaxLevel_pos|].
    destruct (nth_error (nodes s) k) as [n|] eqn:Hn; [|apply nth_error_None in Hn; lia].
    pose proof (inv_h1 T cmp s Hinv) as Hh. rewrite Forall_forall in Hh. apply Hh. eapply nth_error_In; eauto.
  Qed.

  Section Related.
    Variable sp : psl.
    Variable s : sl.
    Hypothesis Hinv : skip_inv s.
    Hypothesis HSR : SR sp s.

    Let sq := nodes s.
    Let h := heap sp.

    Lemma SR_node : Rnode h sq.
    Proof. destruct HSR as (_ & _ & _ & H & _). exact H. Qed.
    Lemma SR_lev : forall i, Rlev h sq i.
    Proof. destruct HSR as (_ & _ & _ & _ & H). exact H. Qed.

    Lemma fuel_enough : length sq < p_fuel T sp.
    Proof.
      unfold p_fuel. destruct HSR as (_ & _ & Hn & _). rewrite Hn.
      pose proof (inv_len_lt s Hinv) as Hlt. fold sq in Hlt. lia.
    Qed.

    (* traverse: the same predecessor on every level, as identities *)
    Lemma p_traverse_sim : forall v,
      let u := traverse sq v (level s) in
      exists upd1,
        p_traverse T cmp sp v = POk (pid sq (upd u 0), upd1) /\
        length upd1 = MaxLevel /\
        (forall j, j < level s -> nth_error upd1 j = Some (Some (pid sq (upd u j)))) /\
        (forall j, level s <= j -> j < MaxLevel -> nth_error upd1 j = Some None) /\
        (forall j, j < level s -> upd u j <= length sq /\ j < pht sq (upd u j)).
    Proof.
      intros v. cbv zeta. unfold p_traverse. pose proof (inv_level_le s Hinv) as [Hl1 Hl32].
      destruct HSR as (Hlv & _ & _ & _ & _). rewrite Hlv.
      destruct (p_trav_sim T cmp h sq SR_node SR_lev v (p_fuel T sp) fuel_enough (level s) 0 (repeat None MaxLevel))
        as [upd1 [Hp [Hl [Hlow [Hhigh Hpos]]]]];
        [exact Hl32|apply repeat_length|lia|intros j Hj; cbn [SkipPtrProof.pht]; lia|].
      exists upd1. unfold SkipModel.traverse, upd. change 0 with (pid sq 0) at 1. fold h. rewrite Hp.
      split; [destruct (level s); [lia|reflexivity]|].
      split; [exact Hl|]. split; [exact Hlow|]. split; [|exact Hpos].
      intros j Hj Hj32. rewrite Hhigh by exact Hj. apply nth_error_repeat. exact Hj32.
    Qed.

    Lemma p_search_sim : forall v, p_search T cmp v sp = POk (search T cmp v s).
    Proof.
      intros v. unfold p_search, search. destruct (p_traverse_sim v) as [upd1 [Hp [_ [_ [_ Hpos]]]]].
      rewrite Hp. cbn [pbind fst]. pose proof (inv_level_le s Hinv) as [Hl1 _].
      destruct (Hpos 0 Hl1) as [Hc H0]. fold sq. fold h.
      rewrite (SR_lev 0 _ Hc H0).
      pose proof (fwd_spec T 0 sq (upd (traverse sq v (level s)) 0)) as Hsp.
      destruct (fwd 0 sq (upd (traverse sq v (level s)) 0)) as [r|]; cbn [option_map pbind]; [|reflexivity].
      destruct Hsp as [_ [n [Hn _]]]. rewrite Hn.
      rewrite (pvalue_idx T h sq SR_node r n Hn). reflexivity.
    Qed.

    Lemma p_peek_sim : p_peek T sp = POk (peek T s).
    Proof.
      unfold p_peek, peek. fold sq. fold h. change 0 with (pid sq 0) at 1.
      rewrite (SR_lev 0 0 (Nat.le_0_l _)) by (cbn [SkipPtrProof.pht]; apply MaxLevel_pos).
      pose proof (fwd_spec T 0 sq 0) as Hsp.
      destruct (fwd 0 sq 0) as [r|]; cbn [option_map pbind]; [|reflexivity].
      destruct Hsp as [_ [n [Hn _]]]. rewrite Hn.
      rewrite (pvalue_idx T h sq SR_node r n Hn). reflexivity.
    Qed.

    Lemma p_hops_sim : forall n p, p + n <= length sq ->
      p_hops T n h (Some (pid sq p)) = POk (Some (pid sq (p + n))).
    Proof.
      induction n as [|n IH]; intros p Hp; cbn [p_hops].
      - rewrite Nat.add_0_r. reflexivity.
      - rewrite (SR_lev 0 p) by (try apply (inv_pht0 s p Hinv); fold sq; lia).
        rewrite (fwd0 T sq p (inv_h1 T cmp s Hinv)).
        destruct (Nat.ltb_spec p (length sq)) as [Hlt|Hge]; [|lia]. cbn [option_map pbind].
        change (idx_id sq p) with (pid sq (S p)). rewrite IH by lia. do 3 f_equal. lia.
    Qed.

    Lemma p_get_sim : forall index, p_get T index sp = POk (get T index s).
    Proof.
      intros index. unfold p_get, get. destruct HSR as (_ & Hsz & _). rewrite Hsz.
      destruct ((index <? 0)%Z || (size s <=? index)%Z) eqn:Hb; [reflexivity|].
      apply orb_false_iff in Hb. destruct Hb as [Hb1 Hb2].
      apply Z.ltb_ge in Hb1. apply Z.leb_gt in Hb2.
      assert (Hsl : size s = Z.of_nat (length sq)) by (destruct Hinv as (_ & _ & _ & _ & H & _); exact H).
      set (k := Z.to_nat index). assert (Hk : k < length sq) by lia.
      fold h. change 0 with (pid sq 0) at 1. rewrite (p_hops_sim (S k) 0) by lia. cbn [pbind plus].
      unfold chain. fold sq. rewrite (chain0_all T sq (inv_h1 T cmp s Hinv)).
      destruct (nth_error sq k) as [nd|] eqn:Hn; [|apply nth_error_None in Hn; lia].
      cbn [SkipPtrProof.pid]. rewrite (pvalue_idx T h sq SR_node k nd Hn). reflexivity.
    Qed.

    (* following Forward[i] from a position enumerates the rest of chain i *)
    Lemma p_chain_from_sim : forall i fuel p, p <= length sq -> i < pht sq p -> length sq - p < fuel ->
      p_chain_from T fuel h i (pid sq p) = POk (map nid (filter (on_level i) (skipn p sq))).
    Proof.
      intros i fuel. induction fuel as [|f IH]; intros p Hp Hi Hf; [lia|].
      cbn [p_chain_from]. rewrite (SR_lev i p Hp Hi).
      pose proof (filter_fwd T i sq p) as Hff. pose proof (fwd_spec T i sq p) as Hsp.
      destruct (fwd i sq p) as [r|]; cbn [option_map pbind].
      - destruct Hff as [n [Hn Hfl]]. destruct Hsp as [Hpr [n' [Hn' [Hon _]]]].
        rewrite Hn in Hn'. injection Hn' as <-.
        assert (Hr : r < length sq) by (apply nth_error_Some; congruence).
        change (idx_id sq r) with (pid sq (S r)). rewrite IH; [| lia | | lia].
        + cbn [pbind]. rewrite Hfl. cbn [map SkipPtrProof.pid]. unfold SkipPtrProof.idx_id. rewrite Hn. reflexivity.
        + cbn [SkipPtrProof.pht]. rewrite Hn. unfold SkipModel.on_level in Hon. apply Nat.ltb_lt in Hon. exact Hon.
      - rewrite Hff. reflexivity.
    Qed.

    Lemma p_chain_sim : forall i, i < MaxLevel -> p_chain T sp i = POk (map nid (chain T i s)).
    Proof.
      intros i Hi. unfold p_chain.
      change (p_chain_from T (p_fuel T sp) h i (pid sq 0) = POk (map nid (chain T i s))).
      rewrite p_chain_from_sim; [reflexivity|lia|exact Hi|]. pose proof fuel_enough as Hfuel. lia.
    Qed.

    Lemma pvalue_nid : forall n, In n sq -> pvalue h (nid n) = POk (nval n).
    Proof.
      intros n Hin. destruct (In_nth_error _ _ Hin) as [r Hr].
      rewrite <- (pvalue_idx T h sq SR_node r n Hr). unfold SkipPtrProof.idx_id. rewrite Hr. reflexivity.
    Qed.

    Lemma pmapM_pvalue : forall l : list node, (forall n, In n l -> In n sq) ->
      pmapM (pvalue h) (map nid l) = POk (map nval l).
    Proof.
      induction l as [|a l IH]; intros Hsub; cbn [map pmapM]; [reflexivity|].
      rewrite (pvalue_nid a (Hsub a (or_introl eq_refl))). cbn [pbind].
      rewrite IH by (intros n Hn; apply Hsub; right; exact Hn). reflexivity.
    Qed.

    Lemma p_as_slice_sim : p_as_slice T sp = POk (as_slice T s).
    Proof.
      unfold p_as_slice, as_slice. rewrite (p_chain_sim 0 MaxLevel_pos). cbn [pbind]. fold h.
      apply pmapM_pvalue. intros n Hn. unfold chain in Hn. apply filter_In in Hn. apply Hn.
    Qed.
  End Related.
End ReadOnly.
