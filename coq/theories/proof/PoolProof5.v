(* Proofs about PoolModel, part 5: the task ledger (C10: never_twice, never_both,
   rejected_never_runs, accepted tasks are in the ledger) and panic containment. *)
From Ekit Require Import Common Conc PoolModel PoolProof PoolProof2 PoolProof3 PoolProof4.
From Coq Require Import ZifyBool Arith PeanoNat.

(* ---------------------------------------------------------------- counting ids *)
Fixpoint cnt (i : nat) (l : list nat) : Z :=
  match l with [] => 0 | x :: r => (if Nat.eqb x i then 1 else 0) + cnt i r end.
Lemma cnt_app i l1 l2 : cnt i (l1 ++ l2) = cnt i l1 + cnt i l2.
Proof. induction l1 as [|x r IH]; cbn; [reflexivity|rewrite IH; lia]. Qed.
Lemma cnt_nonneg i l : 0 <= cnt i l.
Proof. induction l as [|x r IH]; cbn; [lia|destruct (Nat.eqb x i); lia]. Qed.
Lemma cnt_in i l : 1 <= cnt i l <-> In i l.
Proof.
  induction l as [|x r IH]; cbn; [split; [lia|tauto]|].
  destruct (Nat.eqb x i) eqn:E.
  - apply Nat.eqb_eq in E. pose proof (cnt_nonneg i r). split; [auto|lia].
  - apply Nat.eqb_neq in E. rewrite IH. split; [auto|intros [H|H]; [congruence|exact H]].
Qed.
Lemma cnt_le1_nodup l : (forall i, cnt i l <= 1) -> NoDup l.
Proof.
  induction l as [|x r IH]; intros H; [constructor|].
  constructor.
  - intros Hin. apply cnt_in in Hin. specialize (H x). cbn in H. rewrite Nat.eqb_refl in H. lia.
  - apply IH. intros i. specialize (H i). cbn in H. destruct (Nat.eqb x i); lia.
Qed.

Definition idz (i : nat) (k : task) : Z := if Nat.eqb (tk_id k) i then 1 else 0.
Definition ids (l : list task) : list nat := map tk_id l.
Lemma idz_nonneg i k : 0 <= idz i k. Proof. unfold idz. destruct (Nat.eqb _ _); lia. Qed.

(* ---------------------------------------------------------------- who holds a task *)
(* a worker between its receive and the `if !ok` test *)
Definition hold1_pc (p : ppc) : bool :=
  match p with
  | WCaseQueue | WIfIsIn | IiRLock | IiDefer | IiLookup | IiRet | WRcDel | RdLock | RdDefer | RdIf | RdDec
  | RdDelete | WStop1 | WDrain1 | WIfNotOk => true
  | _ => false
  end.
(* ... between that test (ok = true) and the end of the user function *)
Definition hold2_pc (p : ppc) : bool :=
  match p with WRunInc | WRun | RwDefer | RwRet | TfRet | WUser => true | _ => false end.
Definition held (i : nat) (th : thr) : Z :=
  if hold1_pc (pc th) then (if l_ok th then idz i (l_task th) else 0)
  else if hold2_pc (pc th) then idz i (l_task th) else 0.
Definition inuser (i : nat) (th : thr) : Z :=
  match pc th with WUser => idz i (l_task th) | _ => 0 end.
(* ShutdownNow's drain loop *)
Definition drain (i : nat) (th : thr) : Z :=
  match pc th with
  | SnAppend => idz i (l_task th) + cnt i (ids (l_acc th))
  | SnRange | SnRet => cnt i (ids (l_acc th))
  | _ => 0
  end.
(* Submit calls *)
Definition sub_pc (p : ppc) : bool :=
  match p with
  | SbNil | SbRetInvalid | SbFor | SbChkClosing | SbRetClosing | SbChkStopped | SbRetStopped
  | SbWrap | SbTry1 | SbIf1 | SbRet1 | SbTry2 | SbIf2 | SbRet2
  | TsCas | TsDefer | TsSelect | TsCaseCtx | TsRetCtx | TsCaseSend | TsIfCreate | TsInc | TsId | TsGo
  | TsRetT | TsCaseDefault | TsRetF0 | TsRetF1 | AlRLock | AlDefer | AlRate | AlRet | SiLock | SiAdd | SiUnlock => true
  | _ => false
  end.
Definition post_pc (p : ppc) : bool :=
  match p with
  | TsCaseSend | TsIfCreate | AlRLock | AlDefer | AlRate | AlRet | TsInc | SiLock | SiAdd | SiUnlock
  | TsId | TsGo | TsRetT => true
  | _ => false
  end.
Definition ifret_pc (p : ppc) : bool :=
  match p with SbIf1 | SbRet1 | SbIf2 | SbRet2 => true | _ => false end.
Definition sentp (th : thr) : bool := post_pc (pc th) || (ifret_pc (pc th) && l_ok th).
Definition sentfl (i : nat) (th : thr) : Z :=
  if sub_pc (pc th) && negb (l_nil th) && sentp th then idz i (l_task th) else 0.
Definition unsent (i : nat) (th : thr) : Z :=
  if sub_pc (pc th) && negb (l_nil th) && negb (sentp th) then idz i (l_task th) else 0.

Lemma held_nonneg i th : 0 <= held i th.
Proof. unfold held. pose proof (idz_nonneg i (l_task th)). destruct (hold1_pc (pc th)), (l_ok th), (hold2_pc (pc th)); lia. Qed.
Lemma inuser_nonneg i th : 0 <= inuser i th.
Proof. unfold inuser. pose proof (idz_nonneg i (l_task th)). destruct (pc th); lia. Qed.
Lemma drain_nonneg i th : 0 <= drain i th.
Proof. unfold drain. pose proof (idz_nonneg i (l_task th)). pose proof (cnt_nonneg i (ids (l_acc th))). destruct (pc th); lia. Qed.
Lemma sentfl_nonneg i th : 0 <= sentfl i th.
Proof. unfold sentfl. pose proof (idz_nonneg i (l_task th)). destruct (sub_pc (pc th) && negb (l_nil th) && sentp th); lia. Qed.
Lemma unsent_nonneg i th : 0 <= unsent i th.
Proof. unfold unsent. pose proof (idz_nonneg i (l_task th)). destruct (sub_pc (pc th) && negb (l_nil th) && negb (sentp th)); lia. Qed.
Lemma inuser_le_held i th : inuser i th <= held i th.
Proof. unfold inuser, held. pose proof (idz_nonneg i (l_task th)). destruct (pc th); cbn; destruct (l_ok th); lia. Qed.

Lemma held_eq i th : held i th =
  if hold1_pc (pc th) then (if l_ok th then idz i (l_task th) else 0)
  else if hold2_pc (pc th) then idz i (l_task th) else 0. Proof. reflexivity. Qed.
Lemma inuser_eq i th : inuser i th = match pc th with WUser => idz i (l_task th) | _ => 0 end.
Proof. reflexivity. Qed.
Lemma drain_eq i th : drain i th =
  match pc th with
  | SnAppend => idz i (l_task th) + cnt i (ids (l_acc th))
  | SnRange | SnRet => cnt i (ids (l_acc th))
  | _ => 0
  end. Proof. reflexivity. Qed.
Lemma sentfl_eq i th : sentfl i th =
  if sub_pc (pc th) && negb (l_nil th) && (post_pc (pc th) || (ifret_pc (pc th) && l_ok th)) then idz i (l_task th) else 0.
Proof. reflexivity. Qed.
Lemma unsent_eq i th : unsent i th =
  if sub_pc (pc th) && negb (l_nil th) && negb (post_pc (pc th) || (ifret_pc (pc th) && l_ok th)) then idz i (l_task th) else 0.
Proof. reflexivity. Qed.

(* thread-local facts *)
Definition L5 (th : thr) : Prop :=
  (match pc th with SnRange | SnAppend | SnRet => True | _ => l_acc th = [] end) /\
  (match pc th with
   | SbRetInvalid => l_nil th = true
   | SbNil => True
   | SbIf1 | SbIf2 => l_nil th = false /\ (l_ok th = true -> l_err th = PENone)
   | SbRet1 | SbRet2 => l_nil th = false /\ (l_ok th = true -> l_err th = PENone) /\
                        (l_ok th = true \/ is_err (l_err th) = true)
   | p => if sub_pc p then l_nil th = false else True
   end).

(* ---------------------------------------------------------------- sums that a hand-off changes *)
Definition wake_inv2 (g : thr -> Z) (gk : task -> Z) : Prop :=
  forall th, is_parked th = true ->
    (forall k, g (recv_ok k th) = g th + gk k) /\ g (recv_closed th) = g th /\ g (recv_int th) = g th.

Definition wake_add (gk : task -> Z) (w : wake) : Z :=
  match w with WkRecv _ k => gk k | _ => 0 end.

Lemma tsum_apply_wake2 g gk w l l' wk :
  wake_inv2 g gk -> apply_wake w l = Some (l', wk) -> tsum g l' = tsum g l + wake_add gk w.
Proof.
  intros Hg. destruct w as [|r k| |]; cbn.
  - intros H; injection H as <- _; lia.
  - destruct (lookup r l) as [th|] eqn:El; [|discriminate].
    destruct (is_parked th) eqn:Ep; [|discriminate].
    intros H; injection H as <- _. rewrite (tsum_update g r _ l th El).
    destruct (Hg th Ep) as [H1 _]. rewrite H1. lia.
  - intros H. pose proof (tsum_wake_all g recv_closed l) as Hw.
    destruct (wake_all recv_closed l) as [a b]. injection H as <- _. cbn [fst] in Hw. rewrite Hw; [lia|].
    intros th Ep. apply (Hg th Ep).
  - intros H. pose proof (tsum_wake_all g recv_int l) as Hw.
    destruct (wake_all recv_int l) as [a b]. injection H as <- _. cbn [fst] in Hw. rewrite Hw; [lia|].
    intros th Ep. apply (Hg th Ep).
Qed.

Lemma apply_out_tsum2 g gk c t th o c' obs :
  wake_inv2 g gk -> lookup t (c_thr c) = Some th -> apply_out c t o = Some (c', obs) ->
  tsum g (c_thr c') = tsum g (c_thr c) - g th + oget g (o_th o) + oget g (o_spawn o) + wake_add gk (o_wake o).
Proof.
  intros Hg Hl. unfold apply_out.
  set (l1 := match o_th o with Some th' => update t th' (c_thr c) | None => remove t (c_thr c) end).
  destruct (apply_wake (o_wake o) l1) as [[l2 wk]|] eqn:Ew; [|discriminate].
  intros H; injection H as <- _. cbn [c_thr].
  assert (H1 : tsum g l1 = tsum g (c_thr c) - g th + oget g (o_th o)).
  { unfold l1. destruct (o_th o) as [th'|]; cbn [oget].
    - apply tsum_update, Hl.
    - rewrite (tsum_remove g t _ th Hl). lia. }
  pose proof (tsum_apply_wake2 g gk _ _ _ _ Hg Ew) as H2.
  destruct (o_spawn o) as [w|]; cbn [oget]; [rewrite tsum_spawn|]; lia.
Qed.

Lemma wi2_of_wi g : wake_inv g -> wake_inv2 g (fun _ => 0).
Proof. intros H th Hp. destruct (H th Hp) as (H1 & H2 & H3). repeat split; auto. intros k. rewrite H1. lia. Qed.

Lemma wi2_held i : wake_inv2 (held i) (idz i).
Proof.
  intros th Hp. apply is_parked_pc in Hp. unfold held, recv_ok, recv_closed, recv_int. cbn. rewrite Hp. cbn.
  repeat split; intros; lia.
Qed.
Lemma wi_inuser i : wake_inv (inuser i). Proof. unfold inuser; wake_tac. Qed.
Lemma wi_drain i : wake_inv (drain i). Proof. unfold drain; wake_tac. Qed.
Lemma wi_sentfl i : wake_inv (sentfl i). Proof. unfold sentfl, sentp; wake_tac. Qed.
Lemma wi_unsent i : wake_inv (unsent i). Proof. unfold unsent, sentp; wake_tac. Qed.

Lemma wo_L5 : wake_ok L5.
Proof.
  intros th Hp [H1 H2]. apply is_parked_pc in Hp. unfold L5 in *. rewrite Hp in H1.
  unfold recv_ok, recv_closed, recv_int. cbn. repeat split; auto.
Qed.

(* ---------------------------------------------------------------- the ledger invariant (for one id) *)
Record Inv3 (i : nat) (c : pcfg) : Prop := {
  x_l1 : cnt i (g_sent (c_gh c)) =
         cnt i (ids (s_q (c_sh c))) + tsum (held i) (c_thr c) + tsum (drain i) (c_thr c) +
         cnt i (g_done (c_gh c)) + cnt i (g_returned (c_gh c));
  x_l2 : cnt i (g_started (c_gh c)) = tsum (inuser i) (c_thr c) + cnt i (g_done (c_gh c));
  x_l3 : tsum (unsent i) (c_thr c) + tsum (sentfl i) (c_thr c) + cnt i (g_acc (c_gh c)) + cnt i (g_rej (c_gh c)) =
         if Nat.ltb i (c_ntask c) then 1 else 0;
  x_l4 : cnt i (g_sent (c_gh c)) = tsum (sentfl i) (c_thr c) + cnt i (g_acc (c_gh c));
  x_loc : tall L5 (c_thr c)
}.

(* history events the ledger does not look at *)
Definition inert3 (e : gev) : bool :=
  match e with GStartOk | GShutOk | GNow | GGrace | GBegan | GShut => true | _ => false end.
Definition gh3_same (g g' : ghost) : Prop :=
  g_sent g' = g_sent g /\ g_started g' = g_started g /\ g_done g' = g_done g /\
  g_returned g' = g_returned g /\ g_acc g' = g_acc g /\ g_rej g' = g_rej g.
Lemma inert3_same l g : forallb inert3 l = true -> gh3_same g (apply_gevs g l).
Proof.
  revert g. induction l as [|e r IH]; intros g; cbn.
  - intros _. repeat split.
  - intros H. apply andb_prop in H. destruct H as [He Hr]. specialize (IH (apply_gev g e) Hr).
    unfold gh3_same in *. unfold apply_gevs in IH.
    destruct e; cbn in He; try discriminate; cbn in IH; exact IH.
Qed.

Definition no_recv (w : wake) : bool := match w with WkRecv _ _ => false | _ => true end.

Definition oall (Q : thr -> Prop) (o : option thr) : Prop := match o with Some th => Q th | None => True end.

Lemma inv3_frame i c t th oth r osp s' c' obs w g :
  Inv3 i c -> lookup t (c_thr c) = Some th ->
  apply_out c t (mkOut s' oth r osp w g) = Some (c', obs) ->
  forallb inert3 g = true -> no_recv w = true -> s_q s' = s_q (c_sh c) ->
  oget (held i) oth + oget (held i) osp = held i th ->
  oget (inuser i) oth + oget (inuser i) osp = inuser i th ->
  oget (drain i) oth + oget (drain i) osp = drain i th ->
  oget (sentfl i) oth + oget (sentfl i) osp = sentfl i th ->
  oget (unsent i) oth + oget (unsent i) osp = unsent i th ->
  oall L5 oth -> oall L5 osp -> Inv3 i c'.
Proof.
  intros [X1 X2 X3 X4 XL] Hl Ha Hg Hw Eq E1 E2 E3 E4 E5 HL HS.
  pose proof (apply_out_tsum2 (held i) (idz i) c t th _ c' obs (wi2_held i) Hl Ha) as A1.
  pose proof (apply_out_tsum (inuser i) c t th _ c' obs (wi_inuser i) Hl Ha) as A2.
  pose proof (apply_out_tsum (drain i) c t th _ c' obs (wi_drain i) Hl Ha) as A3.
  pose proof (apply_out_tsum (sentfl i) c t th _ c' obs (wi_sentfl i) Hl Ha) as A4.
  pose proof (apply_out_tsum (unsent i) c t th _ c' obs (wi_unsent i) Hl Ha) as A5.
  destruct (apply_out_fields c t _ c' obs Ha) as (_ & Fsh & Fnt & Fgh & _).
  cbn [o_th o_spawn o_sh o_gev o_wake] in *.
  destruct (inert3_same g (c_gh c) Hg) as (G1 & G2 & G3 & G4 & G5 & G6). rewrite <- Fgh in *.
  assert (Hwa : wake_add (idz i) w = 0) by (destruct w; cbn in *; try reflexivity; discriminate).
  rewrite Hwa in A1.
  constructor; rewrite ?Fsh, ?Fnt, ?G1, ?G2, ?G3, ?G4, ?G5, ?G6, ?Eq.
  - lia.
  - lia.
  - lia.
  - lia.
  - eapply apply_out_tall; [apply wo_L5|exact XL|exact Ha| |].
    + cbn [o_th]. intros x E; subst oth. exact HL.
    + cbn [o_spawn]. intros x E; subst osp. exact HS.
Qed.

Ltac same_tac Epc :=
  unfold held, inuser, drain, sentfl, unsent, sentp, oget, new_worker, wrap_task, idz; cbn; rewrite ?Epc; cbn;
  first [reflexivity | lia].

Ltac l5_tac HK Hl Epc :=
  let Lth := fresh "Lth" in
  pose proof (tall_lookup _ _ _ _ (x_loc _ _ HK) Hl) as Lth;
  unfold oall, L5, new_worker in Lth |- *; rewrite Epc in Lth; cbn in Lth |- *;
  clear HK; intuition (try congruence; try discriminate; auto).

Ltac frame3_tac HK Hl Ha Epc :=
  eapply (inv3_frame _ _ _ _ _ _ _ _ _ _ _ _ HK Hl Ha);
  [ reflexivity | reflexivity | reflexivity
  | same_tac Epc | same_tac Epc | same_tac Epc | same_tac Epc | same_tac Epc
  | l5_tac HK Hl Epc | l5_tac HK Hl Epc ].

Lemma inv3_step_pstep P i c t th ch o c' obs :
  c_par c = P -> Inv3 i c -> lookup t (c_thr c) = Some th ->
  pstep (c_par c) (parked_of (c_thr c)) (c_sh c) th ch = Some o ->
  apply_out c t o = Some (c', obs) -> Inv3 i c'.
Proof.
  intros Vpar HK Hl Hp Ha.
  rewrite Vpar in Hp.
  pstep_split Hp Epc.
  all: unfold unwind, back in Ha.
  all: ifs_in Ha.
  all: try solve [frame3_tac HK Hl Ha Epc].
  all: destruct HK as [X1 X2 X3 X4 XL].
  all: pose proof (apply_out_tsum2 (held i) (idz i) c t th _ c' obs (wi2_held i) Hl Ha) as A1.
  all: pose proof (apply_out_tsum (inuser i) c t th _ c' obs (wi_inuser i) Hl Ha) as A2.
  all: pose proof (apply_out_tsum (drain i) c t th _ c' obs (wi_drain i) Hl Ha) as A3.
  all: pose proof (apply_out_tsum (sentfl i) c t th _ c' obs (wi_sentfl i) Hl Ha) as A4.
  all: pose proof (apply_out_tsum (unsent i) c t th _ c' obs (wi_unsent i) Hl Ha) as A5.
  all: destruct (apply_out_fields c t _ c' obs Ha) as (_ & Fsh & Fnt & Fgh & _).
  all: pose proof (tall_lookup _ _ _ _ XL Hl) as Lth.
  all: cbn [o_th o_spawn o_sh o_gev o_wake oget wake_add apply_gevs fold_left apply_gev] in *.
  all: rewrite ?held_eq in A1; rewrite ?inuser_eq in A2; rewrite ?drain_eq in A3; rewrite ?sentfl_eq in A4; rewrite ?unsent_eq in A5.
  all: unfold L5 in Lth.
  all: try match goal with
       | E : pc _ = SbIf1 |- _ => destruct (l_ok th) eqn:Eok; destruct (is_err (l_err th)) eqn:Eer; destruct (l_nil th) eqn:Enil
       | E : pc _ = SbIf2 |- _ => destruct (l_ok th) eqn:Eok; destruct (is_err (l_err th)) eqn:Eer; destruct (l_nil th) eqn:Enil
       | E : pc _ = SbRet1 |- _ => destruct (l_ok th) eqn:Eok; destruct (is_err (l_err th)) eqn:Eer; destruct (l_nil th) eqn:Enil
       | E : pc _ = SbRet2 |- _ => destruct (l_ok th) eqn:Eok; destruct (is_err (l_err th)) eqn:Eer; destruct (l_nil th) eqn:Enil
       end.
  all: rewrite ?Epc in *.
  all: cbn in A1, A2, A3, A4, A5, Lth.
  all: try (exfalso; clear - Lth Eok Eer Enil; cbn in *; intuition (try congruence; try discriminate);
            match goal with H : l_err _ = PENone |- _ => rewrite H in *; cbn in *; discriminate end).
  all: unfold idz, tid_of, ids, wrap_task in *.
  all: rewrite ?map_app in A3; rewrite ?cnt_app in A3.
  all: cbn [tk_id map cnt] in *.
  all: constructor; rewrite ?Fsh, ?Fnt, ?Fgh;
       cbn [g_sent g_started g_done g_returned g_acc g_rej g_starts g_shuts g_now g_grace g_began g_shut
            gs_sent gs_started gs_done gs_returned gs_acc gs_rej gs_starts gs_shuts gs_now gs_grace gs_began gs_shut];
       unfold unlock_state; repeat match goal with |- context [if pstate_eqb ?a ?b then _ else _] => destruct (pstate_eqb a b) end; shcbn; unfold ids in *; rewrite ?map_app, ?cnt_app; cbn [cnt map tk_id].
  all: try match goal with
       | |- tall L5 _ =>
         eapply apply_out_tall; [apply wo_L5 | exact XL | exact Ha | | ];
         [ cbn [o_th]; intros x E; first [discriminate E | injection E as <-; unfold L5; cbn; rewrite ?Eok, ?Eer, ?Enil; cbn; intuition (try congruence; try discriminate; auto)]
         | cbn [o_spawn]; intros x E; first [discriminate E | injection E as <-; unfold L5; cbn; auto] ]
       end.
  all: try clear Ha; try clear XL; try clear Hl.
  all: repeat match goal with H : s_q _ = _ |- _ => rewrite H in *; clear H end.
  all: try match type of Lth with l_acc _ = [] /\ _ => let Hacc := fresh "Hacc" in destruct Lth as [Hacc Lth]; rewrite Hacc in * end.
  all: cbn [map cnt tk_id app] in *.
  all: repeat match goal with
       | H : context [if ?b then _ else _] |- _ => let E := fresh "Eb" in destruct b eqn:E
       | |- context [if ?b then _ else _] => let E := fresh "Eb" in destruct b eqn:E
       end.
  all: cbn [negb andb orb] in *.
  all: lia.
Qed.

