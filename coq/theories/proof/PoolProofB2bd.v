(* PoolModel (pool.OnDemandBlockTaskPool), proofs for C12 / liveness side of C10 - B2bd: facts whose classifiers change under wake-ups (interrupt branch, parked workers): definitions *)
From Ekit Require Import Common Conc PoolModel PoolProofB0 PoolProofB1 PoolProofB2d.
From Coq Require Import ZifyBool Arith PeanoNat.

Definition g_parked (p : ppc) : Z := match p with WParked => 1 | _ => 0 end.
Definition int_bad (ictx : bool) (x : thr) : Z := if ictx then 0 else g_int (pc x).
Definition parked_bad (f : bool) (x : thr) : Z := if f then g_parked (pc x) else 0.
Arguments int_bad ictx x /.
Arguments parked_bad f x /.
Definition pflag (s : shared) : bool := negb (qempty (s_q s)) || s_closed s || s_ictx s.

Lemma g_parked_nn p : 0 <= g_parked p. Proof. destruct p; cbn; lia. Qed.
Lemma int_bad_nn b x : 0 <= int_bad b x.
Proof. cbn [int_bad]. destruct b; [lia|apply g_int_nn]. Qed.
Lemma parked_bad_nn b x : 0 <= parked_bad b x.
Proof. cbn [parked_bad]. destruct b; [apply g_parked_nn|lia]. Qed.

Record invQ (c : pcfg) : Prop := {
  q_int : tsum (int_bad (s_ictx (c_sh c))) (c_thr c) = 0;
  q_parked : tsum (parked_bad (pflag (c_sh c))) (c_thr c) = 0
}.

Lemma invQ_init P : invQ (pinit P).
Proof. constructor; reflexivity. Qed.

(* what the wake-up of an outcome says about the new shared state *)
Lemma ev_out_wake c e th o :
  ev_out c e th = Some o ->
  match o_wake o with
  | WkNone => True
  | WkRecv _ _ => o_sh o = c_sh c /\ o_spawn o = None
  | WkClose => s_closed (o_sh o) = true /\ o_spawn o = None
  | WkCancel => s_ictx (o_sh o) = true /\ o_spawn o = None
  end.
Proof.
  intros Ho. destruct e as [t op|t ch|t|t|t]; cbn [ev_out] in Ho.
  - discriminate Ho.
  - generalize dependent (parked_of (c_thr c)); intros pk Ho.
    generalize dependent (c_par c); intros P Ho.
    destruct (c_sh c) as [st pv q cl tot run mp gn bw br gw gr idc ictx].
    pstep_split Ho th ch; msimp; auto.
  - destruct (l_cancel th); [discriminate Ho|injection Ho as <-]. exact I.
  - destruct (l_tm th); try discriminate Ho; injection Ho as <-; exact I.
  - destruct (pc th); try discriminate Ho; injection Ho as <-; exact I.
Qed.

Lemma ev_out_spawn c e th o w :
  ev_out c e th = Some o -> o_spawn o = Some w -> pc w = WNewTimer.
Proof.
  intros Ho. destruct e as [t op|t ch|t|t|t]; cbn [ev_out] in Ho.
  - discriminate Ho.
  - generalize dependent (parked_of (c_thr c)); intros pk Ho.
    generalize dependent (c_par c); intros P Ho.
    destruct (c_sh c) as [st pv q cl tot run mp gn bw br gw gr idc ictx].
    pstep_split Ho th ch; msimp; intros H; try discriminate H; injection H as <-; reflexivity.
  - destruct (l_cancel th); [discriminate Ho|injection Ho as <-]. discriminate.
  - destruct (l_tm th); try discriminate Ho; injection Ho as <-; discriminate.
  - destruct (pc th); try discriminate Ho; injection Ho as <-; discriminate.
Qed.

Lemma is_parked_pc x : is_parked x = true -> pc x = WParked.
Proof. unfold is_parked. destruct (pc x); try discriminate; reflexivity. Qed.
Lemma is_parked_npc x : is_parked x = false -> g_parked (pc x) = 0.
Proof. unfold is_parked. destruct (pc x); try discriminate; reflexivity. Qed.

(* sums of a function that vanishes on every non-parked thread, after everybody was woken *)
Lemma tsum_wake_all_zero f (g : thr -> thr) l :
  (forall x, is_parked x = false -> f x = 0) -> (forall x, is_parked x = true -> f (g x) = 0) ->
  tsum f (fst (wake_all g l)) = 0.
Proof.
  intros H0 H1. induction l as [|[t x] r IH]; cbn [wake_all tsum fst]; [reflexivity|].
  destruct (wake_all g r) as [r' w] eqn:E. cbn [fst] in IH.
  destruct (is_parked x) eqn:Ep; cbn [fst tsum]; rewrite IH; [rewrite (H1 x Ep)|rewrite (H0 x Ep)]; reflexivity.
Qed.

Lemma parked_of_nil l : parked_of l = [] -> tsum (pcf g_parked) l = 0.
Proof.
  induction l as [|[t x] r IH]; cbn [parked_of tsum]; [reflexivity|].
  destruct (is_parked x) eqn:Ep; [discriminate|]. intros H. cbn [pcf]. rewrite (is_parked_npc x Ep), (IH H). reflexivity.
Qed.

Lemma tsum_parked_bad_true l : tsum (parked_bad true) l = tsum (pcf g_parked) l.
Proof. apply tsum_ext_in. intros t x _. reflexivity. Qed.
Lemma tsum_parked_bad_false l : tsum (parked_bad false) l = 0.
Proof. induction l as [|[t x] r IH]; cbn [tsum parked_bad]; [reflexivity|rewrite IH; reflexivity]. Qed.
Lemma tsum_int_bad_true l : tsum (int_bad true) l = 0.
Proof. induction l as [|[t x] r IH]; cbn [tsum int_bad]; [reflexivity|rewrite IH; reflexivity]. Qed.

Definition invQ_G (l : list (tid * thr)) (th : thr) (o : pout) : Prop :=
  upd (tsum (int_bad (s_ictx (o_sh o))) l) (int_bad (s_ictx (o_sh o)) th)
      (oz (int_bad (s_ictx (o_sh o))) (o_th o)) (oz (int_bad (s_ictx (o_sh o))) (o_spawn o)) = 0 /\
  match o_wake o with
  | WkNone | WkRecv _ _ =>
    upd (tsum (parked_bad (pflag (o_sh o))) l) (parked_bad (pflag (o_sh o)) th)
        (oz (parked_bad (pflag (o_sh o))) (o_th o)) (oz (parked_bad (pflag (o_sh o))) (o_spawn o)) = 0
  | _ => True
  end.

Lemma int_bad_wake c e th o :
  ev_out c e th = Some o -> wake_ok (int_bad (s_ictx (o_sh o))) (o_wake o).
Proof.
  intros Ho. pose proof (ev_out_wake c e th o Ho) as Hw.
  destruct (o_wake o) as [|r k| |]; cbn [wake_ok]; [exact I| | |]; intros x Hp; apply is_parked_pc in Hp;
    cbn [int_bad recv_ok recv_closed recv_int pc goto set_has set_ok set_task]; rewrite Hp.
  - destruct (s_ictx (o_sh o)); reflexivity.
  - destruct (s_ictx (o_sh o)); reflexivity.
  - destruct Hw as [Hi _]. rewrite Hi. reflexivity.
Qed.

Lemma invQ_of_G c e t th o c' obs :
  lookup t (c_thr c) = Some th -> ev_out c e th = Some o -> apply_out c t o = Some (c', obs) ->
  invQ_G (c_thr c) th o -> invQ c'.
Proof.
  intros Hl Ho Ha [G1 G2]. destruct (apply_out_fields _ _ _ _ _ Ha) as (Hp & Hsh & Hgh & Hnt).
  constructor; rewrite Hsh.
  - rewrite (tsum_step _ c t th o c' obs Hl (int_bad_wake c e th o Ho) Ha). exact G1.
  - pose proof (ev_out_wake c e th o Ho) as Hw.
    set (f := parked_bad (pflag (o_sh o))) in *.
    assert (Hnn : forall x, 0 <= f x) by (intros x; apply parked_bad_nn).
    destruct (o_wake o) as [|r k| |] eqn:Ew.
    + rewrite (tsum_step f c t th o c' obs Hl); [exact G2|rewrite Ew; exact I|exact Ha].
    + (* hand-off: the receiver leaves the parked state *)
      unfold apply_out in Ha. rewrite Ew in Ha. cbn [apply_wake] in Ha.
      set (l1 := match o_th o with Some th' => update t th' (c_thr c) | None => remove t (c_thr c) end) in *.
      assert (H1 : tsum f l1 = oz f (o_th o) + tsum f (remove t (c_thr c))).
      { subst l1. destruct (o_th o) as [th'|]; cbn [oz]; [apply (tsum_update f t th' th), Hl|lia]. }
      destruct (lookup r l1) as [x|] eqn:Er; [|discriminate Ha].
      destruct (is_parked x) eqn:Ep; [|discriminate Ha].
      destruct Hw as [_ Hs]. rewrite Hs in Ha. injection Ha as <- _. cbn [c_thr].
      rewrite (tsum_update f r _ x l1 Er).
      pose proof (tsum_remove f r x l1 Er) as H2.
      pose proof (tsum_nonneg f (remove r l1) Hnn) as H3.
      assert (H4 : f (recv_ok k x) = 0).
      { subst f. cbn [parked_bad recv_ok pc goto set_has set_ok set_task]. destruct (pflag (o_sh o)); reflexivity. }
      unfold upd in G2. rewrite Hs in G2. cbn [oz] in G2. rewrite (tsum_remove f t th _ Hl) in G2.
      pose proof (Hnn x). lia.
    + unfold apply_out in Ha. rewrite Ew in Ha. cbn [apply_wake] in Ha.
      destruct Hw as [_ Hs]. rewrite Hs in Ha.
      match type of Ha with context [wake_all recv_closed ?l1] =>
        pose proof (tsum_wake_all_zero f recv_closed l1) as Hz; destruct (wake_all recv_closed l1) as [a b] end.
      injection Ha as <- _. cbn [c_thr fst] in *. apply Hz.
      * intros x Hx. subst f. cbn [parked_bad]. rewrite (is_parked_npc x Hx). destruct (pflag (o_sh o)); reflexivity.
      * intros x Hx. subst f. cbn [parked_bad recv_closed pc goto set_ok set_task]. destruct (pflag (o_sh o)); reflexivity.
    + unfold apply_out in Ha. rewrite Ew in Ha. cbn [apply_wake] in Ha.
      destruct Hw as [_ Hs]. rewrite Hs in Ha.
      match type of Ha with context [wake_all recv_int ?l1] =>
        pose proof (tsum_wake_all_zero f recv_int l1) as Hz; destruct (wake_all recv_int l1) as [a b] end.
      injection Ha as <- _. cbn [c_thr fst] in *. apply Hz.
      * intros x Hx. subst f. cbn [parked_bad]. rewrite (is_parked_npc x Hx). destruct (pflag (o_sh o)); reflexivity.
      * intros x Hx. subst f. cbn [parked_bad recv_int pc goto]. destruct (pflag (o_sh o)); reflexivity.
Qed.
