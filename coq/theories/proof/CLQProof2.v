(* Proofs about CLQModel (C06), part 2: every enabled event preserves the invariant of
   CLQProof.v, no event panics, the tail CAS of an Enqueue always succeeds, and the history of
   marked steps is a linearisation. *)
From Ekit Require Import Common Conc CLQModel CLQProof.
From Coq Require Import Arith PeanoNat Lia.

Local Open Scope nat_scope.

Ltac red_loc :=
  cbn [q_pc q_val q_newNode q_newPtr q_tailPtr q_tailL q_tailNext q_headPtr q_headL q_headNextPtr q_headNext
       set_pc set_newNode set_newPtr set_tailPtr set_tailL set_tailNext set_headPtr set_headL
       set_headNextPtr set_headNext loc0] in *.

Ltac red_cfg :=
  cbn [q_vals q_nexts q_head q_tail q_thr q_hist upd_thr] in *.

(* ---------- small facts ---------- *)
Lemma op_eqb_refl o : op_eqb o o = true.
Proof. destruct o; cbn; [apply Z.eqb_refl|reflexivity]. Qed.

Lemma res_eqb_refl r : res_eqb r r = true.
Proof. destruct r as [|[v|]]; cbn; try reflexivity. apply Z.eqb_refl. Qed.

Lemma res_eqb_eq a b : res_eqb a b = true -> a = b.
Proof.
  destruct a as [|[x|]], b as [|[y|]]; cbn; try discriminate; try reflexivity.
  intros H. apply Z.eqb_eq in H. subst. reflexivity.
Qed.

Lemma nodup_snoc (l : list nat) y : NoDup l -> ~ In y l -> NoDup (l ++ [y]).
Proof.
  intros Hnd Hy. induction l as [|x r IH]; cbn.
  - constructor; [tauto|constructor].
  - inversion Hnd as [|x' r' Hx Hr]; subst. constructor.
    + rewrite in_app_iff. cbn. intros [H|[H|[]]]; [tauto|]. subst. apply Hy. left; reflexivity.
    + apply IH; [exact Hr|]. intros H. apply Hy. right; exact H.
Qed.

Lemma shape_same c c' chain hi ti :
  shape c chain hi ti ->
  q_vals c' = q_vals c -> q_nexts c' = q_nexts c -> q_head c' = q_head c -> q_tail c' = q_tail c ->
  shape c' chain hi ti.
Proof.
  intros [S1 S2 S3 S4 S5 S6 S7 S8] Hv Hn Hh Ht.
  constructor; rewrite ?Hv, ?Hn, ?Hh, ?Ht; auto.
Qed.

Lemma abs_same c c' :
  q_vals c' = q_vals c -> q_nexts c' = q_nexts c -> q_head c' = q_head c -> q_tail c' = q_tail c ->
  clq_abs c' = clq_abs c.
Proof. intros Hv Hn Hh Ht. unfold clq_abs. rewrite Hv, Hn, Hh, Ht. reflexivity. Qed.

Lemma chain_idx_valid c chain hi ti k :
  shape c chain hi ti -> k <= ti ->
  exists x, nth_error chain k = Some x /\ x < length (q_nexts c) /\ x < length (q_vals c) /\ In x chain.
Proof.
  intros Sh Hk. pose proof (sh_idx _ _ _ _ Sh) as (H1 & H2 & H3).
  destruct (nth_error_lt_some chain k ltac:(lia)) as [x Hx]. exists x.
  assert (Hin : In x chain) by (eapply nth_error_In; exact Hx).
  pose proof (sh_valid _ _ _ _ Sh x Hin) as Hv. rewrite (sh_len _ _ _ _ Sh). auto.
Qed.

Lemma chain_idx_eq c chain hi ti i j :
  shape c chain hi ti -> i <= ti -> j <= ti -> nth_error chain i = nth_error chain j -> i = j.
Proof.
  intros Sh Hi Hj E.
  destruct (chain_idx_valid c chain hi ti i Sh Hi) as (x & Hx & _).
  eapply nodup_nth_inj; [apply Sh|exact Hx|]. rewrite <- E. exact Hx.
Qed.

(* what a call owns is a valid node outside the chain *)
Lemma owned_fresh vals chain hi ti l x :
  thr_ok vals chain hi ti l -> owned l = Some x -> ~ In x chain /\ x < length vals.
Proof.
  unfold thr_ok, owned. intros Hok Ho.
  assert (Hf : forall v p, fresh vals chain v p -> p = Some x -> ~ In x chain /\ x < length vals).
  { intros v p (y & Hp & Hv & Hn) E. rewrite Hp in E. injection E as ->. split; [exact Hn|].
    apply nth_error_Some. congruence. }
  destruct (q_pc l); try discriminate; (eapply Hf; [|exact Ho]); first [exact Hok|apply Hok].
Qed.

Lemma swinger_len vals chain hi ti l :
  thr_ok vals chain hi ti l -> is_swinger l = true -> length chain = ti + 2.
Proof.
  unfold thr_ok, is_swinger. destruct (q_pc l); try discriminate. tauto.
Qed.

(* ---------- the history part of the invariant ---------- *)
Lemma phase_cons t e h :
  phase t (e :: h) = match phase t h with
                     | None => None
                     | Some p => if Nat.eqb (hev_tid e) t then advance p e else Some p
                     end.
Proof. reflexivity. Qed.

(* the general step of the history invariant: thread t moves, at most one new event, by t *)
Lemma hist_ok_step c c' t (new : option clq_hev) :
  hist_ok c ->
  (forall t2, t2 <> t -> exp_of c' t2 = exp_of c t2) ->
  match new with
  | None => q_hist c' = q_hist c /\ exp_of c' t = exp_of c t /\ clq_abs c' = clq_abs c
  | Some e => q_hist c' = e :: q_hist c /\ hev_tid e = t /\ advance (exp_of c t) e = Some (exp_of c' t) /\
              match e with
              | HLin _ o r => fifo_spec o (clq_abs c) = (clq_abs c', r)
              | _ => clq_abs c' = clq_abs c
              end
  end ->
  hist_ok c'.
Proof.
  intros (Hlin & Hph) Hoth Hnew. destruct new as [e|].
  - destruct Hnew as (Hh & Ht & Hadv & Habs). split.
    + rewrite Hh. cbn [lin_run]. rewrite Hlin.
      destruct e as [t0 o|t0 o r|t0 r]; try (rewrite Habs; reflexivity).
      rewrite Habs. rewrite res_eqb_refl. reflexivity.
    + intros t2. rewrite Hh, phase_cons, Hph. rewrite Ht.
      destruct (Nat.eqb t t2) eqn:E.
      * apply Nat.eqb_eq in E. subst t2. exact Hadv.
      * apply Nat.eqb_neq in E. rewrite Hoth by congruence. reflexivity.
  - destruct Hnew as (Hh & Ht & Habs). split.
    + rewrite Hh, Habs. exact Hlin.
    + intros t2. rewrite Hh, Hph. destruct (Nat.eq_dec t2 t) as [->|Hne]; [rewrite Ht|rewrite Hoth by exact Hne]; reflexivity.
Qed.

Lemma exp_of_update_other c c' t l' t2 :
  q_thr c' = update t l' (q_thr c) -> q_vals c' = q_vals c -> t2 <> t -> exp_of c' t2 = exp_of c t2.
Proof.
  intros Ht Hv Hne. unfold exp_of. rewrite Ht, Hv. rewrite lookup_update_other by exact Hne. reflexivity.
Qed.

Lemma exp_of_update_self c c' t l l' :
  q_thr c' = update t l' (q_thr c) -> lookup t (q_thr c) = Some l -> exp_of c' t = exp_phase (q_vals c') l'.
Proof.
  intros Ht Hl. unfold exp_of. rewrite Ht. rewrite (lookup_update_same _ _ _ _ _ Hl). reflexivity.
Qed.

Lemma exp_of_self c t l : lookup t (q_thr c) = Some l -> exp_of c t = exp_phase (q_vals c) l.
Proof. intros Hl. unfold exp_of. rewrite Hl. reflexivity. Qed.

(* ---------- generic preservation lemmas ---------- *)
(* a statement that touches no shared state and is not a marked step *)
Lemma inv_goto c chain hi ti t l l' :
  shape c chain hi ti -> threads_ok (q_thr c) (q_vals c) chain hi ti -> hist_ok c ->
  lookup t (q_thr c) = Some l ->
  thr_ok (q_vals c) chain hi ti l' ->
  owned l' = owned l ->
  (is_swinger l' = true -> is_swinger l = true) ->
  exp_phase (q_vals c) l' = exp_phase (q_vals c) l ->
  clq_inv (upd_thr c (update t l' (q_thr c))).
Proof.
  intros Sh Th Hh Hl Hok Hown Hsw Hexp. exists chain, hi, ti. split; [|split].
  - eapply shape_same; eauto.
  - red_cfg. eapply threads_ok_local; eauto.
  - apply (hist_ok_step c _ t None Hh).
    + intros t2 Hne. apply (exp_of_update_other c _ t l' t2); [reflexivity|reflexivity|exact Hne].
    + split; [reflexivity|]. split; [|apply abs_same; reflexivity].
      rewrite (exp_of_update_self c (upd_thr c (update t l' (q_thr c))) t l l' eq_refl Hl).
      rewrite (exp_of_self c t l Hl). exact Hexp.
Qed.

(* a return statement *)
Lemma inv_ret c chain hi ti t l o r c' :
  shape c chain hi ti -> threads_ok (q_thr c) (q_vals c) chain hi ti -> hist_ok c ->
  lookup t (q_thr c) = Some l ->
  exp_phase (q_vals c) l = PLin o r ->
  c' = {| q_vals := q_vals c; q_nexts := q_nexts c; q_head := q_head c; q_tail := q_tail c;
          q_thr := remove t (q_thr c); q_hist := HRet t r :: q_hist c |} ->
  clq_inv c'.
Proof.
  intros Sh Th Hh Hl Hexp ->. exists chain, hi, ti. split; [|split].
  - eapply shape_same; eauto.
  - red_cfg. apply threads_ok_remove, Th.
  - apply (hist_ok_step c _ t (Some (HRet t r)) Hh).
    + intros t2 Hne. unfold exp_of. red_cfg. rewrite lookup_remove_other by exact Hne. reflexivity.
    + split; [reflexivity|]. split; [reflexivity|]. split; [|apply abs_same; reflexivity].
      rewrite (exp_of_self c t l Hl), Hexp. cbn [advance]. rewrite res_eqb_refl.
      unfold exp_of. red_cfg. rewrite lookup_remove_same by apply Th. reflexivity.
Qed.

(* a new call *)
Lemma inv_call c chain hi ti t p v o c' :
  shape c chain hi ti -> threads_ok (q_thr c) (q_vals c) chain hi ti -> hist_ok c ->
  lookup t (q_thr c) = None ->
  (p = EnqNewNode /\ o = OpEnq v \/ p = DeqFor /\ o = OpDeq) ->
  c' = {| q_vals := q_vals c; q_nexts := q_nexts c; q_head := q_head c; q_tail := q_tail c;
          q_thr := spawn t (loc0 p v) (q_thr c); q_hist := HCall t o :: q_hist c |} ->
  clq_inv c'.
Proof.
  intros Sh Th Hh Hl Hp ->. exists chain, hi, ti. split; [|split].
  - eapply shape_same; eauto.
  - red_cfg. apply threads_ok_spawn; auto.
    + unfold thr_ok. destruct Hp as [[-> _]|[-> _]]; exact I.
    + unfold owned. destruct Hp as [[-> _]|[-> _]]; reflexivity.
    + unfold is_swinger. destruct Hp as [[-> _]|[-> _]]; reflexivity.
  - apply (hist_ok_step c _ t (Some (HCall t o)) Hh).
    + intros t2 Hne. unfold exp_of. red_cfg. rewrite lookup_spawn_other by exact Hne. reflexivity.
    + split; [reflexivity|]. split; [reflexivity|]. split; [|apply abs_same; reflexivity].
      unfold exp_of at 1. rewrite Hl. cbn [advance].
      unfold exp_of. red_cfg. rewrite lookup_spawn_same by exact Hl.
      unfold exp_phase. destruct Hp as [[-> ->]|[-> ->]]; reflexivity.
Qed.

(* ---------- the statements that change the shared state ---------- *)
Lemma vals_snoc_mono (vals : list Z) v x w : nth_error vals x = Some w -> nth_error (vals ++ [v]) x = Some w.
Proof.
  intros H. rewrite nth_error_app1; [exact H|]. apply nth_error_Some. congruence.
Qed.

(* newNode := &node[T]{val: t} *)
Lemma inv_alloc c chain hi ti t l :
  shape c chain hi ti -> threads_ok (q_thr c) (q_vals c) chain hi ti -> hist_ok c ->
  lookup t (q_thr c) = Some l -> q_pc l = EnqNewNode ->
  clq_inv {| q_vals := q_vals c ++ [q_val l]; q_nexts := q_nexts c ++ [None];
             q_head := q_head c; q_tail := q_tail c;
             q_thr := update t (set_newNode l (Some (length (q_vals c))) EnqNewPtr) (q_thr c);
             q_hist := q_hist c |}.
Proof.
  intros Sh Th Hh Hl Hpc.
  pose proof Sh as [S1 S2 S3 S4 S5 S6 S7 S8].
  pose proof Th as (Hnd & Hall & Hpair).
  set (l' := set_newNode l (Some (length (q_vals c))) EnqNewPtr).
  set (c' := {| q_vals := q_vals c ++ [q_val l]; q_nexts := q_nexts c ++ [None]; q_head := q_head c;
                q_tail := q_tail c; q_thr := update t l' (q_thr c); q_hist := q_hist c |}).
  assert (Sh' : shape c' chain hi ti).
  { constructor; unfold c'; red_cfg; auto.
    - rewrite !app_length. cbn. lia.
    - intros x Hx. rewrite app_length. specialize (S3 x Hx). lia.
    - intros k x Hx. rewrite nth_error_app1; [apply S4, Hx|]. apply S3. eapply nth_error_In; exact Hx.
    - intros x Hx Hn. rewrite app_length in Hx. cbn in Hx.
      destruct (Nat.eq_dec x (length (q_nexts c))) as [->|Hne].
      + rewrite nth_error_snoc_eq. reflexivity.
      + rewrite nth_error_app1 by lia. apply S5; [lia|exact Hn]. }
  exists chain, hi, ti. split; [exact Sh'|]. split.
  - red_cfg. eapply threads_ok_update; [exact Th|exact Hl| |].
    + unfold thr_ok, l'. red_loc. exists (length (q_vals c)). split; [reflexivity|]. split.
      * apply nth_error_snoc_eq.
      * intros Hin. specialize (S3 _ Hin). lia.
    + intros t2 l2 Hne H2 Hok2 Hc. split.
      * eapply thr_ok_mono; try exact Hok2; try lia.
        -- intros x w. apply vals_snoc_mono.
        -- auto.
        -- intros x Ho. eapply owned_fresh; eauto.
      * split.
        -- unfold owned at 1 2. unfold l'. red_loc. intros _ E.
           symmetry in E. destruct (owned_fresh _ _ _ _ _ _ Hok2 E) as [_ Hlt]. lia.
        -- unfold is_swinger, l'. red_loc. discriminate.
  - apply (hist_ok_step c c' t None Hh).
    + intros t2 Hne. unfold exp_of, c'. red_cfg. rewrite lookup_update_other by exact Hne.
      destruct (lookup t2 (q_thr c)) as [l2|] eqn:E2; [|reflexivity].
      eapply exp_phase_mono; [eapply Hall; exact E2|]. intros x w. apply vals_snoc_mono.
    + split; [reflexivity|]. split.
      * rewrite (exp_of_update_self c c' t l l' eq_refl Hl). rewrite (exp_of_self c t l Hl).
        unfold exp_phase, l'. red_loc. rewrite Hpc. reflexivity.
      * rewrite (abs_shape _ _ _ _ Sh'), (abs_shape _ _ _ _ Sh). unfold c'. red_cfg.
        apply map_ext_in. intros x Hx. apply seg_in in Hx. specialize (S3 x Hx).
        unfold valof. apply app_nth1. lia.
Qed.

(* the successful link CAS:  atomic.CompareAndSwapPointer(&tail.next, tailNext, newPtr)  *)
Lemma inv_link c chain hi ti t l x cur :
  shape c chain hi ti -> threads_ok (q_thr c) (q_vals c) chain hi ti -> hist_ok c ->
  lookup t (q_thr c) = Some l -> q_pc l = EnqLinkCAS ->
  q_tailL l = Some x -> node_next (q_nexts c) (q_tailL l) = Some cur -> ptr_eqb cur (q_tailNext l) = true ->
  clq_inv {| q_vals := q_vals c; q_nexts := set_nth (q_nexts c) x (q_newPtr l);
             q_head := q_head c; q_tail := q_tail c;
             q_thr := update t (set_pc l EnqTailCAS) (q_thr c); q_hist := q_hist c |}.
Proof.
  intros Sh Th Hh Hl Hpc Htl Hnx Hcas.
  pose proof Sh as [S1 S2 S3 S4 S5 S6 S7 (S8 & S9 & S10)].
  pose proof Th as (Hnd & Hall & Hpair).
  pose proof (Hall t l Hl) as Hok. unfold thr_ok in Hok. rewrite Hpc in Hok.
  destruct Hok as ((y & Hy & Hyv & Hyn) & (k & Hk & Hkp & Hkl) & Hnil).
  apply ptr_eqb_eq in Hcas. rewrite Hnil in Hcas. subst cur.
  rewrite Htl in Hnx. cbn [node_next] in Hnx.
  assert (Hkx : nth_error chain k = Some x) by congruence.
  rewrite (S4 k x Hkx) in Hnx.
  assert (Hlast : nth_error chain (S k) = None) by congruence. clear Hnx.
  apply nth_error_None in Hlast.
  assert (Hkt : k = ti) by lia. subst k.
  assert (Hlen : length chain = S ti) by lia.
  assert (Hylt : y < length (q_nexts c)) by (rewrite <- S1; apply nth_error_Some; congruence).
  assert (Hxin : In x chain) by (eapply nth_error_In; exact Hkx).
  assert (Hxy : x <> y) by (intros ->; contradiction).
  set (l' := set_pc l EnqTailCAS).
  set (c' := {| q_vals := q_vals c; q_nexts := set_nth (q_nexts c) x (q_newPtr l); q_head := q_head c;
                q_tail := q_tail c; q_thr := update t l' (q_thr c); q_hist := q_hist c |}).
  assert (Hpre : forall j, j < length chain -> nth_error (chain ++ [y]) j = nth_error chain j).
  { intros j Hj. apply nth_error_app1, Hj. }
  assert (Sh' : shape c' (chain ++ [y]) hi ti).
  { constructor; unfold c'; red_cfg; auto.
    - rewrite qset_nth_length. exact S1.
    - apply nodup_snoc; assumption.
    - intros z Hz. rewrite qset_nth_length. apply in_app_or in Hz. destruct Hz as [Hz|[<-|[]]]; auto.
    - intros j z Hz. rewrite Hy.
      destruct (Nat.lt_trichotomy j ti) as [Hlt|[->|Hgt]].
      + rewrite Hpre in Hz by lia. rewrite Hpre by lia.
        assert (z <> x).
        { intros ->. pose proof (nodup_nth_inj chain j ti x S2 Hz Hkx). lia. }
        rewrite qset_nth_other by congruence. apply S4, Hz.
      + rewrite Hpre in Hz by lia. assert (z = x) by congruence. subst z.
        rewrite qset_nth_same by (apply S3, Hxin).
        rewrite <- Hlen. rewrite nth_error_snoc_eq. reflexivity.
      + destruct (Nat.eq_dec j (length chain)) as [->|Hne].
        * rewrite nth_error_snoc_eq in Hz. injection Hz as <-.
          rewrite qset_nth_other by exact Hxy. rewrite (S5 y Hylt Hyn).
          rewrite nth_error_snoc_gt by lia. reflexivity.
        * rewrite nth_error_snoc_gt in Hz by lia. discriminate.
    - intros z Hz Hn. rewrite qset_nth_length in Hz.
      assert (Hzc : ~ In z chain) by (intros H; apply Hn, in_or_app; left; exact H).
      assert (z <> x) by (intros ->; contradiction).
      rewrite qset_nth_other by congruence. apply S5; assumption.
    - rewrite Hpre by lia. exact S6.
    - rewrite Hpre by lia. exact S7.
    - rewrite app_length. cbn. lia. }
  exists (chain ++ [y]), hi, ti. split; [exact Sh'|]. split.
  - unfold c'. red_cfg. eapply threads_ok_update; [exact Th|exact Hl| |].
    + unfold thr_ok, l'. red_loc. rewrite app_length. cbn [length]. split; [lia|].
      split; [rewrite Hpre by lia; exact Hkp|]. split.
      * rewrite Hy, <- Hlen. rewrite nth_error_snoc_eq. reflexivity.
      * rewrite Hy. exact Hyv.
    + intros t2 l2 Hne H2 Hok2 [Hc1 Hc2].
      assert (Hns : is_swinger l2 = true -> False).
      { intros Hs. pose proof (swinger_len _ _ _ _ _ Hok2 Hs). lia. }
      split.
      * eapply thr_ok_mono; try exact Hok2; try lia; auto.
        -- intros z Ho Hin. apply in_app_or in Hin. destruct Hin as [Hin|[<-|[]]].
           ++ eapply owned_fresh; eauto.
           ++ assert (Hol : owned l = Some y) by (unfold owned; rewrite Hpc; exact Hy).
              apply Hc1; rewrite Hol; [discriminate|symmetry; exact Ho].
        -- intros Hs. exfalso. exact (Hns Hs).
      * split.
        -- unfold owned at 1. unfold l'. red_loc. congruence.
        -- intros _ Hs. exact (Hns Hs).
  - apply (hist_ok_step c c' t None Hh).
    + intros t2 Hne. apply (exp_of_update_other c c' t l' t2); [reflexivity|reflexivity|exact Hne].
    + split; [reflexivity|]. split.
      * rewrite (exp_of_update_self c c' t l l' eq_refl Hl). rewrite (exp_of_self c t l Hl).
        unfold exp_phase, l', c'. red_loc. red_cfg. rewrite Hpc. reflexivity.
      * rewrite (abs_shape _ _ _ _ Sh'), (abs_shape _ _ _ _ Sh). unfold c'. red_cfg.
        rewrite seg_app by lia. reflexivity.
Qed.

(* in a reachable configuration the tail CAS of an Enqueue finds the tail it linked behind *)
Lemma swing_succeeds c chain hi ti t l :
  shape c chain hi ti -> threads_ok (q_thr c) (q_vals c) chain hi ti ->
  lookup t (q_thr c) = Some l -> q_pc l = EnqTailCAS ->
  ptr_eqb (q_tail c) (q_tailPtr l) = true.
Proof.
  intros Sh (Hnd & Hall & Hpair) Hl Hpc.
  pose proof (Hall t l Hl) as Hok. unfold thr_ok in Hok. rewrite Hpc in Hok.
  destruct Hok as (_ & Hp & _). apply ptr_eqb_eq. rewrite Hp. apply Sh.
Qed.

(* the tail swing  atomic.CompareAndSwapPointer(&c.tail, tailPtr, newPtr):  Enqueue takes effect *)
Lemma inv_swing c chain hi ti t l :
  shape c chain hi ti -> threads_ok (q_thr c) (q_vals c) chain hi ti -> hist_ok c ->
  lookup t (q_thr c) = Some l -> q_pc l = EnqTailCAS ->
  clq_inv {| q_vals := q_vals c; q_nexts := q_nexts c; q_head := q_head c; q_tail := q_newPtr l;
             q_thr := update t (set_pc l EnqRet) (q_thr c);
             q_hist := HLin t (OpEnq (q_val l)) REnq :: q_hist c |}.
Proof.
  intros Sh Th Hh Hl Hpc.
  pose proof Sh as [S1 S2 S3 S4 S5 S6 S7 (S8 & S9 & S10)].
  pose proof Th as (Hnd & Hall & Hpair).
  pose proof (Hall t l Hl) as Hok. unfold thr_ok in Hok. rewrite Hpc in Hok.
  destruct Hok as (Hlen & Hp & Hq & Hv).
  set (l' := set_pc l EnqRet).
  set (c' := {| q_vals := q_vals c; q_nexts := q_nexts c; q_head := q_head c; q_tail := q_newPtr l;
                q_thr := update t l' (q_thr c); q_hist := HLin t (OpEnq (q_val l)) REnq :: q_hist c |}).
  assert (Sh' : shape c' chain hi (S ti)).
  { constructor; unfold c'; red_cfg; auto; lia. }
  assert (Hsw : is_swinger l = true) by (unfold is_swinger; rewrite Hpc; reflexivity).
  exists chain, hi, (S ti). split; [exact Sh'|]. split.
  - unfold c'. red_cfg. eapply threads_ok_update; [exact Th|exact Hl| |].
    + unfold thr_ok, l'. red_loc. exact I.
    + intros t2 l2 Hne H2 Hok2 [Hc1 Hc2]. split.
      * eapply thr_ok_mono; try exact Hok2; try lia; auto.
        -- intros z Ho. eapply owned_fresh; eauto.
        -- intros Hs. exfalso. exact (Hc2 Hsw Hs).
      * split.
        -- unfold owned at 1. unfold l'. red_loc. congruence.
        -- unfold is_swinger at 1. unfold l'. red_loc. discriminate.
  - apply (hist_ok_step c c' t (Some (HLin t (OpEnq (q_val l)) REnq)) Hh).
    + intros t2 Hne. apply (exp_of_update_other c c' t l' t2); [reflexivity|reflexivity|exact Hne].
    + split; [reflexivity|]. split; [reflexivity|]. split.
      * rewrite (exp_of_update_self c c' t l l' eq_refl Hl). rewrite (exp_of_self c t l Hl).
        unfold exp_phase, l', c'. red_loc. red_cfg. rewrite Hpc. cbn [advance]. rewrite op_eqb_refl. reflexivity.
      * rewrite (abs_shape _ _ _ _ Sh'), (abs_shape _ _ _ _ Sh). unfold c'. red_cfg.
        destruct (nth_error_lt_some chain (S ti) ltac:(lia)) as [y Hy].
        rewrite (seg_snoc chain hi ti y S8 Hy). rewrite map_app. cbn [map fifo_spec].
        rewrite Hq, Hy in Hv. cbn [node_val] in Hv.
        unfold valof. rewrite (nth_error_nth _ _ 0%Z Hv). reflexivity.
Qed.

(* the successful head CAS  atomic.CompareAndSwapPointer(&c.head, headPtr, headNextPtr):
   Dequeue takes effect and will return the value of the new dummy *)
Lemma inv_headcas c chain hi ti t l :
  shape c chain hi ti -> threads_ok (q_thr c) (q_vals c) chain hi ti -> hist_ok c ->
  lookup t (q_thr c) = Some l -> q_pc l = DeqCASHead ->
  ptr_eqb (q_head c) (q_headPtr l) = true ->
  clq_inv {| q_vals := q_vals c; q_nexts := q_nexts c; q_head := q_headNextPtr l; q_tail := q_tail c;
             q_thr := update t (set_pc l DeqHeadNext) (q_thr c);
             q_hist := match node_val (q_vals c) (q_headNextPtr l) with
                       | Some v => HLin t OpDeq (RDeq (Some v)) :: q_hist c
                       | None => q_hist c
                       end |}.
Proof.
  intros Sh Th Hh Hl Hpc Hcas.
  pose proof Sh as [S1 S2 S3 S4 S5 S6 S7 (S8 & S9 & S10)].
  pose proof Th as (Hnd & Hall & Hpair).
  pose proof (Hall t l Hl) as Hok. unfold thr_ok in Hok. rewrite Hpc in Hok.
  destruct Hok as (kh & Hkh & Hkt & Hp & Hq).
  apply ptr_eqb_eq in Hcas. rewrite S6, Hp in Hcas.
  assert (Hhk : hi = kh) by (eapply chain_idx_eq; [exact Sh| | |exact Hcas]; lia). subst kh.
  destruct (chain_idx_valid c chain hi ti (S hi) Sh Hkt) as (y & Hy & Hyn & Hyv & Hyin).
  destruct (nth_error_lt_some (q_vals c) y Hyv) as [v Hv].
  assert (Hnv : node_val (q_vals c) (q_headNextPtr l) = Some v) by (rewrite Hq, Hy; exact Hv).
  rewrite Hnv.
  set (l' := set_pc l DeqHeadNext).
  set (c' := {| q_vals := q_vals c; q_nexts := q_nexts c; q_head := q_headNextPtr l; q_tail := q_tail c;
                q_thr := update t l' (q_thr c); q_hist := HLin t OpDeq (RDeq (Some v)) :: q_hist c |}).
  assert (Sh' : shape c' chain (S hi) ti).
  { constructor; unfold c'; red_cfg; auto; lia. }
  exists chain, (S hi), ti. split; [exact Sh'|]. split.
  - unfold c'. red_cfg. eapply threads_ok_update; [exact Th|exact Hl| |].
    + unfold thr_ok, l'. red_loc. exists y, v. rewrite Hq, Hy. auto.
    + intros t2 l2 Hne H2 Hok2 [Hc1 Hc2]. split.
      * eapply thr_ok_mono; try exact Hok2; try lia; auto.
        intros z Ho. eapply owned_fresh; eauto.
      * split.
        -- unfold owned at 1. unfold l'. red_loc. congruence.
        -- unfold is_swinger at 1. unfold l'. red_loc. discriminate.
  - apply (hist_ok_step c c' t (Some (HLin t OpDeq (RDeq (Some v)))) Hh).
    + intros t2 Hne. apply (exp_of_update_other c c' t l' t2); [reflexivity|reflexivity|exact Hne].
    + split; [reflexivity|]. split; [reflexivity|]. split.
      * rewrite (exp_of_update_self c c' t l l' eq_refl Hl). rewrite (exp_of_self c t l Hl).
        unfold exp_phase, l', c'. red_loc. red_cfg. rewrite Hpc, Hnv. reflexivity.
      * rewrite (abs_shape _ _ _ _ Sh'), (abs_shape _ _ _ _ Sh). unfold c'. red_cfg.
        rewrite (seg_cons chain hi ti y ltac:(lia) Hy). cbn [map fifo_spec].
        unfold valof. rewrite (nth_error_nth _ _ 0%Z Hv). reflexivity.
Qed.

(* tailPtr := atomic.LoadPointer(&c.tail) in Dequeue, when it equals the loaded head:
   the queue IS empty at this instant *)
Lemma inv_loadtail_empty c chain hi ti t l :
  shape c chain hi ti -> threads_ok (q_thr c) (q_vals c) chain hi ti -> hist_ok c ->
  lookup t (q_thr c) = Some l -> q_pc l = DeqLoadTail ->
  ptr_eqb (q_headL l) (q_tail c) = true ->
  clq_inv {| q_vals := q_vals c; q_nexts := q_nexts c; q_head := q_head c; q_tail := q_tail c;
             q_thr := update t (set_tailPtr l (q_tail c) DeqTail) (q_thr c);
             q_hist := HLin t OpDeq (RDeq None) :: q_hist c |}.
Proof.
  intros Sh Th Hh Hl Hpc Heq.
  pose proof Sh as [S1 S2 S3 S4 S5 S6 S7 (S8 & S9 & S10)].
  pose proof Th as (Hnd & Hall & Hpair).
  pose proof (Hall t l Hl) as Hok. unfold thr_ok in Hok. rewrite Hpc in Hok.
  destruct Hok as (kh & Hkh & Hp & Hq).
  pose proof Heq as Heq'. apply ptr_eqb_eq in Heq'. rewrite Hq, Hp, S7 in Heq'.
  assert (Hk : kh = ti) by (eapply chain_idx_eq; [exact Sh| | |exact Heq']; lia).
  assert (Hht : hi = ti) by lia.
  set (l' := set_tailPtr l (q_tail c) DeqTail).
  set (c' := {| q_vals := q_vals c; q_nexts := q_nexts c; q_head := q_head c; q_tail := q_tail c;
                q_thr := update t l' (q_thr c); q_hist := HLin t OpDeq (RDeq None) :: q_hist c |}).
  assert (Sh' : shape c' chain hi ti) by (eapply shape_same; eauto).
  exists chain, hi, ti. split; [exact Sh'|]. split.
  - unfold c'. red_cfg. eapply threads_ok_local; [exact Th|exact Hl| | |].
    + unfold thr_ok, l'. red_loc. exists kh, ti. repeat split; auto; lia.
    + unfold owned, l'. red_loc. rewrite Hpc. reflexivity.
    + unfold is_swinger, l'. red_loc. discriminate.
  - apply (hist_ok_step c c' t (Some (HLin t OpDeq (RDeq None))) Hh).
    + intros t2 Hne. apply (exp_of_update_other c c' t l' t2); [reflexivity|reflexivity|exact Hne].
    + split; [reflexivity|]. split; [reflexivity|]. split.
      * rewrite (exp_of_update_self c c' t l l' eq_refl Hl). rewrite (exp_of_self c t l Hl).
        unfold exp_phase, l', c'. red_loc. red_cfg. rewrite Hpc, Heq. reflexivity.
      * rewrite (abs_same c c') by reflexivity. rewrite (abs_shape _ _ _ _ Sh). subst hi.
        rewrite seg_empty. reflexivity.
Qed.

(* ---------- every enabled event preserves the invariant and does not panic ---------- *)
Lemma clq_inv_init : clq_inv clq_init.
Proof.
  exists [O], O, O. split; [|split].
  - constructor; cbn; auto.
    + constructor; [tauto|constructor].
    + intros x [<-|[]]. lia.
    + intros [|k] x H; cbn in H; [injection H as <-; reflexivity|]. destruct k; discriminate.
    + intros x Hx Hn. exfalso. apply Hn. left. lia.
  - split; [constructor|]. split; intros; discriminate.
  - split; [reflexivity|]. intros t. reflexivity.
Qed.

Ltac goto_case Sh Th Hh Hl Hpc :=
  eapply inv_goto; [exact Sh|exact Th|exact Hh|exact Hl| | | | ];
  [ unfold thr_ok; red_loc
  | unfold owned; red_loc; rewrite Hpc; reflexivity
  | unfold is_swinger; red_loc; try rewrite Hpc; try discriminate; auto
  | unfold exp_phase; red_loc; rewrite Hpc; try reflexivity ].

Lemma clq_inv_step c e c' o :
  clq_inv c -> clq_exec1 c e = Some (c', o) -> clq_inv c' /\ o <> QPanic.
Proof.
  intros (chain & hi & ti & Sh & Th & Hh) Hstep.
  destruct e as [t v|t|t]; unfold clq_exec1 in Hstep.
  - destruct (lookup t (q_thr c)) as [l|] eqn:Hl; [discriminate|].
    injection Hstep as <- <-. split; [|discriminate].
    eapply (inv_call c chain hi ti t EnqNewNode v (OpEnq v)); eauto.
  - destruct (lookup t (q_thr c)) as [l|] eqn:Hl; [discriminate|].
    injection Hstep as <- <-. split; [|discriminate].
    eapply (inv_call c chain hi ti t DeqFor 0%Z OpDeq); eauto.
  - destruct (lookup t (q_thr c)) as [l|] eqn:Hl; [|discriminate].
    pose proof Sh as [S1 S2 S3 S4 S5 S6 S7 (S8 & S9 & S10)].
    pose proof Th as (Hnd & Hall & Hpair).
    pose proof (Hall t l Hl) as Hok. unfold thr_ok in Hok.
    destruct (q_pc l) eqn:Hpc; unfold goto, panic, ret in Hstep.
    + (* EnqNewNode *)
      injection Hstep as <- <-. split; [|discriminate]. eapply inv_alloc; eauto.
    + (* EnqNewPtr *)
      injection Hstep as <- <-. split; [|discriminate]. goto_case Sh Th Hh Hl Hpc. exact Hok.
    + (* EnqFor *)
      injection Hstep as <- <-. split; [|discriminate]. goto_case Sh Th Hh Hl Hpc. exact Hok.
    + (* EnqLoadTail *)
      injection Hstep as <- <-. split; [|discriminate]. goto_case Sh Th Hh Hl Hpc.
      split; [exact Hok|]. exists ti. split; [lia|exact S7].
    + (* EnqTail *)
      injection Hstep as <- <-. split; [|discriminate]. goto_case Sh Th Hh Hl Hpc.
      destruct Hok as (Hf & k & Hk & Hp). split; [exact Hf|]. exists k. auto.
    + (* EnqLoadNext *)
      destruct Hok as (Hf & k & Hk & Hp & Hq).
      destruct (chain_idx_valid c chain hi ti k Sh Hk) as (x & Hx & Hxn & _).
      assert (Hnx : node_next (q_nexts c) (q_tailL l) = Some (nth_error chain (S k))).
      { rewrite Hq, Hp, Hx. cbn [node_next]. apply S4, Hx. }
      rewrite Hnx in Hstep. injection Hstep as <- <-. split; [|discriminate].
      goto_case Sh Th Hh Hl Hpc. split; [exact Hf|]. exists k. auto.
    + (* EnqIfNext *)
      destruct Hok as (Hf & k & Hk & Hp & Hq).
      destruct (is_nil (q_tailNext l)) eqn:Hn; injection Hstep as <- <-; (split; [|discriminate]);
        goto_case Sh Th Hh Hl Hpc.
      * split; [exact Hf|]. split; [exists k; auto|]. destruct (q_tailNext l); [discriminate|reflexivity].
      * exact Hf.
    + (* EnqContinue *)
      injection Hstep as <- <-. split; [|discriminate]. goto_case Sh Th Hh Hl Hpc. exact Hok.
    + (* EnqLinkCAS *)
      destruct Hok as (Hf & (k & Hk & Hp & Hq) & Hnil).
      destruct (chain_idx_valid c chain hi ti k Sh Hk) as (x & Hx & Hxn & _).
      assert (Htl : q_tailL l = Some x) by congruence.
      assert (Hnx : node_next (q_nexts c) (q_tailL l) = Some (nth_error chain (S k))).
      { rewrite Htl. cbn [node_next]. apply S4, Hx. }
      rewrite Htl in Hstep. rewrite <- Htl in Hstep. rewrite Hnx in Hstep.
      destruct (ptr_eqb (nth_error chain (S k)) (q_tailNext l)) eqn:Hcas;
        injection Hstep as <- <-; (split; [|discriminate]).
      * eapply inv_link; eauto.
      * goto_case Sh Th Hh Hl Hpc. exact Hf.
    + (* EnqTailCAS *)
      rewrite (swing_succeeds c chain hi ti t l Sh Th Hl Hpc) in Hstep.
      injection Hstep as <- <-. split; [|discriminate]. eapply inv_swing; eauto.
    + (* EnqRet *)
      injection Hstep as <- <-. split; [|discriminate].
      eapply (inv_ret c chain hi ti t l (OpEnq (q_val l)) REnq); eauto.
      unfold exp_phase. rewrite Hpc. reflexivity.
    + (* DeqFor *)
      injection Hstep as <- <-. split; [|discriminate]. goto_case Sh Th Hh Hl Hpc. exact I.
    + (* DeqLoadHead *)
      injection Hstep as <- <-. split; [|discriminate]. goto_case Sh Th Hh Hl Hpc.
      exists hi. split; [lia|exact S6].
    + (* DeqHead *)
      injection Hstep as <- <-. split; [|discriminate]. goto_case Sh Th Hh Hl Hpc.
      destruct Hok as (kh & Hk & Hp). exists kh. auto.
    + (* DeqLoadTail *)
      destruct (ptr_eqb (q_headL l) (q_tail c)) eqn:Heq; injection Hstep as <- <-; (split; [|discriminate]).
      * eapply inv_loadtail_empty; eauto.
      * goto_case Sh Th Hh Hl Hpc.
        -- destruct Hok as (kh & Hk & Hp & Hq). exists kh, ti. repeat split; auto; lia.
        -- rewrite Heq. reflexivity.
    + (* DeqTail *)
      injection Hstep as <- <-. split; [|discriminate]. goto_case Sh Th Hh Hl Hpc.
      destruct Hok as (kh & kt & H1 & H2 & H3 & H4 & H5 & H6). exists kh, kt. repeat split; auto.
    + (* DeqIfEq *)
      destruct Hok as (kh & kt & H1 & H2 & H3 & H4 & H5 & H6 & H7).
      destruct (ptr_eqb (q_headL l) (q_tailL l)) eqn:Heq; injection Hstep as <- <-; (split; [|discriminate]);
        goto_case Sh Th Hh Hl Hpc; try (rewrite Heq; reflexivity).
      * exact I.
      * exists kh. repeat split; auto.
        apply ptr_eqb_neq in Heq. rewrite H5, H4, H7, H6 in Heq.
        assert (kh <> kt) by (intros ->; apply Heq; reflexivity). lia.
    + (* DeqRetEmpty *)
      injection Hstep as <- <-. split; [|discriminate].
      eapply (inv_ret c chain hi ti t l OpDeq (RDeq None)); eauto.
      unfold exp_phase. rewrite Hpc. reflexivity.
    + (* DeqLoadNext *)
      destruct Hok as (kh & H1 & H2 & H3 & H4).
      destruct (chain_idx_valid c chain hi ti kh Sh ltac:(lia)) as (x & Hx & Hxn & _).
      assert (Hnx : node_next (q_nexts c) (q_headL l) = Some (nth_error chain (S kh))).
      { rewrite H4, H3, Hx. cbn [node_next]. apply S4, Hx. }
      rewrite Hnx in Hstep. injection Hstep as <- <-. split; [|discriminate].
      goto_case Sh Th Hh Hl Hpc. exists kh. auto.
    + (* DeqCASHead *)
      destruct (ptr_eqb (q_head c) (q_headPtr l)) eqn:Hcas; injection Hstep as <- <-; (split; [|discriminate]).
      * eapply inv_headcas; eauto.
      * goto_case Sh Th Hh Hl Hpc. exact I.
    + (* DeqHeadNext *)
      injection Hstep as <- <-. split; [|discriminate]. goto_case Sh Th Hh Hl Hpc. exact Hok.
    + (* DeqRetVal *)
      destruct Hok as (x & v & Hp & Hin & Hv0).
      assert (Hv : node_val (q_vals c) (q_headNext l) = Some v) by (rewrite Hp; exact Hv0).
      rewrite Hv in Hstep.
      injection Hstep as <- <-. split; [|discriminate].
      eapply (inv_ret c chain hi ti t l OpDeq (RDeq (Some v))); eauto.
      unfold exp_phase. rewrite Hpc, Hv. reflexivity.
Qed.
