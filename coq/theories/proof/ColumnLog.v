(* Proofs about logs of issued ciphertexts with many entries and histories of Value() calls (C18). *)
From Ekit Require Import Common ColumnModel ColumnProof ColumnLogModel.

Lemma bytes_eqb_refl a : bytes_eqb a a = true.
Proof. now apply bytes_eqb_eq. Qed.

Lemma bytes_eqb_false a b : bytes_eqb a b = false <-> a <> b.
Proof.
  split.
  - intros H E. subst. rewrite bytes_eqb_refl in H. discriminate.
  - intros H. destruct (bytes_eqb a b) eqn:E; [|reflexivity]. apply bytes_eqb_eq in E. contradiction.
Qed.

Lemma kn_eqb_true k n k' n' : kn_eqb k n k' n' = true <-> k = k' /\ n = n'.
Proof.
  unfold kn_eqb. rewrite andb_true_iff, !bytes_eqb_eq. reflexivity.
Qed.

Lemma nonce_fresh_spec log k n :
  nonce_fresh log k n = true <-> forall c m, ~ In (k, n, c, m) log.
Proof.
  unfold nonce_fresh. rewrite forallb_forall. split.
  - intros H c m Hin. specialize (H _ Hin). cbn in H.
    assert (E : kn_eqb k n k n = true) by (apply kn_eqb_true; auto).
    rewrite E in H. discriminate.
  - intros H [[[k' n'] c'] m'] Hin.
    destruct (kn_eqb k n k' n') eqn:E; [|reflexivity].
    apply kn_eqb_true in E as [-> ->]. exfalso. eapply H, Hin.
Qed.

(* under nonces_distinct a (key, nonce) pair determines its entry *)
Lemma distinct_unique log : nonces_distinct log = true ->
  forall k n c1 m1 c2 m2, In (k, n, c1, m1) log -> In (k, n, c2, m2) log -> c1 = c2 /\ m1 = m2.
Proof.
  induction log as [|[[[k0 n0] c0] m0] t IH]; intros HD k n c1 m1 c2 m2 H1 H2; [contradiction|].
  cbn [nonces_distinct] in HD. apply andb_prop in HD as [HF HD].
  rewrite nonce_fresh_spec in HF.
  destruct H1 as [E1|H1], H2 as [E2|H2].
  - injection E1 as <- <- <- <-. injection E2 as <- <-. auto.
  - injection E1 as <- <- <- <-. exfalso. eapply HF, H2.
  - injection E2 as <- <- <- <-. exfalso. eapply HF, H1.
  - eapply IH; eassumption.
Qed.

Lemma log_issued_dec log k n c : log_issued log k n c \/ ~ log_issued log k n c.
Proof.
  destruct (existsb (log_match k n c) log) eqn:E.
  - left. apply existsb_exists in E as ([[[k' n'] c'] m'] & Hin & Hm).
    unfold log_match in Hm. apply andb_prop in Hm as [Hm Hc]. apply andb_prop in Hm as [Hk Hn].
    apply bytes_eqb_eq in Hk, Hn, Hc. subst. now exists m'.
  - right. intros [m Hin].
    assert (X : existsb (log_match k n c) log = true).
    { apply existsb_exists. exists (k, n, c, m). split; [exact Hin|].
      unfold log_match. now rewrite !bytes_eqb_refl. }
    congruence.
Qed.

(* the executable ideal-world decryption finds every entry of a log with distinct nonces *)
Lemma log_open_entry log k n ct m : nonces_distinct log = true ->
  In (k, n, ct, m) log -> log_open log k n ct = Some m.
Proof.
  intros HD Hin. unfold log_open.
  destruct (find (log_match k n ct) log) as [[[[k' n'] c'] m']|] eqn:E.
  - apply find_some in E as [Hin' Hm].
    unfold log_match in Hm. apply andb_prop in Hm as [Hm Hc]. apply andb_prop in Hm as [Hk Hn].
    apply bytes_eqb_eq in Hk, Hn, Hc. subst.
    destruct (distinct_unique log HD _ _ _ _ _ _ Hin Hin') as [_ ->]. reflexivity.
  - pose proof (find_none _ _ E _ Hin) as Hm. unfold log_match in Hm.
    rewrite !bytes_eqb_refl in Hm. discriminate.
Qed.

(* ---------- list facts ---------- *)
Lemma firstn_app_ge {A} (l r : list A) j : (length l <= j)%nat ->
  firstn j (l ++ r) = l ++ firstn (j - length l) r.
Proof. intros H. rewrite firstn_app. now rewrite firstn_all2 by exact H. Qed.

Lemma split_nonce (n x : bytes) : length n = nonce_size ->
  firstn nonce_size (n ++ x) = n /\ skipn nonce_size (n ++ x) = x.
Proof. intros <-. split; [apply firstn_app_len|apply skipn_app_len]. Qed.

Lemma flip_bit_app l r : forall i,
  flip_bit i (l ++ r) =
  if (i <? 8 * length l)%nat then flip_bit i l ++ r else l ++ flip_bit (i - 8 * length l) r.
Proof.
  induction l as [|b t IH]; intros i.
  - cbn [app length]. rewrite Nat.mul_0_r. cbn. now rewrite Nat.sub_0_r.
  - cbn [app length flip_bit].
    destruct (Nat.ltb_spec i 8) as [H8|H8].
    + destruct (Nat.ltb_spec i (8 * S (length t))); [reflexivity|lia].
    + rewrite IH.
      destruct (Nat.ltb_spec (i - 8) (8 * length t)), (Nat.ltb_spec i (8 * S (length t))); try lia.
      * reflexivity.
      * cbn [app]. do 3 f_equal. lia.
Qed.

Lemma firstn_shorter_neq {A} (l : list A) j : (j < length l)%nat -> firstn j l <> l.
Proof. intros H E. apply (f_equal (@length A)) in E. rewrite firstn_length in E. lia. Qed.

Lemma app_nonempty_neq {A} (l x : list A) : x <> [] -> l ++ x <> l.
Proof.
  intros H E. apply (f_equal (@length A)) in E. rewrite app_length in E.
  destruct x; [congruence|cbn in E; lia].
Qed.

(* ---------- tampering with an entry of an arbitrary log ---------- *)
Section LogTamper.
  Variable V : Type.
  Variable json_dec : V -> bytes -> V * bool.
  Variable open : bytes -> bytes -> bytes -> option bytes.
  Variable log : list log_entry.

  Notation Scan := (scan V json_dec open).
  Notation rejected := (rejected V json_dec open).

  Lemma scan_short_any c s b : is_data s b -> (length b < nonce_size)%nat -> rejected c s.
  Proof.
    intros Hs Hl. destruct (key_ok (ckey c)) eqn:Hk.
    - exists CShort. split; [|auto]. now apply (scan_short_is_error V json_dec open c s b).
    - exists CKeyLen. split; [|auto]. now apply (scan_bad_key V json_dec open c s b).
  Qed.

  Hypothesis HI : aead_int_ctxt open (log_issued log).
  Hypothesis HD : nonces_distinct log = true.

  (* same nonce as the entry, another ciphertext: rejected *)
  Lemma same_nonce_changed k n ct m c s b :
    In (k, n, ct, m) log -> ckey c = k -> is_data s b ->
    firstn nonce_size b = n -> skipn nonce_size b <> ct -> rejected c s.
  Proof.
    intros Hin Hk Hs Hf Hne.
    apply (unissued_is_error_lemma V json_dec open (log_issued log) HI c s b Hs).
    rewrite Hk, Hf. intros [m' Hin'].
    destruct (distinct_unique log HD _ _ _ _ _ _ Hin Hin') as [E _]. congruence.
  Qed.

  Lemma log_truncated k n ct m c s l :
    In (k, n, ct, m) log -> length n = nonce_size -> ckey c = k ->
    (l < length (n ++ ct))%nat -> is_data s (firstn l (n ++ ct)) -> rejected c s.
  Proof.
    intros Hin Hn Hk Hl Hs.
    destruct (Nat.lt_ge_cases l nonce_size) as [Hlt|Hge].
    - apply (scan_short_any c s _ Hs). rewrite firstn_length. lia.
    - rewrite firstn_app_ge in Hs by lia.
      destruct (split_nonce n (firstn (l - length n) ct) Hn) as [Ef Es].
      apply (same_nonce_changed k n ct m c s _ Hin Hk Hs Ef). rewrite Es.
      apply firstn_shorter_neq. rewrite app_length in Hl. lia.
  Qed.

  Lemma log_extended k n ct m c s x :
    In (k, n, ct, m) log -> length n = nonce_size -> ckey c = k ->
    x <> [] -> is_data s ((n ++ ct) ++ x) -> rejected c s.
  Proof.
    intros Hin Hn Hk Hx Hs. rewrite <- app_assoc in Hs.
    destruct (split_nonce n (ct ++ x) Hn) as [Ef Es].
    apply (same_nonce_changed k n ct m c s _ Hin Hk Hs Ef). rewrite Es.
    now apply app_nonempty_neq.
  Qed.

  (* a flipped bit of the ciphertext body or of the tag *)
  Lemma log_bitflip_ct k n ct m c s i :
    In (k, n, ct, m) log -> length n = nonce_size -> ckey c = k ->
    (8 * nonce_size <= i < 8 * length (n ++ ct))%nat ->
    is_data s (flip_bit i (n ++ ct)) -> rejected c s.
  Proof.
    intros Hin Hn Hk Hi Hs. rewrite flip_bit_app, Hn in Hs.
    destruct (Nat.ltb_spec i (8 * nonce_size)) as [|_]; [lia|].
    destruct (split_nonce n (flip_bit (i - 8 * nonce_size) ct) Hn) as [Ef Es].
    apply (same_nonce_changed k n ct m c s _ Hin Hk Hs Ef). rewrite Es.
    apply flip_bit_neq. rewrite app_length, Hn in Hi. lia.
  Qed.

  (* a flipped bit of the nonce: rejected, unless that very (nonce', ciphertext) was issued too *)
  Lemma log_bitflip_nonce k n ct m c s i :
    In (k, n, ct, m) log -> length n = nonce_size -> ckey c = k ->
    (i < 8 * nonce_size)%nat ->
    is_data s (flip_bit i (n ++ ct)) ->
    rejected c s \/ (flip_bit i n <> n /\ log_issued log k (flip_bit i n) ct).
  Proof.
    intros Hin Hn Hk Hi Hs. rewrite flip_bit_app, Hn in Hs.
    destruct (Nat.ltb_spec i (8 * nonce_size)) as [_|]; [|lia].
    destruct (log_issued_dec log k (flip_bit i n) ct) as [Hiss|Hno].
    - right. split; [|exact Hiss]. apply flip_bit_neq. lia.
    - left. apply (unissued_is_error_lemma V json_dec open (log_issued log) HI c s _ Hs).
      assert (Hn' : length (flip_bit i n) = nonce_size) by (now rewrite flip_bit_length).
      destruct (split_nonce _ ct Hn') as [-> ->]. now rewrite Hk.
  Qed.

  (* any single-bit flip *)
  Lemma log_bitflip k n ct m c s i :
    In (k, n, ct, m) log -> length n = nonce_size -> ckey c = k ->
    (i < 8 * length (n ++ ct))%nat ->
    is_data s (flip_bit i (n ++ ct)) ->
    rejected c s \/
    ((i < 8 * nonce_size)%nat /\ flip_bit i n <> n /\ log_issued log k (flip_bit i n) ct).
  Proof.
    intros Hin Hn Hk Hi Hs.
    destruct (Nat.lt_ge_cases i (8 * nonce_size)) as [Hlt|Hge].
    - destruct (log_bitflip_nonce k n ct m c s i Hin Hn Hk Hlt Hs) as [H|H]; [now left|right; tauto].
    - left. apply (log_bitflip_ct k n ct m c s i Hin Hn Hk); [lia|exact Hs].
  Qed.

  (* any change whatsoever: rejected unless the result is itself an entry under this key *)
  Lemma log_changed c s b : is_data s b ->
    rejected c s \/ log_issued log (ckey c) (firstn nonce_size b) (skipn nonce_size b).
  Proof.
    intros Hs.
    destruct (log_issued_dec log (ckey c) (firstn nonce_size b) (skipn nonce_size b)) as [H|H];
      [now right|left].
    now apply (unissued_is_error_lemma V json_dec open (log_issued log) HI c s b Hs).
  Qed.

  (* the entry scanned with ANY key (of any length): rejected unless (key', n, ct) was issued too *)
  Lemma log_other_key k n ct m c s :
    In (k, n, ct, m) log -> length n = nonce_size -> is_data s (n ++ ct) ->
    rejected c s \/ log_issued log (ckey c) n ct.
  Proof.
    intros Hin Hn Hs. destruct (log_changed c s _ Hs) as [H|H]; [now left|right].
    destruct (split_nonce n ct Hn) as [Ef Es]. now rewrite Ef, Es in H.
  Qed.

  Lemma log_wrong_key k n ct m c s :
    In (k, n, ct, m) log -> length n = nonce_size -> is_data s (n ++ ct) ->
    (forall m', ~ In (ckey c, n, ct, m') log) -> rejected c s.
  Proof.
    intros Hin Hn Hs Hno. destruct (log_other_key k n ct m c s Hin Hn Hs) as [H|[m' H]]; [exact H|].
    exfalso. eapply Hno, H.
  Qed.
End LogTamper.

(* ---------- scanning an entry of the log (ideal world: open = log_open) ---------- *)
Section LogScan.
  Variable V : Type.
  Variable json_enc : V -> option bytes.
  Variable json_dec : V -> bytes -> V * bool.
  Variable seal : bytes -> bytes -> bytes -> bytes.
  Variable zeroV : V.
  Variable json_rep : V -> Prop.

  Notation Encode := (encode V json_enc).
  Notation Value := (value V json_enc seal).
  Notation SetVal := (set_val V json_dec).

  Lemma scan_log_entry log k n ct m c s :
    nonces_distinct log = true -> In (k, n, ct, m) log ->
    length n = nonce_size -> key_ok k = true -> ckey c = k -> is_data s (n ++ ct) ->
    scan V json_dec (log_open log) false c s =
      (let (v', r) := SetVal (val c) m in ({| val := v'; valid := is_sok r; ckey := k |}, r)).
  Proof.
    intros HD Hin Hn Hk Hck Hs.
    rewrite (scan_is_data V json_dec (log_open log) false c s _ Hs).
    unfold scan_data, aes_decrypt. rewrite Hck, Hk. cbn [negb].
    rewrite app_length, Hn.
    destruct (Nat.ltb_spec (nonce_size + length ct) nonce_size) as [|_]; [lia|].
    destruct (split_nonce n ct Hn) as [-> ->].
    now rewrite (log_open_entry log k n ct m HD Hin).
  Qed.

  (* non-JSON values: no hypothesis at all *)
  Lemma set_val_roundtrip_plain x old pt :
    plain_ok V x -> same_ty old x = true -> Encode x = COk pt -> SetVal old pt = (x, SOk).
  Proof.
    intros Hx Hty He.
    destruct x as [b|b|k z|x]; destruct old as [b0|b0|k0 z0|x0]; try discriminate Hty;
      cbn in He, Hx, Hty |- *; try contradiction.
    - now injection He as <-.
    - now injection He as <-.
    - apply nkind_eqb_eq in Hty. subst k0. injection He as <-.
      now rewrite (decode_encode k z Hx).
  Qed.

  (* ---- histories of Value() calls ---- *)
  Notation Issue := (issue V json_enc seal).
  Notation Run := (run_values V json_enc seal).
  Notation Outputs := (outputs V json_enc seal).

  Lemma issue_some n c e : Issue (n, c) = Some e ->
    exists pt, e = (ckey c, n, seal (ckey c) n pt, pt) /\ Encode (val c) = COk pt /\
      Value n c = COk (n ++ seal (ckey c) n pt) /\ valid c = true /\ key_ok (ckey c) = true.
  Proof.
    unfold issue. destruct (Value n c) as [stored| |] eqn:Ev; try discriminate.
    destruct (Encode (val c)) as [pt| |] eqn:Ee; try discriminate.
    intros E. injection E as <-. exists pt.
    destruct (value_ok_inv V json_enc seal n c stored Ev) as (Hv & Hk & pt' & Ee' & ->).
    rewrite Ee in Ee'. injection Ee' as <-. auto.
  Qed.

  Lemma value_issue n c stored : Value n c = COk stored ->
    exists pt, Issue (n, c) = Some (ckey c, n, seal (ckey c) n pt, pt) /\
      stored = n ++ seal (ckey c) n pt /\ Encode (val c) = COk pt.
  Proof.
    intros Ev. destruct (value_ok_inv V json_enc seal n c stored Ev) as (Hv & Hk & pt & Ee & ->).
    exists pt. unfold issue. rewrite Ev, Ee. auto.
  Qed.

  Lemma in_run h : forall log e,
    In e (Run h log) <-> In e log \/ exists x, In x h /\ Issue x = Some e.
  Proof.
    induction h as [|x t IH]; intros log e; cbn [run_values].
    - split; [auto|]. intros [H|(x & [] & _)]. exact H.
    - rewrite IH. destruct (Issue x) as [e0|] eqn:Ei.
      + split.
        * intros [[<-|H]|(y & Hy & Ey)]; [right; exists x; cbn; auto|auto|right; exists y; cbn; auto].
        * intros [H|(y & [<-|Hy] & Ey)].
          -- left. now right.
          -- left. left. congruence.
          -- right. eauto.
      + split.
        * intros [H|(y & Hy & Ey)]; [auto|right; exists y; cbn; auto].
        * intros [H|(y & [<-|Hy] & Ey)]; [auto|congruence|right; eauto].
  Qed.

  Lemma kn_distinct_cons k n t : kn_distinct ((k, n) :: t) = true <->
    (forall k' n', In (k', n') t -> ~ (k = k' /\ n = n')) /\ kn_distinct t = true.
  Proof.
    cbn [kn_distinct]. rewrite andb_true_iff, forallb_forall. split; intros [H1 H2]; split; auto.
    - intros k' n' Hin E. specialize (H1 _ Hin). cbn in H1.
      apply kn_eqb_true in E. rewrite E in H1. discriminate.
    - intros [k' n'] Hin. cbn. destruct (kn_eqb k n k' n') eqn:E; [|reflexivity].
      apply kn_eqb_true in E. exfalso. eapply H1; eassumption.
  Qed.

  (* the invariant maintained by Value() with fresh nonces *)
  Lemma run_distinct h : forall log,
    nonces_distinct log = true ->
    kn_distinct (map call_kn h) = true ->
    (forall x, In x h -> nonce_fresh log (ckey (snd x)) (fst x) = true) ->
    nonces_distinct (Run h log) = true.
  Proof.
    induction h as [|[n c] t IH]; intros log HD HK HF; cbn [run_values]; [exact HD|].
    cbn [map] in HK. unfold call_kn at 1 in HK. cbn [fst snd] in HK.
    apply kn_distinct_cons in HK as [Hhd HK].
    destruct (Issue (n, c)) as [e|] eqn:Ei.
    - destruct (issue_some n c e Ei) as (pt & -> & _).
      apply IH; [|exact HK|].
      + cbn [nonces_distinct]. pose proof (HF (n, c) (or_introl eq_refl)) as Hfr.
        cbn [fst snd] in Hfr. now rewrite Hfr.
      + intros [n' c'] Hin. cbn [fst snd]. apply nonce_fresh_spec. intros cc mm [E|Hin'].
        * injection E as Ek En _ _. apply (Hhd (ckey c') n').
          -- apply in_map_iff. exists (n', c'). auto.
          -- auto.
        * specialize (HF (n', c') (or_intror Hin)). cbn [fst snd] in HF.
          rewrite nonce_fresh_spec in HF. eapply HF, Hin'.
    - apply IH; [exact HD|exact HK|]. intros x Hin. apply HF. now right.
  Qed.

  Lemma run_sized h : forall log,
    nonces_sized log = true ->
    forallb (fun x : vcall V => (length (fst x) =? nonce_size)%nat) h = true ->
    nonces_sized (Run h log) = true.
  Proof.
    induction h as [|[n c] t IH]; intros log HS HL; cbn [run_values]; [exact HS|].
    cbn [forallb fst] in HL. apply andb_prop in HL as [Hn HL].
    destruct (Issue (n, c)) as [e|] eqn:Ei; [|now apply IH].
    destruct (issue_some n c e Ei) as (pt & -> & _).
    apply IH; [|exact HL]. unfold nonces_sized in *. cbn [forallb]. now rewrite Hn.
  Qed.

  Lemma history_log_ok h : history_fresh h = true ->
    nonces_distinct (Run h []) = true /\ nonces_sized (Run h []) = true.
  Proof.
    unfold history_fresh. intros H. apply andb_prop in H as [HL HK]. split.
    - apply run_distinct; [reflexivity|exact HK|reflexivity].
    - apply run_sized; [reflexivity|exact HL].
  Qed.

  Lemma history_entry_sized h k n ct m : history_fresh h = true ->
    In (k, n, ct, m) (Run h []) -> length n = nonce_size.
  Proof.
    intros HF Hin. destruct (history_log_ok h HF) as [_ HS].
    unfold nonces_sized in HS. rewrite forallb_forall in HS. specialize (HS _ Hin).
    cbn in HS. now apply Nat.eqb_eq in HS.
  Qed.

  (* round trip over a whole history: every stored value ever returned scans back to the value
     that was encrypted, whatever else was encrypted before and after *)
  Lemma history_roundtrip_plain h n cx stored c0 s :
    history_fresh h = true -> In (n, cx) h -> Value n cx = COk stored ->
    plain_ok V (val cx) -> same_ty (val c0) (val cx) = true -> ckey c0 = ckey cx ->
    is_data s stored ->
    scan V json_dec (log_open (Run h [])) false c0 s =
      ({| val := val cx; valid := true; ckey := ckey cx |}, SOk).
  Proof.
    intros HF Hin Ev Hx Hty Hck Hs.
    destruct (value_issue n cx stored Ev) as (pt & Ei & -> & Ee).
    destruct (history_log_ok h HF) as [HD _].
    assert (HinL : In (ckey cx, n, seal (ckey cx) n pt, pt) (Run h []))
      by (apply in_run; right; eauto).
    pose proof (history_entry_sized h _ _ _ _ HF HinL) as Hn.
    destruct (issue_some n cx _ Ei) as (_ & _ & _ & _ & _ & Hk).
    rewrite (scan_log_entry _ _ _ _ _ c0 s HD HinL Hn Hk Hck Hs).
    now rewrite (set_val_roundtrip_plain (val cx) (val c0) pt Hx Hty Ee).
  Qed.

  Lemma history_roundtrip_json h n cx stored c0 s :
    json_roundtrips V json_enc json_dec zeroV json_rep ->
    history_fresh h = true -> In (n, cx) h -> Value n cx = COk stored ->
    val_ok V json_rep (val cx) -> same_ty (val c0) (val cx) = true -> ckey c0 = ckey cx ->
    fresh_dst V zeroV (val c0) -> is_data s stored ->
    scan V json_dec (log_open (Run h [])) false c0 s =
      ({| val := val cx; valid := true; ckey := ckey cx |}, SOk).
  Proof.
    intros HJ HF Hin Ev Hx Hty Hck Hfr Hs.
    destruct (value_issue n cx stored Ev) as (pt & Ei & -> & Ee).
    destruct (history_log_ok h HF) as [HD _].
    assert (HinL : In (ckey cx, n, seal (ckey cx) n pt, pt) (Run h []))
      by (apply in_run; right; eauto).
    pose proof (history_entry_sized h _ _ _ _ HF HinL) as Hn.
    destruct (issue_some n cx _ Ei) as (_ & _ & _ & _ & _ & Hk).
    rewrite (scan_log_entry _ _ _ _ _ c0 s HD HinL Hn Hk Hck Hs).
    now rewrite (set_val_roundtrip V json_enc json_dec zeroV json_rep (val cx) (val c0) pt Hx HJ Hty Hfr Ee).
  Qed.

  (* ---- all stored values of a history are pairwise distinct ---- *)
  Lemma outputs_nonce h : forall s, In s (Outputs h) ->
    exists n c, In (n, c) h /\ Value n c = COk s.
  Proof.
    induction h as [|[n c] t IH]; intros s Hin; cbn [outputs] in Hin; [contradiction|].
    destruct (Value n c) as [stored| |] eqn:Ev.
    - destruct Hin as [<-|Hin]; [exists n, c; cbn; auto|].
      destruct (IH s Hin) as (n' & c' & H & E). exists n', c'. cbn. auto.
    - destruct (IH s Hin) as (n' & c' & H & E). exists n', c'. cbn. auto.
    - destruct (IH s Hin) as (n' & c' & H & E). exists n', c'. cbn. auto.
  Qed.

  Lemma value_nonce n c s : length n = nonce_size -> Value n c = COk s -> firstn nonce_size s = n.
  Proof.
    intros Hn Ev. destruct (value_ok_inv V json_enc seal n c s Ev) as (_ & _ & pt & _ & ->).
    now destruct (split_nonce n (seal (ckey c) n pt) Hn).
  Qed.

  Lemma bytes_distinct_cons x t : bytes_distinct (x :: t) = true <-> ~ In x t /\ bytes_distinct t = true.
  Proof.
    cbn [bytes_distinct]. rewrite andb_true_iff, forallb_forall. split; intros [H1 H2]; split; auto.
    - intros Hin. specialize (H1 _ Hin). rewrite bytes_eqb_refl in H1. discriminate.
    - intros y Hy. destruct (bytes_eqb x y) eqn:E; [|reflexivity].
      apply bytes_eqb_eq in E. subst. contradiction.
  Qed.

  Lemma outputs_distinct h : history_nonces_distinct h = true -> bytes_distinct (Outputs h) = true.
  Proof.
    unfold history_nonces_distinct. intros H. apply andb_prop in H as [HL HN].
    induction h as [|[n c] t IH]; [reflexivity|].
    cbn [forallb fst] in HL. apply andb_prop in HL as [Hn HL]. apply Nat.eqb_eq in Hn.
    cbn [map fst] in HN. apply bytes_distinct_cons in HN as [Hnot HN].
    cbn [outputs]. destruct (Value n c) as [stored| |] eqn:Ev; try (now apply IH).
    apply bytes_distinct_cons. split; [|now apply IH].
    intros Hin. destruct (outputs_nonce t stored Hin) as (n' & c' & Hin' & Ev').
    rewrite forallb_forall in HL. pose proof (HL _ Hin') as Hn'. cbn in Hn'. apply Nat.eqb_eq in Hn'.
    pose proof (value_nonce n c stored Hn Ev) as E1.
    pose proof (value_nonce n' c' stored Hn' Ev') as E2.
    apply Hnot. rewrite <- E1, E2. apply in_map_iff. exists (n', c'). auto.
  Qed.

  Lemma bytes_distinct_NoDup l : bytes_distinct l = true -> NoDup l.
  Proof.
    induction l as [|x t IH]; intros H; [constructor|].
    apply bytes_distinct_cons in H as [H1 H2]. constructor; auto.
  Qed.

  (* per key: it is enough that no nonce is used twice under the SAME key *)
  Lemma kn_distinct_app_mid l1 : forall k n l2 k' n' l3,
    kn_distinct (l1 ++ (k, n) :: l2 ++ (k', n') :: l3) = true -> ~ (k = k' /\ n = n').
  Proof.
    induction l1 as [|[k0 n0] l1 IH]; intros k n l2 k' n' l3 H.
    - cbn [app] in H. apply kn_distinct_cons in H as [H _]. apply H.
      apply in_or_app. right. now left.
    - cbn [app] in H. apply kn_distinct_cons in H as [_ H]. eapply IH, H.
  Qed.

  Lemma same_key_outputs_differ h1 h2 h3 n1 c1 n2 c2 s1 s2 :
    history_fresh (h1 ++ (n1, c1) :: h2 ++ (n2, c2) :: h3) = true ->
    ckey c1 = ckey c2 ->
    Value n1 c1 = COk s1 -> Value n2 c2 = COk s2 -> s1 <> s2.
  Proof.
    unfold history_fresh. intros H Hk E1 E2. apply andb_prop in H as [HL HK].
    rewrite forallb_forall in HL.
    assert (L1 : length n1 = nonce_size).
    { apply Nat.eqb_eq. apply (HL (n1, c1)). apply in_or_app. right. now left. }
    assert (L2 : length n2 = nonce_size).
    { apply Nat.eqb_eq. apply (HL (n2, c2)). apply in_or_app. right. right.
      apply in_or_app. right. now left. }
    rewrite map_app in HK. cbn [map] in HK. rewrite map_app in HK. cbn [map] in HK.
    unfold call_kn at 2 4 in HK. cbn [fst snd] in HK.
    pose proof (kn_distinct_app_mid _ _ _ _ _ _ _ HK) as Hne.
    intros E. subst s2. apply Hne. split; [exact Hk|].
    rewrite <- (value_nonce n1 c1 s1 L1 E1). exact (value_nonce n2 c2 s1 L2 E2).
  Qed.

  (* tampering with ANY stored value a history of Value() calls has returned *)
  Lemma history_tamper (open : bytes -> bytes -> bytes -> option bytes) h n cx stored c :
    aead_int_ctxt open (log_issued (Run h [])) ->
    history_fresh h = true -> In (n, cx) h -> Value n cx = COk stored -> ckey c = ckey cx ->
    (forall s l, (l < length stored)%nat -> is_data s (firstn l stored) -> rejected V json_dec open c s) /\
    (forall s x, x <> [] -> is_data s (stored ++ x) -> rejected V json_dec open c s) /\
    (forall s i, (8 * nonce_size <= i < 8 * length stored)%nat -> is_data s (flip_bit i stored) ->
       rejected V json_dec open c s) /\
    (forall s i, (i < 8 * nonce_size)%nat -> is_data s (flip_bit i stored) ->
       rejected V json_dec open c s \/
       exists n' c' , In (n', c') h /\ n' <> n /\ ckey c' = ckey cx /\ Value n' c' = COk (flip_bit i stored)).
  Proof.
    intros HI HF Hin Ev Hck.
    destruct (value_issue n cx stored Ev) as (pt & Ei & -> & Ee).
    destruct (history_log_ok h HF) as [HD _].
    assert (HinL : In (ckey cx, n, seal (ckey cx) n pt, pt) (Run h []))
      by (apply in_run; right; eauto).
    pose proof (history_entry_sized h _ _ _ _ HF HinL) as Hn.
    split; [|split; [|split]].
    - intros s l Hl Hs. eapply log_truncated; eassumption.
    - intros s x Hx Hs. eapply log_extended; eassumption.
    - intros s i Hi Hs. eapply log_bitflip_ct; eassumption.
    - intros s i Hi Hs.
      destruct (log_bitflip_nonce V json_dec open _ HI HD _ _ _ _ c s i HinL Hn Hck Hi Hs)
        as [H|[Hne [m' Hiss]]]; [now left|right].
      apply in_run in Hiss as [[]|([n' c'] & Hin' & Ei')].
      destruct (issue_some n' c' _ Ei') as (pt' & E & _ & Ev' & _).
      injection E as Ek En Ec _. subst n'.
      exists (flip_bit i n), c'. split; [exact Hin'|]. split; [exact Hne|]. split; [auto|].
      rewrite Ev'. f_equal. rewrite flip_bit_app, Hn.
      destruct (Nat.ltb_spec i (8 * nonce_size)); [|lia]. congruence.
  Qed.
End LogScan.
