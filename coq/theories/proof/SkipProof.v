(* Proofs about SkipModel (skip-list half of C05): the traversal finds, on every level, the last
   node smaller than the target (key lemma 12.4 of DESIGN.md); Insert / DeleteElement preserve
   the invariants for every tower height in [1,32]; the model refines the sorted multiset. *)
From Ekit Require Import Common SkipModel.
From Coq Require Import Sorting.Sorted Sorting.Permutation ZifyBool Arith PeanoNat.
Local Open Scope nat_scope.

(* ---------- generic list facts ---------- *)
Lemma nth_error_skipn_add {A} : forall (l : list A) n j, nth_error (skipn n l) j = nth_error l (n + j).
Proof.
  intros l; induction l as [|a l IH]; intros n j.
  - rewrite skipn_nil. destruct j, n; reflexivity.
  - destruct n as [|n]; [reflexivity|]. cbn [skipn plus nth_error]. apply IH.
Qed.

Lemma nth_repeat0 : forall m k, nth k (repeat 0 m) 0 = 0.
Proof. induction m as [|m IH]; intros [|k]; cbn; auto. Qed.

Lemma nth_error_map' {A B} (f : A -> B) : forall l n, nth_error (map f l) n = option_map f (nth_error l n).
Proof. induction l as [|a l IH]; intros [|n]; cbn; auto. Qed.

Lemma Forall_insert_mid {A} (P : A -> Prop) : forall c (t : list A) n,
  Forall P (firstn c t ++ n :: skipn c t) <-> P n /\ Forall P t.
Proof.
  intros c t n. rewrite Forall_app, Forall_cons_iff.
  rewrite <- (firstn_skipn c t) at 3. rewrite Forall_app. tauto.
Qed.

Lemma perm_insert_mid {A} : forall c (t : list A) n, Permutation (firstn c t ++ n :: skipn c t) (n :: t).
Proof.
  intros c t n. symmetry. rewrite <- (firstn_skipn c t) at 1. apply Permutation_middle.
Qed.

Lemma remove_at_incl {A} : forall (l : list A) k x, In x (remove_at l k) -> In x l.
Proof.
  induction l as [|a l IH]; intros [|k] x Hin; cbn in *; auto; try contradiction.
  destruct Hin as [Hx|Hin]; eauto.
Qed.

Lemma remove_at_length {A} : forall (l : list A) k, k < length l -> S (length (remove_at l k)) = length l.
Proof.
  induction l as [|a l IH]; intros [|k] Hk; cbn in *; try lia.
  rewrite IH; lia.
Qed.

Lemma remove_at_perm {A} : forall (l : list A) k x, nth_error l k = Some x -> Permutation l (x :: remove_at l k).
Proof.
  induction l as [|a l IH]; intros [|k] x Hn; cbn in *; try discriminate.
  - injection Hn as ->. reflexivity.
  - rewrite (IH _ _ Hn) at 1. apply perm_swap.
Qed.

Lemma remove_at_sorted {A} (R : A -> A -> Prop) : forall l k, StronglySorted R l -> StronglySorted R (remove_at l k).
Proof.
  induction l as [|a l IH]; intros [|k] Hs; cbn; auto.
  - inversion Hs; auto.
  - inversion Hs as [|a' l' Hs' Hall]; subst. constructor; auto.
    apply Forall_forall. intros x Hx. apply remove_at_incl in Hx.
    rewrite Forall_forall in Hall. auto.
Qed.

Lemma remove_at_nodup {A B} (f : A -> B) : forall l k, NoDup (map f l) -> NoDup (map f (remove_at l k)).
Proof.
  induction l as [|a l IH]; intros [|k] Hn; cbn in *; auto.
  - inversion Hn; auto.
  - inversion Hn as [|b l' Hnotin Hn']; subst. constructor; auto.
    intros Hin. apply Hnotin. apply in_map_iff in Hin. destruct Hin as [x [Hfx Hx]].
    apply in_map_iff. exists x. split; auto. eapply remove_at_incl; eauto.
Qed.

Section Proofs.
  Variable T : Type.
  Variable cmp : T -> T -> Z.
  (* total preorder, ties allowed: the sign is antisymmetric, <= is transitive *)
  Hypothesis cmp_antisym : forall a b, Z.sgn (cmp b a) = (- Z.sgn (cmp a b))%Z.
  Hypothesis cmp_trans : forall a b c, (cmp a b <= 0)%Z -> (cmp b c <= 0)%Z -> (cmp a c <= 0)%Z.

  Notation node := (node T).
  Notation sl := (sl T).
  Notation ltb := (ltb T cmp).
  Notation on_level := (on_level T).
  Notation fwd := (fwd T).
  Notation fwd_from := (fwd_from T).
  Notation advance := (advance T cmp).
  Notation traverse_from := (traverse_from T cmp).
  Notation traverse := (traverse T cmp).
  Notation le_nd := (fun a b : node => (cmp (nval a) (nval b) <= 0)%Z).

  Lemma cmp_refl : forall a, cmp a a = 0%Z.
  Proof. intros a. pose proof (cmp_antisym a a) as H. lia. Qed.

  Lemma cmp_flip_le : forall a b, (0 <= cmp a b)%Z -> (cmp b a <= 0)%Z.
  Proof. intros a b H. pose proof (cmp_antisym a b) as Ha. lia. Qed.

  Lemma cmp_flip_lt : forall a b, (cmp a b < 0)%Z -> (0 < cmp b a)%Z.
  Proof. intros a b H. pose proof (cmp_antisym a b) as Ha. lia. Qed.

  Lemma cmp_le_lt : forall a b v, (cmp a b <= 0)%Z -> (cmp b v < 0)%Z -> (cmp a v < 0)%Z.
  Proof.
    intros a b v Hab Hbv.
    destruct (Z_lt_ge_dec (cmp a v) 0) as [Hlt|Hge]; auto.
    assert (Hva : (cmp v a <= 0)%Z) by (apply cmp_flip_le; lia).
    pose proof (cmp_trans _ _ _ Hva Hab) as Hvb.
    pose proof (cmp_antisym v b) as Ha. lia.
  Qed.

  (* ---------- the position of v: number of leading nodes smaller than v ---------- *)
  Fixpoint lt_count (v : T) (l : list node) : nat :=
    match l with
    | [] => 0
    | n :: t => if ltb v n then S (lt_count v t) else 0
    end.

  Lemma lt_count_le : forall v l, lt_count v l <= length l.
  Proof. induction l as [|a l IH]; cbn; [lia|]. destruct (ltb v a); lia. Qed.

  (* on a sorted sequence the nodes smaller than v are exactly those before lt_count *)
  Lemma sorted_part : forall v sq, StronglySorted le_nd sq ->
    forall k n, nth_error sq k = Some n -> ltb v n = (k <? lt_count v sq).
  Proof.
    intros v sq Hs. induction Hs as [|a l Hs IH Hall]; intros k n Hn.
    - destruct k; discriminate.
    - cbn [lt_count]. destruct (ltb v a) eqn:Ha.
      + destruct k as [|k]; cbn in Hn.
        * injection Hn as <-. rewrite Ha. reflexivity.
        * rewrite (IH _ _ Hn). reflexivity.
      + destruct k as [|k]; cbn in Hn.
        * injection Hn as <-. rewrite Ha. reflexivity.
        * apply nth_error_In in Hn. rewrite Forall_forall in Hall. specialize (Hall _ Hn).
          unfold SkipModel.ltb in *. cbn.
          destruct (Z.ltb_spec (cmp (nval n) v) 0) as [Hlt|Hge]; auto.
          pose proof (cmp_le_lt _ _ _ Hall Hlt). lia.
    Qed.

  (* ---------- Forward pointers ---------- *)
  Lemma fwd_from_spec : forall i l k,
    match fwd_from i l k with
    | Some r => exists j n, r = k + j /\ nth_error l j = Some n /\ on_level i n = true /\
                  forall j' n', j' < j -> nth_error l j' = Some n' -> on_level i n' = false
    | None => forall j n, nth_error l j = Some n -> on_level i n = false
    end.
  Proof.
    intros i l. induction l as [|a l IH]; intros k; cbn [SkipModel.fwd_from].
    - intros [|j] n Hn; discriminate.
    - destruct (on_level i a) eqn:Ha.
      + exists 0, a. repeat split; auto. intros j' n' Hj. lia.
      + specialize (IH (S k)). destruct (fwd_from i l (S k)) as [r|].
        * destruct IH as [j [n [Hr [Hn [Hon Hbefore]]]]].
          exists (S j), n. repeat split; auto; try lia.
          intros [|j'] n' Hj' Hn'; cbn in Hn'.
          -- injection Hn' as <-. exact Ha.
          -- apply (Hbefore j'); auto. lia.
        * intros [|j] n Hn; cbn in Hn.
          -- injection Hn as <-. exact Ha.
          -- eapply IH; eauto.
  Qed.

  Lemma fwd_spec : forall i sq p,
    match fwd i sq p with
    | Some r => p <= r /\ exists n, nth_error sq r = Some n /\ on_level i n = true /\
                  forall k n', p <= k -> k < r -> nth_error sq k = Some n' -> on_level i n' = false
    | None => forall k n, p <= k -> nth_error sq k = Some n -> on_level i n = false
    end.
  Proof.
    intros i sq p. unfold SkipModel.fwd. pose proof (fwd_from_spec i (skipn p sq) p) as H.
    destruct (fwd_from i (skipn p sq) p) as [r|].
    - destruct H as [j [n [Hr [Hn [Hon Hbefore]]]]]. subst r. split; [lia|].
      exists n. rewrite nth_error_skipn_add in Hn. repeat split; auto.
      intros k n' Hpk Hk Hn'. apply (Hbefore (k - p)); [lia|].
      rewrite nth_error_skipn_add. replace (p + (k - p)) with k by lia. exact Hn'.
    - intros k n Hpk Hn. apply (H (k - p)). rewrite nth_error_skipn_add.
      replace (p + (k - p)) with k by lia. exact Hn.
  Qed.

  (* every node is on level 0: Forward[0] of position p is the node with index p *)
  Lemma fwd0 : forall sq p, Forall (fun n : node => 1 <= nht n) sq ->
    fwd 0 sq p = if p <? length sq then Some p else None.
  Proof.
    intros sq p Hh. pose proof (fwd_spec 0 sq p) as H.
    destruct (Nat.ltb_spec p (length sq)) as [Hlt|Hge].
    - destruct (nth_error sq p) as [n|] eqn:Hn; [|apply nth_error_None in Hn; lia].
      assert (Hon : on_level 0 n = true).
      { rewrite Forall_forall in Hh. apply nth_error_In in Hn. specialize (Hh _ Hn).
        unfold SkipModel.on_level. apply Nat.ltb_lt. lia. }
      destruct (fwd 0 sq p) as [r|].
      + destruct H as [Hpr [n' [Hn' [Hon' Hbefore]]]].
        destruct (Nat.eq_dec r p) as [->|Hne]; auto.
        rewrite (Hbefore p n) in Hon; try discriminate; auto; lia.
      + rewrite (H p n) in Hon; try discriminate; auto.
    - destruct (fwd 0 sq p) as [r|]; auto.
      destruct H as [Hpr [n' [Hn' _]]].
      assert (r < length sq) by (apply nth_error_Some; congruence). lia.
  Qed.

  (* ---------- the inner loop of traverse ---------- *)
  Lemma advance_spec : forall i v c0 l k cur,
    cur <= k -> cur <= c0 ->
    (forall j n, nth_error l j = Some n -> ltb v n = (k + j <? c0)) ->
    let r := advance i v l k cur in
    cur <= r /\ r <= c0 /\ (r = cur \/ k < r) /\
    (forall j n, nth_error l j = Some n -> r <= k + j -> k + j < c0 -> on_level i n = false).
  Proof.
    intros i v c0 l. induction l as [|a l IH]; intros k cur Hck Hc0 Hpart; cbn [SkipModel.advance].
    - repeat split; auto; try lia. intros [|j] n Hn; discriminate.
    - assert (Hpart' : forall j n, nth_error l j = Some n -> ltb v n = (S k + j <? c0)).
      { intros j n Hn. rewrite (Hpart (S j) n Hn). f_equal. lia. }
      pose proof (Hpart 0 a eq_refl) as Ha. rewrite Nat.add_0_r in Ha.
      destruct (on_level i a) eqn:Hon.
      + destruct (ltb v a) eqn:Hlt.
        * symmetry in Ha. apply Nat.ltb_lt in Ha.
          destruct (IH (S k) (S k) (le_n _) Ha Hpart') as [H1 [H2 [H3 H4]]].
          repeat split; try lia.
          intros [|j] n Hn Hr Hk; cbn in Hn; [lia|].
          apply (H4 j n Hn); lia.
        * symmetry in Ha. apply Nat.ltb_ge in Ha.
          repeat split; try lia.
      + destruct (IH (S k) cur (le_S _ _ Hck) Hc0 Hpart') as [H1 [H2 [H3 H4]]].
        repeat split; try lia.
        intros [|j] n Hn Hr Hk; cbn in Hn.
        * injection Hn as <-. exact Hon.
        * apply (H4 j n Hn); lia.
  Qed.

  (* update[i] is "gap free": no node of level i between it and the position of v *)
  Definition gapfree (sq : list node) (c0 i p : nat) : Prop :=
    p <= c0 /\ forall k n, nth_error sq k = Some n -> p <= k -> k < c0 -> on_level i n = false.

  Lemma traverse_from_spec : forall sq v c0,
    (forall k n, nth_error sq k = Some n -> ltb v n = (k <? c0)) ->
    forall i cur, cur <= c0 ->
    let u := traverse_from sq v i cur in
    length u = i /\ forall j, j < i -> gapfree sq c0 j (nth j u 0).
  Proof.
    intros sq v c0 Hpart i. induction i as [|i IH]; intros cur Hc; cbn [SkipModel.traverse_from].
    - split; auto. intros j Hj; lia.
    - set (cur' := advance i v (skipn cur sq) cur cur).
      assert (Hadv := advance_spec i v c0 (skipn cur sq) cur cur (le_n _) Hc).
      fold cur' in Hadv. cbv zeta in Hadv.
      destruct Hadv as [H1 [H2 [H3 H4]]].
      { intros j n Hn. rewrite nth_error_skipn_add in Hn. apply Hpart; auto. }
      destruct (IH cur' H2) as [Hlen Hgap]. cbv zeta.
      split.
      + rewrite app_length, Hlen. cbn. lia.
      + intros j Hj. destruct (Nat.eq_dec j i) as [->|Hne].
        * rewrite app_nth2 by lia. rewrite Hlen, Nat.sub_diag. cbn [nth].
          split; auto. intros k n Hn Hk Hkc.
          apply (H4 (k - cur) n); try lia.
          rewrite nth_error_skipn_add. replace (cur + (k - cur)) with k by lia. exact Hn.
        * rewrite app_nth1 by lia. apply Hgap. lia.
  Qed.

  (* level 0 contains every node: update[0] is the position of v itself *)
  Lemma gapfree0 : forall sq c0 p, Forall (fun n : node => 1 <= nht n) sq -> c0 <= length sq ->
    gapfree sq c0 0 p -> p = c0.
  Proof.
    intros sq c0 p Hh Hc [Hp Hgap].
    destruct (Nat.eq_dec p c0) as [|Hne]; auto.
    destruct (nth_error sq p) as [n|] eqn:Hn; [|apply nth_error_None in Hn; lia].
    specialize (Hgap p n Hn (le_n _)). rewrite Forall_forall in Hh. apply nth_error_In in Hn.
    specialize (Hh _ Hn). unfold SkipModel.on_level in Hgap.
    assert (Hx : (0 <? nht n) = true) by (apply Nat.ltb_lt; lia).
    rewrite Hgap in Hx; [discriminate|lia].
  Qed.

  (* KEY LEMMA (DESIGN 12.4): on a sorted level 0, traverse v yields on every level i < lv a
     predecessor update[i] such that no node of level i lies between update[i] and the first
     node >= v, and update[0] is exactly the position of the first node >= v. *)
  Lemma traverse_spec : forall sq v lv,
    StronglySorted le_nd sq -> Forall (fun n : node => 1 <= nht n) sq ->
    let u := traverse sq v lv in
    let c0 := lt_count v sq in
    length u = lv /\ (forall j, j < lv -> gapfree sq c0 j (upd u j)) /\ (1 <= lv -> upd u 0 = c0).
  Proof.
    intros sq v lv Hs Hh. cbv zeta. unfold SkipModel.traverse, upd.
    destruct (traverse_from_spec sq v (lt_count v sq) (sorted_part v sq Hs) lv 0 (Nat.le_0_l _)) as [Hlen Hgap].
    split; [exact Hlen|]. split; [exact Hgap|].
    intros Hlv. apply (gapfree0 sq); auto. apply lt_count_le.
  Qed.

  (* hence update[i].Forward[i] == node (the first node >= v) exactly on the levels of its tower *)
  Lemma fwd_gapfree_on : forall sq c0 i p nd, gapfree sq c0 i p -> nth_error sq c0 = Some nd ->
    on_level i nd = true -> fwd i sq p = Some c0.
  Proof.
    intros sq c0 i p nd [Hp Hgap] Hnd Hon. pose proof (fwd_spec i sq p) as H.
    destruct (fwd i sq p) as [r|].
    - destruct H as [Hpr [n [Hn [Hon' Hbefore]]]].
      destruct (Nat.lt_trichotomy r c0) as [Hlt|[->|Hgt]]; auto.
      + rewrite (Hgap r n Hn Hpr Hlt) in Hon'. discriminate.
      + rewrite (Hbefore c0 nd Hp Hgt Hnd) in Hon. discriminate.
    - rewrite (H c0 nd Hp Hnd) in Hon. discriminate.
  Qed.

  Lemma fwd_gapfree_ge : forall sq c0 i p, gapfree sq c0 i p ->
    match fwd i sq p with None => True | Some r => c0 <= r end.
  Proof.
    intros sq c0 i p [Hp Hgap]. pose proof (fwd_spec i sq p) as H.
    destruct (fwd i sq p) as [r|]; auto.
    destruct H as [Hpr [n [Hn [Hon' _]]]].
    destruct (Nat.le_gt_cases c0 r) as [|Hlt]; auto.
    rewrite (Hgap r n Hn Hpr Hlt) in Hon'. discriminate.
  Qed.

  Lemma unlink_count_spec : forall sq c0 nd, nth_error sq c0 = Some nd ->
    forall rest i, i <= nht nd -> nht nd <= i + length rest ->
    (forall j, j < length rest -> gapfree sq c0 (i + j) (nth j rest 0)) ->
    unlink_count T sq c0 i rest = nht nd - i.
  Proof.
    intros sq c0 nd Hnd rest. induction rest as [|p rest IH]; intros i Hi Hlen Hgap; cbn [SkipModel.unlink_count].
    - cbn in Hlen. lia.
    - pose proof (Hgap 0 (Nat.lt_0_succ _)) as Hg0. rewrite Nat.add_0_r in Hg0. cbn [nth] in Hg0.
      destruct (Nat.eq_dec i (nht nd)) as [Heq|Hne].
      + (* the node is not on level i: Forward[i] of update[i] is some other node *)
        pose proof (fwd_spec i sq p) as H. destruct (fwd i sq p) as [r|]; [|lia].
        destruct H as [_ [n [Hn [Hon _]]]].
        destruct (Nat.eqb_spec r c0) as [->|Hrc]; [|lia].
        rewrite Hnd in Hn. injection Hn as <-. unfold SkipModel.on_level in Hon.
        apply Nat.ltb_lt in Hon. lia.
      + assert (Hon : on_level i nd = true) by (unfold SkipModel.on_level; apply Nat.ltb_lt; lia).
        rewrite (fwd_gapfree_on _ _ _ _ _ Hg0 Hnd Hon). rewrite Nat.eqb_refl.
        rewrite IH; try lia.
        * cbn in Hlen. lia.
        * intros j Hj. replace (S i + j) with (i + S j) by lia. apply (Hgap (S j)). cbn. lia.
  Qed.

  (* ---------- invariants ---------- *)
  Notation skip_inv := (skip_inv T cmp).
  Notation insert := (insert T cmp).
  Notation delete_element := (delete_element T cmp).
  Notation as_slice := (as_slice T).

  Lemma inv_h1 : forall s : sl, skip_inv s -> Forall (fun n : node => 1 <= nht n) (nodes s).
  Proof.
    intros s (_ & _ & _ & _ & _ & Hh & _). eapply Forall_impl; [|exact Hh]. cbn. intros a Ha. lia.
  Qed.

  Lemma empty_inv : skip_inv empty.
  Proof.
    unfold SkipModel.skip_inv, level_exact. cbn.
    repeat split; auto; try constructor; try lia.
  Qed.

  Lemma random_level_range : forall r, 1 <= random_level r <= MaxLevel.
  Proof. intros r. unfold random_level, MaxLevel. lia. Qed.

  Lemma random_level_onto : forall h, 1 <= h <= MaxLevel -> random_level (h - 1) = h.
  Proof. intros h Hh. unfold random_level, MaxLevel in *. lia. Qed.

  Lemma sorted_insert : forall v n sq, nval n = v -> StronglySorted le_nd sq ->
    StronglySorted le_nd (firstn (lt_count v sq) sq ++ n :: skipn (lt_count v sq) sq).
  Proof.
    intros v n sq Hv Hs. induction Hs as [|a l Hs IH Hall]; cbn [lt_count].
    - cbn. constructor; constructor.
    - destruct (ltb v a) eqn:Ha.
      + cbn [firstn skipn app]. constructor; auto.
        apply Forall_insert_mid. split; auto.
        unfold SkipModel.ltb in Ha. rewrite Hv. apply Z.ltb_lt in Ha. lia.
      + cbn [firstn skipn app]. unfold SkipModel.ltb in Ha. apply Z.ltb_ge in Ha.
        assert (Hva : (cmp v (nval a) <= 0)%Z) by (apply cmp_flip_le; lia).
        constructor; [constructor; auto|].
        constructor; [rewrite Hv; auto|].
        rewrite Forall_forall in *. intros x Hx. rewrite Hv. eapply cmp_trans; eauto.
  Qed.

  Lemma map_insert : forall v n sq, nval n = v ->
    map nval (firstn (lt_count v sq) sq ++ n :: skipn (lt_count v sq) sq) = ms_insert T cmp v (map nval sq).
  Proof.
    intros v n sq Hv. induction sq as [|a l IH]; cbn [lt_count map ms_insert].
    - cbn. rewrite Hv. reflexivity.
    - change (cmp (nval a) v <? 0)%Z with (ltb v a). destruct (ltb v a).
      + cbn [firstn skipn app map]. f_equal. exact IH.
      + cbn [firstn skipn app map]. rewrite Hv. reflexivity.
  Qed.

  Lemma insert_nodes : forall v lvl s, skip_inv s ->
    nodes (insert v lvl s) =
      firstn (lt_count v (nodes s)) (nodes s) ++
      {| nid := nextid s; nval := v; nht := lvl |} :: skipn (lt_count v (nodes s)) (nodes s).
  Proof.
    intros v lvl s Hinv. pose proof (inv_h1 s Hinv) as Hh1.
    destruct Hinv as (Hs & _ & _ & _ & _ & _ & (Hl1 & _) & _).
    destruct (traverse_spec (nodes s) v (level s) Hs Hh1) as (Hlen & _ & Hu0).
    unfold SkipModel.insert. cbn [nodes].
    assert (Hp0 : upd (traverse (nodes s) v (level s) ++ repeat 0 (lvl - level s)) 0 = lt_count v (nodes s)).
    { unfold upd. rewrite app_nth1 by lia. apply Hu0; auto. }
    rewrite Hp0. reflexivity.
  Qed.

  Lemma insert_inv : forall v lvl s, skip_inv s -> 1 <= lvl <= MaxLevel -> skip_inv (insert v lvl s).
  Proof.
    intros v lvl s Hinv Hlvl. pose proof (inv_h1 s Hinv) as Hh1.
    pose proof (insert_nodes v lvl s Hinv) as Hnodes.
    destruct Hinv as (Hs & Hnd & Hids & Hnx & Hsz & Hh & (Hl1 & Hle & Hex) & Hrep).
    destruct (traverse_spec (nodes s) v (level s) Hs Hh1) as (Hlen & Hgap & Hu0).
    set (c0 := lt_count v (nodes s)) in *.
    set (n := {| nid := nextid s; nval := v; nht := lvl |}) in *.
    pose proof (perm_insert_mid c0 (nodes s) n) as Hperm.
    unfold SkipModel.skip_inv. rewrite Hnodes.
    assert (A1 : StronglySorted le_nd (firstn c0 (nodes s) ++ n :: skipn c0 (nodes s))).
    { apply sorted_insert; auto. }
    assert (A2 : NoDup (map nid (firstn c0 (nodes s) ++ n :: skipn c0 (nodes s)))).
    { eapply Permutation_NoDup; [symmetry; apply Permutation_map; exact Hperm|].
      cbn [map]. constructor; auto. intros Hin. apply in_map_iff in Hin. destruct Hin as [x [Hx Hin]].
      rewrite Forall_forall in Hids. specialize (Hids x Hin). cbn in Hx. lia. }
    assert (A3 : Forall (fun x : node => 1 <= nid x < nextid (insert v lvl s)) (firstn c0 (nodes s) ++ n :: skipn c0 (nodes s))).
    { apply Forall_insert_mid. cbn. split; [lia|]. eapply Forall_impl; [|exact Hids]. cbn. intros a Ha. lia. }
    assert (A4 : 1 <= nextid (insert v lvl s)) by (cbn; lia).
    assert (A5 : size (insert v lvl s) = Z.of_nat (length (firstn c0 (nodes s) ++ n :: skipn c0 (nodes s)))).
    { rewrite (Permutation_length Hperm). cbn [length SkipModel.insert size]. lia. }
    assert (A6 : Forall (fun x : node => 1 <= nht x <= MaxLevel) (firstn c0 (nodes s) ++ n :: skipn c0 (nodes s))).
    { apply Forall_insert_mid. split; auto. }
    assert (A8 : rep (insert v lvl s) = true).
    { unfold SkipModel.insert. cbn [rep]. rewrite Hrep. cbn [andb].
      apply forallb_forall. intros i Hi. apply in_seq in Hi. unfold gap_ok.
      destruct (Nat.lt_ge_cases i (level s)) as [Hlt|Hge].
      - assert (Hui : upd (traverse (nodes s) v (level s) ++ repeat 0 (lvl - level s)) i = upd (traverse (nodes s) v (level s)) i).
        { unfold upd. rewrite app_nth1 by lia. reflexivity. }
        assert (Hu0' : upd (traverse (nodes s) v (level s) ++ repeat 0 (lvl - level s)) 0 = c0).
        { unfold upd. rewrite app_nth1 by lia. apply Hu0; auto. }
        rewrite Hui, Hu0'. pose proof (fwd_gapfree_ge _ _ _ _ (Hgap i Hlt)) as Hf.
        destruct (fwd i (nodes s) (upd (traverse (nodes s) v (level s)) i)) as [r|]; auto.
        apply Nat.leb_le. exact Hf.
      - assert (Hui : upd (traverse (nodes s) v (level s) ++ repeat 0 (lvl - level s)) i = 0).
        { unfold upd. rewrite app_nth2 by lia. apply nth_repeat0. }
        rewrite Hui. pose proof (fwd_spec i (nodes s) 0) as Hf.
        destruct (fwd i (nodes s) 0) as [r|]; auto.
        destruct Hf as [_ [x [Hx [Hon _]]]]. apply nth_error_In in Hx.
        rewrite Forall_forall in Hle. specialize (Hle x Hx).
        unfold SkipModel.on_level in Hon. apply Nat.ltb_lt in Hon. lia. }
    assert (A7 : level_exact T (insert v lvl s)).
    { unfold level_exact. rewrite Hnodes. cbn [level SkipModel.insert]. split; [lia|]. split.
      - apply Forall_insert_mid. split; [cbn; lia|]. eapply Forall_impl; [|exact Hle]. cbn. intros a Ha. lia.
      - destruct (Nat.max_spec (level s) lvl) as [[Hlt Hmax]|[Hge Hmax]]; rewrite Hmax.
        + right. exists n. split; [apply in_or_app; right; left; reflexivity|reflexivity].
        + destruct Hex as [H1|[x [Hx Hxh]]]; [left; lia|]. right. exists x. split; auto.
          eapply Permutation_in; [symmetry; exact Hperm|]. right. exact Hx. }
    exact (conj A1 (conj A2 (conj A3 (conj A4 (conj A5 (conj A6 (conj A7 A8))))))).
  Qed.

  Lemma trim_spec : forall (sq : list node) lv, 1 <= lv -> Forall (fun n : node => nht n <= lv) sq ->
    1 <= trim T sq lv /\ Forall (fun n : node => nht n <= trim T sq lv) sq /\
    (trim T sq lv = 1 \/ exists n, In n sq /\ nht n = trim T sq lv).
  Proof.
    intros sq lv. induction lv as [|j IH]; intros H1 Hall; [lia|].
    cbn [SkipModel.trim]. destruct (Nat.ltb_spec 1 (S j)) as [Hlt|Hge].
    - pose proof (fwd_spec j sq 0) as Hf. destruct (fwd j sq 0) as [r|].
      + split; [lia|]. split; auto. right.
        destruct Hf as [_ [x [Hx [Hon _]]]]. exists x. apply nth_error_In in Hx. split; auto.
        rewrite Forall_forall in Hall. specialize (Hall x Hx).
        unfold SkipModel.on_level in Hon. apply Nat.ltb_lt in Hon. lia.
      + apply IH; [lia|]. apply Forall_forall. intros x Hx.
        destruct (In_nth_error _ _ Hx) as [k Hk].
        specialize (Hf k x (Nat.le_0_l _) Hk). unfold SkipModel.on_level in Hf.
        apply Nat.ltb_ge in Hf. exact Hf.
    - split; [lia|]. split; auto. left. lia.
  Qed.

  Lemma delete_simpl : forall v s, skip_inv s ->
    delete_element v s =
    match nth_error (nodes s) (lt_count v (nodes s)) with
    | Some nd =>
      if (cmp (nval nd) v =? 0)%Z then
        ({| nodes := remove_at (nodes s) (lt_count v (nodes s));
            level := trim T (remove_at (nodes s) (lt_count v (nodes s))) (level s);
            size := (size s - 1)%Z; nextid := nextid s; rep := true |}, true)
      else (s, true)
    | None => (s, true)
    end.
  Proof.
    intros v s Hinv. pose proof (inv_h1 s Hinv) as Hh1.
    destruct Hinv as (Hs & Hnd & Hids & Hnx & Hsz & Hh & (Hl1 & Hle & Hex) & Hrep).
    destruct (traverse_spec (nodes s) v (level s) Hs Hh1) as (Hlen & Hgap & Hu0).
    unfold SkipModel.delete_element. rewrite (Hu0 Hl1). rewrite (fwd0 _ _ Hh1).
    set (c0 := lt_count v (nodes s)) in *.
    destruct (Nat.ltb_spec c0 (length (nodes s))) as [Hlt|Hge].
    - destruct (nth_error (nodes s) c0) as [nd|] eqn:Hn; [|reflexivity].
      destruct (cmp (nval nd) v =? 0)%Z; cbn [negb]; [|reflexivity].
      rewrite Hrep. cbn [andb].
      rewrite (unlink_count_spec (nodes s) c0 nd Hn).
      + rewrite Nat.sub_0_r, Nat.eqb_refl. reflexivity.
      + lia.
      + rewrite Hlen. cbn. rewrite Forall_forall in Hle. apply Hle. eapply nth_error_In; eauto.
      + intros j Hj. cbn [plus]. apply Hgap. lia.
    - assert (Hn : nth_error (nodes s) c0 = None) by (apply nth_error_None; exact Hge).
      rewrite Hn. reflexivity.
  Qed.

  Lemma delete_inv : forall v s, skip_inv s ->
    skip_inv (fst (delete_element v s)) /\ snd (delete_element v s) = true.
  Proof.
    intros v s Hinv. rewrite (delete_simpl v s Hinv).
    set (c0 := lt_count v (nodes s)).
    destruct (nth_error (nodes s) c0) as [nd|] eqn:Hn; [|split; auto].
    destruct (cmp (nval nd) v =? 0)%Z; [|split; auto].
    split; [|reflexivity]. cbn [fst].
    destruct Hinv as (Hs & Hnd & Hids & Hnx & Hsz & Hh & (Hl1 & Hle & Hex) & Hrep).
    assert (Hlt : c0 < length (nodes s)) by (apply nth_error_Some; congruence).
    unfold SkipModel.skip_inv, level_exact. cbn [nodes level size nextid rep].
    split; [apply remove_at_sorted; exact Hs|].
    split; [apply remove_at_nodup; exact Hnd|].
    split; [apply Forall_forall; intros x Hx; apply remove_at_incl in Hx; rewrite Forall_forall in Hids; auto|].
    split; [exact Hnx|].
    split; [pose proof (remove_at_length (nodes s) c0 Hlt); lia|].
    split; [apply Forall_forall; intros x Hx; apply remove_at_incl in Hx; rewrite Forall_forall in Hh; auto|].
    split; [|reflexivity].
    apply trim_spec; auto.
    apply Forall_forall. intros x Hx. apply remove_at_incl in Hx. rewrite Forall_forall in Hle. auto.
  Qed.

  (* ---------- the observables, in terms of the level-0 sequence ---------- *)
  Lemma chain0_all : forall sq : list node, Forall (fun n : node => 1 <= nht n) sq -> filter (on_level 0) sq = sq.
  Proof.
    intros sq Hh. induction Hh as [|a l Ha Hh IH]; cbn [filter]; auto.
    assert (Hon : on_level 0 a = true) by (unfold SkipModel.on_level; apply Nat.ltb_lt; lia).
    rewrite Hon. f_equal. exact IH.
  Qed.

  Lemma as_slice_nodes : forall s : sl, skip_inv s -> as_slice s = map nval (nodes s).
  Proof.
    intros s Hinv. unfold SkipModel.as_slice, chain. rewrite (chain0_all _ (inv_h1 s Hinv)). reflexivity.
  Qed.

  Lemma insert_slice : forall v lvl s, skip_inv s -> 1 <= lvl <= MaxLevel ->
    as_slice (insert v lvl s) = ms_insert T cmp v (as_slice s).
  Proof.
    intros v lvl s Hinv Hlvl.
    rewrite (as_slice_nodes _ (insert_inv v lvl s Hinv Hlvl)), (as_slice_nodes s Hinv).
    rewrite (insert_nodes v lvl s Hinv). apply map_insert. reflexivity.
  Qed.

  Lemma map_delete : forall v (sq : list node),
    map nval (match nth_error sq (lt_count v sq) with
              | Some nd => if (cmp (nval nd) v =? 0)%Z then remove_at sq (lt_count v sq) else sq
              | None => sq end) = ms_delete T cmp v (map nval sq).
  Proof.
    intros v sq. induction sq as [|a l IH]; cbn [lt_count map ms_delete]; [reflexivity|].
    change (cmp (nval a) v <? 0)%Z with (ltb v a). destruct (ltb v a).
    - cbn [nth_error]. rewrite <- IH.
      destruct (nth_error l (lt_count v l)) as [nd|]; [|reflexivity].
      destruct (cmp (nval nd) v =? 0)%Z; reflexivity.
    - cbn [nth_error]. destruct (cmp (nval a) v =? 0)%Z; reflexivity.
  Qed.

  Lemma delete_slice : forall v s, skip_inv s ->
    as_slice (fst (delete_element v s)) = ms_delete T cmp v (as_slice s).
  Proof.
    intros v s Hinv. rewrite (as_slice_nodes _ (proj1 (delete_inv v s Hinv))), (as_slice_nodes s Hinv).
    rewrite <- map_delete. rewrite (delete_simpl v s Hinv).
    destruct (nth_error (nodes s) (lt_count v (nodes s))) as [nd|]; [|reflexivity].
    destruct (cmp (nval nd) v =? 0)%Z; reflexivity.
  Qed.

  Lemma search_sorted : forall v (sq : list node), StronglySorted le_nd sq ->
    ms_search T cmp v (map nval sq) =
    match nth_error sq (lt_count v sq) with Some nd => (cmp (nval nd) v =? 0)%Z | None => false end.
  Proof.
    intros v sq Hs. unfold ms_search. induction Hs as [|a l Hs IH Hall]; cbn [lt_count map existsb]; [reflexivity|].
    destruct (ltb v a) eqn:Ha; unfold SkipModel.ltb in Ha.
    - cbn [nth_error]. rewrite <- IH. apply Z.ltb_lt in Ha.
      destruct (Z.eqb_spec (cmp (nval a) v) 0); [lia|reflexivity].
    - cbn [nth_error]. apply Z.ltb_ge in Ha.
      destruct (Z.eqb_spec (cmp (nval a) v) 0) as [He|Hne]; [reflexivity|]. cbn [orb].
      destruct (existsb (fun x : T => (cmp x v =? 0)%Z) (map nval l)) eqn:Hex; [|reflexivity].
      apply existsb_exists in Hex. destruct Hex as [x [Hx Hxv]]. apply in_map_iff in Hx.
      destruct Hx as [n [Hnx Hn]]. subst x. rewrite Forall_forall in Hall. specialize (Hall n Hn).
      apply Z.eqb_eq in Hxv. assert (Hle : (cmp (nval n) v <= 0)%Z) by lia.
      pose proof (cmp_trans _ _ _ Hall Hle). lia.
  Qed.

  Lemma search_spec : forall v s, skip_inv s -> search T cmp v s = ms_search T cmp v (as_slice s).
  Proof.
    intros v s Hinv. pose proof (inv_h1 s Hinv) as Hh1. rewrite (as_slice_nodes s Hinv).
    destruct Hinv as (Hs & _ & _ & _ & _ & _ & (Hl1 & _) & _).
    destruct (traverse_spec (nodes s) v (level s) Hs Hh1) as (_ & _ & Hu0).
    unfold SkipModel.search. rewrite (Hu0 Hl1), (fwd0 _ _ Hh1), (search_sorted v _ Hs).
    destruct (Nat.ltb_spec (lt_count v (nodes s)) (length (nodes s))) as [Hlt|Hge]; [reflexivity|].
    assert (Hn : nth_error (nodes s) (lt_count v (nodes s)) = None) by (apply nth_error_None; exact Hge).
    rewrite Hn. reflexivity.
  Qed.

  Lemma get_spec : forall i s, skip_inv s -> get T i s = ms_get T i (as_slice s).
  Proof.
    intros i s Hinv. pose proof (inv_h1 s Hinv) as Hh1. rewrite (as_slice_nodes s Hinv).
    destruct Hinv as (_ & _ & _ & _ & Hsz & _).
    unfold SkipModel.get, ms_get, chain. rewrite (chain0_all _ Hh1), map_length, <- Hsz.
    destruct ((i <? 0)%Z || (size s <=? i)%Z); [reflexivity|].
    rewrite nth_error_map'. destruct (nth_error (nodes s) (Z.to_nat i)); reflexivity.
  Qed.

  Lemma peek_spec : forall s, skip_inv s -> peek T s = ms_peek T (as_slice s).
  Proof.
    intros s Hinv. pose proof (inv_h1 s Hinv) as Hh1. rewrite (as_slice_nodes s Hinv).
    unfold SkipModel.peek. rewrite (fwd0 _ _ Hh1).
    destruct (nodes s) as [|a l]; reflexivity.
  Qed.

  Lemma len_spec : forall s, skip_inv s -> len T s = Z.of_nat (length (as_slice s)).
  Proof.
    intros s Hinv. rewrite (as_slice_nodes s Hinv), map_length.
    destruct Hinv as (_ & _ & _ & _ & Hsz & _). exact Hsz.
  Qed.

  (* ---------- refinement, step by step and for whole histories ---------- *)
  Lemma step_refines : forall s o, skip_inv s ->
    skip_inv (fst (step T cmp s o)) /\
    as_slice (fst (step T cmp s o)) = fst (ms_step T cmp (as_slice s) o) /\
    snd (step T cmp s o) = snd (ms_step T cmp (as_slice s) o).
  Proof.
    intros s o Hinv. destruct o as [v r|v|v|i| | |]; cbn [step ms_step fst snd].
    - split; [apply insert_inv; auto; apply random_level_range|].
      split; [apply insert_slice; auto; apply random_level_range|reflexivity].
    - pose proof (delete_inv v s Hinv) as [Hi Ht]. pose proof (delete_slice v s Hinv) as Hsl.
      destruct (delete_element v s) as [s' b]. cbn [fst snd] in *. subst b. auto.
    - rewrite (search_spec v s Hinv). auto.
    - rewrite (get_spec i s Hinv). auto.
    - rewrite (peek_spec s Hinv). auto.
    - rewrite (len_spec s Hinv). auto.
    - auto.
  Qed.

  Lemma run_from_refines : forall ops s, skip_inv s ->
    skip_inv (fst (run_from T cmp s ops)) /\
    as_slice (fst (run_from T cmp s ops)) = fst (ms_run_from T cmp (as_slice s) ops) /\
    snd (run_from T cmp s ops) = snd (ms_run_from T cmp (as_slice s) ops).
  Proof.
    intros ops. induction ops as [|o ops IH]; intros s Hinv; cbn [run_from ms_run_from].
    - cbn. auto.
    - destruct (step_refines s o Hinv) as (Hi & Hsl & Hr).
      destruct (step T cmp s o) as [s1 r1]. destruct (ms_step T cmp (as_slice s) o) as [l1 r1'].
      cbn [fst snd] in *. subst l1 r1'.
      destruct (IH s1 Hi) as (Hi2 & Hsl2 & Hr2).
      destruct (run_from T cmp s1 ops) as [s2 rs]. destruct (ms_run_from T cmp (as_slice s1) ops) as [l2 rs'].
      cbn [fst snd] in *. subst. auto.
  Qed.

  Lemma run_refines : forall ops,
    skip_inv (final T cmp ops) /\
    as_slice (final T cmp ops) = fst (ms_run T cmp ops) /\
    outs T cmp ops = snd (ms_run T cmp ops).
  Proof.
    intros ops. unfold final, outs, run, ms_run.
    pose proof (run_from_refines ops empty empty_inv) as H.
    assert (He : as_slice empty = []) by reflexivity. rewrite He in H. exact H.
  Qed.

  (* ---------- the specification is a sorted multiset ---------- *)
  Notation sortedT := (sortedT T cmp).
  Notation ms_insert := (ms_insert T cmp).
  Notation ms_delete := (ms_delete T cmp).
  Notation ms_search := (ms_search T cmp).

  Lemma ms_insert_perm : forall v l, Permutation (ms_insert v l) (v :: l).
  Proof.
    intros v l. induction l as [|x t IH]; cbn [SkipModel.ms_insert]; [reflexivity|].
    destruct (cmp x v <? 0)%Z; [|reflexivity].
    rewrite IH. apply perm_swap.
  Qed.

  Lemma ms_insert_sorted : forall v l, sortedT l -> sortedT (ms_insert v l).
  Proof.
    intros v l Hs. induction Hs as [|a l Hs IH Hall]; cbn [SkipModel.ms_insert].
    - constructor; constructor.
    - destruct (Z.ltb_spec (cmp a v) 0) as [Hlt|Hge].
      + constructor; [exact IH|]. apply Forall_forall. intros x Hx.
        apply (Permutation_in _ (ms_insert_perm v l)) in Hx. destruct Hx as [<-|Hx]; [lia|].
        rewrite Forall_forall in Hall. auto.
      + assert (Hva : (cmp v a <= 0)%Z) by (apply cmp_flip_le; lia).
        constructor; [constructor; auto|]. constructor; auto.
        rewrite Forall_forall in *. intros x Hx. eapply cmp_trans; eauto.
  Qed.

  Lemma ms_delete_incl : forall v l x, In x (ms_delete v l) -> In x l.
  Proof.
    intros v l. induction l as [|a t IH]; intros x Hx; cbn [SkipModel.ms_delete] in Hx; auto.
    destruct (cmp a v <? 0)%Z.
    - destruct Hx as [<-|Hx]; [left; reflexivity|right; auto].
    - destruct (cmp a v =? 0)%Z; [right; exact Hx|exact Hx].
  Qed.

  Lemma ms_delete_sorted : forall v l, sortedT l -> sortedT (ms_delete v l).
  Proof.
    intros v l Hs. induction Hs as [|a l Hs IH Hall]; cbn [SkipModel.ms_delete].
    - constructor.
    - destruct (cmp a v <? 0)%Z.
      + constructor; [exact IH|]. apply Forall_forall. intros x Hx. apply ms_delete_incl in Hx.
        rewrite Forall_forall in Hall. auto.
      + destruct (cmp a v =? 0)%Z; [exact Hs|constructor; auto].
  Qed.

  Lemma ms_delete_present : forall v l, sortedT l -> (exists x, In x l /\ cmp x v = 0%Z) ->
    exists x, In x l /\ cmp x v = 0%Z /\ Permutation l (x :: ms_delete v l).
  Proof.
    intros v l Hs. induction Hs as [|a l Hs IH Hall]; intros [x [Hx Hxv]]; [contradiction|].
    cbn [SkipModel.ms_delete]. destruct (Z.ltb_spec (cmp a v) 0) as [Hlt|Hge].
    - destruct Hx as [->|Hx]; [lia|].
      destruct IH as [y [Hy [Hyv Hp]]]; [exists x; auto|].
      exists y. split; [right; exact Hy|]. split; [exact Hyv|].
      rewrite Hp at 1. apply perm_swap.
    - destruct (Z.eqb_spec (cmp a v) 0) as [He|Hne].
      + exists a. split; [left; reflexivity|]. split; [exact He|reflexivity].
      + destruct Hx as [->|Hx]; [lia|]. rewrite Forall_forall in Hall. specialize (Hall x Hx).
        assert (Hle : (cmp x v <= 0)%Z) by lia. pose proof (cmp_trans _ _ _ Hall Hle). lia.
  Qed.

  Lemma ms_delete_absent : forall v l, (forall x, In x l -> cmp x v <> 0%Z) -> ms_delete v l = l.
  Proof.
    intros v l. induction l as [|a t IH]; intros Hno; cbn [SkipModel.ms_delete]; [reflexivity|].
    destruct (cmp a v <? 0)%Z.
    - f_equal. apply IH. intros x Hx. apply Hno. right. exact Hx.
    - destruct (Z.eqb_spec (cmp a v) 0) as [He|Hne]; [|reflexivity].
      exfalso. apply (Hno a); [left; reflexivity|exact He].
  Qed.

  Lemma ms_search_iff : forall v l, ms_search v l = true <-> exists x, In x l /\ cmp x v = 0%Z.
  Proof.
    intros v l. unfold SkipModel.ms_search. rewrite existsb_exists.
    split; intros [x [H1 H2]]; exists x; split; auto; apply Z.eqb_eq; auto.
  Qed.

  Lemma ms_get_in : forall i (l : list T), (0 <= i < Z.of_nat (length l))%Z ->
    exists x, nth_error l (Z.to_nat i) = Some x /\ ms_get T i l = Ok x.
  Proof.
    intros i l Hi. unfold ms_get.
    destruct (Z.ltb_spec i 0); [lia|]. destruct (Z.leb_spec (Z.of_nat (length l)) i); [lia|]. cbn [orb].
    destruct (nth_error l (Z.to_nat i)) as [x|] eqn:Hn; [exists x; auto|].
    apply nth_error_None in Hn. lia.
  Qed.

  Lemma ms_get_out : forall i (l : list T), ~ (0 <= i < Z.of_nat (length l))%Z -> ms_get T i l = Err EIndex.
  Proof.
    intros i l Hi. unfold ms_get.
    destruct (Z.ltb_spec i 0); [reflexivity|]. destruct (Z.leb_spec (Z.of_nat (length l)) i); [reflexivity|]. lia.
  Qed.

  Lemma ms_step_ok : forall l o, sortedT l ->
    sorted_multiset_step T cmp l o (fst (ms_step T cmp l o)) (snd (ms_step T cmp l o)).
  Proof.
    intros l o Hs. destruct o as [v r|v|v|i| | |]; cbn [ms_step fst snd sorted_multiset_step].
    - split; [reflexivity|apply ms_insert_perm].
    - split; [reflexivity|]. split; [apply ms_delete_present; exact Hs|apply ms_delete_absent].
    - split; [reflexivity|]. exists (ms_search v l). split; [reflexivity|apply ms_search_iff].
    - split; [reflexivity|]. split.
      + intros Hi. destruct (ms_get_in i l Hi) as [x [Hn Hg]]. exists x. rewrite Hg. auto.
      + intros Hi. rewrite (ms_get_out i l Hi). reflexivity.
    - split; [reflexivity|]. destruct l as [|x t]; cbn [ms_peek]; [reflexivity|].
      split; [reflexivity|]. intros y [<-|Hy]; [rewrite cmp_refl; lia|].
      inversion Hs as [|a' l' Hs' Hall]; subst. rewrite Forall_forall in Hall. auto.
    - auto.
    - auto.
  Qed.

  Lemma ms_step_sorted : forall l o, sortedT l -> sortedT (fst (ms_step T cmp l o)).
  Proof.
    intros l o Hs. destruct o as [v r|v|v|i| | |]; cbn [ms_step fst]; auto.
    - apply ms_insert_sorted; exact Hs.
    - apply ms_delete_sorted; exact Hs.
  Qed.

  Lemma ms_run_from_sorted : forall ops l, sortedT l -> sortedT (fst (ms_run_from T cmp l ops)).
  Proof.
    intros ops. induction ops as [|o ops IH]; intros l Hs; cbn [ms_run_from]; [exact Hs|].
    pose proof (ms_step_sorted l o Hs) as H1. destruct (ms_step T cmp l o) as [l1 r1]. cbn [fst] in H1.
    specialize (IH l1 H1). destruct (ms_run_from T cmp l1 ops) as [l2 rs]. exact IH.
  Qed.

  Lemma ms_run_from_app : forall a b l,
    fst (ms_run_from T cmp l (a ++ b)) = fst (ms_run_from T cmp (fst (ms_run_from T cmp l a)) b).
  Proof.
    intros a. induction a as [|o a IH]; intros b l; cbn [app ms_run_from]; [reflexivity|].
    destruct (ms_step T cmp l o) as [l1 r1]. specialize (IH b l1).
    destruct (ms_run_from T cmp l1 (a ++ b)) as [l2 rs]. destruct (ms_run_from T cmp l1 a) as [l3 rs3].
    cbn [fst] in *. exact IH.
  Qed.

  Lemma ms_run_snoc : forall ops o,
    fst (ms_run T cmp (ops ++ [o])) = fst (ms_step T cmp (fst (ms_run T cmp ops)) o).
  Proof.
    intros ops o. unfold ms_run. rewrite ms_run_from_app. cbn [ms_run_from].
    destruct (ms_step T cmp (fst (ms_run_from T cmp [] ops)) o) as [l1 r1]. reflexivity.
  Qed.

  Lemma ms_contents : forall ops, contents_rel T cmp ops (fst (ms_run T cmp ops)).
  Proof.
    intros ops. induction ops as [|o ops IH] using rev_ind; [constructor|].
    rewrite ms_run_snoc.
    assert (Hs : sortedT (fst (ms_run T cmp ops))) by (apply ms_run_from_sorted; constructor).
    set (l := fst (ms_run T cmp ops)) in *.
    destruct o as [v r|v|v|i| | |]; cbn [ms_step fst]; try (constructor; exact IH).
    - eapply CR_perm; [apply CR_insert; exact IH|]. symmetry. apply ms_insert_perm.
    - destruct (ms_search v l) eqn:Hsr.
      + apply ms_search_iff in Hsr. destruct (ms_delete_present v l Hs Hsr) as [x [Hx [Hxv Hp]]].
        eapply CR_delete_present; eauto.
      + assert (Hno : forall x, In x l -> cmp x v <> 0%Z).
        { intros x Hx Hxv. assert (Ht : ms_search v l = true) by (apply ms_search_iff; exists x; auto). congruence. }
        rewrite (ms_delete_absent v l Hno). apply CR_delete_absent; auto.
  Qed.

  Lemma ms_step_no_panic : forall l o, snd (ms_step T cmp l o) <> RVal Panic.
  Proof.
    intros l o. destruct o as [v r|v|v|i| | |]; cbn [ms_step snd]; try discriminate.
    - unfold ms_get. destruct ((i <? 0)%Z || (Z.of_nat (length l) <=? i)%Z) eqn:E; [discriminate|].
      destruct (nth_error l (Z.to_nat i)) as [x|] eqn:Hn; [discriminate|].
      apply nth_error_None in Hn. lia.
    - destruct l; cbn; discriminate.
  Qed.

  Lemma ms_run_from_no_panic : forall ops l, ~ In (RVal Panic) (snd (ms_run_from T cmp l ops)).
  Proof.
    intros ops. induction ops as [|o ops IH]; intros l; cbn [ms_run_from]; [cbn; tauto|].
    pose proof (ms_step_no_panic l o) as H1. destruct (ms_step T cmp l o) as [l1 r1]. cbn [snd] in H1.
    specialize (IH l1). destruct (ms_run_from T cmp l1 ops) as [l2 rs]. cbn [snd] in *.
    intros [He|Hin]; [congruence|auto].
  Qed.

  (* ---------- the theorems of props/C05_skip.v ---------- *)
  Lemma skip_inv_reachable_lemma : forall ops, skip_inv (final T cmp ops).
  Proof. intros ops. exact (proj1 (run_refines ops)). Qed.

  Lemma skip_outputs_eq_spec_lemma : forall ops,
    outs T cmp ops = snd (ms_run T cmp ops) /\ as_slice (final T cmp ops) = fst (ms_run T cmp ops).
  Proof. intros ops. destruct (run_refines ops) as (_ & H1 & H2). auto. Qed.

  Lemma skip_sorted_reachable_lemma : forall ops, sortedT (as_slice (final T cmp ops)).
  Proof.
    intros ops. destruct (run_refines ops) as (_ & H1 & _). rewrite H1.
    apply ms_run_from_sorted. constructor.
  Qed.

  Lemma skip_step_lemma : forall ops o,
    let s := final T cmp ops in
    let s' := fst (step T cmp s o) in
    sortedT (as_slice s) /\ sortedT (as_slice s') /\
    sorted_multiset_step T cmp (as_slice s) o (as_slice s') (snd (step T cmp s o)).
  Proof.
    intros ops o. cbv zeta. pose proof (skip_sorted_reachable_lemma ops) as Hs.
    destruct (step_refines (final T cmp ops) o (skip_inv_reachable_lemma ops)) as (_ & H1 & H2).
    rewrite H1, H2. split; [exact Hs|]. split; [apply ms_step_sorted; exact Hs|apply ms_step_ok; exact Hs].
  Qed.

  Lemma skip_contents_lemma : forall ops, contents_rel T cmp ops (as_slice (final T cmp ops)).
  Proof. intros ops. destruct (run_refines ops) as (_ & H1 & _). rewrite H1. apply ms_contents. Qed.

  Lemma skip_never_panics_lemma : forall ops, ~ In (RVal Panic) (outs T cmp ops).
  Proof. intros ops. destruct (run_refines ops) as (_ & _ & H2). rewrite H2. apply ms_run_from_no_panic. Qed.

  Lemma from_slice_run_lemma : forall l,
    from_slice T cmp l = final T cmp (map (fun vr => OInsert (fst vr) (snd vr)) l).
  Proof.
    intros l. unfold from_slice, final, run. generalize (@empty T).
    induction l as [|[v r] l IH]; intros s; cbn [fold_left map run_from]; [reflexivity|].
    cbn [step fst snd]. rewrite IH.
    destruct (run_from T cmp (insert v (random_level r) s) (map (fun vr => OInsert (fst vr) (snd vr)) l)) as [s2 rs].
    reflexivity.
  Qed.

  (* key lemma 12.4 for every reachable state: on every level below [level] the predecessor found
     by traverse has no node of that level between itself and the first node >= v, and
     update[i].Forward[i] is that node exactly on the levels of its tower *)
  Lemma skip_traverse_lemma : forall ops v,
    let s := final T cmp ops in
    let u := traverse (nodes s) v (level s) in
    let c0 := lt_count v (nodes s) in
    length u = level s /\ upd u 0 = c0 /\
    (forall k n, nth_error (nodes s) k = Some n -> ltb v n = (k <? c0)) /\
    (forall i nd, i < level s -> nth_error (nodes s) c0 = Some nd ->
       (fwd i (nodes s) (upd u i) = Some c0 <-> i < nht nd)).
  Proof.
    intros ops v. cbv zeta. pose proof (skip_inv_reachable_lemma ops) as Hinv.
    set (s := final T cmp ops) in *. pose proof (inv_h1 s Hinv) as Hh1.
    destruct Hinv as (Hs & _ & _ & _ & _ & _ & (Hl1 & _) & _).
    destruct (traverse_spec (nodes s) v (level s) Hs Hh1) as (Hlen & Hgap & Hu0).
    split; [exact Hlen|]. split; [apply Hu0; exact Hl1|]. split; [apply sorted_part; exact Hs|].
    intros i nd Hi Hnd. split.
    - intros Hf. pose proof (fwd_spec i (nodes s) (upd (traverse (nodes s) v (level s)) i)) as Hsp.
      rewrite Hf in Hsp. destruct Hsp as [_ [n [Hn [Hon _]]]]. rewrite Hnd in Hn. injection Hn as <-.
      unfold SkipModel.on_level in Hon. apply Nat.ltb_lt in Hon. exact Hon.
    - intros Hh. eapply fwd_gapfree_on; [apply Hgap; exact Hi|exact Hnd|].
      unfold SkipModel.on_level. apply Nat.ltb_lt. exact Hh.
  Qed.
End Proofs.

(* ---------- closed forms: the comparator laws as one premise ---------- *)
Section Closed.
  Variable T : Type.
  Variable cmp : T -> T -> Z.
  Hypothesis Hcmp : cmp_total_preorder T cmp.

  Lemma skip_inv_reachable_tp : forall ops, skip_inv T cmp (final T cmp ops).
  Proof. destruct Hcmp as [Ha Ht]. intros ops. eapply skip_inv_reachable_lemma; eassumption. Qed.

  Lemma skip_step_tp : forall ops o,
    let s := final T cmp ops in
    let s' := fst (step T cmp s o) in
    sortedT T cmp (as_slice T s) /\ sortedT T cmp (as_slice T s') /\
    sorted_multiset_step T cmp (as_slice T s) o (as_slice T s') (snd (step T cmp s o)).
  Proof. destruct Hcmp as [Ha Ht]. intros ops o. eapply skip_step_lemma; eassumption. Qed.

  Lemma skip_outputs_eq_spec_tp : forall ops,
    outs T cmp ops = snd (ms_run T cmp ops) /\ as_slice T (final T cmp ops) = fst (ms_run T cmp ops).
  Proof. destruct Hcmp as [Ha Ht]. intros ops. eapply skip_outputs_eq_spec_lemma; eassumption. Qed.

  Lemma skip_contents_tp : forall ops,
    contents_rel T cmp ops (as_slice T (final T cmp ops)) /\ sortedT T cmp (as_slice T (final T cmp ops)).
  Proof.
    destruct Hcmp as [Ha Ht]. intros ops. split.
    - eapply skip_contents_lemma; eassumption.
    - eapply skip_sorted_reachable_lemma; eassumption.
  Qed.

  Lemma skip_never_panics_tp : forall ops, ~ In (RVal Panic) (outs T cmp ops).
  Proof. destruct Hcmp as [Ha Ht]. intros ops. eapply skip_never_panics_lemma; eassumption. Qed.

  Lemma skip_from_slice_tp : forall l,
    let s := from_slice T cmp l in
    s = final T cmp (map (fun vr => OInsert (fst vr) (snd vr)) l) /\
    skip_inv T cmp s /\ sortedT T cmp (as_slice T s) /\ Permutation (as_slice T s) (map fst l).
  Proof.
    destruct Hcmp as [Ha Ht]. intros l. cbv zeta.
    rewrite from_slice_run_lemma.
    split; [reflexivity|]. split; [eapply skip_inv_reachable_lemma; eassumption|].
    split; [eapply skip_sorted_reachable_lemma; eassumption|].
    destruct (skip_outputs_eq_spec_lemma T cmp Ha Ht (map (fun vr => OInsert (fst vr) (snd vr)) l)) as [_ Hsl].
    rewrite Hsl. clear Hsl. unfold ms_run. 
    assert (Hg : forall l0, Permutation (fst (ms_run_from T cmp l0 (map (fun vr : T * nat => OInsert (fst vr) (snd vr)) l)))
                                        (map fst l ++ l0)).
    { induction l as [|[v r] l IH]; intros l0; cbn [map ms_run_from app]; [reflexivity|].
      cbn [ms_step fst snd]. specialize (IH (ms_insert T cmp v l0)).
      destruct (ms_run_from T cmp (ms_insert T cmp v l0) (map (fun vr : T * nat => OInsert (fst vr) (snd vr)) l)) as [l2 rs].
      cbn [fst] in *. rewrite IH. rewrite (ms_insert_perm T cmp v l0). cbn [fst].
      symmetry. apply Permutation_middle. }
    rewrite (Hg []). rewrite app_nil_r. reflexivity.
  Qed.

  Lemma skip_traverse_tp : forall ops v,
    let s := final T cmp ops in
    let u := traverse T cmp (nodes s) v (level s) in
    let c0 := upd u 0 in
    length u = level s /\
    (forall k n, nth_error (nodes s) k = Some n -> ltb T cmp v n = (k <? c0)) /\
    (forall i nd, i < level s -> nth_error (nodes s) c0 = Some nd ->
       (fwd T i (nodes s) (upd u i) = Some c0 <-> i < nht nd)).
  Proof.
    destruct Hcmp as [Ha Ht]. intros ops v. cbv zeta.
    destruct (skip_traverse_lemma T cmp Ha Ht ops v) as (H1 & H2 & H3 & H4).
    rewrite H2. auto.
  Qed.
End Closed.

(* ---------- the comparator families of the correspondence check are total preorders ---------- *)
Lemma cmp_asc_tp : cmp_total_preorder (Z * Z) cmp_asc.
Proof. unfold cmp_total_preorder, cmp_asc. split; intros; lia. Qed.
Lemma cmp_desc_tp : cmp_total_preorder (Z * Z) cmp_desc.
Proof. unfold cmp_total_preorder, cmp_desc. split; intros; lia. Qed.
Lemma cmp_mod3_tp : cmp_total_preorder (Z * Z) cmp_mod3.
Proof. unfold cmp_total_preorder, cmp_mod3. split; intros; lia. Qed.
Lemma cmp_half_tp : cmp_total_preorder (Z * Z) cmp_half.
Proof. unfold cmp_total_preorder, cmp_half. split; intros; lia. Qed.

Lemma random_level_range_lemma : forall r, 1 <= random_level r <= MaxLevel.
Proof. intros r. unfold random_level, MaxLevel. lia. Qed.
Lemma random_level_onto_lemma : forall h, 1 <= h <= MaxLevel -> exists r, random_level r = h.
Proof. intros h Hh. exists (h - 1). unfold random_level, MaxLevel in *. lia. Qed.

(* ---------- layer B, bounded: the pointer model and the heights model agree on every history
   of at most 5 mutating operations over SkipModel.sweep_alphabet (9 Inserts: keys 0,1,2 with
   0 and 1 comparing equal, towers 1,2,3; 3 DeleteElements), after every prefix: level, size,
   all tower heights, all 32 chains, and the results of 13 Search/Get/Peek/Len/AsSlice probes;
   the pointer model never panics nor runs out of fuel there.  248832 histories, by computation. *)
Lemma ptr_sweep_5 : ptr_sweep 5 (p_empty _) empty = true.
Proof. vm_cast_no_check (eq_refl true). Qed.
