(* Proofs about SkipModel (skip-list half of C05): the traversal finds, on every level, the last
   node smaller than the target (key lemma 12.4 of DESIGN.md); Insert / DeleteElement preserve
   the invariants for every tower height in [1,32]; the model refines the sorted multiset. *)
From Ekit Require Import Common SkipModel.
From Coq Require Import Sorting.Sorted Sorting.Permutation ZifyBool Arith PeanoNat.
Local Open Scope nat_scope.

(* ---------- generic list facts ---------- *)
Lemma nth_error_skipn_add {A} : forall (l : list A) n j, nth_error (skipn n l) j = nth_error l (n + j).
Proof.
  intros l; induction l as [|a l IH]; intros n j.
  - rewrite skipn_nil. destruct j, n; reflexivity.
  - destruct n as [|n]; [reflexivity|]. cbn [skipn plus nth_error]. apply IH.
Qed.

Lemma nth_repeat0 : forall m k, nth k (repeat 0 m) 0 = 0.
Proof. induction m as [|m IH]; intros [|k]; cbn; auto. Qed.

Lemma nth_error_map' {A B} (f : A -> B) : forall l n, nth_error (map f l) n = option_map f (nth_error l n).
Proof. induction l as [|a l IH]; intros [|n]; cbn; auto. Qed.

Lemma Forall_insert_mid {A} (P : A -> Prop) : forall c (t : list A) n,
  Forall P (firstn c t ++ n :: skipn c t) <-> P n /\ Forall P t.
Proof.
  intros c t n. rewrite Forall_app, Forall_cons_iff.
  rewrite <- (firstn_skipn c t) at 3. rewrite Forall_app. tauto.
Qed.

Lemma perm_insert_mid {A} : forall c (t : list A) n, Permutation (firstn c t ++ n :: skipn c t) (n :: t).
Proof.
  intros c t n. symmetry. rewrite <- (firstn_skipn c t) at 1. apply Permutation_middle.
Qed.

Lemma remove_at_incl {A} : forall (l : list A) k x, In x (remove_at l k) -> In x l.
Proof.
  induction l as [|a l IH]; intros [|k] x Hin; cbn in *; auto; try contradiction.
  destruct Hin as [Hx|Hin]; eauto.
Qed.

Lemma remove_at_length {A} : forall (l : list A) k, k < length l -> S (length (remove_at l k)) = length l.
Proof.
  induction l as [|a l IH]; intros [|k] Hk; cbn in *; try lia.
  rewrite IH; lia.
Qed.

Lemma remove_at_perm {A} : forall (l : list A) k x, nth_error l k = Some x -> Permutation l (x :: remove_at l k).
Proof.
  induction l as [|a l IH]; intros [|k] x Hn; cbn in *; try discriminate.
  - injection Hn as ->. reflexivity.
  - rewrite (IH _ _ Hn) at 1. apply perm_swap.
Qed.

Lemma remove_at_sorted {A} (R : A -> A -> Prop) : forall l k, StronglySorted R l -> StronglySorted R (remove_at l k).
Proof.
  induction l as [|a l IH]; intros [|k] Hs; cbn; auto.
  - inversion Hs; auto.
  - inversion Hs as [|a' l' Hs' Hall]; subst. constructor; auto.
    apply Forall_forall. intros x Hx. apply remove_at_incl in Hx.
    rewrite Forall_forall in Hall. auto.
Qed.

Lemma remove_at_nodup {A B} (f : A -> B) : forall l k, NoDup (map f l) -> NoDup (map f (remove_at l k)).
Proof.
  induction l as [|a l IH]; intros [|k] Hn; cbn in *; auto.
  - inversion Hn; auto.
  - inversion Hn as [|b l' Hnotin Hn']; subst. constructor; auto.
    intros Hin. apply Hnotin. apply in_map_iff in Hin. destruct Hin as [x [Hfx Hx]].
    apply in_map_iff. exists x. split; auto. eapply remove_at_incl; eauto.
Qed.

Section Proofs.
  Variable T : Type.
  Variable cmp : T -> T -> Z.
  (* total preorder, ties allowed: the sign is antisymmetric, <= is transitive *)
  Hypothesis cmp_antisym : forall a b, Z.sgn (cmp b a) = (- Z.sgn (cmp a b))%Z.
  Hypothesis cmp_trans : forall a b c, (cmp a b <= 0)%Z -> (cmp b c <= 0)%Z -> (cmp a c <= 0)%Z.

  Notation node := (node T).
  Notation sl := (sl T).
  Notation ltb := (ltb T cmp).
  Notation on_level := (on_level T).
  Notation fwd := (fwd T).
  Notation fwd_from := (fwd_from T).
  Notation advance := (advance T cmp).
  Notation traverse_from := (traverse_from T cmp).
  Notation traverse := (traverse T cmp).
  Notation le_nd := (fun a b : node => (cmp (nval a) (nval b) <= 0)%Z).

  Lemma cmp_refl : forall a, cmp a a = 0%Z.
  Proof. intros a. pose proof (cmp_antisym a a) as H. lia. Qed.

  Lemma cmp_flip_le : forall a b, (0 <= cmp a b)%Z -> (cmp b a <= 0)%Z.
  Proof. intros a b H. pose proof (cmp_antisym a b) as Ha. lia. Qed.

  Lemma cmp_flip_lt : forall a b, (cmp a b < 0)%Z -> (0 < cmp b a)%Z.
  Proof. intros a b H. pose proof (cmp_antisym a b) as Ha. lia. Qed.

  Lemma cmp_le_lt : forall a b v, (cmp a b <= 0)%Z -> (cmp b v < 0)%Z -> (cmp a v < 0)%Z.
  Proof.
    intros a b v Hab Hbv.
    destruct (Z_lt_ge_dec (cmp a v) 0) as [Hlt|Hge]; auto.
    assert (Hva : (cmp v a <= 0)%Z) by (apply cmp_flip_le; lia).
    pose proof (cmp_trans _ _ _ Hva Hab) as Hvb.
    pose proof (cmp_antisym v b) as Ha. lia.
  Qed.

  (* ---------- the position of v: number of leading nodes smaller than v ---------- *)
  Fixpoint lt_count (v : T) (l : list node) : nat :=
    match l with
    | [] => 0
    | n :: t => if ltb v n then S (lt_count v t) else 0
    end.

  Lemma lt_count_le : forall v l, lt_count v l <= length l.
  Proof. induction l as [|a l IH]; cbn; [lia|]. destruct (ltb v a); lia. Qed.

  (* on a sorted sequence the nodes smaller than v are exactly those before lt_count *)
  Lemma sorted_part : forall v sq, StronglySorted le_nd sq ->
    forall k n, nth_error sq k = Some n -> ltb v n = (k <? lt_count v sq).
  Proof.
    intros v sq Hs. induction Hs as [|a l Hs IH Hall]; intros k n Hn.
    - destruct k; discriminate.
    - cbn [lt_count]. destruct (ltb v a) eqn:Ha.
      + destruct k as [|k]; cbn in Hn.
        * injection Hn as <-. rewrite Ha. reflexivity.
        * rewrite (IH _ _ Hn). reflexivity.
      + destruct k as [|k]; cbn in Hn.
        * injection Hn as <-. rewrite Ha. reflexivity.
        * apply nth_error_In in Hn. rewrite Forall_forall in Hall. specialize (Hall _ Hn).
          unfold SkipModel.ltb in *. cbn.
          destruct (Z.ltb_spec (cmp (nval n) v) 0) as [Hlt|Hge]; auto.
          pose proof (cmp_le_lt _ _ _ Hall Hlt). lia.
    Qed.

  (* ---------- Forward pointers ---------- *)
  Lemma fwd_from_spec : forall i l k,
    match fwd_from i l k with
    | Some r => exists j n, r = k + j /\ nth_error l j = Some n /\ on_level i n = true /\
                  forall j' n', j' < j -> nth_error l j' = Some n' -> on_level i n' = false
    | None => forall j n, nth_error l j = Some n -> on_level i n = false
    end.
  Proof.
    intros i l. induction l as [|a l IH]; intros k; cbn [SkipModel.fwd_from].
    - intros [|j] n Hn; discriminate.
    - destruct (on_level i a) eqn:Ha.
      + exists 0, a. repeat split; auto. intros j' n' Hj. lia.
      + specialize (IH (S k)). destruct (fwd_from i l (S k)) as [r|].
        * destruct IH as [j [n [Hr [Hn [Hon Hbefore]]]]].
          exists (S j), n. repeat split; auto; try lia.
          intros [|j'] n' Hj' Hn'; cbn in Hn'.
          -- injection Hn' as <-. exact Ha.
          -- apply (Hbefore j'); auto. lia.
        * intros [|j] n Hn; cbn in Hn.
          -- injection Hn as <-. exact Ha.
          -- eapply IH; eauto.
  Qed.

  Lemma fwd_spec : forall i sq p,
    match fwd i sq p with
    | Some r => p <= r /\ exists n, nth_error sq r = Some n /\ on_level i n = true /\
                  forall k n', p <= k -> k < r -> nth_error sq k = Some n' -> on_level i n' = false
    | None => forall k n, p <= k -> nth_error sq k = Some n -> on_level i n = false
    end.
  Proof.
    intros i sq p. unfold SkipModel.fwd. pose proof (fwd_from_spec i (skipn p sq) p) as H.
    destruct (fwd_from i (skipn p sq) p) as [r|].
    - destruct H as [j [n [Hr [Hn [Hon Hbefore]]]]]. subst r. split; [lia|].
      exists n. rewrite nth_error_skipn_add in Hn. repeat split; auto.
      intros k n' Hpk Hk Hn'. apply (Hbefore (k - p)); [lia|].
      rewrite nth_error_skipn_add. replace (p + (k - p)) with k by lia. exact Hn'.
    - intros k n Hpk Hn. apply (H (k - p)). rewrite nth_error_skipn_add.
      replace (p + (k - p)) with k by lia. exact Hn.
  Qed.

  (* every node is on level 0: Forward[0] of position p is the node with index p *)
  Lemma fwd0 : forall sq p, Forall (fun n : node => 1 <= nht n) sq ->
    fwd 0 sq p = if p <? length sq then Some p else None.
  Proof.
    intros sq p Hh. pose proof (fwd_spec 0 sq p) as H.
    destruct (Nat.ltb_spec p (length sq)) as [Hlt|Hge].
    - destruct (nth_error sq p) as [n|] eqn:Hn; [|apply nth_error_None in Hn; lia].
      assert (Hon : on_level 0 n = true).
      { rewrite Forall_forall in Hh. apply nth_error_In in Hn. specialize (Hh _ Hn).
        unfold SkipModel.on_level. apply Nat.ltb_lt. lia. }
      destruct (fwd 0 sq p) as [r|].
      + destruct H as [Hpr [n' [Hn' [Hon' Hbefore]]]].
        destruct (Nat.eq_dec r p) as [->|Hne]; auto.
        rewrite (Hbefore p n) in Hon; try discriminate; auto; lia.
      + rewrite (H p n) in Hon; try discriminate; auto.
    - destruct (fwd 0 sq p) as [r|]; auto.
      destruct H as [Hpr [n' [Hn' _]]].
      assert (r < length sq) by (apply nth_error_Some; congruence). lia.
  Qed.

  (* ---------- the inner loop of traverse ---------- *)
  Lemma advance_spec : forall i v c0 l k cur,
    cur <= k -> cur <= c0 ->
    (forall j n, nth_error l j = Some n -> ltb v n = (k + j <? c0)) ->
    let r := advance i v l k cur in
    cur <= r /\ r <= c0 /\ (r = cur \/ k < r) /\
    (forall j n, nth_error l j = Some n -> r <= k + j -> k + j < c0 -> on_level i n = false).
  Proof.
    intros i v c0 l. induction l as [|a l IH]; intros k cur Hck Hc0 Hpart; cbn [SkipModel.advance].
    - repeat split; auto; try lia. intros [|j] n Hn; discriminate.
    - assert (Hpart' : forall j n, nth_error l j = Some n -> ltb v n = (S k + j <? c0)).
      { intros j n Hn. rewrite (Hpart (S j) n Hn). f_equal. lia. }
      pose proof (Hpart 0 a eq_refl) as Ha. rewrite Nat.add_0_r in Ha.
      destruct (on_level i a) eqn:Hon.
      + destruct (ltb v a) eqn:Hlt.
        * symmetry in Ha. apply Nat.ltb_lt in Ha.
          destruct (IH (S k) (S k) (le_n _) Ha Hpart') as [H1 [H2 [H3 H4]]].
          repeat split; try lia.
          intros [|j] n Hn Hr Hk; cbn in Hn; [lia|].
          apply (H4 j n Hn); lia.
        * symmetry in Ha. apply Nat.ltb_ge in Ha.
          repeat split; try lia.
      + destruct (IH (S k) cur (le_S _ _ Hck) Hc0 Hpart') as [H1 [H2 [H3 H4]]].
        repeat split; try lia.
        intros [|j] n Hn Hr Hk; cbn in Hn.
        * injection Hn as <-. exact Hon.
        * apply (H4 j n Hn); lia.
  Qed.

  (* update[i] is "gap free": no node of level i between it and the position of v *)
  Definition gapfree (sq : list node) (c0 i p : nat) : Prop :=
    p <= c0 /\ forall k n, nth_error sq k = Some n -> p <= k -> k < c0 -> on_level i n = false.

  Lemma traverse_from_spec : forall sq v c0,
    (forall k n, nth_error sq k = Some n -> ltb v n = (k <? c0)) ->
    forall i cur, cur <= c0 ->
    let u := traverse_from sq v i cur in
    length u = i /\ forall j, j < i -> gapfree sq c0 j (nth j u 0).
  Proof.
    intros sq v c0 Hpart i. induction i as [|i IH]; intros cur Hc; cbn [SkipModel.traverse_from].
    - split; auto. intros j Hj; lia.
    - set (cur' := advance i v (skipn cur sq) cur cur).
      assert (Hadv := advance_spec i v c0 (skipn cur sq) cur cur (le_n _) Hc).
      fold cur' in Hadv. cbv zeta in Hadv.
      destruct Hadv as [H1 [H2 [H3 H4]]].
      { intros j n Hn. rewrite nth_error_skipn_add in Hn. apply Hpart; auto. }
      destruct (IH cur' H2) as [Hlen Hgap]. cbv zeta.
      split.
      + rewrite app_length, Hlen. cbn. lia.
      + intros j Hj. destruct (Nat.eq_dec j i) as [->|Hne].
        * rewrite app_nth2 by lia. rewrite Hlen, Nat.sub_diag. cbn [nth].
          split; auto. intros k n Hn Hk Hkc.
          apply (H4 (k - cur) n); try lia.
          rewrite nth_error_skipn_add. replace (cur + (k - cur)) with k by lia. exact Hn.
        * rewrite app_nth1 by lia. apply Hgap. lia.
  Qed.

  (* level 0 contains every node: update[0] is the position of v itself *)
  Lemma gapfree0 : forall sq c0 p, Forall (fun n : node => 1 <= nht n) sq -> c0 <= length sq ->
    gapfree sq c0 0 p -> p = c0.
  Proof.
    intros sq c0 p Hh Hc [Hp Hgap].
    destruct (Nat.eq_dec p c0) as [|Hne]; auto.
    destruct (nth_error sq p) as [n|] eqn:Hn; [|apply nth_error_None in Hn; lia].
    specialize (Hgap p n Hn (le_n _)). rewrite Forall_forall in Hh. apply nth_error_In in Hn.
    specialize (Hh _ Hn). unfold SkipModel.on_level in Hgap.
    assert (Hx : (0 <? nht n) = true) by (apply Nat.ltb_lt; lia).
    rewrite Hgap in Hx; [discriminate|lia].
  Qed.

  (* KEY LEMMA (DESIGN 12.4): on a sorted level 0, traverse v yields on every level i < lv a
     predecessor update[i] such that no node of level i lies between update[i] and the first
     node >= v, and update[0] is exactly the position of the first node >= v. *)
  Lemma traverse_spec : forall sq v lv,
    StronglySorted le_nd sq -> Forall (fun n : node => 1 <= nht n) sq ->
    let u := traverse sq v lv in
    let c0 := lt_count v sq in
    length u = lv /\ (forall j, j < lv -> gapfree sq c0 j (upd u j)) /\ (1 <= lv -> upd u 0 = c0).
  Proof.
    intros sq v lv Hs Hh. cbv zeta. unfold SkipModel.traverse, upd.
    destruct (traverse_from_spec sq v (lt_count v sq) (sorted_part v sq Hs) lv 0 (Nat.le_0_l _)) as [Hlen Hgap].
    split; [exact Hlen|]. split; [exact Hgap|].
    intros Hlv. apply (gapfree0 sq); auto. apply lt_count_le.
  Qed.

  (* hence update[i].Forward[i] == node (the first node >= v) exactly on the levels of its tower *)
  Lemma fwd_gapfree_on : forall sq c0 i p nd, gapfree sq c0 i p -> nth_error sq c0 = Some nd ->
    on_level i nd = true -> fwd i sq p = Some c0.
  Proof.
    intros sq c0 i p nd [Hp Hgap] Hnd Hon. pose proof (fwd_spec i sq p) as H.
    destruct (fwd i sq p) as [r|].
    - destruct H as [Hpr [n [Hn [Hon' Hbefore]]]].
      destruct (Nat.lt_trichotomy r c0) as [Hlt|[->|Hgt]]; auto.
      + rewrite (Hgap r n Hn Hpr Hlt) in Hon'. discriminate.
      + rewrite (Hbefore c0 nd Hp Hgt Hnd) in Hon. discriminate.
    - rewrite (H c0 nd Hp Hnd) in Hon. discriminate.
  Qed.

  Lemma fwd_gapfree_ge : forall sq c0 i p, gapfree sq c0 i p ->
    match fwd i sq p with None => True | Some r => c0 <= r end.
  Proof.
    intros sq c0 i p [Hp Hgap]. pose proof (fwd_spec i sq p) as H.
    destruct (fwd i sq p) as [r|]; auto.
    destruct H as [Hpr [n [Hn [Hon' _]]]].
    destruct (Nat.le_gt_cases c0 r) as [|Hlt]; auto.
    rewrite (Hgap r n Hn Hpr Hlt) in Hon'. discriminate.
  Qed.

  Lemma unlink_count_spec : forall sq c0 nd, nth_error sq c0 = Some nd ->
    forall rest i, i <= nht nd -> nht nd <= i + length rest ->
    (forall j, j < length rest -> gapfree sq c0 (i + j) (nth j rest 0)) ->
    unlink_count T sq c0 i rest = nht nd - i.
  Proof.
    intros sq c0 nd Hnd rest. induction rest as [|p rest IH]; intros i Hi Hlen Hgap; cbn [SkipModel.unlink_count].
    - cbn in Hlen. lia.
    - pose proof (Hgap 0 (Nat.lt_0_succ _)) as Hg0. rewrite Nat.add_0_r in Hg0. cbn [nth] in Hg0.
      destruct (Nat.eq_dec i (nht nd)) as [Heq|Hne].
      + (* the node is not on level i: Forward[i] of update[i] is some other node *)
        pose proof (fwd_spec i sq p) as H. destruct (fwd i sq p) as [r|]; [|lia].
        destruct H as [_ [n [Hn [Hon _]]]].
        destruct (Nat.eqb_spec r c0) as [->|Hrc]; [|lia].
        rewrite Hnd in Hn. injection Hn as <-. unfold SkipModel.on_level in Hon.
        apply Nat.ltb_lt in Hon. lia.
      + assert (Hon : on_level i nd = true) by (unfold SkipModel.on_level; apply Nat.ltb_lt; lia).
        rewrite (fwd_gapfree_on _ _ _ _ _ Hg0 Hnd Hon). rewrite Nat.eqb_refl.
        rewrite IH; try lia.
        * cbn in Hlen. lia.
        * intros j Hj. replace (S i + j) with (i + S j) by lia. apply (Hgap (S j)). cbn. lia.
  Qed.
End Proofs.
