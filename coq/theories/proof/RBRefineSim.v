(* C01 — part 2: find / set / add / delete of RBModel against the abstract operations of
   AbsMapModel, the simulation invariant
       inorder (root s) = m  /\  m strictly ascending  /\  size s = length m
   and the lemmas behind props/C01.v.  Only inorder reasoning (lemmas of RBRefine.v). *)
From Ekit Require Import Common RBModel TreeMapModel AbsMapModel RBRefine.
From Coq Require Import Sorted.

Section Sim.
  Variable cmp : Z -> Z -> Z.
  Hypothesis cmp_antisym : forall a b, cmp a b < 0 <-> cmp b a > 0.
  Hypothesis cmp_trans : forall a b c, cmp a b < 0 -> cmp b c < 0 -> cmp a c < 0.
  Hypothesis cmp_eq_lt : forall a b c, cmp a b = 0 -> cmp a c < 0 -> cmp b c < 0.
  Local Set Default Proof Using "All".

  Local Notation "'L' x" := (x cmp cmp_antisym cmp_trans cmp_eq_lt) (at level 10, only parsing).
  Local Notation ord := (ordered cmp).

  (* the three branches every descent takes at a node *)
  Lemma cmp_cases : forall k k',
    ((cmp k k' <? 0) = true /\ cmp k k' < 0) \/
    ((cmp k k' <? 0) = false /\ (0 <? cmp k k') = true /\ cmp k' k < 0) \/
    ((cmp k k' <? 0) = false /\ (0 <? cmp k k') = false /\ cmp k k' = 0).
  Proof.
    intros k k'. pose proof (cmp_antisym k' k) as Ha.
    destruct (Z.lt_trichotomy (cmp k k') 0) as [Hlt | [Heq | Hgt]].
    - left. split; [apply Z.ltb_lt|]; assumption.
    - right. right. rewrite Heq. repeat split; reflexivity.
    - right. left. split; [apply Z.ltb_ge; lia|]. split; [apply Z.ltb_lt; lia | lia].
  Qed.

  (* ---------------- find ---------------- *)
  Lemma find_spec : forall k t, ord (inorder t) -> find cmp k t = a_find cmp k (inorder t).
  Proof.
    intros k t. induction t as [|c l IHl k' v' r IHr]; intros Hord; [reflexivity|].
    cbn [find inorder] in *.
    destruct (cmp_cases k k') as [(Hb & Hlt) | [(Hb1 & Hb2 & Hgt) | (Hb1 & Hb2 & Heq)]].
    - rewrite Hb. destruct (L split_lt k _ _ v' _ Hord Hlt) as (Hl & Hf & _). rewrite Hf. exact (IHl Hl).
    - rewrite Hb1, Hb2. destruct (L split_gt k _ _ v' _ Hord Hgt) as (Hr & Hf & _). rewrite Hf. exact (IHr Hr).
    - rewrite Hb1, Hb2. destruct (L split_eq k _ _ v' _ Hord Heq) as (Hf & _). rewrite Hf. reflexivity.
  Qed.

  (* ---------------- set ---------------- *)
  Lemma set_spec : forall k v t, ord (inorder t) ->
    match set cmp k v t with
    | Some t' => a_find cmp k (inorder t) <> None /\ inorder t' = a_set cmp k v (inorder t)
    | None => a_find cmp k (inorder t) = None
    end.
  Proof.
    intros k v t. induction t as [|c l IHl k' v' r IHr]; intros Hord; [reflexivity|].
    cbn [set inorder] in *.
    destruct (cmp_cases k k') as [(Hb & Hlt) | [(Hb1 & Hb2 & Hgt) | (Hb1 & Hb2 & Heq)]].
    - rewrite Hb. destruct (L split_lt k _ _ v' _ Hord Hlt) as (Hl & Hf & _ & _ & Hs).
      specialize (IHl Hl). rewrite Hf, Hs. destruct (set cmp k v l) as [l'|].
      + destruct IHl as (Hn & Hi). split; [exact Hn|]. cbn [inorder]. rewrite Hi. reflexivity.
      + exact IHl.
    - rewrite Hb1, Hb2. destruct (L split_gt k _ _ v' _ Hord Hgt) as (Hr & Hf & _ & _ & Hs).
      specialize (IHr Hr). rewrite Hf, Hs. destruct (set cmp k v r) as [r'|].
      + destruct IHr as (Hn & Hi). split; [exact Hn|]. cbn [inorder]. rewrite Hi. reflexivity.
      + exact IHr.
    - rewrite Hb1, Hb2. destruct (L split_eq k _ _ v' _ Hord Heq) as (Hf & _ & Hs).
      rewrite Hf, Hs. split; [discriminate | reflexivity].
  Qed.

  (* ---------------- add ---------------- *)
  Lemma ins_spec : forall k v t, ord (inorder t) -> forall t' st, ins cmp k v t = (t', st) ->
    (st = Dup /\ t' = t /\ a_find cmp k (inorder t) <> None) \/
    (st <> Dup /\ inorder t' = a_insert cmp k v (inorder t) /\ a_find cmp k (inorder t) = None).
  Proof.
    intros k v t. induction t as [|c l IHl k' v' r IHr]; intros Hord t' st Hins.
    - cbn [ins] in Hins. injection Hins as <- <-. right. split; [discriminate|]. split; reflexivity.
    - cbn [ins] in Hins. cbn [inorder] in *.
      destruct (cmp_cases k k') as [(Hb & Hlt) | [(Hb1 & Hb2 & Hgt) | (Hb1 & Hb2 & Heq)]].
      + rewrite Hb in Hins.
        destruct (L split_lt k _ _ v' _ Hord Hlt) as (Hl & Hf & Hi & _).
        rewrite Hf, Hi.
        destruct (ins cmp k v l) as [l' st0] eqn:Hl0.
        destruct (IHl Hl l' st0 eq_refl) as [(Hd & He & Hn) | (Hd & Hio & Hn)].
        * subst st0. injection Hins as <- <-. left. repeat split; assumption.
        * right.
          assert (Hgoal : forall t2, inorder t2 = inorder l' ++ (k', v') :: inorder r ->
                                     inorder t2 = a_insert cmp k v (inorder l) ++ (k', v') :: inorder r).
          { intros t2 H2. rewrite H2, Hio. reflexivity. }
          destruct st0 as [| | |d]; [| contradiction | |].
          -- injection Hins as <- <-. split; [discriminate|]. split; [apply Hgoal; reflexivity | exact Hn].
          -- destruct c; injection Hins as <- <-; (split; [discriminate|]);
               (split; [apply Hgoal; reflexivity | exact Hn]).
          -- pose proof (inorder_fix_add_left c l' k' v' r d) as Hio2.
             pose proof (fix_add_left_not_dup c l' k' v' r d) as Hnd.
             rewrite Hins in Hio2, Hnd. cbn [fst snd] in Hio2, Hnd.
             split; [exact Hnd|]. split; [apply Hgoal; exact Hio2 | exact Hn].
      + rewrite Hb1, Hb2 in Hins.
        destruct (L split_gt k _ _ v' _ Hord Hgt) as (Hr & Hf & Hi & _).
        rewrite Hf, Hi.
        destruct (ins cmp k v r) as [r' st0] eqn:Hr0.
        destruct (IHr Hr r' st0 eq_refl) as [(Hd & He & Hn) | (Hd & Hio & Hn)].
        * subst st0. injection Hins as <- <-. left. repeat split; assumption.
        * right.
          assert (Hgoal : forall t2, inorder t2 = inorder l ++ (k', v') :: inorder r' ->
                                     inorder t2 = inorder l ++ (k', v') :: a_insert cmp k v (inorder r)).
          { intros t2 H2. rewrite H2, Hio. reflexivity. }
          destruct st0 as [| | |d]; [| contradiction | |].
          -- injection Hins as <- <-. split; [discriminate|]. split; [apply Hgoal; reflexivity | exact Hn].
          -- destruct c; injection Hins as <- <-; (split; [discriminate|]);
               (split; [apply Hgoal; reflexivity | exact Hn]).
          -- pose proof (inorder_fix_add_right c l k' v' r' d) as Hio2.
             pose proof (fix_add_right_not_dup c l k' v' r' d) as Hnd.
             rewrite Hins in Hio2, Hnd. cbn [fst snd] in Hio2, Hnd.
             split; [exact Hnd|]. split; [apply Hgoal; exact Hio2 | exact Hn].
      + rewrite Hb1, Hb2 in Hins. injection Hins as <- <-.
        destruct (L split_eq k _ _ v' _ Hord Heq) as (Hf & _).
        left. split; [reflexivity|]. split; [reflexivity|]. rewrite Hf. discriminate.
  Qed.

  Lemma add_spec : forall k v t, ord (inorder t) ->
    match add cmp k v t with
    | Some t' => a_find cmp k (inorder t) = None /\ inorder t' = a_insert cmp k v (inorder t)
    | None => a_find cmp k (inorder t) <> None
    end.
  Proof.
    intros k v t Hord. unfold add.
    destruct (ins cmp k v t) as [t' st] eqn:Hins.
    destruct (ins_spec k v t Hord t' st Hins) as [(Hd & He & Hn) | (Hd & Hio & Hn)].
    - subst st. exact Hn.
    - destruct st; try contradiction; (split; [exact Hn | rewrite inorder_setcol; exact Hio]).
  Qed.

  (* ---------------- delete ---------------- *)
  Lemma del_spec : forall k t, ord (inorder t) ->
    match del cmp k t with
    | Some (t', dv, nf) =>
        a_find cmp k (inorder t) = Some dv /\ inorder t' = a_remove cmp k (inorder t)
    | None => a_find cmp k (inorder t) = None
    end.
  Proof.
    intros k t. induction t as [|c l IHl k' v' r IHr]; intros Hord; [reflexivity|].
    cbn [del]. cbn [inorder] in *.
    destruct (cmp_cases k k') as [(Hb & Hlt) | [(Hb1 & Hb2 & Hgt) | (Hb1 & Hb2 & Heq)]].
    - rewrite Hb. destruct (L split_lt k _ _ v' _ Hord Hlt) as (Hl & Hf & _ & Hrm & _).
      specialize (IHl Hl). rewrite Hf, Hrm.
      destruct (del cmp k l) as [[[l' dv] nf]|]; [|exact IHl].
      destruct IHl as (Hfd & Hio).
      destruct (upL c (l', nf) k' v' r) as [t' nf'] eqn:Hup.
      split; [exact Hfd|].
      change t' with (fst (t', nf')). rewrite <- Hup, inorder_upL. cbn [fst]. rewrite Hio. reflexivity.
    - rewrite Hb1, Hb2. destruct (L split_gt k _ _ v' _ Hord Hgt) as (Hr & Hf & _ & Hrm & _).
      specialize (IHr Hr). rewrite Hf, Hrm.
      destruct (del cmp k r) as [[[r' dv] nf]|]; [|exact IHr].
      destruct IHr as (Hfd & Hio).
      destruct (upR c l k' v' (r', nf)) as [t' nf'] eqn:Hup.
      split; [exact Hfd|].
      change t' with (fst (t', nf')). rewrite <- Hup, inorder_upR. cbn [fst]. rewrite Hio. reflexivity.
    - rewrite Hb1, Hb2. destruct (L split_eq k _ _ v' _ Hord Heq) as (Hf & Hrm & _).
      rewrite Hf, Hrm.
      assert (Hone : forall l0 r0, l0 = E \/ r0 = E ->
                let '(t', nf) := remove_here c l0 r0 in
                Some v' = Some v' /\ inorder t' = inorder l0 ++ inorder r0).
      { intros l0 r0 H0. pose proof (inorder_remove_here c l0 r0 H0) as Hrh.
        destruct (remove_here c l0 r0) as [t' nf]. cbn [fst] in Hrh. split; [reflexivity | exact Hrh]. }
      destruct l as [|lc ll lk lv lr].
      + specialize (Hone E r (or_introl eq_refl)).
        destruct (remove_here c E r) as [t' nf]. exact Hone.
      + destruct r as [|rc rl rk rv rr].
        * specialize (Hone (T lc ll lk lv lr) E (or_intror eq_refl)).
          destruct (remove_here c (T lc ll lk lv lr) E) as [t' nf]. exact Hone.
        * remember (T lc ll lk lv lr) as l eqn:Hl.
          remember (T rc rl rk rv rr) as r eqn:Hr.
          assert (Hrne : r <> E) by (subst r; discriminate).
          pose proof (inorder_del_min r Hrne) as Hdm.
          destruct (del_min r) as [[r' [sk sv]] nf]. cbn [fst snd] in Hdm.
          destruct (upR c l sk sv (r', nf)) as [t' nf'] eqn:Hup.
          split; [reflexivity|].
          change t' with (fst (t', nf')). rewrite <- Hup, inorder_upR. cbn [fst]. rewrite Hdm. reflexivity.
  Qed.

  Lemma delete_spec : forall k t, ord (inorder t) ->
    match delete cmp k t with
    | Some (t', dv) => a_find cmp k (inorder t) = Some dv /\ inorder t' = a_remove cmp k (inorder t)
    | None => a_find cmp k (inorder t) = None
    end.
  Proof.
    intros k t Hord. unfold delete. pose proof (del_spec k t Hord) as Hd.
    destruct (del cmp k t) as [[[t' dv] nf]|]; [|exact Hd].
    destruct Hd as (Hf & Hio). split; [exact Hf|]. rewrite inorder_resolve. exact Hio.
  Qed.

  (* ---------------- the simulation ---------------- *)
  Definition sim (s : rbtree) (m : amap) : Prop :=
    inorder (root s) = m /\ ord m /\ size s = Z.of_nat (length m).

  Lemma sim_empty : sim rb_empty [].
  Proof. repeat split. constructor. Qed.

  Lemma step_sim : forall s m op, sim s m ->
    snd (rb_step cmp s op) = snd (abs_step cmp m op) /\
    sim (fst (rb_step cmp s op)) (fst (abs_step cmp m op)).
  Proof.
    intros s m op (Hi & Ho & Hs). subst m. destruct op as [k v | k | k | k v | |]; cbn [rb_step abs_step].
    - pose proof (add_spec k v (root s) Ho) as Ha.
      destruct (add cmp k v (root s)) as [t'|].
      + destruct Ha as (Hf & Hio). rewrite Hf. cbn [fst snd]. split; [reflexivity|].
        split; [exact Hio|]. split; [exact (L ordered_a_insert k v _ Ho Hf)|].
        cbn [size]. rewrite (L length_a_insert), Hs. lia.
      + destruct (a_find cmp k (inorder (root s))); [|contradiction].
        cbn [fst snd]. repeat split; assumption.
    - pose proof (delete_spec k (root s) Ho) as Hd.
      destruct (delete cmp k (root s)) as [[t' dv]|].
      + destruct Hd as (Hf & Hio). rewrite Hf. cbn [fst snd]. split; [reflexivity|].
        split; [exact Hio|]. split; [exact (L ordered_a_remove k _ Ho)|].
        cbn [size]. pose proof (L length_a_remove k _ dv Hf) as Hlen. rewrite Hs. lia.
      + rewrite Hd. cbn [fst snd]. repeat split; assumption.
    - rewrite (find_spec k (root s) Ho). cbn [fst snd].
      split; [destruct (a_find cmp k (inorder (root s))); reflexivity|]. repeat split; assumption.
    - pose proof (set_spec k v (root s) Ho) as Hst.
      destruct (set cmp k v (root s)) as [t'|].
      + destruct Hst as (Hn & Hio). destruct (a_find cmp k (inorder (root s))); [|contradiction].
        cbn [fst snd]. split; [reflexivity|].
        split; [exact Hio|]. split; [exact (L ordered_a_set k v _ Ho)|].
        cbn [size]. rewrite (L length_a_set). exact Hs.
      + rewrite Hst. cbn [fst snd]. repeat split; assumption.
    - cbn [fst snd]. repeat split; assumption.
    - cbn [fst snd]. rewrite Hs. repeat split; assumption.
  Qed.

  Lemma run_sim : forall ops s m, sim s m ->
    map snd (rb_run cmp s ops) = map snd (abs_run cmp m ops).
  Proof.
    induction ops as [|o ops IH]; intros s m Hsim; [reflexivity|].
    cbn [rb_run abs_run]. destruct (step_sim s m o Hsim) as (Hout & Hsim').
    destruct (rb_step cmp s o) as [s' out]. destruct (abs_step cmp m o) as [m' out'].
    cbn [fst snd] in *. cbn [map snd]. rewrite Hout, (IH s' m' Hsim'). reflexivity.
  Qed.

  Lemma final_sim : forall ops s m, sim s m -> sim (rb_final cmp s ops) (abs_final cmp m ops).
  Proof.
    induction ops as [|o ops IH]; intros s m Hsim; [exact Hsim|].
    unfold rb_final, abs_final. cbn [fold_left].
    destruct (step_sim s m o Hsim) as (_ & Hsim'). exact (IH _ _ Hsim').
  Qed.

  (* rb_refines_map *)
  Lemma rb_refines_map_lemma : forall ops,
    map snd (rb_run cmp rb_empty ops) = map snd (abs_run cmp [] ops).
  Proof. intros ops. exact (run_sim ops rb_empty [] sim_empty). Qed.

  (* size and contents always equal the abstract map's *)
  Lemma rb_state_is_map_lemma : forall ops,
    inorder (root (rb_final cmp rb_empty ops)) = abs_final cmp [] ops /\
    size (rb_final cmp rb_empty ops) = Z.of_nat (length (abs_final cmp [] ops)).
  Proof.
    intros ops. destruct (final_sim ops rb_empty [] sim_empty) as (Hi & _ & Hs). split; assumption.
  Qed.

  (* key_values_sorted_nodup: what KeyValues() returns after any history *)
  Lemma key_values_sorted_nodup_lemma : forall ops kvs,
    snd (rb_step cmp (rb_final cmp rb_empty ops) OKeyValues) = RKVs kvs ->
    StronglySorted (fun a b => cmp (fst a) (fst b) < 0) kvs /\ NoDup (map fst kvs).
  Proof.
    intros ops kvs Hkv. cbn [rb_step snd] in Hkv. injection Hkv as <-.
    destruct (final_sim ops rb_empty [] sim_empty) as (Hi & Ho & _). rewrite Hi.
    split; [exact Ho | exact (L ordered_nodup _ Ho)].
  Qed.

  (* size_is_cardinal: Size() = number of nodes = number of bindings of the abstract map *)
  Lemma size_is_cardinal_lemma : forall ops n,
    snd (rb_step cmp (rb_final cmp rb_empty ops) OSize) = RSize n ->
    n = Z.of_nat (card (root (rb_final cmp rb_empty ops))) /\
    n = Z.of_nat (length (abs_final cmp [] ops)).
  Proof.
    intros ops n Hn. cbn [rb_step snd] in Hn. injection Hn as <-.
    destruct (final_sim ops rb_empty [] sim_empty) as (Hi & _ & Hs).
    rewrite card_inorder, Hi. split; exact Hs.
  Qed.

  (* failed_call_is_identity: a call that reports failure changes nothing — neither the
     tree (shape, colours, values, size field) nor the abstract map — and it fails exactly
     when the abstract map says so *)
  Lemma failed_call_is_identity_lemma : forall ops op,
    let s := rb_final cmp rb_empty ops in
    let m := abs_final cmp [] ops in
    match snd (rb_step cmp s op) with
    | RErr _ | RAbsent =>
        fst (rb_step cmp s op) = s /\ fst (abs_step cmp m op) = m /\
        snd (abs_step cmp m op) = snd (rb_step cmp s op)
    | _ => True
    end.
  Proof.
    intros ops op s m.
    destruct (step_sim s m op (final_sim ops rb_empty [] sim_empty)) as (Hout & _).
    assert (Hs : match snd (rb_step cmp s op) with RErr _ | RAbsent => fst (rb_step cmp s op) = s | _ => True end).
    { destruct op as [k v | k | k | k v | |]; cbn [rb_step].
      - destruct (add cmp k v (root s)); cbn [fst snd]; [exact I | reflexivity].
      - destruct (delete cmp k (root s)) as [[t' dv]|]; cbn [fst snd]; [exact I | reflexivity].
      - cbn [fst snd]. destruct (find cmp k (root s)); [exact I | reflexivity].
      - destruct (set cmp k v (root s)); cbn [fst snd]; [exact I | reflexivity].
      - exact I.
      - exact I. }
    assert (Hm : match snd (abs_step cmp m op) with RErr _ | RAbsent => fst (abs_step cmp m op) = m | _ => True end).
    { destruct op as [k v | k | k | k v | |]; cbn [abs_step];
        try (destruct (a_find cmp k m); cbn [fst snd]; try exact I; reflexivity); exact I. }
    rewrite <- Hout in Hm.
    destruct (snd (rb_step cmp s op)); try exact I; (split; [exact Hs | split; [exact Hm | symmetry; exact Hout]]).
  Qed.

  (* ---------------- mapx.TreeMap ---------------- *)
  Lemma tm_step_sim : forall s m op, sim s m ->
    snd (tm_step cmp s op) = snd (abs_tm_step cmp m op) /\
    sim (fst (tm_step cmp s op)) (fst (abs_tm_step cmp m op)).
  Proof.
    intros s m op Hsim. destruct op as [k v | k | k | | |]; cbn [tm_step abs_tm_step].
    - destruct (step_sim s m (OAdd k v) Hsim) as (Ho1 & Hs1).
      destruct (rb_step cmp s (OAdd k v)) as [s1 o1]. cbn [fst snd] in Ho1, Hs1.
      cbn [abs_step] in Ho1, Hs1.
      destruct (a_find cmp k m) as [v0|] eqn:Hf; cbn [fst snd] in Ho1, Hs1; subst o1.
      + destruct (step_sim s1 m (OSet k v) Hs1) as (Ho2 & Hs2).
        destruct (rb_step cmp s1 (OSet k v)) as [s2 o2]. cbn [fst snd] in Ho2, Hs2.
        cbn [abs_step] in Ho2, Hs2. rewrite Hf in Ho2, Hs2. cbn [fst snd] in Ho2, Hs2. subst o2.
        cbn [fst snd]. split; [reflexivity | exact Hs2].
      + cbn [fst snd]. split; [reflexivity | exact Hs1].
    - destruct (step_sim s m (OFind k) Hsim) as (Ho1 & _). rewrite Ho1. cbn [abs_step fst snd].
      split; [destruct (a_find cmp k m); reflexivity | exact Hsim].
    - destruct (step_sim s m (ODelete k) Hsim) as (Ho1 & Hs1).
      destruct (rb_step cmp s (ODelete k)) as [s1 o1]. cbn [fst snd] in Ho1, Hs1.
      cbn [abs_step] in Ho1, Hs1.
      destruct (a_find cmp k m) as [v0|]; cbn [fst snd] in Ho1, Hs1; subst o1; cbn [fst snd];
        (split; [reflexivity | exact Hs1]).
    - cbn [fst snd]. destruct Hsim as (Hi & Ho & Hs). rewrite Hi. repeat split; assumption.
    - cbn [fst snd]. destruct Hsim as (Hi & Ho & Hs). rewrite Hi. repeat split; assumption.
    - cbn [fst snd]. destruct Hsim as (Hi & Ho & Hs). rewrite Hs. repeat split; assumption.
  Qed.

  Lemma tm_run_sim : forall ops s m, sim s m ->
    map snd (tm_run cmp s ops) = map snd (abs_tm_run cmp m ops).
  Proof.
    induction ops as [|o ops IH]; intros s m Hsim; [reflexivity|].
    cbn [tm_run abs_tm_run]. destruct (tm_step_sim s m o Hsim) as (Hout & Hsim').
    destruct (tm_step cmp s o) as [s' out]. destruct (abs_tm_step cmp m o) as [m' out'].
    cbn [fst snd] in *. cbn [map snd]. rewrite Hout, (IH s' m' Hsim'). reflexivity.
  Qed.

  Lemma treemap_refines_map_lemma : forall ops,
    map snd (tm_run cmp rb_empty ops) = map snd (abs_tm_run cmp [] ops).
  Proof. intros ops. exact (tm_run_sim ops rb_empty [] sim_empty). Qed.

  (* ---------------- set.TreeSet ---------------- *)
  Lemma s_mem_keys : forall k m,
    s_mem cmp k (map fst m) = match a_find cmp k m with Some _ => true | None => false end.
  Proof.
    intros k m. induction m as [|[k' v'] m IH]; cbn [map fst s_mem a_find]; [reflexivity|].
    destruct (cmp k k' =? 0); [reflexivity | exact IH].
  Qed.

  Lemma s_insert_keys : forall k v m, map fst (a_insert cmp k v m) = s_insert cmp k (map fst m).
  Proof.
    intros k v m. induction m as [|[k' v'] m IH]; cbn [map fst s_insert a_insert]; [reflexivity|].
    destruct (cmp k k' <? 0); cbn [map fst]; [reflexivity | rewrite IH; reflexivity].
  Qed.

  Lemma s_remove_keys : forall k m, map fst (a_remove cmp k m) = s_remove cmp k (map fst m).
  Proof.
    intros k m. induction m as [|[k' v'] m IH]; cbn [map fst s_remove a_remove]; [reflexivity|].
    destruct (cmp k k' =? 0); cbn [map fst]; [reflexivity | rewrite IH; reflexivity].
  Qed.

  Lemma a_set_keys : forall k v m, map fst (a_set cmp k v m) = map fst m.
  Proof.
    intros k v m. induction m as [|[k' v'] m IH]; cbn [map fst a_set]; [reflexivity|].
    destruct (cmp k k' =? 0); cbn [map fst]; [reflexivity | rewrite IH; reflexivity].
  Qed.

  Definition sim_set (s : rbtree) (st : aset) : Prop := exists m, sim s m /\ map fst m = st.

  Lemma ts_step_sim : forall s st op, sim_set s st ->
    snd (ts_step cmp s op) = snd (abs_ts_step cmp st op) /\
    sim_set (fst (ts_step cmp s op)) (fst (abs_ts_step cmp st op)).
  Proof.
    intros s st op (m & Hsim & Hk). subst st.
    destruct op as [k | k | k |]; cbn [ts_step abs_ts_step fst snd].
    - split; [reflexivity|].
      destruct (tm_step_sim s m (TPut k 0) Hsim) as (_ & Hs1). cbn [abs_tm_step] in Hs1.
      rewrite s_mem_keys.
      destruct (a_find cmp k m) as [v0|]; cbn [fst] in Hs1.
      + exists (a_set cmp k 0 m). split; [exact Hs1 | apply a_set_keys].
      + exists (a_insert cmp k 0 m). split; [exact Hs1 | apply s_insert_keys].
    - split; [reflexivity|].
      destruct (tm_step_sim s m (TDelete k) Hsim) as (_ & Hs1). cbn [abs_tm_step] in Hs1.
      destruct (a_find cmp k m) as [v0|] eqn:Hf; cbn [fst] in Hs1.
      + exists (a_remove cmp k m). split; [exact Hs1 | apply s_remove_keys].
      + exists m. split; [exact Hs1|]. rewrite <- s_remove_keys, (L a_remove_none _ _ Hf). reflexivity.
    - destruct (tm_step_sim s m (TGet k) Hsim) as (Ho1 & _). rewrite Ho1. cbn [abs_tm_step snd].
      rewrite s_mem_keys. split; [destruct (a_find cmp k m); reflexivity|].
      exists m. split; [exact Hsim | reflexivity].
    - destruct Hsim as (Hi & Ho & Hs). rewrite Hi. split; [reflexivity|].
      exists m. split; [repeat split; assumption | reflexivity].
  Qed.

  Lemma ts_run_sim : forall ops s st, sim_set s st ->
    map snd (ts_run cmp s ops) = map snd (abs_ts_run cmp st ops).
  Proof.
    induction ops as [|o ops IH]; intros s st Hsim; [reflexivity|].
    cbn [ts_run abs_ts_run]. destruct (ts_step_sim s st o Hsim) as (Hout & Hsim').
    destruct (ts_step cmp s o) as [s' out]. destruct (abs_ts_step cmp st o) as [st' out'].
    cbn [fst snd] in *. cbn [map snd]. rewrite Hout, (IH s' st' Hsim'). reflexivity.
  Qed.

  Lemma treeset_refines_set_lemma : forall ops,
    map snd (ts_run cmp rb_empty ops) = map snd (abs_ts_run cmp [] ops).
  Proof.
    intros ops. apply ts_run_sim. exists []. split; [exact sim_empty | reflexivity].
  Qed.
End Sim.

(* ---------------- the comparator families of the correspondence check are lawful ---------------- *)
Lemma sgn_neg : forall z, Z.sgn z < 0 <-> z < 0.
Proof. intros z. destruct z; cbn; lia. Qed.
Lemma sgn_pos : forall z, Z.sgn z > 0 <-> z > 0.
Proof. intros z. destruct z; cbn; lia. Qed.
Lemma sgn_zero : forall z, Z.sgn z = 0 <-> z = 0.
Proof. intros z. destruct z; cbn; lia. Qed.

Lemma cmp_asc_laws :
  (forall a b, cmp_asc a b < 0 <-> cmp_asc b a > 0) /\
  (forall a b c, cmp_asc a b < 0 -> cmp_asc b c < 0 -> cmp_asc a c < 0) /\
  (forall a b c, cmp_asc a b = 0 -> cmp_asc a c < 0 -> cmp_asc b c < 0).
Proof.
  unfold cmp_asc. repeat split; intros; rewrite ?sgn_neg, ?sgn_pos, ?sgn_zero in *; lia.
Qed.

Lemma cmp_desc_laws :
  (forall a b, cmp_desc a b < 0 <-> cmp_desc b a > 0) /\
  (forall a b c, cmp_desc a b < 0 -> cmp_desc b c < 0 -> cmp_desc a c < 0) /\
  (forall a b c, cmp_desc a b = 0 -> cmp_desc a c < 0 -> cmp_desc b c < 0).
Proof.
  unfold cmp_desc. repeat split; intros; rewrite ?sgn_neg, ?sgn_pos, ?sgn_zero in *; lia.
Qed.

Lemma cmp_half_laws :
  (forall a b, cmp_half a b < 0 <-> cmp_half b a > 0) /\
  (forall a b c, cmp_half a b < 0 -> cmp_half b c < 0 -> cmp_half a c < 0) /\
  (forall a b c, cmp_half a b = 0 -> cmp_half a c < 0 -> cmp_half b c < 0).
Proof.
  unfold cmp_half. repeat split; intros; rewrite ?sgn_neg, ?sgn_pos, ?sgn_zero in *; lia.
Qed.
