(* C15Bridge2Cond.v — C15 bridge, trace-level COMPOSITION for syncx.Cond (interleaving model
   CondModel.v, the tree after fix: 989ed9d).

   Locations of the trace (field name, instance):
     Cond.checker                          only atomic loads / CAS                              (QAtomic)
     Cond.L                                the field: never written; the LOCK Cond.L is the client's
     Cond.notifyList, notifyList.list,
     chanList.sentinel, chanList.pool      written once inside once.Do by the thread that runs the body,
                                           published by the Once (end of f -> return of Do), afterwards
                                           only read, by threads whose own once.Do returned later   (QPub)
     chanList.size, node.prev/next of the
     SENTINEL (instance 0)                 initialised inside once.Do, afterwards accessed under l.mu by
                                           threads whose once.Do returned after the publication     (QInit)
     node.prev / node.next of wait node n  (instance S n): every access under l.mu                   (QLocked)
     node.Value of wait node n             (instance S n): written by the thread that allocates the node
                                           (the pool's New, inside add() under l.mu), published by that
                                           thread's Unlock of l.mu, afterwards only read, by threads that
                                           locked l.mu later (the notifier under l.mu; a waiter that got the
                                           node out of the sync.Pool: its own add() locked l.mu)         (QPub)
   Locks: notifyList.mu (l.mu) and Cond.L (the client's lock: taken by the client before Wait, released by
   Wait's c.L.Unlock(), re-taken by the deferred c.L.Lock(), released by the client).  The Once is the
   generic release/acquire object ("Cond.once", 0).  Channel operations (the token hand-off) and sync.Pool
   Put/Get are NOT emitted: they only add happens-before edges (conservative).
   The wait nodes are numbered by the model (c_next); which node's prev/next a statement of pushBack /
   remove writes is read off the model's list (the successor of the removed node is remembered in a ghost
   when `elem.prev.next = elem.next` runs).
   [cond_trace_drf_lemma]: for EVERY event list (any number of threads, calls, cancellations, pool oracle;
   also for a COPIED Cond, whose every call panics in checkCopy) the trace is well-formed, every access is
   an instance of a row of cond_table, and there is no data race. *)
From Coq Require Import List String Bool Arith Lia ZArith.
From Ekit Require Import Common HB FootprintModel FootprintProof C15Bridge C15Bridge2 Conc CondModel CondProof CondProofNodes
     CondProof2 C15BridgeCond.
Import ListNotations.
Open Scope string_scope.
Open Scope nat_scope.
Open Scope list_scope.

Ltac nlia := repeat match goal with H : @eq bool _ _ |- _ => clear H end; lia.

(* ---------- names ---------- *)
Definition CKn : name := lname "Cond.checker".
Definition CLn : name := lname L_Cond.                 (* the field c.L and the lock it holds *)
Definition NLn : name := lname "Cond.notifyList".
Definition LISTn : name := lname "notifyList.list".
Definition SENTn : name := lname "chanList.sentinel".
Definition POOLn : name := lname "chanList.pool".
Definition SIZEn : name := lname "chanList.size".
Definition PREVf : string := "node.prev".
Definition NEXTf : string := "node.next".
Definition VALf : string := "node.Value".
Definition PREVn (k : nat) : name := (PREVf, k).
Definition NEXTn (k : nat) : name := (NEXTf, k).
Definition VALn (k : nat) : name := (VALf, k).
Definition MUc : name := lname MU_Cond.
Definition ONCEn : name := lname "Cond.once".

Definition once_fields : list string :=
  ["Cond.notifyList"; "notifyList.list"; "chanList.sentinel"; "chanList.pool"].

Definition dsc_Cond (x : name) : option disc :=
  let f := fst x in
  if String.eqb f "Cond.checker" then match snd x with O => Some QAtomic | _ => None end
  else if String.eqb f L_Cond then match snd x with O => Some QConst | _ => None end
  else if existsb (String.eqb f) once_fields then match snd x with O => Some (QPub (VSync ONCEn)) | _ => None end
  else if String.eqb f "chanList.size" then match snd x with O => Some (QInit MUc (VSync ONCEn)) | _ => None end
  else if String.eqb f PREVf || String.eqb f NEXTf then
         match snd x with O => Some (QInit MUc (VSync ONCEn)) | S _ => Some (QLocked MUc) end
  else if String.eqb f VALf then match snd x with O => None | S _ => Some (QPub (VLock MUc)) end
  else None.

Lemma dsc_CK : dsc_Cond CKn = Some QAtomic. Proof. reflexivity. Qed.
Lemma dsc_CL : dsc_Cond CLn = Some QConst. Proof. reflexivity. Qed.
Lemma dsc_NL : dsc_Cond NLn = Some (QPub (VSync ONCEn)). Proof. reflexivity. Qed.
Lemma dsc_LIST : dsc_Cond LISTn = Some (QPub (VSync ONCEn)). Proof. reflexivity. Qed.
Lemma dsc_SENT : dsc_Cond SENTn = Some (QPub (VSync ONCEn)). Proof. reflexivity. Qed.
Lemma dsc_POOL : dsc_Cond POOLn = Some (QPub (VSync ONCEn)). Proof. reflexivity. Qed.
Lemma dsc_SIZE : dsc_Cond SIZEn = Some (QInit MUc (VSync ONCEn)). Proof. reflexivity. Qed.
Lemma dsc_PREV0 : dsc_Cond (PREVn 0) = Some (QInit MUc (VSync ONCEn)). Proof. reflexivity. Qed.
Lemma dsc_NEXT0 : dsc_Cond (NEXTn 0) = Some (QInit MUc (VSync ONCEn)). Proof. reflexivity. Qed.
Lemma dsc_PREVS n : dsc_Cond (PREVn (S n)) = Some (QLocked MUc). Proof. reflexivity. Qed.
Lemma dsc_NEXTS n : dsc_Cond (NEXTn (S n)) = Some (QLocked MUc). Proof. reflexivity. Qed.
Lemma dsc_VALS n : dsc_Cond (VALn (S n)) = Some (QPub (VLock MUc)). Proof. reflexivity. Qed.
Lemma via_VALS n : via_of dsc_Cond (VALn (S n)) = Some (VLock MUc). Proof. reflexivity. Qed.

(* the locations published by the Once *)
Definition inG (x : name) : Prop := via_of dsc_Cond x = Some (VSync ONCEn).
Definition Glist : list name := [NLn; LISTn; SENTn; POOLn; SIZEn; PREVn 0; NEXTn 0].

Lemma inG_list x : inG x <-> In x Glist.
Proof.
  split.
  - destruct x as [f n]. unfold inG, via_of, dsc_Cond. cbn [fst snd].
    destruct (String.eqb f "Cond.checker"); [destruct n; discriminate|].
    destruct (String.eqb f L_Cond); [destruct n; discriminate|].
    destruct (existsb (String.eqb f) once_fields) eqn:E1.
    { destruct n; [|discriminate]. intros _. cbn in E1.
      repeat (apply orb_true_iff in E1 as [E1|E1]; [apply String.eqb_eq in E1; subst f; cbn; tauto|]).
      discriminate E1. }
    destruct (String.eqb f "chanList.size") eqn:E2.
    { destruct n; [|discriminate]. intros _. apply String.eqb_eq in E2. subst f. cbn. tauto. }
    destruct (String.eqb f PREVf || String.eqb f NEXTf) eqn:E3.
    { destruct n; [|discriminate]. intros _. apply orb_true_iff in E3 as [E3|E3]; apply String.eqb_eq in E3; subst f; cbn; tauto. }
    destruct (String.eqb f VALf); [destruct n; discriminate|discriminate].
  - cbn. intros [<-|[<-|[<-|[<-|[<-|[<-|[<-|[]]]]]]]]; reflexivity.
Qed.

Lemma via_Cond_inv y v : via_of dsc_Cond y = Some v ->
  (v = VSync ONCEn /\ inG y) \/ (v = VLock MUc /\ exists n, y = VALn (S n)).
Proof.
  intros H. destruct y as [f n]. pose proof H as H0. unfold via_of, dsc_Cond in H. cbn [fst snd] in H.
  destruct (String.eqb f "Cond.checker"); [destruct n; discriminate|].
  destruct (String.eqb f L_Cond); [destruct n; discriminate|].
  destruct (existsb (String.eqb f) once_fields).
  { destruct n; [|discriminate]. injection H as <-. left. split; [reflexivity|exact H0]. }
  destruct (String.eqb f "chanList.size").
  { destruct n; [|discriminate]. injection H as <-. left. split; [reflexivity|exact H0]. }
  destruct (String.eqb f PREVf || String.eqb f NEXTf).
  { destruct n; [|discriminate]. injection H as <-. left. split; [reflexivity|exact H0]. }
  destruct (String.eqb f VALf) eqn:E; [|discriminate]. apply String.eqb_eq in E. subst f.
  destruct n as [|k]; [discriminate|]. injection H as <-. right. split; [reflexivity|now exists k].
Qed.

(* ---------- which node's link fields a list statement touches ---------- *)
Fixpoint pred_of (m : node) (prev : nat) (l : list node) : nat :=
  match l with
  | [] => prev
  | x :: r => if Nat.eqb x m then prev else pred_of m (S x) r
  end.
Definition pred_inst (m : node) (l : list node) : nat := pred_of m 0 l.   (* 0 = the sentinel *)
Fixpoint succ_inst (m : node) (l : list node) : nat :=
  match l with
  | [] => 0
  | x :: r => if Nat.eqb x m then match r with y :: _ => S y | [] => 0 end else succ_inst m r
  end.
Definition last_inst (l : list node) : nat := match l with [] => 0 | _ => S (last l 0) end.

(* ghost: the successor of the node a thread is unlinking (set when `elem.prev.next = elem.next` runs) *)
Definition cgh := Conc.tid -> nat.
Definition g0_Cond : cgh := fun _ => 0.

Definition gstep_Cond (c : ccfg) (g : cgh) (e : cev) : cgh :=
  match e with
  | EStep t _ =>
      match lookup t (c_thr c) with
      | Some (RM_1 _ m) => fun t' => if Nat.eqb t' t then succ_inst m (c_lst c) else g t'
      | _ => g
      end
  | _ => g
  end.

(* memory accesses, lock and Once operations of the statement at p, in program order *)
Definition acts_Cond (c : ccfg) (g : cgh) (t : Conc.tid) (p : cpc) : list action :=
  match p with
  | CC_If _ =>
      match c_ck c with
      | CkNil => [ARead CKn; ARmw CKn]                 (* load <> self, the CAS nil -> self succeeds *)
      | CkSelf => [ARead CKn]                          (* load = self *)
      | CkOther => [ARead CKn; ARmw CKn; ARead CKn]    (* load, failed CAS, load *)
      end
  | FU_Once _ => [SAcq ONCEn]
  | FU_IfNil _ => if c_nl c then [Read NLn; SRel ONCEn] else [Read NLn]
  | NC_2 _ => [Write (PREVn 0)]
  | NC_3 _ => [Write (NEXTn 0)]
  | NC_Ret _ => [Write SENTn; Write SIZEn; Write POOLn; Write LISTn; Write NLn; SRel ONCEn]
  | W_Add | S_NotifyOne | B_NotifyAll | W_RetWait _ => [Read NLn]
  | AD_Lock | NO_Lock | NA_Lock => if c_nl c then [Acq MUc Excl] else []
  | WT_Lock _ => [Acq MUc Excl]
  | AD_Alloc | AD_Push _ | WT_DeferFree _ | WT_IfLen _ | WT_Remove _ | NO_IfLen | NA_For
  | NN_Front _ | NN_Remove _ _ => [Read LISTn]
  | AL_Get => [Read POOLn]
  | AL_New => [Write (VALn (S (c_next c)))]
  | PB_1 n => [Read SENTn; Write (NEXTn (S n))]
  | PB_2 n => [Read SENTn; Read (PREVn 0); Write (PREVn (S n))]
  | PB_3 n => [Read SENTn; Read (PREVn 0); Write (NEXTn (last_inst (c_lst c)))]
  | PB_4 _ => [Read SENTn; Write (PREVn 0)]
  | PB_5 _ | RM_5 _ _ => [Read SIZEn; Write SIZEn]
  | AD_Ret _ | WT_RetErr _ | NO_Ret => [Rel MUc Excl]             (* the deferred l.mu.Unlock() *)
  | NN_Send k _ => match k with NNOne => [Rel MUc Excl] | _ => [] end
  | W_LUnlock _ => [Read CLn; Rel CLn Excl]
  | W_DeferLock _ => [Read CLn]
  | WT_Ch n => [Read (VALn (S n))]
  | FR_Put _ _ => [Read POOLn; Acq CLn Excl]                     (* l.pool.Put; the deferred c.L.Lock() *)
  | LEN x => match x with
             | LenAll => if (c_size c =? 0)%Z then [Read SIZEn; Rel MUc Excl] else [Read SIZEn]
             | _ => [Read SIZEn]
             end
  | FT_Ret _ => [Read SENTn; Read (NEXTn 0)]
  | NN_Ch _ f => [Read (VALn (S f))]
  | RM_1 _ m => [Read (PREVn (S m)); Read (NEXTn (S m)); Write (NEXTn (pred_inst m (c_lst c)))]
  | RM_2 _ m => [Read (NEXTn (S m)); Read (PREVn (S m)); Write (PREVn (g t))]
  | RM_3 _ m => [Write (PREVn (S m))]
  | RM_4 _ m => [Write (NEXTn (S m))]
  | _ => []
  end.

Definition emit_Cond (x : ccfg * cgh) (e : cev) : list event :=
  match e with
  | ECall t OpWait => [mkEv t (Acq CLn Excl)]           (* the client: c.L.Lock(); c.Wait(ctx) *)
  | ECall t OpUnlock => [mkEv t (Rel CLn Excl)]         (* the client: c.L.Unlock() *)
  | ECall _ _ => []
  | EStep t _ => match lookup t (c_thr (fst x)) with
                 | Some p => map (mkEv t) (acts_Cond (fst x) (snd x) t p)
                 | None => []
                 end
  | ECancel _ => []
  end.

Definition cond_pstep := pstep ccfg cev cgh cond_step gstep_Cond.
Definition cond_trace (copied : bool) (evs : list cev) : execution :=
  trace (ccfg * cgh) cev cond_pstep emit_Cond (cond_init copied, g0_Cond) evs.

(* ---------- classification of program counters ---------- *)
Definition pre_cc (p : cpc) : bool :=
  match p with W_CheckCopy | S_CheckCopy | B_CheckCopy | CC_If _ | CC_Panic _ => true | _ => false end.
Definition once_stage (p : cpc) : nat := match p with NC_3 _ => 1 | NC_Ret _ => 2 | _ => 0 end.

Definition heldby (o : option Conc.tid) (t : Conc.tid) : bool :=
  match o with Some h => Nat.eqb h t | None => false end.

Notation thrC := (list (Conc.tid * cpc)).

(* the node of thread t (if its pc carries one): local to t or published and seen by t *)
Definition node_ok (a : ast) (t : Conc.tid) (n : node) : Prop :=
  a_lst a (VALn (S n)) = LLocal t \/
  exists t0, a_lst a (VALn (S n)) = LPub t0 /\ (t0 = t \/ a_seen a (VALn (S n)) t = true).
Definition fu_ok (a : ast) (t : Conc.tid) : Prop :=
  forall x r, inG x -> a_lst a x = LPub r -> r = t \/ a_seen a x t = true.

(* what the invariant says about ONE thread-table entry *)
Definition TF (c : ccfg) (a : ast) (t : Conc.tid) (p : cpc) : Prop :=
  (c_ck c = CkOther -> pre_cc p = true) /\
  (past_fu p = true -> fu_ok a t) /\
  (forall n, wnode p = Some n -> node_ok a t n) /\
  (c_once c = ORunning t ->
     (1 <= once_stage p -> a_lst a (PREVn 0) = LLocal t) /\ (2 <= once_stage p -> a_lst a (NEXTn 0) = LLocal t)).

Record RC (c : ccfg) (a : ast) : Prop := {
  k_mu : forall t m, a_lk a MUc t m = mode_eqb m Excl && heldby (c_mu c) t;
  k_L : forall t m, a_lk a CLn t m = mode_eqb m Excl && heldby (c_L c) t;
  k_nl : c_nl c = true -> c_once c = ODone;
  k_once : match c_once c with
           | ONew => forall x, inG x -> a_lst a x = LFresh
           | ORunning r => forall x, inG x -> a_lst a x = LFresh \/ a_lst a x = LLocal r
           | ODone => c_ck c = CkOther \/ exists r, forall x, inG x -> a_lst a x = LPub r
           end;
  k_unborn : forall n, c_next c <= n -> a_lst a (VALn (S n)) = LFresh;
  k_born : forall n, n < c_next c -> a_lst a (VALn (S n)) <> LFresh;
  k_local : forall n t', a_lst a (VALn (S n)) = LLocal t' -> c_mu c = Some t';
  k_seenmu : forall t, c_mu c = Some t -> forall n t0, a_lst a (VALn (S n)) = LPub t0 ->
               t0 = t \/ a_seen a (VALn (S n)) t = true;
  k_thr : forall t p, lookup t (c_thr c) = Some p -> TF c a t p
}.

Lemma RC_ext c a b : aeqm a b -> RC c a -> RC c b.
Proof.
  intros (H1 & H2 & H3) [Km KL Kn Ko Ku Kb Kl Ks Kt]. constructor.
  - intros t m. rewrite <- H1. apply Km.
  - intros t m. rewrite <- H1. apply KL.
  - exact Kn.
  - destruct (c_once c) as [|r|].
    + intros x Hx. rewrite <- H2. now apply Ko.
    + intros x Hx. rewrite <- H2. now apply Ko.
    + destruct Ko as [Ko|[r Ko]]; [now left|right]. exists r. intros x Hx. rewrite <- H2. now apply Ko.
  - intros n Hn. rewrite <- H2. now apply Ku.
  - intros n Hn. rewrite <- H2. now apply Kb.
  - intros n t'. rewrite <- H2. apply Kl.
  - intros t Hm n t0. rewrite <- H2, <- H3. now apply Ks.
  - intros t p Hl. destruct (Kt t p Hl) as (T1 & T2 & T3 & T4). repeat split.
    + exact T1.
    + intros Hp x r Hx. rewrite <- H2, <- H3. now apply T2.
    + intros n Hw. unfold node_ok. rewrite <- H2, <- H3. now apply T3.
    + intros Ho. rewrite <- H2. now apply T4.
    + intros Ho. rewrite <- H2. now apply T4.
Qed.

(* ---------- thread tables ---------- *)
Definition sameflags (p p' : cpc) : Prop :=
  p' = p \/ exists n, p = WT_Parked n /\ (p' = WT_CaseCh n \/ p' = WT_CaseCtx n).

Lemma sameflags_TF c a t p p' : sameflags p p' -> TF c a t p -> TF c a t p'.
Proof. intros [->|(n & -> & [->| ->])] H; exact H. Qed.

(* t is the acting thread; np its entry afterwards (None: it left the table); every other entry is
   unchanged or woken out of the select *)
Definition tbl_next (thr thr' : thrC) (t : Conc.tid) (np : option cpc) : Prop :=
  lookup t thr' = np /\
  forall t', t' <> t -> match lookup t' thr, lookup t' thr' with
                        | Some p, Some p' => sameflags p p'
                        | None, None => True
                        | _, _ => False
                        end.

Lemma past_fu_not_pre_cc p : past_fu p = true -> pre_cc p = false.
Proof. destruct p; cbn; congruence. Qed.

(* the facts about the OTHER threads survive the events of thread t *)
Lemma TF_others c c' a a' t t' p :
  RC c a -> lookup t' (c_thr c) = Some p -> t' <> t -> evolves t a a' ->
  (c_ck c' = CkOther -> c_ck c = CkOther) ->
  (c_once c' = ORunning t' -> c_once c = ORunning t') ->
  ((forall x r, inG x -> a_lst a' x = LPub r -> a_lst a x = LPub r) \/ past_fu p = false) ->
  TF c' a' t' p.
Proof.
  intros HR Hl Hne Hev Hck Hon HG. destruct (k_thr _ _ HR t' p Hl) as (T1 & T2 & T3 & T4).
  destruct Hev as (E1 & E2 & E3).
  assert (Hev : evolves t a a') by (repeat split; assumption).
  repeat split.
  - intros H. apply T1, Hck, H.
  - intros Hp x r Hx Hpub. destruct HG as [HG|HG]; [|congruence].
    destruct (T2 Hp x r Hx (HG x r Hx Hpub)) as [H|H]; [now left|right; now apply E2].
  - intros n Hw. destruct (T3 n Hw) as [H|(t0 & H1 & H2)].
    + left. exact (evolves_local_other _ _ _ _ _ Hev Hne H).
    + right. exists t0. split; [exact (evolves_pub _ _ _ _ _ Hev H1)|].
      destruct H2 as [H2|H2]; [now left|right; now apply E2].
  - intros Hs. destruct (T4 (Hon H)) as [H0 _]. exact (evolves_local_other _ _ _ _ _ Hev Hne (H0 Hs)).
  - intros Hs. destruct (T4 (Hon H)) as [_ H0]. exact (evolves_local_other _ _ _ _ _ Hev Hne (H0 Hs)).
Qed.

(* the table part of the invariant after a step of t *)
Lemma k_thr_next c c' a a' t np :
  RC c a -> tbl_next (c_thr c) (c_thr c') t np -> evolves t a a' ->
  (c_ck c' = CkOther -> c_ck c = CkOther) ->
  (forall t', t' <> t -> c_once c' = ORunning t' -> c_once c = ORunning t') ->
  ((forall x r, inG x -> a_lst a' x = LPub r -> a_lst a x = LPub r) \/
   (forall t' p, t' <> t -> lookup t' (c_thr c) = Some p -> past_fu p = false)) ->
  (forall p', np = Some p' -> TF c' a' t p') ->
  forall t' p', lookup t' (c_thr c') = Some p' -> TF c' a' t' p'.
Proof.
  intros HR [Ht Ho] Hev Hck Hon HG Hnew t' p' Hl'.
  destruct (Nat.eq_dec t' t) as [->|Hne].
  - apply Hnew. now rewrite <- Ht.
  - specialize (Ho t' Hne). rewrite Hl' in Ho. destruct (lookup t' (c_thr c)) as [p|] eqn:Hl; [|destruct Ho].
    apply (sameflags_TF _ _ _ p p' Ho).
    eapply (TF_others c c' a a' t t' p HR Hl Hne Hev Hck (Hon t' Hne)).
    destruct HG as [HG|HG]; [now left|right; exact (HG t' p Hne Hl)].
Qed.

(* ---------- facts about this classification ---------- *)
Lemma name_eqb_MU_CL : name_eqb MUc CLn = false. Proof. reflexivity. Qed.
Lemma name_eqb_CL_MU : name_eqb CLn MUc = false. Proof. reflexivity. Qed.

Lemma inG_not_VAL n : ~ inG (VALn (S n)).
Proof. unfold inG. rewrite via_VALS. discriminate. Qed.

Lemma evolves_of_eq t a a' :
  (forall x, a_lst a' x = a_lst a x) -> (forall x t', a_seen a' x t' = a_seen a x t') -> evolves t a a'.
Proof.
  intros H1 H2. repeat split.
  - intros x. left. apply H1.
  - intros x t' H. now rewrite H2.
  - intros x t' _. apply H2.
Qed.

(* the lock c.L publishes nothing *)
Lemma lst_rel_L a t m y : a_lst (st_rel dsc_Cond a t CLn m) y = a_lst a y.
Proof.
  cbn [a_lst st_rel]. destruct (a_lst a y) as [|t0|t0]; try reflexivity.
  destruct (via_of dsc_Cond y) as [[l'|o]|] eqn:Ev; try reflexivity.
  destruct (via_Cond_inv _ _ Ev) as [[E _]|[E _]]; [discriminate E|]. injection E as ->.
  rewrite name_eqb_MU_CL. now rewrite andb_false_r.
Qed.
Lemma seen_acq_L a t m y t' : a_seen (st_acq dsc_Cond a t CLn m) y t' = a_seen a y t'.
Proof.
  cbn [a_seen st_acq]. destruct (a_lst a y) as [|t0|t0]; rewrite ?andb_false_r, ?orb_false_r; try reflexivity.
  destruct (via_of dsc_Cond y) as [[l'|o]|] eqn:Ev; rewrite ?andb_false_r, ?orb_false_r; try reflexivity.
  destruct (via_Cond_inv _ _ Ev) as [[E _]|[E _]]; [discriminate E|]. injection E as ->.
  rewrite name_eqb_MU_CL. now rewrite andb_false_r, orb_false_r.
Qed.
(* l.mu publishes the Values only *)
Lemma lst_rel_MU_G a t m y : inG y -> a_lst (st_rel dsc_Cond a t MUc m) y = a_lst a y.
Proof. intros Hy. cbn [a_lst st_rel]. unfold inG in Hy. rewrite Hy. now destruct (a_lst a y). Qed.
Lemma seen_acq_MU_G a t m y t' : inG y -> a_seen (st_acq dsc_Cond a t MUc m) y t' = a_seen a y t'.
Proof.
  intros Hy. cbn [a_seen st_acq]. unfold inG in Hy. rewrite Hy.
  destruct (a_lst a y); now rewrite ?andb_false_r, ?orb_false_r.
Qed.
(* the Once publishes no Value *)
Lemma lst_srel_VAL a t n : a_lst (st_srel dsc_Cond a t ONCEn) (VALn (S n)) = a_lst a (VALn (S n)).
Proof. cbn [a_lst st_srel]. rewrite via_VALS. now destruct (a_lst a (VALn (S n))). Qed.
Lemma seen_sacq_VAL a t n t' : a_seen (st_sacq dsc_Cond a t ONCEn) (VALn (S n)) t' = a_seen a (VALn (S n)) t'.
Proof.
  cbn [a_seen st_sacq]. rewrite via_VALS. destruct (a_lst a (VALn (S n))); now rewrite ?andb_false_r, ?orb_false_r.
Qed.

(* ---------- the acting thread's entry ---------- *)
Lemma TF_entry c a t p : pre_cc p = true -> past_fu p = false -> wnode p = None -> once_stage p = 0 -> TF c a t p.
Proof.
  intros H1 H2 H3 H4. repeat split; try congruence; intros; nlia.
Qed.

(* the new entry of the acting thread asks for no more than the old one *)
Lemma TF_same c c' a a' t p p' :
  RC c a -> lookup t (c_thr c) = Some p ->
  (forall x r, a_lst a x = LPub r -> a_lst a' x = LPub r) ->
  (forall x r, inG x -> a_lst a' x = LPub r -> a_lst a x = LPub r) ->
  (forall x, inG x -> a_lst a x = LLocal t -> a_lst a' x = LLocal t) ->
  (forall n, a_lst a (VALn (S n)) = LLocal t ->
             a_lst a' (VALn (S n)) = LLocal t \/ a_lst a' (VALn (S n)) = LPub t) ->
  (forall x t', a_seen a x t' = true -> a_seen a' x t' = true) ->
  (c_ck c' = CkOther -> c_ck c = CkOther) -> c_once c' = c_once c ->
  (c_ck c' = CkOther -> pre_cc p' = true \/ pre_cc p = false) ->
  (past_fu p' = true -> past_fu p = true) ->
  (forall n, wnode p' = Some n -> wnode p = Some n \/ (c_mu c = Some t /\ n < c_next c)) ->
  once_stage p' <= once_stage p ->
  TF c' a' t p'.
Proof.
  intros HR Hl Hpub HpubG HlocG HlocV Hseen Hck Hon F1 F2 F3 F4.
  destruct (k_thr _ _ HR t p Hl) as (T1 & T2 & T3 & T4).
  repeat split.
  - intros H. destruct (F1 H) as [F1'|F1']; [exact F1'|]. rewrite (T1 (Hck H)) in F1'. discriminate.
  - intros Hp x r Hx Hr. apply (HpubG x r Hx) in Hr.
    destruct (T2 (F2 Hp) x r Hx Hr) as [H|H]; [now left|right; now apply Hseen].
  - intros n Hw. assert (Hn : node_ok a t n).
    { destruct (F3 n Hw) as [H|[Hm Hn]]; [now apply T3|]. unfold node_ok.
      destruct (a_lst a (VALn (S n))) as [|t0|t0] eqn:E.
      - exfalso. exact (k_born _ _ HR n Hn E).
      - left. pose proof (k_local _ _ HR n t0 E) as H. rewrite Hm in H. now injection H as ->.
      - right. exists t0. split; [reflexivity|]. now apply (k_seenmu _ _ HR t Hm n t0). }
    destruct Hn as [H|(t0 & H1 & H2)].
    + destruct (HlocV n H) as [H'|H']; [now left|right]. exists t. split; [exact H'|now left].
    + right. exists t0. split; [now apply Hpub|]. destruct H2 as [H2|H2]; [now left|right; now apply Hseen].
  - intros Hs. rewrite Hon in H. destruct (T4 H) as [H0 _]. apply HlocG; [reflexivity|]. apply H0. nlia.
  - intros Hs. rewrite Hon in H. destruct (T4 H) as [_ H0]. apply HlocG; [reflexivity|]. apply H0. nlia.
Qed.

Lemma TF_same_eq c c' a a' t p p' :
  RC c a -> lookup t (c_thr c) = Some p ->
  (forall x, a_lst a' x = a_lst a x) -> (forall x t', a_seen a' x t' = a_seen a x t') ->
  (c_ck c' = CkOther -> c_ck c = CkOther) -> c_once c' = c_once c ->
  (c_ck c' = CkOther -> pre_cc p' = true \/ pre_cc p = false) ->
  (past_fu p' = true -> past_fu p = true) ->
  (forall n, wnode p' = Some n -> wnode p = Some n \/ (c_mu c = Some t /\ n < c_next c)) ->
  once_stage p' <= once_stage p ->
  TF c' a' t p'.
Proof.
  intros HR Hl Hlst Hseen. apply (TF_same c c' a a' t p p' HR Hl).
  - intros x r. now rewrite Hlst.
  - intros x r _. now rewrite Hlst.
  - intros x _. now rewrite Hlst.
  - intros n H. left. now rewrite Hlst.
  - intros x t'. now rewrite Hseen.
Qed.

(* ---------- E0 / E3: the published state does not move (a step without lock or Once operation, or
   an operation on the client's lock c.L) ---------- *)
Lemma RC_same c c' a a' t np :
  RC c a -> tbl_next (c_thr c) (c_thr c') t np ->
  (forall x, a_lst a' x = a_lst a x) -> (forall x t', a_seen a' x t' = a_seen a x t') ->
  (forall t' m, a_lk a' MUc t' m = a_lk a MUc t' m) ->
  (forall t' m, a_lk a' CLn t' m = mode_eqb m Excl && heldby (c_L c') t') ->
  c_mu c' = c_mu c -> c_once c' = c_once c -> c_nl c' = c_nl c -> c_next c' = c_next c ->
  (c_ck c' = CkOther <-> c_ck c = CkOther) ->
  (forall p', np = Some p' -> TF c' a' t p') ->
  RC c' a'.
Proof.
  intros HR Htb Hlst Hseen HlkM HlkL Emu Eon Enl Enx Eck Hnew.
  pose proof HR as [Km KL Kn Ko Ku Kb Kl Ks Kt].
  constructor; rewrite ?Emu, ?Eon, ?Enl, ?Enx.
  - intros t' m. rewrite HlkM. apply Km.
  - exact HlkL.
  - exact Kn.
  - destruct (c_once c) as [|r|].
    + intros x Hx. rewrite Hlst. now apply Ko.
    + intros x Hx. rewrite Hlst. now apply Ko.
    + destruct Ko as [Ko|[r Ko]]; [left; now apply Eck|right]. exists r. intros x Hx. rewrite Hlst. now apply Ko.
  - intros n Hn. rewrite Hlst. now apply Ku.
  - intros n Hn. rewrite Hlst. now apply Kb.
  - intros n t'. rewrite Hlst. apply Kl.
  - intros t' Hm n t0. rewrite Hlst, Hseen. now apply Ks.
  - apply (k_thr_next c c' a a' t np HR Htb (evolves_of_eq _ _ _ Hlst Hseen)); try assumption.
    + apply Eck.
    + intros t' _. now rewrite Eon.
    + left. intros x r _. now rewrite Hlst.
Qed.

Lemma heldby_some t t' : heldby (Some t) t' = Nat.eqb t' t.
Proof. cbn. apply Nat.eqb_sym. Qed.

(* ---------- E1: l.mu.Lock() ---------- *)
Lemma RC_acq_mu c c' a t p p' :
  RC c a -> lookup t (c_thr c) = Some p -> tbl_next (c_thr c) (c_thr c') t (Some p') ->
  c_mu c = None -> c_mu c' = Some t -> c_L c' = c_L c -> c_once c' = c_once c -> c_nl c' = c_nl c ->
  c_next c' = c_next c -> c_ck c' = c_ck c ->
  (c_ck c' = CkOther -> pre_cc p' = true \/ pre_cc p = false) -> (past_fu p' = true -> past_fu p = true) ->
  (forall n, wnode p' = Some n -> wnode p = Some n) -> once_stage p' <= once_stage p ->
  lk_free a MUc Excl /\ RC c' (st_acq dsc_Cond a t MUc Excl).
Proof.
  intros HR Hl Htb Emu Emu' EL Eon Enl Enx Eck F1 F2 F3 F4.
  pose proof HR as [Km KL Kn Ko Ku Kb Kl Ks Kt].
  split.
  { split; [intros t'|intros _ t']; rewrite Km, Emu; cbn; rewrite ?andb_false_r; reflexivity. }
  set (a' := st_acq dsc_Cond a t MUc Excl).
  assert (Hev : evolves t a a').
  { eapply evolves_ext; [apply (evolves_aupd dsc_Cond t a (Acq MUc Excl))|apply aeq_aeqm, acq_st]. }
  assert (Hseen : forall x t', a_seen a x t' = true -> a_seen a' x t' = true).
  { intros x t' H. cbn [a' a_seen st_acq]. now rewrite H. }
  constructor; rewrite ?Emu', ?EL, ?Eon, ?Enl, ?Enx, ?Eck.
  - intros t' m. cbn [a' a_lk st_acq]. rewrite name_eqb_refl, heldby_some. cbn [andb].
    destruct (Nat.eqb t' t) eqn:E; cbn [andb].
    + destruct m; cbn; [reflexivity|]. rewrite Km, Emu. reflexivity.
    + rewrite Km, Emu. cbn. now rewrite !andb_false_r.
  - intros t' m. cbn [a' a_lk st_acq]. rewrite name_eqb_CL_MU. cbn [andb]. apply KL.
  - exact Kn.
  - exact Ko.
  - exact Ku.
  - exact Kb.
  - intros n t' H. cbn [a' a_lst st_acq] in H. apply Kl in H. congruence.
  - intros t1 Hm n t0 Hp. injection Hm as <-. right. cbn [a' a_lst a_seen st_acq] in *.
    rewrite Hp, via_VALS, Nat.eqb_refl, name_eqb_refl. now rewrite orb_true_r.
  - apply (k_thr_next c c' a a' t (Some p') HR Htb Hev).
    + rewrite Eck. tauto.
    + intros t' _. rewrite Eon. tauto.
    + left. intros x r _ H. exact H.
    + intros q E. injection E as <-.
      apply (TF_same c c' a a' t p p' HR Hl); try assumption; try (rewrite ?Eck, ?Eon; tauto).
      all: try (intros n H; left; first [exact H | now apply F3]).
Qed.

(* ---------- E2: the (deferred) l.mu.Unlock() ---------- *)
Lemma RC_rel_mu c c' a t p np :
  RC c a -> lookup t (c_thr c) = Some p -> tbl_next (c_thr c) (c_thr c') t np ->
  c_mu c = Some t -> c_mu c' = None -> c_L c' = c_L c -> c_once c' = c_once c -> c_nl c' = c_nl c ->
  c_next c' = c_next c -> c_ck c' = c_ck c ->
  (forall p', np = Some p' ->
     (c_ck c' = CkOther -> pre_cc p' = true \/ pre_cc p = false) /\ (past_fu p' = true -> past_fu p = true) /\
     (forall n, wnode p' = Some n -> wnode p = Some n) /\ once_stage p' <= once_stage p) ->
  a_lk a MUc t Excl = true /\ RC c' (st_rel dsc_Cond a t MUc Excl).
Proof.
  intros HR Hl Htb Emu Emu' EL Eon Enl Enx Eck Fp.
  pose proof HR as [Km KL Kn Ko Ku Kb Kl Ks Kt].
  split.
  { rewrite Km, Emu. cbn. now rewrite Nat.eqb_refl. }
  set (a' := st_rel dsc_Cond a t MUc Excl).
  assert (Hev : evolves t a a').
  { eapply evolves_ext; [apply (evolves_aupd dsc_Cond t a (Rel MUc Excl))|apply aeq_aeqm, rel_st]. }
  assert (HG : forall x, inG x -> a_lst a' x = a_lst a x) by (intros x Hx; now apply lst_rel_MU_G).
  assert (HV : forall n, a_lst a' (VALn (S n)) =
                         match a_lst a (VALn (S n)) with LLocal t0 => if Nat.eqb t0 t then LPub t0 else LLocal t0 | s => s end).
  { intros n. cbn [a' a_lst st_rel]. rewrite via_VALS, name_eqb_refl. cbn [mode_eqb andb].
    destruct (a_lst a (VALn (S n))); try reflexivity. now rewrite andb_true_r. }
  constructor; rewrite ?Emu', ?EL, ?Eon, ?Enl, ?Enx, ?Eck.
  - intros t' m. cbn [a' a_lk st_rel]. rewrite name_eqb_refl. cbn [andb heldby].
    destruct (Nat.eqb t' t) eqn:E; cbn [andb].
    + destruct m; cbn; [reflexivity|]. rewrite Km. reflexivity.
    + rewrite Km, Emu, heldby_some, E. now rewrite !andb_false_r.
  - intros t' m. cbn [a' a_lk st_rel]. rewrite name_eqb_CL_MU. cbn [andb]. apply KL.
  - exact Kn.
  - destruct (c_once c) as [|r|].
    + intros x Hx. rewrite HG by exact Hx. now apply Ko.
    + intros x Hx. rewrite HG by exact Hx. now apply Ko.
    + destruct Ko as [Ko|[r Ko]]; [now left|right]. exists r. intros x Hx. rewrite HG by exact Hx. now apply Ko.
  - intros n Hn. rewrite HV, (Ku n Hn). reflexivity.
  - intros n Hn H. rewrite HV in H. pose proof (Kb n Hn) as Hb.
    destruct (a_lst a (VALn (S n))) as [|t0|t0]; [now apply Hb|destruct (Nat.eqb t0 t); discriminate H|discriminate H].
  - intros n t' H. exfalso. rewrite HV in H. destruct (a_lst a (VALn (S n))) as [|t0|t0] eqn:E; try discriminate H.
    pose proof (Kl n t0 E) as H0. rewrite Emu in H0. injection H0 as <-. rewrite Nat.eqb_refl in H. discriminate H.
  - intros t1 Hm. discriminate Hm.
  - apply (k_thr_next c c' a a' t np HR Htb Hev).
    + rewrite Eck. tauto.
    + intros t' _. rewrite Eon. tauto.
    + left. intros x r Hx H. now rewrite HG in H.
    + intros p' E. destruct (Fp p' E) as (F1 & F2 & F3 & F4).
      apply (TF_same c c' a a' t p p' HR Hl).
      * intros x r H. exact (evolves_pub _ _ _ _ _ Hev H).
      * intros x r Hx H. now rewrite HG in H.
      * intros x Hx H. now rewrite HG.
      * intros n H. right. rewrite HV, H, Nat.eqb_refl. reflexivity.
      * intros x t' H. destruct Hev as (_ & E2 & _). now apply E2.
      * rewrite Eck. tauto.
      * exact Eon.
      * exact F1.
      * exact F2.
      * intros n Hw. left. now apply F3.
      * exact F4.
Qed.

(* ---------- E3: the client's lock c.L ---------- *)
Lemma RC_acq_L c c' a t np :
  RC c a -> tbl_next (c_thr c) (c_thr c') t np -> c_L c = None -> c_L c' = Some t ->
  c_mu c' = c_mu c -> c_once c' = c_once c -> c_nl c' = c_nl c -> c_next c' = c_next c -> c_ck c' = c_ck c ->
  (forall p', np = Some p' -> pre_cc p' = true /\ past_fu p' = false /\ wnode p' = None /\ once_stage p' = 0) ->
  lk_free a CLn Excl /\ RC c' (st_acq dsc_Cond a t CLn Excl).
Proof.
  intros HR Htb EL EL' Emu Eon Enl Enx Eck Fp. split.
  { split; [intros t'|intros _ t']; rewrite (k_L _ _ HR), EL; cbn; rewrite ?andb_false_r; reflexivity. }
  apply (RC_same c c' a _ t np HR Htb); try assumption.
  - intros x. reflexivity.
  - intros x t'. apply seen_acq_L.
  - intros t' m. cbn [a_lk st_acq]. now rewrite name_eqb_MU_CL.
  - intros t' m. cbn [a_lk st_acq]. rewrite name_eqb_refl, EL', heldby_some. cbn [andb].
    destruct (Nat.eqb t' t) eqn:E; cbn [andb].
    + destruct m; cbn; [reflexivity|]. rewrite (k_L _ _ HR), EL. reflexivity.
    + rewrite (k_L _ _ HR), EL. cbn. now rewrite !andb_false_r.
  - rewrite Eck. tauto.
  - intros p' E. destruct (Fp p' E) as (F1 & F2 & F3 & F4). now apply TF_entry.
Qed.

Lemma RC_rel_L c c' a t np :
  RC c a -> tbl_next (c_thr c) (c_thr c') t np -> c_L c = Some t -> c_L c' = None ->
  c_mu c' = c_mu c -> c_once c' = c_once c -> c_nl c' = c_nl c -> c_next c' = c_next c -> c_ck c' = c_ck c ->
  (forall p', np = Some p' -> exists p, lookup t (c_thr c) = Some p /\
     (c_ck c' = CkOther -> pre_cc p' = true \/ pre_cc p = false) /\ (past_fu p' = true -> past_fu p = true) /\
     (forall n, wnode p' = Some n -> wnode p = Some n) /\ once_stage p' <= once_stage p) ->
  a_lk a CLn t Excl = true /\ RC c' (st_rel dsc_Cond a t CLn Excl).
Proof.
  intros HR Htb EL EL' Emu Eon Enl Enx Eck Fp. split.
  { rewrite (k_L _ _ HR), EL. cbn. now rewrite Nat.eqb_refl. }
  apply (RC_same c c' a _ t np HR Htb); try assumption.
  - intros x. apply lst_rel_L.
  - intros x t'. reflexivity.
  - intros t' m. cbn [a_lk st_rel]. now rewrite name_eqb_MU_CL.
  - intros t' m. cbn [a_lk st_rel]. rewrite name_eqb_refl, EL'. cbn [andb heldby].
    destruct (Nat.eqb t' t) eqn:E; cbn [andb].
    + destruct m; cbn; [reflexivity|]. rewrite (k_L _ _ HR). reflexivity.
    + rewrite (k_L _ _ HR), EL, heldby_some, E. now rewrite !andb_false_r.
  - rewrite Eck. tauto.
  - intros p' E. destruct (Fp p' E) as (p & Hl & F1 & F2 & F3 & F4).
    apply (TF_same_eq c c' a _ t p p' HR Hl); try assumption.
    + intros x. apply lst_rel_L.
    + intros x t'. reflexivity.
    + rewrite Eck. tauto.
    + intros n Hw. left. now apply F3.
Qed.

(* ---------- E4: once.Do ---------- *)
Lemma evolves_sacq a t o : evolves t a (st_sacq dsc_Cond a t o).
Proof. eapply evolves_ext; [apply (evolves_aupd dsc_Cond t a (SAcq o))|apply aeq_aeqm, sacq_st]. Qed.

(* the Once is done: Do returns at once (an acquire) *)
Lemma RC_once_done c c' a t p p' :
  RC c a -> lookup t (c_thr c) = Some p -> tbl_next (c_thr c) (c_thr c') t (Some p') ->
  c_once c = ODone -> pre_cc p = false ->
  c_mu c' = c_mu c -> c_L c' = c_L c -> c_once c' = c_once c -> c_nl c' = c_nl c -> c_next c' = c_next c ->
  c_ck c' = c_ck c -> wnode p' = None -> once_stage p' = 0 ->
  RC c' (st_sacq dsc_Cond a t ONCEn).
Proof.
  intros HR Hl Htb Hdone Hpc Emu EL Eon Enl Enx Eck Fw Fs.
  pose proof HR as [Km KL Kn Ko Ku Kb Kl Ks Kt].
  set (a' := st_sacq dsc_Cond a t ONCEn).
  constructor; rewrite ?Emu, ?EL, ?Eon, ?Enl, ?Enx, ?Eck.
  - exact Km.
  - exact KL.
  - exact Kn.
  - exact Ko.
  - exact Ku.
  - exact Kb.
  - exact Kl.
  - intros t1 Hm n t0 Hp. unfold a'. rewrite seen_sacq_VAL. now apply Ks.
  - apply (k_thr_next c c' a a' t (Some p') HR Htb (evolves_sacq a t ONCEn)).
    + rewrite Eck. tauto.
    + intros t' _. rewrite Eon. tauto.
    + left. intros x r _ H. exact H.
    + intros q E. injection E as <-. destruct (Kt t p Hl) as (T1 & _).
      repeat split.
      * intros H. rewrite Eck in H. rewrite (T1 H) in Hpc. discriminate.
      * intros _ x r Hx Hr. right. cbn [a' a_lst a_seen st_sacq] in *. unfold inG in Hx.
        rewrite Hr, Hx, Nat.eqb_refl, name_eqb_refl. now rewrite orb_true_r.
      * intros n Hw. congruence.
      * intros Hs. rewrite Fs in Hs. nlia.
      * intros Hs. rewrite Fs in Hs. nlia.
Qed.

(* the Once is new: this thread runs the body *)
Lemma RC_once_enter c c' a t p p' :
  RC c a -> lookup t (c_thr c) = Some p -> tbl_next (c_thr c) (c_thr c') t (Some p') ->
  c_once c = ONew -> c_once c' = ORunning t -> pre_cc p = false ->
  c_mu c' = c_mu c -> c_L c' = c_L c -> c_nl c' = c_nl c -> c_next c' = c_next c -> c_ck c' = c_ck c ->
  past_fu p' = false -> wnode p' = None -> once_stage p' = 0 ->
  RC c' (st_sacq dsc_Cond a t ONCEn).
Proof.
  intros HR Hl Htb Hnew Hrun Hpc Emu EL Enl Enx Eck Fp Fw Fs.
  pose proof HR as [Km KL Kn Ko Ku Kb Kl Ks Kt].
  set (a' := st_sacq dsc_Cond a t ONCEn).
  constructor; rewrite ?Emu, ?EL, ?Enl, ?Enx, ?Eck, ?Hrun.
  - exact Km.
  - exact KL.
  - intros H. apply Kn in H. congruence.
  - rewrite Hnew in Ko. intros x Hx. left. now apply Ko.
  - exact Ku.
  - exact Kb.
  - exact Kl.
  - intros t1 Hm n t0 Hp. unfold a'. rewrite seen_sacq_VAL. now apply Ks.
  - apply (k_thr_next c c' a a' t (Some p') HR Htb (evolves_sacq a t ONCEn)).
    + rewrite Eck. tauto.
    + intros t' Hne H. rewrite Hrun in H. injection H as ->. now contradiction Hne.
    + left. intros x r _ H. exact H.
    + intros q E. injection E as <-. destruct (Kt t p Hl) as (T1 & _).
      repeat split.
      * intros H. rewrite Eck in H. rewrite (T1 H) in Hpc. discriminate.
      * congruence.
      * intros n Hw. congruence.
      * intros Hs. rewrite Fs in Hs. nlia.
      * intros Hs. rewrite Fs in Hs. nlia.
Qed.

(* ---------- E5: the body of once.Do touches a field it is about to publish ---------- *)
Lemma name_eqb_VAL_G n x0 : inG x0 -> name_eqb (VALn (S n)) x0 = false.
Proof.
  intros H. destruct (name_eqb (VALn (S n)) x0) eqn:E; [|reflexivity].
  apply name_eqb_eq in E. subst x0. exfalso. exact (inG_not_VAL n H).
Qed.

Lemma evolves_touch a t accs : accs_ok dsc_Cond a t accs -> evolves t a (st_touch dsc_Cond a t (acts_locs accs)).
Proof.
  intros H. destruct (step_touch dsc_Cond a t accs H) as [_ Heq].
  eapply evolves_ext; [apply (evolves_aupds dsc_Cond t accs a)|apply aeq_aeqm, Heq].
Qed.

Lemma RC_touchG c c' a t p p' b x0 w :
  RC c a -> lookup t (c_thr c) = Some p -> tbl_next (c_thr c) (c_thr c') t (Some p') ->
  c_once c = ORunning t -> inG x0 -> access_of b = Some (x0, w, false) ->
  c_mu c' = c_mu c -> c_L c' = c_L c -> c_once c' = c_once c -> c_nl c' = c_nl c -> c_next c' = c_next c ->
  c_ck c' = c_ck c ->
  pre_cc p = false -> past_fu p' = false -> wnode p' = None ->
  (1 <= once_stage p' -> x0 = PREVn 0 \/ 1 <= once_stage p) ->
  (2 <= once_stage p' -> x0 = NEXTn 0 \/ 2 <= once_stage p) ->
  accs_ok dsc_Cond a t [b] /\ RC c' (st_touch dsc_Cond a t (acts_locs [b])).
Proof.
  intros HR Hl Htb Hrun HG0 Hacc Emu EL Eon Enl Enx Eck Hpc Fp Fw Fs1 Fs2.
  pose proof HR as [Km KL Kn Ko Ku Kb Kl Ks Kt].
  assert (Hx0 : a_lst a x0 = LFresh \/ a_lst a x0 = LLocal t) by (rewrite Hrun in Ko; now apply Ko).
  assert (Hok : accs_ok dsc_Cond a t [b]).
  { constructor; [|constructor]. exists x0, w, false. split; [exact Hacc|]. unfold acc_ok.
    pose proof HG0 as Hv. unfold inG, via_of in Hv.
    destruct (dsc_Cond x0) as [[| | |v|l v]|]; try discriminate Hv; destruct Hx0 as [-> | ->]; auto. }
  split; [exact Hok|].
  pose proof (evolves_touch a t [b] Hok) as Hev.
  set (a' := st_touch dsc_Cond a t (acts_locs [b])) in *.
  assert (Hlst : forall y, a_lst a' y =
            match a_lst a y with
            | LFresh => if name_eqb y x0 then LLocal t else LFresh
            | s => s end).
  { intros y. cbn [a' a_lst st_touch acts_locs flat_map]. rewrite Hacc. cbn [app memn existsb].
    destruct (a_lst a y); try reflexivity. rewrite orb_false_r.
    destruct (name_eqb y x0) eqn:E.
    - apply name_eqb_eq in E. subst y. unfold inG in HG0. now rewrite HG0.
    - now destruct (via_of dsc_Cond y). }
  constructor; rewrite ?Emu, ?EL, ?Eon, ?Enl, ?Enx, ?Eck.
  - exact Km.
  - exact KL.
  - exact Kn.
  - rewrite Hrun in *. intros x Hx. rewrite Hlst. destruct (Ko x Hx) as [-> | ->]; [|now right].
    destruct (name_eqb x x0); [now right|now left].
  - intros n Hn. rewrite Hlst, (Ku n Hn), name_eqb_VAL_G by exact HG0. reflexivity.
  - intros n Hn H. rewrite Hlst in H. pose proof (Kb n Hn) as Hb.
    destruct (a_lst a (VALn (S n))); [now apply Hb|discriminate H|discriminate H].
  - intros n t' H. rewrite Hlst in H. destruct (a_lst a (VALn (S n))) eqn:E; try discriminate H.
    + rewrite name_eqb_VAL_G in H by exact HG0. discriminate H.
    + injection H as ->. now apply (Kl n).
  - intros t1 Hm n t0 H. rewrite Hlst in H. destruct (a_lst a (VALn (S n))) eqn:E; try discriminate H.
    + rewrite name_eqb_VAL_G in H by exact HG0. discriminate H.
    + injection H as ->. now apply (Ks t1 Hm n).
  - apply (k_thr_next c c' a a' t (Some p') HR Htb Hev).
    + rewrite Eck. tauto.
    + intros t' _. rewrite Eon. tauto.
    + left. intros x r _ H. rewrite Hlst in H. destruct (a_lst a x); try discriminate H; try exact H.
      destruct (name_eqb x x0); discriminate H.
    + intros q E. injection E as <-. destruct (Kt t p Hl) as (T1 & _ & _ & T4).
      repeat split.
      * intros H. rewrite Eck in H. rewrite (T1 H) in Hpc. discriminate.
      * congruence.
      * intros n Hw. congruence.
      * intros Hs. rewrite Hlst. destruct (Fs1 Hs) as [-> |Hs'].
        -- destruct Hx0 as [-> | ->]; [now rewrite name_eqb_refl|reflexivity].
        -- destruct (T4 Hrun) as [H1 _]. now rewrite (H1 Hs').
      * intros Hs. rewrite Hlst. destruct (Fs2 Hs) as [-> |Hs'].
        -- destruct Hx0 as [-> | ->]; [now rewrite name_eqb_refl|reflexivity].
        -- destruct (T4 Hrun) as [_ H2]. now rewrite (H2 Hs').
Qed.

(* ---------- E6: the end of the body of once.Do: the remaining fields are written, the Once is released ---------- *)
Definition ncret_accs : list action := [Write SENTn; Write SIZEn; Write POOLn; Write LISTn; Write NLn].

Lemma ok_G_runner a t x w :
  inG x -> (a_lst a x = LFresh \/ a_lst a x = LLocal t) -> acc_ok dsc_Cond a t x w false.
Proof.
  intros Hx H. unfold acc_ok. unfold inG, via_of in Hx.
  destruct (dsc_Cond x) as [[| | |v|l v]|]; try discriminate Hx; destruct H as [-> | ->]; auto.
Qed.

Lemma pub_after a t x locs :
  inG x -> (a_lst a x = LLocal t \/ (a_lst a x = LFresh /\ memn x locs = true)) ->
  a_lst (st_srel dsc_Cond (st_touch dsc_Cond a t locs) t ONCEn) x = LPub t.
Proof.
  intros Hx H. unfold inG in Hx. cbn [a_lst st_srel st_touch]. rewrite Hx.
  destruct H as [-> |[-> ->]]; now rewrite Nat.eqb_refl, name_eqb_refl.
Qed.

Lemma inG_NL : inG NLn. Proof. reflexivity. Qed.
Lemma inG_LIST : inG LISTn. Proof. reflexivity. Qed.
Lemma inG_SENT : inG SENTn. Proof. reflexivity. Qed.
Lemma inG_POOL : inG POOLn. Proof. reflexivity. Qed.
Lemma inG_SIZE : inG SIZEn. Proof. reflexivity. Qed.
Lemma inG_PREV0 : inG (PREVn 0). Proof. reflexivity. Qed.
Lemma inG_NEXT0 : inG (NEXTn 0). Proof. reflexivity. Qed.

Lemma evolves_srel a t o : evolves t a (st_srel dsc_Cond a t o).
Proof. eapply evolves_ext; [apply (evolves_aupd dsc_Cond t a (SRel o))|apply aeq_aeqm, srel_st]. Qed.

Lemma RC_ncret c c' a t p p' :
  RC c a -> lookup t (c_thr c) = Some p -> tbl_next (c_thr c) (c_thr c') t (Some p') ->
  c_once c = ORunning t -> once_stage p = 2 -> pre_cc p = false ->
  (forall t' q, lookup t' (c_thr c) = Some q -> past_fu q = true -> c_nl c = true) ->
  c_once c' = ODone -> c_nl c' = true -> c_mu c' = c_mu c -> c_L c' = c_L c -> c_next c' = c_next c ->
  c_ck c' = c_ck c -> wnode p' = None -> once_stage p' = 0 ->
  accs_ok dsc_Cond a t ncret_accs /\
  RC c' (st_srel dsc_Cond (st_touch dsc_Cond a t (acts_locs ncret_accs)) t ONCEn).
Proof.
  intros HR Hl Htb Hrun Hst Hpc Hpf Eon Enl Emu EL Enx Eck Fw Fs.
  pose proof HR as [Km KL Kn Ko Ku Kb Kl Ks Kt].
  assert (Hx : forall x, inG x -> a_lst a x = LFresh \/ a_lst a x = LLocal t) by (rewrite Hrun in Ko; exact Ko).
  destruct (Kt t p Hl) as (T1 & _ & _ & T4). destruct (T4 Hrun) as [P1 P2].
  assert (Hok : accs_ok dsc_Cond a t ncret_accs).
  { repeat constructor; eexists _, _, _; (split; [reflexivity|]); apply ok_G_runner;
      first [exact inG_SENT|exact inG_SIZE|exact inG_POOL|exact inG_LIST|exact inG_NL|apply Hx; reflexivity]. }
  split; [exact Hok|].
  set (locs := acts_locs ncret_accs).
  set (a' := st_srel dsc_Cond (st_touch dsc_Cond a t locs) t ONCEn).
  assert (Hev : evolves t a a').
  { eapply evolves_trans; [apply (evolves_touch a t ncret_accs Hok)|apply evolves_srel]. }
  assert (Hall : forall x, inG x -> a_lst a' x = LPub t).
  { intros x HxG. apply pub_after; [exact HxG|].
    apply inG_list in HxG. cbn [Glist In] in HxG.
    destruct HxG as [<-|[<-|[<-|[<-|[<-|[<-|[<-|[]]]]]]]].
    - destruct (Hx _ inG_NL) as [H|H]; [right; split; [exact H|reflexivity]|now left].
    - destruct (Hx _ inG_LIST) as [H|H]; [right; split; [exact H|reflexivity]|now left].
    - destruct (Hx _ inG_SENT) as [H|H]; [right; split; [exact H|reflexivity]|now left].
    - destruct (Hx _ inG_POOL) as [H|H]; [right; split; [exact H|reflexivity]|now left].
    - destruct (Hx _ inG_SIZE) as [H|H]; [right; split; [exact H|reflexivity]|now left].
    - left. apply P1. rewrite Hst. nlia.
    - left. apply P2. rewrite Hst. nlia. }
  assert (HV : forall n, a_lst a' (VALn (S n)) = a_lst a (VALn (S n))).
  { intros n. unfold a'. rewrite lst_srel_VAL. cbn [a_lst st_touch]. rewrite via_VALS.
    destruct (a_lst a (VALn (S n))); reflexivity. }
  constructor; rewrite ?Emu, ?EL, ?Eon, ?Enl, ?Enx, ?Eck.
  - exact Km.
  - exact KL.
  - reflexivity.
  - right. exists t. exact Hall.
  - intros n Hn. rewrite HV. now apply Ku.
  - intros n Hn. rewrite HV. now apply Kb.
  - intros n t'. rewrite HV. apply Kl.
  - intros t1 Hm n t0. rewrite HV. now apply Ks.
  - apply (k_thr_next c c' a a' t (Some p') HR Htb Hev).
    + rewrite Eck. tauto.
    + intros t' _ H. rewrite Eon in H. discriminate H.
    + right. intros t' q _ Hq. destruct (past_fu q) eqn:E; [|reflexivity].
      pose proof (Kn (Hpf t' q Hq E)) as H. rewrite Hrun in H. discriminate H.
    + intros q E. injection E as <-. repeat split.
      * intros H. rewrite Eck in H. rewrite (T1 H) in Hpc. discriminate.
      * intros _ x r HxG Hr. left. rewrite (Hall x HxG) in Hr. now injection Hr.
      * intros n Hw. congruence.
      * intros Hs. rewrite Fs in Hs. nlia.
      * intros Hs. rewrite Fs in Hs. nlia.
Qed.

(* ---------- E7: the pool misses: New allocates a node ---------- *)
Lemma RC_alnew c c' a t p p' :
  RC c a -> lookup t (c_thr c) = Some p -> tbl_next (c_thr c) (c_thr c') t (Some p') ->
  c_mu c = Some t -> c_next c' = S (c_next c) ->
  c_mu c' = c_mu c -> c_L c' = c_L c -> c_once c' = c_once c -> c_nl c' = c_nl c -> c_ck c' = c_ck c ->
  pre_cc p = false -> (past_fu p' = true -> past_fu p = true) -> wnode p' = Some (c_next c) -> once_stage p' = 0 ->
  accs_ok dsc_Cond a t [Write (VALn (S (c_next c)))] /\
  RC c' (st_touch dsc_Cond a t (acts_locs [Write (VALn (S (c_next c)))])).
Proof.
  intros HR Hl Htb Hmu Enx Emu EL Eon Enl Eck Hpc Fp Fw Fs.
  pose proof HR as [Km KL Kn Ko Ku Kb Kl Ks Kt].
  set (V := VALn (S (c_next c))).
  assert (HVf : a_lst a V = LFresh) by (apply Ku; nlia).
  assert (Hok : accs_ok dsc_Cond a t [Write V]).
  { constructor; [|constructor]. exists V, true, false. split; [reflexivity|]. unfold acc_ok.
    change (dsc_Cond V) with (Some (QPub (VLock MUc))). now rewrite HVf. }
  split; [exact Hok|].
  pose proof (evolves_touch a t [Write V] Hok) as Hev.
  set (a' := st_touch dsc_Cond a t (acts_locs [Write V])) in *.
  assert (Hlst : forall y, a_lst a' y =
            match a_lst a y with LFresh => if name_eqb y V then LLocal t else LFresh | s => s end).
  { intros y. cbn [a' a_lst st_touch acts_locs flat_map access_of app memn existsb].
    destruct (a_lst a y); try reflexivity. rewrite orb_false_r.
    destruct (name_eqb y V) eqn:E.
    - apply name_eqb_eq in E. subst y. unfold V. now rewrite via_VALS.
    - now destruct (via_of dsc_Cond y). }
  assert (HG : forall x, inG x -> a_lst a' x = a_lst a x).
  { intros x Hx. rewrite Hlst. destruct (a_lst a x); try reflexivity.
    destruct (name_eqb x V) eqn:E; [|reflexivity]. apply name_eqb_eq in E. subst x.
    exfalso. exact (inG_not_VAL _ Hx). }
  assert (HVn : forall n, n <> c_next c -> a_lst a' (VALn (S n)) = a_lst a (VALn (S n))).
  { intros n Hn. rewrite Hlst. destruct (a_lst a (VALn (S n))); try reflexivity.
    destruct (name_eqb (VALn (S n)) V) eqn:E; [|reflexivity]. apply name_eqb_eq in E.
    unfold V in E. injection E as E. now contradiction Hn. }
  assert (HVnew : a_lst a' V = LLocal t) by (rewrite Hlst, HVf, name_eqb_refl; reflexivity).
  constructor; rewrite ?Emu, ?EL, ?Eon, ?Enl, ?Enx, ?Eck.
  - exact Km.
  - exact KL.
  - exact Kn.
  - destruct (c_once c) as [|r|].
    + intros x Hx. rewrite HG by exact Hx. now apply Ko.
    + intros x Hx. rewrite HG by exact Hx. now apply Ko.
    + destruct Ko as [Ko|[r Ko]]; [now left|right]. exists r. intros x Hx. rewrite HG by exact Hx. now apply Ko.
  - intros n Hn. rewrite HVn by nlia. apply Ku. nlia.
  - intros n Hn. destruct (Nat.eq_dec n (c_next c)) as [->|Hne].
    + fold V. rewrite HVnew. discriminate.
    + rewrite HVn by exact Hne. apply Kb. nlia.
  - intros n t' H. destruct (Nat.eq_dec n (c_next c)) as [->|Hne].
    + fold V in H. rewrite HVnew in H. injection H as <-. exact Hmu.
    + rewrite HVn in H by exact Hne. now apply (Kl n).
  - intros t1 Hm n t0 H. destruct (Nat.eq_dec n (c_next c)) as [->|Hne].
    + fold V in H. rewrite HVnew in H. discriminate H.
    + rewrite HVn in H by exact Hne. cbn [a' a_seen st_touch]. now apply (Ks t1 Hm n).
  - apply (k_thr_next c c' a a' t (Some p') HR Htb Hev).
    + rewrite Eck. tauto.
    + intros t' _. rewrite Eon. tauto.
    + left. intros x r Hx H. now rewrite HG in H.
    + intros q E. injection E as <-. destruct (Kt t p Hl) as (T1 & T2 & _).
      repeat split.
      * intros H. rewrite Eck in H. rewrite (T1 H) in Hpc. discriminate.
      * intros Hp x r Hx Hr. rewrite HG in Hr by exact Hx. exact (T2 (Fp Hp) x r Hx Hr).
      * intros n Hw. rewrite Fw in Hw. injection Hw as <-. left. exact HVnew.
      * intros Hs. rewrite Fs in Hs. nlia.
      * intros Hs. rewrite Fs in Hs. nlia.
Qed.

(* ====================== facts from the proved invariant (CondProof / CondProof2) ====================== *)
Lemma full_mu c t p : Full c -> lookup t (c_thr c) = Some p -> holds_mu p = true -> c_mu c = Some t.
Proof.
  intros F Hl Hm. apply (proj1 (i_mu c (f_inv c F))). rewrite lookup_pm, Hl. cbn. now rewrite Hm.
Qed.
Lemma full_run c t p : Full c -> lookup t (c_thr c) = Some p -> runs_once p = true -> c_once c = ORunning t.
Proof.
  intros F Hl Hm. apply (proj1 (i_once c (f_inv c F))). rewrite lookup_pm, Hl. cbn. now rewrite Hm.
Qed.
Lemma full_pf c t p : Full c -> lookup t (c_thr c) = Some p -> past_fu p = true -> c_nl c = true.
Proof.
  intros F Hl Hm. apply (proj1 (proj2 (i_once c (f_inv c F))) t). rewrite lookup_pm, Hl. cbn. now rewrite Hm.
Qed.
Lemma full_front c t p f : Full c -> lookup t (c_thr c) = Some p -> frontof p = FSel f -> f < c_next c.
Proof.
  intros F Hl Hf. pose proof (i_front c (f_inv c F) t (FSel f)) as H.
  rewrite lookup_pm, Hl in H. cbn in H. rewrite Hf in H. specialize (H eq_refl). cbn in H.
  assert (Hin : In f (c_lst c)) by (destruct (c_lst c) as [|x r]; [discriminate H|injection H as ->; now left]).
  pose proof (f_nodes c F) as N.
  destruct (n_lst_own _ _ _ _ _ _ _ N f Hin) as (t' & ph & Ho & _).
  exact (o_own_lt _ _ _ (n_owns _ _ _ _ _ _ _ N) t' f ph Ho).
Qed.
Lemma full_pool c i n rest : Full c -> take_nth i (c_pool c) = Some (n, rest) -> n < c_next c.
Proof.
  intros F H. apply take_nth_spec in H as [Hin _].
  exact (o_pool_lt _ _ _ (n_owns _ _ _ _ _ _ _ (f_nodes c F)) n Hin).
Qed.

(* ====================== the accesses are admissible and leave the abstract state alone ====================== *)
Definition okc (a : ast) (t : Conc.tid) (x : name) (w ao : bool) : Prop :=
  acc_ok dsc_Cond a t x w ao /\ (via_of dsc_Cond x = None \/ a_lst a x <> LFresh).

Lemma ok_CK a t w : okc a t CKn w true.
Proof. split; [unfold acc_ok; now rewrite dsc_CK|now left]. Qed.
Lemma ok_CL a t : okc a t CLn false false.
Proof. split; [unfold acc_ok; now rewrite dsc_CL|now left]. Qed.

Lemma G_published c a t p :
  RC c a -> Full c -> lookup t (c_thr c) = Some p -> past_fu p = true ->
  exists r, forall x, inG x -> a_lst a x = LPub r /\ (r = t \/ a_seen a x t = true).
Proof.
  intros HR F Hl Hp. pose proof (k_nl _ _ HR (full_pf c t p F Hl Hp)) as Hd.
  pose proof (k_once _ _ HR) as Ko. rewrite Hd in Ko.
  destruct (k_thr _ _ HR t p Hl) as (T1 & T2 & _).
  destruct Ko as [Ko|[r Ko]].
  - rewrite (past_fu_not_pre_cc p Hp) in T1. specialize (T1 Ko). discriminate.
  - exists r. intros x Hx. split; [now apply Ko|]. exact (T2 Hp x r Hx (Ko x Hx)).
Qed.

(* a field published by the Once, read after one's own once.Do returned *)
Lemma ok_Gread c a t p x :
  RC c a -> Full c -> lookup t (c_thr c) = Some p -> past_fu p = true -> inG x ->
  (exists v, dsc_Cond x = Some (QPub v)) -> okc a t x false false.
Proof.
  intros HR F Hl Hp Hx [v Hd]. destruct (G_published c a t p HR F Hl Hp) as (r & Hr).
  destruct (Hr x Hx) as [H1 H2]. split; [|right; congruence].
  unfold acc_ok. rewrite Hd, H1. now split.
Qed.

(* chanList.size and the sentinel's links: under l.mu, after one's own once.Do returned *)
Lemma ok_Glocked c a t p x w :
  RC c a -> Full c -> lookup t (c_thr c) = Some p -> past_fu p = true -> holds_mu p = true -> inG x ->
  (exists v, dsc_Cond x = Some (QInit MUc v)) -> okc a t x w false.
Proof.
  intros HR F Hl Hp Hm Hx [v Hd]. destruct (G_published c a t p HR F Hl Hp) as (r & Hr).
  destruct (Hr x Hx) as [H1 H2]. split; [|right; congruence].
  unfold acc_ok. rewrite Hd, H1. split; [|exact H2].
  assert (H : a_lk a MUc t Excl = true).
  { rewrite (k_mu _ _ HR), (full_mu c t p F Hl Hm). cbn. now rewrite Nat.eqb_refl. }
  destruct w; cbn; [exact H|now right].
Qed.

Lemma holds_mu_past_fu p : holds_mu p = true -> past_fu p = true.
Proof. destruct p; cbn; congruence. Qed.

(* prev / next of any node (the sentinel = instance 0, wait node n = instance S n) under l.mu *)
Lemma ok_link c a t p f k w :
  RC c a -> Full c -> lookup t (c_thr c) = Some p -> holds_mu p = true ->
  (f = PREVf \/ f = NEXTf) -> okc a t (f, k) w false.
Proof.
  intros HR F Hl Hm Hf. destruct k as [|n].
  - apply (ok_Glocked c a t p _ w HR F Hl (holds_mu_past_fu _ Hm) Hm).
    + destruct Hf as [-> | ->]; reflexivity.
    + exists (VSync ONCEn). destruct Hf as [-> | ->]; reflexivity.
  - assert (Hd : dsc_Cond (f, S n) = Some (QLocked MUc)) by (destruct Hf as [-> | ->]; reflexivity).
    split; [|left; unfold via_of; now rewrite Hd]. unfold acc_ok. rewrite Hd.
    assert (H : a_lk a MUc t Excl = true).
    { rewrite (k_mu _ _ HR), (full_mu c t p F Hl Hm). cbn. now rewrite Nat.eqb_refl. }
    destruct w; cbn; [exact H|now right].
Qed.

(* the Value of one's own node *)
Lemma ok_VALown c a t p n :
  RC c a -> lookup t (c_thr c) = Some p -> wnode p = Some n -> okc a t (VALn (S n)) false false.
Proof.
  intros HR Hl Hw. destruct (k_thr _ _ HR t p Hl) as (_ & _ & T3 & _).
  unfold okc, acc_ok. rewrite dsc_VALS.
  destruct (T3 n Hw) as [H|(t0 & H1 & H2)].
  - rewrite H. split; [reflexivity|right; discriminate].
  - rewrite H1. split; [now split|right; discriminate].
Qed.

(* the Value of the node at the front of the list, read by the notifier under l.mu *)
Lemma ok_VALfront c a t p f :
  RC c a -> Full c -> lookup t (c_thr c) = Some p -> holds_mu p = true -> f < c_next c ->
  okc a t (VALn (S f)) false false.
Proof.
  intros HR F Hl Hm Hf. pose proof (full_mu c t p F Hl Hm) as Hmu.
  unfold okc, acc_ok. rewrite dsc_VALS. pose proof (k_born _ _ HR f Hf) as Hb.
  destruct (a_lst a (VALn (S f))) as [|t0|t0] eqn:E.
  - now contradiction Hb.
  - pose proof (k_local _ _ HR f t0 E) as H. rewrite Hmu in H. injection H as ->. split; [reflexivity|right; discriminate].
  - split; [|right; discriminate]. split; [reflexivity|]. exact (k_seenmu _ _ HR t Hmu f t0 E).
Qed.

Definition oksC (a : ast) (t : Conc.tid) (accs : list action) : Prop :=
  Forall (fun b => exists x w ao, access_of b = Some (x, w, ao) /\ okc a t x w ao) accs.

Lemma oksC_accs a t accs : oksC a t accs -> accs_ok dsc_Cond a t accs /\ settled dsc_Cond a accs.
Proof.
  intros H. split; eapply Forall_impl; try exact H; cbn beta.
  - intros b (x & w & ao & Hacc & Hok & _). now exists x, w, ao.
  - intros b (x & w & ao & Hacc & _ & Hs) x' w' ao' Hacc'. rewrite Hacc in Hacc'. injection Hacc' as <- _ _. exact Hs.
Qed.

(* ====================== thread tables ====================== *)
Definition res_pc (r : sres) : option cpc := match r with KGoto p | KPark p => Some p | KFinish _ => None end.

Lemma sameflags_refl p : sameflags p p. Proof. now left. Qed.

Lemma tbl_settle (thr : thrC) t p r :
  NoDup (tids thr) -> lookup t thr = Some p -> tbl_next thr (settle t r thr) t (res_pc r).
Proof.
  intros Hnd Hl. split.
  - destruct r; cbn [settle res_pc]; try exact (lookup_update_same _ _ _ _ _ Hl).
    now apply CondProof.lookup_remove_same.
  - intros t' Hne. destruct r; cbn [settle]; rewrite ?lookup_update_other, ?CondProof.lookup_remove_other by exact Hne;
      destruct (lookup t' thr); try exact I; apply sameflags_refl.
Qed.

Lemma tbl_wake (thr thr1 : thrC) t np u f :
  tbl_next thr thr1 t np -> u <> t -> lookup u thr = Some (WT_Parked f) ->
  tbl_next thr (update u (WT_CaseCh f) thr1) t np.
Proof.
  intros [H1 H2] Hne Hu. split.
  - rewrite lookup_update_other by (intros E; apply Hne; now symmetry). exact H1.
  - intros t' Hne'. destruct (Nat.eq_dec t' u) as [->|Hneu].
    + specialize (H2 u Hne). rewrite Hu in *. destruct (lookup u thr1) as [q|] eqn:E; [|destruct H2].
      rewrite (lookup_update_same _ _ _ _ _ E). right. exists f. split; [reflexivity|now left].
    + rewrite lookup_update_other by exact Hneu. now apply H2.
Qed.

Lemma tbl_spawn (thr : thrC) t p0 : lookup t thr = None -> tbl_next thr (spawn t p0 thr) t (Some p0).
Proof.
  intros Hl. split.
  - rewrite lookup_spawn, Hl, Nat.eqb_refl. reflexivity.
  - intros t' Hne. rewrite lookup_spawn. apply Nat.eqb_neq in Hne. rewrite Hne.
    destruct (lookup t' thr); [apply sameflags_refl|exact I].
Qed.

Lemma tbl_same (thr : thrC) t : tbl_next thr thr t (lookup t thr).
Proof.
  split; [reflexivity|]. intros t' _. destruct (lookup t' thr); [apply sameflags_refl|exact I].
Qed.

Lemma tbl_update (thr : thrC) t p p' : lookup t thr = Some p -> tbl_next thr (update t p' thr) t (Some p').
Proof.
  intros Hl. split; [exact (lookup_update_same _ _ _ _ _ Hl)|].
  intros t' Hne. rewrite lookup_update_other by exact Hne. destruct (lookup t' thr); [apply sameflags_refl|exact I].
Qed.

(* the table after one statement of thread t *)
Lemma tbl_step c t o p so :
  NoDup (tids (c_thr c)) -> lookup t (c_thr c) = Some p -> step_pc c t o p = Some so ->
  c_thr (so_cfg so) = c_thr c /\
  tbl_next (c_thr c) (wake (so_wake so) (settle t (so_res so) (c_thr c))) t (res_pc (so_res so)).
Proof.
  intros Hnd Hl Hs.
  assert (Hthr : c_thr (so_cfg so) = c_thr c) by (destruct p; inv_step Hs; reflexivity).
  split; [exact Hthr|].
  pose proof (tbl_settle (c_thr c) t p (so_res so) Hnd Hl) as Hset.
  destruct (so_wake so) as [[u pu]|] eqn:Ew; [|exact Hset].
  cbn [wake].
  destruct p; try (exfalso; inv_step Hs; discriminate Ew).
  unfold step_pc in Hs. destruct (mem_nat f (c_tok c)); [discriminate Hs|].
  destruct (find_parked f (c_thr c)) as [u'|] eqn:Ef.
  - pose proof (find_parked_lookup f (c_thr c) u' Hnd Ef) as Hu.
    assert (Hne : u' <> t) by (intros ->; rewrite Hl in Hu; discriminate Hu).
    destruct k; injection Hs as <-; cbn [so_wake so_res] in *; injection Ew as <- <-; now apply tbl_wake.
  - destruct k; injection Hs as <-; discriminate Ew.
Qed.

(* ====================== the shapes of a step ====================== *)
Lemma cs_same c' a t accs :
  oksC a t accs -> RC c' a ->
  all_ok dsc_Cond a (map (mkEv t) accs) /\ RC c' (aupds dsc_Cond a (map (mkEv t) accs)).
Proof.
  intros H HR. destruct (oksC_accs _ _ _ H) as [H1 H2].
  destruct (step_accs dsc_Cond a t accs H1 H2) as [Hok Heq]. split; [exact Hok|].
  eapply RC_ext; [apply aeqm_sym; exact Heq|exact HR].
Qed.
Lemma cs_rel c' a t accs l :
  oksC a t accs -> a_lk a l t Excl = true -> RC c' (st_rel dsc_Cond a t l Excl) ->
  all_ok dsc_Cond a (map (mkEv t) (accs ++ [Rel l Excl])) /\
  RC c' (aupds dsc_Cond a (map (mkEv t) (accs ++ [Rel l Excl]))).
Proof.
  intros H Hl HR. destruct (oksC_accs _ _ _ H) as [H1 H2].
  destruct (step_accs_rel dsc_Cond a t accs l Excl H1 H2 Hl) as [Hok Heq]. split; [exact Hok|].
  eapply RC_ext; [apply aeqm_sym; exact Heq|exact HR].
Qed.
Lemma cs_acq c' a t accs l :
  oksC a t accs -> lk_free a l Excl -> RC c' (st_acq dsc_Cond a t l Excl) ->
  all_ok dsc_Cond a (map (mkEv t) (accs ++ [Acq l Excl])) /\
  RC c' (aupds dsc_Cond a (map (mkEv t) (accs ++ [Acq l Excl]))).
Proof.
  intros H Hl HR. destruct (oksC_accs _ _ _ H) as [H1 H2].
  destruct (step_accs_acq dsc_Cond a t accs l Excl H1 H2 Hl) as [Hok Heq]. split; [exact Hok|].
  eapply RC_ext; [apply aeqm_sym; exact Heq|exact HR].
Qed.
Lemma cs_sacq c' a t o :
  RC c' (st_sacq dsc_Cond a t o) ->
  all_ok dsc_Cond a (map (mkEv t) [SAcq o]) /\ RC c' (aupds dsc_Cond a (map (mkEv t) [SAcq o])).
Proof.
  intros HR. destruct (step_accs_sacq dsc_Cond a t [] o) as [Hok Heq]; [constructor|constructor|].
  split; [exact Hok|]. eapply RC_ext; [apply aeqm_sym; exact Heq|exact HR].
Qed.
Lemma cs_touch c' a t accs :
  accs_ok dsc_Cond a t accs -> RC c' (st_touch dsc_Cond a t (acts_locs accs)) ->
  all_ok dsc_Cond a (map (mkEv t) accs) /\ RC c' (aupds dsc_Cond a (map (mkEv t) accs)).
Proof.
  intros H HR. destruct (step_touch dsc_Cond a t accs H) as [Hok Heq]. split; [exact Hok|].
  eapply RC_ext; [apply aeqm_sym, aeq_aeqm; exact Heq|exact HR].
Qed.
Lemma cs_ncret c' a t :
  accs_ok dsc_Cond a t ncret_accs ->
  RC c' (st_srel dsc_Cond (st_touch dsc_Cond a t (acts_locs ncret_accs)) t ONCEn) ->
  all_ok dsc_Cond a (map (mkEv t) (ncret_accs ++ [SRel ONCEn])) /\
  RC c' (aupds dsc_Cond a (map (mkEv t) (ncret_accs ++ [SRel ONCEn]))).
Proof.
  intros H HR. destruct (step_accs_then dsc_Cond a t ncret_accs (SRel ONCEn) H) as [Hok Heq]; [exact I|].
  split; [exact Hok|]. eapply RC_ext; [|exact HR]. apply aeqm_sym.
  eapply aeqm_trans; [apply aeq_aeqm; exact Heq|]. apply aeq_aeqm, srel_st.
Qed.

(* E0 with the abstract state unchanged *)
Lemma RC_step0 c c' a t p np :
  RC c a -> lookup t (c_thr c) = Some p -> tbl_next (c_thr c) (c_thr c') t np ->
  c_mu c' = c_mu c -> c_L c' = c_L c -> c_once c' = c_once c -> c_nl c' = c_nl c -> c_next c' = c_next c ->
  (c_ck c' = CkOther <-> c_ck c = CkOther) ->
  (forall p', np = Some p' ->
     (c_ck c' = CkOther -> pre_cc p' = true \/ pre_cc p = false) /\ (past_fu p' = true -> past_fu p = true) /\
     (forall n, wnode p' = Some n -> wnode p = Some n \/ (c_mu c = Some t /\ n < c_next c)) /\
     once_stage p' <= once_stage p) ->
  RC c' a.
Proof.
  intros HR Hl Htb Emu EL Eon Enl Enx Eck Fp.
  apply (RC_same c c' a a t np HR Htb); try assumption; try reflexivity.
  - intros t' m. rewrite EL. apply (k_L _ _ HR).
  - intros p' E. destruct (Fp p' E) as (F1 & F2 & F3 & F4).
    apply (TF_same_eq c c' a a t p p' HR Hl); try assumption; try reflexivity. apply Eck.
Qed.

(* ====================== the step lemma ====================== *)
Ltac okc_tac :=
  first [ apply ok_CK | apply ok_CL
        | eapply ok_Gread; [eassumption|eassumption|eassumption|reflexivity|reflexivity|eexists; reflexivity]
        | eapply ok_Glocked; [eassumption|eassumption|eassumption|reflexivity|reflexivity|reflexivity|eexists; reflexivity]
        | eapply ok_link; [eassumption|eassumption|eassumption|reflexivity|first [left; reflexivity|right; reflexivity]]
        | eapply ok_VALown; [eassumption|eassumption|reflexivity]
        | eapply ok_VALfront; [eassumption|eassumption|eassumption|reflexivity|eapply full_front; [eassumption|eassumption|reflexivity]] ].
Ltac oksC_tac := repeat (constructor; [eexists _, _, _; split; [reflexivity|okc_tac]|]); try constructor.

Ltac flags_tac :=
  intros ? ?EQ; first [discriminate EQ|
  injection EQ as <-;
  split; [intros ?HCK; first [left; reflexivity|right; reflexivity|exfalso; cbn in HCK; congruence]|];
  split; [first [intros _; reflexivity|discriminate]|];
  split; [|cbn; lia]].

Ltac wnode_tac :=
  let m := fresh "m" in let Hm := fresh "Hm" in
  intros m Hm; first [discriminate Hm|left; exact Hm
             |right; split; [eapply full_mu; [eassumption|eassumption|reflexivity]
                            |injection Hm as <-; eapply full_pool; eassumption]].

Ltac wnode_tac1 :=
  let m := fresh "m" in let Hm := fresh "Hm" in intros m Hm; first [discriminate Hm|exact Hm].
Ltac stage_tac :=
  first [ let H := fresh in intros H; cbn in H; lia | intros _; left; reflexivity | intros _; right; cbn; lia ].
Ltac Lsome_tac :=
  match goal with H : (?h =? _) = true |- _ => apply Nat.eqb_eq in H; subst h end; assumption.

Section Copied.
  Variable copied : bool.

  Definition reachCd (c : ccfg) : Prop := exists evs, cond_run copied evs = Some c.
  Definition R_Cond (x : ccfg * cgh) (a : ast) : Prop := reachCd (fst x) /\ RC (fst x) a.

  Lemma cond_Hstep2 x a e x' :
    R_Cond x a -> cond_pstep x e = Some x' ->
    all_ok dsc_Cond a (emit_Cond x e) /\ R_Cond x' (aupds dsc_Cond a (emit_Cond x e)).
  Proof.
    destruct x as [c g]. intros [[evs Hex] HR] Hs. unfold cond_pstep, pstep in Hs. cbn [fst snd] in *.
    destruct (cond_step c e) as [c'|] eqn:Hst; [|discriminate]. injection Hs as <-. cbn [fst snd].
    assert (Hreach : reachCd c').
    { exists (evs ++ [e]). unfold cond_run in *. rewrite exec_app, Hex. cbn. now rewrite Hst. }
    pose proof (full_reachable copied evs c Hex) as F.
    pose proof (i_nodup c (f_inv c F)) as Hnd.
    enough (Hgoal : all_ok dsc_Cond a (emit_Cond (c, g) e) /\ RC c' (aupds dsc_Cond a (emit_Cond (c, g) e))).
    { destruct Hgoal as [H1 H2]. exact (conj H1 (conj Hreach H2)). }
    clear Hreach. unfold cond_step in Hst.
    destruct (cond_exec1 c e) as [[c1 obs]|] eqn:E1; [|discriminate]. injection Hst as ->.
    destruct e as [t op|t o|t].
    - (* CALL *)
      unfold cond_exec1 in E1. destruct (lookup t (c_thr c)) eqn:Hl; [discriminate|].
      destruct op; [destruct (c_L c) eqn:HL; [discriminate|]| |
                   |destruct (c_L c) as [h|] eqn:HL; [destruct (Nat.eqb h t) eqn:Eh; [apply Nat.eqb_eq in Eh; subst h|discriminate]|discriminate]];
        injection E1 as <- _; cbn [emit_Cond fst snd].
      + (* the client locks c.L and calls Wait *)
        destruct (RC_acq_L c (set_canc (remove_node t (c_canc c)) (set_L (Some t) (set_thr (spawn t W_CheckCopy (c_thr c)) c)))
                    a t (Some W_CheckCopy) HR) as [Hf HR']; try reflexivity; try exact HL.
        { apply tbl_spawn. exact Hl. }
        { intros p' E. injection E as <-. repeat split. }
        apply (cs_acq _ a t [] CLn); [constructor|exact Hf|exact HR'].
      + split; [exact I|]. cbn [aupds fold_left map].
        apply (RC_same c _ a a t (Some S_CheckCopy) HR); try reflexivity.
        * apply tbl_spawn. exact Hl.
        * exact (k_L _ _ HR).
        * intros p' E. injection E as <-. now apply TF_entry.
      + split; [exact I|]. cbn [aupds fold_left map].
        apply (RC_same c _ a a t (Some B_CheckCopy) HR); try reflexivity.
        * apply tbl_spawn. exact Hl.
        * exact (k_L _ _ HR).
        * intros p' E. injection E as <-. now apply TF_entry.
      + (* the client unlocks c.L *)
        destruct (RC_rel_L c (set_L None c) a t None HR) as [Hk HR']; try reflexivity; try exact HL.
        { cbn. rewrite <- Hl. apply tbl_same. }
        { intros p' E. discriminate E. }
        apply (cs_rel _ a t [] CLn); [constructor|exact Hk|exact HR'].
    - (* STEP *)
      apply exec1_step_inv in E1. destruct E1 as (p & so & Hl & Hs & -> & _).
      destruct (tbl_step c t o p so Hnd Hl Hs) as [Hthr Htb].
      cbn [emit_Cond fst snd]. rewrite Hl, Hthr. clear Hthr.
      destruct p; dctx; cbn [acts_Cond]; inv_step Hs; cbn [res_pc] in Htb.
      all: try solve [
        match goal with
        | |- all_ok _ _ (map _ []) /\ _ => idtac
        | |- all_ok _ _ (map _ [Read _]) /\ _ => idtac
        | |- all_ok _ _ (map _ [Write _]) /\ _ => idtac
        | |- all_ok _ _ (map _ [Read _; _]) /\ _ => idtac
        | |- all_ok _ _ (map _ [Read _; _; _]) /\ _ => idtac
        | |- all_ok _ _ (map _ [ARead _]) /\ _ => idtac
        | |- all_ok _ _ (map _ [ARead _; _]) /\ _ => idtac
        | |- all_ok _ _ (map _ [ARead _; _; _]) /\ _ => idtac
        end;
        apply cs_same; [oksC_tac|];
        eapply (RC_step0 c _ a t _ _ HR Hl); [exact Htb|reflexivity|reflexivity|reflexivity|reflexivity|reflexivity
          |cbn; try match goal with H : c_ck _ = _ |- _ => rewrite H end; split; congruence
          |flags_tac; wnode_tac] ].
      all: try solve [
        match goal with
        (* c.L.Unlock() *)
        | |- all_ok _ _ (map _ [Read CLn; Rel CLn Excl]) /\ RC ?c' _ =>
            destruct (RC_rel_L c c' a t _ HR Htb) as [Hk HR'];
              [Lsome_tac|reflexivity|reflexivity|reflexivity|reflexivity|reflexivity|reflexivity
              |let q := fresh in let E := fresh in intros q E; injection E as <-; eexists; split; [exact Hl|];
               split; [intros _; right; reflexivity|]; split; [intros _; reflexivity|]; split; [wnode_tac1|cbn; lia]|];
            apply (cs_rel c' a t [Read CLn] CLn); [oksC_tac|exact Hk|exact HR']
        (* l.pool.Put(elem); the deferred c.L.Lock() *)
        | |- all_ok _ _ (map _ [Read POOLn; Acq CLn Excl]) /\ RC ?c' _ =>
            destruct (RC_acq_L c c' a t None HR Htb) as [Hf HR'];
              [assumption|reflexivity|reflexivity|reflexivity|reflexivity|reflexivity|reflexivity
              |let q := fresh in let E := fresh in intros q E; discriminate E|];
            apply (cs_acq c' a t [Read POOLn] CLn); [oksC_tac|exact Hf|exact HR']
        (* once.Do *)
        | |- all_ok _ _ (map _ [SAcq ONCEn]) /\ RC ?c' _ =>
            apply cs_sacq;
            first [ eapply (RC_once_done c c' a t _ _ HR Hl Htb); [assumption|reflexivity..]
                  | eapply (RC_once_enter c c' a t _ _ HR Hl Htb); [assumption|reflexivity..] ]
        (* the body of once.Do *)
        | |- all_ok _ _ (map _ [Read NLn; SRel ONCEn]) /\ _ =>
            exfalso;
            match goal with Hn : c_nl _ = true |- _ =>
              pose proof (k_nl _ _ HR Hn) as H1; rewrite (full_run c t _ F Hl eq_refl) in H1; discriminate H1 end
        | |- all_ok _ _ (map _ [?b]) /\ RC ?c' _ =>
            let xw := match b with
                      | Read NLn => constr:((NLn, false)) | Write (PREVn 0) => constr:((PREVn 0, true))
                      | Write (NEXTn 0) => constr:((NEXTn 0, true))
                      end in
            destruct (RC_touchG c c' a t _ _ b (fst xw) (snd xw) HR Hl Htb (full_run c t _ F Hl eq_refl)) as [Hok HR'];
              [reflexivity|reflexivity|reflexivity|reflexivity|reflexivity|reflexivity|reflexivity|reflexivity
              |reflexivity|reflexivity|reflexivity|stage_tac|stage_tac|];
            exact (cs_touch c' a t [b] Hok HR')
        | |- all_ok _ _ (map _ [Write SENTn; _; _; _; _; SRel ONCEn]) /\ RC ?c' _ =>
            destruct (RC_ncret c c' a t _ _ HR Hl Htb (full_run c t _ F Hl eq_refl)) as [Hok HR'];
              [reflexivity|reflexivity|intros t' q Hq Hp; exact (full_pf c t' q F Hq Hp)
              |reflexivity|reflexivity|reflexivity|reflexivity|reflexivity|reflexivity|reflexivity|reflexivity|];
            exact (cs_ncret c' a t Hok HR')
        (* New allocates a node *)
        | |- all_ok _ _ (map _ [Write (VALn _)]) /\ RC ?c' _ =>
            destruct (RC_alnew c c' a t _ _ HR Hl Htb (full_mu c t _ F Hl eq_refl)) as [Hok HR'];
              [reflexivity|reflexivity|reflexivity|reflexivity|reflexivity|reflexivity|reflexivity
              |intros _; reflexivity|reflexivity|reflexivity|];
            exact (cs_touch c' a t _ Hok HR')
        (* l.mu *)
        | |- all_ok _ _ (map _ [Acq MUc Excl]) /\ RC ?c' _ =>
            destruct (RC_acq_mu c c' a t _ _ HR Hl Htb) as [Hf HR'];
              [assumption|reflexivity|reflexivity|reflexivity|reflexivity|reflexivity|reflexivity
              |intros _; right; reflexivity|intros _; reflexivity|wnode_tac1|cbn; lia|];
            apply (cs_acq c' a t [] MUc); [constructor|exact Hf|exact HR']
        | |- all_ok _ _ (map _ [Rel MUc Excl]) /\ RC ?c' _ =>
            destruct (RC_rel_mu c c' a t _ _ HR Hl Htb (full_mu c t _ F Hl eq_refl)) as [Hk HR'];
              [reflexivity|reflexivity|reflexivity|reflexivity|reflexivity|reflexivity
              |flags_tac; wnode_tac1|];
            apply (cs_rel c' a t [] MUc); [constructor|exact Hk|exact HR']
        | |- all_ok _ _ (map _ [Read SIZEn; Rel MUc Excl]) /\ RC ?c' _ =>
            destruct (RC_rel_mu c c' a t _ _ HR Hl Htb (full_mu c t _ F Hl eq_refl)) as [Hk HR'];
              [reflexivity|reflexivity|reflexivity|reflexivity|reflexivity|reflexivity
              |flags_tac; wnode_tac1|];
            apply (cs_rel c' a t [Read SIZEn] MUc); [oksC_tac|exact Hk|exact HR']
        end ].
    - (* CANCEL *)
      apply exec1_cancel_inv in E1. destruct E1 as (p & Hl & Hw & _ & [(n & -> & ->)|[_ ->]]);
        cbn [emit_Cond aupds fold_left map all_ok]; (split; [exact I|]).
      + apply (RC_step0 c _ a t (WT_Parked n) (Some (WT_CaseCtx n)) HR Hl); try reflexivity.
        * cbn. apply (tbl_update _ _ _ _ Hl).
        * flags_tac. wnode_tac.
      + apply (RC_step0 c _ a t p (Some p) HR Hl); try reflexivity.
        * cbn. rewrite <- Hl. apply tbl_same.
        * intros p' E. injection E as <-. split; [intros _; destruct (pre_cc p); auto|]. split; [auto|]. split; [auto|lia].
  Qed.

  Lemma R_Cond_init : R_Cond (cond_init copied, g0_Cond) a0.
  Proof.
    split; [exists []; reflexivity|]. cbn [fst]. constructor; cbn.
    - intros t m. now rewrite andb_false_r.
    - intros t m. now rewrite andb_false_r.
    - destruct copied; [reflexivity|discriminate].
    - destruct copied; [now left|reflexivity].
    - reflexivity.
    - intros n H. nlia.
    - intros n t' H. discriminate H.
    - intros t H. discriminate H.
    - intros t p H. discriminate H.
  Qed.

  (* every access of the trace is an instance of a row of cond_table *)
  Lemma emit_instances_Cond x e : Forall (fun ev => instance_b cond_table (act ev) = true) (emit_Cond x e).
  Proof.
    destruct e as [t op|t o|t]; cbn [emit_Cond].
    - destruct op; repeat constructor.
    - destruct (lookup t (c_thr (fst x))) as [p|]; [|constructor].
      destruct p; dctx; cbn [acts_Cond map];
        repeat match goal with |- context [if ?b then _ else _] => destruct b end;
        repeat match goal with |- context [match ?b with _ => _ end] => destruct b end;
        repeat constructor.
    - constructor.
  Qed.

  Theorem cond_trace_drf_lemma evs c :
    cond_run copied evs = Some c ->
    wf (cond_trace copied evs) /\ instances_of cond_table (cond_trace copied evs) /\ ~ race (cond_trace copied evs).
  Proof.
    intros Hex. unfold cond_run in Hex.
    destruct (pstep_exec _ _ _ cond_step gstep_Cond evs _ g0_Cond _ Hex) as [g' Hex'].
    destruct (model_trace_drf dsc_Cond _ _ cond_pstep emit_Cond R_Cond cond_Hstep2 _ evs _ R_Cond_init Hex') as [Hwf Hno].
    split; [exact Hwf|]. split; [|exact Hno].
    apply instances_of_forall. apply trace_forall. exact emit_instances_Cond.
  Qed.
End Copied.

(* ====================== coverage of the footprint table ====================== *)
Definition erase_inst_C (b : action) : action :=
  match b with
  | Read x => Read (lname (fst x)) | Write x => Write (lname (fst x))
  | ARead x => ARead (lname (fst x)) | AWrite x => AWrite (lname (fst x)) | ARmw x => ARmw (lname (fst x))
  | _ => b
  end.
(* a representative configuration (the instance numbers are erased; first use: checker = nil) *)
Definition c0_Cond : ccfg := set_nl true (cond_init false).
Definition acts0_Cond (p : cpc) : list action := map erase_inst_C (acts_Cond c0_Cond g0_Cond 0 p).

(* what the statement at p contributes: its own step; the assignment `c.notifyList = newNotifyList()` and the
   composite literal of newNotifyList complete in the step of newChanList's return; a `defer` contributes the
   Unlock / Lock that the returns emit *)
Definition cover_acts_Cond (p : cpc) : list action :=
  acts0_Cond p ++
  match p with
  | FU_Assign k | NL_Ret k => acts0_Cond (NC_Ret k)
  | AD_Defer | WT_DeferUnlock _ | NO_Defer | NA_Defer => [Rel MUc Excl]
  | W_DeferLock _ => [Acq CLn Excl]
  | _ => []
  end.

(* the keys (entry function, statement) of the footprint rows that the statement at p stands for: the tool
   truncates long statement texts; the pool's New closure is written inside newChanList, which the tool inlines
   under all three entry functions *)
Definition NCRET_short : string :=
  "Cond.checkFirstUse>newNotifyList>newChanList: return &chanList{ sentinel: sentinel, size: 0, pool: &sync.Pool{ New: func() any { return &node{ Value: make(chan struct".
Definition keys_of_pc_Cond (p : cpc) : list (string * string) :=
  (func_of_pc_Cond p, rstmt_of_pc_Cond p) ::
  match p with
  | NC_Ret k => [(func_of_pc_Cond p, NCRET_short)]
  | AL_New => [("Signal", rstmt_of_pc_Cond p); ("Broadcast", rstmt_of_pc_Cond p)]
  | _ => []
  end.

Lemma acts_cover_table_Cond :
  forallb (fun p => forallb (fun k => forallb (fun b => action_inb b (cover_acts_Cond p))
                                              (stmt_actions cond_table (fst k) (snd k)))
                            (keys_of_pc_Cond p)) all_pcs_Cond = true.
Proof. vm_compute. reflexivity. Qed.

(* every row of the table that stands for a memory access or a lock operation is the statement of some pc *)
Definition keys2_Cond : list (string * string) := flat_map keys_of_pc_Cond all_pcs_Cond.
Lemma all_rows_matched_Cond :
  filter (fun r => match actions_of_row r with [] => false | _ => true end &&
                   negb (existsb (fun k => C15Bridge.row_is (fst k) (snd k) r) keys2_Cond)) cond_table = [].
Proof. vm_compute. reflexivity. Qed.

(* ====================== non-vacuity: a concrete two-thread run ====================== *)
(* thread 1: first Wait on a fresh Cond, up to the end of notifyList.add (it ran the body of once.Do and
   `l.size++` under l.mu); then thread 2: Signal, up to `return l.size` under l.mu *)
Definition cond_example_evs : list cev :=
  [ECall 1 OpWait] ++ repeat (EStep 1 0) 25 ++ [ECall 2 OpSignal] ++ repeat (EStep 2 0) 9.

Lemma cond_example_trace_eq :
  cond_trace false cond_example_evs =
  [ mkEv 1 (Acq CLn Excl); mkEv 1 (ARead CKn); mkEv 1 (ARmw CKn); mkEv 1 (SAcq ONCEn); mkEv 1 (Read NLn);
    mkEv 1 (Write (PREVn 0)); mkEv 1 (Write (NEXTn 0)); mkEv 1 (Write SENTn); mkEv 1 (Write SIZEn);
    mkEv 1 (Write POOLn); mkEv 1 (Write LISTn); mkEv 1 (Write NLn); mkEv 1 (SRel ONCEn); mkEv 1 (Read NLn);
    mkEv 1 (Acq MUc Excl); mkEv 1 (Read LISTn); mkEv 1 (Read POOLn); mkEv 1 (Write (VALn 1)); mkEv 1 (Read LISTn);
    mkEv 1 (Read SENTn); mkEv 1 (Write (NEXTn 1)); mkEv 1 (Read SENTn); mkEv 1 (Read (PREVn 0));
    mkEv 1 (Write (PREVn 1)); mkEv 1 (Read SENTn); mkEv 1 (Read (PREVn 0)); mkEv 1 (Write (NEXTn 0));
    mkEv 1 (Read SENTn); mkEv 1 (Write (PREVn 0)); mkEv 1 (Read SIZEn); mkEv 1 (Write SIZEn); mkEv 1 (Rel MUc Excl);
    mkEv 2 (ARead CKn); mkEv 2 (SAcq ONCEn); mkEv 2 (Read NLn); mkEv 2 (Acq MUc Excl); mkEv 2 (Read LISTn);
    mkEv 2 (Read SIZEn) ].
Proof. vm_compute. reflexivity. Qed.

(* `l.size++` of thread 1 (index 30) happens-before `return l.size` of thread 2 (37): Unlock (31) -> Lock (35);
   the assignment of c.notifyList (11) happens-before thread 2's read of it (34): end of once.Do's body (12) ->
   return of thread 2's once.Do (33) *)
Lemma cond_example_lemma :
  let tr := cond_trace false cond_example_evs in
  (exists c, cond_run false cond_example_evs = Some c) /\
  ev_at tr 30 (mkEv 1 (Write SIZEn)) /\ ev_at tr 37 (mkEv 2 (Read SIZEn)) /\ hb tr 30 37 /\
  ev_at tr 11 (mkEv 1 (Write NLn)) /\ ev_at tr 34 (mkEv 2 (Read NLn)) /\ hb tr 11 34 /\
  wf tr /\ ~ race tr.
Proof.
  cbn zeta.
  assert (Hex : exists c, cond_run false cond_example_evs = Some c) by (eexists; vm_compute; reflexivity).
  split; [exact Hex|]. destruct Hex as (c & Hex).
  destruct (cond_trace_drf_lemma false _ _ Hex) as (Hwf & _ & Hno).
  assert (Hpo : forall i j a b, i < j -> ev_at (cond_trace false cond_example_evs) i a ->
                  ev_at (cond_trace false cond_example_evs) j b -> HB.tid a = HB.tid b ->
                  hb (cond_trace false cond_example_evs) i j).
  { intros i j a b Hlt Ha Hb Ht. apply hb_po. eapply po_intro; eassumption. }
  assert (Hsw : forall i j a b, i < j -> ev_at (cond_trace false cond_example_evs) i a ->
                  ev_at (cond_trace false cond_example_evs) j b -> syncs a b ->
                  hb (cond_trace false cond_example_evs) i j).
  { intros i j a b Hlt Ha Hb Hs. apply hb_sw. split; [exact Hlt|]. exists a, b. repeat split; assumption. }
  rewrite cond_example_trace_eq in *.
  split; [reflexivity|]. split; [reflexivity|]. split.
  { apply hb_trans with 31; [eapply Hpo; [|reflexivity|reflexivity|reflexivity]; apply Nat.ltb_lt; reflexivity|].
    apply hb_trans with 35; [eapply Hsw; [|reflexivity|reflexivity|]; [apply Nat.ltb_lt; reflexivity|split; [reflexivity|now left]]|].
    eapply Hpo; [|reflexivity|reflexivity|reflexivity]; apply Nat.ltb_lt; reflexivity. }
  split; [reflexivity|]. split; [reflexivity|]. split.
  { apply hb_trans with 12; [eapply Hpo; [|reflexivity|reflexivity|reflexivity]; apply Nat.ltb_lt; reflexivity|].
    apply hb_trans with 33; [eapply Hsw; [|reflexivity|reflexivity|]; [apply Nat.ltb_lt; reflexivity|reflexivity]|].
    eapply Hpo; [|reflexivity|reflexivity|reflexivity]; apply Nat.ltb_lt; reflexivity. }
  split; assumption.
Qed.
