(* Proofs about CondModel (property C13): invariants of every reachable configuration of the
   statement-granular model of syncx/cond.go, for every schedule (event list), any number of
   threads, calls, cancellations and any pool oracle.
   Organisation: every clause of the invariant is stated over a PROJECTION of the thread table
   ([pm f thr], f a classification of program counters from CondModel.v); a step that does not
   change the projection of the stepping thread leaves the clause's table unchanged
   ([pm_update_same]), so only the statements that matter for a clause need an argument. *)
From Ekit Require Import Common Conc CondModel.
From Coq Require Import ZifyBool Arith PeanoNat.

(* ---------- generic facts about thread tables ---------- *)
Section Tables.
  Context {A : Type}.
  Implicit Types (l : list (tid * A)).

  Lemma update_id t x l : lookup t l = Some x -> update t x l = l.
  Proof.
    induction l as [|[t' p'] r IH]; cbn; [reflexivity|].
    destruct (Nat.eqb t t') eqn:E.
    - intros H; injection H as ->. apply Nat.eqb_eq in E. subst. reflexivity.
    - intros H. rewrite (IH H). reflexivity.
  Qed.

  Lemma lookup_remove_other t t2 l : t2 <> t -> lookup t2 (remove t l) = lookup t2 l.
  Proof.
    intros Hne. induction l as [|[t' p'] r IH]; cbn [remove lookup]; [reflexivity|].
    destruct (Nat.eqb t t') eqn:E; cbn [lookup].
    - apply Nat.eqb_eq in E. subst t'.
      destruct (Nat.eqb t2 t) eqn:E2; [apply Nat.eqb_eq in E2; congruence|reflexivity].
    - rewrite IH. reflexivity.
  Qed.

  Lemma lookup_in_tids t l x : lookup t l = Some x -> In t (tids l).
  Proof.
    intros H. destruct (in_dec Nat.eq_dec t (tids l)) as [Hi|Hn]; [exact Hi|].
    apply lookup_none_not_in in Hn. congruence.
  Qed.

  Lemma lookup_remove_same t l : NoDup (tids l) -> lookup t (remove t l) = None.
  Proof.
    induction l as [|[t' p'] r IH]; cbn [remove lookup tids map fst]; [reflexivity|].
    intros Hnd. inversion Hnd as [|x xs Hx Hxs]; subst.
    destruct (Nat.eqb t t') eqn:E.
    - apply Nat.eqb_eq in E. subst t'. apply lookup_none_not_in. exact Hx.
    - cbn [lookup]. rewrite E. apply IH, Hxs.
  Qed.

  Lemma lookup_spawn t t2 a l :
    lookup t2 (spawn t a l) =
    match lookup t2 l with Some x => Some x | None => if Nat.eqb t2 t then Some a else None end.
  Proof.
    unfold spawn. induction l as [|[t' p'] r IH]; cbn [app lookup]; [reflexivity|].
    destruct (Nat.eqb t2 t'); [reflexivity|exact IH].
  Qed.

  Lemma lookup_in t l x : lookup t l = Some x -> In (t, x) l.
  Proof.
    induction l as [|[t' p'] r IH]; cbn; [discriminate|].
    destruct (Nat.eqb t t') eqn:E.
    - intros H; injection H as ->. apply Nat.eqb_eq in E. subst. left; reflexivity.
    - intros H. right. apply IH, H.
  Qed.

  Lemma in_lookup t l x : NoDup (tids l) -> In (t, x) l -> lookup t l = Some x.
  Proof.
    induction l as [|[t' p'] r IH]; cbn [tids map fst In lookup]; [tauto|].
    intros Hnd. inversion Hnd as [|y ys Hy Hys]; subst. intros [H|H].
    - injection H as -> ->. rewrite Nat.eqb_refl. reflexivity.
    - destruct (Nat.eqb t t') eqn:E.
      + apply Nat.eqb_eq in E. subst t'. exfalso. apply Hy.
        change (In t (tids r)). apply (in_map fst) in H. exact H.
      + apply IH; assumption.
  Qed.

  Lemma tids_remove_nodup t l : NoDup (tids l) -> NoDup (tids (remove t l)).
  Proof. apply nodup_remove. Qed.
End Tables.

Section PM.
  Context {A B : Type} (f : A -> B).
  Definition pm (l : list (tid * A)) : list (tid * B) := map (fun tp => (fst tp, f (snd tp))) l.

  Lemma lookup_pm t l : lookup t (pm l) = option_map f (lookup t l).
  Proof.
    unfold pm. induction l as [|[t' p'] r IH]; cbn; [reflexivity|].
    destruct (Nat.eqb t t'); [reflexivity|exact IH].
  Qed.

  Lemma pm_update t p l : pm (update t p l) = update t (f p) (pm l).
  Proof.
    unfold pm. induction l as [|[t' p'] r IH]; cbn; [reflexivity|].
    destruct (Nat.eqb t t'); cbn; [reflexivity|rewrite IH; reflexivity].
  Qed.

  Lemma pm_remove t l : pm (remove t l) = remove t (pm l).
  Proof.
    unfold pm. induction l as [|[t' p'] r IH]; cbn; [reflexivity|].
    destruct (Nat.eqb t t'); cbn; [reflexivity|rewrite IH; reflexivity].
  Qed.

  Lemma pm_spawn t p l : pm (spawn t p l) = spawn t (f p) (pm l).
  Proof. unfold spawn, pm. rewrite map_app. reflexivity. Qed.

  Lemma tids_pm l : tids (pm l) = tids l.
  Proof. unfold tids, pm. rewrite map_map. reflexivity. Qed.

  Lemma pm_update_same t p p' l : lookup t l = Some p -> f p' = f p -> pm (update t p' l) = pm l.
  Proof.
    intros Hl Hf. rewrite pm_update. apply update_id. rewrite lookup_pm, Hl. cbn. rewrite Hf. reflexivity.
  Qed.

  Lemma lookup_pm_some t l p : lookup t l = Some p -> lookup t (pm l) = Some (f p).
  Proof. intros H. rewrite lookup_pm, H. reflexivity. Qed.

  Lemma lookup_pm_inv t l y : lookup t (pm l) = Some y -> exists p, lookup t l = Some p /\ f p = y.
  Proof.
    rewrite lookup_pm. destruct (lookup t l) as [p|]; cbn; [|discriminate].
    intros H; injection H as <-. eauto.
  Qed.
End PM.

(* sums over Z-valued tables *)
Fixpoint sumZ (l : list (tid * Z)) : Z :=
  match l with [] => 0 | (_, z) :: r => z + sumZ r end.

Lemma sumZ_update t z z0 l : lookup t l = Some z0 -> sumZ (update t z l) = sumZ l - z0 + z.
Proof.
  induction l as [|[t' p'] r IH]; cbn; [discriminate|].
  destruct (Nat.eqb t t') eqn:E.
  - intros H; injection H as ->. cbn. lia.
  - intros H. cbn. rewrite (IH H). lia.
Qed.

Lemma sumZ_remove t z0 l : lookup t l = Some z0 -> sumZ (remove t l) = sumZ l - z0.
Proof.
  induction l as [|[t' p'] r IH]; cbn; [discriminate|].
  destruct (Nat.eqb t t') eqn:E.
  - intros H; injection H as ->. lia.
  - intros H. cbn. rewrite (IH H). lia.
Qed.

Lemma sumZ_spawn t z l : sumZ (spawn t z l) = sumZ l + z.
Proof. unfold spawn. induction l as [|[t' p'] r IH]; cbn; [lia|rewrite IH; lia]. Qed.

(* ---------- lists of nodes ---------- *)
Lemma mem_nat_in n l : mem_nat n l = true <-> In n l.
Proof.
  unfold mem_nat. rewrite existsb_exists. split.
  - intros [x [Hx He]]. apply Nat.eqb_eq in He. subst. exact Hx.
  - intros H. exists n. split; [exact H|apply Nat.eqb_refl].
Qed.

Lemma mem_nat_notin n l : mem_nat n l = false <-> ~ In n l.
Proof. rewrite <- mem_nat_in. destruct (mem_nat n l); split; congruence. Qed.

Lemma in_remove_node n x l : In x (remove_node n l) -> In x l.
Proof.
  induction l as [|y r IH]; cbn; [tauto|].
  destruct (Nat.eqb n y); cbn; tauto.
Qed.

Lemma in_remove_node_other n x l : x <> n -> In x l -> In x (remove_node n l).
Proof.
  intros Hne. induction l as [|y r IH]; cbn; [tauto|].
  destruct (Nat.eqb n y) eqn:E.
  - apply Nat.eqb_eq in E. subst y. intros [H|H]; [congruence|exact H].
  - cbn. intros [H|H]; [left; exact H|right; apply IH, H].
Qed.

Lemma nodup_remove_node n l : NoDup l -> NoDup (remove_node n l).
Proof.
  induction l as [|y r IH]; cbn; [auto|].
  intros H. inversion H as [|z zs Hz Hzs]; subst.
  destruct (Nat.eqb n y); [exact Hzs|].
  constructor; [|apply IH, Hzs]. intros Hi. apply Hz. eapply in_remove_node, Hi.
Qed.

Lemma notin_remove_node n l : NoDup l -> ~ In n (remove_node n l).
Proof.
  induction l as [|y r IH]; cbn; [tauto|].
  intros H. inversion H as [|z zs Hz Hzs]; subst.
  destruct (Nat.eqb n y) eqn:E.
  - apply Nat.eqb_eq in E. subst y. exact Hz.
  - apply Nat.eqb_neq in E. cbn. intros [Hx|Hx]; [congruence|]. exact (IH Hzs Hx).
Qed.

Lemma length_remove_node n l : In n l -> S (length (remove_node n l)) = length l.
Proof.
  induction l as [|y r IH]; cbn; [tauto|].
  destruct (Nat.eqb n y) eqn:E; [reflexivity|].
  apply Nat.eqb_neq in E. intros [H|H]; [congruence|]. cbn. rewrite (IH H). reflexivity.
Qed.

Lemma take_nth_spec i l n r :
  take_nth i l = Some (n, r) ->
  In n l /\ (forall x, In x r -> In x l) /\ (NoDup l -> NoDup r /\ ~ In n r).
Proof.
  revert l n r. induction i as [|j IH]; intros [|x l] n r; cbn; try discriminate.
  - intros H; injection H as <- <-. split; [left; reflexivity|]. split; [intros y Hy; right; exact Hy|].
    intros Hnd. inversion Hnd; subst. split; assumption.
  - destruct (take_nth j l) as [[y r']|] eqn:E; [|discriminate].
    intros H; injection H as <- <-. destruct (IH _ _ _ E) as [Hin [Hsub Hnd]].
    split; [right; exact Hin|]. split.
    + intros z [Hz|Hz]; [left; exact Hz|right; apply Hsub, Hz].
    + intros Hn. inversion Hn as [|z zs Hz Hzs]; subst. destruct (Hnd Hzs) as [Hr Hy].
      split.
      * constructor; [|exact Hr]. intros Hi. apply Hz, Hsub, Hi.
      * intros [Hx|Hx]; [subst; apply Hz, Hin|exact (Hy Hx)].
Qed.

(* ---------- the step function, case by case ---------- *)
Ltac scfg :=
  cbn [c_L c_mu c_once c_nl c_ck c_lst c_size c_tok c_pool c_next c_thr c_canc
       g_sig g_bcast g_nil g_err g_drop g_notified g_bsnap g_bsent
       set_L set_mu set_once set_nl set_ck set_lst set_size set_tok set_pool set_next set_thr set_canc
       set_sig set_bcast set_nil set_err set_drop set_notified set_bsnap set_bsent
       so_cfg so_res so_wake go fin settle wake obs_of obs_wake lock_mu] in *.

(* destructs every discriminee of the step of program counter p in hypothesis H : step_pc .. = Some so *)
Ltac split_step H :=
  repeat match type of H with
         | context [match ?x with _ => _ end] =>
           lazymatch x with
           | context [match _ with _ => _ end] => fail
           | _ => destruct x eqn:?; try discriminate H
           end
         end.

Ltac inv_step H :=
  unfold step_pc, go, fin, lock_mu in H; split_step H;
  try discriminate H; injection H as <-; scfg.

Lemma find_parked_lookup n l u : NoDup (tids l) -> find_parked n l = Some u -> lookup u l = Some (WT_Parked n).
Proof.
  intros Hnd H. apply in_lookup; [exact Hnd|].
  clear Hnd. induction l as [|[t p] r IH]; cbn in H; [discriminate|].
  destruct p; try (right; apply IH, H).
  destruct (Nat.eqb n n0) eqn:E; [|right; apply IH, H].
  apply Nat.eqb_eq in E. subst. injection H as ->. left; reflexivity.
Qed.


Lemma exec1_step_inv c t o c' obs :
  cond_exec1 c (EStep t o) = Some (c', obs) ->
  exists p so, lookup t (c_thr c) = Some p /\ step_pc c t o p = Some so /\
    c' = set_thr (wake (so_wake so) (settle t (so_res so) (c_thr (so_cfg so)))) (so_cfg so) /\
    obs = obs_of t (so_res so) ++ obs_wake (so_wake so).
Proof.
  unfold cond_exec1. destruct (lookup t (c_thr c)) as [p|] eqn:Hl; [|discriminate].
  destruct (step_pc c t o p) as [so|] eqn:Hs; [|discriminate].
  intros H; injection H as <- <-. exists p, so. repeat split; assumption.
Qed.

Lemma exec1_cancel_inv c t c' obs :
  cond_exec1 c (ECancel t) = Some (c', obs) ->
  exists p, lookup t (c_thr c) = Some p /\ in_wait p = true /\ ~ In t (c_canc c) /\
    ((exists n, p = WT_Parked n /\ c' = set_thr (update t (WT_CaseCtx n) (c_thr c)) (set_canc (t :: c_canc c) c))
     \/ (is_parked p = false /\ c' = set_canc (t :: c_canc c) c)).
Proof.
  unfold cond_exec1. destruct (lookup t (c_thr c)) as [p|] eqn:Hl; [|discriminate].
  destruct (in_wait p) eqn:Hw; [|discriminate]. cbn [andb].
  destruct (mem_nat t (c_canc c)) eqn:Hm; [discriminate|]. cbn [negb].
  apply mem_nat_notin in Hm. intros H. exists p. split; [reflexivity|]. split; [exact Hw|]. split; [exact Hm|].
  clear Hw. destruct p; injection H as <- _; try (right; split; reflexivity).
  left. eexists; split; reflexivity.
Qed.

Inductive call_shape (c : ccfg) (t : tid) : ccfg -> Prop :=
| CS_wait : c_L c = None ->
    call_shape c t (set_canc (remove_node t (c_canc c)) (set_L (Some t) (set_thr (spawn t W_CheckCopy (c_thr c)) c)))
| CS_signal : call_shape c t (set_thr (spawn t S_CheckCopy (c_thr c)) c)
| CS_broadcast : call_shape c t (set_thr (spawn t B_CheckCopy (c_thr c)) c)
| CS_unlock : c_L c = Some t -> call_shape c t (set_L None c).

Lemma exec1_call_inv c t op c' obs :
  cond_exec1 c (ECall t op) = Some (c', obs) -> lookup t (c_thr c) = None /\ call_shape c t c'.
Proof.
  unfold cond_exec1. destruct (lookup t (c_thr c)) eqn:Hl; [discriminate|]. intros H. split; [reflexivity|].
  destruct op.
  - destruct (c_L c) eqn:HL; [discriminate|]. injection H as <- _. apply CS_wait, HL.
  - injection H as <- _. constructor.
  - injection H as <- _. constructor.
  - destruct (c_L c) as [h|] eqn:HL; [|discriminate]. destruct (Nat.eqb h t) eqn:E; [|discriminate].
    apply Nat.eqb_eq in E. subst h. injection H as <- _. apply CS_unlock, HL.
Qed.

Ltac dctx :=
  repeat match goal with
         | k : caller |- _ => destruct k
         | k : nnctx |- _ => destruct k
         | k : rmctx |- _ => destruct k
         | k : lenctx |- _ => destruct k
         end.

(* case split of a lookup in an updated / shrunk table *)
Ltac lk_update H t2 t Hold :=
  destruct (Nat.eq_dec t2 t) as [->|?];
  [ rewrite (lookup_update_same _ _ _ _ _ Hold) in H
  | rewrite lookup_update_other in H by assumption ].

Lemma pm_wake_same {B} (f : cpc -> B) t p p' u n thr :
  NoDup (tids thr) -> find_parked n thr = Some u -> lookup t thr = Some p -> is_parked p = false ->
  f (WT_CaseCh n) = f (WT_Parked n) ->
  pm f (update u (WT_CaseCh n) (update t p' thr)) = pm f (update t p' thr).
Proof.
  intros Hnd Hf Hl Hp Hfe. pose proof (find_parked_lookup _ _ _ Hnd Hf) as Hu.
  assert (Hne : u <> t) by (intros ->; rewrite Hl in Hu; injection Hu as ->; discriminate).
  apply (pm_update_same f u (WT_Parked n)); [|exact Hfe].
  rewrite lookup_update_other by exact Hne. exact Hu.
Qed.

Lemma pm_wake_same_rm {B} (f : cpc -> B) t p u n thr :
  NoDup (tids thr) -> find_parked n thr = Some u -> lookup t thr = Some p -> is_parked p = false ->
  f (WT_CaseCh n) = f (WT_Parked n) ->
  pm f (update u (WT_CaseCh n) (remove t thr)) = pm f (remove t thr).
Proof.
  intros Hnd Hf Hl Hp Hfe. pose proof (find_parked_lookup _ _ _ Hnd Hf) as Hu.
  assert (Hne : u <> t) by (intros ->; rewrite Hl in Hu; injection Hu as ->; discriminate).
  apply (pm_update_same f u (WT_Parked n)); [|exact Hfe].
  rewrite lookup_remove_other by exact Hne. exact Hu.
Qed.

Ltac wake_same F Hl Hnd :=
  match goal with
  | Hf : find_parked ?n ?thr = Some ?u |- _ =>
    first [ rewrite (pm_wake_same F _ _ _ _ _ _ Hnd Hf Hl eq_refl eq_refl)
          | rewrite (pm_wake_same_rm F _ _ _ _ _ Hnd Hf Hl eq_refl eq_refl) ]
  end.

(* ---------- the invariant, clause by clause ---------- *)
Definition C_nodup (c : ccfg) : Prop := NoDup (tids (c_thr c)).

Definition C_mu (c : ccfg) : Prop :=
  (forall t, lookup t (pm holds_mu (c_thr c)) = Some true -> c_mu c = Some t) /\
  (forall t, c_mu c = Some t -> lookup t (pm holds_mu (c_thr c)) = Some true).

Lemma nodup_pres c e c' obs : C_nodup c -> cond_exec1 c e = Some (c', obs) -> C_nodup c'.
Proof.
  unfold C_nodup. intros Hn H. destruct e as [t op|t o|t].
  - cbn in H. destruct (lookup t (c_thr c)) eqn:Hl; [discriminate|].
    destruct op; [destruct (c_L c); [discriminate|]| | |destruct (c_L c) as [h|]; [destruct (Nat.eqb h t)|]; try discriminate];
      injection H as <- <-; scfg; try exact Hn; apply nodup_spawn; assumption.
  - apply exec1_step_inv in H. destruct H as (p & so & Hl & Hs & -> & _).
    assert (Hthr : c_thr (so_cfg so) = c_thr c) by (destruct p; inv_step Hs; reflexivity).
    scfg. rewrite Hthr.
    assert (H1 : NoDup (tids (settle t (so_res so) (c_thr c)))).
    { unfold settle. destruct (so_res so); [rewrite tids_update; exact Hn|rewrite tids_update; exact Hn|apply nodup_remove, Hn]. }
    unfold wake. destruct (so_wake so) as [[u pu]|]; [rewrite tids_update|]; exact H1.
  - cbn in H. destruct (lookup t (c_thr c)) eqn:Hl; [|discriminate].
    destruct (in_wait c0 && negb (mem_nat t (c_canc c))); [|discriminate].
    destruct c0; injection H as <- <-; scfg; try exact Hn. rewrite tids_update. exact Hn.
Qed.

Definition C_L (c : ccfg) : Prop :=
  forall t, lookup t (pm holds_L (c_thr c)) = Some true -> c_L c = Some t.

Definition C_size (c : ccfg) : Prop :=
  c_size c + sumZ (pm delta (c_thr c)) = Z.of_nat (length (c_lst c)).

Definition C_ctx (c : ccfg) : Prop :=
  forall t, lookup t (pm in_ctx (c_thr c)) = Some true -> In t (c_canc c).

Definition C_once (c : ccfg) : Prop :=
  (forall t, lookup t (pm runs_once (c_thr c)) = Some true -> c_once c = ORunning t) /\
  (forall t, lookup t (pm past_fu (c_thr c)) = Some true -> c_nl c = true) /\
  (c_once c = ODone -> c_nl c = true).

Definition front_ok (lst : list node) (x : frontst) : Prop :=
  match x with
  | FNo => True
  | FNeed => lst <> []
  | FSel f => hd_error lst = Some f
  end.

Definition C_front (c : ccfg) : Prop :=
  forall t x, lookup t (pm frontof (c_thr c)) = Some x -> front_ok (c_lst c) x.

Definition bpend (c : ccfg) : Z :=
  match c_mu c with
  | Some t => match lookup t (pm bcast_holding (c_thr c)) with
              | Some true => Z.of_nat (length (c_lst c))
              | _ => 0
              end
  | None => 0
  end.

Definition C_ledger (c : ccfg) : Prop :=
  g_sig c + g_bcast c =
  g_nil c + Z.of_nat (length (c_tok c)) + g_drop c + sumZ (pm owed (c_thr c)) + bpend c.

Record Inv (c : ccfg) : Prop := {
  i_nodup : C_nodup c; i_mu : C_mu c; i_L : C_L c; i_size : C_size c; i_ctx : C_ctx c; i_once : C_once c;
  i_front : C_front c; i_ledger : C_ledger c }.

(* common opening of a preservation proof for the event EStep *)
Ltac open_step H p so Hl Hs :=
  apply exec1_step_inv in H; destruct H as (p & so & Hl & Hs & -> & _).

(* the projection f of the stepping thread is unchanged: the clause's table is unchanged *)
Ltac same_pm f Hl :=
  rewrite (pm_update_same f _ _ _ _ Hl) by reflexivity.

Lemma holder_unique c t t2 :
  C_mu c -> lookup t (pm holds_mu (c_thr c)) = Some true -> lookup t2 (pm holds_mu (c_thr c)) = Some true -> t2 = t.
Proof. intros [H1 _] Ha Hb. apply H1 in Ha. apply H1 in Hb. congruence. Qed.

Lemma mu_pres c e c' obs : Inv c -> cond_exec1 c e = Some (c', obs) -> C_mu c'.
Proof.
  intros I H. pose proof (i_mu c I) as [M1 M2]. pose proof (i_nodup c I) as Hnd. unfold C_mu.
  destruct e as [t op|t o|t].
  - apply exec1_call_inv in H. destruct H as [Hl Hsh].
    assert (Hsp : forall p0, holds_mu p0 = false ->
              (forall t0, lookup t0 (pm holds_mu (spawn t p0 (c_thr c))) = Some true -> c_mu c = Some t0) /\
              (forall t0, c_mu c = Some t0 -> lookup t0 (pm holds_mu (spawn t p0 (c_thr c))) = Some true)).
    { intros p0 Hp. rewrite pm_spawn. split; intros t0; rewrite lookup_spawn.
      - destruct (lookup t0 (pm holds_mu (c_thr c))) eqn:E; [intros X; injection X as ->; apply M1, E|].
        destruct (Nat.eqb t0 t); [rewrite Hp|]; discriminate.
      - intros X. rewrite (M2 _ X). reflexivity. }
    destruct Hsh; scfg; try (apply Hsp; reflexivity). split; assumption.
  - open_step H p so Hl Hs.
    pose proof (lookup_pm_some holds_mu _ _ _ Hl) as Hlm.
    (* the three shapes: unchanged, acquire, release (by move or by return) *)
    assert (Hsame : forall p', holds_mu p' = holds_mu p ->
       (forall t0, lookup t0 (pm holds_mu (update t p' (c_thr c))) = Some true -> c_mu c = Some t0) /\
       (forall t0, c_mu c = Some t0 -> lookup t0 (pm holds_mu (update t p' (c_thr c))) = Some true)).
    { intros p' Hp. rewrite (pm_update_same holds_mu _ _ _ _ Hl Hp). split; assumption. }
    assert (Hacq : forall p', c_mu c = None -> holds_mu p' = true ->
       (forall t0, lookup t0 (pm holds_mu (update t p' (c_thr c))) = Some true -> Some t = Some t0) /\
       (forall t0, Some t = Some t0 -> lookup t0 (pm holds_mu (update t p' (c_thr c))) = Some true)).
    { intros p' Hm Hp. rewrite pm_update, Hp. split; intros t0 X.
      - lk_update X t0 t Hlm; [reflexivity|]. apply M1 in X. congruence.
      - injection X as <-. apply (lookup_update_same _ _ _ _ _ Hlm). }
    assert (Hrel : forall p', holds_mu p = true -> holds_mu p' = false ->
       (forall t0, lookup t0 (pm holds_mu (update t p' (c_thr c))) = Some true -> None = Some t0) /\
       (forall t0, @None tid = Some t0 -> lookup t0 (pm holds_mu (update t p' (c_thr c))) = Some true)).
    { intros p' Hp Hp'. rewrite pm_update, Hp'. rewrite Hp in Hlm. split; intros t0 X; [|discriminate].
      lk_update X t0 t Hlm; [discriminate|]. exfalso. pose proof (M1 _ X). pose proof (M1 _ Hlm). congruence. }
    assert (Hfin1 : holds_mu p = true ->
       (forall t0, lookup t0 (pm holds_mu (remove t (c_thr c))) = Some true -> None = Some t0) /\
       (forall t0, @None tid = Some t0 -> lookup t0 (pm holds_mu (remove t (c_thr c))) = Some true)).
    { intros Hp. rewrite pm_remove. rewrite Hp in Hlm. split; intros t0 X; [|discriminate].
      destruct (Nat.eq_dec t0 t) as [->|Hne].
      - rewrite lookup_remove_same in X; [discriminate|rewrite tids_pm; exact Hnd].
      - rewrite lookup_remove_other in X by exact Hne. pose proof (M1 _ X). pose proof (M1 _ Hlm). congruence. }
    assert (Hfin0 : holds_mu p = false ->
       (forall t0, lookup t0 (pm holds_mu (remove t (c_thr c))) = Some true -> c_mu c = Some t0) /\
       (forall t0, c_mu c = Some t0 -> lookup t0 (pm holds_mu (remove t (c_thr c))) = Some true)).
    { intros Hp. rewrite pm_remove. rewrite Hp in Hlm. split; intros t0 X.
      - destruct (Nat.eq_dec t0 t) as [->|Hne].
        + rewrite lookup_remove_same in X; [discriminate|rewrite tids_pm; exact Hnd].
        + rewrite lookup_remove_other in X by exact Hne. apply M1, X.
      - destruct (Nat.eq_dec t0 t) as [->|Hne].
        + apply M2 in X. congruence.
        + rewrite lookup_remove_other by exact Hne. apply M2, X. }
    destruct p; inv_step Hs; dctx; try wake_same holds_mu Hl Hnd;
      try (apply Hsame; reflexivity);
      try (apply Hacq; reflexivity);
      try (apply Hrel; reflexivity);
      try (apply Hfin1; reflexivity);
      try (apply Hfin0; reflexivity).
  - apply exec1_cancel_inv in H. destruct H as (p & Hl & _ & _ & [(n & -> & ->)|[_ ->]]); scfg.
    + same_pm holds_mu Hl. split; assumption.
    + split; assumption.
Qed.

(* ---------- clauses of the form "flag f of a thread implies P" ---------- *)
Lemma flag_update (f : cpc -> bool) (P P' : tid -> Prop) t p p' thr :
  lookup t thr = Some p ->
  (forall t0, lookup t0 (pm f thr) = Some true -> P t0) ->
  (forall t0, t0 <> t -> P t0 -> P' t0) ->
  (f p' = true -> P' t) ->
  forall t0, lookup t0 (pm f (update t p' thr)) = Some true -> P' t0.
Proof.
  intros Hl Hold Hfr Hnew t0 X. rewrite pm_update in X.
  pose proof (lookup_pm_some f _ _ _ Hl) as Hlm.
  lk_update X t0 t Hlm.
  - injection X as X. apply Hnew, X.
  - apply Hfr; [assumption|]. apply Hold, X.
Qed.

Lemma flag_remove (f : cpc -> bool) (P P' : tid -> Prop) t thr :
  NoDup (tids thr) ->
  (forall t0, lookup t0 (pm f thr) = Some true -> P t0) ->
  (forall t0, t0 <> t -> P t0 -> P' t0) ->
  forall t0, lookup t0 (pm f (remove t thr)) = Some true -> P' t0.
Proof.
  intros Hnd Hold Hfr t0 X. rewrite pm_remove in X.
  destruct (Nat.eq_dec t0 t) as [->|Hne].
  - rewrite lookup_remove_same in X; [discriminate|rewrite tids_pm; exact Hnd].
  - rewrite lookup_remove_other in X by exact Hne. apply Hfr; [exact Hne|]. apply Hold, X.
Qed.

Lemma flag_spawn (f : cpc -> bool) (P P' : tid -> Prop) t p0 thr :
  lookup t thr = None ->
  (forall t0, lookup t0 (pm f thr) = Some true -> P t0) ->
  (forall t0, t0 <> t -> P t0 -> P' t0) ->
  (f p0 = true -> P' t) ->
  forall t0, lookup t0 (pm f (spawn t p0 thr)) = Some true -> P' t0.
Proof.
  intros Hl Hold Hfr Hnew t0 X. rewrite pm_spawn, lookup_spawn in X.
  destruct (lookup t0 (pm f thr)) eqn:E.
  - injection X as ->. apply Hfr; [|apply Hold, E]. intros ->. rewrite lookup_pm, Hl in E. discriminate.
  - destruct (Nat.eqb t0 t) eqn:E2; [|discriminate]. apply Nat.eqb_eq in E2. subst. injection X as X. apply Hnew, X.
Qed.

Lemma L_pres c e c' obs : Inv c -> cond_exec1 c e = Some (c', obs) -> C_L c'.
Proof.
  intros I H. pose proof (i_L c I) as HL. pose proof (i_nodup c I) as Hnd. unfold C_L in *.
  destruct e as [t op|t o|t].
  - apply exec1_call_inv in H. destruct H as [Hl Hsh].
    destruct Hsh; scfg.
    + eapply flag_spawn; [exact Hl|exact HL| |reflexivity]. intros t0 _ X. congruence.
    + eapply flag_spawn; [exact Hl|exact HL| |cbn; intros XX; discriminate XX]. auto.
    + eapply flag_spawn; [exact Hl|exact HL| |cbn; intros XX; discriminate XX]. auto.
    + intros t0 X. pose proof (HL _ X) as Y. rewrite H in Y. injection Y as <-.
      rewrite lookup_pm, Hl in X. discriminate.
  - open_step H p so Hl Hs.
    pose proof (lookup_pm_some holds_L _ _ _ Hl) as Hlm.
    destruct p; inv_step Hs; dctx; try wake_same holds_L Hl Hnd;
      try (same_pm holds_L Hl; exact HL);
      try (eapply flag_update; [exact Hl|exact HL|auto|cbn; intros XX; discriminate XX]);
      try (eapply flag_remove; [exact Hnd|exact HL|auto]).
    all: try match goal with E : Nat.eqb _ _ = true |- _ => apply Nat.eqb_eq in E; subst end.
    all: intros t1 Hne X; congruence.
  - apply exec1_cancel_inv in H. destruct H as (p & Hl & _ & _ & [(n & -> & ->)|[_ ->]]); scfg.
    + same_pm holds_L Hl. exact HL.
    + exact HL.
Qed.

(* ---------- clauses over an arbitrary projection ---------- *)
Lemma val_update {B} (f : cpc -> B) (P P' : tid -> B -> Prop) t p p' thr :
  lookup t thr = Some p ->
  (forall t0 x, lookup t0 (pm f thr) = Some x -> P t0 x) ->
  (forall t0 x, t0 <> t -> lookup t0 (pm f thr) = Some x -> P t0 x -> P' t0 x) ->
  P' t (f p') ->
  forall t0 x, lookup t0 (pm f (update t p' thr)) = Some x -> P' t0 x.
Proof.
  intros Hl Hold Hfr Hnew t0 x X. rewrite pm_update in X.
  pose proof (lookup_pm_some f _ _ _ Hl) as Hlm.
  lk_update X t0 t Hlm.
  - injection X as <-. exact Hnew.
  - apply Hfr; [assumption|exact X|]. apply Hold, X.
Qed.

Lemma val_remove {B} (f : cpc -> B) (P P' : tid -> B -> Prop) t thr :
  NoDup (tids thr) ->
  (forall t0 x, lookup t0 (pm f thr) = Some x -> P t0 x) ->
  (forall t0 x, t0 <> t -> lookup t0 (pm f thr) = Some x -> P t0 x -> P' t0 x) ->
  forall t0 x, lookup t0 (pm f (remove t thr)) = Some x -> P' t0 x.
Proof.
  intros Hnd Hold Hfr t0 x X. rewrite pm_remove in X.
  destruct (Nat.eq_dec t0 t) as [->|Hne].
  - rewrite lookup_remove_same in X; [discriminate|rewrite tids_pm; exact Hnd].
  - rewrite lookup_remove_other in X by exact Hne. apply Hfr; [exact Hne|exact X|]. apply Hold, X.
Qed.

Lemma val_spawn {B} (f : cpc -> B) (P P' : tid -> B -> Prop) t p0 thr :
  lookup t thr = None ->
  (forall t0 x, lookup t0 (pm f thr) = Some x -> P t0 x) ->
  (forall t0 x, t0 <> t -> lookup t0 (pm f thr) = Some x -> P t0 x -> P' t0 x) ->
  P' t (f p0) ->
  forall t0 x, lookup t0 (pm f (spawn t p0 thr)) = Some x -> P' t0 x.
Proof.
  intros Hl Hold Hfr Hnew t0 x X. rewrite pm_spawn, lookup_spawn in X.
  destruct (lookup t0 (pm f thr)) eqn:E.
  - injection X as ->. apply Hfr; [|exact E|apply Hold, E]. intros ->. rewrite lookup_pm, Hl in E. discriminate.
  - destruct (Nat.eqb t0 t) eqn:E2; [|discriminate]. apply Nat.eqb_eq in E2. subst. injection X as <-. exact Hnew.
Qed.

Lemma ctx_pres c e c' obs : Inv c -> cond_exec1 c e = Some (c', obs) -> C_ctx c'.
Proof.
  intros I H. pose proof (i_ctx c I) as HC. pose proof (i_nodup c I) as Hnd. unfold C_ctx in *.
  destruct e as [t op|t o|t].
  - apply exec1_call_inv in H. destruct H as [Hl Hsh].
    destruct Hsh; scfg; try exact HC.
    + eapply flag_spawn; [exact Hl|exact HC| |cbn; intros XX; discriminate XX].
      intros t0 Hne X. apply in_remove_node_other; assumption.
    + eapply flag_spawn; [exact Hl|exact HC|auto|cbn; intros XX; discriminate XX].
    + eapply flag_spawn; [exact Hl|exact HC|auto|cbn; intros XX; discriminate XX].
  - open_step H p so Hl Hs.
    pose proof (lookup_pm_some in_ctx _ _ _ Hl) as Hlm.
    destruct p; inv_step Hs; dctx; try wake_same in_ctx Hl Hnd;
      try (same_pm in_ctx Hl; exact HC);
      try (eapply flag_update; [exact Hl|exact HC|auto|cbn; intros XX; discriminate XX]);
      try (eapply flag_remove; [exact Hnd|exact HC|auto]).
    (* the outer select takes the ctx case: the thread was cancelled *)
    eapply flag_update; [exact Hl|exact HC|auto|]. intros _. apply mem_nat_in. assumption.
  - apply exec1_cancel_inv in H. destruct H as (p & Hl & _ & _ & [(n & -> & ->)|[_ ->]]); scfg.
    + eapply flag_update; [exact Hl|exact HC| |intros _; left; reflexivity]. intros t0 _ X. right; exact X.
    + intros t0 X. right. apply HC, X.
Qed.

Ltac by_old O :=
  let tt := fresh "tt" in let XX := fresh "XX" in intros tt XX; pose proof (O tt XX); congruence.
Ltac frame_cong :=
  let tt := fresh "tt" in let Hne := fresh "Hne" in let XX := fresh "XX" in intros tt Hne XX; congruence.
Ltac new_flag extra :=
  let XX := fresh "XX" in cbn; intros XX; first [discriminate XX|congruence|extra|reflexivity].

Lemma once_pres c e c' obs : Inv c -> cond_exec1 c e = Some (c', obs) -> C_once c'.
Proof.
  intros I H. pose proof (i_once c I) as (O1 & O2 & O3). pose proof (i_nodup c I) as Hnd. unfold C_once.
  destruct e as [t op|t o|t].
  - apply exec1_call_inv in H. destruct H as [Hl Hsh].
    destruct Hsh; scfg; try (split; [|split]; assumption);
      (split; [|split]; [|
         eapply flag_spawn; [exact Hl|exact O2|auto|cbn; intros XX; discriminate XX] | exact O3]);
      intros t0 X; rewrite pm_spawn, lookup_spawn in X;
      (destruct (lookup t0 (pm runs_once (c_thr c))) eqn:E; [injection X as ->; apply O1, E|]);
      (destruct (Nat.eqb t0 t); discriminate X).
  - open_step H p so Hl Hs.
    pose proof (lookup_pm_some runs_once _ _ _ Hl) as Hl1.
    pose proof (lookup_pm_some past_fu _ _ _ Hl) as Hl2.
    pose proof Hl1 as Hl1'. pose proof Hl2 as Hl2'.
    destruct p; inv_step Hs; dctx; try wake_same runs_once Hl Hnd; try wake_same past_fu Hl Hnd;
      cbn in Hl1', Hl2'; try (pose proof (O1 _ Hl1') as Orun); try (pose proof (O2 _ Hl2') as Opast).
    all: split; [|split];
      [ first [ same_pm runs_once Hl; by_old O1
              | eapply flag_update; [exact Hl|exact O1|frame_cong
                                    |new_flag fail]
              | eapply flag_remove; [exact Hnd|exact O1|frame_cong] ]
      | first [ same_pm past_fu Hl; by_old O2
              | eapply flag_update; [exact Hl|exact O2|frame_cong
                                    |new_flag ltac:(apply O3; reflexivity)]
              | eapply flag_remove; [exact Hnd|exact O2|frame_cong] ]
      | first [ exact O3 | intros XX; first [discriminate XX|congruence|reflexivity|apply O3; reflexivity] ] ].
  - apply exec1_cancel_inv in H. destruct H as (p & Hl & _ & _ & [(n & -> & ->)|[_ ->]]); scfg.
    + split; [|split]; [same_pm runs_once Hl; exact O1|same_pm past_fu Hl; exact O2|exact O3].
    + split; [|split]; assumption.
Qed.

(* ---------- list length vs size counter ---------- *)
Lemma size_pres c e c' obs : Inv c -> cond_exec1 c e = Some (c', obs) -> C_size c'.
Proof.
  intros I H. pose proof (i_size c I) as HS. pose proof (i_nodup c I) as Hnd. unfold C_size in *.
  destruct e as [t op|t o|t].
  - apply exec1_call_inv in H. destruct H as [Hl Hsh].
    destruct Hsh; scfg; rewrite ?pm_spawn, ?sumZ_spawn; cbn [delta]; lia.
  - open_step H p so Hl Hs.
    pose proof (lookup_pm_some delta _ _ _ Hl) as Hlm.
    destruct p; inv_step Hs; dctx; try wake_same delta Hl Hnd;
      rewrite ?pm_update, ?pm_remove, ?(sumZ_update _ _ _ _ Hlm), ?(sumZ_remove _ _ _ Hlm);
      cbn [delta after_checkcopy after_firstuse] in *; rewrite ?app_length; cbn [length]; try lia;
      try (match goal with E : c_lst _ = _ :: _ |- _ => rewrite ?E end; cbn [length] in *; lia).
    all: match goal with E : mem_nat ?m ?ll = true |- _ =>
           apply mem_nat_in in E; pose proof (length_remove_node _ _ E) end; lia.
  - apply exec1_cancel_inv in H. destruct H as (p & Hl & _ & _ & [(n & -> & ->)|[_ ->]]); scfg.
    + same_pm delta Hl. exact HS.
    + exact HS.
Qed.

(* everything a thread does to the list, it does under l.mu *)
Lemma frontof_mu p : frontof p <> FNo -> holds_mu p = true.
Proof. destruct p; cbn; congruence. Qed.
Lemma delta_mu p : delta p <> 0 -> holds_mu p = true.
Proof. destruct p; cbn; congruence. Qed.

(* another thread than the holder of l.mu has projection value of a non-holder *)
Lemma other_not_holder c t t0 p0 :
  C_mu c -> lookup t (pm holds_mu (c_thr c)) = Some true -> t0 <> t ->
  lookup t0 (c_thr c) = Some p0 -> holds_mu p0 = false.
Proof.
  intros M Ht Hne Hl. destruct (holds_mu p0) eqn:E; [|reflexivity]. exfalso. apply Hne.
  eapply holder_unique; [exact M|exact Ht|]. rewrite lookup_pm, Hl. cbn. rewrite E. reflexivity.
Qed.

Lemma in_remove_tbl {A} (l : list (tid * A)) t t0 x :
  NoDup (tids l) -> In (t0, x) (remove t l) -> In (t0, x) l /\ t0 <> t.
Proof.
  induction l as [|[t' p'] r IH]; cbn [remove tids map fst]; [cbn; tauto|].
  intros Hnd. inversion Hnd as [|y ys Hy Hys]; subst.
  destruct (Nat.eqb t t') eqn:E.
  - apply Nat.eqb_eq in E. subst t'. intros Hi. split; [right; exact Hi|].
    intros ->. apply Hy. change (In t (map fst r)). apply (in_map fst) in Hi. exact Hi.
  - apply Nat.eqb_neq in E. intros [Hi|Hi].
    + injection Hi as -> ->. split; [left; reflexivity|congruence].
    + destruct (IH Hys Hi) as [Ha Hb]. split; [right; exact Ha|exact Hb].
Qed.

Lemma sumZ_zero (X : list (tid * Z)) : (forall t0 z0, In (t0, z0) X -> z0 = 0) -> sumZ X = 0.
Proof.
  induction X as [|[t' z'] r IH]; cbn [sumZ]; [reflexivity|].
  intros Hz. rewrite (Hz t' z') by (left; reflexivity). rewrite IH; [reflexivity|].
  intros t0 z0 Hi. apply (Hz t0 z0). right; exact Hi.
Qed.

Lemma sumZ_single (X : list (tid * Z)) t z :
  NoDup (tids X) -> lookup t X = Some z ->
  (forall t0 z0, t0 <> t -> lookup t0 X = Some z0 -> z0 = 0) -> sumZ X = z.
Proof.
  intros Hnd Hl Hz. pose proof (sumZ_remove _ _ _ Hl) as Hr.
  rewrite sumZ_zero in Hr; [lia|].
  intros t0 z0 Hi. destruct (in_remove_tbl _ _ _ _ Hnd Hi) as [Ha Hb].
  apply (Hz t0 z0 Hb). apply in_lookup; assumption.
Qed.

(* while the holder of l.mu is not inside pushBack / remove, the counter is the length of the list *)
Lemma size_is_length c t p :
  Inv c -> lookup t (c_thr c) = Some p -> holds_mu p = true -> delta p = 0 ->
  c_size c = Z.of_nat (length (c_lst c)).
Proof.
  intros I Hl Hm Hd. pose proof (i_size c I) as HS. unfold C_size in HS.
  rewrite (sumZ_single (pm delta (c_thr c)) t 0) in HS; [lia| | |].
  - rewrite tids_pm. apply (i_nodup c I).
  - rewrite lookup_pm, Hl. cbn. rewrite Hd. reflexivity.
  - intros t0 z0 Hne X. apply lookup_pm_inv in X. destruct X as (p0 & Hl0 & <-).
    destruct (Z.eq_dec (delta p0) 0) as [E|E]; [exact E|]. apply delta_mu in E.
    assert (holds_mu p0 = false); [|congruence].
    eapply other_not_holder; [apply (i_mu c I)| |exact Hne|exact Hl0].
    rewrite lookup_pm, Hl. cbn. rewrite Hm. reflexivity.
Qed.

(* ---------- notifyNext always finds a front node ---------- *)
Lemma front_pres c e c' obs : Inv c -> cond_exec1 c e = Some (c', obs) -> C_front c'.
Proof.
  intros I H. pose proof (i_front c I) as HF. pose proof (i_nodup c I) as Hnd. pose proof (i_mu c I) as HM.
  unfold C_front in *.
  destruct e as [t op|t o|t].
  - apply exec1_call_inv in H. destruct H as [Hl Hsh].
    destruct Hsh; scfg; try exact HF; (eapply val_spawn; [exact Hl|exact HF|auto|exact Logic.I]).
  - open_step H p so Hl Hs.
    pose proof (lookup_pm_some frontof _ _ _ Hl) as Hlm.
    pose proof (lookup_pm_some holds_mu _ _ _ Hl) as Hlmu.
    (* frame for the steps that change the list: only the holder of l.mu looks at the front *)
    assert (Hfr : forall lst', holds_mu p = true ->
              forall t0 x, t0 <> t -> lookup t0 (pm frontof (c_thr c)) = Some x ->
                           front_ok (c_lst c) x -> front_ok lst' x).
    { intros lst' Hp t0 x Hne X _. apply lookup_pm_inv in X. destruct X as (p0 & Hl0 & <-).
      destruct (frontof p0) eqn:E; cbn; [exact Logic.I| |]; exfalso;
        (assert (Hh : holds_mu p0 = true) by (apply frontof_mu; congruence));
        rewrite Hp in Hlmu; rewrite (other_not_holder c t t0 p0 HM Hlmu Hne Hl0) in Hh; discriminate. }
    pose proof (size_is_length c t p I Hl) as Hsz.
    destruct p; inv_step Hs; dctx; try wake_same frontof Hl Hnd;
      try (same_pm frontof Hl; exact HF);
      try (eapply val_remove; [exact Hnd|exact HF|auto]; fail);
      try (eapply val_update; [exact Hl|exact HF|auto|exact Logic.I]; fail);
      try (eapply val_update; [exact Hl|exact HF|apply Hfr; reflexivity|exact Logic.I]; fail).
    all: try match goal with E : c_lst _ = _ :: _ |- _ => rewrite ?E end.
    all: eapply val_update; [exact Hl|exact HF|auto|]; cbn.
    all: try (intros E; specialize (Hsz eq_refl eq_refl); rewrite E in Hsz; cbn in Hsz; lia).
    all: reflexivity.
  - apply exec1_cancel_inv in H. destruct H as (p & Hl & _ & _ & [(n & -> & ->)|[_ ->]]); scfg.
    + same_pm frontof Hl. exact HF.
    + exact HF.
Qed.

(* ---------- the token ledger ---------- *)
Definition bpend_raw (mu : option tid) (X : list (tid * bool)) (len : Z) : Z :=
  match mu with
  | Some t => match lookup t X with Some true => len | _ => 0 end
  | None => 0
  end.

Lemma bpend_eq c : bpend c = bpend_raw (c_mu c) (pm bcast_holding (c_thr c)) (Z.of_nat (length (c_lst c))).
Proof. reflexivity. Qed.

Lemma braw_holder t X len b : lookup t X = Some b -> bpend_raw (Some t) X len = if b then len else 0.
Proof. intros H. unfold bpend_raw. rewrite H. destruct b; reflexivity. Qed.

Lemma braw_other_update mu t b X len : mu <> Some t -> bpend_raw mu (update t b X) len = bpend_raw mu X len.
Proof.
  intros H. unfold bpend_raw. destruct mu as [h|]; [|reflexivity].
  rewrite lookup_update_other; [reflexivity|congruence].
Qed.

Lemma braw_other_remove mu t X len : mu <> Some t -> bpend_raw mu (remove t X) len = bpend_raw mu X len.
Proof.
  intros H. unfold bpend_raw. destruct mu as [h|]; [|reflexivity].
  rewrite lookup_remove_other; [reflexivity|congruence].
Qed.

Lemma braw_other_spawn mu t b X len : mu <> Some t -> bpend_raw mu (spawn t b X) len = bpend_raw mu X len.
Proof.
  intros H. unfold bpend_raw. destruct mu as [h|]; [|reflexivity].
  rewrite lookup_spawn. destruct (lookup h X); [reflexivity|].
  destruct (Nat.eqb h t) eqn:E; [apply Nat.eqb_eq in E; congruence|reflexivity].
Qed.

Lemma bh_mu p : bcast_holding p = true -> holds_mu p = true.
Proof. destruct p; cbn; try congruence; dctx; cbn; congruence. Qed.

(* changing the length argument does not matter when the holder is not a broadcaster *)
Lemma braw_len_irrel mu X len len' :
  (forall t, mu = Some t -> lookup t X <> Some true) -> bpend_raw mu X len = bpend_raw mu X len'.
Proof.
  intros H. unfold bpend_raw. destruct mu as [h|]; [|reflexivity].
  specialize (H h eq_refl). destruct (lookup h X) as [[|]|]; congruence.
Qed.

Lemma ledger_pres c e c' obs : Inv c -> cond_exec1 c e = Some (c', obs) -> C_ledger c'.
Proof.
  intros I H. pose proof (i_ledger c I) as HG. pose proof (i_nodup c I) as Hnd. pose proof (i_mu c I) as [M1 M2].
  unfold C_ledger in *. rewrite bpend_eq in *.
  destruct e as [t op|t o|t].
  - apply exec1_call_inv in H. destruct H as [Hl Hsh].
    assert (Hne : c_mu c <> Some t).
    { intros X. apply M2 in X. rewrite lookup_pm, Hl in X. discriminate. }
    destruct Hsh; scfg; rewrite ?pm_spawn, ?sumZ_spawn, ?(braw_other_spawn _ _ _ _ _ Hne); cbn [owed]; lia.
  - open_step H p so Hl Hs.
    pose proof (lookup_pm_some owed _ _ _ Hl) as Hlo.
    pose proof (lookup_pm_some bcast_holding _ _ _ Hl) as Hlb.
    pose proof (lookup_pm_some holds_mu _ _ _ Hl) as Hlm.
    assert (Hh : holds_mu p = true -> c_mu c = Some t) by (intros X; rewrite X in Hlm; apply M1, Hlm).
    assert (Hn : holds_mu p = false -> c_mu c <> Some t).
    { intros X Y. apply M2 in Y. rewrite Hlm, X in Y. discriminate. }
    pose proof (size_is_length c t p I Hl) as Hsz.
    destruct p; inv_step Hs; dctx; try wake_same bcast_holding Hl Hnd;
      cbn [holds_mu delta] in Hh, Hn, Hsz; try (specialize (Hsz eq_refl eq_refl));
      try match goal with Hf : find_parked ?n _ = Some ?u |- _ =>
            pose proof (find_parked_lookup _ _ _ Hnd Hf) as Hu;
            assert (Hut : u <> t) by (intros ->; rewrite Hl in Hu; discriminate);
            pose proof (lookup_pm_some owed _ _ _ Hu) as Huo; cbn [owed] in Huo end;
      try match goal with E : andb _ _ = true |- _ => apply andb_prop in E; destruct E as [E _] end;
      first [specialize (Hn eq_refl); clear Hh | specialize (Hh eq_refl); clear Hn; rewrite Hh in *;
             rewrite (braw_holder _ _ _ _ Hlb) in HG].
    all: rewrite ?pm_update, ?pm_remove.
    all: try (rewrite (sumZ_update _ 1 0) by (rewrite ?lookup_update_other, ?lookup_remove_other by exact Hut; exact Huo)).
    all: rewrite ?(sumZ_update _ _ _ _ Hlo), ?(sumZ_remove _ _ _ Hlo).
    all: try (rewrite ?(braw_other_update _ _ _ _ _ Hn), ?(braw_other_remove _ _ _ _ Hn)).
    all: try (erewrite (braw_holder t) by (eapply lookup_update_same; exact Hlb)).
    all: cbn [bpend_raw owed bcast_holding after_checkcopy after_firstuse] in *.
    all: rewrite ?app_length; cbn [length] in *.
    all: try match goal with E : c_lst _ = _ :: _ |- _ => rewrite ?E in *; cbn [length] in * end.
    all: try match goal with E : mem_nat ?m ?ll = true |- _ =>
           apply mem_nat_in in E; pose proof (length_remove_node _ _ E) end.
    all: lia.
  - apply exec1_cancel_inv in H. destruct H as (p & Hl & _ & _ & [(n & -> & ->)|[_ ->]]); scfg.
    + same_pm owed Hl. same_pm bcast_holding Hl. exact HG.
    + exact HG.
Qed.

(* ---------- the first group of clauses is inductive ---------- *)
Lemma inv_pres c e c' obs : Inv c -> cond_exec1 c e = Some (c', obs) -> Inv c'.
Proof.
  intros I H. constructor.
  - eapply nodup_pres; [apply (i_nodup c I)|exact H].
  - eapply mu_pres; eassumption.
  - eapply L_pres; eassumption.
  - eapply size_pres; eassumption.
  - eapply ctx_pres; eassumption.
  - eapply once_pres; eassumption.
  - eapply front_pres; eassumption.
  - eapply ledger_pres; eassumption.
Qed.

Lemma inv_init copied : Inv (cond_init copied).
Proof.
  constructor.
  - constructor.
  - split; intros t H; discriminate H.
  - intros t H; discriminate H.
  - reflexivity.
  - intros t H; discriminate H.
  - split; [|split]; try (intros t H; discriminate H). destruct copied; cbn; congruence.
  - intros t x H; discriminate H.
  - reflexivity.
Qed.
