(* Proofs about SliceMemModel2 (C16): the remaining functions at header level. *)
From Ekit Require Import Common SliceModel SliceProof SliceProof2 SliceProof3 SliceMemModel SliceMemProof SliceMemModel2.
From Coq Require Import ZifyBool.

(* ---------- readers ---------- *)
Lemma find_loop_spec mt st s : wfs st s -> forall n i, (i + n = mlen s)%nat ->
  find_loop mt st (hdr_of s) i n = Ok (find mt (skipn i (contents_s st s))).
Proof.
  intros Hw. induction n as [|n IH]; intros i Hin; cbn [find_loop].
  - rewrite skipn_all2 by (rewrite contents_s_length by exact Hw; lia). reflexivity.
  - destruct (get_step st s i Hw) as [v [Hload Hskip]]; [lia|].
    rewrite Hload, Hskip. cbn [obind find]. destruct (mt v); [reflexivity|]. apply IH. lia.
Qed.
Lemma find_m_lemma mt st s : wfs st s -> find_m mt st s = Ok (find mt (contents_s st s)).
Proof. intros Hw. unfold find_m. rewrite (find_loop_spec mt st s Hw) by lia. reflexivity. Qed.

Lemma all_loop_spec p st s : wfs st s -> forall n i, (i + n = mlen s)%nat ->
  all_loop p st (hdr_of s) i n = Ok (forallb p (skipn i (contents_s st s))).
Proof.
  intros Hw. induction n as [|n IH]; intros i Hin; cbn [all_loop].
  - rewrite skipn_all2 by (rewrite contents_s_length by exact Hw; lia). reflexivity.
  - destruct (get_step st s i Hw) as [v [Hload Hskip]]; [lia|].
    rewrite Hload, Hskip. cbn [obind forallb]. destruct (p v); [|reflexivity]. apply IH. lia.
Qed.

Lemma contains_any_m_lemma st src dst : wfs st src -> wfs st dst ->
  contains_any_m st src dst = Ok (contains_any (contents_s st src) (contents_s st dst)).
Proof.
  intros Hs Hd. unfold contains_any_m. rewrite (to_map_m_lemma st src Hs). cbn [obind].
  rewrite (contains_loop_spec _ st dst Hd) by lia. reflexivity.
Qed.
Lemma contains_all_m_lemma st src dst : wfs st src -> wfs st dst ->
  contains_all_m st src dst = Ok (contains_all (contents_s st src) (contents_s st dst)).
Proof.
  intros Hs Hd. unfold contains_all_m. rewrite (to_map_m_lemma st src Hs). cbn [obind].
  rewrite (all_loop_spec _ st dst Hd) by lia. reflexivity.
Qed.

Lemma any_func_loop_spec equal st src dst : wfs st src -> wfs st dst -> forall n i, (i + n = mlen dst)%nat ->
  any_func_loop equal st src (hdr_of dst) i n =
  Ok (existsb (fun vd => existsb (fun vs => equal vs vd) (contents_s st src)) (skipn i (contents_s st dst))).
Proof.
  intros Hs Hd. induction n as [|n IH]; intros i Hin; cbn [any_func_loop].
  - rewrite skipn_all2 by (rewrite contents_s_length by exact Hd; lia). reflexivity.
  - destruct (get_step st dst i Hd) as [v [Hload Hskip]]; [lia|].
    rewrite Hload, Hskip. cbn [obind existsb]. rewrite (contains_func_m_lemma st src _ Hs). cbn [obind].
    unfold contains_func. destruct (existsb (fun vs => equal vs v) (contents_s st src)); [reflexivity|]. apply IH. lia.
Qed.
Lemma contains_any_func_m_lemma equal st src dst : wfs st src -> wfs st dst ->
  contains_any_func_m equal st src dst = Ok (contains_any_func equal (contents_s st src) (contents_s st dst)).
Proof. intros Hs Hd. unfold contains_any_func_m. rewrite (any_func_loop_spec equal st src dst Hs Hd) by lia. reflexivity. Qed.

Lemma all_func_loop_spec equal st src dst : wfs st src -> wfs st dst -> forall n i, (i + n = mlen dst)%nat ->
  all_func_loop equal st src (hdr_of dst) i n =
  Ok (forallb (fun vd => contains_func (contents_s st src) (fun s => equal s vd)) (skipn i (contents_s st dst))).
Proof.
  intros Hs Hd. induction n as [|n IH]; intros i Hin; cbn [all_func_loop].
  - rewrite skipn_all2 by (rewrite contents_s_length by exact Hd; lia). reflexivity.
  - destruct (get_step st dst i Hd) as [v [Hload Hskip]]; [lia|].
    rewrite Hload, Hskip. cbn [obind forallb]. rewrite (contains_func_m_lemma st src _ Hs). cbn [obind].
    destruct (contains_func (contents_s st src) (fun s => equal s v)); [|reflexivity]. apply IH. lia.
Qed.
Lemma contains_all_func_m_lemma equal st src dst : wfs st src -> wfs st dst ->
  contains_all_func_m equal st src dst = Ok (contains_all_func equal (contents_s st src) (contents_s st dst)).
Proof. intros Hs Hd. unfold contains_all_func_m. rewrite (all_func_loop_spec equal st src dst Hs Hd) by lia. reflexivity. Qed.

Lemma to_map_v_m_lemma fk fv st s : wfs st s -> to_map_v_m fk fv st s = Ok (to_map_v fk fv (contents_s st s)).
Proof. intros Hw. unfold to_map_v_m. rewrite (range_fold_spec _ st s Hw) by lia. reflexivity. Qed.

Lemma max_m_lemma st s : wfs st s -> max_m st s = max_slice (contents_s st s).
Proof.
  intros Hw. unfold max_m. destruct (contents_s st s) as [|x t] eqn:Hc.
  - rewrite (load_contents st s 0 Hw), Hc. reflexivity.
  - assert (Hl : mlen s = S (length t)) by (rewrite <- (contents_s_length st s Hw), Hc; reflexivity).
    rewrite (load_contents st s 0 Hw), Hc. cbn [get_chk nth_opt obind].
    rewrite (range_fold_spec _ st s Hw) by lia. rewrite Hc. reflexivity.
Qed.
Lemma min_m_lemma st s : wfs st s -> min_m st s = min_slice (contents_s st s).
Proof.
  intros Hw. unfold min_m. destruct (contents_s st s) as [|x t] eqn:Hc.
  - rewrite (load_contents st s 0 Hw), Hc. reflexivity.
  - assert (Hl : mlen s = S (length t)) by (rewrite <- (contents_s_length st s Hw), Hc; reflexivity).
    rewrite (load_contents st s 0 Hw), Hc. cbn [get_chk nth_opt obind].
    rewrite (range_fold_spec _ st s Hw) by lia. rewrite Hc. reflexivity.
Qed.

Lemma mapx_loop_spec st ks vs : wfs st ks -> wfs st vs -> mlen ks = mlen vs -> forall n i m, (i + n = mlen ks)%nat ->
  mapx_loop st (hdr_of ks) (hdr_of vs) i n m =
  Ok (fold_left (fun m kv => map_put (fst kv) (snd kv) m)
                (combine (skipn i (contents_s st ks)) (skipn i (contents_s st vs))) m).
Proof.
  intros Hk Hv Hl. induction n as [|n IH]; intros i m Hin; cbn [mapx_loop].
  - rewrite skipn_all2 by (rewrite contents_s_length by exact Hk; lia). reflexivity.
  - destruct (get_step st ks i Hk) as [k [Hlk Hsk]]; [lia|].
    destruct (get_step st vs i Hv) as [v [Hlv Hsv]]; [lia|].
    rewrite Hlk, Hlv, Hsk, Hsv. cbn [obind combine fold_left fst snd]. apply IH. lia.
Qed.
Lemma mapx_to_map_m_lemma st keys values : wfs st keys -> wfs st values ->
  mapx_to_map_m st keys values =
  mapx_to_map (match keys with Some _ => Some (contents_s st keys) | None => None end)
              (match values with Some _ => Some (contents_s st values) | None => None end).
Proof.
  intros Hk Hv. destruct keys as [hk|], values as [hv|]; cbn [mapx_to_map_m mapx_to_map]; try reflexivity.
  rewrite (contents_s_length st (Some hk) Hk), (contents_s_length st (Some hv) Hv).
  destruct (Nat.eqb_spec (mlen (Some hk)) (mlen (Some hv))) as [He|Hne]; cbn [negb]; [|reflexivity].
  rewrite (mapx_loop_spec st (Some hk) (Some hv) Hk Hv He) by lia. reflexivity.
Qed.

Lemma skipn_add (l : list Z) : forall a b, skipn (a + b) l = skipn b (skipn a l).
Proof.
  intros a. revert l. induction a as [|a IH]; intros l b; [reflexivity|].
  destruct l as [|x t]; cbn [Nat.add skipn]; [rewrite skipn_nil; reflexivity|apply IH].
Qed.

(* ---------- composition of results ---------- *)
Lemma keeps_trans st0 st1 st2 : keeps st0 st1 -> keeps st1 st2 -> keeps st0 st2.
Proof.
  intros H1 H2. pose proof (keeps_len _ _ H1) as Hl. unfold keeps in *.
  rewrite <- H2 in H1. rewrite firstn_firstn in H1. rewrite Nat.min_l in H1 by lia. exact H1.
Qed.
Lemma pure_result_trans st0 st1 o w : keeps st0 st1 -> pure_result st1 o w -> pure_result st0 o w.
Proof.
  intros Hk [st' [h [Ho [Hk' [Hge [Hw Hc]]]]]]. exists st', h. split; [exact Ho|].
  split; [apply (keeps_trans st0 st1 st' Hk Hk')|]. split; [pose proof (keeps_len _ _ Hk); lia|]. split; assumption.
Qed.

Section WithExtra3.
  Variable extra : nat -> nat.

  (* ---------- deduplicateFunc ---------- *)
  Lemma reslice_tail st h i : wf st h -> (i < h_len h)%nat ->
    exists tl, reslice (Some h) (i + 1) (h_len h) = Ok (Some tl) /\ wf st tl /\
               contents st tl = skipn (S i) (contents st h).
  Proof.
    intros [Ha [Hl Hc]] Hi. unfold reslice.
    assert (Hr : ((i + 1 <=? h_len h)%nat && (h_len h <=? h_cap h)%nat)%bool = true).
    { apply andb_true_intro. split; apply Nat.leb_le; lia. }
    rewrite Hr. eexists. split; [reflexivity|]. split.
    - unfold wf. cbn [h_arr h_off h_len h_cap]. split; [exact Ha|]. split; lia.
    - unfold contents. cbn [h_arr h_off h_len]. rewrite skipn_firstn_comm.
      replace (h_off h + (i + 1))%nat with (h_off h + S i)%nat by lia. rewrite skipn_add.
      replace (h_len h - (i + 1))%nat with (h_len h - S i)%nat by lia. reflexivity.
  Qed.

  Definition dedup_gl (equal : Z -> Z -> bool) (L : list Z) (i : nat) (v : Z) : option Z :=
    if contains_func (skipn (S i) L) (fun s => equal s v) then None else Some v.

  Lemma dedup_cond_spec equal st0 data st i v : wfs st0 data -> keeps st0 st -> (i < mlen data)%nat ->
    dedup_cond equal data st i v = Ok (dedup_gl equal (contents_s st0 data) i v).
  Proof.
    intros Hw Hk Hi. destruct data as [h|]; [|unfold mlen in Hi; cbn [hdr_of nil_hdr h_len] in Hi; lia].
    destruct (wfs_keeps st0 st (Some h) Hk Hw) as [Hw' Hc']. cbn [wfs contents_s] in Hw', Hc'.
    unfold mlen in Hi. cbn [hdr_of] in Hi.
    destruct (reslice_tail st h i Hw' Hi) as [tl [Hr [Hwt Hct]]].
    unfold dedup_cond, mlen. cbn [hdr_of]. rewrite Hr. cbn [obind].
    rewrite (contains_func_m_lemma st (Some tl) _ Hwt). cbn [obind contents_s]. rewrite Hct, Hc'.
    unfold dedup_gl. cbn [contents_s]. destruct (contains_func (skipn (S i) (contents st0 h)) (fun s => equal s v)); reflexivity.
  Qed.

  Lemma fm_list_dedup equal L : forall l pre, L = pre ++ l ->
    fm_list (dedup_gl equal L) (length pre) l = deduplicate_func equal l.
  Proof.
    induction l as [|v t IH]; intros pre HL; [reflexivity|].
    cbn [fm_list deduplicate_func]. unfold dedup_gl at 1.
    assert (Hsk : skipn (S (length pre)) L = t).
    { rewrite HL. replace (S (length pre)) with (length (pre ++ [v])) by (rewrite app_length; cbn [length]; lia).
      replace (pre ++ v :: t) with ((pre ++ [v]) ++ t) by (rewrite <- app_assoc; reflexivity).
      rewrite skipn_app, skipn_all, Nat.sub_diag. reflexivity. }
    rewrite Hsk.
    assert (HIH : fm_list (dedup_gl equal L) (S (length pre)) t = deduplicate_func equal t).
    { replace (S (length pre)) with (length (pre ++ [v])) by (rewrite app_length; cbn [length]; lia).
      apply IH. rewrite HL, <- app_assoc. reflexivity. }
    destruct (contains_func t (fun s => equal s v)); rewrite HIH; reflexivity.
  Qed.

  Lemma deduplicate_func_m_lemma equal st data : wfs st data ->
    pure_result st (deduplicate_func_m extra equal st data) (deduplicate_func equal (contents_s st data)).
  Proof.
    intros Hw. unfold deduplicate_func_m.
    destruct (fm_loop_spec extra st data (dedup_cond equal data) (dedup_gl equal (contents_s st data)) Hw
                (fun st' i v Hk Hi => dedup_cond_spec equal st data st' i v Hw Hk Hi) (mlen data) 0 _ _ []
                (make_fresh st st (mlen data) (keeps_refl st)) eq_refl) as [st' [ret' [Hl Hf]]].
    exists st', ret'. unfold ret_some. rewrite Hl. cbn [obind fst snd skipn app] in *. split; [reflexivity|].
    rewrite <- (fm_list_dedup equal (contents_s st data) (contents_s st data) [] eq_refl). exact Hf.
  Qed.

  (* ---------- the four ...Func set functions ---------- *)
  Lemma fm_list_all (l : list Z) : forall i, fm_list (fun _ v => Some v) i l = l.
  Proof. induction l as [|v t IH]; intros i; cbn [fm_list]; [reflexivity|]. rewrite IH. reflexivity. Qed.
  Lemma fm_list_filter (p : Z -> bool) (l : list Z) : forall i,
    fm_list (fun _ v => if p v then Some v else None) i l = filter p l.
  Proof. induction l as [|v t IH]; intros i; cbn [fm_list filter]; [reflexivity|]. destruct (p v); rewrite IH; reflexivity. Qed.

  (* one filter-append phase over an OLD slice s into a fresh ret *)
  Lemma phase_spec st0 s (g : store -> nat -> Z -> outcome (option Z)) (p : Z -> bool) st ret w : wfs st0 s ->
    (forall st' i v, keeps st0 st' -> g st' i v = Ok (if p v then Some v else None)) ->
    fresh st0 st ret w ->
    exists st' ret', fm_loop extra g st (hdr_of s) 0 (mlen s) ret = Ok (st', ret') /\
                     fresh st0 st' ret' (w ++ filter p (contents_s st0 s)).
  Proof.
    intros Hw Hg Hf.
    destruct (fm_loop_spec extra st0 s g (fun _ v => if p v then Some v else None) Hw
                (fun st' i v Hk _ => Hg st' i v Hk) (mlen s) 0 st ret w Hf eq_refl) as [st' [ret' [Hl Hf']]].
    exists st', ret'. split; [exact Hl|]. cbn [skipn] in Hf'. rewrite fm_list_filter in Hf'. exact Hf'.
  Qed.

  Lemma contains_cond_spec st0 other (equal : Z -> Z -> bool) (neg : bool) st' v : wfs st0 other -> keeps st0 st' ->
    obind (contains_func_m st' other (fun t => equal t v)) (fun b => Ok (if (if neg then negb b else b) then Some v else None)) =
    Ok (if (if neg then negb (contains_func (contents_s st0 other) (fun t => equal t v))
            else contains_func (contents_s st0 other) (fun t => equal t v)) then Some v else None).
  Proof.
    intros Hw Hk. destruct (wfs_keeps st0 st' other Hk Hw) as [Hw' Hc'].
    rewrite (contains_func_m_lemma st' other _ Hw'), Hc'. reflexivity.
  Qed.

  Lemma finish_dedup equal st0 st1 ret1 w : fresh st0 st1 ret1 w ->
    pure_result st0 (deduplicate_func_m extra equal st1 (Some ret1)) (deduplicate_func equal w).
  Proof.
    intros [Hk [Hge [Hw Hc]]]. apply (pure_result_trans st0 st1 _ _ Hk).
    rewrite <- Hc. apply (deduplicate_func_m_lemma equal st1 (Some ret1) Hw).
  Qed.

  Lemma diff_set_func_m_lemma equal st src dst : wfs st src -> wfs st dst ->
    pure_result st (diff_set_func_m extra equal st src dst) (diff_set_func equal (contents_s st src) (contents_s st dst)).
  Proof.
    intros Hs Hd. unfold diff_set_func_m, diff_set_func.
    destruct (phase_spec st src _ (fun v => negb (contains_func (contents_s st dst) (fun s => equal s v))) _ _ [] Hs
                (fun st' i v Hk => contains_cond_spec st dst equal true st' v Hd Hk)
                (make_fresh st st (mlen src) (keeps_refl st))) as [st1 [ret1 [Hl Hf]]].
    rewrite Hl. cbn [obind fst snd app] in *. apply (finish_dedup equal st st1 ret1 _ Hf).
  Qed.

  Lemma intersect_set_func_m_lemma equal st src dst : wfs st src -> wfs st dst ->
    pure_result st (intersect_set_func_m extra equal st src dst)
                (intersect_set_func equal (contents_s st src) (contents_s st dst)).
  Proof.
    intros Hs Hd. unfold intersect_set_func_m, intersect_set_func.
    destruct (phase_spec st dst _ (fun v => contains_func (contents_s st src) (fun t => equal t v)) _ _ [] Hd
                (fun st' i v Hk => contains_cond_spec st src equal false st' v Hs Hk)
                (make_fresh st st (mlen src) (keeps_refl st))) as [st1 [ret1 [Hl Hf]]].
    rewrite Hl. cbn [obind fst snd app] in *. apply (finish_dedup equal st st1 ret1 _ Hf).
  Qed.

  Lemma append_slice_spec st0 s st ret w : wfs st0 s -> fresh st0 st ret w ->
    exists st' ret', append_slice extra st ret s = Ok (st', ret') /\ fresh st0 st' ret' (w ++ contents_s st0 s).
  Proof.
    intros Hw Hf. unfold append_slice.
    destruct (fm_loop_spec extra st0 s (fun _ _ v => Ok (Some v)) (fun _ v => Some v) Hw
                (fun _ _ _ _ _ => eq_refl) (mlen s) 0 st ret w Hf eq_refl) as [st' [ret' [Hl Hf']]].
    exists st', ret'. split; [exact Hl|]. cbn [skipn] in Hf'. rewrite fm_list_all in Hf'. exact Hf'.
  Qed.

  Lemma union_set_func_m_lemma equal st src dst : wfs st src -> wfs st dst ->
    pure_result st (union_set_func_m extra equal st src dst) (union_set_func equal (contents_s st src) (contents_s st dst)).
  Proof.
    intros Hs Hd. unfold union_set_func_m, union_set_func.
    destruct (append_slice_spec st dst _ _ [] Hd (make_fresh st st (mlen src + mlen dst) (keeps_refl st))) as [st1 [r1 [Hl1 Hf1]]].
    rewrite Hl1. cbn [obind fst snd app] in *.
    destruct (append_slice_spec st src st1 r1 _ Hs Hf1) as [st2 [r2 [Hl2 Hf2]]].
    rewrite Hl2. cbn [obind fst snd]. apply (finish_dedup equal st st2 r2 _ Hf2).
  Qed.

  Lemma symdiff_set_func_m_lemma equal st src dst : wfs st src -> wfs st dst ->
    pure_result st (symdiff_set_func_m extra equal st src dst) (symdiff_set_func equal (contents_s st src) (contents_s st dst)).
  Proof.
    intros Hs Hd. unfold symdiff_set_func_m, symdiff_set_func.
    destruct (phase_spec st src _ (fun v => negb (contains_func (contents_s st dst) (fun t => equal t v))) _ _ [] Hs
                (fun st' i v Hk => contains_cond_spec st dst equal true st' v Hd Hk)
                (make_fresh st st 0 (keeps_refl st))) as [st1 [r1 [Hl1 Hf1]]].
    rewrite Hl1. cbn [obind fst snd app] in *.
    destruct (phase_spec st dst _ (fun v => negb (contains_func (contents_s st src) (fun t => equal t v))) st1 r1 _ Hd
                (fun st' i v Hk => contains_cond_spec st src equal true st' v Hs Hk) Hf1) as [st2 [r2 [Hl2 Hf2]]].
    rewrite Hl2. cbn [obind fst snd]. apply (finish_dedup equal st st2 r2 _ Hf2).
  Qed.
End WithExtra3.
