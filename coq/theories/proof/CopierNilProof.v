(* Proofs about CopierNilModel (C20, the entry points after the nil-argument fix). *)
From Ekit Require Import Common CopierModel CopierProof CopierProof2 CopierProof3 CopierNilModel.

(* ------------------------------------------------------------ ReflectCopier.CopyTo / Copy *)
Lemma reflect_now_agrees_lemma : forall c st dt src dv ps,
  reflect_copy_to_now c st dt src (Some dv) ps =
    (fst (reflect_copy_to c st dt src (Some dv) ps), NStat (snd (reflect_copy_to c st dt src (Some dv) ps))).
Proof.
  intros. unfold reflect_copy_to_now. destruct (reflect_copy_to c st dt src (Some dv) ps); reflexivity.
Qed.

Lemma reflect_copy_now_agrees_lemma : forall c st dt src ps,
  reflect_copy_now c st dt src ps =
    (fst (reflect_copy c st dt src ps), NStat (snd (reflect_copy c st dt src ps))).
Proof. intros. unfold reflect_copy_now, reflect_copy. apply reflect_now_agrees_lemma. Qed.

Lemma copy_total_now_lemma : forall st dt ps c src dst cps,
  new_reflect_copier st dt ps = COk c ->
  Forall opt_ok ps -> Forall opt_ok cps ->
  match src with None => True | Some sv => has_type st sv = true end ->
  match dst with None => True | Some dv => has_type dt dv = true end ->
  snd (reflect_copy_to_now c st dt src dst cps) <> NStat SPanic /\
  snd (reflect_copy_now c st dt src cps) <> NStat SPanic.
Proof.
  intros st dt ps c src dst cps Hnew Hps Hcps Hsrc Hdst. split.
  - destruct dst as [dv|]; [|cbn; discriminate].
    rewrite reflect_now_agrees_lemma. cbn [snd]. intros E. inversion E as [E'].
    exact (proj1 (copy_total_lemma _ _ _ _ _ _ _ Hnew Hps Hcps Hsrc Hdst) E').
  - rewrite reflect_copy_now_agrees_lemma. cbn [snd]. intros E. inversion E as [E'].
    exact (proj2 (copy_total_lemma _ _ _ _ _ (zero_value dt) _ Hnew Hps Hcps Hsrc (has_type_zero dt)) E').
Qed.

Lemma reflect_nil_dst_lemma : forall c st dt src ps,
  reflect_copy_to_now c st dt src None ps = (None, NNil) /\
  forall dv, snd (reflect_copy_to_now c st dt src (Some dv) ps) <> NNil.
Proof.
  intros. split; [reflexivity|]. intros dv. rewrite reflect_now_agrees_lemma. cbn. discriminate.
Qed.

(* before the fix *)
Lemma nil_dst_panicked_lemma : forall st dt ps c sv cps,
  new_reflect_copier st dt ps = COk c ->
  snd (reflect_copy_to_pinned c st dt (Some sv) None cps) = NStat SPanic /\
  snd (reflect_copy_to_now c st dt (Some sv) None cps) = NNil.
Proof.
  intros st dt ps c sv cps Hnew. split; [|reflexivity].
  pose proof (copyto_nil_dst_panics_lemma _ _ _ _ sv cps Hnew) as H.
  unfold reflect_copy_to_pinned. destruct (reflect_copy_to c st dt (Some sv) None cps) as [r s].
  cbn in *. rewrite H. reflexivity.
Qed.

(* ------------------------------------------------------------ the package-level CopyTo *)
Lemma pure_entry_agrees : forall sty sv dty dv e,
  pure_entry_error sty dty = Some e -> pure_copy_to sty sv dty dv = (dv, SErr e).
Proof.
  intros sty sv dty dv e H. unfold pure_entry_error in H. unfold pure_copy_to.
  destruct sty; try (inversion H; reflexivity).
  destruct (negb (is_struct_kind sty)); [inversion H; reflexivity|].
  destruct dty; try (inversion H; reflexivity).
  destruct (negb (is_struct_kind dty)); [inversion H; reflexivity|discriminate H].
Qed.

Lemma pure_now_agrees_lemma : forall sty a dty b,
  pure_copy_to_now (Some (sty, VPtr (Some a))) (Some (dty, VPtr (Some b))) =
    (Some (fst (pure_copy_to sty (VPtr (Some a)) dty (VPtr (Some b)))),
     NStat (snd (pure_copy_to sty (VPtr (Some a)) dty (VPtr (Some b))))).
Proof.
  intros. unfold pure_copy_to_now. destruct (pure_entry_error sty dty) as [e|] eqn:E.
  - rewrite (pure_entry_agrees _ _ _ _ _ E). reflexivity.
  - cbn [is_nil_ptr orb]. destruct (pure_copy_to sty (VPtr (Some a)) dty (VPtr (Some b))); reflexivity.
Qed.

Definition arg_typed (a : anyarg) : Prop :=
  match a with None => True | Some (t, v) => has_type t v = true end.

Lemma pure_copy_total_now_lemma : forall s d,
  arg_typed s -> arg_typed d -> snd (pure_copy_to_now s d) <> NStat SPanic.
Proof.
  intros [[sty sv]|] [[dty dv]|] Hs Hd; try (cbn; discriminate).
  unfold pure_copy_to_now. destruct (pure_entry_error sty dty) as [e|] eqn:E; [cbn; discriminate|].
  unfold pure_entry_error in E.
  destruct sty as [| | |st| | | |]; try discriminate E.
  destruct (is_struct_kind st) eqn:Es; cbn [negb] in E; [|discriminate E].
  destruct dty as [| | |dt| | | |]; try discriminate E.
  destruct (is_struct_kind dt) eqn:Ed; cbn [negb] in E; [|discriminate E].
  cbn in Hs, Hd.
  destruct sv as [z|x|fs|[a|]|x|m|z]; try discriminate Hs; [|cbn; discriminate].
  destruct dv as [z|x|fs|[b|]|x|m|z]; try discriminate Hd; [|cbn; discriminate].
  cbn [is_nil_ptr orb].
  pose proof (pure_copy_total_lemma st dt a b Hs Hd) as H.
  destruct (pure_copy_to (Ptr st) (VPtr (Some a)) (Ptr dt) (VPtr (Some b))) as [x stt]. cbn in *.
  intros E2. inversion E2 as [E3]. exact (H E3).
Qed.

(* exactly which argument shapes give errNilPointer, and nothing is written then *)
Lemma pure_nil_args_lemma : forall s d,
  (snd (pure_copy_to_now s d) = NNil <->
   (s = None \/ d = None \/
    exists sty sv dty dv, s = Some (sty, sv) /\ d = Some (dty, dv) /\
      pure_entry_error sty dty = None /\ (is_nil_ptr sv || is_nil_ptr dv) = true)) /\
  (snd (pure_copy_to_now s d) = NNil -> fst (pure_copy_to_now s d) = option_map snd d).
Proof.
  intros [[sty sv]|] [[dty dv]|]; cbn [pure_copy_to_now].
  - destruct (pure_entry_error sty dty) as [e|] eqn:E.
    + split; [|cbn; discriminate]. split; [cbn; discriminate|].
      intros [H|[H|[a [b [c0 [d0 [H1 [H2 [H3 _]]]]]]]]]; try discriminate H.
      inversion H1; inversion H2; subst. rewrite E in H3. discriminate H3.
    + destruct (is_nil_ptr sv || is_nil_ptr dv) eqn:En.
      * split; [|reflexivity]. split; [|reflexivity]. intros _. right; right.
        exists sty, sv, dty, dv. repeat split; assumption.
      * destruct (pure_copy_to sty sv dty dv) as [x stt]. split; [|cbn; discriminate].
        split; [cbn; discriminate|].
        intros [H|[H|[a [b [c0 [d0 [H1 [H2 [_ H4]]]]]]]]]; try discriminate H.
        inversion H1; inversion H2; subst. rewrite En in H4. discriminate H4.
  - split; [|reflexivity]. split; [|reflexivity]. intros _. right; left; reflexivity.
  - split; [|reflexivity]. split; [|reflexivity]. intros _. left; reflexivity.
  - split; [|reflexivity]. split; [|reflexivity]. intros _. left; reflexivity.
Qed.

Lemma pure_pinned_lemma : forall s d,
  (s = None \/ d = None -> snd (pure_copy_to_pinned s d) = NStat SPanic) /\
  (forall st dt a, is_struct_kind st = true -> is_struct_kind dt = true ->
     snd (pure_copy_to_pinned (Some (Ptr st, VPtr None)) (Some (Ptr dt, VPtr (Some a)))) = NStat SPanic /\
     snd (pure_copy_to_now (Some (Ptr st, VPtr None)) (Some (Ptr dt, VPtr (Some a)))) = NNil).
Proof.
  intros s d. split.
  - intros [H|H]; subst; [reflexivity|]. destruct s as [[t v]|]; reflexivity.
  - intros st dt a Hs Hd. unfold pure_copy_to_pinned, pure_copy_to_now, pure_copy_to, pure_entry_error.
    rewrite Hs, Hd. cbn. split; reflexivity.
Qed.
