(* Instances of lib/Linz.v (linearisation-point form => textbook form), part 1:
     - every model built on the LinSys framework of model/LockedModel.v (ghost history of HCall / HLin /
       HRet events, OLDEST first; theorems [seq_legal] + [thread_hist]): the generic lock-bracketed
       object, ConcurrentPriorityQueue, ConcurrentList, CopyOnWriteArrayList, syncx.Map;
     - ConcurrentLinkedBlockingQueue (model/LBQModel.v; ghost history NEWEST first; theorems [lin_run]
       + [phase]; a call that gives up with the context's error has no marked step: it is
       linearised at its response, and the specification allows Enqueue/Dequeue to return the
       context's error without effect in any state).
   Each instance maps the model's ghost history to the thread-tagged history of Linz.v, shows the
   hypotheses of [tagged_textbook] from the model's proved linearisation-point theorem, and
   obtains: the visible history (invocations and responses, calls numbered (thread, k)) is well
   formed and linearizable in the textbook sense, the sequential witness ending in the current
   abstract state. *)
From Ekit Require Import Common Conc Linz LockedModel CowModel SyncMapModel LockedProof CowProof SyncMapProof.
From Coq Require Import Arith PeanoNat.

(* ====================================================================================== *)
Section LinSysInst.
  Variables (state op ret : Type).
  Variable seq_step : state -> op -> state * ret.

  Definition ls_conv (e : hev op ret) : tev op ret :=
    match e with
    | HCall t o => TCall t o
    | HLin t o r => TLin t o r
    | HRet t _ r => TRet t r
    end.

  (* the thread-tagged history, newest first *)
  Definition ls_tagged (h : list (hev op ret)) : list (tev op ret) := rev (map ls_conv h).

  (* the visible history of a LinSys model: chronological, calls numbered (thread, k) *)
  Definition ls_history (h : list (hev op ret)) : list (event opid op ret) := vnumber (ls_tagged h).

  Definition ls_phase (ph : phase op ret) : tphase op ret :=
    match ph with PhIdle => TIdle | PhCalled o => TCalled o | PhLinned o r => TLinned o r end.

  Lemma ls_tagged_snoc h e : ls_tagged (h ++ [e]) = ls_conv e :: ls_tagged h.
  Proof. unfold ls_tagged. rewrite map_app, rev_app_distr. reflexivity. Qed.

  Lemma ls_thread_hist t h ph :
    thread_hist t h ph -> tphase_of no_late t (ls_tagged h) (ls_phase ph).
  Proof.
    intros H. induction H as [|h ph e H IH Hne|h o H IH|h o r H IH|h o r H IH]; rewrite ?ls_tagged_snoc.
    - constructor.
    - apply tp_other; [destruct e; exact Hne|exact IH].
    - eapply tp_own; [reflexivity|exact IH|constructor].
    - eapply tp_own; [reflexivity|exact IH|constructor].
    - eapply tp_own; [reflexivity|exact IH|constructor].
  Qed.

  Lemma ls_tlins h : tlins (ls_tagged h) = lin_ops h.
  Proof.
    induction h as [|e h IH] using rev_ind; [reflexivity|].
    rewrite ls_tagged_snoc, lin_ops_app. destruct e as [t o|t o r|t o r]; cbn [ls_conv tlins lin_ops].
    - rewrite app_nil_r. exact IH.
    - rewrite IH. reflexivity.
    - rewrite app_nil_r. exact IH.
  Qed.

  Lemma ls_seq_legal s l s' : seq_legal seq_step s l s' -> legal (fun_step seq_step) s l s'.
  Proof.
    revert s. induction l as [|[o r] l IH]; intros s H; cbn [seq_legal] in H.
    - subst. constructor.
    - destruct H as [Hr Hl]. econstructor; [|apply IH, Hl].
      unfold fun_step. rewrite <- Hr. apply surjective_pairing.
  Qed.

  (* the generic step for LinSys models: [seq_legal] + [thread_hist] => textbook form; the witness
     is the sequence of calls in the order of their HLin events *)
  Theorem linsys_witness s0 h s' :
    seq_legal seq_step s0 (lin_ops h) s' ->
    (forall t, exists ph, thread_hist t h ph) ->
    hist_wf fst (ls_history h) /\
    linearization_of (fun_step seq_step) s0 (ls_history h) s' (twitness (ls_tagged h)).
  Proof.
    intros Hleg Hth.
    assert (W : twf no_late (ls_tagged h)).
    { intros t. destruct (Hth t) as [ph Hph]. exists (ls_phase ph). apply ls_thread_hist, Hph. }
    assert (L : legal (fun_step seq_step) s0 (treplay (ls_tagged h)) s').
    { rewrite (treplay_no_late _ _ no_late); [|intros o r []|exact W].
      rewrite ls_tlins. apply ls_seq_legal, Hleg. }
    split.
    - exact (proj1 (tagged_textbook (fun_step seq_step) no_late s0 _ s' W L)).
    - exact (tagged_textbook_witness _ _ _ (fun_step seq_step) no_late s0 _ s' W L).
  Qed.

  Theorem linsys_textbook s0 h s' :
    seq_legal seq_step s0 (lin_ops h) s' ->
    (forall t, exists ph, thread_hist t h ph) ->
    hist_wf fst (ls_history h) /\ linearizable_to (fun_step seq_step) s0 (ls_history h) s'.
  Proof.
    intros Hleg Hth. destruct (linsys_witness s0 h s' Hleg Hth) as [H1 H2].
    split; [exact H1|]. eapply linearization_of_linearizable, H2.
  Qed.
End LinSysInst.

Arguments ls_conv {op ret}. Arguments ls_tagged {op ret}. Arguments ls_history {op ret}.

(* ---------- the lock-bracketed objects ---------- *)
Lemma locked_object_textbook_lemma (state op ret : Type) (seq_step : state -> op -> state * ret)
      (excl mutating : op -> bool) :
  (forall o, mutating o = true -> excl o = true) ->
  (forall s o, mutating o = false -> fst (seq_step s o) = s) ->
  forall s0 evs c, exec (lk_step seq_step excl) (sys_init (lk_init s0)) evs = Some c ->
    hist_wf fst (ls_history (s_hist c)) /\
    linearizable_to (fun_step seq_step) s0 (ls_history (s_hist c)) (lk_st (s_sh c)).
Proof.
  intros Hex Hro s0 evs c He.
  destruct (locked_object_linearizable_lemma state op ret seq_step excl mutating Hex Hro s0 evs c He)
    as (_ & _ & _ & _ & _ & Hleg & Hth & _).
  apply linsys_textbook; [exact Hleg|]. intros t. eexists. apply Hth.
Qed.

Lemma locked_object_witness_lemma (state op ret : Type) (seq_step : state -> op -> state * ret)
      (excl mutating : op -> bool) :
  (forall o, mutating o = true -> excl o = true) ->
  (forall s o, mutating o = false -> fst (seq_step s o) = s) ->
  forall s0 evs c, exec (lk_step seq_step excl) (sys_init (lk_init s0)) evs = Some c ->
    hist_wf fst (ls_history (s_hist c)) /\
    linearization_of (fun_step seq_step) s0
                   (ls_history (s_hist c)) (lk_st (s_sh c)) (twitness (ls_tagged (s_hist c))).
Proof.
  intros Hex Hro s0 evs c He.
  destruct (locked_object_linearizable_lemma state op ret seq_step excl mutating Hex Hro s0 evs c He)
    as (_ & _ & _ & _ & _ & Hleg & Hth & _).
  apply linsys_witness; [exact Hleg|]. intros t. eexists. apply Hth.
Qed.

Lemma cpq_textbook_lemma capacity items evs c :
  exec cpq_step (cpq_init capacity items) evs = Some c ->
  hist_wf fst (ls_history (s_hist c)) /\
  linearizable_to (fun_step pq_seq_step) (lk_st (s_sh (cpq_init capacity items)))
                  (ls_history (s_hist c)) (lk_st (s_sh c)).
Proof.
  intros He.
  destruct (cpq_linearizable_lemma capacity items evs c He) as (_ & _ & _ & _ & _ & Hleg & Hth & _).
  apply linsys_textbook; [exact Hleg|]. intros t. eexists. apply Hth.
Qed.

Lemma cpq_witness_lemma capacity items evs c :
  exec cpq_step (cpq_init capacity items) evs = Some c ->
  hist_wf fst (ls_history (s_hist c)) /\
  linearization_of (fun_step pq_seq_step) (lk_st (s_sh (cpq_init capacity items)))
                   (ls_history (s_hist c)) (lk_st (s_sh c)) (twitness (ls_tagged (s_hist c))).
Proof.
  intros He.
  destruct (cpq_linearizable_lemma capacity items evs c He) as (_ & _ & _ & _ & _ & Hleg & Hth & _).
  apply linsys_witness; [exact Hleg|]. intros t. eexists. apply Hth.
Qed.

Lemma clist_textbook_lemma items evs c :
  exec clist_step (clist_init items) evs = Some c ->
  hist_wf fst (ls_history (s_hist c)) /\
  linearizable_to (fun_step ls_seq_step) items (ls_history (s_hist c)) (lk_st (s_sh c)).
Proof.
  intros He.
  destruct (clist_linearizable_lemma items evs c He) as (_ & _ & _ & _ & _ & Hleg & Hth & _).
  apply linsys_textbook; [exact Hleg|]. intros t. eexists. apply Hth.
Qed.

Lemma clist_witness_lemma items evs c :
  exec clist_step (clist_init items) evs = Some c ->
  hist_wf fst (ls_history (s_hist c)) /\
  linearization_of (fun_step ls_seq_step) items
                   (ls_history (s_hist c)) (lk_st (s_sh c)) (twitness (ls_tagged (s_hist c))).
Proof.
  intros He.
  destruct (clist_linearizable_lemma items evs c He) as (_ & _ & _ & _ & _ & Hleg & Hth & _).
  apply linsys_witness; [exact Hleg|]. intros t. eexists. apply Hth.
Qed.

(* ---------- CopyOnWriteArrayList ---------- *)
Lemma cow_textbook_lemma items evs c :
  exec cow_step (cow_init items) evs = Some c ->
  hist_wf fst (ls_history (s_hist c)) /\
  linearizable_to (fun_step ls_seq_step) items (ls_history (s_hist c)) (cw_vals (s_sh c)).
Proof.
  intros He. destruct (cow_linearizable_lemma items evs c He) as (Hleg & Hth & _).
  apply linsys_textbook; [exact Hleg|]. intros t. eexists. apply Hth.
Qed.

Lemma cow_witness_lemma items evs c :
  exec cow_step (cow_init items) evs = Some c ->
  hist_wf fst (ls_history (s_hist c)) /\
  linearization_of (fun_step ls_seq_step) items
                   (ls_history (s_hist c)) (cw_vals (s_sh c)) (twitness (ls_tagged (s_hist c))).
Proof.
  intros He. destruct (cow_linearizable_lemma items evs c He) as (Hleg & Hth & _).
  apply linsys_witness; [exact Hleg|]. intros t. eexists. apply Hth.
Qed.

(* ---------- syncx.Map ---------- *)
Lemma syncmap_textbook_lemma m0 evs c :
  exec sm_step (sm_init m0) evs = Some c ->
  hist_wf fst (ls_history (s_hist c)) /\
  linearizable_to (fun_step sm_seq_step) m0 (ls_history (s_hist c)) (s_sh c).
Proof.
  intros He. destruct (syncmap_linearizable_lemma m0 evs c He) as (Hleg & Hth & _).
  apply linsys_textbook; [exact Hleg|]. intros t. eexists. apply Hth.
Qed.

Lemma syncmap_witness_lemma m0 evs c :
  exec sm_step (sm_init m0) evs = Some c ->
  hist_wf fst (ls_history (s_hist c)) /\
  linearization_of (fun_step sm_seq_step) m0
                   (ls_history (s_hist c)) (s_sh c) (twitness (ls_tagged (s_hist c))).
Proof.
  intros He. destruct (syncmap_linearizable_lemma m0 evs c He) as (Hleg & Hth & _).
  apply linsys_witness; [exact Hleg|]. intros t. eexists. apply Hth.
Qed.
